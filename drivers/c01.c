/*
 * C01: calibrate-then-apply recovers the true S-parameters of any device.
 *
 * case = (type, dimensions, m|a/b, recipe, entry-point variant, M-matrix
 * abbreviation, port order, parameter kind, frequencies, error network);
 * inside a case the three DUTs of the alphabet are corrected.
 * Oracle: oracle/calsim.c (physical E-network wave equations).
 */
#include <complex.h>
#include <errno.h>
#include <math.h>
#include <stdio.h>
#include <string.h>
#include <unistd.h>
#include <vnacal.h>
#include "vf.h"
#include "calsim.h"

static const vnacal_type_t types[8] = {
    VNACAL_T8, VNACAL_U8, VNACAL_TE10, VNACAL_UE10,
    VNACAL_T16, VNACAL_U16, VNACAL_UE14, VNACAL_E12
};
static const int dimlist[10][2] = {	/* as rows<=cols; transposed for U */
    {1,1},{2,2},{1,2},{3,3},{1,3},{2,3},{4,4},{1,4},{2,4},{3,4}
};

static bool is_t(vnacal_type_t t)
{
    return t == VNACAL_T8 || t == VNACAL_TE10 || t == VNACAL_T16;
}

static int ndims(int tier, vnacal_type_t t)
{
    bool big = (t == VNACAL_T16 || t == VNACAL_U16);
    if (tier == 0)
	return big ? 3 : 6;
    return big ? 6 : 10;
}

#define NAB 2
#define NRECIPE 3
#define NEV 3
#define NAV 4
#define NPV 2
#define NKV 3
/* parameters created (and kept) before the scenario's own: the handles the
   standards use then start at 3, 8 or 16, i.e. at and around the sizes at
   which tables keyed by the handle begin and grow */
#define NFILL 3
static const int fillers[NFILL] = { 0, 5, 13 };
static int nnf(int tier)  { return tier ? 3 : 2; }
static int nnet(int tier) { return tier ? 3 : 1; }

/*
 * Part M: tabulated standards whose table has as many points as the
 * calibration and the same first and last frequency, with the points
 * between elsewhere; three and four calibration frequencies.
 */
static int g_m_nf;	/* > 0: part M, this many frequencies */
static long count_m(int tier)
{
    long n = 0;
    for (int t = 0; t < 8; ++t)
	n += (long)ndims(tier, types[t]);
    return n * NRECIPE * 2;
}

/*
 * Part N: the ideal instrument (what is measured is the S matrix itself)
 * with the predefined short, open and match: coefficients that are 0 and
 * +-1 and cancel exactly during the elimination.
 */
static int g_n_ideal;
static long count_n(int tier)
{
    long n = 0;
    for (int t = 0; t < 8; ++t)
	n += (long)ndims(tier, types[t]);
    return n * NRECIPE * NEV;
}

/*
 * Part O: column systems of unequal size.  For the types that are solved
 * column by column (UE14, E12) with two or more columns, the recipe gets one
 * more known reflect on port 2, and every reflect of a port other than the
 * first is added before anything else: the system of the first column is
 * exactly determined, that of the second is over-determined and begins
 * with equations that do not determine it by themselves.
 */
static int g_o_uneven;
static long count_o(int tier)
{
    long n = 0;
    for (int t = 0; t < 8; ++t)
	n += (long)ndims(tier, types[t]);
    return n * NRECIPE;
}

static long count_main(int tier)
{
    long n = 0;
    for (int t = 0; t < 8; ++t)
	n += (long)ndims(tier, types[t]);
    return n * NAB * NRECIPE * NEV * NAV * NPV * NKV * nnf(tier) * nnet(tier)
	* NFILL;
}

/*
 * Part L: a leakage path that is not there and is not looked at.  A 2x2
 * instrument of a leakage type leaks from port 2 into detector 1 but not
 * from port 1 into detector 2.  The reflects of port 2 are given as rows x 1
 * matrices (they see the first leakage), those of port 1 as 1x1, the
 * through in full: no measurement isolates the second leakage cell, the
 * library takes such a term as zero, and zero it is.  The device must be
 * recovered; the term of the unobserved cell must not pick up anything
 * from another cell.
 */
static const vnacal_type_t ltypes[4] = { VNACAL_TE10, VNACAL_UE10,
    VNACAL_UE14, VNACAL_E12 };
#define NPARTL (4 * 2 * 2)	/* type x which cell is silent x m / a,b */

static void l_add(cs_scenario *sc, int entry, int np, int p1, int p2,
	const int *sp, const cs_c *sv, bool ar, bool ac)
{
    cs_std *st = &sc->std[sc->nstd++];
    memset(st, 0, sizeof(*st));
    st->entry = entry;
    st->np = np;
    st->port[0] = p1;
    st->port[1] = p2;
    for (int i = 0; i < np * np; ++i) {
	st->sp[i] = sp ? sp[i] : -1;
	st->sv[i] = sv ? sv[i] : 0.0;
    }
    st->abbrev_rows = ar;
    st->abbrev_cols = ac;
    st->id = sc->nstd;
}

static void run_l(long idx, vf_result *r)
{
    static cs_scenario sc;
    static const cs_c through_v[4] = { 0, 1, 1, 0 };
    vf_errlog elog;
    int ab = (int)(idx % 2); idx /= 2;
    int silent = (int)(idx % 2); idx /= 2;	/* 0: cell (2,1), 1: (1,2) */
    vnacal_type_t type = ltypes[idx];
    vnacal_t *vcp = NULL;
    vnacal_new_t *vnp = NULL;
    /* the port whose reflects are given as 1x1 drives the silent cell */
    int narrow = silent ? 2 : 1, wide = 3 - narrow;
    cs_param p;

    memset(&sc, 0, sizeof(sc));
    cs_make_vna(&sc.vna, type, 2, 2, 2, 2);
    sc.ab = ab;
    for (int f = 0; f < sc.vna.nf; ++f)
	for (int sys = 0; sys < sc.vna.nsys; ++sys)
	    sc.vna.net[f][sys].El[(wide - 1) * 2 + (narrow - 1)] = 0.0;
    memset(&p, 0, sizeof(p));
    p.kind = CSP_PREDEF; p.handle = -1;
    p.predef = VNACAL_MATCH; sc.param[0] = p;
    p.predef = VNACAL_OPEN;  sc.param[1] = p;
    p.predef = VNACAL_SHORT; sc.param[2] = p;
    sc.nparam = 3;
    l_add(&sc, CSE_THROUGH, 2, 1, 2, NULL, through_v, false, false);
    for (int k = 0; k < 3; ++k) {
	int h = k;
	/* U types drive by column: the wide matrix keeps every row of the
	   driven column; for T types it is the same cells */
	l_add(&sc, CSE_SINGLE, 1, wide, 0, &h, NULL, false, true);
	l_add(&sc, CSE_SINGLE, 1, narrow, 0, &h, NULL, true, true);
    }
    vf_desc(r, "part L: %s 2x2 %s, no leakage from port %d into detector "
	    "%d and no measurement of that cell (reflects of port %d as 1x1, "
	    "of port %d as 2x1, through in full)",
	    vnacal_type_to_name(type), ab ? "a/b" : "m", narrow, wide,
	    narrow, wide);
    vf_errlog_reset(&elog);
    vcp = vnacal_create((vnaerr_error_fn_t *)vf_errfn, &elog);
    if (vcp == NULL || cs_make_params(vcp, &sc) != 0 ||
	    (vnp = cs_build(vcp, &sc)) == NULL) {
	vf_fail(r, "l:setup", "set-up failed: %s",
		elog.count ? elog.msg[0] : "?");
	goto out;
    }
    r->transitions += sc.nstd + 1;
    if (vnacal_new_solve(vnp) != 0 ||
	    vnacal_add_calibration(vcp, "c01", vnp) < 0) {
	char sig[100];
	snprintf(sig, sizeof(sig), "l:solve-failed:%s",
		vnacal_type_to_name(type));
	vf_fail(r, sig, "solve failed: %s", elog.count ? elog.msg[0] : "");
	goto out;
    }
    for (int k = 0; k < 3; ++k) {
	cs_c Sd[CS_MAXF][CS_MAXP * CS_MAXP];
	int arc;
	for (int f = 0; f < sc.vna.nf; ++f)
	    cs_dut(&sc.vna, k, f, Sd[f]);
	double e = cs_apply_error(vcp, vnacal_find_calibration(vcp, "c01"),
		&sc, Sd, &arc);
	++r->transitions;
	if (arc != 0 || !(e <= 1e-8)) {
	    char sig[100];
	    snprintf(sig, sizeof(sig), "l:apply-wrong:%s",
		    vnacal_type_to_name(type));
	    vf_fail(r, sig, "apply returned %d; corrected S-parameters of "
		    "DUT #%d differ from the truth by %.3e: the leakage term "
		    "of the cell nobody measured is not zero?", arc, k, e);
	    goto out;
	}
    }
    r->nontrivial = 1;
    vf_outcome(r, "part L recovered");
out:
    if (vnp != NULL)
	vnacal_new_free(vnp);
    if (vcp != NULL)
	vnacal_free(vcp);
}

static long count(int tier)
{
    return count_main(tier) + NPARTL + count_m(tier) + count_n(tier)
	+ count_o(tier);
}

static void run(int tier, long idx, vf_result *r)
{
    static cs_scenario sc;
    g_m_nf = 0;
    g_n_ideal = 0;
    g_o_uneven = 0;
    if (idx >= count_main(tier) + NPARTL + count_m(tier) + count_n(tier)) {
	long m = idx - count_main(tier) - NPARTL - count_m(tier) -
	    count_n(tier);
	g_o_uneven = 1;
	int recipe_o = vf_digit(&m, NRECIPE);
	idx = ((((((((m * NAB + 0) * NRECIPE + recipe_o) * NEV + 0) * NAV
				+ 0) * NPV + 0) * NKV + 2) * nnf(tier) + 0)
		* nnet(tier) + 0) * NFILL + 0;
    } else if (idx >= count_main(tier) + NPARTL + count_m(tier)) {
	/* part N: the main case on the ideal instrument, predefined
	   standards, one frequency; recipe, order and shape from the index */
	long m = idx - count_main(tier) - NPARTL - count_m(tier);
	g_n_ideal = 1;
	int recipe_n = vf_digit(&m, NRECIPE);
	int ev_n = vf_digit(&m, NEV);
	idx = ((((((((m * NAB + 0) * NRECIPE + recipe_n) * NEV + ev_n) * NAV
				+ 0) * NPV + 0) * NKV + 0) * nnf(tier) + 0)
		* nnet(tier) + 0) * NFILL + 0;
    } else if (idx >= count_main(tier) + NPARTL) {
	/* part M: the main case with tabulated standards, first handle 3,
	   network 0, recipe and shape from the index */
	long m = idx - count_main(tier) - NPARTL;
	g_m_nf = 3 + vf_digit(&m, 2);
	int recipe_m = vf_digit(&m, NRECIPE);
	idx = ((((((((m * NAB + 0) * NRECIPE + recipe_m) * NEV + 0) * NAV + 0)
			    * NPV + 0) * NKV + 1) * nnf(tier) + 0)
		* nnet(tier) + 0) * NFILL + 0;
    } else if (idx >= count_main(tier)) {
	unsigned long mk = vf_exec_begin();
	run_l(idx - count_main(tier), r);
	vf_exec_end(r, mk);
	return;
    }
    const long idx_for_file = idx;
    int fill = fillers[vf_digit(&idx, NFILL)];
    int net = vf_digit(&idx, nnet(tier));
    int nf = vf_digit(&idx, nnf(tier)) + 1;
    if (g_m_nf > 0)
	nf = g_m_nf;
    int kv = vf_digit(&idx, NKV);
    int pv = vf_digit(&idx, NPV);
    int av = vf_digit(&idx, NAV);
    int ev = vf_digit(&idx, NEV);
    int recipe = vf_digit(&idx, NRECIPE);
    int ab = vf_digit(&idx, NAB);
    int t = 0, d;
    char desc[600];
    vf_errlog elog;
    vnacal_t *vcp = NULL;
    vnacal_new_t *vnp = NULL;

    /* remaining idx selects (type, dim) */
    for (t = 0; t < 8; ++t) {
	int nd = ndims(tier, types[t]);
	if (idx < nd)
	    break;
	idx -= nd;
    }
    d = (int)idx;
    int rows = dimlist[d][0], cols = dimlist[d][1];
    if (!is_t(types[t])) {
	int x = rows; rows = cols; cols = x;
    }
    if (tier == 0)
	net = 2;	/* quick tier: the network with every term non-zero */
    if (g_n_ideal)
	net = 4;
    memset(&sc, 0, sizeof(sc));
    cs_make_vna(&sc.vna, types[t], rows, cols, nf, net);
    sc.ab = ab;
    sc.a_variant = (int)((ev + av + kv) % 3);
    /* scalar standards: purely real values in every other first-handle /
       frequency-count combination (0.02, 0.965, -0.957, 0.35, ...) */
    cs_real_scalars = kv == 2 && ((fill + nf) & 1);
    int rcp = cs_recipe(&sc, recipe, ev, av, pv, kv);
    int real_scalars = cs_real_scalars;
    cs_real_scalars = 0;
    if (rcp != 0) {
	vf_desc(r, "%s %dx%d recipe %d: does not exist",
		vnacal_type_to_name(types[t]), rows, cols, recipe);
	vf_outcome(r, "no-such-recipe");
	return;
    }
    if (g_o_uneven) {
	if (!(types[t] == VNACAL_UE14 || types[t] == VNACAL_E12) ||
		cols < 2 || sc.nstd + 1 > CS_MAXSTD ||
		sc.nparam + 1 > CS_MAXPARAM) {
	    vf_desc(r, "part O: %s %dx%d has one linear system",
		    vnacal_type_to_name(types[t]), rows, cols);
	    vf_outcome(r, "n/a: one linear system");
	    return;
	}
	/* one more reflect on port 2 ... */
	cs_param q;
	cs_std *st = &sc.std[sc.nstd];
	memset(&q, 0, sizeof(q));
	q.kind = CSP_SCALAR; q.handle = -1; q.c0 = 0.4 - 0.3 * I;
	sc.param[sc.nparam] = q;
	memset(st, 0, sizeof(*st));
	st->entry = CSE_SINGLE; st->np = 1; st->port[0] = 2;
	st->sp[0] = sc.nparam++;
	st->id = 900;
	++sc.nstd;
	/* ... the reflects of the ports after the first come first, and
	   the two-port standards other than the throughs are left out (the
	   first column then has as many equations as unknowns) */
	static cs_std tmp[CS_MAXSTD];
	int n = 0;
	for (int pass = 0; pass < 2; ++pass)
	    for (int k = 0; k < sc.nstd; ++k) {
		int early = sc.std[k].np == 1 && sc.std[k].port[0] >= 2;
		if (sc.std[k].np == 2 && sc.std[k].sp[1] >= 0)
		    continue;
		if (early == (pass == 0))
		    tmp[n++] = sc.std[k];
	    }
	memcpy(sc.std, tmp, sizeof(tmp[0]) * (size_t)n);
	sc.nstd = n;
    }
    cs_describe(&sc, desc, sizeof(desc));
    vf_desc(r, "%snet=%d ev=%d av=%d pv=%d kv=%d%s first-handle=%d %s",
	    g_o_uneven ? "part O (column systems of unequal size) " :
	    g_n_ideal ? "part N (ideal instrument) " :
	    g_m_nf > 0 ? "part M (tables of the calibration's point count and "
	    "end points, other points between) " : "", net, ev,
	    av, pv, kv, real_scalars ? " (real scalars)" : "", 3 + fill, desc);

    long double margin;
    int eqs, unk;
    int ident = cs_identifiable(&sc, (1u << sc.nstd) - 1u, &margin, &eqs,
	    &unk);
    if (!ident || margin < 1e-5L) {
	vf_outcome(r, "skipped: recipe not determining by the physical "
		"Jacobian test (%s)", vnacal_type_to_name(types[t]));
	return;
    }

    unsigned long mark = vf_exec_begin();
    vf_errlog_reset(&elog);
    vcp = vnacal_create((vnaerr_error_fn_t *)vf_errfn, &elog);
    if (vcp == NULL) {
	vf_fail(r, "create", "vnacal_create failed: errno %d", errno);
	return;
    }
    for (int i = 0; i < fill; ++i)
	if (vnacal_make_scalar_parameter(vcp, 0.05 * (i + 1) - 0.3 * I) < 0) {
	    vf_fail(r, "make-param", "creating an unrelated parameter "
		    "failed: %s", elog.count ? elog.msg[0] : "?");
	    goto out;
	}
    cs_vector_on_cal = g_m_nf > 0 ? 2 : pv;	/* half: knots on the grid */
    int mprc = cs_make_params(vcp, &sc);
    cs_vector_on_cal = 0;
    if (mprc != 0) {
	vf_fail(r, "make-param", "parameter creation failed: %s",
		elog.count ? elog.msg[0] : "?");
	goto out;
    }
    /* the system impedance is declared as 75-5j ohm where the first handle
       is 8: S-parameters do not depend on it, the result object names it */
    cs_system_z0 = fill == 5 ? 75.0 - 5.0 * I : 0.0;
    vnp = cs_build(vcp, &sc);
    cs_system_z0 = 0.0;
    r->transitions += sc.nstd + 2;
    if (vnp == NULL) {
	char sig[100];
	snprintf(sig, sizeof(sig), "add-rejected:%s",
		vnacal_type_to_name(types[t]));
	vf_fail(r, sig, "a legal standard was rejected (errno %d): %s",
		errno, elog.count ? elog.msg[0] : "(no message)");
	goto out;
    }
    int rc = vnacal_new_solve(vnp);
    ++r->transitions;
    if (rc != 0) {
	char sig[100];
	snprintf(sig, sizeof(sig), "solve-failed:%s",
		vnacal_type_to_name(types[t]));
	vf_fail(r, sig, "vnacal_new_solve returned %d (errno %d: %s) on a "
		"determining set (Jacobian margin %.2Le, %d equations, %d "
		"unknowns)", rc, errno, elog.count ? elog.msg[0] : "",
		margin, eqs, unk);
	goto out;
    }
    /*
     * one more (redundant, consistent) standard and a second solve on the
     * same object: every parameter is evaluated again from the lowest
     * frequency on
     */
    if (cs_add_std(vnp, &sc, 0) != 0 || vnacal_new_solve(vnp) != 0) {
	char sig[100];
	snprintf(sig, sizeof(sig), "resolve-failed:%s",
		vnacal_type_to_name(types[t]));
	vf_fail(r, sig, "adding the first standard a second time and solving "
		"again failed (errno %d: %s)", errno,
		elog.count ? elog.msg[0] : "");
	goto out;
    }
    r->transitions += 2;
    int ci = vnacal_add_calibration(vcp, "c01", vnp);
    ++r->transitions;
    if (ci < 0) {
	vf_fail(r, "add-calibration", "vnacal_add_calibration failed: %s",
		elog.count ? elog.msg[0] : "");
	goto out;
    }
    r->nontrivial = 1;
    {
	/* the solved terms must satisfy the documented M/S equation for
	   every standard that was added (all shapes; the only value check
	   for shapes vnacal_apply does not accept) */
	int ci0 = vnacal_find_calibration(vcp, "c01");
	long double tr = 0;
	if (ci0 < 0 || cs_terms_residual(vcp, ci0, &sc, &tr) != 0) {
	    vf_fail(r, "terms-inspect", "cannot inspect the solved terms");
	    goto out;
	}
	if (!(tr <= 1e-8L)) {
	    char sig[100];
	    snprintf(sig, sizeof(sig), "terms-equation:%s",
		    vnacal_type_to_name(types[t]));
	    vf_fail(r, sig, "solved error terms violate the documented M/S "
		    "matrix equation for an added standard: relative "
		    "residual %.3Le", tr);
	    goto out;
	}
    }
    /*
     * "the error terms written by vnacal_save satisfy the documented
     * equation": for the shapes apply does not accept, and for every eighth
     * case of the others, the calibration goes through a file (lossless hex
     * and 9-digit decimal output in turn) and the terms of the loaded copy
     * are judged like the solved ones.
     */
    if (!cs_apply_ok(&sc.vna) || (idx_for_file & 7) == 0) {
	const int hex = (int)((idx_for_file >> 3) & 1);
	const char *path = vf_tmp("c01.vnacal");
	vnacal_t *v2 = NULL;
	long double tr = 0;
	int c2 = -1;
	if (vnacal_set_dprecision(vcp, hex ? VNACAL_MAX_PRECISION : 9) != 0 ||
		vnacal_save(vcp, path) != 0 ||
		(v2 = vnacal_load(path, (vnaerr_error_fn_t *)vf_errfn,
				  &elog)) == NULL ||
		(c2 = vnacal_find_calibration(v2, "c01")) < 0 ||
		cs_terms_residual(v2, c2, &sc, &tr) != 0) {
	    vf_fail(r, "terms-file", "saving and loading the calibration "
		    "failed: %s", elog.count ? elog.msg[0] : "?");
	} else if (!(tr <= (hex ? 1e-8L : 1e-6L))) {
	    char sig[100];
	    snprintf(sig, sizeof(sig), "terms-equation-file:%s",
		    vnacal_type_to_name(types[t]));
	    vf_fail(r, sig, "the error terms written by vnacal_save (%s "
		    "output) violate the documented M/S matrix equation for "
		    "an added standard: relative residual %.3Le", hex ?
		    "lossless" : "9-digit", tr);
	}
	if (v2 != NULL)
	    vnacal_free(v2);
	unlink(path);
	++r->transitions;
	if (r->status != VF_OK)
	    goto out;
    }
    if (!cs_apply_ok(&sc.vna)) {
	vf_outcome(r, "solved %s, terms satisfy the documented equation "
		"(apply not defined for this shape)",
		vnacal_type_to_name(types[t]));
	goto out;
    }
    {
	/*
	 * the index to apply: the calibration just added.  Look it up by
	 * name so that this check does not depend on what
	 * vnacal_add_calibration returns (that is C16's subject).
	 */
	int ci2 = vnacal_find_calibration(vcp, "c01");
	double worst = 0;
	if (ci2 < 0) {
	    vf_fail(r, "find-calibration", "calibration just added not "
		    "found by name");
	    goto out;
	}
	for (int k = 0; k < 3; ++k) {
	    cs_c Sd[CS_MAXF][CS_MAXP * CS_MAXP];
	    int arc;
	    for (int f = 0; f < nf; ++f)
		cs_dut(&sc.vna, k, f, Sd[f]);
	    double e = cs_apply_error(vcp, ci2, &sc, Sd, &arc);
	    ++r->transitions;
	    if (arc != 0) {
		char sig[100];
		snprintf(sig, sizeof(sig), "apply-failed:%s",
			vnacal_type_to_name(types[t]));
		vf_fail(r, sig, "vnacal_apply%s returned %d: %s",
			ab ? "" : "_m", arc, elog.count ?
			elog.msg[elog.count - 1 < VF_ERRLOG_MAX ?
			elog.count - 1 : 0] : "");
		break;
	    }
	    if (cs_apply_z0_mismatch) {
		vf_fail(r, "apply-z0", "the calibration's system impedance "
			"is %g%+gj ohm (vnacal_get_z0), the S-parameters "
			"vnacal_apply%s returns are labelled %g%+gj ohm",
			creal(cs_apply_z0_expected),
			cimag(cs_apply_z0_expected), ab ? "" : "_m",
			creal(cs_apply_z0_got), cimag(cs_apply_z0_got));
		break;
	    }
	    if (!(e <= worst))
		worst = e;
	    if (!(e <= 1e-8)) {
		char sig[100];
		snprintf(sig, sizeof(sig), "apply-wrong:%s",
			vnacal_type_to_name(types[t]));
		vf_fail(r, sig, "corrected S-parameters of DUT #%d differ "
			"from the truth by %.3e (Jacobian margin %.2Le)",
			k, e, margin);
		break;
	    }
	}
	/*
	 * the same calibration applied to a device measured at fewer
	 * frequencies than the calibration has: the top two, and the top
	 * one alone
	 */
	for (int nsub = 1; nsub <= 2 && nsub < nf && r->status == VF_OK;
		++nsub) {
	    static cs_scenario sub;
	    cs_c Sd[CS_MAXF][CS_MAXP * CS_MAXP];
	    int arc;
	    sub = sc;
	    cs_make_vna_f(&sub.vna, types[t], rows, cols, nsub,
		    &sc.vna.f[nf - nsub], sc.vna.variant);
	    for (int f = 0; f < nsub; ++f)
		cs_dut(&sub.vna, 1, f, Sd[f]);
	    double e = cs_apply_error(vcp, ci2, &sub, Sd, &arc);
	    ++r->transitions;
	    if (arc != 0 || !(e <= 1e-8)) {
		char sig[100];
		snprintf(sig, sizeof(sig), "apply-subset:%s",
			vnacal_type_to_name(types[t]));
		vf_fail(r, sig, "applied at the top %d of the %d calibration "
			"frequencies: vnacal_apply%s returned %d, corrected "
			"S-parameters differ from the truth by %.3e%s%s",
			nsub, nf, ab ? "" : "_m", arc, e,
			elog.count ? ": " : "", elog.count ?
			elog.msg[(elog.count - 1) % VF_ERRLOG_MAX] : "");
	    }
	    if (e > worst && arc == 0)
		worst = e;
	}
	vf_outcome(r, "applied %s err%s", vnacal_type_to_name(types[t]),
		worst < 1e-13 ? "<1e-13" : worst < 1e-11 ? "<1e-11" :
		worst < 1e-9 ? "<1e-9" : worst <= 1e-8 ? "<=1e-8" : ">1e-8");
    }
out:
    if (vcp != NULL) {
	cs_delete_params(vcp, &sc);
	vnacal_free(vcp);
    }
    vf_exec_end(r, mark);
}

vf_driver vf_drv = {
    .property = "C01",
    .rule = "case = (error-term type x dimensions x m|a/b x recipe x entry-"
	"point variant x M abbreviation x port order x parameter kind x "
	"frequencies x error network); measurements of standards and of 3 "
	"DUTs come from the physical E-network wave equations; a case is "
	"non-trivial when the recipe is determining by the physical Jacobian "
	"rank test (margin >= 1e-5), every standard was accepted and the "
	"solve was attempted",
    .count = count,
    .run = run,
    .timeout_s = 60,
};
