/*
 * C12: any single allocation failure yields a clean ENOMEM failure,
 * nothing worse.
 *
 * A *history* is a fixed list of steps; each step makes exactly one public
 * libvna call that may allocate (plus getters that do not).  Every history
 * is first run unfaulted: K = number of libvna-site allocations made by its
 * steps, D = observation of the final state (public getters, an apply, a
 * save to a scratch file).  A case is (history, k), k = 1..K: the k-th
 * allocation returns NULL/ENOMEM.  The step in which the fault lands must
 * either still succeed or return its documented failure value with
 * errno == ENOMEM (and, where an error callback is installed, exactly one
 * non-warning callback per object, category VNAERR_SYSTEM); the same step
 * is then repeated without fault, the rest of the history is completed, the
 * final observation must equal D, and after tear-down the allocation
 * accounting must be back at the mark.  k = 0 is the unfaulted re-run
 * (determinism of D).  Thorough tier: all pairs k1 < k2 for histories with
 * K <= 300 (one case per (history, k1), looping over k2 inside).
 */
#define _GNU_SOURCE
#include <complex.h>
#include <errno.h>
#include <math.h>
#include <stdarg.h>
#include <stdio.h>
#include <stdlib.h>
#include <string.h>
#include <sys/stat.h>
#include <unistd.h>
#include <vnacal.h>
#include <vnadata.h>
#include <vnaproperty.h>
#include <vnaerr.h>
#include "vf.h"
#include "calsim.h"

/* ------------------------------------------------------------------ */
/* scratch files                                                       */

static char own_dir[300];

static void rm_own_dir(void)
{
    if (own_dir[0]) {
	char cmd[400];
	snprintf(cmd, sizeof(cmd), "rm -rf '%s'", own_dir);
	if (system(cmd) != 0)
	    ;
    }
}

static const char *scratch(const char *name)
{
    static char buf[8][800];
    static int k, checked, use_own;
    char *b = buf[k++ & 7];

    if (!checked) {
	char probe[800];
	struct stat st;
	snprintf(probe, sizeof(probe), "%s", vf_tmp("x"));
	char *s = strrchr(probe, '/');
	if (s) *s = '\0';
	if (stat(probe, &st) != 0 || !S_ISDIR(st.st_mode)) {
	    /* "count" mode: the frame made no directory for us */
	    snprintf(own_dir, sizeof(own_dir), "/var/tmp/vf-c12-%d.d",
		    (int)getpid());
	    mkdir(own_dir, 0755);
	    atexit(rm_own_dir);
	    use_own = 1;
	}
	checked = 1;
    }
    if (use_own)
	snprintf(b, sizeof(buf[0]), "%s/%s", own_dir, name);
    else
	snprintf(b, sizeof(buf[0]), "%s", vf_tmp(name));
    return b;
}

/* ------------------------------------------------------------------ */
/* observations                                                        */

#define OBS_MAXD 12000
typedef struct obs {
    int nd;
    long nx;
    uint64_t h;
    int overflow;
    double d[OBS_MAXD];
} obs_t;

static void obs_reset(obs_t *o)
{
    o->nd = 0;
    o->nx = 0;
    o->overflow = 0;
    o->h = 0xcbf29ce484222325ULL;
}

static void obs_bytes(obs_t *o, const void *p, size_t n)
{
    const unsigned char *s = p;
    for (size_t i = 0; i < n; ++i) {
	o->h ^= s[i];
	o->h *= 0x100000001b3ULL;
    }
}

static void obs_s(obs_t *o, const char *s)
{
    int pos = o->nd;
    if (s == NULL)
	s = "(null)";
    obs_bytes(o, &pos, sizeof(pos));
    obs_bytes(o, s, strlen(s) + 1);
    ++o->nx;
    if (vf_verbose > 1)
	printf("      obs s[%ld] %s\n", o->nx, s);
}

static void obs_i(obs_t *o, long v)
{
    char b[40];
    snprintf(b, sizeof(b), "#%ld", v);
    obs_s(o, b);
}

static void obs_d(obs_t *o, double v)
{
    if (o->nd >= OBS_MAXD) {
	o->overflow = 1;
	return;
    }
    o->d[o->nd++] = v;
}

static void obs_c(obs_t *o, double complex v)
{
    obs_d(o, creal(v));
    obs_d(o, cimag(v));
}

/* tokenise a text file: numbers -> doubles, everything else -> hash */
static void obs_file(obs_t *o, const char *path)
{
    FILE *fp = fopen(path, "r");
    char *buf;
    long n;

    if (fp == NULL) {
	obs_s(o, "<no file>");
	return;
    }
    fseek(fp, 0, SEEK_END);
    n = ftell(fp);
    fseek(fp, 0, SEEK_SET);
    buf = malloc((size_t)n + 1);
    n = (long)fread(buf, 1, (size_t)n, fp);
    buf[n] = '\0';
    fclose(fp);
    obs_i(o, -7777);
    char *p = buf;
    while (*p) {
	while (*p && strchr(" \t\r\n,[]{}", *p)) {
	    if (*p == '\n')
		obs_bytes(o, "\n", 1);
	    ++p;
	}
	if (!*p)
	    break;
	char *q = p;
	while (*q && !strchr(" \t\r\n,[]{}", *q))
	    ++q;
	char save = *q;
	*q = '\0';
	char *end;
	double v = strtod(p, &end);
	if (end != p && (end == q || (end == q - 1 &&
			(q[-1] == 'j' || q[-1] == 'i')))) {
	    obs_d(o, v);
	    obs_bytes(o, "N", 1);
	} else {
	    obs_s(o, p);
	}
	*q = save;
	p = q;
    }
    free(buf);
}

static int obs_cmp(const obs_t *a, const obs_t *b, char *why, size_t n)
{
    if (a->overflow || b->overflow) {
	snprintf(why, n, "observation buffer overflow (driver)");
	return 1;
    }
    if (a->nd != b->nd || a->nx != b->nx) {
	snprintf(why, n, "shape of the observable state differs: %d numbers/"
		"%ld exact items, unfaulted %d/%ld", b->nd, b->nx, a->nd,
		a->nx);
	return 1;
    }
    for (int i = 0; i < a->nd; ++i) {
	double x = a->d[i], y = b->d[i];
	if (isnan(x) && isnan(y))
	    continue;
	if (x == y)
	    continue;
	double m = fmax(1.0, fmax(fabs(x), fabs(y)));
	if (!(fabs(x - y) <= 1e-9 * m)) {
	    snprintf(why, n, "number #%d of the observable state is %.12g, "
		    "unfaulted run has %.12g", i, y, x);
	    return 1;
	}
    }
    if (a->h != b->h) {
	snprintf(why, n, "exact part (names, counts, handles, text) of the "
		"observable state differs from the unfaulted run");
	return 1;
    }
    return 0;
}

/* ------------------------------------------------------------------ */
/* context                                                             */

#define NPH 24
typedef struct ctx {
    vf_errlog el[3];	/* 0: vnacal, 1: second vnacal, 2: vnadata/yaml */
    vnacal_t *vcp, *vcp2;
    vnacal_new_t *vnp[2];
    int ph[NPH];	/* parameter handles (PARAM family) */
    int gh[CS_MAXPARAM];	/* guess handles */
    int ci[4];
    int addrc[4];
    vnadata_t *vd[3];
    vnaproperty_t *root[3];
    vnaproperty_t **sub;
    char got[8][80];	/* results of get steps (copied) */
    int geti[8];
    double complex pv[CS_MAXPARAM][CS_MAXF];	/* values before deletion */
    double complex ppv[NPH][5];
    int reuse[64];	/* handles handed out after everything was deleted */
    double complex getc[8];
    cs_scenario sc;
    const struct hist *h;
} ctx_t;

typedef int step_fn(ctx_t *c, int a, int b);
#define F_NOCB	1	/* the call has no error callback to look at */
#define F_INSERT 2	/* vnaproperty_set with an inserting subscript */
#define F_KEEPS 4	/* the objects the caller holds (calibrations by index)
			   must be as usable after the failed call as before */
typedef struct step {
    step_fn *fn;
    int a, b;
    const char *name;	/* library function called */
    int flags;
} step_t;

#define MAXSTEPS 160
typedef struct hist {
    char name[80];
    char family;	/* 'C' cal, 'P' param, 'Y' property, 'D' data */
    int nsteps;
    step_t st[MAXSTEPS];
    cs_scenario sc;
    int merr;
    long K;	/* libvna-site allocations of the unfaulted run */
    long Ky;	/* libyaml-site allocations of the unfaulted run */
    obs_t ref;
    struct obs_packed *pre[MAXSTEPS];	/* library state before each step of
					   the unfaulted run (light observe) */
} hist_t;

#define MAXH 64
static hist_t *H;
static int NH;

/* map return conventions to 0 ok / 1 documented failure / 2 neither */
static int RC(int rc)   { return rc == 0 ? 0 : rc == -1 ? 1 : 2; }
static int HND(int rc)  { return rc >= 0 ? 0 : rc == -1 ? 1 : 2; }
static int PTR(const void *p) { return p != NULL ? 0 : 1; }

/* ------------------------------------------------------------------ */
/* calibration steps                                                   */

static const char *cal_path(int i)
{
    char nm[40];
    snprintf(nm, sizeof(nm), "c12-%d.vnacal", i);
    return scratch(nm);
}

static int s_create(ctx_t *c, int a, int b)
{
    (void)a; (void)b;
    c->vcp = vnacal_create((vnaerr_error_fn_t *)vf_errfn, &c->el[0]);
    return PTR(c->vcp);
}

static void guess_vectors(const ctx_t *c, const cs_param *p, int *n,
	double *fv, cs_c *gv, cs_c scale)
{
    const cs_vna *v = &c->sc.vna;
    double fmin = v->f[0], fmax = v->f[v->nf - 1];
    double lo = (p->lo > 0 ? p->lo : 1.0) * fmin;
    double hi = (p->hi > 0 ? p->hi : 1.0) * fmax;

    *n = p->npts > 0 ? p->npts : 1;
    if (*n > 32) *n = 32;
    for (int i = 0; i < *n; ++i) {
	fv[i] = *n == 1 ? lo : lo + (hi - lo) * i / (*n - 1);
	gv[i] = cs_param_value(v, p, fv[i]) * scale;
    }
}

/* scalar / vector parameter of the scenario, or the guess of an unknown */
static int s_param(ctx_t *c, int a, int b)
{
    cs_param *p = &c->sc.param[a];
    double fv[32];
    cs_c gv[32];
    int n, h;

    (void)b;
    switch (p->kind) {
    case CSP_PREDEF:
	p->handle = p->predef;
	return 0;
    case CSP_SCALAR:
	p->handle = vnacal_make_scalar_parameter(c->vcp, p->c0);
	return HND(p->handle);
    case CSP_VECTOR:
	guess_vectors(c, p, &n, fv, gv, 1.0);
	p->handle = vnacal_make_vector_parameter(c->vcp, fv, n, gv);
	return HND(p->handle);
    case CSP_UNKNOWN:
	guess_vectors(c, p, &n, fv, gv, p->guess_scale);
	if (p->npts <= 1)
	    h = vnacal_make_scalar_parameter(c->vcp, gv[0]);
	else
	    h = vnacal_make_vector_parameter(c->vcp, fv, n, gv);
	c->gh[a] = h;
	return HND(h);
    default:
	return 2;
    }
}

static int s_unknown(ctx_t *c, int a, int b)
{
    cs_param *p = &c->sc.param[a];
    (void)b;
    p->handle = vnacal_make_unknown_parameter(c->vcp, c->gh[a]);
    return HND(p->handle);
}

static int s_delguess(ctx_t *c, int a, int b)
{
    (void)b;
    int rc = vnacal_delete_parameter(c->vcp, c->gh[a]);
    if (rc == 0)
	c->gh[a] = -1;
    return RC(rc);
}

/* correlated parameter, b = number of sigma points (1: scalar sigma) */
static int s_correlated(ctx_t *c, int a, int b)
{
    cs_param *p = &c->sc.param[a];
    const cs_vna *v = &c->sc.vna;
    double fv[8], sv[8];
    double fmin = v->f[0], fmax = v->f[v->nf - 1];

    for (int i = 0; i < b; ++i) {
	fv[i] = b == 1 ? fmin : fmin * 0.95 + (fmax * 1.05 - fmin * 0.95) *
	    i / (b - 1);
	sv[i] = p->sigma * (1.0 + 0.1 * i);
    }
    p->handle = vnacal_make_correlated_parameter(c->vcp,
	    c->sc.param[p->other].handle, b == 1 ? NULL : fv, b, sv);
    return HND(p->handle);
}

static int s_new_alloc(ctx_t *c, int a, int b)
{
    const cs_vna *v = &c->sc.vna;
    (void)b;
    c->vnp[a] = vnacal_new_alloc(c->vcp, v->type, v->rows, v->cols, v->nf);
    return PTR(c->vnp[a]);
}

static int s_set_freq(ctx_t *c, int a, int b)
{
    (void)b;
    return RC(vnacal_new_set_frequency_vector(c->vnp[a], c->sc.vna.f));
}

static int s_set_z0(ctx_t *c, int a, int b)
{
    (void)b;
    return RC(vnacal_new_set_z0(c->vnp[a], 75.0 - 2.0 * I));
}

/* b = number of points of the error model */
static int s_m_error(ctx_t *c, int a, int b)
{
    const cs_vna *v = &c->sc.vna;
    double fv[4], nf[4], tr[4];
    double fmin = v->f[0], fmax = v->f[v->nf - 1];

    for (int i = 0; i < b; ++i) {
	fv[i] = b == 1 ? fmin : fmin + (fmax - fmin) * i / (b - 1);
	nf[i] = 2e-3 * (1.0 + 0.2 * i);
	tr[i] = 1e-3;
    }
    return RC(vnacal_new_set_m_error(c->vnp[a], b == 1 ? NULL : fv, b, nf,
		tr));
}

static int s_add_std(ctx_t *c, int a, int b)
{
    return RC(cs_add_std(c->vnp[a], &c->sc, b));
}

/*
 * second vnacal_new_t (index 1) of the same vnacal_t using the same
 * parameter handles on a grid of b more frequencies over the same band
 */
static cs_scenario g_sc2;
static void sc2_sync(ctx_t *c, int more)
{
    const cs_vna *v = &c->sc.vna;
    double fv[CS_MAXF];
    int n = v->nf + more;

    g_sc2 = c->sc;
    if (n > CS_MAXF)
	n = CS_MAXF;
    for (int i = 0; i < n; ++i)
	fv[i] = n == 1 ? v->f[0] : v->f[0] +
	    (v->f[v->nf - 1] - v->f[0]) * i / (n - 1);
    if (v->nf == 1)
	for (int i = 0; i < n; ++i)
	    fv[i] = v->f[0] * (1.0 + 0.02 * i);
    cs_make_vna_f(&g_sc2.vna, v->type, v->rows, v->cols, n, fv, v->variant);
}

static int s_new_alloc2(ctx_t *c, int a, int b)
{
    (void)a;
    sc2_sync(c, b);
    c->vnp[1] = vnacal_new_alloc(c->vcp, g_sc2.vna.type, g_sc2.vna.rows,
	    g_sc2.vna.cols, g_sc2.vna.nf);
    return PTR(c->vnp[1]);
}

static int s_set_freq2(ctx_t *c, int a, int b)
{
    (void)a;
    sc2_sync(c, b);
    return RC(vnacal_new_set_frequency_vector(c->vnp[1], g_sc2.vna.f));
}

/* a = standard, b = extra frequencies */
static int s_add_std2(ctx_t *c, int a, int b)
{
    sc2_sync(c, b);
    return RC(cs_add_std(c->vnp[1], &g_sc2, a));
}

static int s_solve(ctx_t *c, int a, int b)
{
    (void)b;
    return RC(vnacal_new_solve(c->vnp[a]));
}

static const char *const cal_names[] = { "cal-A", "second one", "cal-A",
    "third", "third" };

static int s_add_cal(ctx_t *c, int a, int b)
{
    int rc = vnacal_add_calibration(c->vcp, cal_names[b], c->vnp[a]);
    int k = b == 4 ? 3 : b;	/* 4: "third" once more */
    c->addrc[k] = rc;
    /* which slot it went to is C16's subject: look the index up by name */
    if (rc >= 0)
	c->ci[k] = vnacal_find_calibration(c->vcp, cal_names[b]);
    return HND(rc);
}

static int s_del_cal(ctx_t *c, int a, int b)
{
    (void)b;
    return RC(vnacal_delete_calibration(c->vcp, c->ci[a]));
}

static int s_cal_prop(ctx_t *c, int a, int b)
{
    int ci = a < 0 ? -1 : c->ci[a];
    switch (b) {
    case 0:
	return RC(vnacal_property_set(c->vcp, ci, "operator=%s", "verif"));
    case 1:
	return RC(vnacal_property_set(c->vcp, ci, "setup.cables[%d]=%s", 1,
		    "RG-402"));
    case 2:
	return RC(vnacal_property_set(c->vcp, ci, "setup.power_dBm=%d", -10));
    default:
	return RC(vnacal_property_delete(c->vcp, ci, "setup.power_dBm"));
    }
}

static int s_cal_prop_get(ctx_t *c, int a, int b)
{
    int ci = a < 0 ? -1 : c->ci[a];
    const char *v = vnacal_property_get(c->vcp, ci, "setup.cables[%d]", 1);
    snprintf(c->got[b], sizeof(c->got[b]), "%s", v ? v : "(null)");
    return PTR(v);
}

static int s_save(ctx_t *c, int a, int b)
{
    (void)b;
    return RC(vnacal_save(c->vcp, cal_path(a)));
}

static int s_load(ctx_t *c, int a, int b)
{
    (void)b;
    c->vcp2 = vnacal_load(cal_path(a), (vnaerr_error_fn_t *)vf_errfn,
	    &c->el[1]);
    return PTR(c->vcp2);
}

static int s_free_new(ctx_t *c, int a, int b)
{
    (void)b;
    vnacal_new_free(c->vnp[a]);
    c->vnp[a] = NULL;
    return 0;
}

static int s_dalloc(ctx_t *c, int a, int b);

/* apply calibration ci[a] of vcp (or of vcp2 when a >= 8) to DUT b */
static int do_apply(ctx_t *c, vnacal_t *vcp, int ci, int dut, vnadata_t *vdp)
{
    const cs_vna *v = &c->sc.vna;
    static cs_c M[CS_MAXF][CS_MAXP * CS_MAXP];
    static cs_c mv[CS_MAXP * CS_MAXP][CS_MAXF];
    cs_c *mp[CS_MAXP * CS_MAXP];

    for (int f = 0; f < v->nf; ++f) {
	cs_c S[CS_MAXP * CS_MAXP];
	cs_dut(v, dut, f, S);
	if (cs_measure(v, f, S, M[f]) != 0)
	    return -5;
	for (int i = 0; i < v->rows * v->cols; ++i)
	    mv[i][f] = M[f][i];
    }
    for (int i = 0; i < v->rows * v->cols; ++i)
	mp[i] = mv[i];
    return vnacal_apply_m(vcp, ci, v->f, v->nf, mp, v->rows, v->cols, vdp);
}

static int s_apply(ctx_t *c, int a, int b)
{
    if (a >= 8)
	return RC(do_apply(c, c->vcp2, 0, b, c->vd[0]));
    return RC(do_apply(c, c->vcp, c->ci[a], b, c->vd[0]));
}

/* ------------------------------------------------------------------ */
/* parameter-table steps (no scenario)                                 */

static const double pf_lo = 1.0e9, pf_hi = 2.0e9;

static int s_p_scalar(ctx_t *c, int a, int b)
{
    c->ph[a] = vnacal_make_scalar_parameter(c->vcp,
	    0.1 * b - 0.3 + I * (0.05 * b));
    return HND(c->ph[a]);
}

static int s_p_vector(ctx_t *c, int a, int b)
{
    double fv[16];
    double complex gv[16];
    for (int i = 0; i < b; ++i) {
	fv[i] = b == 1 ? pf_lo : pf_lo + (pf_hi - pf_lo) * i / (b - 1);
	gv[i] = 0.8 * cexp(I * (0.3 * i + 0.1 * a)) + 0.01 * i * i;
    }
    c->ph[a] = vnacal_make_vector_parameter(c->vcp, fv, b, gv);
    return HND(c->ph[a]);
}

static int s_p_unknown(ctx_t *c, int a, int b)
{
    c->ph[a] = vnacal_make_unknown_parameter(c->vcp, c->ph[b]);
    return HND(c->ph[a]);
}

/* b = other * 16 + number of sigma points */
static int s_p_corr(ctx_t *c, int a, int b)
{
    int n = b % 16, other = b / 16;
    double fv[16], sv[16];
    for (int i = 0; i < n; ++i) {
	fv[i] = n == 1 ? pf_lo : pf_lo + (pf_hi - pf_lo) * i / (n - 1);
	sv[i] = 0.01 + 0.002 * i * (i - 1.5);
    }
    c->ph[a] = vnacal_make_correlated_parameter(c->vcp, c->ph[other],
	    n == 1 ? NULL : fv, n, sv);
    return HND(c->ph[a]);
}

/*
 * the documented short form: sigma_frequency_vector == NULL with one sigma
 * per frequency of the vector parameter the chain of others ends in
 * (b = other * 16 + number of points of that vector parameter)
 */
static int s_p_corr_null(ctx_t *c, int a, int b)
{
    int n = b % 16, other = b / 16;
    double sv[16];
    for (int i = 0; i < n; ++i)
	sv[i] = 0.01 + 0.002 * i * (i - 1.5);
    c->ph[a] = vnacal_make_correlated_parameter(c->vcp, c->ph[other],
	    NULL, n, sv);
    return HND(c->ph[a]);
}

/* b != 0: a scalar or vector parameter, record its values first */
static int s_p_delete(ctx_t *c, int a, int b)
{
    if (b)
	for (int k = 0; k < 5; ++k)
	    c->ppv[a][k] = vnacal_get_parameter_value(c->vcp, c->ph[a],
		    a == 9 ? pf_lo :
		    pf_lo + (pf_hi - pf_lo) * (0.03 + 0.235 * k));
    int rc = vnacal_delete_parameter(c->vcp, c->ph[a]);
    if (rc == 0)
	c->ph[a] = -1;
    return RC(rc);
}

static int s_p_value(ctx_t *c, int a, int b)
{
    double complex v = vnacal_get_parameter_value(c->vcp, c->ph[a],
	    pf_lo + 0.137e9 * b);
    c->getc[a % 8] = v;
    return (creal(v) == HUGE_VAL) ? 1 : 0;
}

/* ------------------------------------------------------------------ */
/* slot-reuse observation and registration-order steps                 */

/*
 * delete parameter a of the scenario (its values are recorded first):
 * together with s_reuse this makes holds that nobody owns visible
 */
static int s_c_delparam(ctx_t *c, int a, int b)
{
    cs_param *p = &c->sc.param[a];
    (void)b;
    for (int f = 0; f < c->sc.vna.nf; ++f)
	c->pv[a][f] = vnacal_get_parameter_value(c->vcp, p->handle,
		c->sc.vna.f[f]);
    int rc = vnacal_delete_parameter(c->vcp, p->handle);
    if (rc == 0)
	p->handle = -1;
    return RC(rc);
}

/* after every handle was deleted: the a-th new parameter */
static int s_reuse(ctx_t *c, int a, int b)
{
    (void)b;
    c->reuse[a] = vnacal_make_scalar_parameter(c->vcp, 0.25 + 0.01 * a);
    return HND(c->reuse[a]);
}

static const vnacal_type_t r_types[] = { VNACAL_T8, VNACAL_U8, VNACAL_TE10,
    VNACAL_UE14, VNACAL_T16, VNACAL_E12 };
static const double r_freq[2] = { 1.0e9, 2.0e9 };

static int s_r_new(ctx_t *c, int a, int b)
{
    c->vnp[a] = vnacal_new_alloc(c->vcp, r_types[b], 2, 2, 2);
    return PTR(c->vnp[a]);
}

static int s_r_freq(ctx_t *c, int a, int b)
{
    (void)b;
    return RC(vnacal_new_set_frequency_vector(c->vnp[a], r_freq));
}

/*
 * standards whose S cells are slots of c->ph (>= 0) or predefined
 * parameters (-1 zero/match, -2 one/open, -3 short); 2x2 m, 2 frequencies
 */
enum { RA_SINGLE, RA_DOUBLE, RA_THROUGH, RA_LINE, RA_MAPPED };
static const struct { int entry, p[4], port1, port2; } radd_tab[] = {
    /*0*/ { RA_SINGLE, { 3, 0, 0, 0 }, 1, 0 },	/* c1 -> vector */
    /*1*/ { RA_MAPPED, { 4, -1, -1, 4 }, 1, 2 },/* c2 -> unknown, twice */
    /*2*/ { RA_DOUBLE, { 5, 1, 0, 0 }, 1, 2 },	/* c3 -> scalar; vector */
    /*3*/ { RA_LINE,   { -1, 2, 2, -1 }, 1, 2 },	/* unknown line */
    /*4*/ { RA_DOUBLE, { 4, 3, 0, 0 }, 2, 1 },	/* both chains in one call */
    /*5*/ { RA_SINGLE, { 2, 0, 0, 0 }, 2, 0 },	/* the unknown itself */
    /*6*/ { RA_SINGLE, { 1, 0, 0, 0 }, 1, 0 },	/* correlate first */
    /*7*/ { RA_MAPPED, { 3, 5, 4, 3 }, 1, 2 },	/* three chains, c1 twice */
    /*8*/ { RA_THROUGH, { 0, 0, 0, 0 }, 1, 2 },
    /*9*/ { RA_LINE,   { 5, -2, -2, 3 }, 2, 1 },	/* correlated in a line */
    /*10*/ { RA_SINGLE, { 5, 0, 0, 0 }, 1, 0 },
    /*11*/ { RA_MAPPED, { 4, 4, 4, 4 }, 1, 2 },	/* one chain in all cells */
};

static int r_handle(const ctx_t *c, int slot)
{
    switch (slot) {
    case -1: return VNACAL_ZERO;
    case -2: return VNACAL_ONE;
    case -3: return VNACAL_SHORT;
    default: return c->ph[slot];
    }
}

static int s_r_add(ctx_t *c, int a, int b)
{
    static double complex mv[4][2];
    double complex *mp[4];
    int h[4], ports[2];

    for (int i = 0; i < 4; ++i) {
	for (int f = 0; f < 2; ++f)
	    mv[i][f] = (i == 0 || i == 3 ? 0.4 : 0.1) *
		cexp(I * (0.5 * i + 0.3 * f + 0.7 * b)) + 0.05 * b;
	mp[i] = mv[i];
	h[i] = r_handle(c, radd_tab[b].p[i]);
    }
    ports[0] = radd_tab[b].port1;
    ports[1] = radd_tab[b].port2;
    switch (radd_tab[b].entry) {
    case RA_SINGLE:
	return RC(vnacal_new_add_single_reflect_m(c->vnp[a], mp, 2, 2, h[0],
		    ports[0]));
    case RA_DOUBLE:
	return RC(vnacal_new_add_double_reflect_m(c->vnp[a], mp, 2, 2, h[0],
		    h[1], ports[0], ports[1]));
    case RA_THROUGH:
	return RC(vnacal_new_add_through_m(c->vnp[a], mp, 2, 2, ports[0],
		    ports[1]));
    case RA_LINE:
	return RC(vnacal_new_add_line_m(c->vnp[a], mp, 2, 2, h, ports[0],
		    ports[1]));
    default:
	return RC(vnacal_new_add_mapped_matrix_m(c->vnp[a], mp, 2, 2, h, 2, 2,
		    ports));
    }
}

/* ------------------------------------------------------------------ */
/* vnaproperty steps                                                   */

static const char *const pset_tab[] = {
    /*0*/ "model=ACME 1050",
    /*1*/ "ports=%d",
    /*2*/ "setup.source.power=-10",
    /*3*/ "setup.source.sweep[0]=1e9",
    /*4*/ "setup.source.sweep[1]=2e9",
    /*5*/ "setup.notes[2]=third",		/* list with a gap */
    /*6*/ "model=replaced",			/* overwrite scalar */
    /*7*/ "setup.source.power.unit=dBm",	/* scalar becomes map */
    /*8*/ "setup.notes[+]=appended",
    /*9*/ "setup.notes[1+]=inserted",
    /*10*/ "nullvalue#",
    /*11*/ "a\\.b.c d=quoted key",
    /*12*/ "matrix[1][2]=x",
    /*13*/ "setup.source=flat",		/* map becomes scalar */
    /*14*/ "k=v",
    /* inserts and appends above the level at which the call can fail */
    /*15*/ "setup.notes[+].who.name=nested under an appended slot",
    /*16*/ "setup.notes[0+][2]=list under an inserted slot",
    /*17*/ "setup.notes[9+]=inserted beyond the end",
    /*18*/ "fresh[+][+].k=appended twice into a list that did not exist",
    /*19*/ "matrix[1][0+]#",
};
static const char *const pdel_tab[] = {
    "setup.source.sweep[0]", "setup.notes", "model", "setup.source.", ".",
};
static const char *const pget_tab[] = {
    "model", "setup.source.sweep[%d]", "setup.notes[2]", "k",
};
static const char *const yaml_tab[] = {
    "a: 1\nb:\n  - x\n  - {c: 3, d: [4, 5]}\n  - ~\ne: \"text with spaces\"\n",
    "- 1\n- [2, 3]\n- k: v\n",
    "scalar only\n",
};

static int s_y_set(ctx_t *c, int a, int b)
{
    return RC(vnaproperty_set(&c->root[a], pset_tab[b], 4));
}

static int s_y_del(ctx_t *c, int a, int b)
{
    return RC(vnaproperty_delete(&c->root[a], pdel_tab[b], 0));
}

static int s_y_get(ctx_t *c, int a, int b)
{
    const char *v = vnaproperty_get(c->root[a], pget_tab[b], 1);
    snprintf(c->got[b], sizeof(c->got[b]), "%s", v ? v : "(null)");
    return PTR(v);
}

static int s_y_type(ctx_t *c, int a, int b)
{
    static const char *const t[] = { "setup", "setup.notes", "model", "." };
    int rc = vnaproperty_type(c->root[a], t[b], 0);
    c->geti[b] = rc;
    return rc == -1 ? 1 : 0;
}

static int s_y_count(ctx_t *c, int a, int b)
{
    static const char *const t[] = { "setup", "setup.notes", ".", "." };
    int rc = vnaproperty_count(c->root[a], t[b], 0);
    c->geti[4 + b] = rc;
    return rc == -1 ? 1 : rc >= 0 ? 0 : 2;
}

static int s_y_keys(ctx_t *c, int a, int b)
{
    const char **keys = vnaproperty_keys(c->root[a], b ? "setup" : ".");
    if (keys == NULL)
	return 1;
    int n = 0;
    while (keys[n] != NULL)
	++n;
    c->geti[2 + b] = n * 1000 + (n ? (int)strlen(keys[n - 1]) : 0);
    vf_free((void *)keys);
    return 0;
}

static int s_y_quote(ctx_t *c, int a, int b)
{
    (void)a;
    char *q = vnaproperty_quote_key("a.b[c]{d} e");
    if (q == NULL)
	return 1;
    c->geti[b] = (int)strlen(q);
    vf_free(q);
    return 0;
}

static int s_y_get_subtree(ctx_t *c, int a, int b)
{
    errno = 0;
    vnaproperty_t *p = vnaproperty_get_subtree(c->root[a], "setup.source");
    if (p == NULL && errno != 0)
	return 1;
    c->geti[b] = p != NULL;
    return 0;
}

static int s_y_set_subtree(ctx_t *c, int a, int b)
{
    static const char *const t[] = { "setup.vna", "list[3]", "deep.er.and.deeper{}" };
    c->sub = vnaproperty_set_subtree(&c->root[a], t[b], 0);
    return PTR(c->sub);
}

static int s_y_sub_set(ctx_t *c, int a, int b)
{
    (void)a;
    return RC(vnaproperty_set(c->sub, pset_tab[b], 7));
}

static int s_y_copy(ctx_t *c, int a, int b)
{
    return RC(vnaproperty_copy(&c->root[a], c->root[b]));
}

static const char *yaml_path(int i)
{
    char nm[40];
    snprintf(nm, sizeof(nm), "c12-%d.yaml", i);
    return scratch(nm);
}

static int s_y_export(ctx_t *c, int a, int b)
{
    FILE *fp = fopen(yaml_path(b), "w");
    if (fp == NULL)
	return 2;
    int rc = vnaproperty_export_yaml_to_file(c->root[a], fp, "c12.yaml",
	    (vnaerr_error_fn_t *)vf_errfn, &c->el[2]);
    int e = errno;
    fclose(fp);
    errno = e;
    return RC(rc);
}

static int s_y_import_file(ctx_t *c, int a, int b)
{
    FILE *fp = fopen(yaml_path(b), "r");
    if (fp == NULL)
	return 2;
    int rc = vnaproperty_import_yaml_from_file(&c->root[a], fp, "c12.yaml",
	    (vnaerr_error_fn_t *)vf_errfn, &c->el[2]);
    int e = errno;
    fclose(fp);
    errno = e;
    return RC(rc);
}

static int s_y_import_str(ctx_t *c, int a, int b)
{
    return RC(vnaproperty_import_yaml_from_string(&c->root[a], yaml_tab[b],
		(vnaerr_error_fn_t *)vf_errfn, &c->el[2]));
}

/* ------------------------------------------------------------------ */
/* vnadata steps                                                       */

static const struct { vnadata_parameter_type_t t; int r, c, f; } shape[] = {
    /*0*/ { VPT_S, 2, 2, 3 },
    /*1*/ { VPT_S, 3, 3, 3 },	/* grow rows and columns */
    /*2*/ { VPT_S, 3, 3, 6 },	/* grow frequencies */
    /*3*/ { VPT_UNDEF, 2, 3, 2 },	/* shrink */
    /*4*/ { VPT_UNDEF, 4, 2, 7 },	/* grow rows + frequencies */
    /*5*/ { VPT_Z, 1, 1, 4 },
    /*6*/ { VPT_S, 2, 2, 1 },
    /*7*/ { VPT_UNDEF, 2, 5, 3 },	/* more ports through columns only */
    /*8*/ { VPT_UNDEF, 3, 2, 4 },
};

static double complex cellval(int f, int r, int c)
{
    return 0.3 * cexp(I * (0.7 * r + 1.3 * c + 0.4 * f)) *
	(r == c ? 1.0 : 0.5) + 0.05 * f;
}

static int s_dalloc(ctx_t *c, int a, int b)
{
    (void)b;
    c->vd[a] = vnadata_alloc((vnaerr_error_fn_t *)vf_errfn, &c->el[2]);
    return PTR(c->vd[a]);
}

static int s_dinit(ctx_t *c, int a, int b)
{
    return RC(vnadata_init(c->vd[a], shape[b].t, shape[b].r, shape[b].c,
		shape[b].f));
}

static int s_dresize(ctx_t *c, int a, int b)
{
    return RC(vnadata_resize(c->vd[a], shape[b].t, shape[b].r, shape[b].c,
		shape[b].f));
}

/* fill through the inline setters (no allocation); b: frequency offset */
static int s_dfill(ctx_t *c, int a, int b)
{
    vnadata_t *vdp = c->vd[a];
    int nf = vnadata_get_frequencies(vdp);
    int rows = vnadata_get_rows(vdp), cols = vnadata_get_columns(vdp);
    for (int f = 0; f < nf; ++f) {
	if (vnadata_set_frequency(vdp, f, 1.0e9 + 0.25e9 * (f + b)) != 0)
	    return 2;
	for (int r = 0; r < rows; ++r)
	    for (int cc = 0; cc < cols; ++cc)
		if (vnadata_set_cell(vdp, f, r, cc, cellval(f, r, cc)) != 0)
		    return 2;
    }
    return 0;
}

static int s_daddf(ctx_t *c, int a, int b)
{
    return RC(vnadata_add_frequency(c->vd[a], 5.0e9 + 1.0e8 * b));
}

static int s_dfz0(ctx_t *c, int a, int b)
{
    return RC(vnadata_set_fz0(c->vd[a], b / 4, b % 4, 60.0 + b + 3.0 * I));
}

static int s_dz0(ctx_t *c, int a, int b)
{
    return RC(vnadata_set_z0(c->vd[a], b, 75.0 - 1.0 * I));
}

static int s_dallz0(ctx_t *c, int a, int b)
{
    return RC(vnadata_set_all_z0(c->vd[a], 40.0 + b));
}

static int s_dz0vec(ctx_t *c, int a, int b)
{
    double complex z[8];
    for (int i = 0; i < 8; ++i)
	z[i] = 50.0 + 5.0 * i + b * I;
    return RC(vnadata_set_z0_vector(c->vd[a], z));
}

static int s_dfz0vec(ctx_t *c, int a, int b)
{
    double complex z[8];
    for (int i = 0; i < 8; ++i)
	z[i] = 45.0 + 2.0 * i - b * I;
    return RC(vnadata_set_fz0_vector(c->vd[a], b, z));
}

static const char *const fmt_tab[] = {
    /*0*/ "SdB",
    /*1*/ "Sri,Zma",
    /*2*/ "Zri,SdB,Zinma",
    /*3*/ "PRC,PRL,SRC,SRL,IL,RL,VSWR",
    /*4*/ "Sma",
    /*5*/ "ri",
    /*6*/ "Yri,Tma,UdB,Hri,Gma,Ari,Bma,Zinri",
    /*7*/ "Zri",
    /*8*/ "Sri",
};

static int s_dformat(ctx_t *c, int a, int b)
{
    return RC(vnadata_set_format(c->vd[a], fmt_tab[b]));
}

static int s_dsettype(ctx_t *c, int a, int b)
{
    return RC(vnadata_set_type(c->vd[a], (vnadata_parameter_type_t)b));
}

static int s_dfiletype(ctx_t *c, int a, int b)
{
    return RC(vnadata_set_filetype(c->vd[a], (vnadata_filetype_t)b));
}

/* a = in * 4 + out */
static int s_dconvert(ctx_t *c, int a, int b)
{
    return RC(vnadata_convert(c->vd[a / 4], c->vd[a % 4],
		(vnadata_parameter_type_t)b));
}

static const char *const dfile_tab[] = {
    "c12-a.s2p", "c12-b.ts", "c12-c.npd", "c12-d.s3p", "c12-e.npd",
    "c12-f.s1p", "c12-g.npd", "c12-h.s1p",
};

static int s_dsave(ctx_t *c, int a, int b)
{
    return RC(vnadata_save(c->vd[a], scratch(dfile_tab[b])));
}

static int s_dcksave(ctx_t *c, int a, int b)
{
    return RC(vnadata_cksave(c->vd[a], scratch(dfile_tab[b])));
}

static int s_dload(ctx_t *c, int a, int b)
{
    return RC(vnadata_load(c->vd[a], scratch(dfile_tab[b])));
}

/*
 * A hand-written NPD file whose data lines are made as long as the loader's
 * line buffer (81 bytes at first, then doubled), shifted by `a' - 1 bytes: the
 * byte that makes the buffer grow is then, in turn, the last digit of a
 * field, the terminator of a field and the first digit of the next one.
 * Written by the driver itself (no library allocation).
 */
static int s_dwrite_long(ctx_t *c, int a, int b)
{
    FILE *fp = fopen(scratch(dfile_tab[b]), "w");
    (void)c;
    if (fp == NULL)
	return 2;
    fprintf(fp, "#NPD\n#:version 1.0\n#:ports 1\n#:frequencies 2\n"
	    "#:parameters Sri\n#:z0 50.0 +0.0j\n");
    for (int line = 0; line < 2; ++line) {
	/* 12 + 1 + n1 + 1 + n2 characters and 3 terminators in the buffer */
	int total = (line ? 162 : 81) + a - 1;
	int n1 = (total - 12 - 3) / 2, n2 = total - 12 - 3 - n1;
	fprintf(fp, "%d.000000e+09 +0.", line + 1);
	for (int i = 0; i < n1 - 3; ++i)
	    fputc('0' + (i + 5) % 10, fp);
	fprintf(fp, " -0.");
	for (int i = 0; i < n2 - 3; ++i)
	    fputc('0' + (i + 2) % 10, fp);
	fputc('\n', fp);
    }
    return fclose(fp) == 0 ? 0 : 2;
}

/* ------------------------------------------------------------------ */
/* observation of the final state                                      */

static void obs_vnadata(obs_t *o, const vnadata_t *vdp)
{
    if (vdp == NULL) {
	obs_s(o, "no-vnadata");
	return;
    }
    int nf = vnadata_get_frequencies(vdp);
    int rows = vnadata_get_rows(vdp), cols = vnadata_get_columns(vdp);
    int ports = rows > cols ? rows : cols;
    obs_s(o, "vnadata");
    obs_i(o, vnadata_get_type(vdp));
    obs_i(o, rows);
    obs_i(o, cols);
    obs_i(o, nf);
    obs_i(o, vnadata_has_fz0(vdp));
    obs_i(o, vnadata_get_filetype(vdp));
    obs_i(o, vnadata_get_fprecision(vdp));
    obs_i(o, vnadata_get_dprecision(vdp));
    obs_s(o, vnadata_get_format(vdp));
    for (int f = 0; f < nf; ++f) {
	obs_d(o, vnadata_get_frequency(vdp, f));
	for (int r = 0; r < rows; ++r)
	    for (int c = 0; c < cols; ++c)
		obs_c(o, vnadata_get_cell(vdp, f, r, c));
	if (vnadata_has_fz0(vdp))
	    for (int p = 0; p < ports; ++p)
		obs_c(o, vnadata_get_fz0(vdp, f, p));
    }
    if (!vnadata_has_fz0(vdp))
	for (int p = 0; p < ports; ++p)
	    obs_c(o, vnadata_get_z0(vdp, p));
}

static void obs_vnacal(ctx_t *c, obs_t *o, vnacal_t *vcp, int which)
{
    const cs_vna *v = &c->sc.vna;
    if (vcp == NULL) {
	obs_s(o, "no-vnacal");
	return;
    }
    int end = vnacal_get_calibration_end(vcp);
    obs_s(o, "vnacal");
    obs_i(o, end);
    for (int ci = 0; ci < end; ++ci) {
	const char *nm = vnacal_get_name(vcp, ci);
	obs_s(o, nm);
	if (nm == NULL)
	    continue;
	obs_i(o, vnacal_get_type(vcp, ci));
	obs_i(o, vnacal_get_rows(vcp, ci));
	obs_i(o, vnacal_get_columns(vcp, ci));
	int nf = vnacal_get_frequencies(vcp, ci);
	obs_i(o, nf);
	obs_d(o, vnacal_get_fmin(vcp, ci));
	obs_d(o, vnacal_get_fmax(vcp, ci));
	obs_c(o, vnacal_get_z0(vcp, ci));
	const double *fv = vnacal_get_frequency_vector(vcp, ci);
	for (int f = 0; fv != NULL && f < nf; ++f)
	    obs_d(o, fv[f]);
	if (c->h->family == 'C' && v->rows == v->cols) {
	    vnadata_t *vdp = vnadata_alloc(NULL, NULL);
	    int rc = do_apply(c, vcp, ci, 1, vdp);
	    obs_i(o, rc);
	    if (rc == 0)
		obs_vnadata(o, vdp);
	    vnadata_free(vdp);
	}
    }
    /* everything else the container holds, through the file format */
    const char *path = cal_path(8 + which);
    int rc = end > 0 ? vnacal_save(vcp, path) : -9;
    obs_i(o, rc);
    if (rc == 0)
	obs_file(o, path);
    unlink(path);
}

static int g_observe_light;	/* getters only: nothing is saved */

typedef struct obs_packed {
    int nd;
    long nx;
    uint64_t h;
    int overflow;
    double d[];
} obs_packed;

static obs_packed *obs_pack(const obs_t *o)
{
    obs_packed *q = malloc(sizeof(*q) + (size_t)o->nd * sizeof(double));
    if (q == NULL)
	abort();
    q->nd = o->nd; q->nx = o->nx; q->h = o->h; q->overflow = o->overflow;
    memcpy(q->d, o->d, (size_t)o->nd * sizeof(double));
    return q;
}

/* 0 when the library state in *o equals the packed one */
static int obs_cmp_packed(const obs_packed *a, const obs_t *b, char *why,
	size_t n)
{
    if (a->overflow || b->overflow)
	return 0;	/* nothing can be said */
    if (a->nd != b->nd || a->nx != b->nx) {
	snprintf(why, n, "the shape of the observable state changed: %d "
		"numbers/%ld exact items before the call, %d/%ld after it",
		a->nd, a->nx, b->nd, b->nx);
	return 1;
    }
    for (int i = 0; i < a->nd; ++i) {
	double x = a->d[i], y = b->d[i];
	if ((isnan(x) && isnan(y)) || x == y)
	    continue;
	double m = fmax(1.0, fmax(fabs(x), fabs(y)));
	if (!(fabs(x - y) <= 1e-9 * m)) {
	    snprintf(why, n, "number #%d of the observable state was %.12g "
		    "before the call and is %.12g after it", i, x, y);
	    return 1;
	}
    }
    if (a->h != b->h) {
	snprintf(why, n, "the exact part (names, counts, handles, text) of "
		"the observable state changed");
	return 1;
    }
    return 0;
}
static int g_record_pre;

static void observe(ctx_t *c, obs_t *o)
{
    const hist_t *h = c->h;

    obs_reset(o);
    switch (h->family) {
    case 'C':
	for (int i = 0; i < c->sc.nparam; ++i) {
	    const cs_param *p = &c->sc.param[i];
	    obs_i(o, p->handle);
	    if (p->handle >= 0 && c->vcp != NULL)
		for (int f = 0; f < c->sc.vna.nf; ++f)
		    obs_c(o, vnacal_get_parameter_value(c->vcp, p->handle,
				c->sc.vna.f[f]));
	}
	/* the driver's own notes of what calls returned are not part of the
	   "library state only" observation */
	for (int i = 0; i < 4 && !g_observe_light; ++i) {
	    obs_i(o, c->ci[i]);
	    obs_i(o, c->addrc[i]);
	}
	for (int i = 0; i < c->sc.nparam && !g_observe_light; ++i) {
	    for (int f = 0; f < c->sc.vna.nf; ++f)
		obs_c(o, c->pv[i][f]);
	    obs_i(o, c->reuse[i]);
	}
	if (!g_observe_light)
	    obs_s(o, c->got[0]);
	obs_vnacal(c, o, c->vcp, 0);
	obs_vnacal(c, o, c->vcp2, 1);
	obs_vnadata(o, c->vd[0]);
	break;
    case 'P':
	for (int i = 0; i < NPH; ++i) {
	    obs_i(o, c->ph[i]);
	    if (c->ph[i] >= 0)
		for (int k = 0; k < 5; ++k)
		    obs_c(o, vnacal_get_parameter_value(c->vcp, c->ph[i],
				pf_lo + (pf_hi - pf_lo) * (0.03 + 0.235 * k)));
	}
	for (int i = 0; i < 8 && !g_observe_light; ++i)
	    obs_c(o, c->getc[i]);
	for (int i = 0; i < NPH && !g_observe_light; ++i) {
	    obs_i(o, c->reuse[i]);
	    for (int k = 0; k < 5; ++k)
		obs_c(o, c->ppv[i][k]);
	}
	break;
    case 'Y':
	for (int i = 0; i < 3; ++i) {
	    const char *path = yaml_path(8);
	    FILE *fp = fopen(path, "w");
	    int rc = vnaproperty_export_yaml_to_file(c->root[i], fp,
		    "digest", NULL, NULL);
	    fclose(fp);
	    obs_i(o, rc);
	    obs_file(o, path);
	    unlink(path);
	}
	for (int i = 0; i < 8 && !g_observe_light; ++i) {
	    obs_s(o, c->got[i]);
	    obs_i(o, c->geti[i]);
	}
	break;
    case 'D':
	for (int i = 0; i < 3; ++i) {
	    obs_vnadata(o, c->vd[i]);
	    if (c->vd[i] != NULL) {
		/* and what a save of the object writes */
		const char *path = scratch("c12-digest.npd");
		vnadata_filetype_t ft = vnadata_get_filetype(c->vd[i]);
		if (!g_observe_light && (ft == VNADATA_FILETYPE_AUTO ||
			    ft == VNADATA_FILETYPE_NPD)) {
		    int rc = vnadata_save(c->vd[i], path);
		    obs_i(o, rc);
		    if (rc == 0)
			obs_file(o, path);
		    unlink(path);
		}
	    }
	}
	/* files are not objects: a save that fails may leave any file */
	for (size_t i = 0; i < sizeof(dfile_tab) / sizeof(dfile_tab[0]) &&
		!g_observe_light; ++i)
	    obs_file(o, scratch(dfile_tab[i]));
	break;
    }
}

static void cleanup_files(void)
{
    for (size_t i = 0; i < sizeof(dfile_tab) / sizeof(dfile_tab[0]); ++i)
	unlink(scratch(dfile_tab[i]));
    for (int i = 0; i < 10; ++i) {
	unlink(cal_path(i));
	unlink(yaml_path(i));
    }
}

static void teardown(ctx_t *c)
{
    for (int i = 0; i < 2; ++i) {
	vnacal_new_free(c->vnp[i]);
	c->vnp[i] = NULL;
    }
    vnacal_free(c->vcp);
    vnacal_free(c->vcp2);
    c->vcp = c->vcp2 = NULL;
    for (int i = 0; i < 3; ++i) {
	vnadata_free(c->vd[i]);
	c->vd[i] = NULL;
	if (c->root[i] != NULL)
	    (void)vnaproperty_delete(&c->root[i], ".");
    }
}

/* ------------------------------------------------------------------ */
/* history construction                                                */

static hist_t *new_hist(char family, const char *fmt, ...)
    __attribute__((format(printf, 2, 3)));
static hist_t *new_hist(char family, const char *fmt, ...)
{
    va_list ap;
    if (NH >= MAXH)
	abort();
    hist_t *h = &H[NH++];
    memset(h, 0, sizeof(*h));
    h->family = family;
    va_start(ap, fmt);
    vsnprintf(h->name, sizeof(h->name), fmt, ap);
    va_end(ap);
    return h;
}

static void add(hist_t *h, step_fn *fn, int a, int b, const char *name,
	int flags)
{
    if (h->nsteps >= MAXSTEPS) {
	fprintf(stderr, "c12: too many steps in %s\n", h->name);
	abort();
    }
    step_t *s = &h->st[h->nsteps++];
    s->fn = fn;
    s->a = a;
    s->b = b;
    s->name = name;
    s->flags = flags;
}
#define ADD(h, fn, a, b, name)	add(h, fn, a, b, name, 0)
#define ADDN(h, fn, a, b, name)	add(h, fn, a, b, name, F_NOCB)

/* steps creating every parameter of the scenario */
static void add_param_steps(hist_t *h, int nsigma)
{
    for (int i = 0; i < h->sc.nparam; ++i) {
	switch (h->sc.param[i].kind) {
	case CSP_PREDEF:
	    ADD(h, s_param, i, 0, "(predefined)");
	    break;
	case CSP_SCALAR:
	    ADD(h, s_param, i, 0, "vnacal_make_scalar_parameter");
	    break;
	case CSP_VECTOR:
	    ADD(h, s_param, i, 0, "vnacal_make_vector_parameter");
	    break;
	case CSP_UNKNOWN:
	    ADD(h, s_param, i, 0, h->sc.param[i].npts <= 1 ?
		    "vnacal_make_scalar_parameter" :
		    "vnacal_make_vector_parameter");
	    ADD(h, s_unknown, i, 0, "vnacal_make_unknown_parameter");
	    ADD(h, s_delguess, i, 0, "vnacal_delete_parameter");
	    break;
	case CSP_CORRELATED:
	    ADD(h, s_correlated, i, nsigma,
		    "vnacal_make_correlated_parameter");
	    break;
	}
    }
}

static const char *add_name(const cs_scenario *sc, int k)
{
    switch (sc->std[k].entry) {
    case CSE_SINGLE:
	return sc->ab ? "vnacal_new_add_single_reflect" :
	    "vnacal_new_add_single_reflect_m";
    case CSE_DOUBLE:
	return sc->ab ? "vnacal_new_add_double_reflect" :
	    "vnacal_new_add_double_reflect_m";
    case CSE_THROUGH:
	return sc->ab ? "vnacal_new_add_through" : "vnacal_new_add_through_m";
    case CSE_LINE:
	return sc->ab ? "vnacal_new_add_line" : "vnacal_new_add_line_m";
    default:
	return sc->ab ? "vnacal_new_add_mapped_matrix" :
	    "vnacal_new_add_mapped_matrix_m";
    }
}

enum { X_PLAIN, X_MERR, X_AUTO, X_TRL, X_CORR, X_AUTO_MERR };
enum { T_SOLVE = 0, T_ADD = 1, T_FULL = 2, T_MULTI = 3, T_SHARED = 4 };

/*
 * calibration history: create, parameters, new, frequencies, standards,
 * solve, then a tail
 */
static void cal_hist(vnacal_type_t type, int rows, int cols, int nf,
	int recipe, int ev, int av, int kv, int ab, int extra, int tail)
{
    static const char *const xn[] = { "", " m_error", " unknown(LM)", " TRL",
	" correlated", " unknown+m_error" };
    static const char *const tn[] = { "solve", "solve+add",
	"solve+add+save+load+apply", "3 calibrations+properties",
	"solve, then the same kit solved by a second vnacal_new_t on a "
	"longer grid, then the first again" };
    hist_t *h = new_hist('C', "cal %s %dx%d nf=%d r%d ev%d av%d kv%d %s%s: %s",
	    vnacal_type_to_name(type), rows, cols, nf, recipe, ev, av, kv,
	    ab ? "a/b" : "m", xn[extra], tn[tail]);
    cs_scenario *sc = &h->sc;
    int nsigma = 1;

    cs_make_vna(&sc->vna, type, rows, cols, nf, extra == X_TRL ? 1 : 2);
    sc->ab = ab;
    sc->a_variant = 0;
    if (extra == X_TRL) {
	cs_param *p;
	cs_std *st;
	sc->nparam = 2;
	p = &sc->param[0];		/* unknown reflect */
	p->kind = CSP_UNKNOWN;
	p->c0 = -0.93 * cexp(0.1 * I);
	p->c1 = 0.02;
	p->guess_scale = 1.04 * cexp(-0.05 * I);
	p->handle = -1;
	p = &sc->param[1];		/* unknown line */
	p->kind = CSP_UNKNOWN;
	p->c0 = 0.9 * cexp(-0.7 * I);
	p->c1 = -0.2 * I;
	p->npts = 4; p->lo = 0.9; p->hi = 1.1;
	p->guess_scale = 1.05 * cexp(0.05 * I);
	p->handle = -1;
	sc->nstd = 3;
	for (int k = 0; k < 3; ++k) {
	    st = &sc->std[k];
	    st->np = 2;
	    st->port[0] = 1; st->port[1] = 2;
	    st->id = k + 1;
	    for (int i = 0; i < 4; ++i) st->sp[i] = -1;
	}
	sc->std[0].entry = CSE_THROUGH;
	sc->std[0].sv[1] = sc->std[0].sv[2] = 1.0;
	sc->std[1].entry = CSE_DOUBLE;
	sc->std[1].sp[0] = sc->std[1].sp[3] = 0;
	sc->std[2].entry = CSE_LINE;
	sc->std[2].sp[1] = sc->std[2].sp[2] = 1;
    } else {
	if (cs_recipe(sc, recipe, ev, av, 0, kv) != 0) {
	    fprintf(stderr, "c12: recipe does not exist: %s\n", h->name);
	    abort();
	}
    }
    if (extra == X_AUTO || extra == X_CORR || extra == X_AUTO_MERR) {
	/* the short becomes an unknown (used on every port: redundant) */
	cs_param *p = &sc->param[2];
	p->kind = CSP_UNKNOWN;
	p->npts = 0;
	p->guess_scale = 1.03 * cexp(0.04 * I);
    }
    if (extra == X_CORR) {
	/* an open that is known to be close to the other open */
	cs_param *p = &sc->param[sc->nparam];
	int hits = 0;
	memset(p, 0, sizeof(*p));
	p->kind = CSP_CORRELATED;
	p->other = 1;
	p->c0 = sc->param[1].c0 * (1.004 + 0.003 * I);
	p->sigma = 0.02;
	p->handle = -1;
	for (int k = 0; k < sc->nstd; ++k)
	    if (sc->std[k].np == 1 && sc->std[k].sp[0] == 1 && ++hits == 2)
		sc->std[k].sp[0] = sc->nparam;
	if (hits < 2) {
	    fprintf(stderr, "c12: no second open in %s\n", h->name);
	    abort();
	}
	++sc->nparam;
	nsigma = 3;
    }
    if (extra == X_MERR || extra == X_AUTO_MERR) {
	sc->noise = 1e-4;
	h->merr = 1;
    }

    ADD(h, s_create, 0, 0, "vnacal_create");
    add_param_steps(h, nsigma);
    ADD(h, s_new_alloc, 0, 0, "vnacal_new_alloc");
    ADD(h, s_set_freq, 0, 0, "vnacal_new_set_frequency_vector");
    if (tail == T_FULL)
	ADD(h, s_set_z0, 0, 0, "vnacal_new_set_z0");
    if (h->merr)
	ADD(h, s_m_error, 0, nf >= 2 ? 3 : 1, "vnacal_new_set_m_error");
    for (int k = 0; k < sc->nstd; ++k)
	ADD(h, s_add_std, 0, k, add_name(sc, k));
    ADD(h, s_solve, 0, 0, "vnacal_new_solve");
    if (tail >= T_ADD)
	ADD(h, s_add_cal, 0, 0, "vnacal_add_calibration");
    if (tail == T_FULL) {
	ADDN(h, s_cal_prop, 0, 0, "vnacal_property_set");
	ADD(h, s_save, 0, 0, "vnacal_save");
	ADD(h, s_load, 0, 0, "vnacal_load");
	if (rows == cols) {
	    ADD(h, s_dalloc, 0, 0, "vnadata_alloc");
	    ADD(h, s_apply, 0, 0, "vnacal_apply_m");
	    ADD(h, s_apply, 8, 2, "vnacal_apply_m");
	}
    }
    if (tail == T_MULTI) {
	ADDN(h, s_cal_prop, -1, 0, "vnacal_property_set");
	ADDN(h, s_cal_prop, 0, 1, "vnacal_property_set");
	ADDN(h, s_cal_prop, 0, 2, "vnacal_property_set");
	ADD(h, s_solve, 0, 0, "vnacal_new_solve");
	ADD(h, s_add_cal, 0, 1, "vnacal_add_calibration");  /* 1 -> 8 slots */
	ADDN(h, s_cal_prop, 1, 1, "vnacal_property_set");
	ADDN(h, s_cal_prop, 1, 2, "vnacal_property_set");
	ADD(h, s_solve, 0, 0, "vnacal_new_solve");	    /* solve again */
	add(h, s_add_cal, 0, 2, "vnacal_add_calibration", F_KEEPS);  /* replace */
	ADDN(h, s_cal_prop_get, 1, 0, "vnacal_property_get");
	ADDN(h, s_cal_prop, 1, 3, "vnacal_property_delete");
	ADD(h, s_solve, 0, 0, "vnacal_new_solve");
	ADD(h, s_add_cal, 0, 3, "vnacal_add_calibration");
	ADD(h, s_del_cal, 1, 0, "vnacal_delete_calibration");
	/* replace again, now with a free slot below the replaced one: a
	   repetition that does not find the name any more lands there */
	ADD(h, s_solve, 0, 0, "vnacal_new_solve");
	add(h, s_add_cal, 0, 4, "vnacal_add_calibration", F_KEEPS);
	ADD(h, s_free_new, 0, 0, "vnacal_new_free");
	ADD(h, s_save, 1, 0, "vnacal_save");
	ADD(h, s_load, 1, 0, "vnacal_load");
    }
    if (tail == T_SHARED) {
	/* unknown parameters are stored back with the grid of the solve:
	   2 more frequencies, then back to the first grid */
	ADD(h, s_new_alloc2, 0, 2, "vnacal_new_alloc");
	ADD(h, s_set_freq2, 0, 2, "vnacal_new_set_frequency_vector");
	for (int k = 0; k < sc->nstd; ++k)
	    ADD(h, s_add_std2, k, 2, add_name(sc, k));
	ADD(h, s_solve, 1, 0, "vnacal_new_solve");
	ADD(h, s_solve, 0, 0, "vnacal_new_solve");
	ADD(h, s_solve, 1, 0, "vnacal_new_solve");
	ADD(h, s_free_new, 1, 0, "vnacal_new_free");
    }
    /*
     * slot-reuse observation: release everything that holds parameters,
     * delete every handle, then as many new parameters as there were must
     * get the lowest slots back
     */
    if (tail != T_MULTI)
	ADD(h, s_free_new, 0, 0, "vnacal_new_free");
    {
	int n = 0;
	for (int i = sc->nparam - 1; i >= 0; --i)
	    if (sc->param[i].kind != CSP_PREDEF) {
		ADD(h, s_c_delparam, i, 0, "vnacal_delete_parameter");
		++n;
	    }
	for (int i = 0; i < n; ++i)
	    ADD(h, s_reuse, i, 0, "vnacal_make_scalar_parameter");
    }
}

static void param_hists(void)
{
    hist_t *h = new_hist('P', "parameters: scalar/vector/unknown/correlated, "
	    "table growth, delete and reuse");
    ADD(h, s_create, 0, 0, "vnacal_create");
    ADD(h, s_p_scalar, 0, 1, "vnacal_make_scalar_parameter");
    ADD(h, s_p_vector, 1, 5, "vnacal_make_vector_parameter");
    ADD(h, s_p_unknown, 2, 0, "vnacal_make_unknown_parameter");
    ADD(h, s_p_unknown, 3, 1, "vnacal_make_unknown_parameter");
    ADD(h, s_p_corr, 4, 0 * 16 + 1, "vnacal_make_correlated_parameter");
    ADD(h, s_p_scalar, 5, 2, "vnacal_make_scalar_parameter"); /* 8 -> 16 */
    ADD(h, s_p_corr, 6, 1 * 16 + 2, "vnacal_make_correlated_parameter");
    ADD(h, s_p_corr, 7, 1 * 16 + 3, "vnacal_make_correlated_parameter");
    ADD(h, s_p_corr, 8, 2 * 16 + 6, "vnacal_make_correlated_parameter");
    ADD(h, s_p_value, 1, 3, "vnacal_get_parameter_value");
    ADD(h, s_p_value, 0, 1, "vnacal_get_parameter_value");
    ADD(h, s_p_delete, 0, 1, "vnacal_delete_parameter");
    ADD(h, s_p_delete, 5, 1, "vnacal_delete_parameter");
    ADD(h, s_p_vector, 9, 1, "vnacal_make_vector_parameter");
    ADD(h, s_p_vector, 10, 2, "vnacal_make_vector_parameter");
    ADD(h, s_p_corr, 11, 10 * 16 + 4, "vnacal_make_correlated_parameter");
    for (int i = 12; i < 20; ++i)
	ADD(h, s_p_scalar, i, i, "vnacal_make_scalar_parameter"); /* -> 32 */
    ADD(h, s_p_value, 9, 0, "vnacal_get_parameter_value");
    ADD(h, s_p_value, 10, 3, "vnacal_get_parameter_value");
    ADD(h, s_p_delete, 10, 1, "vnacal_delete_parameter");
    /* delete every handle, then 18 new ones must fill slots 3..20 */
    for (int i = 19; i >= 1; --i)
	if (i != 5 && i != 10)
	    ADD(h, s_p_delete, i, i == 1 || i == 9 || i >= 12,
		    "vnacal_delete_parameter");
    for (int i = 0; i < 18; ++i)
	ADD(h, s_reuse, i, 0, "vnacal_make_scalar_parameter");
}

/*
 * correlated parameters that borrow the frequency grid of a vector
 * parameter, directly and through an unknown parameter; the vector
 * parameter is read, deleted first and deleted last
 */
static void borrow_hists(void)
{
    for (int order = 0; order < 2; ++order) {
	hist_t *h = new_hist('P', "parameters: correlated with NULL sigma "
		"frequency vector over a vector parameter and over an "
		"unknown of it; %s", order ? "correlated deleted first" :
		"vector deleted first");
	ADD(h, s_create, 0, 0, "vnacal_create");
	ADD(h, s_p_vector, 1, 5, "vnacal_make_vector_parameter");
	ADD(h, s_p_unknown, 2, 1, "vnacal_make_unknown_parameter");
	ADD(h, s_p_corr_null, 3, 1 * 16 + 5,
		"vnacal_make_correlated_parameter");
	ADD(h, s_p_corr_null, 4, 2 * 16 + 5,
		"vnacal_make_correlated_parameter");
	ADD(h, s_p_corr_null, 5, 4 * 16 + 5,
		"vnacal_make_correlated_parameter");
	ADD(h, s_p_value, 1, 3, "vnacal_get_parameter_value");
	if (order == 0) {
	    ADD(h, s_p_delete, 1, 1, "vnacal_delete_parameter");
	    ADD(h, s_p_delete, 2, 0, "vnacal_delete_parameter");
	    ADD(h, s_p_vector, 6, 3, "vnacal_make_vector_parameter");
	    ADD(h, s_p_delete, 3, 0, "vnacal_delete_parameter");
	    ADD(h, s_p_delete, 5, 0, "vnacal_delete_parameter");
	    ADD(h, s_p_delete, 4, 0, "vnacal_delete_parameter");
	} else {
	    ADD(h, s_p_delete, 5, 0, "vnacal_delete_parameter");
	    ADD(h, s_p_delete, 3, 0, "vnacal_delete_parameter");
	    ADD(h, s_p_delete, 4, 0, "vnacal_delete_parameter");
	    ADD(h, s_p_value, 1, 2, "vnacal_get_parameter_value");
	    ADD(h, s_p_corr_null, 3, 2 * 16 + 5,
		    "vnacal_make_correlated_parameter");
	    ADD(h, s_p_delete, 2, 0, "vnacal_delete_parameter");
	    ADD(h, s_p_delete, 1, 1, "vnacal_delete_parameter");
	}
	for (int i = 0; i < 4; ++i)
	    ADD(h, s_reuse, i, 0, "vnacal_make_scalar_parameter");
    }
}

/*
 * registration order: every parameter kind is first seen by a vnacal_new_t
 * through an add call, in every dependency order
 *   ph0 scalar, ph1 vector, ph2 unknown(ph0), ph3 correlated(ph1),
 *   ph4 correlated(ph2) [chain of two], ph5 correlated(ph0)
 */
static void reg_params(hist_t *h)
{
    ADD(h, s_create, 0, 0, "vnacal_create");
    ADD(h, s_p_scalar, 0, 1, "vnacal_make_scalar_parameter");
    ADD(h, s_p_vector, 1, 5, "vnacal_make_vector_parameter");
    ADD(h, s_p_unknown, 2, 0, "vnacal_make_unknown_parameter");
    ADD(h, s_p_corr, 3, 1 * 16 + 1, "vnacal_make_correlated_parameter");
    ADD(h, s_p_corr, 4, 2 * 16 + 3, "vnacal_make_correlated_parameter");
    ADD(h, s_p_corr, 5, 0 * 16 + 2, "vnacal_make_correlated_parameter");
}

static const char *radd_name(int b)
{
    switch (radd_tab[b].entry) {
    case RA_SINGLE:  return "vnacal_new_add_single_reflect_m";
    case RA_DOUBLE:  return "vnacal_new_add_double_reflect_m";
    case RA_THROUGH: return "vnacal_new_add_through_m";
    case RA_LINE:    return "vnacal_new_add_line_m";
    default:	     return "vnacal_new_add_mapped_matrix_m";
    }
}

static void reg_tail(hist_t *h, int delete_first)
{
    if (!delete_first) {
	ADD(h, s_free_new, 1, 0, "vnacal_new_free");
	ADD(h, s_free_new, 0, 0, "vnacal_new_free");
    }
    for (int i = 5; i >= 0; --i)
	ADD(h, s_p_delete, i, i <= 1, "vnacal_delete_parameter");
    if (delete_first) {
	/* the vnacal_new_t structures held the deleted parameters */
	ADD(h, s_free_new, 0, 0, "vnacal_new_free");
	ADD(h, s_free_new, 1, 0, "vnacal_new_free");
    }
    for (int i = 0; i < 6; ++i)
	ADD(h, s_reuse, i, 0, "vnacal_make_scalar_parameter");
}

static void reg_hist(const char *what, int type0, int type1,
	const int *adds0, const int *adds1, int delete_first)
{
    hist_t *h = new_hist('P', "registration order: %s", what);
    reg_params(h);
    ADD(h, s_r_new, 0, type0, "vnacal_new_alloc");
    ADD(h, s_r_freq, 0, 0, "vnacal_new_set_frequency_vector");
    for (int i = 0; adds0[i] >= 0; ++i)
	ADD(h, s_r_add, 0, adds0[i], radd_name(adds0[i]));
    ADD(h, s_r_new, 1, type1, "vnacal_new_alloc");
    ADD(h, s_r_freq, 1, 0, "vnacal_new_set_frequency_vector");
    for (int i = 0; adds1[i] >= 0; ++i)
	ADD(h, s_r_add, 1, adds1[i], radd_name(adds1[i]));
    reg_tail(h, delete_first);
}

static void reg_hists(void)
{
    static const int a1[] = { 0, 1, 2, 3, -1 }, b1[] = { 4, 5, -1 };
    static const int a2[] = { 6, 5, 10, 0, 1, -1 }, b2[] = { 7, 8, -1 };
    static const int a3[] = { 9, 11, -1 }, b3[] = { 1, 0, 2, -1 };
    static const int a4[] = { 7, -1 }, b4[] = { 11, 9, -1 };

    reg_hist("correlated before its correlate (vector, unknown, scalar), "
	    "same chain in two cells, second vnacal_new_t", 0, 1, a1, b1, 0);
    reg_hist("correlate first, then the correlated; three chains in one "
	    "mapped matrix on a second vnacal_new_t; handles deleted before "
	    "the vnacal_new_t are freed", 2, 3, a2, b2, 1);
    reg_hist("correlated in a line and in all four cells first (T16), same "
	    "chains again on a UE14", 4, 3, a3, b3, 0);
    reg_hist("three chains registered by one call (E12), again on a U8",
	    5, 1, a4, b4, 1);
}

static void prop_hists(void)
{
    hist_t *h = new_hist('Y', "vnaproperty: set (maps, lists, gaps, "
	    "replace), get, type, count, keys");
    for (int i = 0; i <= 5; ++i)
	ADDN(h, s_y_set, 0, i, "vnaproperty_set");
    ADDN(h, s_y_get, 0, 0, "vnaproperty_get");
    ADDN(h, s_y_get, 0, 1, "vnaproperty_get");
    ADDN(h, s_y_get, 0, 2, "vnaproperty_get");
    ADDN(h, s_y_type, 0, 0, "vnaproperty_type");
    ADDN(h, s_y_type, 0, 1, "vnaproperty_type");
    ADDN(h, s_y_count, 0, 0, "vnaproperty_count");
    ADDN(h, s_y_count, 0, 1, "vnaproperty_count");
    ADDN(h, s_y_keys, 0, 0, "vnaproperty_keys");
    ADDN(h, s_y_keys, 0, 1, "vnaproperty_keys");
    for (int i = 6; i <= 19; ++i)
	add(h, s_y_set, 0, i, "vnaproperty_set", F_NOCB |
		((i == 8 || i == 9 || i >= 15) ? F_INSERT : 0));
    ADDN(h, s_y_quote, 0, 1, "vnaproperty_quote_key");
    ADDN(h, s_y_get_subtree, 0, 0, "vnaproperty_get_subtree");

    h = new_hist('Y', "vnaproperty: set_subtree, delete, copy");
    for (int i = 0; i <= 5; ++i)
	ADDN(h, s_y_set, 0, i, "vnaproperty_set");
    ADDN(h, s_y_set_subtree, 0, 0, "vnaproperty_set_subtree");
    ADDN(h, s_y_sub_set, 0, 0, "vnaproperty_set");
    ADDN(h, s_y_sub_set, 0, 3, "vnaproperty_set");
    ADDN(h, s_y_set_subtree, 0, 1, "vnaproperty_set_subtree");
    ADDN(h, s_y_sub_set, 0, 14, "vnaproperty_set");
    ADDN(h, s_y_set_subtree, 0, 2, "vnaproperty_set_subtree");
    ADDN(h, s_y_copy, 1, 0, "vnaproperty_copy");
    ADDN(h, s_y_del, 0, 0, "vnaproperty_delete");
    ADDN(h, s_y_del, 0, 1, "vnaproperty_delete");
    ADDN(h, s_y_del, 0, 2, "vnaproperty_delete");
    ADDN(h, s_y_del, 0, 3, "vnaproperty_delete");
    ADDN(h, s_y_set, 1, 12, "vnaproperty_set");
    ADDN(h, s_y_copy, 2, 1, "vnaproperty_copy");
    ADDN(h, s_y_copy, 1, 0, "vnaproperty_copy");	/* replace content */
    ADDN(h, s_y_del, 2, 4, "vnaproperty_delete");

    h = new_hist('Y', "vnaproperty: export yaml, import yaml from file and "
	    "string");
    for (int i = 0; i <= 5; ++i)
	ADDN(h, s_y_set, 0, i, "vnaproperty_set");
    ADDN(h, s_y_set, 0, 10, "vnaproperty_set");
    ADDN(h, s_y_set, 0, 11, "vnaproperty_set");
    ADDN(h, s_y_set, 0, 12, "vnaproperty_set");
    ADD(h, s_y_export, 0, 0, "vnaproperty_export_yaml_to_file");
    ADD(h, s_y_import_file, 1, 0, "vnaproperty_import_yaml_from_file");
    ADD(h, s_y_import_str, 2, 0, "vnaproperty_import_yaml_from_string");
    ADD(h, s_y_export, 2, 1, "vnaproperty_export_yaml_to_file");
    ADD(h, s_y_import_str, 2, 1, "vnaproperty_import_yaml_from_string");
    ADD(h, s_y_import_file, 0, 1, "vnaproperty_import_yaml_from_file");
    ADD(h, s_y_import_str, 1, 2, "vnaproperty_import_yaml_from_string");
}

static void data_hists(void)
{
    hist_t *h;

    h = new_hist('D', "vnadata: init, resize growing every dimension, "
	    "add_frequency");
    ADD(h, s_dalloc, 0, 0, "vnadata_alloc");
    ADD(h, s_dinit, 0, 0, "vnadata_init");
    ADD(h, s_dfill, 0, 0, "(fill)");
    ADD(h, s_dresize, 0, 1, "vnadata_resize");
    ADD(h, s_dresize, 0, 2, "vnadata_resize");
    ADD(h, s_dfill, 0, 0, "(fill)");
    ADD(h, s_dresize, 0, 3, "vnadata_resize");
    ADD(h, s_dresize, 0, 4, "vnadata_resize");
    ADD(h, s_dresize, 0, 7, "vnadata_resize");
    ADD(h, s_dfill, 0, 0, "(fill)");
    ADD(h, s_daddf, 0, 0, "vnadata_add_frequency");
    ADD(h, s_daddf, 0, 1, "vnadata_add_frequency");
    ADD(h, s_dinit, 0, 5, "vnadata_init");
    for (int i = 2; i < 8; ++i)
	ADD(h, s_daddf, 0, i, "vnadata_add_frequency");

    h = new_hist('D', "vnadata: z0 vector, per-frequency z0 and back, with "
	    "resize in both modes");
    ADD(h, s_dalloc, 0, 0, "vnadata_alloc");
    ADD(h, s_dinit, 0, 0, "vnadata_init");
    ADD(h, s_dfill, 0, 0, "(fill)");
    ADD(h, s_dz0, 0, 1, "vnadata_set_z0");
    ADD(h, s_dz0vec, 0, 1, "vnadata_set_z0_vector");
    ADD(h, s_dfz0, 0, 5, "vnadata_set_fz0");	/* -> per-frequency */
    ADD(h, s_dfz0vec, 0, 2, "vnadata_set_fz0_vector");
    ADD(h, s_dresize, 0, 1, "vnadata_resize");	/* more ports in fz0 mode */
    ADD(h, s_dresize, 0, 2, "vnadata_resize");	/* more frequencies */
    ADD(h, s_daddf, 0, 0, "vnadata_add_frequency");
    ADD(h, s_dfz0, 0, 4 * 6 + 2, "vnadata_set_fz0");
    ADD(h, s_dz0, 0, 0, "vnadata_set_z0");	/* back to simple z0 */
    ADD(h, s_dfz0vec, 0, 0, "vnadata_set_fz0_vector");
    ADD(h, s_dallz0, 0, 1, "vnadata_set_all_z0");
    ADD(h, s_dfz0, 0, 1, "vnadata_set_fz0");
    ADD(h, s_dz0vec, 0, 2, "vnadata_set_z0_vector");
    ADD(h, s_dresize, 0, 4, "vnadata_resize");

    h = new_hist('D', "vnadata: set_format with several specifiers, "
	    "set_type, set_filetype");
    ADD(h, s_dalloc, 0, 0, "vnadata_alloc");
    ADD(h, s_dinit, 0, 0, "vnadata_init");
    ADD(h, s_dfill, 0, 0, "(fill)");
    for (int i = 0; i <= 6; ++i)
	ADD(h, s_dformat, 0, i, "vnadata_set_format");
    ADD(h, s_dsettype, 0, VPT_Z, "vnadata_set_type");
    ADD(h, s_dformat, 0, 5, "vnadata_set_format");
    ADD(h, s_dfiletype, 0, VNADATA_FILETYPE_NPD, "vnadata_set_filetype");
    ADD(h, s_dformat, 0, 2, "vnadata_set_format");

    h = new_hist('D', "vnadata: convert in place and into a second object");
    ADD(h, s_dalloc, 0, 0, "vnadata_alloc");
    ADD(h, s_dalloc, 1, 0, "vnadata_alloc");
    ADD(h, s_dinit, 0, 0, "vnadata_init");
    ADD(h, s_dfill, 0, 0, "(fill)");
    ADD(h, s_dz0vec, 0, 1, "vnadata_set_z0_vector");
    ADD(h, s_dconvert, 0 * 4 + 0, VPT_Z, "vnadata_convert");
    ADD(h, s_dconvert, 0 * 4 + 0, VPT_T, "vnadata_convert");
    ADD(h, s_dconvert, 0 * 4 + 1, VPT_Y, "vnadata_convert");
    ADD(h, s_dconvert, 1 * 4 + 1, VPT_S, "vnadata_convert");
    ADD(h, s_dconvert, 0 * 4 + 0, VPT_S, "vnadata_convert");
    ADD(h, s_dalloc, 2, 0, "vnadata_alloc");
    ADD(h, s_dconvert, 0 * 4 + 2, VPT_ZIN, "vnadata_convert");
    ADD(h, s_dconvert, 1 * 4 + 1, VPT_ZIN, "vnadata_convert");

    h = new_hist('D', "vnadata: convert with per-frequency z0 (in place and "
	    "into a second object that had simple z0)");
    ADD(h, s_dalloc, 0, 0, "vnadata_alloc");
    ADD(h, s_dalloc, 1, 0, "vnadata_alloc");
    ADD(h, s_dinit, 0, 1, "vnadata_init");
    ADD(h, s_dfill, 0, 0, "(fill)");
    ADD(h, s_dinit, 1, 0, "vnadata_init");
    ADD(h, s_dfz0vec, 0, 1, "vnadata_set_fz0_vector");
    ADD(h, s_dfz0, 0, 4 * 2 + 1, "vnadata_set_fz0");
    ADD(h, s_dconvert, 0 * 4 + 1, VPT_Z, "vnadata_convert");
    ADD(h, s_dconvert, 0 * 4 + 0, VPT_Y, "vnadata_convert");
    ADD(h, s_dconvert, 1 * 4 + 1, VPT_S, "vnadata_convert");
    ADD(h, s_dalloc, 2, 0, "vnadata_alloc");
    ADD(h, s_dinit, 2, 6, "vnadata_init");
    ADD(h, s_dfz0, 2, 1, "vnadata_set_fz0");
    ADD(h, s_dz0vec, 0, 0, "vnadata_set_z0_vector");
    ADD(h, s_dconvert, 0 * 4 + 2, VPT_S, "vnadata_convert"); /* fz0 -> z0 */

    /* save / load per file type */
    static const struct { int file, shape, fmt, fz0; const char *what;
	int nock; } sl[] = {
	{ 0, 0, 0, 0, ".s2p SdB" },
	{ 0, 0, 7, 0, ".s2p Zri" },
	{ 1, 1, 4, 0, ".ts 3x3 Sma" },
	{ 1, 0, 8, 0, ".ts 2x2 Sri" },
	{ 2, 0, 2, 0, ".npd Zri,SdB,Zinma" },
	{ 2, 0, 3, 0, ".npd PRC..VSWR" },
	{ 4, 1, 1, 1, ".npd 3x3 per-frequency z0 Sri,Zma" },
	{ 3, 1, 8, 0, ".s3p Sri" },
	/* formats without parameter letter are resolved by the save */
	{ 2, 0, 5, 0, ".npd ri (letterless)" },
	{ 0, 0, 5, 0, ".s2p ri (letterless)" },
	/* no format set at all: the save installs the default one */
	{ 2, 0, -1, 0, ".npd, no format set" },
	{ 0, 0, -1, 0, ".s2p, no format set" },
	/* saved without a vnadata_cksave first: the object's file type is
	   still the one it was made with when the save begins */
	{ 0, 0, 7, 0, ".s2p Zri, not checked first", 1 },
	{ 0, 0, 0, 0, ".s2p SdB, not checked first", 1 },
	{ 1, 0, 8, 0, ".ts 2x2 Sri, not checked first", 1 },
    };
    for (size_t i = 0; i < sizeof(sl) / sizeof(sl[0]); ++i) {
	h = new_hist('D', "vnadata: save and load %s", sl[i].what);
	ADD(h, s_dalloc, 0, 0, "vnadata_alloc");
	ADD(h, s_dinit, 0, sl[i].shape, "vnadata_init");
	ADD(h, s_dfill, 0, 0, "(fill)");
	if (sl[i].fz0) {
	    ADD(h, s_dfz0vec, 0, 1, "vnadata_set_fz0_vector");
	    ADD(h, s_dfz0, 0, 4 * 2 + 1, "vnadata_set_fz0");
	} else if (sl[i].file == 0 || sl[i].file == 3) {
	    ADD(h, s_dallz0, 0, 35, "vnadata_set_all_z0");
	} else {
	    ADD(h, s_dz0vec, 0, 0, "vnadata_set_z0_vector");
	}
	if (sl[i].fmt >= 0)
	    ADD(h, s_dformat, 0, sl[i].fmt, "vnadata_set_format");
	if (!sl[i].nock)
	    ADD(h, s_dcksave, 0, sl[i].file, "vnadata_cksave");
	/* a save writes a file: the object is after a failed save what
	   it was before it (type, shape, data, z0, format, file type);
	   a format without parameter letter is resolved in the object by
	   the save, failed or not: those are judged by the repetition */
	add(h, s_dsave, 0, sl[i].file, "vnadata_save",
		sl[i].fmt == 5 ? 0 : F_KEEPS);
	ADD(h, s_dalloc, 1, 0, "vnadata_alloc");
	ADD(h, s_dload, 1, sl[i].file, "vnadata_load");
	ADD(h, s_dload, 0, sl[i].file, "vnadata_load");	/* into used object */
    }
}

/* a Touchstone file with numbers of 150 and 400 digits: tokens that
   outgrow the lexer's buffer twice */
static int s_dwrite_longtok(ctx_t *c, int a, int b)
{
    FILE *fp = fopen(scratch(dfile_tab[b]), "w");
    (void)c;
    if (fp == NULL)
	return 2;
    fprintf(fp, "! long tokens\n# Hz S RI R 50\n");
    for (int line = 0; line < 2; ++line) {
	fprintf(fp, "%d000000000 0.", line + 1);
	for (int i = 0; i < 150 + a; ++i)
	    fputc('0' + (i + 5) % 10, fp);
	fprintf(fp, " -0.");
	for (int i = 0; i < 400 + a; ++i)
	    fputc('0' + (i + 2) % 10, fp);
	fputc('\n', fp);
    }
    return fclose(fp) == 0 ? 0 : 2;
}

static void long_line_hists(void)
{
    {
	hist_t *h = new_hist('D', "vnadata: load of a Touchstone file with "
		"numbers of 150 and 400 digits");
	ADD(h, s_dalloc, 0, 0, "vnadata_alloc");
	ADDN(h, s_dwrite_longtok, 0, 7, "(write file)");
	ADD(h, s_dload, 0, 7, "vnadata_load");
	ADD(h, s_dload, 0, 7, "vnadata_load");
    }
    for (int a = 0; a < 3; ++a) {
	hist_t *h = new_hist('D', "vnadata: load of an NPD file whose lines "
		"fill the line buffer to %d byte(s) of its size", a - 1);
	ADD(h, s_dalloc, 0, 0, "vnadata_alloc");
	ADDN(h, s_dwrite_long, a, 6, "(write file)");
	ADD(h, s_dload, 0, 6, "vnadata_load");
	ADD(h, s_dload, 0, 6, "vnadata_load");
    }
}

static void build_histories(void)
{
    if (H != NULL)
	return;
    H = calloc(MAXH, sizeof(hist_t));
    if (H == NULL)
	abort();
    /* every add entry point, every solver path, every type family */
    cal_hist(VNACAL_T8,   2, 2, 2, 0, 0, 0, 0, 0, X_PLAIN, T_FULL);
    cal_hist(VNACAL_T8,   2, 2, 2, 0, 1, 0, 2, 1, X_PLAIN, T_MULTI);
    cal_hist(VNACAL_U8,   2, 2, 1, 1, 0, 3, 1, 0, X_PLAIN, T_ADD);
    cal_hist(VNACAL_TE10, 2, 2, 2, 0, 2, 0, 1, 1, X_PLAIN, T_ADD);
    cal_hist(VNACAL_UE10, 2, 1, 2, 0, 0, 0, 0, 0, X_PLAIN, T_ADD);
    cal_hist(VNACAL_T8,   1, 2, 1, 0, 0, 1, 0, 0, X_PLAIN, T_ADD);
    cal_hist(VNACAL_E12,  2, 2, 2, 0, 0, 0, 0, 0, X_PLAIN, T_FULL);
    cal_hist(VNACAL_UE14, 2, 2, 1, 0, 0, 0, 2, 1, X_PLAIN, T_FULL);
    cal_hist(VNACAL_E12,  2, 1, 1, 0, 0, 0, 0, 0, X_PLAIN, T_ADD);
    cal_hist(VNACAL_T16,  2, 2, 1, 0, 0, 0, 0, 0, X_PLAIN, T_FULL);
    cal_hist(VNACAL_U16,  2, 2, 1, 1, 0, 0, 1, 1, X_PLAIN, T_ADD);
    cal_hist(VNACAL_T8,   3, 3, 1, 0, 0, 0, 0, 0, X_PLAIN, T_ADD);
    cal_hist(VNACAL_T8,   2, 2, 2, 0, 0, 0, 0, 0, X_MERR, T_ADD);
    cal_hist(VNACAL_TE10, 2, 2, 1, 0, 0, 0, 0, 0, X_MERR, T_ADD);
    cal_hist(VNACAL_T16,  2, 2, 1, 0, 0, 0, 0, 0, X_MERR, T_ADD);
    cal_hist(VNACAL_T8,   2, 2, 2, 0, 0, 0, 2, 0, X_AUTO, T_FULL);
    cal_hist(VNACAL_UE14, 2, 2, 1, 0, 0, 0, 2, 0, X_AUTO, T_ADD);
    cal_hist(VNACAL_T8,   2, 2, 2, 0, 0, 0, 2, 0, X_AUTO_MERR, T_ADD);
    cal_hist(VNACAL_E12,  2, 2, 2, 0, 0, 0, 2, 0, X_AUTO, T_ADD);
    cal_hist(VNACAL_T8,   2, 2, 2, 0, 0, 0, 0, 0, X_TRL, T_FULL);
    cal_hist(VNACAL_UE10, 2, 2, 1, 0, 0, 0, 0, 1, X_TRL, T_ADD);
    cal_hist(VNACAL_T8,   2, 2, 2, 0, 0, 0, 2, 0, X_CORR, T_ADD);
    /* the same kit with unknown parameters solved by two vnacal_new_t on
       grids of different length (iterative and closed-form path) */
    cal_hist(VNACAL_T8,   2, 2, 2, 0, 0, 0, 2, 0, X_AUTO, T_SHARED);
    cal_hist(VNACAL_U8,   2, 2, 2, 0, 0, 0, 0, 0, X_TRL, T_SHARED);
    param_hists();
    borrow_hists();
    reg_hists();
    prop_hists();
    data_hists();
    long_line_hists();
}

/* ------------------------------------------------------------------ */
/* running one history                                                 */

typedef struct runinfo {
    int faulted_step[2];	/* steps in which the faults landed */
    int nfaults;
    int failed_steps;		/* steps that returned their failure value */
    int absorbed;		/* faults survived by a successful call */
    long K;
} runinfo_t;

static ctx_t C;

/*
 * comparison with the unfaulted run is made before the tear-down, so that
 * a state difference is reported as such even when freeing the damaged
 * objects would then trip an assertion
 */
static const obs_t *g_ref;
static int g_mismatch;
static char g_why[300];

static int g_mode;	/* 0: libvna allocation sites fail, 1: libyaml's */
static long g_yaml_internal;	/* leaks inside libyaml's own error paths */

static void leak_check(vf_result *r, unsigned long mark, const char *where)
{
    char sites[400];
    int n = vf_leak_report(mark, sites, sizeof(sites));
    int yp = vf_yaml_live(0), ye = vf_yaml_live(1), yd = vf_yaml_live(2);

    vf_yaml_forget();
    /* what libvna owes libyaml is that every parser, emitter and document
       it initialised is deleted again */
    if (yp + ye + yd > 0) {
	char sig[200];
	snprintf(sig, sizeof(sig), "yaml-not-deleted:%s", where);
	vf_fail(r, sig, "%d yaml_parser_t, %d yaml_emitter_t and %d "
		"yaml_document_t initialised and never deleted (fault in %s)",
		yp, ye, yd, where);
	vf_leak_discard(mark);
	return;
    }
    /*
     * With the fault inside libyaml, blocks that libyaml itself loses on
     * its error paths although libvna deleted every parser, emitter and
     * document are libyaml's, not libvna's: counted, not reported.
     */
    if (n > 0 && g_mode == 1 && vf_leak_count_origin(mark, 0) == 0) {
	++g_yaml_internal;
	vf_leak_discard(mark);
	return;
    }
    if (n > 0) {
	char sig[200], first[120];
	snprintf(first, sizeof(first), "%s", sites);
	char *c = strchr(first, ',');
	if (c) *c = '\0';
	c = strchr(first, ':');
	if (c) *c = '\0';
	snprintf(sig, sizeof(sig), "leak:%s:%s", first, where);
	vf_fail(r, sig, "%d block(s) still allocated after everything was "
		"freed, allocated at %s (fault in %s)", n, sites, where);
	vf_leak_discard(mark);
    }
}

/*
 * returns 0 when the history ran to its end (observation in *o)
 */

static int run_history(hist_t *h, long k1, long k2, obs_t *o, runinfo_t *ri,
	vf_result *r)
{
    ctx_t *c = &C;
    unsigned long mark;
    const char *fault_where = "(none)";
    int completed = 0;

    memset(c, 0, sizeof(*c));
    memset(ri, 0, sizeof(*ri));
    ri->faulted_step[0] = ri->faulted_step[1] = -1;
    c->h = h;
    c->sc = h->sc;
    for (int i = 0; i < NPH; ++i)
	c->ph[i] = -1;
    for (int i = 0; i < CS_MAXPARAM; ++i)
	c->gh[i] = -1;
    for (int i = 0; i < 4; ++i)
	c->ci[i] = -1;
    for (int i = 0; i < 8; ++i)
	c->getc[i] = 0;
    for (int i = 0; i < 64; ++i)
	c->reuse[i] = -1;
    cleanup_files();

    mark = vf_exec_begin();
    vf_alloc_mode = g_mode;
    vf_alloc_fail_at = k1;
    vf_alloc_fail_at2 = k2;

    for (int s = 0; s < h->nsteps; ++s) {
	const step_t *st = &h->st[s];
	int attempts = 0;

	if (g_record_pre && h->pre[s] == NULL) {
	    static obs_t pre_obs;
	    long save_calls = vf_alloc_calls;
	    int save_failed = vf_alloc_failed;
	    g_observe_light = 1;
	    observe(c, &pre_obs);
	    g_observe_light = 0;
	    vf_alloc_calls = save_calls;
	    vf_alloc_failed = save_failed;
	    h->pre[s] = obs_pack(&pre_obs);
	}
	for (;;) {
	    int before = vf_alloc_failed;
	    long calls0 = vf_alloc_calls;
	    int rc, e, nf;

	    for (int i = 0; i < 3; ++i)
		vf_errlog_reset(&c->el[i]);
	    errno = 0;
	    rc = st->fn(c, st->a, st->b);
	    e = errno;
	    nf = vf_alloc_failed - before;
	    if (vf_verbose)
		printf("  step %2d %-36s (%d,%d) -> %s errno=%d allocs %ld..%ld"
			" faults=%d\n", s, st->name, st->a, st->b,
			rc == 0 ? "ok" : rc == 1 ? "FAILED" : "??", e,
			calls0 + 1, vf_alloc_calls, nf);
	    ++r->transitions;
	    for (int i = 0; i < nf && ri->nfaults < 2; ++i) {
		ri->faulted_step[ri->nfaults++] = s;
		fault_where = st->name;
	    }
	    int nonwarn = 0, badcat = 0, multi = 0, badmsg = 0;
	    for (int i = 0; i < 3; ++i) {
		nonwarn += c->el[i].nonwarn;
		if (c->el[i].nonwarn > 1)
		    multi = 1;
		if (c->el[i].bad_format)
		    badmsg = 1;
		for (int k = 0; k < c->el[i].count && k < VF_ERRLOG_MAX; ++k)
		    if (c->el[i].category[k] != VNAERR_SYSTEM &&
			    c->el[i].category[k] != VNAERR_WARNING)
			badcat = 1 + c->el[i].category[k];
	    }
	    const char *m0 = c->el[0].count ? c->el[0].msg[0] :
		c->el[1].count ? c->el[1].msg[0] :
		c->el[2].count ? c->el[2].msg[0] : "(no message)";
	    char sig[200];
	    if (rc == 2) {
		snprintf(sig, sizeof(sig), "bad-return:%s", st->name);
		vf_fail(r, sig, "step %d (%s): return value is neither "
			"success nor the documented failure value (errno %d, "
			"faults injected in this call: %d): %s", s, st->name,
			e, nf, m0);
		goto out;
	    }
	    if (rc == 0) {
		if (nf > 0)
		    ri->absorbed += nf;
		if (nonwarn > 0) {
		    snprintf(sig, sizeof(sig), "success-after-error:%s",
			    st->name);
		    vf_fail(r, sig, "step %d (%s) reported an error through "
			    "the callback (\"%s\") but returned success "
			    "(faults injected in this call: %d)", s, st->name,
			    m0, nf);
		    goto out;
		}
		/*
		 * "repeating the call without the fault gives the same
		 * result as if the fault had never happened": judged at
		 * once, not only at the end of the history where later
		 * steps may have overwritten the difference.  The state
		 * after the repeated (or fault-absorbing) call is read
		 * through every getter and compared with what the unfaulted
		 * run showed before its next step.
		 */
		if ((attempts > 0 || nf > 0) && s + 1 < h->nsteps &&
			h->pre[s + 1] != NULL && !g_record_pre) {
		    static obs_t post_obs;
		    long save_calls = vf_alloc_calls, f1 = vf_alloc_fail_at,
			 f2 = vf_alloc_fail_at2;
		    int save_failed = vf_alloc_failed;
		    vf_alloc_fail_at = 0;
		    vf_alloc_fail_at2 = 0;
		    g_observe_light = 1;
		    observe(c, &post_obs);
		    g_observe_light = 0;
		    vf_alloc_calls = save_calls;
		    vf_alloc_failed = save_failed;
		    vf_alloc_fail_at = f1;
		    vf_alloc_fail_at2 = f2;
		    if (obs_cmp_packed(h->pre[s + 1], &post_obs, g_why,
				sizeof(g_why)) != 0) {
			snprintf(sig, sizeof(sig), "state-after-repetition:%s",
				st->name);
			vf_fail(r, sig, "step %d (%s) %s, but the objects "
				"are not what they are after the same call in "
				"the unfaulted run: %s", s, st->name,
				attempts ? "succeeded when repeated after its "
				"ENOMEM failure" : "survived the allocation "
				"failure", g_why);
			goto out;
		    }
		}
		break;
	    }
	    /* documented failure value */
	    ++ri->failed_steps;
	    if (nf == 0) {
		snprintf(sig, sizeof(sig), "%s:%s", attempts ? "retry-failed" :
			"late-failure", st->name);
		vf_fail(r, sig, "step %d (%s) failed (errno %d: %s) although "
			"no allocation failed during this call; %s", s,
			st->name, e, m0, attempts ? "it is the repetition of "
			"the call that had failed with ENOMEM" : "an earlier "
			"allocation failure was survived by its call");
		goto out;
	    }
	    if (e != ENOMEM) {
		snprintf(sig, sizeof(sig), "errno:%s", st->name);
		vf_fail(r, sig, "step %d (%s) failed after an allocation "
			"failure but errno is %d (%s), not ENOMEM: %s", s,
			st->name, e, strerror(e), m0);
		goto out;
	    }
	    if (!(st->flags & F_NOCB)) {
		if (nonwarn == 0) {
		    snprintf(sig, sizeof(sig), "no-callback:%s", st->name);
		    vf_fail(r, sig, "step %d (%s) failed with ENOMEM without "
			    "calling the error callback", s, st->name);
		    goto out;
		}
		if (badcat) {
		    snprintf(sig, sizeof(sig), "category:%s", st->name);
		    vf_fail(r, sig, "step %d (%s): ENOMEM failure reported in "
			    "category %d, not VNAERR_SYSTEM: %s", s, st->name,
			    badcat - 1, m0);
		    goto out;
		}
		/*
		 * More than one report of the same failure (a lower layer
		 * and its caller both report) is accepted: the property
		 * does not speak about the number of messages.
		 */
		(void)multi;
		if (badmsg) {
		    snprintf(sig, sizeof(sig), "message:%s", st->name);
		    vf_fail(r, sig, "step %d (%s): empty or multi-line error "
			    "message", s, st->name);
		    goto out;
		}
	    }
	    /*
	     * "all objects remain usable": between the failed call and its
	     * repetition every object is read through its getters (faults
	     * off, allocation numbering untouched); nothing is compared,
	     * the sanitizers judge.
	     */
	    {
		static obs_t scratch_obs;
		long save_calls = vf_alloc_calls, f1 = vf_alloc_fail_at,
		     f2 = vf_alloc_fail_at2;
		int save_failed = vf_alloc_failed;
		vf_alloc_fail_at = 0;
		vf_alloc_fail_at2 = 0;
		g_observe_light = 1;
		if (vf_verbose)
		    printf("  probe after failed step %d (%s)\n", s, st->name);
		observe(c, &scratch_obs);
		g_observe_light = 0;
		vf_alloc_calls = save_calls;
		vf_alloc_failed = save_failed;
		vf_alloc_fail_at = f1;
		vf_alloc_fail_at2 = f2;
		/*
		 * "all objects remain usable": for calls that take nothing
		 * away when they succeed (vnacal_add_calibration: the old
		 * calibration of that name is usable until the new one has
		 * replaced it), what the getters say after the failed call
		 * is what they said before it, i.e. the state the unfaulted
		 * run had before this step.  Calls that work in stages
		 * (load, convert, import, solve) may leave the destination
		 * changed; they are judged by the repetition only.
		 */
		if (h->pre[s] != NULL && (st->flags & F_KEEPS) &&
			obs_cmp_packed(h->pre[s], &scratch_obs, g_why,
			    sizeof(g_why)) != 0) {
		    snprintf(sig, sizeof(sig), "state-after-failed-call:%s",
			    st->name);
		    vf_fail(r, sig, "step %d (%s) failed with ENOMEM and left "
			    "the objects changed: %s", s, st->name, g_why);
		    goto out;
		}
	    }
	    if (++attempts > 3) {
		snprintf(sig, sizeof(sig), "retry-failed:%s", st->name);
		vf_fail(r, sig, "step %d (%s) still fails after 3 repetitions",
			s, st->name);
		goto out;
	    }
	    /* repeat the same call */
	}
    }
    ri->K = vf_alloc_calls;
    vf_alloc_fail_at = 0;
    vf_alloc_fail_at2 = 0;
    vf_alloc_mode = 0;
    observe(c, o);
    completed = 1;
    g_mismatch = 0;
    if (g_ref != NULL && obs_cmp(g_ref, o, g_why, sizeof(g_why)) != 0) {
	/* judged by the caller; the objects are abandoned, not freed */
	g_mismatch = 1;
	vf_alloc_fail_at = 0;
	vf_alloc_fail_at2 = 0;
	cleanup_files();
	vf_leak_discard(mark);
	return 0;
    }

out:
    vf_alloc_fail_at = 0;
    vf_alloc_fail_at2 = 0;
    vf_alloc_mode = 0;
    teardown(c);
    cleanup_files();
    if (r->status != VF_VIOL)
	leak_check(r, mark, fault_where);
    else
	vf_leak_discard(mark);
    return completed ? 0 : -1;
}

/* ------------------------------------------------------------------ */
/* case space                                                          */

#define PAIR_KMAX 300
static long single_base[MAXH + 1];
static long pair_base[MAXH + 1];
static long yaml_base[MAXH + 1];
static int inited;

static void init(int tier)
{
    (void)tier;
    if (inited)
	return;
    inited = 1;
    build_histories();
    for (int i = 0; i < NH; ++i) {
	hist_t *h = &H[i];
	vf_result *r = calloc(1, sizeof(*r));
	runinfo_t ri;
	int save = vf_verbose;
	vf_verbose = 0;
	g_record_pre = 1;
	int rh = run_history(h, 0, 0, &h->ref, &ri, r);
	g_record_pre = 0;
	if (rh != 0 ||
		r->status == VF_VIOL) {
	    /* a history that does not run clean unfaulted: K = 0, the k = 0
	       case reports it */
	    fprintf(stderr, "c12: history %d [%s] is not clean unfaulted: "
		    "%s: %s\n", i, h->name, r->sig, r->msg);
	    h->K = 0;
	} else {
	    h->K = ri.K;
	    /* the same run counting libyaml's allocations */
	    static obs_t scratch;
	    vf_result *r2 = calloc(1, sizeof(*r2));
	    g_mode = 1;
	    if (run_history(h, 0, 0, &scratch, &ri, r2) == 0 &&
		    r2->status != VF_VIOL)
		h->Ky = ri.K;
	    g_mode = 0;
	    free(r2);
	}
	vf_verbose = save;
	free(r);
    }
    if (getenv("C12_LIST") != NULL)
	for (int i = 0; i < NH; ++i)
	    fprintf(stderr, "history %2d K=%5ld Ky=%5ld steps=%3d obs=%5d/%ld  %s\n",
		    i, H[i].K, H[i].Ky, H[i].nsteps, H[i].ref.nd, H[i].ref.nx,
		    H[i].name);
    single_base[0] = 0;
    for (int i = 0; i < NH; ++i)
	single_base[i + 1] = single_base[i] + H[i].K + 1;
    pair_base[0] = single_base[NH];
    for (int i = 0; i < NH; ++i) {
	long K = H[i].K;
	pair_base[i + 1] = pair_base[i] +
	    ((tier >= 1 && K <= PAIR_KMAX && K >= 2) ? K - 1 : 0);
    }
    yaml_base[0] = pair_base[NH];
    for (int i = 0; i < NH; ++i)
	yaml_base[i + 1] = yaml_base[i] + H[i].Ky;
}

static long count(int tier)
{
    init(tier);
    return yaml_base[NH];
}

/*
 * one faulted execution of a history and its judgement; returns 0 when it
 * held, -1 on a violation (already recorded in r)
 */
static int one_run(hist_t *h, int hi, long k1, long k2, vf_result *r,
	runinfo_t *ri)
{
    static obs_t o;

    (void)hi;
    g_ref = &h->ref;
    int rc = run_history(h, k1, k2, &o, ri, r);
    g_ref = NULL;
    if (rc != 0 || r->status == VF_VIOL) {
	if (r->status != VF_VIOL)
	    vf_fail(r, "driver", "history did not complete");
	return -1;
    }
    const char *where = ri->faulted_step[0] >= 0 ?
	h->st[ri->faulted_step[0]].name : "(none)";
    if (k1 == 0) {
	if (h->K == 0) {
	    vf_fail(r, "driver:unfaulted", "unfaulted history is not clean");
	    return -1;
	}
	if (ri->K != (g_mode ? h->Ky : h->K)) {
	    vf_fail(r, "driver:nondeterministic-K", "unfaulted history made "
		    "%ld allocations, %ld at start-up", ri->K, h->K);
	    return -1;
	}
    }
    const char *why = g_why;
    if (g_mismatch) {
	char sig[200];
	int fs = ri->faulted_step[ri->nfaults > 1 ? 1 : 0];
	if (fs >= 0)
	    where = h->st[fs].name;
	snprintf(sig, sizeof(sig), "%s:%s", k1 == 0 ? "driver:digest" :
		((ri->faulted_step[0] >= 0 &&
		  (h->st[ri->faulted_step[0]].flags & F_INSERT)) ||
		 (ri->faulted_step[1] >= 0 &&
		  (h->st[ri->faulted_step[1]].flags & F_INSERT))) ?
		"nonatomic-list-insert" : "state", where);
	vf_fail(r, sig, "%sallocation #%ld%s failing: after the ENOMEM failure "
		"in %s (step %d) was survived, the call repeated and the "
		"history completed, the final state is not that of the "
		"unfaulted run: %s", g_mode ? "libyaml " : "", k1,
		k2 ? " and a second one" : "", where, fs, why);
	return -1;
    }
    return 0;
}

static void run(int tier, long idx, vf_result *r)
{
    int hi;
    long k1 = 0;
    runinfo_t ri;

    init(tier);
    if (idx < single_base[NH]) {
	for (hi = 0; idx >= single_base[hi + 1]; ++hi)
	    ;
	k1 = idx - single_base[hi];
	hist_t *h = &H[hi];
	vf_desc(r, "history %d [%s] K=%ld, failing allocation #%ld", hi,
		h->name, h->K, k1);
	if (vf_verbose)
	    printf("history %d: %s\n", hi, h->name);
	if (one_run(h, hi, k1, 0, r, &ri) != 0) {
	    vf_outcome(r, "violation");
	    return;
	}
	const char *where = ri.faulted_step[0] >= 0 ?
	    h->st[ri.faulted_step[0]].name : "(none)";
	if (ri.nfaults > 0)
	    r->nontrivial = 1;
	if (k1 == 0)
	    vf_outcome(r, "%c unfaulted re-run identical", h->family);
	else if (ri.nfaults == 0)
	    vf_outcome(r, "no fault landed");
	else
	    vf_outcome(r, "%s: %s", where, ri.failed_steps ?
		    "ENOMEM, clean, repeat ok" :
		    "fault absorbed, call succeeded");
	return;
    }
    if (idx >= yaml_base[0]) {
	/* one of the allocations libyaml makes on libvna's behalf fails */
	for (hi = 0; idx >= yaml_base[hi + 1]; ++hi)
	    ;
	k1 = idx - yaml_base[hi] + 1;
	hist_t *h = &H[hi];
	vf_desc(r, "history %d [%s] Ky=%ld, failing libyaml allocation #%ld",
		hi, h->name, h->Ky, k1);
	if (vf_verbose)
	    printf("history %d: %s\n", hi, h->name);
	g_mode = 1;
	long yi0 = g_yaml_internal;
	int rc = one_run(h, hi, k1, 0, r, &ri);
	g_mode = 0;
	if (rc != 0) {
	    vf_outcome(r, "violation");
	    return;
	}
	const char *where = ri.faulted_step[0] >= 0 ?
	    h->st[ri.faulted_step[0]].name : "(none)";
	if (ri.nfaults > 0)
	    r->nontrivial = 1;
	if (ri.nfaults == 0)
	    vf_outcome(r, "no fault landed");
	else
	    vf_outcome(r, "libyaml allocation in %s: %s%s", where,
		    ri.failed_steps ? "ENOMEM, clean, repeat ok" :
		    "fault absorbed, call succeeded",
		    g_yaml_internal != yi0 ? " (libyaml lost blocks of its "
		    "own; every parser, emitter and document was deleted)" :
		    "");
	return;
    }
    /* pairs: case = (history, k1); every k2 > k1 inside */
    for (hi = 0; idx >= pair_base[hi + 1]; ++hi)
	;
    k1 = idx - pair_base[hi] + 1;
    hist_t *h = &H[hi];
    long both = 0, one = 0, failed2 = 0, absorbed = 0;
    vf_desc(r, "history %d [%s] K=%ld, failing allocation #%ld and each "
	    "later one #%ld..#%ld in turn", hi, h->name, h->K, k1, k1 + 1,
	    h->K);
    if (vf_verbose)
	printf("history %d: %s\n", hi, h->name);
    for (long k2 = k1 + 1; k2 <= h->K; ++k2) {
	if (vf_verbose)
	    printf(" -- pair (%ld, %ld)\n", k1, k2);
	if (one_run(h, hi, k1, k2, r, &ri) != 0) {
	    char add[80];
	    snprintf(add, sizeof(add), " [second failing allocation: #%ld]",
		    k2);
	    strncat(r->msg, add, sizeof(r->msg) - strlen(r->msg) - 1);
	    vf_outcome(r, "violation");
	    return;
	}
	if (ri.nfaults >= 2)
	    ++both;
	else
	    ++one;
	if (ri.failed_steps >= 2)
	    ++failed2;
	absorbed += ri.absorbed;
    }
    if (both > 0)
	r->nontrivial = 1;
    vf_outcome(r, "pairs %c: both landed in %s runs, two clean failures in "
	    "%s, absorbed %s", h->family,
	    both == 0 ? "no" : both == h->K - k1 ? "all" : "some",
	    failed2 == 0 ? "none" : failed2 == both ? "all of them" : "some",
	    absorbed ? "some" : "none");
}

vf_driver vf_drv = {
    .property = "C12",
    .rule = "an allocation failure was injected into a libvna call (for the "
	"pair cases: both failures landed in at least one run) and the "
	"history was carried through to the comparison of the final "
	"observable state with the unfaulted run",
    .bfs = 0,
    .count = count,
    .run = run,
    .init = init,
    .timeout_s = 30,
};
