/*
 * c09_seeds.h: valid artefacts (level 0) for the C09 deviation engine.
 * Written by hand / trimmed from vnacal_save output so that the seeds do
 * not depend on the writers of the tree under test.
 */
#ifndef C09_SEEDS_H
#define C09_SEEDS_H

/* formats (tokenisation / keyword tables) */
enum { F_TS, F_NPD, F_VNACAL, F_YAML, NFORMATS };

/* seed flags */
#define SF_L2		0x01	/* level-2 (pairs) in the thorough tier */
#define SF_PROBE	0x02	/* unusual-but-legal probe: may be refused */
#define SF_LIGHT	0x04	/* big seed: only truncation and line kinds */
#define SF_ALONE	0x08	/* costly seed: the document itself only */

typedef struct seed {
    const char *name;
    int format;
    const char *ext;		/* file name extension used for the loader */
    const char *text;
    int flags;
} seed_t;

#define CPX(a, b) a " " b "j"

static const char vc_e12_1x1[] =
"#VNACal 1.0\n"
"%YAML 1.1\n"
"---\n"
"properties:\n"
"  global: g1\n"
"calibrations:\n"
"- name: c1\n"
"  type: E12\n"
"  rows: 1\n"
"  columns: 1\n"
"  frequencies: 2\n"
"  z0: +5.0e+01 +0.0e+00j\n"
"  properties:\n"
"    list:\n"
"    - a\n"
"    - ~\n"
"    map:\n"
"      k: v w\n"
"  data:\n"
"  - f: 1.0e+09\n"
"    el:\n"
"    - [+2.5e-01 +5.0e-01j]\n"
"    er:\n"
"    - [+5.0e-01 +5.0e-01j]\n"
"    em:\n"
"    - [+7.5e-01 +5.0e-01j]\n"
"  - f: 2.0e+09\n"
"    el:\n"
"    - [+2.5e-01 +1.0e+00j]\n"
"    er:\n"
"    - [+5.0e-01 +1.0e+00j]\n"
"    em:\n"
"    - [+7.5e-01 +1.0e+00j]\n"
"...\n";

static const char vc_t8_1x1[] =
"#VNACal 1.0\n"
"---\n"
"calibrations:\n"
"- name: t\n"
"  type: T8\n"
"  rows: 1\n"
"  columns: 1\n"
"  frequencies: 1\n"
"  data:\n"
"  - f: 1e9\n"
"    ts: [1 2j]\n"
"    ti: [3]\n"
"    tx: [4j]\n"
"    tm: [5 -6j]\n";

static const char vc_u8_2x1[] =
"#VNACal 1.0\n"
"%YAML 1.1\n"
"---\n"
"properties: ~\n"
"calibrations:\n"
"- name: c1\n"
"  type: U8\n"
"  rows: 2\n"
"  columns: 1\n"
"  frequencies: 2\n"
"  z0: +7.5e+01 -1.0e+00j\n"
"  properties: ~\n"
"  data:\n"
"  - f: 1.0e+09\n"
"    um: [+2.5e-01 +5.0e-01j, +5.0e-01 +5.0e-01j]\n"
"    ui: [+7.5e-01 +5.0e-01j]\n"
"    ux: [+1.0e+00 +5.0e-01j, +1.25e+00 +5.0e-01j]\n"
"    us: [+1.5e+00 +5.0e-01j]\n"
"  - f: 2.0e+09\n"
"    um: [+2.5e-01 +1.0e+00j, +5.0e-01 +1.0e+00j]\n"
"    ui: [+7.5e-01 +1.0e+00j]\n"
"    ux: [+1.0e+00 +1.0e+00j, +1.25e+00 +1.0e+00j]\n"
"    us: [+1.5e+00 +1.0e+00j]\n"
"...\n";

static const char vc_t8_2x2[] =
"#VNACal 1.0\n"
"%YAML 1.1\n"
"---\n"
"properties:\n"
"  global: g1\n"
"calibrations:\n"
"- name: c1\n"
"  type: T8\n"
"  rows: 2\n"
"  columns: 2\n"
"  frequencies: 1\n"
"  z0: +5.0e+01 +0.0e+00j\n"
"  properties:\n"
"    k: [1, {a: b}]\n"
"  data:\n"
"  - f: 1.0e+09\n"
"    ts: [+2.5e-01 +5.0e-01j, +5.0e-01 +5.0e-01j]\n"
"    ti: [+7.5e-01 +5.0e-01j, +1.0e+00 +5.0e-01j]\n"
"    tx: [+1.25e+00 +5.0e-01j, +1.5e+00 +5.0e-01j]\n"
"    tm: [+1.75e+00 +5.0e-01j, +2.0e+00 +5.0e-01j]\n"
"...\n";

static const char vc_t16_2x2[] =
"#VNACal 1.0\n"
"%YAML 1.1\n"
"---\n"
"calibrations:\n"
"- name: c1\n"
"  type: T16\n"
"  rows: 2\n"
"  columns: 2\n"
"  frequencies: 1\n"
"  z0: +5.0e+01 +0.0e+00j\n"
"  data:\n"
"  - f: 1.0e+09\n"
"    ts:\n"
"    - [+2.5e-01 +5.0e-01j, +5.0e-01 +5.0e-01j]\n"
"    - [+7.5e-01 +5.0e-01j, +1.0e+00 +5.0e-01j]\n"
"    ti:\n"
"    - [+1.25e+00 +5.0e-01j, +1.5e+00 +5.0e-01j]\n"
"    - [+1.75e+00 +5.0e-01j, +2.0e+00 +5.0e-01j]\n"
"    tx:\n"
"    - [+2.25e+00 +5.0e-01j, +2.5e+00 +5.0e-01j]\n"
"    - [+2.75e+00 +5.0e-01j, +3.0e+00 +5.0e-01j]\n"
"    tm:\n"
"    - [+3.25e+00 +5.0e-01j, +3.5e+00 +5.0e-01j]\n"
"    - [+3.75e+00 +5.0e-01j, +4.0e+00 +5.0e-01j]\n"
"...\n";

static const char vc_u16_2x1[] =
"#VNACal 1.0\n"
"---\n"
"calibrations:\n"
"- name: u\n"
"  type: U16\n"
"  rows: 2\n"
"  columns: 1\n"
"  frequencies: 1\n"
"  data:\n"
"  - f: 5\n"
"    um:\n"
"    - [1, 2]\n"
"    - [3, 4]\n"
"    ui:\n"
"    - [5]\n"
"    - [6]\n"
"    ux:\n"
"    - [7, 8]\n"
"    - [9, 10]\n"
"    us:\n"
"    - [11]\n"
"    - [12]\n";

static const char vc_te10_1x2[] =
"#VNACal 1.0\n"
"%YAML 1.1\n"
"---\n"
"properties: ~\n"
"calibrations:\n"
"- name: c1\n"
"  type: TE10\n"
"  rows: 1\n"
"  columns: 2\n"
"  frequencies: 1\n"
"  z0: +5.0e+01 +0.0e+00j\n"
"  properties: ~\n"
"  data:\n"
"  - f: 1.0e+09\n"
"    ts: [+2.5e-01 +5.0e-01j]\n"
"    ti: [+5.0e-01 +5.0e-01j]\n"
"    tx: [+7.5e-01 +5.0e-01j, +1.0e+00 +5.0e-01j]\n"
"    tm: [+1.25e+00 +5.0e-01j, +1.5e+00 +5.0e-01j]\n"
"    el:\n"
"    - [~, +1.75e+00 +5.0e-01j]\n"
"...\n";

static const char vc_ue10_2x2[] =
"#VNACal 1.0\n"
"---\n"
"calibrations:\n"
"- name: c1\n"
"  type: UE10\n"
"  rows: 2\n"
"  columns: 2\n"
"  frequencies: 1\n"
"  data:\n"
"  - f: 1.0e+09\n"
"    um: [1 1j, 2 1j]\n"
"    ui: [3 1j, 4 1j]\n"
"    ux: [5 1j, 6 1j]\n"
"    us: [7 1j, 8 1j]\n"
"    el:\n"
"    - [~, 9 1j]\n"
"    - [10 1j, null]\n";

static const char vc_ue14_2x2[] =
"#VNACal 1.0\n"
"%YAML 1.1\n"
"---\n"
"calibrations:\n"
"- name: c1\n"
"  type: UE14\n"
"  rows: 2\n"
"  columns: 2\n"
"  frequencies: 1\n"
"  z0: +5.0e+01 +0.0e+00j\n"
"  data:\n"
"  - f: 1.0e+09\n"
"    um:\n"
"    - [+2.5e-01 +5.0e-01j, +1.75e+00 +5.0e-01j]\n"
"    - [+5.0e-01 +5.0e-01j, +2.0e+00 +5.0e-01j]\n"
"    ui:\n"
"    - [+7.5e-01 +5.0e-01j, +2.25e+00 +5.0e-01j]\n"
"    ux:\n"
"    - [+1.0e+00 +5.0e-01j, +2.5e+00 +5.0e-01j]\n"
"    - [+1.25e+00 +5.0e-01j, +2.75e+00 +5.0e-01j]\n"
"    us:\n"
"    - [+1.5e+00 +5.0e-01j, +3.0e+00 +5.0e-01j]\n"
"    el:\n"
"    - [~, +3.25e+00 +5.0e-01j]\n"
"    - [+3.5e+00 +5.0e-01j, ~]\n"
"...\n";

static const char vc_e12_2x2[] =
"#VNACal 1.0\n"
"---\n"
"calibrations:\n"
"- name: c1\n"
"  type: E12\n"
"  rows: 2\n"
"  columns: 2\n"
"  frequencies: 1\n"
"  data:\n"
"  - f: 1.0e+09\n"
"    el:\n"
"    - [+2.5e-01 +5.0e-01j, +1.75e+00 +5.0e-01j]\n"
"    - [+5.0e-01 +5.0e-01j, +2.0e+00 +5.0e-01j]\n"
"    er:\n"
"    - [+7.5e-01 +5.0e-01j, +2.25e+00 +5.0e-01j]\n"
"    - [+1.0e+00 +5.0e-01j, +2.5e+00 +5.0e-01j]\n"
"    em:\n"
"    - [+1.25e+00 +5.0e-01j, +2.75e+00 +5.0e-01j]\n"
"    - [+1.5e+00 +5.0e-01j, +3.0e+00 +5.0e-01j]\n";

/* two calibrations in one file */
static const char vc_two[] =
"#VNACal 1.0\n"
"---\n"
"properties: {who: me}\n"
"calibrations:\n"
"- name: first\n"
"  type: T8\n"
"  rows: 1\n"
"  columns: 1\n"
"  frequencies: 1\n"
"  properties: {n: 1}\n"
"  data:\n"
"  - f: 1e9\n"
"    ts: [1 2j]\n"
"    ti: [3]\n"
"    tx: [4j]\n"
"    tm: [5 -6j]\n"
"- name: second\n"
"  type: U8\n"
"  rows: 1\n"
"  columns: 1\n"
"  frequencies: 2\n"
"  z0: 75\n"
"  data:\n"
"  - f: 1e9\n"
"    um: [1]\n"
"    ui: [2]\n"
"    ux: [3]\n"
"    us: [4]\n"
"  - f: 2e9\n"
"    um: [5]\n"
"    ui: [6]\n"
"    ux: [7]\n"
"    us: [8]\n";

/* pre-release "VNACAL 2.0" layout, two frequencies, 2x1 */
static const char vc_legacy[] =
"#VNACAL 2.0\n"
"%YAML 1.1\n"
"---\n"
"sets:\n"
"- name: default\n"
"  rows: 2\n"
"  columns: 1\n"
"  frequencies: 2\n"
"  z0: +5.0e+01 +0.0e+00j\n"
"  data:\n"
"  - f: 1.0e+05\n"
"    e:\n"
"    - - - -2.5e-05 -5.0e-03j\n"
"        - +9.9e-01 -1.0e-02j\n"
"        - -2.5e-05 -5.0e-03j\n"
"    - - - +9.0e-18 +0.0e+00j\n"
"        - +9.9e-01 -1.0e-02j\n"
"        - +2.5e-05 +5.0e-03j\n"
"  - f: 1.5e+05\n"
"    e:\n"
"    - - - -6.2e-05 -7.9e-03j\n"
"        - +9.9e-01 -1.5e-02j\n"
"        - -6.2e-05 -7.9e-03j\n"
"    - - - +9.0e-18 +0.0e+00j\n"
"        - +9.9e-01 -1.5e-02j\n"
"        - +6.2e-05 +7.9e-03j\n";

/* old upper-case 3.x header = new 1.0 */
static const char vc_old3[] =
"#VNACAL 3.0\n"
"---\n"
"calibrations:\n"
"- name: o\n"
"  type: U8\n"
"  rows: 1\n"
"  columns: 1\n"
"  frequencies: 1\n"
"  data:\n"
"  - f: 1\n"
"    um: [1]\n"
"    ui: [2]\n"
"    ux: [3]\n"
"    us: [4]\n";

static char vc_checked_in[8192];	/* filled from tests/compat-V2.vnacal */

static const seed_t seeds[] = {
    /* ---- Touchstone 1 ---- */
    { "s1p", F_TS, "s1p",
	"# MHz S RI R 50\n1 0.5 -0.25\n2 0.25 0.125\n", SF_L2 },
    { "s2p", F_TS, "s2p",
	"! two-port\n# GHz S MA R 50\n"
	"1 0.9 -10 0.1 20 0.1 30 0.8 -40\n"
	"2 0.8 -20 0.2 10 0.2 15 0.7 -50\n", 0 },
    { "s2p-noise", F_TS, "s2p",
	"# Hz S DB R 50\n"
	"1 -1 -10 -20 20 -20 30 -2 -40\n"
	"1 0.5 0.3 20 0.1\n2 0.6 0.4 30 0.2\n", 0 },
    { "s2p-h", F_TS, "s2p",
	"# kHz H RI R 75\n1 1 2 3 4 5 6 7 8\n", SF_L2 },
    { "s2p-defaults", F_TS, "s2p",
	"#\n1 1 2 3 4 5 6 7 8", SF_L2 },
    { "s3p", F_TS, "s3p",
	"# Hz Z RI R 75\n1 1 2 3 4 5 6\n7 8 9 10 11 12\n13 14 15 16 17 18\n"
	"2 1 2 3 4 5 6\n7 8 9 10 11 12\n13 14 15 16 17 18\n", 0 },
    { "s4p", F_TS, "s4p",
	"# kHz Y DB R 50\n"
	"1 1 2 3 4 5 6 7 8\n 9 10 11 12 13 14 15 16\n"
	" 17 18 19 20 21 22 23 24\n 25 26 27 28 29 30 31 32\n", 0 },
    { "s5p", F_TS, "s5p",
	"# Hz S RI R 50\n"
	"1 1 2 3 4 5 6 7 8 9 10\n11 12 13 14 15 16 17 18 19 20\n"
	"21 22 23 24 25 26 27 28 29 30\n31 32 33 34 35 36 37 38 39 40\n"
	"41 42 43 44 45 46 47 48 49 50\n", 0 },
    { "s1p-long-token", F_TS, "s1p",
	"# Hz S RI R 50\n1 0.00000000000000000000000000000000000000000000000"
	"000000000000000000000000000000000000000000000000000000000000000000"
	"000000000000000000000000000001 -0.5\n", 0 },
    /* ---- Touchstone 2 ---- */
    { "ts-2port", F_TS, "ts",
	"[Version] 2.0\n# Hz S RI R 50\n[Number of Ports] 2\n"
	"[Two-Port Order] 12_21\n[Number of Frequencies] 2\n"
	"[Network Data]\n1 .1 .2 .3 .4 .5 .6 .7 .8\n"
	"2 .1 .2 .3 .4 .5 .6 .7 .8\n[End]\n", 0 },
    { "ts-3port-ref-lower", F_TS, "ts",
	"[Version] 2.0\n# GHz Z MA R 50\n[Number of Ports] 3\n"
	"[Number of Frequencies] 2\n[Reference] 50 75 25\n"
	"[Matrix Format] Lower\n[Network Data]\n"
	"1 1 2\n3 4 5 6\n7 8 9 10 11 12\n"
	"2 1 2\n3 4 5 6\n7 8 9 10 11 12\n[End]\n", 0 },
    { "ts-noise-info", F_TS, "ts",
	"[Version] 2.0\n# MHz S DB R 50\n[Number of Ports] 2\n"
	"[Two-Port Order] 21_12\n[Number of Frequencies] 1\n"
	"[Number of Noise Frequencies] 1\n[Reference] 50 60\n"
	"[Matrix Format] Full\n[Begin Information]\n[End Information]\n"
	"[Network Data]\n1 -1 2 -3 4 -5 6 -7 8\n"
	"[Noise Data]\n1 0.5 0.3 20 0.1\n[End]\n", 0 },
    { "ts-1port-upper", F_TS, "ts",
	"[Version] 2.0\n# Hz Y RI\n[Number of Ports] 1\n"
	"[Number of Frequencies] 1\n[Matrix Format] Upper\n"
	"[Network Data]\n5 1 2\n[End]\n", SF_L2 },
    { "ts-ref-before-nfreq", F_TS, "ts",
	"[Version] 2.0\n# kHz S RI R 50\n[Number of Ports] 1\n"
	"[Number of Frequencies] 2\n[Reference] 75\n"
	"[Number of Noise Frequencies] 3\n[Network Data]\n"
	"5 1 2\n6 3 4\n[Noise Data]\n1 .5 .3 20 .1\n2 .6 .4 30 .2\n"
	"3 .7 .5 40 .3\n[End]\n", SF_L2 },
    /* a keyword given twice (the last one wins) */
    { "ts-reference-twice", F_TS, "ts",
	"[Version] 2.0\n# GHz S RI R 50\n[Number of Ports] 2\n"
	"[Two-Port Data Order] 12_21\n"
	"[Reference] 50 75\n[Reference] 60 40\n"
	"[Number of Frequencies] 1\n[Network Data]\n"
	"1 .1 .2 .3 .4 .5 .6 .7 .8\n[End]\n", 0 },
    { "ts-v1-hybrid", F_TS, "ts",
	"[Version] 1.0\n# Hz Z RI R 75\n[Number of Ports] 1\n"
	"[Number of Frequencies] 1\n[Network Data]\n5 1 2\n", 0 },
    /* ---- NPD ---- */
    { "npd-s2", F_NPD, "npd",
	"#NPD\n#:version 1.0\n#:ports 2\n#:frequencies 2\n"
	"#:parameters Sri\n#:z0 50 +0j 75 -1j\n#:fprecision 7\n"
	"#:dprecision 6\n# comment\n"
	"1e9 .1 .2 .3 .4 .5 .6 .7 .8\n2e9 .1 .2 .3 .4 .5 .6 .7 .8\n", 0 },
    { "npd-fz0-multi", F_NPD, "npd",
	"#:version 1.0\n#:ports 1\n#:frequencies 2\n"
	"#:parameters Zinma,SdB,PRC,Zri\n#:z0 PER-FREQUENCY\n"
	"1 50 0 10 20 -3 45 100 1e-9 7 8\n"
	"2 75 -1 11 21 -4 46 101 2e-9 9 10\n", 0 },
    { "npd-spaces-multi", F_NPD, "npd",
	"#:ports 2\n#:frequencies 1\n#:parameters Tma Sri IL RL VSWR\n"
	"#:z0 50 0 50 0\n"
	"1 1 2 3 4 5 6 7 8 .1 .2 .3 .4 .5 .6 .7 .8 20 21 10 11 1.1 1.2\n",
	0 },
    { "npd-compat", F_NPD, "npd",
	"#:rows 1\n#:columns 1\n#:frequencies 1\n#:parameters Yri\n"
	"#:z0 50 0\n1 2 3\n", SF_L2 },
    { "npd-legacy-z0-mid", F_NPD, "npd",
	"#NPD\n#:version 1.0\n#:rows 2\n#:columns 2\n#:z0 50 0 75 0\n"
	"#:frequencies 1\n#:parameters Sma\n#:fprecision 9\n"
	"#:dprecision 9\n1e6 1 2 3 4 5 6 7 8\n", 0 },
    { "npd-legacy-fz0", F_NPD, "npd",
	"#:rows 1\n#:columns 1\n#:z0 PER-FREQUENCY\n#:frequencies 2\n"
	"#:parameters Zri\n1 50 0 1 2\n2 60 1 3 4\n", SF_L2 },
    { "npd-zin", F_NPD, "npd",
	"#:ports 2\n#:frequencies 1\n#:parameters SRL,zinri\n"
	"1 1 2 3 4 5 6 7 8\n", SF_L2 },
    { "npd-zin-z0", F_NPD, "npd",
	"#NPD\n#:version 1.0\n#:ports 2\n#:frequencies 1\n"
	"#:parameters Zinri\n#:z0 50 0 75 0\n1.0e9 1 2 3 4\n", 0 },
    { "npd-long-lines", F_NPD, "npd",
	"#:ports 3\n#:frequencies 1\n#:parameters          Sri\n"
	"#:z0 50.000000000 0.000000000 50.000000000 0.000000000 "
	"50.000000000 0.000000000\n"
	"1.000000000000e+09 0.100000000000 0.200000000000 0.300000000000 "
	"0.400000000000 0.500000000000 0.600000000000 0.700000000000 "
	"0.800000000000 0.900000000000 1.000000000000 1.100000000000 "
	"1.200000000000 1.300000000000 1.400000000000 1.500000000000 "
	"1.600000000000 1.700000000000 1.800000000000\n", 0 },
    /* parameter lists whose members ask for different port counts: either
       refused, or the loaded object can be saved again */
    { "npd-probe-3port-sri-tri", F_NPD, "npd",
	"#:ports 3\n#:frequencies 1\n#:parameters Sri,Tri\n"
	"1 1 2 3 4 5 6 7 8 9 10 11 12 13 14 15 16 17 18 "
	"1 2 3 4 5 6 7 8 9 10 11 12 13 14 15 16 17 18\n", SF_PROBE },
    { "npd-probe-1port-il-sri", F_NPD, "npd",
	"#:ports 1\n#:frequencies 1\n#:parameters IL,Sri\n"
	"1 0.5 0.25\n", SF_PROBE },
    { "npd-probe-3port-zri-hma", F_NPD, "npd",
	"#:ports 3\n#:frequencies 1\n#:parameters Zri,Hma\n"
	"1 1 2 3 4 5 6 7 8 9 10 11 12 13 14 15 16 17 18 "
	"1 2 3 4 5 6 7 8 9 10 11 12 13 14 15 16 17 18\n", SF_PROBE },
    /* no port at all, input impedances asked for, a reference line */
    { "npd-probe-0port-zin-z0", F_NPD, "npd",
	"#NPD\n#:version 1.0\n#:ports 0\n#:frequencies 1\n"
	"#:parameters Zinri\n#:z0\n1.0e9\n", SF_PROBE },
    { "npd-probe-0port-zin-fz0", F_NPD, "npd",
	"#NPD\n#:version 1.0\n#:ports 0\n#:frequencies 1\n"
	"#:parameters Zinri\n#:z0 PER-FREQUENCY\n1.0e9\n", SF_PROBE },
    { "npd-probe-0port-z0-twice", F_NPD, "npd",
	"#NPD\n#:version 1.0\n#:ports 0\n#:frequencies 1\n"
	"#:parameters Zinri\n#:z0\n#:z0 PER-FREQUENCY\n1.0e9\n", SF_PROBE },
    { "npd-probe-2port-z0-twice", F_NPD, "npd",
	"#NPD\n#:version 1.0\n#:ports 2\n#:frequencies 1\n"
	"#:parameters Sri\n#:z0 50 0 75 0\n#:z0 PER-FREQUENCY\n"
	"1.0e9 50 0 60 1 1 2 3 4 5 6 7 8\n", SF_PROBE },
    /* dimensions far beyond the data that follow: refused, not crashed */
    { "vnacal-probe-huge-dims", F_VNACAL, "vnacal",
	"#VNACal 1.0\n%YAML 1.1\n---\nproperties: ~\ncalibrations:\n"
	"- name: c1\n  type: E12\n  rows: 800\n  columns: 800\n"
	"  frequencies: 1\n  z0: +5.0e+01 +0.0e+00j\n  properties: ~\n"
	"  data:\n  - f: 1.0e+09\n    el:\n    - [+2.5e-01 +5.0e-01j]\n"
	"    er:\n    - [+5.0e-01 +5.0e-01j]\n    em:\n"
	"    - [+7.5e-01 +5.0e-01j]\n", SF_PROBE | SF_ALONE },
    /* ---- vnacal ---- */
    { "vnacal-e12-1x1", F_VNACAL, "vnacal", vc_e12_1x1, 0 },
    { "vnacal-t8-1x1", F_VNACAL, "vnacal", vc_t8_1x1, SF_L2 },
    { "vnacal-u8-2x1", F_VNACAL, "vnacal", vc_u8_2x1, 0 },
    { "vnacal-t8-2x2", F_VNACAL, "vnacal", vc_t8_2x2, 0 },
    { "vnacal-t16-2x2", F_VNACAL, "vnacal", vc_t16_2x2, 0 },
    { "vnacal-u16-2x1", F_VNACAL, "vnacal", vc_u16_2x1, 0 },
    { "vnacal-te10-1x2", F_VNACAL, "vnacal", vc_te10_1x2, 0 },
    { "vnacal-ue10-2x2", F_VNACAL, "vnacal", vc_ue10_2x2, 0 },
    { "vnacal-ue14-2x2", F_VNACAL, "vnacal", vc_ue14_2x2, 0 },
    { "vnacal-e12-2x2", F_VNACAL, "vnacal", vc_e12_2x2, 0 },
    { "vnacal-two", F_VNACAL, "vnacal", vc_two, 0 },
    { "vnacal-legacy2", F_VNACAL, "vnacal", vc_legacy, 0 },
    { "vnacal-old3", F_VNACAL, "vnacal", vc_old3, SF_L2 },
    { "vnacal-compat-V2-file", F_VNACAL, "vnacal", vc_checked_in, SF_LIGHT },
    /* ---- YAML property documents ---- */
    { "yaml-map", F_YAML, "yaml",
	"a: 1\nb:\n  c: x y\n  d: ~\nl:\n- p\n- ~\n- - q\n  - {k: v}\n"
	"e: \"~\"\n", 0 },
    { "yaml-list", F_YAML, "yaml",
	"- 1\n- [a, b]\n- {}\n- []\n- |\n  multi\n  line\n- null\n", 0 },
    { "yaml-scalar", F_YAML, "yaml", "hello\n", SF_L2 },
    { "yaml-null", F_YAML, "yaml", "~\n", 0 },
    { "yaml-small-map", F_YAML, "yaml", "k: [v, ~]\nm: {n: 1}\n", SF_L2 },
    /* probes: legal YAML of unusual shape */
    { "yaml-probe-recursive-seq", F_YAML, "yaml", "&a [*a]\n", SF_PROBE },
    { "yaml-probe-recursive-map", F_YAML, "yaml", "&a {k: *a}\n", SF_PROBE },
    { "yaml-probe-shared-alias", F_YAML, "yaml",
	"x: &a [1, 2]\ny: *a\n", SF_PROBE },
    { "yaml-probe-empty-key", F_YAML, "yaml", "'': 1\nb: 2\n", SF_PROBE },
    { "yaml-probe-dotted-key", F_YAML, "yaml",
	"a.b: 1\n'c[1]': 2\n'=': 3\n", SF_PROBE },
    { "yaml-probe-nonscalar-key", F_YAML, "yaml",
	"? [x]\n: 1\nb: 2\n", SF_PROBE },
    { "yaml-probe-dup-key", F_YAML, "yaml", "a: 1\na: [2]\na: ~\n",
	SF_PROBE },
    { "yaml-probe-two-docs", F_YAML, "yaml", "a: 1\n---\nb: 2\n", SF_PROBE },
    /* keys whose first character needs its backslash (digit, hyphen,
       space), as the library's own export writes them */
    { "yaml-probe-quoted-first-char", F_YAML, "yaml",
	"'\\5GHz': 1\n'\\-3dB': x\n'\\ padded': y\n'\\2nd': {'\\7': z}\n",
	SF_PROBE },
};
#define NSEEDS ((int)(sizeof(seeds) / sizeof(seeds[0])))

/* keyword tables: class, text.  Replacements stay inside the class. */
typedef struct kw { int cls; const char *text; } kw_t;

static const kw_t kw_ts[] = {
    { 0, "[Version]" }, { 0, "[Number of Ports]" }, { 0, "[Two-Port Order]" },
    { 0, "[Number of Frequencies]" }, { 0, "[Number of Noise Frequencies]" },
    { 0, "[Reference]" }, { 0, "[Matrix Format]" }, { 0, "[Mixed-Mode Order]" },
    { 0, "[Begin Information]" }, { 0, "[End Information]" },
    { 0, "[Network Data]" }, { 0, "[Noise Data]" }, { 0, "[End]" },
    { 1, "Hz" }, { 1, "kHz" }, { 1, "MHz" }, { 1, "GHz" }, { 1, "THz" }, { 1, "S" },
    { 1, "Y" }, { 1, "Z" }, { 1, "H" }, { 1, "G" }, { 1, "DB" }, { 1, "MA" },
    { 1, "RI" }, { 1, "R" }, { 1, "#" }, { 1, "!" },
    { 2, "Full" }, { 2, "Lower" }, { 2, "Upper" }, { 2, "12_21" },
    { 2, "21_12" }, { 2, "R" },
    { -1, NULL }
};
static const kw_t kw_npd[] = {
    { 0, "#:version" }, { 0, "#:ports" }, { 0, "#:rows" }, { 0, "#:columns" },
    { 0, "#:frequencies" }, { 0, "#:parameters" }, { 0, "#:fprecision" },
    { 0, "#:dprecision" }, { 0, "#:z0" }, { 0, "#NPD" }, { 0, "#" },
    { 0, "#:" }, { 0, "#:x" },
    { 1, "Sri" }, { 1, "SdB" }, { 1, "Zma" }, { 1, "Zinri" }, { 1, "Zinma" },
    { 1, "PRC" }, { 1, "SRL" }, { 1, "IL" }, { 1, "RL" }, { 1, "VSWR" },
    { 1, "Tma" }, { 1, "Hri" }, { 1, "ri" }, { 1, "PER-FREQUENCY" },
    { 1, "Yri" }, { 1, "Zri" }, { 1, "zinri" },
    { 1, "Zinma,SdB,PRC,Zri" }, { 1, "SRL,zinri" },
    { -1, NULL }
};
static const kw_t kw_vnacal[] = {
    { 0, "name:" }, { 0, "type:" }, { 0, "rows:" }, { 0, "columns:" },
    { 0, "frequencies:" }, { 0, "z0:" }, { 0, "properties:" }, { 0, "data:" },
    { 0, "calibrations:" }, { 0, "sets:" }, { 0, "f:" }, { 0, "e:" },
    { 0, "el:" }, { 0, "er:" }, { 0, "em:" }, { 0, "ts:" }, { 0, "ti:" },
    { 0, "tx:" }, { 0, "tm:" }, { 0, "um:" }, { 0, "ui:" }, { 0, "ux:" },
    { 0, "us:" }, { 0, "zz:" },
    { 1, "E12" }, { 1, "T8" }, { 1, "U8" }, { 1, "TE10" }, { 1, "UE10" },
    { 1, "T16" }, { 1, "U16" }, { 1, "UE14" }, { 1, "E12_UE14" }, { 1, "X1" },
    { 2, "#VNACal" }, { 2, "#VNACAL" }, { 2, "%YAML" }, { 2, "---" },
    { 2, "..." }, { 2, "-" }, { 2, "~" }, { 2, "[~," }, { 2, "~]" },
    { 2, "null]" }, { 2, "?" },
    { -1, NULL }
};
static const kw_t kw_yaml[] = {
    { 0, "~" }, { 0, "-" }, { 0, "null" }, { 0, "---" }, { 0, "..." },
    { 0, "[]" }, { 0, "{}" }, { 0, "|" }, { 0, "?" }, { 0, ":" },
    { 0, "\"~\"" }, { 0, ">" },
    { -1, NULL }
};
static const kw_t *const kw_tables[NFORMATS] = {
    kw_ts, kw_npd, kw_vnacal, kw_yaml
};

/* number replacements */
static const char *const num_repl[] = {
    "0", "-1", "1e308", "nan", "1x", "", "9", "65536", "1500",
    "4294967297", "2147483648", "inf", "1e999", "-0",
    "@"			/* a byte no tokenizer takes */
};
#define NNUMREPL 15
#define NUMREPL_BIG_FIRST 7	/* "65536" .. "2147483648": level 1 only */
#define NUMREPL_BIG_LAST 10

/* YAML structural substitutions for a value (children are dropped) */
static const char *const ysub[] = {
    "[]", "{}", "~", "x", "[[1]]", "{a: 1}", "&a [*a]", "&a {k: *a}", "",
    "[1, 2]", "2"
};
#define NYSUB 11

#endif /* C09_SEEDS_H */
