/*
 * c03_table.h: argument domains, call thunks and the function table
 * (included by c03_calls.h).
 */
#ifndef C03_TABLE_H
#define C03_TABLE_H

/* ---- domain helpers -------------------------------------------------- */
static int dvi(dv_t *o, int n, long i, int cls, int em, const char *lab)
{
    memset(&o[n], 0, sizeof(o[n]));
    o[n].v.i = i; o[n].cls = cls; o[n].em = em; o[n].lab = lab;
    return n + 1;
}
static int dvp(dv_t *o, int n, const void *p, int cls, int em,
	const char *lab)
{
    memset(&o[n], 0, sizeof(o[n]));
    o[n].v.p = p; o[n].cls = cls; o[n].em = em; o[n].lab = lab;
    return n + 1;
}
static int dvd(dv_t *o, int n, double d, int cls, int em, const char *lab)
{
    memset(&o[n], 0, sizeof(o[n]));
    o[n].v.d = d; o[n].cls = cls; o[n].em = em; o[n].lab = lab;
    return n + 1;
}
static int dvz(dv_t *o, int n, double complex z, int cls, const char *lab)
{
    memset(&o[n], 0, sizeof(o[n]));
    o[n].v.z = z; o[n].cls = cls; o[n].lab = lab;
    return n + 1;
}

/* calibration index */
static int d_ci(fx_t *F, int v, dv_t *o)
{
    int n = 0;
    n = dvi(o, n, F->ciA, X_BASE, 0, "ciA");
    n = dvi(o, n, F->ciB, X_ALT, 0, "n-1");
    n = dvi(o, n, -1, X_FAIL, 0, "-1");
    n = dvi(o, n, F->ciStale, X_FAIL, 0, "deleted");
    n = dvi(o, n, F->ciEnd, X_FAIL, 0, "n");
    n = dvi(o, n, F->ciEnd + 1, X_FAIL, 0, "n+1");
    n = dvi(o, n, F->ciAlloc, X_FAIL, 0, "alloc");
    n = dvi(o, n, INT_MAX, X_FAIL, 0, "INT_MAX");
    return n;
}
/* calibration index of the property functions: -1 is the global tree */
static int d_cip(fx_t *F, int v, dv_t *o)
{
    int n = 0;
    n = dvi(o, n, F->ciA, X_BASE, 0, "ciA");
    n = dvi(o, n, F->ciB, X_ALT, 0, "n-1");
    n = dvi(o, n, -1, X_ALT, 0, "global");
    n = dvi(o, n, -2, X_FAIL, EM_INVAL, "-2");
    n = dvi(o, n, F->ciStale, X_FAIL, EM_INVAL, "deleted");
    n = dvi(o, n, F->ciEnd, X_FAIL, EM_INVAL, "n");
    n = dvi(o, n, F->ciEnd + 1, X_FAIL, EM_INVAL, "n+1");
    n = dvi(o, n, F->ciAlloc, X_FAIL, EM_INVAL, "alloc");
    n = dvi(o, n, INT_MAX, X_FAIL, EM_INVAL, "INT_MAX");
    return n;
}
/* parameter handle; v&16: unknown kinds are also merely ALT */
static int d_param(fx_t *F, int v, dv_t *o)
{
    int n = 0;
    n = dvi(o, n, F->p_scalar, X_BASE, 0, "scalar");
    n = dvi(o, n, VNACAL_MATCH, X_ALT, 0, "MATCH");
    n = dvi(o, n, VNACAL_SHORT, X_ALT, 0, "SHORT");
    n = dvi(o, n, F->p_vector, X_ALT, 0, "vector");
    n = dvi(o, n, F->p_unknown, X_ALT, 0, "unknown");
    n = dvi(o, n, F->p_corr, X_ALT, 0, "correlated");
    n = dvi(o, n, -1, X_FAIL, 0, "-1");
    n = dvi(o, n, F->p_stale, X_FAIL, 0, "deleted");
    n = dvi(o, n, F->p_alloc, X_FAIL, 0, "n");
    n = dvi(o, n, F->p_alloc + 1, X_FAIL, 0, "n+1");
    n = dvi(o, n, INT_MAX, X_FAIL, 0, "INT_MAX");
    return n;
}
/* handle for vnacal_get_parameter_value: baseline is the vector */
static int d_param_val(fx_t *F, int v, dv_t *o)
{
    int n = d_param(F, v, o);
    dv_t t = o[0]; o[0] = o[3]; o[3] = t;
    o[0].cls = X_BASE; o[3].cls = X_ALT;
    o[4].cls = X_CTX;	/* unknown, never solved: documented to fail */
    o[5].cls = X_CTX;
    return n;
}
/* handle for vnacal_delete_parameter: -1 and predefined are accepted */
static int d_param_del(fx_t *F, int v, dv_t *o)
{
    int n = d_param(F, v, o);
    o[6].cls = X_ALT;
    return n;
}

/* VNA port number (1-based) of a 2-port VNA; v>>8 = baseline port */
static int d_port1(fx_t *F, int v, dv_t *o)
{
    int n = 0;
    n = dvi(o, n, 1, X_BASE, 0, "1");
    n = dvi(o, n, 2, X_ALT, 0, "n");
    n = dvi(o, n, -1, X_FAIL, 0, "-1");
    n = dvi(o, n, 0, X_FAIL, 0, "0");
    n = dvi(o, n, 3, X_FAIL, 0, "n+1");
    n = dvi(o, n, INT_MAX, X_FAIL, 0, "INT_MAX");
    return n;
}
static int d_port2(fx_t *F, int v, dv_t *o)
{
    int n = d_port1(F, v, o);
    dv_t t = o[0]; o[0] = o[1]; o[1] = t;
    o[0].cls = X_BASE; o[1].cls = X_ALT;
    return n;
}

/* measurement matrix dimensions.  v = 0: T8 2x2, v = 1: T8 1x2 */
static int dims_common(dv_t *o, int base, int alt, int altcls)
{
    int n = 0;
    static const char *lab[] = { "-1", "0", "1", "2", "3" };
    n = dvi(o, n, base, X_BASE, 0, lab[base + 1]);
    if (alt >= 0 && alt != base)
	n = dvi(o, n, alt, altcls, 0, lab[alt + 1]);
    for (int k = -1; k <= 3; ++k)
	if (k != base && k != alt)
	    n = dvi(o, n, k, X_FAIL, 0, lab[k + 1]);
    n = dvi(o, n, INT_MAX, X_FAIL, 0, "INT_MAX");
    return n;
}
/* rows of b/m for a one-port standard */
static int d_brows1(fx_t *F, int v, dv_t *o)
{
    return (v == 0 || v == VN_T16M) ? dims_common(o, 2, 1, X_ALT) :
	dims_common(o, 1, -1, 0);
}
static int d_bcols1(fx_t *F, int v, dv_t *o)
{
    return dims_common(o, 2, 1, X_ALT);
}
/* rows of b/m for a two-port standard */
static int d_brows2(fx_t *F, int v, dv_t *o)
{
    /* 1x2 calibration: 2 rows = "ports of the standard" exceeds the
       calibration; nothing is asserted on the outcome */
    return (v == 0 || v == VN_T16M) ? dims_common(o, 2, -1, 0) :
	dims_common(o, 1, 2, X_ALT);
}
static int d_bcols2(fx_t *F, int v, dv_t *o)
{
    return dims_common(o, 2, -1, 0);
}
/* rows / columns of a (T8: b_columns x b_columns) */
static int d_adim(fx_t *F, int v, dv_t *o)
{
    /* only meaningful when a is not NULL: never more than X_CTX */
    int n = dims_common(o, 2, 1, X_CTX);
    for (int k = 1; k < n; ++k)
	o[k].cls = X_CTX;
    return n;
}
static int d_mptr(fx_t *F, int v, dv_t *o)
{
    return dvp(o, 0, F->mp, X_BASE, 0, "m");
}
static int d_aptr(fx_t *F, int v, dv_t *o)
{
    int n = dvp(o, 0, F->ap, X_BASE, 0, "a");
    return dvp(o, n, NULL, X_ALT, 0, "NULL");
}
static int d_s4(fx_t *F, int v, dv_t *o)
{
    int n = dvp(o, 0, F->s4, X_BASE, 0, "s-known");
    return dvp(o, n, F->s4u, X_ALT, 0, "s-unknowns");
}
static int d_sdim(fx_t *F, int v, dv_t *o)
{
    return dims_common(o, 2, 1, X_ALT);
}
static int d_pmap(fx_t *F, int v, dv_t *o)
{
    int n = dvp(o, 0, F->pm12, X_BASE, 0, "{1,2}");
    n = dvp(o, n, NULL, X_ALT, 0, "NULL");
    n = dvp(o, n, F->pm21, X_ALT, 0, "{2,1}");
    n = dvp(o, n, F->pm11, X_CTX, 0, "{1,1}");
    n = dvp(o, n, F->pm01, X_FAIL, 0, "{0,1}");
    n = dvp(o, n, F->pm13, X_CTX, 0, "{1,3}");
    return n;
}

/* frequency vectors */
static int d_fvec_cal(fx_t *F, int v, dv_t *o)	/* object's own length */
{
    int n = dvp(o, 0, v == VN_A5 ? F->f5 : F->f3, X_BASE, 0, "ascending");
    n = dvp(o, n, F->fdesc, X_FAIL, 0, "descending");
    n = dvp(o, n, F->fneg, X_FAIL, 0, "negative");
    /* far above the band: refused by an object that holds a standard
       tabulated over a limited band (vnpR), accepted by the others */
    if (v != VN_A5)
	n = dvp(o, n, F->fhigh, v == VN_R ? X_FAIL : X_ALT, EM_INVAL,
		"above-the-band");
    return n;
}
static int d_fvec5(fx_t *F, int v, dv_t *o)
{
    /* content matters only for the entries the count covers */
    int n = dvp(o, 0, F->f5, X_BASE, 0, "ascending");
    n = dvp(o, n, F->fdesc, X_CTX, 0, "descending");
    n = dvp(o, n, F->fneg, X_CTX, 0, "negative");
    n = dvp(o, n, F->fnan, X_ALT, 0, "has-NaN");
    return n;
}
static int d_fvec5_null(fx_t *F, int v, dv_t *o)
{
    int n = d_fvec5(F, v, o);
    o[2].cls = X_ALT;	/* vnacal_new_set_m_error: sign not documented */
    n = dvp(o, n, F->fcrowd, X_ALT, 0, "crowded");
    return dvp(o, n, NULL, X_ALT, 0, "NULL");
}
/* vnacal_make_correlated_parameter: NULL only with one sigma per point of
   the vector parameter the "other" chain ends in (baseline: a scalar) */
static int d_fvec5_corr(fx_t *F, int v, dv_t *o)
{
    int n = d_fvec5(F, v, o);
    return dvp(o, n, NULL, X_CTX, 0, "NULL");
}
static int d_fvec_apply(fx_t *F, int v, dv_t *o)
{
    int n = dvp(o, 0, F->f5, X_BASE, 0, "in-range");
    n = dvp(o, n, F->fdesc, X_CTX, 0, "descending");
    n = dvp(o, n, F->flow, X_CTX, 0, "below-range");
    n = dvp(o, n, F->fhigh, X_CTX, 0, "above-range");
    return n;
}
/* count for a 5-long user vector of which the first 3 are in range */
static int d_n5(fx_t *F, int v, dv_t *o)
{
    int n = dvi(o, 0, 3, X_BASE, 0, "3");
    n = dvi(o, n, 1, X_ALT, 0, "1");
    n = dvi(o, n, 5, X_ALT, 0, "5");
    n = dvi(o, n, 0, X_FAIL, 0, "0");
    n = dvi(o, n, -1, X_FAIL, 0, "-1");
    return n;
}
/* count for vnacal_new_set_m_error: the vector must span the object */
static int d_n5m(fx_t *F, int v, dv_t *o)
{
    int n;
    if (v != VN_A5)
	return d_n5(F, v, o);
    n = dvi(o, 0, 5, X_BASE, 0, "5");
    n = dvi(o, n, 1, X_ALT, 0, "1");
    n = dvi(o, n, 3, X_CTX, 0, "3-not-spanning");
    n = dvi(o, n, 0, X_FAIL, 0, "0");
    n = dvi(o, n, -1, X_FAIL, 0, "-1");
    return n;
}
static int d_n5_apply(fx_t *F, int v, dv_t *o)
{
    int n = dvi(o, 0, 3, X_BASE, 0, "3");
    n = dvi(o, n, 1, X_ALT, 0, "1");
    n = dvi(o, n, 0, X_ALT, 0, "0");
    n = dvi(o, n, 5, X_CTX, 0, "5-out-of-range");
    n = dvi(o, n, -1, X_FAIL, 0, "-1");
    return n;
}
static int d_sig_nf(fx_t *F, int v, dv_t *o)
{
    int n = dvp(o, 0, F->sig5, X_BASE, 0, "positive");
    n = dvp(o, n, NULL, X_CTX, 0, "NULL");
    n = dvp(o, n, F->sigz, X_CTX, 0, "has-zero");
    n = dvp(o, n, F->signeg, X_CTX, 0, "has-negative");
    n = dvp(o, n, F->signan, X_ALT, 0, "has-NaN");
    return n;
}
static int d_sig_tr(fx_t *F, int v, dv_t *o)
{
    int n = dvp(o, 0, F->sig5, X_BASE, 0, "positive");
    n = dvp(o, n, NULL, X_ALT, 0, "NULL");
    n = dvp(o, n, F->signeg, X_CTX, 0, "has-negative");
    n = dvp(o, n, F->signan, X_ALT, 0, "has-NaN");
    return n;
}
static int d_sig_corr(fx_t *F, int v, dv_t *o)
{
    int n = dvp(o, 0, F->sig5, X_BASE, 0, "positive");
    n = dvp(o, n, F->sigz, X_CTX, 0, "has-zero");
    n = dvp(o, n, F->signan, X_ALT, 0, "has-NaN");
    return n;
}
static int d_g5(fx_t *F, int v, dv_t *o)
{
    return dvp(o, 0, F->g5, X_BASE, 0, "gamma");
}
static int d_tol(fx_t *F, int v, dv_t *o)
{
    int n = dvd(o, 0, 1e-6, X_BASE, 0, "1e-6");
    n = dvd(o, n, 0.0, X_ALT, 0, "0");
    n = dvd(o, n, -1.0, X_FAIL, 0, "-1");
    n = dvd(o, n, NAN, X_ALT, 0, "NaN");
    return n;
}
static int d_iter(fx_t *F, int v, dv_t *o)
{
    int n = dvi(o, 0, 30, X_BASE, 0, "30");
    n = dvi(o, n, 1, X_ALT, 0, "1");
    n = dvi(o, n, INT_MAX, X_ALT, 0, "INT_MAX");
    n = dvi(o, n, 0, X_FAIL, 0, "0");
    n = dvi(o, n, -1, X_FAIL, 0, "-1");
    return n;
}
static int d_pvalue(fx_t *F, int v, dv_t *o)
{
    int n = dvd(o, 0, 0.001, X_BASE, 0, "0.001");
    n = dvd(o, n, 1.0, X_ALT, 0, "1");
    n = dvd(o, n, 0.0, X_FAIL, 0, "0");
    n = dvd(o, n, -0.5, X_FAIL, 0, "-0.5");
    n = dvd(o, n, 1.5, X_FAIL, 0, "1.5");
    n = dvd(o, n, NAN, X_FAIL, 0, "NaN");
    n = dvd(o, n, INFINITY, X_FAIL, 0, "inf");
    return n;
}
static int d_z0(fx_t *F, int v, dv_t *o)
{
    int n = dvz(o, 0, 75.0, X_BASE, "75");
    n = dvz(o, n, 50.0 + 5.0 * I, X_ALT, "50+5j");
    n = dvz(o, n, 0.0, X_ALT, "0");
    return n;
}
static int d_gamma(fx_t *F, int v, dv_t *o)
{
    int n = dvz(o, 0, 0.3 + 0.4 * I, X_BASE, "0.3+0.4j");
    n = dvz(o, n, 0.0, X_ALT, "0");
    n = dvz(o, n, -1.0, X_ALT, "-1");
    return n;
}
static int d_prec(fx_t *F, int v, dv_t *o)
{
    int n = dvi(o, 0, 6, X_BASE, 0, "6");
    n = dvi(o, n, 1, X_ALT, 0, "1");
    n = dvi(o, n, VNACAL_MAX_PRECISION, X_ALT, 0, "MAX");
    n = dvi(o, n, 0, X_FAIL, 0, "0");
    n = dvi(o, n, -1, X_FAIL, 0, "-1");
    return n;
}
static int d_caltype(fx_t *F, int v, dv_t *o)
{
    int n = dvi(o, 0, VNACAL_T8, X_BASE, 0, "T8");
    n = dvi(o, n, VNACAL_TE10, X_ALT, 0, "TE10");
    n = dvi(o, n, VNACAL_E12, X_ALT, 0, "E12");
    n = dvi(o, n, VNACAL_U16, X_ALT, 0, "U16");
    n = dvi(o, n, _VNACAL_E12_UE14, X_ALT, 0, "internal");
    n = dvi(o, n, -1, X_FAIL, 0, "NOTYPE");
    n = dvi(o, n, 9, X_FAIL, 0, "n");
    n = dvi(o, n, INT_MAX, X_FAIL, 0, "INT_MAX");
    return n;
}
static int d_calrows(fx_t *F, int v, dv_t *o)
{
    int n = dvi(o, 0, 2, X_BASE, 0, "2");
    n = dvi(o, n, 1, X_ALT, 0, "1");
    n = dvi(o, n, 3, X_CTX, 0, "3");
    n = dvi(o, n, 0, X_FAIL, 0, "0");
    n = dvi(o, n, -1, X_FAIL, 0, "-1");
    return n;
}
static int d_calcols(fx_t *F, int v, dv_t *o)
{
    int n = dvi(o, 0, 2, X_BASE, 0, "2");
    n = dvi(o, n, 3, X_ALT, 0, "3");
    n = dvi(o, n, 1, X_CTX, 0, "1");
    n = dvi(o, n, 0, X_FAIL, 0, "0");
    n = dvi(o, n, -1, X_FAIL, 0, "-1");
    return n;
}
static int d_calnf(fx_t *F, int v, dv_t *o)
{
    int n = dvi(o, 0, 3, X_BASE, 0, "3");
    n = dvi(o, n, 1, X_ALT, 0, "1");
    n = dvi(o, n, 0, X_ALT, 0, "0");
    n = dvi(o, n, -1, X_FAIL, 0, "-1");
    return n;
}
static int d_typename(fx_t *F, int v, dv_t *o)
{
    int n = dvp(o, 0, "T8", X_BASE, 0, "T8");
    n = dvp(o, n, "e12", X_ALT, 0, "e12");
    n = dvp(o, n, "ue14", X_ALT, 0, "ue14");
    n = dvp(o, n, "", X_FAIL, 0, "empty");
    n = dvp(o, n, "X9", X_FAIL, 0, "X9");
    n = dvp(o, n, "T88", X_FAIL, 0, "T88");
    /* near misses of the names that share a stem */
    n = dvp(o, n, "UE1", X_FAIL, 0, "UE1");
    n = dvp(o, n, "UE13", X_FAIL, 0, "UE13");
    n = dvp(o, n, "UE104", X_FAIL, 0, "UE104");
    n = dvp(o, n, "TE1", X_FAIL, 0, "TE1");
    n = dvp(o, n, "U1", X_FAIL, 0, "U1");
    n = dvp(o, n, "E1", X_FAIL, 0, "E1");
    return n;
}
static int d_calname(fx_t *F, int v, dv_t *o)
{
    int n = dvp(o, 0, "calA", X_BASE, 0, "calA");
    n = dvp(o, n, "calB", X_ALT, 0, "calB");
    n = dvp(o, n, "nope", X_FAIL, EM_NOENT, "absent");
    n = dvp(o, n, "calC", X_FAIL, EM_NOENT, "deleted");
    n = dvp(o, n, "", X_FAIL, EM_NOENT, "empty");
    return n;
}
static int d_newname(fx_t *F, int v, dv_t *o)
{
    int n = dvp(o, 0, "calNew", X_BASE, 0, "new");
    n = dvp(o, n, "calA", X_ALT, 0, "replace");
    n = dvp(o, n, "calC", X_ALT, 0, "deleted-name");
    return n;
}
static int d_vnp_solved(fx_t *F, int v, dv_t *o)
{
    int n = dvp(o, 0, F->vnpS, X_BASE, 0, "solved");
    n = dvp(o, n, F->vnpL, X_FAIL, EM_INVAL, "unsolved");
    n = dvp(o, n, F->vnpF, X_FAIL, EM_INVAL, "of-another-vnacal_t");
    return n;
}
static int d_calpath(fx_t *F, int v, dv_t *o)
{
    int n = dvp(o, 0, F->path_cal, X_BASE, 0, "saved-file");
    n = dvp(o, n, F->path_none, X_FAIL, EM_NOENT, "nonexistent");
    n = dvp(o, n, F->path_badcal, X_FAIL, EM_BADMSG, "syntax-error");
    n = dvp(o, n, F->path_vercal, X_FAIL, EM_PROTO, "version-99");
    /* opens, but every read fails (EISDIR): a system error, not syntax */
    n = dvp(o, n, "/", X_FAIL, EM_SYS | EM_LATE, "directory");
    return n;
}
static int d_savepath(fx_t *F, int v, dv_t *o)
{
    int n = dvp(o, 0, F->path_cal, X_BASE, 0, "scratch");
    n = dvp(o, n, F->path_nodir, X_FAIL, EM_SYS, "no-such-dir");
    /* opens, accepts buffered output, fails when it is flushed (ENOSPC) */
    n = dvp(o, n, "/dev/full", X_FAIL, EM_SYS | EM_LATE, "device-full");
    return n;
}
static int d_errfn(fx_t *F, int v, dv_t *o)
{
    int n = dvp(o, 0, (const void *)vf_errfn, X_BASE, 0, "errfn");
    n = dvp(o, n, NULL, X_ALT, 0, "NULL");
    return n;
}

/* property descriptors; tree: foo=bar, arr[0..1], map.k1 */
#define PBAD(o, n) \
    n = dvp(o, n, "nokey", X_FAIL, EM_NOENT, "absent-key"); \
    n = dvp(o, n, "arr[7]", X_FAIL, EM_NOENT, "index-n+5"); \
    n = dvp(o, n, "foo.sub", X_FAIL, EM_INVAL, "scalar-as-map"); \
    n = dvp(o, n, "foo[0]", X_FAIL, EM_INVAL, "scalar-as-list"); \
    n = dvp(o, n, "", X_FAIL, EM_INVAL, "empty"); \
    n = dvp(o, n, "arr[", X_FAIL, EM_INVAL, "malformed"); \
    n = dvp(o, n, "arr[1", X_FAIL, EM_INVAL, "subscript-not-closed"); \
    n = dvp(o, n, "arr[0+", X_FAIL, EM_INVAL, "insert-not-closed"); \
    n = dvp(o, n, "arr[0 1]", X_FAIL, EM_INVAL, "two-indices"); \
    n = dvp(o, n, "map.k1[0][1.]", X_FAIL, EM_INVAL | EM_NOENT, "dot-in-subscript"); \
    n = dvp(o, n, "arr[-1]", X_FAIL, EM_INVAL, "index--1"); \
    n = dvp(o, n, "arr[0+]", X_FAIL, EM_INVAL, "insert-in-query"); \
    n = dvp(o, n, "a..b", X_FAIL, EM_INVAL | EM_NOENT, "double-dot")
static int d_ptype(fx_t *F, int v, dv_t *o)
{
    int n = dvp(o, 0, "foo", X_BASE, 0, "scalar");
    n = dvp(o, n, ".", X_ALT, 0, "root");
    n = dvp(o, n, "arr[0]", X_ALT, 0, "index-0");
    n = dvp(o, n, "arr[1]", X_ALT, 0, "index-n-1");
    n = dvp(o, n, "arr[2]", X_CTX, EM_NOENT, "index-n");
    PBAD(o, n);
    return n;
}
static int d_pcount(fx_t *F, int v, dv_t *o)
{
    int n = dvp(o, 0, "arr", X_BASE, 0, "list");
    n = dvp(o, n, ".", X_ALT, 0, "root");
    n = dvp(o, n, "foo", X_FAIL, EM_INVAL, "scalar");
    PBAD(o, n);
    return n;
}
static int d_pkeys(fx_t *F, int v, dv_t *o)
{
    int n = dvp(o, 0, ".", X_BASE, 0, "root");
    n = dvp(o, n, "{}", X_ALT, 0, "root{}");
    n = dvp(o, n, "arr", X_FAIL, EM_INVAL, "list");
    n = dvp(o, n, "foo", X_FAIL, EM_INVAL, "scalar");
    PBAD(o, n);
    return n;
}
static int d_pget(fx_t *F, int v, dv_t *o)
{
    int n = dvp(o, 0, "foo", X_BASE, 0, "scalar");
    n = dvp(o, n, "arr[0]", X_ALT, 0, "index-0");
    n = dvp(o, n, "arr", X_FAIL, EM_INVAL, "list");
    n = dvp(o, n, ".", X_FAIL, EM_INVAL, "root-map");
    n = dvp(o, n, "arr[2]", X_CTX, EM_NOENT, "index-n");
    PBAD(o, n);
    return n;
}
static int d_pset(fx_t *F, int v, dv_t *o)
{
    int n = dvp(o, 0, "newk=v", X_BASE, 0, "new-key");
    n = dvp(o, n, "foo=zzz", X_ALT, 0, "overwrite");
    n = dvp(o, n, "arr[+]=q", X_ALT, 0, "append");
    n = dvp(o, n, "arr[0+]=q", X_ALT, 0, "insert");
    n = dvp(o, n, "deep.a[2].b=1", X_ALT, 0, "deep");
    n = dvp(o, n, "nul#", X_ALT, 0, "null-value");
    n = dvp(o, n, "", X_FAIL, EM_INVAL, "empty");
    n = dvp(o, n, "=v", X_FAIL, EM_INVAL, "no-descriptor");
    n = dvp(o, n, "a..b=1", X_FAIL, EM_INVAL, "double-dot");
    n = dvp(o, n, "arr[=x", X_FAIL, EM_INVAL, "malformed");
    n = dvp(o, n, "arr[-1]=x", X_FAIL, EM_INVAL, "index--1");
    n = dvp(o, n, "fresh", X_FAIL, EM_INVAL, "no-assignment");
    n = dvp(o, n, "fresh2{}=x", X_FAIL, EM_INVAL, "assign-to-map");
    n = dvp(o, n, "fresh3[]=x", X_FAIL, EM_INVAL, "assign-to-list");
    /* text after the # of the null form, on paths that would build keys,
       replace a scalar or lengthen a list */
    n = dvp(o, n, "fresh4.sub#junk", X_FAIL, EM_INVAL, "null-junk-new-keys");
    n = dvp(o, n, "foo.first# junk", X_FAIL, EM_INVAL, "null-junk-scalar");
    n = dvp(o, n, "arr[4]# junk", X_FAIL, EM_INVAL, "null-junk-index");
    n = dvp(o, n, "arr[+]# x", X_FAIL, EM_INVAL, "null-junk-append");
    return n;
}
static int d_pdel(fx_t *F, int v, dv_t *o)
{
    int n = dvp(o, 0, "foo", X_BASE, 0, "key");
    n = dvp(o, n, "arr[0]", X_ALT, 0, "index-0");
    n = dvp(o, n, "arr[1]", X_ALT, 0, "index-n-1");
    n = dvp(o, n, "map.", X_ALT, 0, "trailing-dot");
    n = dvp(o, n, ".", X_ALT, 0, "root");
    n = dvp(o, n, "arr[2]", X_CTX, EM_NOENT, "index-n");
    n = dvp(o, n, "foo=1", X_FAIL, EM_INVAL, "trailing-tokens");
    n = dvp(o, n, "[0]", X_CTX, EM_INVAL, "map-as-list");
    PBAD(o, n);
    return n;
}
static int d_pgsub(fx_t *F, int v, dv_t *o)
{
    int n = dvp(o, 0, "arr", X_BASE, 0, "list");
    n = dvp(o, n, ".", X_ALT, 0, "root");
    n = dvp(o, n, "arr[1]", X_ALT, 0, "index-n-1");
    n = dvp(o, n, "arr[2]", X_CTX, EM_NOENT, "index-n");
    n = dvp(o, n, "arr=1", X_FAIL, EM_INVAL, "trailing-tokens");
    PBAD(o, n);
    return n;
}
static int d_pssub(fx_t *F, int v, dv_t *o)
{
    int n = dvp(o, 0, "sub.tree", X_BASE, 0, "new-path");
    n = dvp(o, n, "arr[1]", X_ALT, 0, "existing");
    n = dvp(o, n, "arr[5]", X_ALT, 0, "extend");
    n = dvp(o, n, "", X_FAIL, EM_INVAL, "empty");
    n = dvp(o, n, "q[", X_FAIL, EM_INVAL, "malformed");
    n = dvp(o, n, "a..b", X_FAIL, EM_INVAL | EM_NOENT, "double-dot");
    n = dvp(o, n, "fresh4=1", X_FAIL, EM_INVAL, "trailing-tokens");
    return n;
}

/* vnadata domains; object of 2x2, 3 frequencies */
static int d_findex(fx_t *F, int v, dv_t *o)
{
    int n = dvi(o, 0, 1, X_BASE, 0, "1");
    n = dvi(o, n, 0, X_ALT, 0, "0");
    n = dvi(o, n, 2, X_ALT, 0, "n-1");
    n = dvi(o, n, -1, X_FAIL, 0, "-1");
    n = dvi(o, n, 3, X_FAIL, 0, "n");
    n = dvi(o, n, 4, X_FAIL, 0, "n+1");
    n = dvi(o, n, INT_MAX, X_FAIL, 0, "INT_MAX");
    return n;
}
/* findex of get_fz0 & co: documented as unused in per-port mode (v==0) */
static int d_findex_fz(fx_t *F, int v, dv_t *o)
{
    int n = d_findex(F, v, o);
    if (v == 0)
	for (int k = 3; k < n; ++k)
	    o[k].cls = X_ALT;
    return n;
}
static int d_rc(fx_t *F, int v, dv_t *o)	/* row / column / port, 0-based */
{
    int n = dvi(o, 0, 0, X_BASE, 0, "0");
    n = dvi(o, n, 1, X_ALT, 0, "n-1");
    n = dvi(o, n, -1, X_FAIL, 0, "-1");
    n = dvi(o, n, 2, X_FAIL, 0, "n");
    n = dvi(o, n, 3, X_FAIL, 0, "n+1");
    n = dvi(o, n, INT_MAX, X_FAIL, 0, "INT_MAX");
    return n;
}
static int d_vdtype(fx_t *F, int v, dv_t *o)
{
    int n = dvi(o, 0, VPT_Z, X_BASE, 0, "Z");
    n = dvi(o, n, VPT_S, X_ALT, 0, "S");
    n = dvi(o, n, VPT_T, X_ALT, 0, "T");
    n = dvi(o, n, VPT_B, X_ALT, 0, "B");
    n = dvi(o, n, VPT_UNDEF, X_ALT, 0, "UNDEF");
    n = dvi(o, n, VPT_ZIN, X_CTX, 0, "ZIN");
    n = dvi(o, n, -1, X_FAIL, 0, "-1");
    n = dvi(o, n, VPT_NTYPES, X_FAIL, 0, "NTYPES");
    n = dvi(o, n, INT_MAX, X_FAIL, 0, "INT_MAX");
    return n;
}
static int d_vdtype_conv(fx_t *F, int v, dv_t *o)
{
    int n = d_vdtype(F, v, o);
    o[4].cls = X_ALT;		/* UNDEF */
    o[5].cls = X_ALT;		/* S 2x2 -> ZIN is a legal conversion */
    return n;
}
static int d_vdrows(fx_t *F, int v, dv_t *o)
{
    int n = dvi(o, 0, 2, X_BASE, 0, "2");
    n = dvi(o, n, 1, X_CTX, 0, "1");
    n = dvi(o, n, 3, X_CTX, 0, "3");
    n = dvi(o, n, 0, X_CTX, 0, "0");
    n = dvi(o, n, -1, X_FAIL, 0, "-1");
    return n;
}
static int d_vdnf(fx_t *F, int v, dv_t *o)
{
    int n = dvi(o, 0, 3, X_BASE, 0, "3");
    n = dvi(o, n, 0, X_ALT, 0, "0");
    n = dvi(o, n, 1, X_ALT, 0, "1");
    n = dvi(o, n, 4, X_ALT, 0, "n+1");
    n = dvi(o, n, -1, X_FAIL, 0, "-1");
    return n;
}
static int d_freq(fx_t *F, int v, dv_t *o)
{
    int n = dvd(o, 0, 4.0e9, X_BASE, 0, "4e9");
    n = dvd(o, n, 0.0, X_ALT, 0, "0");
    n = dvd(o, n, -1.0, X_ALT, 0, "-1");
    n = dvd(o, n, NAN, X_ALT, 0, "NaN");
    return n;
}
static int d_fvec3_set(fx_t *F, int v, dv_t *o)
{
    int n = dvp(o, 0, F->f3, X_BASE, 0, "vector");
    n = dvp(o, n, NULL, X_FAIL, EM_INVAL, "NULL");
    return n;
}
static int d_cvec3(fx_t *F, int v, dv_t *o)
{
    return dvp(o, 0, F->vec3, X_BASE, 0, "vector");
}
static int d_mat4(fx_t *F, int v, dv_t *o)
{
    return dvp(o, 0, F->mat4, X_BASE, 0, "matrix");
}
static int d_z2(fx_t *F, int v, dv_t *o)
{
    return dvp(o, 0, F->z2, X_BASE, 0, "z0-vector");
}
static int d_filetype(fx_t *F, int v, dv_t *o)
{
    int n = dvi(o, 0, VNADATA_FILETYPE_NPD, X_BASE, 0, "NPD");
    n = dvi(o, n, VNADATA_FILETYPE_AUTO, X_ALT, 0, "AUTO");
    n = dvi(o, n, VNADATA_FILETYPE_TOUCHSTONE1, X_ALT, 0, "TS1");
    n = dvi(o, n, VNADATA_FILETYPE_TOUCHSTONE2, X_ALT, 0, "TS2");
    n = dvi(o, n, -1, X_FAIL, 0, "-1");
    n = dvi(o, n, 4, X_FAIL, 0, "n");
    n = dvi(o, n, INT_MAX, X_FAIL, 0, "INT_MAX");
    return n;
}
static int d_format(fx_t *F, int v, dv_t *o)
{
    int n = dvp(o, 0, "Sri", X_BASE, 0, "Sri");
    n = dvp(o, n, "Zri,SdB,Zinma", X_ALT, 0, "list");
    n = dvp(o, n, "il,rl,vswr", X_ALT, 0, "il,rl,vswr");
    n = dvp(o, n, "prc", X_ALT, 0, "prc");
    n = dvp(o, n, "Q", X_FAIL, 0, "unknown-letter");
    n = dvp(o, n, "Sxx", X_FAIL, 0, "unknown-coordinates");
    n = dvp(o, n, "Sri,,Zri", X_FAIL, 0, "empty-member");
    /* text after a complete specifier */
    n = dvp(o, n, "vswrx", X_FAIL, 0, "vswr-trailing");
    n = dvp(o, n, "ilx", X_FAIL, 0, "il-trailing");
    n = dvp(o, n, "Sri,rlq", X_FAIL, 0, "rl-trailing");
    n = dvp(o, n, "prcl", X_FAIL, 0, "prc-trailing");
    n = dvp(o, n, "zinmax", X_FAIL, 0, "zinma-trailing");
    n = dvp(o, n, "zindb", X_FAIL, 0, "zindb");
    return n;
}
static int d_vdloadpath(fx_t *F, int v, dv_t *o)
{
    int n = dvp(o, 0, F->path_npd, X_BASE, 0, "npd");
    n = dvp(o, n, F->path_s2p, X_ALT, 0, "s2p");
    n = dvp(o, n, F->path_none, X_FAIL, EM_NOENT, "nonexistent");
    n = dvp(o, n, F->path_bad, X_FAIL, EM_BADMSG, "syntax-error");
    n = dvp(o, n, "/", X_FAIL, EM_SYS | EM_LATE, "directory");
    for (int i = 0; i < FX_NMALFORMED; ++i)
	n = dvp(o, n, F->path_mal[i], X_FAIL, fx_malformed[i].em,
		fx_malformed[i].name);
    return n;
}
static int d_vdsavepath(fx_t *F, int v, dv_t *o)
{
    int n = dvp(o, 0, F->path_out, X_BASE, 0, "npd");
    n = dvp(o, n, F->path_nodir, X_FAIL, EM_SYS, "no-such-dir");
    n = dvp(o, n, "/dev/full", X_FAIL, EM_SYS | EM_LATE, "device-full");
    return n;
}
static int d_vdout(fx_t *F, int v, dv_t *o)
{
    int n = dvp(o, 0, F->vdo, X_BASE, 0, "separate");
    n = dvp(o, n, F->vd, X_ALT, 0, "in-place");
    return n;
}
static int d_key(fx_t *F, int v, dv_t *o)
{
    int n = dvp(o, 0, "my.key", X_BASE, 0, "dotted");
    n = dvp(o, n, "", X_ALT, 0, "empty");
    n = dvp(o, n, "a b[0]{}\\", X_ALT, 0, "specials");
    return n;
}
static int d_yaml(fx_t *F, int v, dv_t *o)
{
    int n = dvp(o, 0, "a: 1\nb: [x, y]\nc: { d: e }\n", X_BASE, 0, "valid");
    n = dvp(o, n, "", X_ALT, 0, "empty");
    n = dvp(o, n, "? [k1, k2]\n: v\nz: 1\n", X_ALT, 0, "non-scalar-key");
    n = dvp(o, n, "a: [1, 2\nb: }\n", X_FAIL, 0, "malformed");
    return n;
}
static int d_src(fx_t *F, int v, dv_t *o)
{
    int n = dvp(o, 0, F->root, X_BASE, 0, "tree");
    n = dvp(o, n, NULL, X_ALT, 0, "NULL");
    return n;
}

static int d_freq_val(fx_t *F, int v, dv_t *o)
{
    int n = dvd(o, 0, F->f3[1], X_BASE, 0, "mid");
    n = dvd(o, n, F->f3[0], X_ALT, 0, "fmin");
    n = dvd(o, n, F->f3[0] / 10.0, X_CTX, 0, "below-range");
    n = dvd(o, n, F->f5[4] * 10.0, X_CTX, 0, "above-range");
    n = dvd(o, n, -1.0, X_CTX, 0, "-1");
    return n;
}
#define d_ci_apply d_ci
static int d_vdo_only(fx_t *F, int v, dv_t *o)
{
    return dvp(o, 0, F->vdo, X_BASE, 0, "output");
}
static int d_vdtype_any(fx_t *F, int v, dv_t *o)
{
    int n = d_vdtype(F, v, o);
    for (int k = 1; k < n; ++k)
	o[k].cls = X_ALT;
    return n;
}
static int d_vdloadpath_f(fx_t *F, int v, dv_t *o)
{
    int n = dvp(o, 0, F->path_npd, X_BASE, 0, "npd");
    n = dvp(o, n, F->path_s2p, X_ALT, 0, "s2p");
    n = dvp(o, n, F->path_bad, X_FAIL, EM_BADMSG, "syntax-error");
    return n;
}
static int d_cksavepath(fx_t *F, int v, dv_t *o)
{
    int n = dvp(o, 0, F->path_out, X_BASE, 0, "npd");
    n = dvp(o, n, "x.s2p", X_ALT, 0, "s2p");
    n = dvp(o, n, "x.ts", X_ALT, 0, "ts");
    n = dvp(o, n, "x.s3p", X_ALT, 0, "s3p");
    return n;
}

/* ---- thunks ----------------------------------------------------------- */
#define AI(k)   ((int)a[k].i)
#define AP(k)   (a[k].p)
#define AD(k)   (a[k].d)
#define AZ(k)   (a[k].z)
#define RINT(x)  do { long v_ = (long)(x); R->iv = v_; R->failed = v_ == -1; } while (0)
#define RPTR(x)  do { const void *p_ = (const void *)(x); R->failed = p_ == NULL; } while (0)
#define RDBL(x)  do { double d_ = (x); R->failed = d_ == HUGE_VAL; } while (0)
#define RCPX(x)  do { double complex z_ = (x); R->failed = creal(z_) == HUGE_VAL; } while (0)
#define T(nm)   static void t_##nm(fx_t *F, int v, const cv_t *a, res_t *R)
#define VNP     (*fx_vnpp(F, v))
#define VD      (v == 0 ? F->vd : v == 1 ? F->vdf : F->vdo)
typedef double complex *const *cm_t;

T(name_to_type) { RINT((int)vnacal_name_to_type(AP(0))); }
T(type_to_name) { RPTR(vnacal_type_to_name((vnacal_type_t)AI(0))); }
T(new_alloc)
{
    vnacal_new_t *p = vnacal_new_alloc(F->vcp, (vnacal_type_t)AI(0), AI(1),
	    AI(2), AI(3));
    RPTR(p);
    if (p != NULL) {
	int e = errno;
	vnacal_new_free(p);
	errno = e;
    }
}
T(new_set_frequency_vector) { RINT(vnacal_new_set_frequency_vector(VNP, AP(0))); }
T(new_set_z0) { RINT(vnacal_new_set_z0(VNP, AZ(0))); }
T(new_set_m_error) { RINT(vnacal_new_set_m_error(VNP, AP(0), AI(1), AP(2), AP(3))); }
T(new_set_p_tolerance) { RINT(vnacal_new_set_p_tolerance(VNP, AD(0))); }
T(new_set_et_tolerance) { RINT(vnacal_new_set_et_tolerance(VNP, AD(0))); }
T(new_set_iteration_limit) { RINT(vnacal_new_set_iteration_limit(VNP, AI(0))); }
T(new_set_pvalue_limit) { RINT(vnacal_new_set_pvalue_limit(VNP, AD(0))); }
T(add_single_reflect) { RINT(vnacal_new_add_single_reflect(VNP, (cm_t)AP(0), AI(1), AI(2), (cm_t)AP(3), AI(4), AI(5), AI(6), AI(7))); }
T(add_single_reflect_m) { RINT(vnacal_new_add_single_reflect_m(VNP, (cm_t)AP(0), AI(1), AI(2), AI(3), AI(4))); }
T(add_double_reflect) { RINT(vnacal_new_add_double_reflect(VNP, (cm_t)AP(0), AI(1), AI(2), (cm_t)AP(3), AI(4), AI(5), AI(6), AI(7), AI(8), AI(9))); }
T(add_double_reflect_m) { RINT(vnacal_new_add_double_reflect_m(VNP, (cm_t)AP(0), AI(1), AI(2), AI(3), AI(4), AI(5), AI(6))); }
T(add_line) { RINT(vnacal_new_add_line(VNP, (cm_t)AP(0), AI(1), AI(2), (cm_t)AP(3), AI(4), AI(5), AP(6), AI(7), AI(8))); }
T(add_line_m) { RINT(vnacal_new_add_line_m(VNP, (cm_t)AP(0), AI(1), AI(2), AP(3), AI(4), AI(5))); }
T(add_through) { RINT(vnacal_new_add_through(VNP, (cm_t)AP(0), AI(1), AI(2), (cm_t)AP(3), AI(4), AI(5), AI(6), AI(7))); }
T(add_through_m) { RINT(vnacal_new_add_through_m(VNP, (cm_t)AP(0), AI(1), AI(2), AI(3), AI(4))); }
T(add_mapped_matrix) { RINT(vnacal_new_add_mapped_matrix(VNP, (cm_t)AP(0), AI(1), AI(2), (cm_t)AP(3), AI(4), AI(5), AP(6), AI(7), AI(8), AP(9))); }
T(add_mapped_matrix_m) { RINT(vnacal_new_add_mapped_matrix_m(VNP, (cm_t)AP(0), AI(1), AI(2), AP(3), AI(4), AI(5), AP(6))); }
T(new_solve) { RINT(vnacal_new_solve(VNP)); }
T(new_free)
{
    vnacal_new_free(VNP);
    VNP = NULL;
    R->failed = 0;
}
T(make_scalar_parameter) { RINT(vnacal_make_scalar_parameter(F->vcp, AZ(0))); }
T(make_vector_parameter) { RINT(vnacal_make_vector_parameter(F->vcp, AP(0), AI(1), AP(2))); }
T(make_unknown_parameter) { RINT(vnacal_make_unknown_parameter(F->vcp, AI(0))); }
T(make_correlated_parameter) { RINT(vnacal_make_correlated_parameter(F->vcp, AI(0), AP(1), AI(2), AP(3))); }
T(get_parameter_value) { RCPX(vnacal_get_parameter_value(F->vcp, AI(0), AD(1))); }
T(delete_parameter) { RINT(vnacal_delete_parameter(F->vcp, AI(0))); }
T(create)
{
    vnacal_t *p = vnacal_create((vnaerr_error_fn_t *)AP(0), &F->elog);
    RPTR(p);
    vnacal_free(p);
}
T(load)
{
    vnacal_t *p = vnacal_load(AP(0), (vnaerr_error_fn_t *)AP(1), &F->elog);
    int e = errno;
    RPTR(p);
    vnacal_free(p);
    errno = e;
}
T(save) { RINT(vnacal_save(F->vcp, AP(0))); }
T(get_filename) { RPTR(vnacal_get_filename(F->vcp)); }
T(add_calibration) { RINT(vnacal_add_calibration(F->vcp, AP(0), (vnacal_new_t *)AP(1))); }
T(find_calibration) { RINT(vnacal_find_calibration(F->vcp, AP(0))); }
T(delete_calibration) { RINT(vnacal_delete_calibration(F->vcp, AI(0))); }
T(get_calibration_end) { RINT(vnacal_get_calibration_end(F->vcp)); }
T(get_name) { RPTR(vnacal_get_name(F->vcp, AI(0))); }
T(get_type) { RINT((int)vnacal_get_type(F->vcp, AI(0))); }
T(get_rows) { RINT(vnacal_get_rows(F->vcp, AI(0))); }
T(get_columns) { RINT(vnacal_get_columns(F->vcp, AI(0))); }
T(get_frequencies) { RINT(vnacal_get_frequencies(F->vcp, AI(0))); }
T(get_fmin) { RDBL(vnacal_get_fmin(F->vcp, AI(0))); }
T(get_fmax) { RDBL(vnacal_get_fmax(F->vcp, AI(0))); }
T(get_frequency_vector) { RPTR(vnacal_get_frequency_vector(F->vcp, AI(0))); }
T(get_z0) { RCPX(vnacal_get_z0(F->vcp, AI(0))); }
T(set_fprecision) { RINT(vnacal_set_fprecision(F->vcp, AI(0))); }
T(set_dprecision) { RINT(vnacal_set_dprecision(F->vcp, AI(0))); }
T(property_type) { RINT(vnacal_property_type(F->vcp, AI(0), "%s", (const char *)AP(1))); }
T(property_count) { RINT(vnacal_property_count(F->vcp, AI(0), "%s", (const char *)AP(1))); }
T(property_keys)
{
    const char **k = vnacal_property_keys(F->vcp, AI(0), "%s",
	    (const char *)AP(1));
    int e = errno;
    RPTR(k);
    vf_free((void *)k);
    errno = e;
}
T(property_get) { RPTR(vnacal_property_get(F->vcp, AI(0), "%s", (const char *)AP(1))); }
T(property_set) { RINT(vnacal_property_set(F->vcp, AI(0), "%s", (const char *)AP(1))); }
T(property_delete) { RINT(vnacal_property_delete(F->vcp, AI(0), "%s", (const char *)AP(1))); }
T(property_get_subtree)
{
    errno = 0;
    vnaproperty_t *p = vnacal_property_get_subtree(F->vcp, AI(0), "%s",
	    (const char *)AP(1));
    R->failed = p == NULL && errno != 0;
}
T(property_set_subtree) { RPTR(vnacal_property_set_subtree(F->vcp, AI(0), "%s", (const char *)AP(1))); }
T(free_vcp) { vnacal_free(F->vcp); F->vcp = NULL; for (int k = 0; k < VN_N; ++k) *fx_vnpp(F, k) = NULL; R->failed = 0; }
T(apply) { RINT(vnacal_apply(F->vcp, AI(0), AP(1), AI(2), (cm_t)AP(3), AI(4), AI(5), (cm_t)AP(6), AI(7), AI(8), (vnadata_t *)AP(9))); }
T(apply_m) { RINT(vnacal_apply_m(F->vcp, AI(0), AP(1), AI(2), (cm_t)AP(3), AI(4), AI(5), (vnadata_t *)AP(6))); }

/* vnadata */
T(vd_alloc)
{
    vnadata_t *p = vnadata_alloc((vnaerr_error_fn_t *)AP(0), &F->elog);
    RPTR(p);
    vnadata_free(p);
}
T(vd_free) { vnadata_free(F->vdo); F->vdo = NULL; R->failed = 0; }
T(vd_init) { RINT(vnadata_init(VD, (vnadata_parameter_type_t)AI(0), AI(1), AI(2), AI(3))); }
T(vd_alloc_and_init)
{
    vnadata_t *p = vnadata_alloc_and_init((vnaerr_error_fn_t *)vf_errfn,
	    &F->elog, (vnadata_parameter_type_t)AI(0), AI(1), AI(2), AI(3));
    int e = errno;
    RPTR(p);
    vnadata_free(p);
    errno = e;
}
T(vd_resize) { RINT(vnadata_resize(VD, (vnadata_parameter_type_t)AI(0), AI(1), AI(2), AI(3))); }
T(vd_get_dims)
{
    R->failed = !(vnadata_get_frequencies(VD) == 3 &&
	    vnadata_get_rows(VD) == 2 && vnadata_get_columns(VD) == 2 &&
	    vnadata_get_type(VD) == VPT_S);
}
T(vd_set_type) { RINT(vnadata_set_type(VD, (vnadata_parameter_type_t)AI(0))); }
T(vd_get_fmin) { RDBL(vnadata_get_fmin(VD)); }
T(vd_get_fmax) { RDBL(vnadata_get_fmax(VD)); }
T(vd_get_frequency) { RDBL(vnadata_get_frequency(VD, AI(0))); }
T(vd_set_frequency) { RINT(vnadata_set_frequency(VD, AI(0), AD(1))); }
T(vd_get_frequency_vector) { RPTR(vnadata_get_frequency_vector(VD)); }
T(vd_set_frequency_vector) { RINT(vnadata_set_frequency_vector(VD, AP(0))); }
T(vd_get_cell) { RCPX(vnadata_get_cell(VD, AI(0), AI(1), AI(2))); }
T(vd_set_cell) { RINT(vnadata_set_cell(VD, AI(0), AI(1), AI(2), 0.25 - 0.5 * I)); }
T(vd_get_matrix) { RPTR(vnadata_get_matrix(VD, AI(0))); }
T(vd_set_matrix) { RINT(vnadata_set_matrix(VD, AI(0), AP(1))); }
T(vd_get_to_vector)
{
    double complex out[3];
    RINT(vnadata_get_to_vector(VD, AI(0), AI(1), out));
}
T(vd_set_from_vector) { RINT(vnadata_set_from_vector(VD, AI(0), AI(1), AP(2))); }
T(vd_get_z0) { RCPX(vnadata_get_z0(VD, AI(0))); }
T(vd_set_z0) { RINT(vnadata_set_z0(VD, AI(0), AZ(1))); }
T(vd_set_all_z0) { RINT(vnadata_set_all_z0(VD, AZ(0))); }
T(vd_get_z0_vector) { RPTR(vnadata_get_z0_vector(VD)); }
T(vd_set_z0_vector) { RINT(vnadata_set_z0_vector(VD, AP(0))); }
T(vd_has_fz0) { R->failed = vnadata_has_fz0(VD) != (v == 1); }
T(vd_get_fz0) { RCPX(vnadata_get_fz0(VD, AI(0), AI(1))); }
T(vd_set_fz0) { RINT(vnadata_set_fz0(VD, AI(0), AI(1), AZ(2))); }
T(vd_get_fz0_vector) { RPTR(vnadata_get_fz0_vector(VD, AI(0))); }
T(vd_set_fz0_vector) { RINT(vnadata_set_fz0_vector(VD, AI(0), AP(1))); }
T(vd_convert) { RINT(vnadata_convert(F->vd, (vnadata_t *)AP(0), (vnadata_parameter_type_t)AI(1))); }
T(vd_add_frequency) { RINT(vnadata_add_frequency(VD, AD(0))); }
T(vd_get_type_name) { RPTR(vnadata_get_type_name((vnadata_parameter_type_t)AI(0))); }
T(vd_get_filetype) { RINT((int)vnadata_get_filetype(VD)); }
T(vd_set_filetype) { RINT(vnadata_set_filetype(VD, (vnadata_filetype_t)AI(0))); }
T(vd_get_format) { (void)vnadata_get_format(VD); R->failed = 0; }
T(vd_set_format) { RINT(vnadata_set_format(VD, AP(0))); }
T(vd_get_fprecision) { RINT(vnadata_get_fprecision(VD)); }
T(vd_set_fprecision) { RINT(vnadata_set_fprecision(VD, AI(0))); }
T(vd_get_dprecision) { RINT(vnadata_get_dprecision(VD)); }
T(vd_set_dprecision) { RINT(vnadata_set_dprecision(VD, AI(0))); }
T(vd_load) { RINT(vnadata_load(F->vdo, AP(0))); }
T(vd_fload)
{
    FILE *fp = fopen(AP(0), "r");
    if (fp == NULL) {
	R->failed = 1;
	return;
    }
    RINT(vnadata_fload(F->vdo, fp, AP(0)));
    int e = errno;
    fclose(fp);
    errno = e;
}
T(vd_cksave) { RINT(vnadata_cksave(VD, AP(0))); }
T(vd_save) { RINT(vnadata_save(VD, AP(0))); }
T(vd_fsave)
{
    FILE *fp = fopen(F->path_out, "w");
    if (fp == NULL) {
	R->failed = 1;
	return;
    }
    RINT(vnadata_fsave(VD, fp, "x.npd"));
    int e = errno;
    fclose(fp);
    errno = e;
}

/* vnaproperty (v == 1: through the va_list entry points) */
static int c3_vtype(const vnaproperty_t *r, const char *f, ...)
{ va_list ap; va_start(ap, f); int x = vnaproperty_vtype(r, f, ap); va_end(ap); return x; }
static int c3_vcount(const vnaproperty_t *r, const char *f, ...)
{ va_list ap; va_start(ap, f); int x = vnaproperty_vcount(r, f, ap); va_end(ap); return x; }
static const char **c3_vkeys(const vnaproperty_t *r, const char *f, ...)
{ va_list ap; va_start(ap, f); const char **x = vnaproperty_vkeys(r, f, ap); va_end(ap); return x; }
static const char *c3_vget(const vnaproperty_t *r, const char *f, ...)
{ va_list ap; va_start(ap, f); const char *x = vnaproperty_vget(r, f, ap); va_end(ap); return x; }
static int c3_vset(vnaproperty_t **r, const char *f, ...)
{ va_list ap; va_start(ap, f); int x = vnaproperty_vset(r, f, ap); va_end(ap); return x; }
static int c3_vdelete(vnaproperty_t **r, const char *f, ...)
{ va_list ap; va_start(ap, f); int x = vnaproperty_vdelete(r, f, ap); va_end(ap); return x; }
static vnaproperty_t *c3_vgsub(const vnaproperty_t *r, const char *f, ...)
{ va_list ap; va_start(ap, f); vnaproperty_t *x = vnaproperty_vget_subtree(r, f, ap); va_end(ap); return x; }
static vnaproperty_t **c3_vssub(vnaproperty_t **r, const char *f, ...)
{ va_list ap; va_start(ap, f); vnaproperty_t **x = vnaproperty_vset_subtree(r, f, ap); va_end(ap); return x; }
#define S0 ((const char *)AP(0))
T(vp_type) { RINT(v ? c3_vtype(F->root, "%s", S0) : vnaproperty_type(F->root, "%s", S0)); }
T(vp_count) { RINT(v ? c3_vcount(F->root, "%s", S0) : vnaproperty_count(F->root, "%s", S0)); }
T(vp_keys)
{
    const char **k = v ? c3_vkeys(F->root, "%s", S0) :
	vnaproperty_keys(F->root, "%s", S0);
    int e = errno;
    RPTR(k);
    vf_free((void *)k);
    errno = e;
}
T(vp_get) { RPTR(v ? c3_vget(F->root, "%s", S0) : vnaproperty_get(F->root, "%s", S0)); }
T(vp_set) { RINT(v ? c3_vset(&F->root, "%s", S0) : vnaproperty_set(&F->root, "%s", S0)); }
T(vp_delete) { RINT(v ? c3_vdelete(&F->root, "%s", S0) : vnaproperty_delete(&F->root, "%s", S0)); }
T(vp_get_subtree)
{
    errno = 0;
    vnaproperty_t *p = v ? c3_vgsub(F->root, "%s", S0) :
	vnaproperty_get_subtree(F->root, "%s", S0);
    R->failed = p == NULL && errno != 0;
}
T(vp_set_subtree) { RPTR(v ? c3_vssub(&F->root, "%s", S0) : vnaproperty_set_subtree(&F->root, "%s", S0)); }
/* errno as an earlier failed look-up leaves it: the copy (of a tree that
   holds a null) must not take it for its own */
T(vp_copy) { errno = ENOENT; RINT(vnaproperty_copy(&F->root2, AP(0))); }
T(vp_quote_key)
{
    char *q = vnaproperty_quote_key(AP(0));
    RPTR(q);
    vf_free(q);
}
T(vp_import_string) { RINT(vnaproperty_import_yaml_from_string(&F->root2, AP(0), (vnaerr_error_fn_t *)AP(1), &F->elog)); }
T(vp_import_file)
{
    FILE *fp;
    fx_write(F->path_yaml, AP(0));
    if ((fp = fopen(F->path_yaml, "r")) == NULL) {
	R->failed = 1;
	return;
    }
    RINT(vnaproperty_import_yaml_from_file(&F->root2, fp, "c03.yaml",
		(vnaerr_error_fn_t *)AP(1), &F->elog));
    int e = errno;
    fclose(fp);
    errno = e;
}
T(vp_export_file)
{
    FILE *fp = fopen(F->path_yaml, "w");
    if (fp == NULL) {
	R->failed = 1;
	return;
    }
    RINT(vnaproperty_export_yaml_to_file(AP(0), fp, "c03.yaml",
		(vnaerr_error_fn_t *)AP(1), &F->elog));
    int e = errno;
    fclose(fp);
    errno = e;
}

/* ---- the table --------------------------------------------------------- */
#define AB1 {"a",d_aptr},{"a_rows",d_adim},{"a_columns",d_adim},{"b",d_mptr},{"b_rows",d_brows1},{"b_columns",d_bcols1}
#define AB2 {"a",d_aptr},{"a_rows",d_adim},{"a_columns",d_adim},{"b",d_mptr},{"b_rows",d_brows2},{"b_columns",d_bcols2}
#define M1  {"m",d_mptr},{"m_rows",d_brows1},{"m_columns",d_bcols1}
#define M2  {"m",d_mptr},{"m_rows",d_brows2},{"m_columns",d_bcols2}
#define ADDS(v) \
 { "vnacal_new_add_single_reflect", RK_INT, CB_ONE, EM_INVAL, 0, v, t_add_single_reflect, { AB1, {"s11",d_param}, {"port",d_port1} } }, \
 { "vnacal_new_add_single_reflect_m", RK_INT, CB_ONE, EM_INVAL, 0, v, t_add_single_reflect_m, { M1, {"s11",d_param}, {"port",d_port1} } }, \
 { "vnacal_new_add_double_reflect", RK_INT, CB_ONE, EM_INVAL, 0, v, t_add_double_reflect, { AB2, {"s11",d_param}, {"s22",d_param}, {"port1",d_port1}, {"port2",d_port2} } }, \
 { "vnacal_new_add_double_reflect_m", RK_INT, CB_ONE, EM_INVAL, 0, v, t_add_double_reflect_m, { M2, {"s11",d_param}, {"s22",d_param}, {"port1",d_port1}, {"port2",d_port2} } }, \
 { "vnacal_new_add_line", RK_INT, CB_ONE, EM_INVAL, 0, v, t_add_line, { AB2, {"s_2x2",d_s4}, {"port1",d_port1}, {"port2",d_port2} } }, \
 { "vnacal_new_add_line_m", RK_INT, CB_ONE, EM_INVAL, 0, v, t_add_line_m, { M2, {"s_2x2",d_s4}, {"port1",d_port1}, {"port2",d_port2} } }, \
 { "vnacal_new_add_through", RK_INT, CB_ONE, EM_INVAL, 0, v, t_add_through, { AB2, {"port1",d_port1}, {"port2",d_port2} } }, \
 { "vnacal_new_add_through_m", RK_INT, CB_ONE, EM_INVAL, 0, v, t_add_through_m, { M2, {"port1",d_port1}, {"port2",d_port2} } }, \
 { "vnacal_new_add_mapped_matrix", RK_INT, CB_ONE, EM_INVAL, 0, v, t_add_mapped_matrix, { AB2, {"s",d_s4}, {"s_rows",d_sdim}, {"s_columns",d_sdim}, {"port_map",d_pmap} } }, \
 { "vnacal_new_add_mapped_matrix_m", RK_INT, CB_ONE, EM_INVAL, 0, v, t_add_mapped_matrix_m, { M2, {"s",d_s4}, {"s_rows",d_sdim}, {"s_columns",d_sdim}, {"port_map",d_pmap} } }
#define GETTER(nm, rk) { "vnacal_" #nm, rk, CB_ZERO, EM_INVAL, 0, 0, t_##nm, { {"ci",d_ci} } }
#define VDZ(nm, fn, rk, fl, v, ...) { nm, rk, CB_UNSPEC, EM_INVAL, fl, v, fn, { __VA_ARGS__ } }

static fn_t c3_table[] = {
 { "vnacal_name_to_type", RK_INT, CB_UNSPEC, 0, 0, 0, t_name_to_type, { {"name",d_typename} } },
 { "vnacal_type_to_name", RK_PTR, CB_UNSPEC, 0, 0, 0, t_type_to_name, { {"type",d_caltype} } },
 { "vnacal_new_alloc", RK_PTR, CB_ONE, EM_INVAL, 0, 0, t_new_alloc, { {"type",d_caltype}, {"rows",d_calrows}, {"columns",d_calcols}, {"frequencies",d_calnf} } },
#define SETTERS(v, mfl) \
 { "vnacal_new_set_frequency_vector", RK_INT, CB_ONE, EM_INVAL, FL_VNPV, v, t_new_set_frequency_vector, { {"frequency_vector",d_fvec_cal} } }, \
 { "vnacal_new_set_z0", RK_INT, CB_ONE, EM_INVAL, FL_VNPV, v, t_new_set_z0, { {"z0",d_z0} } }, \
 { "vnacal_new_set_m_error", RK_INT, CB_ONE, EM_INVAL, FL_VNPV | (mfl), v, t_new_set_m_error, { {"frequency_vector",d_fvec5_null}, {"frequencies",d_n5m}, {"sigma_nf_vector",d_sig_nf}, {"sigma_tr_vector",d_sig_tr} } }, \
 { "vnacal_new_set_p_tolerance", RK_INT, CB_ONE, EM_INVAL, FL_VNPV, v, t_new_set_p_tolerance, { {"tolerance",d_tol} } }, \
 { "vnacal_new_set_et_tolerance", RK_INT, CB_ONE, EM_INVAL, FL_VNPV, v, t_new_set_et_tolerance, { {"tolerance",d_tol} } }, \
 { "vnacal_new_set_iteration_limit", RK_INT, CB_ONE, EM_INVAL, FL_VNPV, v, t_new_set_iteration_limit, { {"iterations",d_iter} } }, \
 { "vnacal_new_set_pvalue_limit", RK_INT, CB_ONE, EM_INVAL, FL_VNPV, v, t_new_set_pvalue_limit, { {"significance",d_pvalue} } }
 SETTERS(VN_L, 0), SETTERS(VN_R, 0), SETTERS(VN_T16, FL_L0FAIL),
 SETTERS(VN_U16, FL_L0FAIL), SETTERS(VN_S, 0), SETTERS(VN_A5, 0),
 ADDS(0),
 ADDS(1),
 /* T16 with an m_error model: a standard that leaves a port open is
    refused by design, whatever its parameter is (and must leave nothing
    behind, in particular no registered unknown) */
 { "vnacal_new_add_single_reflect", RK_INT, CB_ONE, EM_INVAL, FL_L0FAIL, VN_T16M, t_add_single_reflect, { AB1, {"s11",d_param}, {"port",d_port1} } },
 { "vnacal_new_add_single_reflect_m", RK_INT, CB_ONE, EM_INVAL, FL_L0FAIL, VN_T16M, t_add_single_reflect_m, { M1, {"s11",d_param}, {"port",d_port1} } },
 { "vnacal_new_add_double_reflect_m", RK_INT, CB_ONE, EM_INVAL, 0, VN_T16M, t_add_double_reflect_m, { M2, {"s11",d_param}, {"s22",d_param}, {"port1",d_port1}, {"port2",d_port2} } },
#define SOLVE(v, fl) { "vnacal_new_solve", RK_INT, CB_ONE, EM_DOM, FL_VNPV | (fl), v, t_new_solve, { {NULL,NULL} } }
#define NFREE(v) { "vnacal_new_free", RK_NONE, CB_UNSPEC, 0, FL_VNPV, v, t_new_free, { {NULL,NULL} } }
 SOLVE(VN_S, 0), SOLVE(VN_A3, 0), SOLVE(VN_A5, 0), SOLVE(VN_A1, 0),
 SOLVE(VN_L, FL_L0FAIL), SOLVE(VN_R, FL_L0FAIL), SOLVE(VN_T16, FL_L0FAIL),
 SOLVE(VN_U16, FL_L0FAIL),
 NFREE(VN_L), NFREE(VN_S), NFREE(VN_T16), NFREE(VN_A5),
 { "vnacal_make_scalar_parameter", RK_INT, CB_ONE, EM_INVAL, 0, 0, t_make_scalar_parameter, { {"gamma",d_gamma} } },
 { "vnacal_make_vector_parameter", RK_INT, CB_ONE, EM_INVAL, 0, 0, t_make_vector_parameter, { {"frequency_vector",d_fvec5}, {"frequencies",d_n5}, {"gamma_vector",d_g5} } },
 { "vnacal_make_unknown_parameter", RK_INT, CB_ONE, EM_INVAL, 0, 0, t_make_unknown_parameter, { {"initial_guess",d_param} } },
 { "vnacal_make_correlated_parameter", RK_INT, CB_ONE, EM_INVAL, 0, 0, t_make_correlated_parameter, { {"other",d_param}, {"sigma_frequency_vector",d_fvec5_corr}, {"sigma_frequencies",d_n5}, {"sigma_vector",d_sig_corr} } },
 { "vnacal_get_parameter_value", RK_CPX, CB_UNSPEC, EM_INVAL, 0, 0, t_get_parameter_value, { {"parameter",d_param_val}, {"frequency",d_freq_val} } },
 { "vnacal_delete_parameter", RK_INT, CB_ONE, EM_INVAL, 0, 0, t_delete_parameter, { {"parameter",d_param_del} } },
 { "vnacal_create", RK_PTR, CB_ONE, 0, 0, 0, t_create, { {"error_fn",d_errfn} } },
 { "vnacal_load", RK_PTR, CB_ONE, 0, 0, 0, t_load, { {"pathname",d_calpath}, {"error_fn",d_errfn} } },
 { "vnacal_save", RK_INT, CB_ONE, 0, 0, 0, t_save, { {"pathname",d_savepath} } },
 { "vnacal_get_filename", RK_PTR, CB_ZERO, 0, 0, 0, t_get_filename, { {NULL,NULL} } },
 { "vnacal_add_calibration", RK_INT, CB_ONE, EM_INVAL, 0, 0, t_add_calibration, { {"name",d_newname}, {"vnp",d_vnp_solved} } },
 { "vnacal_find_calibration", RK_INT, CB_ZERO, EM_NOENT, 0, 0, t_find_calibration, { {"name",d_calname} } },
 { "vnacal_delete_calibration", RK_INT, CB_ZERO, EM_INVAL | EM_NOENT, 0, 0, t_delete_calibration, { {"ci",d_ci} } },
 { "vnacal_get_calibration_end", RK_INT, CB_ZERO, 0, 0, 0, t_get_calibration_end, { {NULL,NULL} } },
 GETTER(get_name, RK_PTR), GETTER(get_type, RK_INT), GETTER(get_rows, RK_INT),
 GETTER(get_columns, RK_INT), GETTER(get_frequencies, RK_INT),
 GETTER(get_fmin, RK_DBL), GETTER(get_fmax, RK_DBL),
 GETTER(get_frequency_vector, RK_PTR), GETTER(get_z0, RK_CPX),
 { "vnacal_set_fprecision", RK_INT, CB_UNSPEC, EM_INVAL, 0, 0, t_set_fprecision, { {"precision",d_prec} } },
 { "vnacal_set_dprecision", RK_INT, CB_UNSPEC, EM_INVAL, 0, 0, t_set_dprecision, { {"precision",d_prec} } },
 { "vnacal_property_type", RK_INT, CB_ZERO, 0, 0, 0, t_property_type, { {"ci",d_cip}, {"descriptor",d_ptype} } },
 { "vnacal_property_count", RK_INT, CB_ZERO, 0, 0, 0, t_property_count, { {"ci",d_cip}, {"descriptor",d_pcount} } },
 { "vnacal_property_keys", RK_PTR, CB_ZERO, 0, 0, 0, t_property_keys, { {"ci",d_cip}, {"descriptor",d_pkeys} } },
 { "vnacal_property_get", RK_PTR, CB_ZERO, 0, 0, 0, t_property_get, { {"ci",d_cip}, {"descriptor",d_pget} } },
 { "vnacal_property_set", RK_INT, CB_ZERO, 0, 0, 0, t_property_set, { {"ci",d_cip}, {"descriptor",d_pset} } },
 { "vnacal_property_delete", RK_INT, CB_ZERO, 0, 0, 0, t_property_delete, { {"ci",d_cip}, {"descriptor",d_pdel} } },
 { "vnacal_property_get_subtree", RK_PTRE, CB_ZERO, 0, 0, 0, t_property_get_subtree, { {"ci",d_cip}, {"descriptor",d_pgsub} } },
 { "vnacal_property_set_subtree", RK_PTR, CB_ZERO, 0, 0, 0, t_property_set_subtree, { {"ci",d_cip}, {"descriptor",d_pssub} } },
 { "vnacal_free", RK_NONE, CB_UNSPEC, 0, 0, 0, t_free_vcp, { {NULL,NULL} } },
 { "vnacal_apply", RK_INT, CB_ONE, EM_INVAL, FL_MUTOK, 0, t_apply, { {"ci",d_ci_apply}, {"frequency_vector",d_fvec_apply}, {"frequencies",d_n5_apply}, {"a",d_aptr}, {"a_rows",d_adim}, {"a_columns",d_adim}, {"b",d_mptr}, {"b_rows",d_bcols2}, {"b_columns",d_bcols2}, {"s_parameters",d_vdo_only} } },
 { "vnacal_apply_m", RK_INT, CB_ONE, EM_INVAL, FL_MUTOK, 0, t_apply_m, { {"ci",d_ci_apply}, {"frequency_vector",d_fvec_apply}, {"frequencies",d_n5_apply}, {"m",d_mptr}, {"m_rows",d_bcols2}, {"m_columns",d_bcols2}, {"s_parameters",d_vdo_only} } },

 /* vnadata */
 VDZ("vnadata_alloc", t_vd_alloc, RK_PTR, 0, 0, {"error_fn",d_errfn}),
 VDZ("vnadata_free", t_vd_free, RK_NONE, 0, 0, {NULL,NULL}),
 VDZ("vnadata_init", t_vd_init, RK_INT, FL_MUTOK, 0, {"type",d_vdtype}, {"rows",d_vdrows}, {"columns",d_vdrows}, {"frequencies",d_vdnf}),
 VDZ("vnadata_init", t_vd_init, RK_INT, FL_MUTOK, 1, {"type",d_vdtype}, {"rows",d_vdrows}, {"columns",d_vdrows}, {"frequencies",d_vdnf}),
 VDZ("vnadata_alloc_and_init", t_vd_alloc_and_init, RK_PTR, 0, 0, {"type",d_vdtype}, {"rows",d_vdrows}, {"columns",d_vdrows}, {"frequencies",d_vdnf}),
 VDZ("vnadata_resize", t_vd_resize, RK_INT, 0, 0, {"type",d_vdtype}, {"rows",d_vdrows}, {"columns",d_vdrows}, {"frequencies",d_vdnf}),
 VDZ("vnadata_resize", t_vd_resize, RK_INT, 0, 1, {"type",d_vdtype}, {"rows",d_vdrows}, {"columns",d_vdrows}, {"frequencies",d_vdnf}),
 VDZ("vnadata_get_frequencies/rows/columns/type", t_vd_get_dims, RK_NONE, 0, 0, {NULL,NULL}),
 VDZ("vnadata_set_type", t_vd_set_type, RK_INT, 0, 0, {"type",d_vdtype}),
 VDZ("vnadata_get_fmin", t_vd_get_fmin, RK_DBL, 0, 0, {NULL,NULL}),
 VDZ("vnadata_get_fmin", t_vd_get_fmin, RK_DBL, FL_L0FAIL, 2, {NULL,NULL}),
 VDZ("vnadata_get_fmax", t_vd_get_fmax, RK_DBL, 0, 0, {NULL,NULL}),
 VDZ("vnadata_get_fmax", t_vd_get_fmax, RK_DBL, FL_L0FAIL, 2, {NULL,NULL}),
 VDZ("vnadata_get_frequency", t_vd_get_frequency, RK_DBL, 0, 0, {"findex",d_findex}),
 VDZ("vnadata_set_frequency", t_vd_set_frequency, RK_INT, 0, 0, {"findex",d_findex}, {"frequency",d_freq}),
 VDZ("vnadata_get_frequency_vector", t_vd_get_frequency_vector, RK_PTR, 0, 0, {NULL,NULL}),
 VDZ("vnadata_set_frequency_vector", t_vd_set_frequency_vector, RK_INT, 0, 0, {"frequency_vector",d_fvec3_set}),
 VDZ("vnadata_get_cell", t_vd_get_cell, RK_CPX, 0, 0, {"findex",d_findex}, {"row",d_rc}, {"column",d_rc}),
 VDZ("vnadata_set_cell", t_vd_set_cell, RK_INT, 0, 0, {"findex",d_findex}, {"row",d_rc}, {"column",d_rc}),
 VDZ("vnadata_get_matrix", t_vd_get_matrix, RK_PTR, 0, 0, {"findex",d_findex}),
 VDZ("vnadata_set_matrix", t_vd_set_matrix, RK_INT, 0, 0, {"findex",d_findex}, {"matrix",d_mat4}),
 VDZ("vnadata_get_to_vector", t_vd_get_to_vector, RK_INT, 0, 0, {"row",d_rc}, {"column",d_rc}),
 VDZ("vnadata_set_from_vector", t_vd_set_from_vector, RK_INT, 0, 0, {"row",d_rc}, {"column",d_rc}, {"vector",d_cvec3}),
 VDZ("vnadata_get_z0", t_vd_get_z0, RK_CPX, 0, 0, {"port",d_rc}),
 VDZ("vnadata_get_z0", t_vd_get_z0, RK_CPX, FL_L0FAIL, 1, {"port",d_rc}),
 VDZ("vnadata_set_z0", t_vd_set_z0, RK_INT, 0, 0, {"port",d_rc}, {"z0",d_z0}),
 VDZ("vnadata_set_z0", t_vd_set_z0, RK_INT, 0, 1, {"port",d_rc}, {"z0",d_z0}),
 VDZ("vnadata_set_all_z0", t_vd_set_all_z0, RK_INT, 0, 0, {"z0",d_z0}),
 VDZ("vnadata_set_all_z0", t_vd_set_all_z0, RK_INT, 0, 1, {"z0",d_z0}),
 VDZ("vnadata_get_z0_vector", t_vd_get_z0_vector, RK_PTR, 0, 0, {NULL,NULL}),
 VDZ("vnadata_get_z0_vector", t_vd_get_z0_vector, RK_PTR, FL_L0FAIL, 1, {NULL,NULL}),
 VDZ("vnadata_set_z0_vector", t_vd_set_z0_vector, RK_INT, 0, 0, {"z0_vector",d_z2}),
 VDZ("vnadata_set_z0_vector", t_vd_set_z0_vector, RK_INT, 0, 1, {"z0_vector",d_z2}),
 VDZ("vnadata_has_fz0", t_vd_has_fz0, RK_NONE, 0, 0, {NULL,NULL}),
 VDZ("vnadata_has_fz0", t_vd_has_fz0, RK_NONE, 0, 1, {NULL,NULL}),
 VDZ("vnadata_get_fz0", t_vd_get_fz0, RK_CPX, 0, 0, {"findex",d_findex_fz}, {"port",d_rc}),
 VDZ("vnadata_get_fz0", t_vd_get_fz0, RK_CPX, 0, 1, {"findex",d_findex_fz}, {"port",d_rc}),
 VDZ("vnadata_set_fz0", t_vd_set_fz0, RK_INT, 0, 0, {"findex",d_findex}, {"port",d_rc}, {"z0",d_z0}),
 VDZ("vnadata_set_fz0", t_vd_set_fz0, RK_INT, 0, 1, {"findex",d_findex}, {"port",d_rc}, {"z0",d_z0}),
 VDZ("vnadata_get_fz0_vector", t_vd_get_fz0_vector, RK_PTR, 0, 0, {"findex",d_findex_fz}),
 VDZ("vnadata_get_fz0_vector", t_vd_get_fz0_vector, RK_PTR, 0, 1, {"findex",d_findex_fz}),
 VDZ("vnadata_set_fz0_vector", t_vd_set_fz0_vector, RK_INT, 0, 0, {"findex",d_findex}, {"z0_vector",d_z2}),
 VDZ("vnadata_set_fz0_vector", t_vd_set_fz0_vector, RK_INT, 0, 1, {"findex",d_findex}, {"z0_vector",d_z2}),
 VDZ("vnadata_convert", t_vd_convert, RK_INT, FL_MUTOK, 0, {"vdp_out",d_vdout}, {"new_parameter",d_vdtype_conv}),
 VDZ("vnadata_add_frequency", t_vd_add_frequency, RK_INT, 0, 0, {"frequency",d_freq}),
 VDZ("vnadata_add_frequency", t_vd_add_frequency, RK_INT, 0, 1, {"frequency",d_freq}),
 { "vnadata_get_type_name", RK_PTR, CB_UNSPEC, 0, 0, 0, t_vd_get_type_name, { {"type",d_vdtype_any} } },
 VDZ("vnadata_get_filetype", t_vd_get_filetype, RK_INT, 0, 0, {NULL,NULL}),
 VDZ("vnadata_set_filetype", t_vd_set_filetype, RK_INT, 0, 0, {"filetype",d_filetype}),
 VDZ("vnadata_get_format", t_vd_get_format, RK_NONE, 0, 0, {NULL,NULL}),
 VDZ("vnadata_set_format", t_vd_set_format, RK_INT, 0, 0, {"format",d_format}),
 VDZ("vnadata_get_fprecision", t_vd_get_fprecision, RK_INT, 0, 0, {NULL,NULL}),
 VDZ("vnadata_set_fprecision", t_vd_set_fprecision, RK_INT, 0, 0, {"precision",d_prec}),
 VDZ("vnadata_get_dprecision", t_vd_get_dprecision, RK_INT, 0, 0, {NULL,NULL}),
 VDZ("vnadata_set_dprecision", t_vd_set_dprecision, RK_INT, 0, 0, {"precision",d_prec}),
 { "vnadata_load", RK_INT, CB_UNSPEC, 0, FL_MUTOK, 0, t_vd_load, { {"filename",d_vdloadpath} } },
 { "vnadata_fload", RK_INT, CB_UNSPEC, 0, FL_MUTOK, 0, t_vd_fload, { {"filename",d_vdloadpath_f} } },
 VDZ("vnadata_cksave", t_vd_cksave, RK_INT, FL_MUTOK, 0, {"filename",d_cksavepath}),
 { "vnadata_save", RK_INT, CB_UNSPEC, 0, FL_MUTOK, 0, t_vd_save, { {"filename",d_vdsavepath} } },
 VDZ("vnadata_fsave", t_vd_fsave, RK_INT, FL_MUTOK, 0, {NULL,NULL}),

 /* vnaproperty */
#define VP(v) \
 { "vnaproperty_type", RK_INT, CB_UNSPEC, 0, 0, v, t_vp_type, { {"descriptor",d_ptype} } }, \
 { "vnaproperty_count", RK_INT, CB_UNSPEC, 0, 0, v, t_vp_count, { {"descriptor",d_pcount} } }, \
 { "vnaproperty_keys", RK_PTR, CB_UNSPEC, 0, 0, v, t_vp_keys, { {"descriptor",d_pkeys} } }, \
 { "vnaproperty_get", RK_PTR, CB_UNSPEC, 0, 0, v, t_vp_get, { {"descriptor",d_pget} } }, \
 { "vnaproperty_set", RK_INT, CB_UNSPEC, 0, 0, v, t_vp_set, { {"descriptor",d_pset} } }, \
 { "vnaproperty_delete", RK_INT, CB_UNSPEC, 0, 0, v, t_vp_delete, { {"descriptor",d_pdel} } }, \
 { "vnaproperty_get_subtree", RK_PTRE, CB_UNSPEC, 0, 0, v, t_vp_get_subtree, { {"descriptor",d_pgsub} } }, \
 { "vnaproperty_set_subtree", RK_PTR, CB_UNSPEC, 0, 0, v, t_vp_set_subtree, { {"descriptor",d_pssub} } }
 VP(0),
 VP(1),
 { "vnaproperty_copy", RK_INT, CB_UNSPEC, 0, 0, 0, t_vp_copy, { {"source",d_src} } },
 { "vnaproperty_quote_key", RK_PTR, CB_UNSPEC, 0, 0, 0, t_vp_quote_key, { {"key",d_key} } },
 { "vnaproperty_import_yaml_from_string", RK_INT, CB_UNSPEC, 0, FL_MUTOK, 0, t_vp_import_string, { {"input",d_yaml}, {"error_fn",d_errfn} } },
 { "vnaproperty_import_yaml_from_file", RK_INT, CB_UNSPEC, 0, FL_MUTOK, 0, t_vp_import_file, { {"input",d_yaml}, {"error_fn",d_errfn} } },
 { "vnaproperty_export_yaml_to_file", RK_INT, CB_UNSPEC, 0, 0, 0, t_vp_export_file, { {"root",d_src}, {"error_fn",d_errfn} } },
};
#define C3_NFN ((int)(sizeof(c3_table) / sizeof(c3_table[0])))

#endif
