/*
 * C09: every file parser is total.
 *
 * Deviation-bounded mutator (DESIGN.md 2.6): valid files of every kind
 * (drivers/c09_seeds.h), every single deviation at every position
 * (drivers/c09_mut.h), all pairs on the smallest seeds in the thorough
 * tier, plus all short byte strings over a per-format alphabet.  Every
 * input is given to the real loaders; the verdict comes from the oracle
 * below, not from any expectation about a particular input.
 */
#define _GNU_SOURCE
#include <complex.h>
#include <ctype.h>
#include <errno.h>
#include <math.h>
#include <stddef.h>
#include <stdio.h>
#include <stdlib.h>
#include <string.h>
#include <time.h>
#include <unistd.h>
#include <vnadata.h>
#include <vnaproperty.h>
#include <vnaerr.h>
#include "archdep.h"
#include "vnacal_internal.h"
#include "vf.h"
#include "c09_seeds.h"
#include "c09_mut.h"

#define ERRFN ((vnaerr_error_fn_t *)vf_errfn)

/* ------------------------------------------------------------------ */
/* per-case context                                                   */

typedef struct ctx {
    vf_result *r;
    const seed_t *seed;		/* NULL for short strings */
    int format;
    const char *ext;
    const char *what;		/* deviation description */
    long pos;
    int level;
    int kind;			/* deviation kind (level 1) or -1 */
    int value_idx;		/* value index of the current input */
    int seed_idx;
    int is_seed;		/* input is an unmodified non-probe seed */
    unsigned classes;		/* result classes seen */
    long inputs;
    long accepted;
    /* level 2 */
    const struct ctx *outer;
    obuf_t *ob2;
} ctx_t;

enum { RC_OK = 1, RC_SYNTAX = 2, RC_VERSION = 4, RC_INVAL = 8, RC_NOMEM = 16,
       RC_OTHER = 32 };

static unsigned errno_class(int e)
{
    switch (e) {
    case EBADMSG:	return RC_SYNTAX;
    case ENOPROTOOPT:	return RC_VERSION;
    case EINVAL:	return RC_INVAL;
    case ENOMEM:	return RC_NOMEM;
    default:		return RC_OTHER;
    }
}

static void escape(const char *b, int n, char *out, int max)
{
    int k = 0;
    for (int i = 0; i < n && k + 6 < max; ++i) {
	unsigned char c = (unsigned char)b[i];
	if (c == '\n') { out[k++] = '\\'; out[k++] = 'n'; }
	else if (c == '\\') { out[k++] = '\\'; out[k++] = '\\'; }
	else if (c < 0x20 || c >= 0x7f) k += sprintf(out + k, "\\x%02x", c);
	else out[k++] = (char)c;
    }
    if (k + 6 >= max && k >= 3) { out[k - 3] = out[k - 2] = out[k - 1] = '.'; }
    out[k] = '\0';
}

static char g_inesc[420];	/* escaped current input, for messages */

static int same_d(double a, double b)
{
    return a == b || (isnan(a) && isnan(b));
}

static int same_c(double complex a, double complex b)
{
    return same_d(creal(a), creal(b)) && same_d(cimag(a), cimag(b));
}

/*
 * after a save/re-load: finite values must come back bit-equal; a value
 * with an infinite or NaN part only has to stay non-finite (the loaders
 * form re + I*im, which C evaluates to NaN+inf*I for an infinite im)
 */
static int same_rt(double complex a, double complex b)
{
    if (isfinite(creal(a)) && isfinite(cimag(a)))
	return creal(a) == creal(b) && cimag(a) == cimag(b);
    return !(isfinite(creal(b)) && isfinite(cimag(b)));
}

static long g_live0;		/* live blocks at exec_begin() */

static unsigned long exec_begin(void)
{
    unsigned long m = vf_exec_begin();
    g_live0 = vf_live_total();
    return m;
}

/*
 * leak check with a deterministic signature (the frame's vf_exec_end picks
 * the first site in hash order, which depends on addresses)
 */
static void exec_end(vf_result *r, unsigned long mark, const char *who)
{
    char sites[400], best[120] = "";
    int n;

    /*
     * The frame's block table only ever grows and vf_leak_report scans all
     * of it, so ask for the report only when the O(1) live-block count says
     * that something is still allocated.
     */
    if (vf_live_total() == g_live0)
	return;
    n = vf_leak_report(mark, sites, sizeof(sites));
    if (n <= 0)
	return;
    if (strstr(sites, "libyaml") != NULL) {
	snprintf(best, sizeof(best), "libyaml");
    } else {
	char tmp[400];
	snprintf(tmp, sizeof(tmp), "%s", sites);
	for (char *t = strtok(tmp, ","); t != NULL; t = strtok(NULL, ",")) {
	    char *c = strchr(t, ':');
	    if (c) *c = '\0';
	    if (best[0] == '\0' || strcmp(t, best) < 0)
		snprintf(best, sizeof(best), "%s", t);
	}
    }
    char sig[200];
    snprintf(sig, sizeof(sig), "leak:%s:%s", who, best);
    vf_fail(r, sig, "%s: %d block(s) still allocated after the object was "
	    "freed / the loader failed, allocated at %s; input \"%s\"",
	    who, n, sites, g_inesc);
    vf_leak_discard(mark);
}

/* error-callback expectations shared by all loaders */
static void check_failure_report(vf_result *r, const char *who, int e,
	const vf_errlog *log)
{
    char sig[120];

    /* what is wrong with the bytes of a file is a syntax or version
       error (or the system's): EINVAL is for the caller's own arguments,
       and every loader here is called with valid ones */
    if (!(e == EBADMSG || e == ENOPROTOOPT || e == ENOMEM)) {
	snprintf(sig, sizeof(sig), "errno:%s", who);
	vf_fail(r, sig, "%s failed with errno %d (%s): %s; the content of "
		"a file is refused with EBADMSG, ENOPROTOOPT or a system "
		"errno; input \"%s\"", who, e, strerror(e),
		log->count ? log->msg[0] : "(no message)", g_inesc);
	return;
    }
    if (log->nonwarn < 1) {
	snprintf(sig, sizeof(sig), "noreport:%s", who);
	vf_fail(r, sig, "%s failed (errno %d) without calling the error "
		"callback; input \"%s\"", who, e, g_inesc);
	return;
    }
    if (log->count <= VF_ERRLOG_MAX) {
	int last = -1;
	for (int i = 0; i < log->count; ++i)
	    if (log->category[i] != VNAERR_WARNING)
		last = i;
	if (last >= 0) {
	    /* vnaerr(3): category -> errno table */
	    int cat = log->category[last], want = 0;
	    switch (cat) {
	    case VNAERR_USAGE:	  want = EINVAL; break;
	    case VNAERR_VERSION:  want = ENOPROTOOPT; break;
	    case VNAERR_SYNTAX:	  want = EBADMSG; break;
	    case VNAERR_MATH:	  want = EDOM; break;
	    case VNAERR_INTERNAL: want = ENOSYS; break;
	    default:		  want = 0; break;	/* system: any */
	    }
	    if ((want != 0 && log->err_no[last] != want) ||
		    log->err_no[last] == 0) {
		snprintf(sig, sizeof(sig), "errno-category:%s", who);
		vf_fail(r, sig, "%s reported \"%s\" with category %d and "
			"errno %d; vnaerr(3) pairs that category with errno "
			"%d; input \"%s\"", who, log->msg[last], cat,
			log->err_no[last], want, g_inesc);
		return;
	    }
	}
	if (last >= 0 && log->err_no[last] != e) {
	    snprintf(sig, sizeof(sig), "errno-mismatch:%s", who);
	    vf_fail(r, sig, "%s returned errno %d but its last error report "
		    "(\"%s\") was made with errno %d; input \"%s\"", who, e,
		    log->msg[last], log->err_no[last], g_inesc);
	    return;
	}
    }
    if (log->bad_format) {
	snprintf(sig, sizeof(sig), "errmsg-format:%s", who);
	vf_fail(r, sig, "%s passed an empty or multi-line message to the "
		"error callback (\"%s\"); input \"%s\"", who,
		log->count > 0 ? log->msg[0] : "", g_inesc);
    }
}

static void check_success_report(vf_result *r, const char *who,
	const vf_errlog *log)
{
    char sig[120];

    if (log->nonwarn > 0) {
	snprintf(sig, sizeof(sig), "error-then-success:%s", who);
	vf_fail(r, sig, "%s reported the error \"%s\" through the callback "
		"and then returned success; input \"%s\"", who,
		log->count <= VF_ERRLOG_MAX ? log->msg[0] : "?", g_inesc);
    } else if (log->bad_format) {
	snprintf(sig, sizeof(sig), "errmsg-format:%s", who);
	vf_fail(r, sig, "%s passed an empty or multi-line message to the "
		"error callback (\"%s\"); input \"%s\"", who,
		log->count > 0 ? log->msg[0] : "", g_inesc);
    }
}

static int write_file(const char *path, const char *b, int n)
{
    FILE *fp = fopen(path, "w");
    if (fp == NULL)
	return -1;
    if (n > 0 && fwrite(b, 1, (size_t)n, fp) != (size_t)n) {
	fclose(fp);
	return -1;
    }
    return fclose(fp);
}

/* ------------------------------------------------------------------ */
/* vnadata oracle                                                     */

static const char *const type_fmt[VPT_NTYPES] = {
    NULL, "Sri", "Tri", "Uri", "Zri", "Yri", "Hri", "Gri", "Ari", "Bri",
    "Zinri"
};

static int vd_dims_legal(int type, int rows, int cols)
{
    if (rows < 0 || cols < 0)
	return 0;
    switch (type) {
    case VPT_UNDEF:	return 1;
    case VPT_S: case VPT_Z: case VPT_Y:
	return rows == cols;
    case VPT_T: case VPT_U: case VPT_H: case VPT_G: case VPT_A: case VPT_B:
	return rows == 2 && cols == 2;
    case VPT_ZIN:	return rows == 1;
    default:		return 0;
    }
}

static double complex vd_z0(const vnadata_t *v, int f, int p)
{
    return vnadata_has_fz0(v) ? vnadata_get_fz0(v, f, p) : vnadata_get_z0(v, p);
}

/* read everything the getters expose; returns 0 if shape is illegal */
static int vd_touch(vf_result *r, const vnadata_t *v, const char *who)
{
    int type = (int)vnadata_get_type(v);
    int rows = vnadata_get_rows(v), cols = vnadata_get_columns(v);
    int nf = vnadata_get_frequencies(v);
    volatile double sink = 0;

    if (nf < 0 || !vd_dims_legal(type, rows, cols)) {
	vf_fail(r, "shape:vnadata", "%s: object has type %d with %d x %d "
		"cells and %d frequencies, which vnadata_init would refuse; "
		"input \"%s\"", who, type, rows, cols, nf, g_inesc);
	return 0;
    }
    /* what the getters of the settings say is what their setters take */
    if (vnadata_get_fprecision(v) < 1 || vnadata_get_dprecision(v) < 1) {
	vf_fail(r, "settings:vnadata", "%s: object has fprecision %d and "
		"dprecision %d; vnadata_set_fprecision / _dprecision take no "
		"value below 1 (vnadata_convert into another object then "
		"fails); input \"%s\"", who, vnadata_get_fprecision(v),
		vnadata_get_dprecision(v), g_inesc);
	return 0;
    }
    int ports = rows > cols ? rows : cols;
    for (int f = 0; f < nf; ++f) {
	sink += vnadata_get_frequency(v, f);
	for (int i = 0; i < rows; ++i)
	    for (int j = 0; j < cols; ++j)
		sink += creal(vnadata_get_cell(v, f, i, j));
	if (vnadata_has_fz0(v))
	    for (int p = 0; p < ports; ++p)
		sink += creal(vnadata_get_fz0(v, f, p));
    }
    if (!vnadata_has_fz0(v))
	for (int p = 0; p < ports; ++p)
	    sink += creal(vnadata_get_z0(v, p));
    (void)sink;
    return 1;
}

static const vnadata_t *g_hook_vd;
static vf_result *g_hook_r;
static void hook_touch(void)
{
    if (g_hook_vd != NULL && g_hook_r != NULL && g_hook_r->status != VF_VIOL)
	(void)vd_touch(g_hook_r, g_hook_vd, "read from inside the error "
		"callback of a failing load");
}

static int vd_equal(vf_result *r, const vnadata_t *a, const vnadata_t *b,
	const char *sig, const char *what, int rt)
{
    int type = (int)vnadata_get_type(a);
    int rows = vnadata_get_rows(a), cols = vnadata_get_columns(a);
    int nf = vnadata_get_frequencies(a);

    if (type != (int)vnadata_get_type(b) || rows != vnadata_get_rows(b) ||
	    cols != vnadata_get_columns(b) ||
	    nf != vnadata_get_frequencies(b)) {
	vf_fail(r, sig, "%s: type/rows/columns/frequencies %d/%d/%d/%d vs "
		"%d/%d/%d/%d; input \"%s\"", what, type, rows, cols, nf,
		(int)vnadata_get_type(b), vnadata_get_rows(b),
		vnadata_get_columns(b), vnadata_get_frequencies(b), g_inesc);
	return 0;
    }
    int ports = rows > cols ? rows : cols;
    for (int f = 0; f < nf; ++f) {
	if (!same_d(vnadata_get_frequency(a, f), vnadata_get_frequency(b, f))) {
	    vf_fail(r, sig, "%s: frequency[%d] %.17g vs %.17g; input \"%s\"",
		    what, f, vnadata_get_frequency(a, f),
		    vnadata_get_frequency(b, f), g_inesc);
	    return 0;
	}
	for (int i = 0; i < rows; ++i) {
	    for (int j = 0; j < cols; ++j) {
		double complex x = vnadata_get_cell(a, f, i, j);
		double complex y = vnadata_get_cell(b, f, i, j);
		if (!(rt ? same_rt(x, y) : same_c(x, y))) {
		    vf_fail(r, sig, "%s: cell[%d][%d][%d] %.17g%+.17gj vs "
			    "%.17g%+.17gj; input \"%s\"", what, f, i, j,
			    creal(x), cimag(x), creal(y), cimag(y), g_inesc);
		    return 0;
		}
	    }
	}
	for (int p = 0; p < ports; ++p) {
	    double complex x = vd_z0(a, f, p), y = vd_z0(b, f, p);
	    if (!(rt ? same_rt(x, y) : same_c(x, y))) {
		vf_fail(r, sig, "%s: z0 of port %d at frequency %d "
			"%.17g%+.17gj vs %.17g%+.17gj; input \"%s\"", what,
			p, f, creal(x), cimag(x), creal(y), cimag(y), g_inesc);
		return 0;
	    }
	}
    }
    if (nf == 0 && !vnadata_has_fz0(a) && !vnadata_has_fz0(b)) {
	for (int p = 0; p < ports; ++p) {
	    if (!same_c(vnadata_get_z0(a, p), vnadata_get_z0(b, p))) {
		vf_fail(r, sig, "%s: z0 of port %d differs; input \"%s\"",
			what, p, g_inesc);
		return 0;
	    }
	}
    }
    return 1;
}

static vnadata_t *vd_populated(vf_errlog *log)
{
    vnadata_t *v = vnadata_alloc_and_init(ERRFN, log, VPT_S, 1, 1, 2);
    if (v == NULL)
	return NULL;
    if (vnadata_set_frequency(v, 0, 1e6) == -1 ||
	    vnadata_set_frequency(v, 1, 2e6) == -1 ||
	    vnadata_set_cell(v, 0, 0, 0, 0.5 + 0.25 * I) == -1 ||
	    vnadata_set_cell(v, 1, 0, 0, -0.5 + 0.125 * I) == -1 ||
	    vnadata_set_fz0(v, 0, 0, 40.0) == -1 ||
	    vnadata_set_fz0(v, 1, 0, 60.0 + 1.0 * I) == -1) {
	vnadata_free(v);
	return NULL;
    }
    return v;
}

static void run_vnadata(ctx_t *c, const char *b, int n)
{
    vf_result *r = c->r;
    char inname[40], path[700], rtpath[700];
    vf_errlog la, lb, lc;
    unsigned long mark;

    snprintf(inname, sizeof(inname), "in.%s", c->ext);
    snprintf(path, sizeof(path), "%s", vf_tmp(inname));
    snprintf(rtpath, sizeof(rtpath), "%s", vf_tmp("rt.npd"));
    if (write_file(path, b, n) == -1) {
	vf_fail(r, "harness:write", "cannot write %s", path);
	return;
    }
    vf_errlog_reset(&la);
    vf_errlog_reset(&lb);
    vf_errlog_reset(&lc);
    mark = exec_begin();

    vnadata_t *A = vnadata_alloc(ERRFN, &la);
    vnadata_t *B = vd_populated(&lb);
    if (A == NULL || B == NULL || lb.count != 0) {
	vf_fail(r, "harness:populate", "cannot build the destination objects");
	vnadata_free(A);
	vnadata_free(B);
	vf_leak_discard(mark);
	return;
    }
    /* the callback reads the destination through every getter while the
       loader is still at work */
    g_hook_vd = A;
    g_hook_r = r;
    vf_errfn_hook = hook_touch;
    errno = 0;
    int rva = vnadata_load(A, path);
    int ea = errno;
    FILE *fp = fopen(path, "r");
    g_hook_vd = B;
    errno = 0;
    int rvb = vnadata_fload(B, fp, path);
    int eb = errno;
    vf_errfn_hook = NULL;
    g_hook_vd = NULL;
    fclose(fp);
    r->transitions += 2;

    if ((rva != 0 && rva != -1) || (rvb != 0 && rvb != -1)) {
	vf_fail(r, "retval:vnadata_load", "vnadata_load returned %d, "
		"vnadata_fload %d; input \"%s\"", rva, rvb, g_inesc);
    } else if (rva != rvb || (rva == -1 && ea != eb)) {
	vf_fail(r, "dest-dependent:vnadata_load", "same file: vnadata_load "
		"into a fresh object gives %d (errno %d), vnadata_fload into "
		"an object holding earlier data gives %d (errno %d); input "
		"\"%s\"", rva, ea, rvb, eb, g_inesc);
    } else if (rva == -1) {
	c->classes |= errno_class(ea);
	check_failure_report(r, "vnadata_load", ea, &la);
	if (r->status != VF_VIOL)
	    check_failure_report(r, "vnadata_fload", eb, &lb);
	/* destinations must still be usable */
	if (r->status != VF_VIOL && vd_touch(r, A, "after failed vnadata_load")
		&& vd_touch(r, B, "after failed vnadata_fload")) {
	    for (int k = 0; k < 2 && r->status != VF_VIOL; ++k) {
		vnadata_t *v = k ? B : A;
		if (vnadata_init(v, VPT_S, 2, 2, 1) != 0 ||
			vnadata_set_cell(v, 0, 1, 1, 1.0 + 2.0 * I) != 0 ||
			vnadata_get_cell(v, 0, 1, 1) != 1.0 + 2.0 * I ||
			vnadata_get_cell(v, 0, 0, 0) != 0.0) {
		    vf_fail(r, "unusable:vnadata_load", "after a failed load "
			    "the destination cannot be re-initialised and "
			    "used; input \"%s\"", g_inesc);
		}
	    }
	}
	if (c->is_seed && r->status != VF_VIOL) {
	    vf_fail(r, "seed-refused:vnadata_load", "valid %s file refused "
		    "(errno %d: %s)", c->seed->name, ea,
		    la.count > 0 ? la.msg[0] : "");
	}
    } else {
	c->classes |= RC_OK;
	++c->accepted;
	check_success_report(r, "vnadata_load", &la);
	if (r->status != VF_VIOL)
	    check_success_report(r, "vnadata_fload", &lb);
	if (r->status != VF_VIOL && vd_touch(r, A, "loaded object") &&
		vd_touch(r, B, "loaded object (fload)") &&
		vd_equal(r, A, B, "dest-dependent:vnadata_load",
		    "content after loading the same file depends on what the "
		    "destination held before (fresh vs used)", 0)) {
	    int type = (int)vnadata_get_type(A);
	    if (type == VPT_UNDEF) {
		vf_fail(r, "shape:vnadata", "load succeeded but the object "
			"has no parameter type; input \"%s\"", g_inesc);
	    } else if (vnadata_get_rows(A) >= 1 && vnadata_get_columns(A) >= 1
		    && vnadata_get_frequencies(A) >= 1) {
		/* save at full precision and load back */
		vnadata_t *D = vnadata_alloc(ERRFN, &lc);
		vf_errlog_reset(&la);
		/* first as loaded, with the parameter list the file gave
		   it: a loader that accepts a list accepts one the saver
		   can write for these dimensions */
		/* (NPD only: it is the family that carries every type and
		   dimension; a Touchstone loader may read what the Touchstone
		   saver does not write, e.g. five ports in version 1) */
		if (c->format == F_NPD &&
			vnadata_cksave(A, "as-loaded.npd") != 0) {
		    vf_fail(r, "resave:as-loaded", "loaded object cannot be "
			    "saved as NPD again with "
			    "the format it was loaded with, "
			    "\"%s\" (%s); input \"%s\"",
			    vnadata_get_format(A) ? vnadata_get_format(A) :
			    "(none)", la.count > 0 ? la.msg[0] : "?", g_inesc);
		} else
		if (D == NULL ||
			vnadata_set_format(A, type_fmt[type]) != 0 ||
			vnadata_set_fprecision(A, VNADATA_MAX_PRECISION) != 0 ||
			vnadata_set_dprecision(A, VNADATA_MAX_PRECISION) != 0 ||
			vnadata_save(A, rtpath) != 0) {
		    vf_fail(r, "resave:vnadata_save", "loaded object cannot "
			    "be saved as NPD %s (%s); input \"%s\"",
			    type_fmt[type], la.count > 0 ? la.msg[0] : "?",
			    g_inesc);
		} else if (vnadata_load(D, rtpath) != 0) {
		    vf_fail(r, "reload:vnadata_load", "NPD file written from "
			    "the loaded object does not load (%s); input "
			    "\"%s\"", lc.count > 0 ? lc.msg[0] : "?", g_inesc);
		} else {
		    (void)vd_equal(r, A, D, "roundtrip:vnadata",
			    "save/re-load changed the content", 1);
		}
		r->transitions += 2;
		vnadata_free(D);
	    }
	}
    }
    vnadata_free(A);
    vnadata_free(B);
    exec_end(r, mark, "vnadata_load");
}

/* ------------------------------------------------------------------ */
/* property trees                                                     */

static void mix(uint64_t *h, const void *p, size_t n)
{
    const unsigned char *b = p;
    for (size_t i = 0; i < n; ++i) {
	*h ^= b[i];
	*h *= 0x100000001b3ULL;
    }
}

/* digest of a property tree through the public getters; -1 on trouble */
static int prop_digest(const vnaproperty_t *p, uint64_t *h, int depth,
	long *nodes)
{
    if (++*nodes > 200000)
	return -1;
    if (depth > 2000)
	return -2;		/* too deep for this walker: not judged */
    if (p == NULL) {
	mix(h, "N", 1);
	return 0;
    }
    int t = vnaproperty_type(p, ".");
    switch (t) {
    case 's':
	{
	    const char *v = vnaproperty_get(p, ".");
	    if (v == NULL)
		return -1;
	    mix(h, "s", 1);
	    mix(h, v, strlen(v) + 1);
	    return 0;
	}
    case 'm':
	{
	    const char **keys = vnaproperty_keys(p, "{}");
	    int rc = 0;
	    if (keys == NULL)
		return -1;
	    mix(h, "m", 1);
	    for (const char **k = keys; *k != NULL && rc == 0; ++k) {
		char *q = vnaproperty_quote_key(*k);
		if (q == NULL) {
		    rc = -1;
		    break;
		}
		mix(h, *k, strlen(*k) + 1);
		rc = prop_digest(vnaproperty_get_subtree(p, "%s", q), h,
			depth + 1, nodes);
		vf_free(q);
	    }
	    mix(h, "e", 1);
	    vf_free((void *)keys);
	    return rc;
	}
    case 'l':
	{
	    int n = vnaproperty_count(p, "[]");
	    if (n < 0)
		return -1;
	    mix(h, "l", 1);
	    mix(h, &n, sizeof(n));
	    for (int i = 0; i < n; ++i) {
		int rc = prop_digest(vnaproperty_get_subtree(p, "[%d]", i),
			h, depth + 1, nodes);
		if (rc != 0)
		    return rc;
	    }
	    return 0;
	}
    default:
	return -1;
    }
}

static int prop_hash(const vnaproperty_t *p, uint64_t *h)
{
    long nodes = 0;
    int rc;
    *h = 0xcbf29ce484222325ULL;
    rc = prop_digest(p, h, 0, &nodes);
    if (rc == -2) {
	*h = 0;			/* every tree too deep to walk is alike */
	rc = 0;
    }
    return rc;
}

/* ------------------------------------------------------------------ */
/* vnacal oracle                                                      */

static doc_t seed_docs[sizeof(seeds) / sizeof(seeds[0])];

/*
 * When exactly one matrix key of a "data" entry was renamed to the unknown
 * key "zz:", the only matrix the loader can miss is the renamed one: the
 * "missing required matrix" report has to name it.
 */
static void vc_check_missing_name(ctx_t *c, const vf_errlog *log)
{
    static const char *const mkeys[] = { "el:", "er:", "em:", "ts:", "ti:",
	"tx:", "tm:", "um:", "ui:", "ux:", "us:", "e:", NULL };
    const kw_t *kw = kw_tables[F_VNACAL];
    const doc_t *d;
    const char *orig, *q;
    char named[16];
    int ismat = 0;

    if (c->level != 1 || c->kind != K_KW || c->seed == NULL ||
	    log->count < 1 || log->count > VF_ERRLOG_MAX)
	return;
    if (strcmp(kw[c->value_idx].text, "zz:") != 0)
	return;
    d = &seed_docs[c->seed_idx];
    orig = kw[d->kwidx[c->pos]].text;
    for (int i = 0; mkeys[i] != NULL; ++i)
	if (strcmp(mkeys[i], orig) == 0)
	    ismat = 1;
    if (!ismat)
	return;
    if ((q = strstr(log->msg[0], "missing required matrix \"")) == NULL)
	return;
    q += strlen("missing required matrix \"");
    size_t n = strcspn(q, "\"");
    if (n >= sizeof(named))
	return;
    memcpy(named, q, n);
    named[n] = '\0';
    if (strncmp(named, orig, strlen(orig) - 1) != 0 ||
	    named[strlen(orig) - 1] != '\0') {
	vf_fail(c->r, "errmsg-wrong-matrix:vnacal_load", "the only matrix "
		"missing from the file is \"%.*s\" (its key was renamed to "
		"zz) but vnacal_load reports: %s", (int)strlen(orig) - 1,
		orig, log->msg[0]);
    }
}

static int vc_dims_legal(int type, int rows, int cols)
{
    if (rows < 1 || cols < 1)
	return 0;
    switch (type) {
    case VNACAL_T8: case VNACAL_TE10: case VNACAL_T16:
	return rows <= cols;
    case VNACAL_U8: case VNACAL_UE10: case VNACAL_U16: case VNACAL_UE14:
    case VNACAL_E12:
	return rows >= cols;
    default:
	return 0;
    }
}

/* self-consistency of everything a loaded vnacal_t exposes */
static int vc_check(vf_result *r, vnacal_t *vcp, const char *who)
{
    int end = vnacal_get_calibration_end(vcp);
    volatile double sink = 0;
    uint64_t h;

    if (end < 0 || end > vcp->vc_calibration_allocation) {
	vf_fail(r, "shape:vnacal", "%s: vnacal_get_calibration_end gives %d "
		"with %d slots; input \"%s\"", who, end,
		vcp->vc_calibration_allocation, g_inesc);
	return 0;
    }
    if (prop_hash(vcp->vc_properties, &h) == -1) {
	vf_fail(r, "shape:vnacal-properties", "%s: global property tree "
		"cannot be walked; input \"%s\"", who, g_inesc);
	return 0;
    }
    for (int ci = 0; ci < end; ++ci) {
	vnacal_calibration_t *calp = vcp->vc_calibration_vector[ci];
	vnacal_layout_t vl;

	if (calp == NULL)
	    continue;
	int type = (int)calp->cal_type, rows = calp->cal_rows;
	int cols = calp->cal_columns, nf = calp->cal_frequencies;
	if (calp->cal_name == NULL || vnacal_get_name(vcp, ci) == NULL ||
		strcmp(vnacal_get_name(vcp, ci), calp->cal_name) != 0 ||
		(int)vnacal_get_type(vcp, ci) != type ||
		vnacal_get_rows(vcp, ci) != rows ||
		vnacal_get_columns(vcp, ci) != cols ||
		vnacal_get_frequencies(vcp, ci) != nf) {
	    vf_fail(r, "shape:vnacal", "%s: getters of calibration %d "
		    "disagree with the stored calibration; input \"%s\"",
		    who, ci, g_inesc);
	    return 0;
	}
	if (!vc_dims_legal(type, rows, cols) || nf < 0) {
	    vf_fail(r, "shape:vnacal-dimensions", "%s: calibration %d \"%s\" "
		    "has type %s with %d x %d measurement matrix and %d "
		    "frequencies, which vnacal_new_alloc would refuse; input "
		    "\"%s\"", who, ci, calp->cal_name,
		    vnacal_type_to_name((vnacal_type_t)type), rows, cols, nf,
		    g_inesc);
	    return 0;
	}
	_vnacal_layout(&vl, (vnacal_type_t)type, rows, cols);
	if (calp->cal_error_terms != VL_ERROR_TERMS(&vl)) {
	    vf_fail(r, "shape:vnacal", "%s: calibration %d has %d error "
		    "terms, layout of its type needs %d; input \"%s\"", who,
		    ci, calp->cal_error_terms, VL_ERROR_TERMS(&vl), g_inesc);
	    return 0;
	}
	const double *fv = vnacal_get_frequency_vector(vcp, ci);
	if (fv == NULL && nf > 0) {
	    vf_fail(r, "shape:vnacal", "%s: no frequency vector; input "
		    "\"%s\"", who, g_inesc);
	    return 0;
	}
	for (int f = 0; f < nf; ++f) {
	    if (!(fv[f] >= 0.0) || (f > 0 && !(fv[f] > fv[f - 1]))) {
		vf_fail(r, "shape:vnacal-frequencies", "%s: calibration %d "
			"frequency[%d] = %g after %g: not non-negative and "
			"strictly ascending; input \"%s\"", who, ci, f,
			fv[f], f > 0 ? fv[f - 1] : 0.0, g_inesc);
		return 0;
	    }
	    for (int t = 0; t < calp->cal_error_terms; ++t)
		sink += creal(calp->cal_error_term_vector[t][f]);
	}
	sink += creal(vnacal_get_z0(vcp, ci));
	if (nf > 0)
	    sink += vnacal_get_fmin(vcp, ci) + vnacal_get_fmax(vcp, ci);
	if (prop_hash(calp->cal_properties, &h) == -1) {
	    vf_fail(r, "shape:vnacal-properties", "%s: property tree of "
		    "calibration %d cannot be walked; input \"%s\"", who, ci,
		    g_inesc);
	    return 0;
	}
    }
    (void)sink;
    return 1;
}

static int vc_equal(vf_result *r, vnacal_t *a, vnacal_t *b)
{
    const char *sig = "roundtrip:vnacal";
    int end = vnacal_get_calibration_end(a);
    uint64_t ha, hb;

    if (end != vnacal_get_calibration_end(b)) {
	vf_fail(r, sig, "save/re-load: %d calibrations became %d; input "
		"\"%s\"", end, vnacal_get_calibration_end(b), g_inesc);
	return 0;
    }
    (void)prop_hash(a->vc_properties, &ha);
    (void)prop_hash(b->vc_properties, &hb);
    if (ha != hb) {
	vf_fail(r, sig, "save/re-load changed the global properties; input "
		"\"%s\"", g_inesc);
	return 0;
    }
    for (int ci = 0; ci < end; ++ci) {
	vnacal_calibration_t *x = a->vc_calibration_vector[ci];
	vnacal_calibration_t *y = b->vc_calibration_vector[ci];
	if ((x == NULL) != (y == NULL)) {
	    vf_fail(r, sig, "save/re-load: slot %d presence differs; input "
		    "\"%s\"", ci, g_inesc);
	    return 0;
	}
	if (x == NULL)
	    continue;
	if (strcmp(x->cal_name, y->cal_name) != 0 ||
		x->cal_type != y->cal_type || x->cal_rows != y->cal_rows ||
		x->cal_columns != y->cal_columns ||
		x->cal_frequencies != y->cal_frequencies ||
		x->cal_error_terms != y->cal_error_terms ||
		!same_rt(x->cal_z0, y->cal_z0)) {
	    vf_fail(r, sig, "save/re-load changed name/type/dimensions/z0 of "
		    "calibration %d (\"%s\" %s %dx%d f=%d z0=%g%+gj -> \"%s\" "
		    "%s %dx%d f=%d z0=%g%+gj); input \"%s\"", ci,
		    x->cal_name, vnacal_type_to_name(x->cal_type),
		    x->cal_rows, x->cal_columns, x->cal_frequencies,
		    creal(x->cal_z0), cimag(x->cal_z0),
		    y->cal_name, vnacal_type_to_name(y->cal_type),
		    y->cal_rows, y->cal_columns, y->cal_frequencies,
		    creal(y->cal_z0), cimag(y->cal_z0), g_inesc);
	    return 0;
	}
	for (int f = 0; f < x->cal_frequencies; ++f) {
	    if (!same_d(x->cal_frequency_vector[f],
			y->cal_frequency_vector[f])) {
		vf_fail(r, sig, "save/re-load changed frequency[%d] of "
			"calibration %d: %.17g -> %.17g; input \"%s\"", f, ci,
			x->cal_frequency_vector[f],
			y->cal_frequency_vector[f], g_inesc);
		return 0;
	    }
	    for (int t = 0; t < x->cal_error_terms; ++t) {
		double complex u = x->cal_error_term_vector[t][f];
		double complex v = y->cal_error_term_vector[t][f];
		if (!same_rt(u, v)) {
		    vf_fail(r, sig, "save/re-load changed error term %d at "
			    "frequency %d of calibration %d: %.17g%+.17gj -> "
			    "%.17g%+.17gj; input \"%s\"", t, f, ci, creal(u),
			    cimag(u), creal(v), cimag(v), g_inesc);
		    return 0;
		}
	    }
	}
	(void)prop_hash(x->cal_properties, &ha);
	(void)prop_hash(y->cal_properties, &hb);
	if (ha != hb) {
	    vf_fail(r, sig, "save/re-load changed the properties of "
		    "calibration %d; input \"%s\"", ci, g_inesc);
	    return 0;
	}
    }
    return 1;
}

static void run_vnacal(ctx_t *c, const char *b, int n)
{
    vf_result *r = c->r;
    char path[700], rtpath[700];
    vf_errlog la, lb;
    unsigned long mark;

    snprintf(path, sizeof(path), "%s", vf_tmp("in.vnacal"));
    snprintf(rtpath, sizeof(rtpath), "%s", vf_tmp("rt.vnacal"));
    if (write_file(path, b, n) == -1) {
	vf_fail(r, "harness:write", "cannot write %s", path);
	return;
    }
    vf_errlog_reset(&la);
    vf_errlog_reset(&lb);
    mark = exec_begin();
    errno = 0;
    vnacal_t *vcp = vnacal_load(path, ERRFN, &la);
    int e = errno;
    ++r->transitions;

    if (vcp == NULL) {
	c->classes |= errno_class(e);
	check_failure_report(r, "vnacal_load", e, &la);
	if (r->status != VF_VIOL)
	    vc_check_missing_name(c, &la);
	if (c->is_seed && r->status != VF_VIOL) {
	    vf_fail(r, "seed-refused:vnacal_load", "valid %s file refused "
		    "(errno %d: %s)", c->seed->name, e,
		    la.count > 0 ? la.msg[0] : "");
	}
    } else {
	c->classes |= RC_OK;
	++c->accepted;
	check_success_report(r, "vnacal_load", &la);
	if (r->status != VF_VIOL && vc_check(r, vcp, "loaded vnacal_t")) {
	    int end = vnacal_get_calibration_end(vcp), any = 0;
	    for (int ci = 0; ci < end; ++ci) {
		vnacal_calibration_t *calp = vcp->vc_calibration_vector[ci];
		if (calp != NULL && calp->cal_frequencies >= 1)
		    any = 1;
	    }
	    if (any) {
		vf_errlog_reset(&la);
		if (vnacal_set_fprecision(vcp, 17) != 0 ||
			vnacal_set_dprecision(vcp, 17) != 0 ||
			vnacal_save(vcp, rtpath) != 0) {
		    vf_fail(r, "resave:vnacal_save", "loaded calibration "
			    "cannot be saved (%s); input \"%s\"",
			    la.count > 0 ? la.msg[0] : "?", g_inesc);
		} else {
		    vnacal_t *v2 = vnacal_load(rtpath, ERRFN, &lb);
		    r->transitions += 2;
		    if (v2 == NULL) {
			vf_fail(r, "reload:vnacal_load", "file written by "
				"vnacal_save from the loaded calibration does "
				"not load (%s); input \"%s\"",
				lb.count > 0 ? lb.msg[0] : "?", g_inesc);
		    } else {
			if (vc_check(r, v2, "re-loaded vnacal_t"))
			    (void)vc_equal(r, vcp, v2);
			vnacal_free(v2);
		    }
		}
	    }
	}
	vnacal_free(vcp);
    }
    exec_end(r, mark, "vnacal_load");
}

/* ------------------------------------------------------------------ */
/* YAML property import oracle                                        */

static void run_yaml(ctx_t *c, const char *b, int n)
{
    vf_result *r = c->r;
    char path[700], rtpath[700];
    char *text;
    vf_errlog la, lb, lc;
    unsigned long mark;
    vnaproperty_t *ra = NULL, *rb = NULL, *rc = NULL;
    uint64_t ha = 0, hb = 0, hc = 0;

    snprintf(path, sizeof(path), "%s", vf_tmp("in.yaml"));
    snprintf(rtpath, sizeof(rtpath), "%s", vf_tmp("rt.yaml"));
    if (write_file(path, b, n) == -1) {
	vf_fail(r, "harness:write", "cannot write %s", path);
	return;
    }
    text = malloc((size_t)n + 1);
    memcpy(text, b, (size_t)n);
    text[n] = '\0';
    vf_errlog_reset(&la);
    vf_errlog_reset(&lb);
    vf_errlog_reset(&lc);
    mark = exec_begin();

    errno = 0;
    int rva = vnaproperty_import_yaml_from_string(&ra, text, ERRFN, &la);
    int ea = errno;
    /* the second destination already holds a tree: the manual page says
       that the import replaces any existing content */
    if (vnaproperty_set(&rb, "old[1].k=v") == -1 ||
	    vnaproperty_set(&rb, "other=w") == -1) {
	vf_fail(r, "harness:populate", "cannot build the destination tree");
	(void)vnaproperty_delete(&rb, ".");
	vf_leak_discard(mark);
	free(text);
	return;
    }
    FILE *fp = fopen(path, "r");
    errno = 0;
    int rvb = vnaproperty_import_yaml_from_file(&rb, fp, "in.yaml", ERRFN,
	    &lb);
    int eb = errno;
    fclose(fp);
    r->transitions += 2;

    if ((rva != 0 && rva != -1) || (rvb != 0 && rvb != -1)) {
	vf_fail(r, "retval:vnaproperty_import", "import returned %d / %d; "
		"input \"%s\"", rva, rvb, g_inesc);
    } else if (rva != rvb || (rva == -1 && ea != eb)) {
	vf_fail(r, "string-vs-file:vnaproperty_import", "same text: "
		"import_yaml_from_string gives %d (errno %d), from_file %d "
		"(errno %d); input \"%s\"", rva, ea, rvb, eb, g_inesc);
    } else if (rva == -1) {
	c->classes |= errno_class(ea);
	check_failure_report(r, "vnaproperty_import_yaml_from_string", ea,
		&la);
	if (r->status != VF_VIOL)
	    check_failure_report(r, "vnaproperty_import_yaml_from_file", eb,
		    &lb);
	if (c->is_seed && r->status != VF_VIOL) {
	    vf_fail(r, "seed-refused:vnaproperty_import", "valid %s document "
		    "refused (errno %d: %s)", c->seed->name, ea,
		    la.count > 0 ? la.msg[0] : "");
	}
    } else {
	c->classes |= RC_OK;
	++c->accepted;
	check_success_report(r, "vnaproperty_import_yaml_from_string", &la);
	if (r->status != VF_VIOL)
	    check_success_report(r, "vnaproperty_import_yaml_from_file", &lb);
	if (r->status != VF_VIOL) {
	    if (prop_hash(ra, &ha) == -1 || prop_hash(rb, &hb) == -1) {
		vf_fail(r, "shape:vnaproperty", "imported tree cannot be "
			"walked with the getters; input \"%s\"", g_inesc);
	    } else if (ha != hb) {
		vf_fail(r, "dest-dependent:vnaproperty_import", "same text "
			"imported from string into an empty root and from "
			"file into a root that held a tree gives different "
			"trees (vnaproperty(3): the import replaces any "
			"existing content); input \"%s\"", g_inesc);
	    } else {
		/* export and re-import */
		FILE *out = fopen(rtpath, "w");
		int rv = vnaproperty_export_yaml_to_file(ra, out, "rt.yaml",
			ERRFN, &lc);
		fclose(out);
		++r->transitions;
		if (rv != 0) {
		    vf_fail(r, "resave:vnaproperty_export", "imported tree "
			    "cannot be exported (%s); input \"%s\"",
			    lc.count > 0 ? lc.msg[0] : "?", g_inesc);
		} else {
		    FILE *in = fopen(rtpath, "r");
		    vf_errlog_reset(&lc);
		    rv = vnaproperty_import_yaml_from_file(&rc, in, "rt.yaml",
			    ERRFN, &lc);
		    fclose(in);
		    ++r->transitions;
		    if (rv != 0) {
			vf_fail(r, "reload:vnaproperty_import", "exported "
				"document does not import (%s); input \"%s\"",
				lc.count > 0 ? lc.msg[0] : "?", g_inesc);
		    } else if (prop_hash(rc, &hc) == -1 || hc != ha) {
			vf_fail(r, "roundtrip:vnaproperty", "export/re-import "
				"changed the tree; input \"%s\"", g_inesc);
		    }
		}
	    }
	}
    }
    /* whatever was built must be freeable by the caller */
    (void)vnaproperty_delete(&ra, ".");
    (void)vnaproperty_delete(&rb, ".");
    (void)vnaproperty_delete(&rc, ".");
    if (r->status != VF_VIOL && (ra != NULL || rb != NULL || rc != NULL))
	vf_fail(r, "unusable:vnaproperty", "vnaproperty_delete(&root, \".\") "
		"left a non-NULL root; input \"%s\"", g_inesc);
    exec_end(r, mark, "vnaproperty_import");
    free(text);
}

/* ------------------------------------------------------------------ */
/* running one input                                                  */

static void run_input(ctx_t *c, const char *b, int n, int value_idx)
{
    vf_result *r = c->r;

    if (r->status == VF_VIOL)
	return;			/* first violation wins; stop the case */
    escape(b, n, g_inesc, (int)sizeof(g_inesc));
    if (c->seed != NULL)
	vf_desc(r, "seed %s, level %d, %s at position %ld (value #%d); "
		"input \"%.330s\"", c->seed->name, c->level, c->what, c->pos,
		value_idx, g_inesc);
    else
	vf_desc(r, "%s; input \"%.330s\"", c->what, g_inesc);
    if (vf_verbose)
	vf_note("  input: \"%s\"", g_inesc);
    ++c->inputs;
    c->value_idx = value_idx;
    switch (c->format) {
    case F_TS:
    case F_NPD:
	run_vnadata(c, b, n);
	break;
    case F_VNACAL:
	run_vnacal(c, b, n);
	break;
    default:
	run_yaml(c, b, n);
	break;
    }
}

/* ------------------------------------------------------------------ */
/* case table                                                         */

enum { CT_SEED, CT_DEV1, CT_DEV2, CT_SHORT, CT_DEEP };

/* deeply nested documents: shape x depth, built at run time */
#define NDEEP_SHAPE 6
static const int deep_n[3] = { 900, 1100, 40000 };

typedef struct kase {
    int type;
    int seed;
    int kind;
    long lo, hi;		/* positions [lo,hi) / string index range */
    int variant;		/* CT_SHORT: loader variant */
} kase_t;

static kase_t *cases;
static long ncases, cases_alloc;

static void add_case(int type, int seed, int kind, long lo, long hi, int var)
{
    if (ncases >= cases_alloc) {
	cases_alloc = cases_alloc ? cases_alloc * 2 : 4096;
	cases = realloc(cases, (size_t)cases_alloc * sizeof(kase_t));
    }
    cases[ncases++] = (kase_t){ type, seed, kind, lo, hi, var };
}

/* short strings: loader variants = (format, ext, prefix, alphabet) */
typedef struct svar {
    const char *name;
    int format;
    const char *ext;
    const char *prefix;
    const char *alphabet;	/* 9 symbols */
} svar_t;

static const svar_t svars[] = {
    { "touchstone .s2p, raw", F_TS, "s2p", "", "#![] \n1R-" },
    { "touchstone .ts, raw", F_TS, "ts", "", "#![] \n1R-" },
    { "touchstone .s1p after option line", F_TS, "s1p",
	"# HZ S RI R 50\n", "#![ \n1R-." },
    { "touchstone .ts after version and option line", F_TS, "ts",
	"[Version] 2.0\n# HZ S RI R 50\n", "#![] \n1R-" },
    { "touchstone .ts after complete V2 header", F_TS, "ts",
	"[Version] 2.0\n# HZ S RI\n[Number of Ports] 1\n"
	"[Number of Frequencies] 1\n[Network Data]\n", "#![] \n1E-" },
    { "npd, raw", F_NPD, "npd", "", "#: \n1pj-." },
    { "npd after header", F_NPD, "npd",
	"#:ports 1\n#:frequencies 1\n#:parameters Sri\n", "#: \n1zj-." },
    { "vnacal, raw", F_VNACAL, "vnacal", "", "#V:- \n1[~" },
    { "vnacal after version line", F_VNACAL, "vnacal", "#VNACal 1.0\n",
	"[]:- \na~{" },
    { "vnacal inside calibrations", F_VNACAL, "vnacal",
	"#VNACal 1.0\ncalibrations:\n", "[]:- \nd~1" },
    { "yaml, flow/block alphabet", F_YAML, "yaml", "", "[]:- \na~," },
    { "yaml, map/anchor alphabet", F_YAML, "yaml", "", "{}:&*a \n." },
    { "yaml, quoting alphabet", F_YAML, "yaml", "", "\"':|>a \n#" },
};
#define NSVARS ((int)(sizeof(svars) / sizeof(svars[0])))
#define SHORT_CHUNK 243

static long nshort(int tier)
{
    int L = tier ? 5 : 4;
    long n = 0, p = 1;
    for (int i = 0; i <= L; ++i) {
	n += p;
	p *= 9;
    }
    return n;
}

static void short_string(long idx, const char *alpha, char *out, int *len)
{
    long p = 1;
    int L = 0;
    while (idx >= p) {
	idx -= p;
	p *= 9;
	++L;
    }
    for (int i = L - 1; i >= 0; --i) {
	out[i] = alpha[idx % 9];
	idx /= 9;
    }
    *len = L;
}

static int g_tier_built = -1;

static void build_cases(int tier)
{
    if (g_tier_built == tier)
	return;
    g_tier_built = tier;
    ncases = 0;

    /* the checked-in legacy calibration file */
    if (vc_checked_in[0] == '\0') {
	char path[600];
	const char *repo = getenv("VERIF_REPO");
	snprintf(path, sizeof(path), "%s/src/tests/compat-V2.vnacal",
		repo && *repo ? repo : "/repo");
	FILE *fp = fopen(path, "r");
	size_t k = 0;
	if (fp != NULL) {
	    k = fread(vc_checked_in, 1, sizeof(vc_checked_in) - 1, fp);
	    fclose(fp);
	}
	vc_checked_in[k] = '\0';
	if (k == 0)
	    snprintf(vc_checked_in, sizeof(vc_checked_in), "%s", vc_legacy);
    }
    for (int s = 0; s < NSEEDS; ++s) {
	const seed_t *sd = &seeds[s];
	doc_t *d = &seed_docs[s];
	doc_parse(d, sd->format, sd->text, (int)strlen(sd->text));
	add_case(CT_SEED, s, 0, 0, 1, 0);
	if (sd->flags & SF_ALONE)
	    continue;
	for (int k = 0; k < NKINDS; ++k) {
	    long n = dev_count(d, k);
	    long chunk = (k == K_KW || k == K_YSUB || k == K_REDECL ||
		    k == K_LINEINS) ? 2 : (k == K_NUM) ? 4 : 12;
	    if ((sd->flags & SF_LIGHT) && !(k == K_TRUNC || k == K_LINEDEL ||
			k == K_LINEDUP || k == K_LINESWAP))
		continue;
	    if ((k == K_YSUB) && sd->format != F_VNACAL &&
		    sd->format != F_YAML)
		continue;
	    if ((k == K_REDECL || k == K_HDRMOVE) && sd->format == F_YAML)
		continue;
	    for (long lo = 0; lo < n; lo += chunk)
		add_case(CT_DEV1, s, k, lo, lo + chunk < n ? lo + chunk : n,
			0);
	}
	if (tier && (sd->flags & SF_L2)) {
	    for (int k = 0; k < NKINDS; ++k) {
		long n = dev_count(d, k);
		if ((k == K_YSUB) && sd->format != F_VNACAL &&
			sd->format != F_YAML)
		    continue;
		if (k == K_LINEINS)
		    continue;		/* level 1 only */
		for (long p = 0; p < n; ++p)
		    add_case(CT_DEV2, s, k, p, p + 1, 0);
	    }
	}
    }
    for (int sh = 0; sh < NDEEP_SHAPE; ++sh)
	for (int d = 0; d < 3; ++d)
	    add_case(CT_DEEP, -1, sh, d, d + 1, 0);
    long ns = nshort(tier);
    for (int v = 0; v < NSVARS; ++v)
	for (long lo = 0; lo < ns; lo += SHORT_CHUNK)
	    add_case(CT_SHORT, -1, 0, lo, lo + SHORT_CHUNK < ns ?
		    lo + SHORT_CHUNK : ns, v);
}

static void init(int tier)
{
    build_cases(tier);
}

static long count(int tier)
{
    build_cases(tier);
    return ncases;
}

/* ------------------------------------------------------------------ */

static void emit_run(void *vctx, const char *buf, int len, int value_idx)
{
    ctx_t *c = vctx;

    if (c->seed != NULL && len == (int)strlen(c->seed->text) &&
	    memcmp(buf, c->seed->text, (size_t)len) == 0)
	return;			/* no-op deviation */
    if (len > MAXTEXT)
	return;
    run_input(c, buf, len, value_idx);
}

/* level 2: every deviation of the once-mutated text */
static doc_t g_doc2;
static obuf_t g_ob1, g_ob2;
static char g_what2[160];

static void emit_level2(void *vctx, const char *buf, int len, int value_idx)
{
    ctx_t *c = vctx;
    static char first[MAXTEXT + 1];

    if (len > MAXTEXT || c->r->status == VF_VIOL)
	return;
    memcpy(first, buf, (size_t)len);
    first[len] = '\0';
    doc_parse(&g_doc2, c->format, first, len);
    for (int k = 0; k < NKINDS; ++k) {
	if (k == K_YSUB && c->format != F_VNACAL && c->format != F_YAML)
	    continue;
	long n = dev_count(&g_doc2, k);
	for (long p = 0; p < n && c->r->status != VF_VIOL; ++p) {
	    ctx_t c2 = *c;
	    snprintf(g_what2, sizeof(g_what2), "%s (value #%d) then %s at "
		    "%ld", c->what, value_idx, kind_names[k], p);
	    c2.what = g_what2;
	    c2.inputs = c2.accepted = 0;
	    c2.classes = 0;
	    dev_apply(&g_doc2, k, p, emit_run, &c2, &g_ob2);
	    c->inputs += c2.inputs;
	    c->accepted += c2.accepted;
	    c->classes |= c2.classes;
	}
    }
}

static const char *const fmt_names[NFORMATS] = {
    "touchstone", "npd", "vnacal", "yaml"
};

static void run(int tier, long idx, vf_result *r)
{
    build_cases(tier);
    const kase_t *k = &cases[idx];
    ctx_t c;
    struct timespec t0, t1;

    clock_gettime(CLOCK_MONOTONIC, &t0);

    memset(&c, 0, sizeof(c));
    c.r = r;
    c.kind = -1;
    mut_level2 = k->type == CT_DEV2;
    switch (k->type) {
    case CT_SEED:
	{
	    const seed_t *sd = &seeds[k->seed];
	    c.seed = sd;
	    c.format = sd->format;
	    c.ext = sd->ext;
	    c.what = "unmodified seed";
	    c.level = 0;
	    c.is_seed = !(sd->flags & SF_PROBE);
	    run_input(&c, sd->text, (int)strlen(sd->text), 0);
	}
	break;

    case CT_DEV1:
    case CT_DEV2:
	{
	    const seed_t *sd = &seeds[k->seed];
	    c.seed = sd;
	    c.format = sd->format;
	    c.ext = sd->ext;
	    c.what = kind_names[k->kind];
	    c.level = k->type == CT_DEV1 ? 1 : 2;
	    c.kind = k->type == CT_DEV1 ? k->kind : -1;
	    c.seed_idx = k->seed;
	    for (long p = k->lo; p < k->hi && r->status != VF_VIOL; ++p) {
		c.pos = p;
		dev_apply(&seed_docs[k->seed], k->kind, p,
			k->type == CT_DEV1 ? emit_run : emit_level2, &c,
			&g_ob1);
	    }
	}
	break;

    case CT_DEEP:
	{
	    /*
	     * collections nested 900, 1100 and 40000 deep: a flow
	     * sequence, a flow mapping, a block sequence on one line, and
	     * the same flow sequence as the properties of a calibration
	     * file.  Accepted or refused, never a stack overflow.
	     */
	    static const char *const shn[NDEEP_SHAPE] = {
		"flow sequences", "flow mappings", "block sequences",
		"flow sequences as calibration-file properties",
		"levels named by dotted map keys of 100 components",
		"levels named by one dotted map key" };
	    static char what[120];
	    int n = deep_n[k->lo], sh = k->kind;
	    if (sh == 5)
		n *= 10;	/* freeing such a tree needs the deeper stack */
	    size_t cap = (size_t)n * 8 + 1024, len = 0;
	    char *buf = malloc(cap);
	    if (buf == NULL)
		break;
	    if (sh == 3) {
		len += (size_t)sprintf(buf, "#VNACal 1.0\n%%YAML 1.1\n---\n"
			"properties: ");
	    }
	    if (sh == 0 || sh == 3) {
		memset(buf + len, '[', (size_t)n); len += (size_t)n;
		memset(buf + len, ']', (size_t)n); len += (size_t)n;
	    } else if (sh == 1) {
		for (int i = 0; i < n; ++i) {
		    memcpy(buf + len, "{a: ", 4); len += 4;
		}
		buf[len++] = '1';
		memset(buf + len, '}', (size_t)n); len += (size_t)n;
	    } else if (sh == 5) {
		/* one key a.a. ... .a of n components */
		buf[len++] = '?'; buf[len++] = ' ';
		for (int j = 0; j < n; ++j) {
		    buf[len++] = 'a';
		    if (j + 1 < n)
			buf[len++] = '.';
		}
		buf[len++] = '\n'; buf[len++] = ':'; buf[len++] = ' ';
		buf[len++] = '1';
	    } else if (sh == 4) {
		/* n / 100 flow mappings whose keys are a.a. ... .a */
		int d = n / 100;
		for (int i = 0; i < d; ++i) {
		    buf[len++] = '{';
		    for (int j = 0; j < 100; ++j) {
			buf[len++] = 'a';
			buf[len++] = j < 99 ? '.' : ':';
		    }
		    buf[len++] = ' ';
		}
		buf[len++] = '1';
		memset(buf + len, '}', (size_t)d); len += (size_t)d;
	    } else {
		for (int i = 0; i < n; ++i) {
		    buf[len++] = '-'; buf[len++] = ' ';
		}
		buf[len++] = 'x';
	    }
	    buf[len++] = '\n';
	    if (sh == 3)
		len += (size_t)sprintf(buf + len, "calibrations: []\n");
	    snprintf(what, sizeof(what), "%d %s nested in one another", n,
		    shn[sh]);
	    c.format = sh == 3 ? F_VNACAL : F_YAML;
	    c.ext = sh == 3 ? "vnacal" : "yaml";
	    c.what = what;
	    c.pos = n;
	    run_input(&c, buf, (int)len, 0);
	    free(buf);
	}
	break;

    default:
	{
	    const svar_t *sv = &svars[k->variant];
	    static char buf[512];
	    int pl = (int)strlen(sv->prefix);
	    c.format = sv->format;
	    c.ext = sv->ext;
	    c.what = sv->name;
	    memcpy(buf, sv->prefix, (size_t)pl);
	    for (long i = k->lo; i < k->hi && r->status != VF_VIOL; ++i) {
		int L;
		short_string(i, sv->alphabet, buf + pl, &L);
		c.pos = i;
		run_input(&c, buf, pl + L, 0);
	    }
	}
	break;
    }
    if (getenv("C09_TIMING") != NULL) {
	clock_gettime(CLOCK_MONOTONIC, &t1);
	double dt = (double)(t1.tv_sec - t0.tv_sec) +
	    1e-9 * (double)(t1.tv_nsec - t0.tv_nsec);
	if (dt > 0.1)
	    fprintf(stdout, "C09_TIMING case %ld type %d seed %d kind %d: "
		    "%ld inputs %.3f s\n", idx, k->type, k->seed, k->kind,
		    c.inputs, dt);
    }
    r->states = c.inputs;
    r->nontrivial = c.inputs > 0;
    {
	char cls[8];
	int n = 0;
	if (c.classes & RC_OK) cls[n++] = 'O';
	if (c.classes & RC_SYNTAX) cls[n++] = 'S';
	if (c.classes & RC_VERSION) cls[n++] = 'V';
	if (c.classes & RC_INVAL) cls[n++] = 'I';
	if (c.classes & RC_NOMEM) cls[n++] = 'M';
	if (c.classes & RC_OTHER) cls[n++] = '?';
	cls[n] = '\0';
	vf_outcome(r, "%s %s:%s", fmt_names[c.format],
		k->type == CT_SEED ? "seed" : k->type == CT_SHORT ? "short" :
		k->type == CT_DEV2 ? "pairs" : k->type == CT_DEEP ? "deep" :
		kind_names[k->kind],
		n ? cls : "-");
    }
}

vf_driver vf_drv = {
    .property = "C09",
    .rule = "case = (seed file, deviation kind, position range) with the "
	"loop over replacement values inside, or a block of 243 short byte "
	"strings for one loader/prefix variant; every generated input is "
	"written to a file and loaded by the real loader(s) (vnadata_load "
	"into a fresh object and vnadata_fload into a used one, vnacal_load, "
	"vnaproperty_import_yaml_from_string and _from_file), judged by the "
	"accept/reject oracle (return value, errno, error callback, leak "
	"accounting, self-consistency, save/re-load equality); deviations "
	"that reproduce the seed byte for byte are skipped; a case is "
	"non-trivial when at least one input was loaded and judged; "
	"'states' = inputs judged, 'transitions' = loader/saver calls; "
	"outcome letters: O accepted, S EBADMSG, V ENOPROTOOPT, I EINVAL, "
	"M ENOMEM",
    .count = count,
    .run = run,
    .init = init,
    .timeout_s = 40.0,
};
