/*
 * C03: no API call sequence corrupts memory, invokes undefined behaviour or
 * leaks; invalid arguments get the documented failure value, never a crash.
 *
 * Part A (argument-domain sweep): for every entry of the function table
 * (c03_table.h) the fully valid call, every single deviation of one argument
 * to a value of its boundary domain and (thorough) every pair of deviations,
 * each on a freshly built rich fixture.
 * Part B: every vnaconv function once with separate and aliased buffers.
 * Part C (short histories): every ordered pair (thorough: triple) of
 * state-changing operations on the rich fixture, then teardown.
 * Part D (property-tree histories): every sequence of 3 (thorough: 4) of 26
 * set / delete / set_subtree / copy calls on a small tree, then walk, copy,
 * delete.
 * Part E (degenerate vnadata objects): 12 routes to a boundary shape x 11
 * types x 22 operations (saves to every file family, conversions, setters,
 * resize, load).
 * Part F (fresh calibration objects): 7 early states x 8 types x 4 shapes x
 * 18 operations.
 * Oracle: process survives, ASan/UBSan silent, call returns, invalid calls
 * return the documented failure value, after the free functions the
 * allocation accounting is back at the baseline.  No numeric oracle.
 */
#include "c03_calls.h"

/* ---- history operations ---------------------------------------------- */
typedef int op_fn(fx_t *F);	/* returns the library's int result, or 0 */
#define OP(nm) static int op_##nm(fx_t *F)
#define NEED(x) do { if (!(x)) return 0; } while (0)
#define P2I(p) ((p) != NULL ? 0 : -1)

OP(add_reflect)   { NEED(F->vnpL); return vnacal_new_add_single_reflect_m(F->vnpL, F->mp, 2, 2, VNACAL_SHORT, 2); }
OP(add_through)   { NEED(F->vnpL); return vnacal_new_add_through_m(F->vnpL, F->mp, 2, 2, 1, 2); }
OP(add_double_ab) { NEED(F->vnpL); return vnacal_new_add_double_reflect(F->vnpL, F->ap, 2, 2, F->mp, 2, 2, VNACAL_OPEN, F->p_scalar, 1, 2); }
OP(add_line_unk)  { NEED(F->vnpL); return vnacal_new_add_line_m(F->vnpL, F->mp, 2, 2, F->s4u, 1, 2); }
OP(add_mapped)    { NEED(F->vnpL); return vnacal_new_add_mapped_matrix_m(F->vnpL, F->mp, 2, 2, F->s4, 2, 2, NULL); }
OP(add_bad_param) { NEED(F->vnpL); return vnacal_new_add_double_reflect_m(F->vnpL, F->mp, 2, 2, F->p_corr, F->p_stale, 1, 2); }
OP(add_rect)      { NEED(F->vnpR); return vnacal_new_add_through_m(F->vnpR, F->mp, 1, 2, 1, 2); }
OP(complete_L)
{
    NEED(F->vnpL);
    for (int k = 4; k < c3_scA.nstd; ++k)
	if (cs_add_std(F->vnpL, &c3_scA, k) != 0)
	    return -1;
    return 0;
}
OP(solve_L)       { NEED(F->vnpL); return vnacal_new_solve(F->vnpL); }
OP(solve_S)       { NEED(F->vnpS); return vnacal_new_solve(F->vnpS); }
OP(solve_R)       { NEED(F->vnpR); return vnacal_new_solve(F->vnpR); }
OP(addcal_S)      { NEED(F->vnpS); return vnacal_add_calibration(F->vcp, "calA", F->vnpS); }
OP(addcal_S_new)  { NEED(F->vnpS); return vnacal_add_calibration(F->vcp, "calD", F->vnpS); }
OP(addcal_L)      { NEED(F->vnpL); return vnacal_add_calibration(F->vcp, "calL", F->vnpL); }
OP(delcal_A)      { return vnacal_delete_calibration(F->vcp, F->ciA); }
OP(delcal_B)      { return vnacal_delete_calibration(F->vcp, F->ciB); }
OP(delpar_scalar) { return vnacal_delete_parameter(F->vcp, F->p_scalar); }
OP(delpar_unknown){ return vnacal_delete_parameter(F->vcp, F->p_unknown); }
OP(delpar_vector) { return vnacal_delete_parameter(F->vcp, F->p_vector); }
OP(delpar_corr)   { return vnacal_delete_parameter(F->vcp, F->p_corr); }
OP(make_unknown)  { int p = vnacal_make_unknown_parameter(F->vcp, F->p_vector); if (p >= 0) F->p_new = p; return p < 0 ? -1 : 0; }
OP(make_corr_new) { int p = vnacal_make_correlated_parameter(F->vcp, F->p_new >= 0 ? F->p_new : F->p_scalar, F->f5, 5, F->sig5); return p < 0 ? -1 : 0; }
OP(make_corr_null)
{
    /* documented special case: NULL sigma frequency vector borrows the grid
       of the vector parameter the chain of "other" parameters ends in */
    int p = vnacal_make_correlated_parameter(F->vcp,
	    F->p_new >= 0 ? F->p_new : F->p_vector, NULL, 5, F->sig5);
    if (p >= 0) {
	for (int k = 0; k < 5; ++k)
	    (void)vnacal_get_parameter_value(F->vcp, p, F->f5[k]);
	F->p_new = p;
    }
    return p < 0 ? -1 : 0;
}
OP(delpar_new)    { return vnacal_delete_parameter(F->vcp, F->p_new >= 0 ? F->p_new : F->p_stale); }
OP(free_L)        { NEED(F->vnpL); vnacal_new_free(F->vnpL); F->vnpL = NULL; return 0; }
OP(free_S)        { NEED(F->vnpS); vnacal_new_free(F->vnpS); F->vnpS = NULL; return 0; }
OP(save)          { return vnacal_save(F->vcp, F->path_cal); }
OP(load)
{
    vnacal_t *p = vnacal_load(F->path_cal, (vnaerr_error_fn_t *)vf_errfn,
	    &F->elog);
    if (F->vcp2 != NULL)
	vnacal_free(F->vcp2);
    F->vcp2 = p;
    return P2I(p);
}
OP(apply_A)       { NEED(F->vdo); return vnacal_apply_m(F->vcp, F->ciA, F->f3, 3, F->mp, 2, 2, F->vdo); }
OP(apply_B_ab)    { NEED(F->vdo); return vnacal_apply(F->vcp, F->ciB, F->f3, 3, F->ap, 1, 2, F->mp, 2, 2, F->vdo); }
OP(apply_loaded)  { NEED(F->vcp2 && F->vdo); return vnacal_apply_m(F->vcp2, 0, F->f3, 2, F->mp, 2, 2, F->vdo); }
OP(set_m_error)   { NEED(F->vnpL); return vnacal_new_set_m_error(F->vnpL, F->f5, 5, F->sig5, F->sig5); }
OP(set_fvec)      { NEED(F->vnpL); return vnacal_new_set_frequency_vector(F->vnpL, F->f3); }
OP(new_zero_f)
{
    /* a calibration with zero frequencies is accepted by vnacal_new_alloc */
    double *fz = malloc(1);
    vnacal_new_t *p = vnacal_new_alloc(F->vcp, VNACAL_T8, 1, 1, 0);
    int rc = -1;
    if (p != NULL) {
	rc = vnacal_new_set_frequency_vector(p, fz);
	(void)vnacal_new_add_single_reflect_m(p, F->mp, 1, 1, VNACAL_SHORT, 1);
	(void)vnacal_new_add_single_reflect_m(p, F->mp, 1, 1, VNACAL_OPEN, 1);
	(void)vnacal_new_add_single_reflect_m(p, F->mp, 1, 1, VNACAL_MATCH, 1);
	if (vnacal_new_solve(p) == 0) {
	    int ci = vnacal_add_calibration(F->vcp, "zero-f", p);
	    if (ci >= 0 && (ci = vnacal_find_calibration(F->vcp,
			    "zero-f")) >= 0) {
		(void)vnacal_get_fmin(F->vcp, ci);
		(void)vnacal_get_fmax(F->vcp, ci);
		(void)vnacal_apply_m(F->vcp, ci, fz, 0, F->mp, 1, 1, F->vdo);
	    }
	}
    }
    free(fz);
    return rc;
}
/* the shared unknowns at and between the frequencies of every object: a
   solved unknown is tabulated on the grid of the solve that stored it, so
   reading it between points after each solve walks whatever the library
   remembers about the previous table (search hints, segment caches) */
static void read_shared(fx_t *F)
{
    for (int k = 0; k < 5; ++k) {
	(void)vnacal_get_parameter_value(F->vcp, F->p_shared, F->f5[k]);
	(void)vnacal_get_parameter_value(F->vcp, F->p_sharedc, F->f5[k]);
    }
    for (int k = 4; k > 0; --k) {
	double fm = 0.5 * (F->f5[k] + F->f5[k - 1]);
	(void)vnacal_get_parameter_value(F->vcp, F->p_shared, fm);
	(void)vnacal_get_parameter_value(F->vcp, F->p_sharedc, fm);
    }
    /* leave the last look-up high in the band */
    (void)vnacal_get_parameter_value(F->vcp, F->p_shared,
	    0.3 * F->f5[3] + 0.7 * F->f5[4]);
    (void)vnacal_get_parameter_value(F->vcp, F->p_sharedc,
	    0.3 * F->f5[3] + 0.7 * F->f5[4]);
}
OP(solve_A3)      { NEED(F->vnpA3); int rc = vnacal_new_solve(F->vnpA3); read_shared(F); return rc; }
OP(solve_A5)      { NEED(F->vnpA5); int rc = vnacal_new_solve(F->vnpA5); read_shared(F); return rc; }
OP(solve_A1)      { NEED(F->vnpA1); int rc = vnacal_new_solve(F->vnpA1); read_shared(F); return rc; }
OP(getval_shared)
{
    read_shared(F);
    (void)vnacal_get_parameter_value(F->vcp, F->p_unknown, F->f3[1]);
    return 0;
}
OP(delpar_shared) { return vnacal_delete_parameter(F->vcp, F->p_shared); }
OP(delpar_sharedc){ return vnacal_delete_parameter(F->vcp, F->p_sharedc); }
OP(free_A3)       { NEED(F->vnpA3); vnacal_new_free(F->vnpA3); F->vnpA3 = NULL; return 0; }
OP(free_A5)       { NEED(F->vnpA5); vnacal_new_free(F->vnpA5); F->vnpA5 = NULL; return 0; }
OP(free_A1)       { NEED(F->vnpA1); vnacal_new_free(F->vnpA1); F->vnpA1 = NULL; return 0; }
OP(addcal_A5)     { NEED(F->vnpA5); return vnacal_add_calibration(F->vcp, "calA5", F->vnpA5); }
OP(merr_T16)      { NEED(F->vnpT16); return vnacal_new_set_m_error(F->vnpT16, F->f5, 5, F->sig5, NULL); }
OP(add_T16)       { NEED(F->vnpT16); return vnacal_new_add_single_reflect_m(F->vnpT16, F->mp, 2, 2, VNACAL_OPEN, 2); }
OP(merr_A5)       { NEED(F->vnpA5); return vnacal_new_set_m_error(F->vnpA5, NULL, 1, F->sig5, NULL); }
OP(gprop_set)     { return vnacal_property_set(F->vcp, -1, "g.list[+]=x"); }
OP(cprop_set)     { return vnacal_property_set(F->vcp, F->ciA, "arr[0+]=ins"); }
OP(gprop_del)     { return vnacal_property_delete(F->vcp, -1, "arr"); }
OP(cprop_del_all) { return vnacal_property_delete(F->vcp, F->ciA, "."); }
OP(cprop_subtree)
{
    vnaproperty_t **pp = vnacal_property_set_subtree(F->vcp, F->ciB, "sub.t");
    if (pp == NULL)
	return -1;
    return vnaproperty_copy(pp, F->root);
}
OP(vd_grow)       { NEED(F->vd); return vnadata_resize(F->vd, VPT_S, 3, 3, 5); }
OP(vd_shrink)     { NEED(F->vd); return vnadata_resize(F->vd, VPT_UNDEF, 1, 2, 1); }
OP(vd_conv_inpl)  { NEED(F->vd); return vnadata_convert(F->vd, F->vd, VPT_Z); }
OP(vd_conv_zin)   { NEED(F->vd && F->vdo); return vnadata_convert(F->vd, F->vdo, VPT_ZIN); }
OP(vd_set_fz0)    { NEED(F->vd); return vnadata_set_fz0(F->vd, 1, 1, 75.0); }
OP(vdf_set_z0)    { NEED(F->vdf); return vnadata_set_z0(F->vdf, 0, 60.0); }
OP(vdf_grow)      { NEED(F->vdf); return vnadata_resize(F->vdf, VPT_S, 3, 3, 4); }
OP(vdf_trim)      { NEED(F->vdf); return vnadata_resize(F->vdf, VPT_UNDEF, 2, 2, 1); }
OP(vdf_touch)
{
    /* every z0 entry of every frequency, read and written back */
    NEED(F->vdf);
    int n = vnadata_get_frequencies(F->vdf);
    int p = vnadata_get_rows(F->vdf);
    if (vnadata_get_columns(F->vdf) > p)
	p = vnadata_get_columns(F->vdf);
    for (int f = 0; f < n; ++f)
	for (int k = 0; k < p; ++k) {
	    double complex z = vnadata_get_fz0(F->vdf, f, k);
	    if (creal(z) == HUGE_VAL ||
		    vnadata_set_fz0(F->vdf, f, k, z) != 0)
		return -1;
	}
    return 0;
}
OP(vd_add_f)      { NEED(F->vd); return vnadata_add_frequency(F->vd, 9.0e9); }
OP(vdf_add_f)     { NEED(F->vdf); return vnadata_add_frequency(F->vdf, 9.0e9); }
OP(vdf_init)      { NEED(F->vdf); return vnadata_init(F->vdf, VPT_T, 2, 2, 2); }
OP(vd_init_bad)   { NEED(F->vd); return vnadata_init(F->vd, VPT_T, 3, 3, 2); }
OP(vd_save_load)
{
    NEED(F->vd && F->vdo);
    if (vnadata_save(F->vd, F->path_out) != 0)
	return -1;
    return vnadata_load(F->vdo, F->path_out);
}
OP(vdf_save_load)
{
    NEED(F->vdf && F->vdo);
    if (vnadata_save(F->vdf, F->path_out) != 0)
	return -1;
    return vnadata_load(F->vdo, F->path_out);
}
OP(vd_load_bad)   { NEED(F->vdo); return vnadata_load(F->vdo, F->path_bad); }
OP(vd_load_s2p)   { NEED(F->vd); return vnadata_load(F->vd, F->path_s2p); }
/*
 * arguments that alias storage the library owns: what a getter returned is
 * handed straight back to a setter of the same object (re-save under the
 * name it was loaded from, replace a calibration under the name it has,
 * write back a vector that was read)
 */
OP(alias_addcal_name)
{
    NEED(F->vnpS);
    const char *name = vnacal_get_name(F->vcp, F->ciA);
    if (name == NULL)
	return -1;
    int ci = vnacal_add_calibration(F->vcp, name, F->vnpS);
    if (ci < 0)
	return -1;
    /* the calibration must still be found under the text it had */
    return vnacal_find_calibration(F->vcp, "calA") == ci ? 0 : -1;
}
OP(alias_cal_resave)
{
    NEED(F->vcp2);
    const char *fn = vnacal_get_filename(F->vcp2);
    if (fn == NULL)
	return -1;
    if (vnacal_save(F->vcp2, fn) != 0)
	return -1;
    fn = vnacal_get_filename(F->vcp2);
    return fn != NULL && strcmp(fn, F->path_cal) == 0 ? 0 : -1;
}
OP(alias_vd_vectors)
{
    NEED(F->vd);
    int rc = 0;
    const double *fv = vnadata_get_frequency_vector(F->vd);
    if (fv != NULL)
	rc |= vnadata_set_frequency_vector(F->vd, fv);
    const double complex *zv = vnadata_get_z0_vector(F->vd);
    if (zv != NULL)
	rc |= vnadata_set_z0_vector(F->vd, zv);
    for (int f = 0; f < vnadata_get_frequencies(F->vd); ++f) {
	const double complex *m = vnadata_get_matrix(F->vd, f);
	if (m != NULL)
	    rc |= vnadata_set_matrix(F->vd, f, m);
    }
    return rc ? -1 : 0;
}
OP(alias_vdf_vectors)
{
    NEED(F->vdf);
    int rc = 0;
    for (int f = 0; f < vnadata_get_frequencies(F->vdf); ++f) {
	const double complex *zv = vnadata_get_fz0_vector(F->vdf, f);
	if (zv != NULL)
	    rc |= vnadata_set_fz0_vector(F->vdf, f, zv);
    }
    /* leaving per-frequency mode with a vector that belongs to it */
    const double complex *z0 = vnadata_get_fz0_vector(F->vdf, 0);
    if (z0 != NULL)
	rc |= vnadata_set_z0_vector(F->vdf, z0);
    return rc ? -1 : 0;
}
OP(alias_prop_self)
{
    /* a value and a subtree of the tree written back into it */
    const char *v = vnaproperty_get(F->root, "map.k");
    if (v != NULL && vnaproperty_set(&F->root, "map.k=%s", v) != 0)
	return -1;
    vnaproperty_t *sub = vnaproperty_get_subtree(F->root, "map");
    if (sub != NULL) {
	vnaproperty_t **dst = vnaproperty_set_subtree(&F->root, "mapcopy");
	if (dst == NULL || vnaproperty_copy(dst, sub) != 0)
	    return -1;
    }
    return 0;
}
OP(alias_apply_fvec)
{
    /* the frequency vector of the object that also receives the result */
    NEED(F->vdo);
    if (vnadata_init(F->vdo, VPT_S, 2, 2, 3) != 0)
	return -1;
    for (int k = 0; k < 3; ++k)
	if (vnadata_set_frequency(F->vdo, k, F->f3[k]) != 0)
	    return -1;
    return vnacal_apply_m(F->vcp, F->ciA,
	    vnadata_get_frequency_vector(F->vdo), 3, F->mp, 2, 2, F->vdo);
}
OP(alias_new_fvec)
{
    /* a new calibration on the frequency grid of a stored one; the stored
       one is deleted before the new one is used */
    const double *fv = vnacal_get_frequency_vector(F->vcp, F->ciB);
    int n = vnacal_get_frequencies(F->vcp, F->ciB);
    if (fv == NULL || n <= 0)
	return -1;
    vnacal_new_t *p = vnacal_new_alloc(F->vcp, VNACAL_T8, 1, 1, n);
    if (p == NULL)
	return -1;
    int rc = vnacal_new_set_frequency_vector(p, fv);
    (void)vnacal_delete_calibration(F->vcp, F->ciB);
    if (rc == 0) {
	(void)vnacal_new_add_single_reflect_m(p, F->mp, 1, 1, VNACAL_SHORT, 1);
	(void)vnacal_new_add_single_reflect_m(p, F->mp, 1, 1, VNACAL_OPEN, 1);
	(void)vnacal_new_add_single_reflect_m(p, F->mp, 1, 1, VNACAL_MATCH, 1);
	(void)vnacal_new_solve(p);
    }
    vnacal_new_free(p);
    return rc;
}
OP(alias_vparam_fvec)
{
    /* a vector parameter on the grid of a stored calibration, and a second
       one on the grid handed to the first (its own copy must be used) */
    const double *fv = vnacal_get_frequency_vector(F->vcp, F->ciA);
    int n = vnacal_get_frequencies(F->vcp, F->ciA);
    if (fv == NULL || n <= 0 || n > 5)
	return -1;
    int p = vnacal_make_vector_parameter(F->vcp, fv, n, F->g5);
    if (p < 0)
	return -1;
    (void)vnacal_delete_calibration(F->vcp, F->ciA);
    for (int k = 0; k < n; ++k)
	(void)vnacal_get_parameter_value(F->vcp, p, F->f3[k % 3]);
    return vnacal_delete_parameter(F->vcp, p);
}
OP(alias_copy_up)
{
    /* promote a branch to the root: the source lies inside the destination */
    vnaproperty_t *sub = vnaproperty_get_subtree(F->root, "map");
    if (sub == NULL)
	return -1;
    return vnaproperty_copy(&F->root, sub);
}
OP(alias_copy_down)
{
    /* a copy of the whole tree placed into a new slot of itself: the
       destination lies inside the source */
    vnaproperty_t **dst = vnaproperty_set_subtree(&F->root, "selfcopy");
    if (dst == NULL)
	return -1;
    return vnaproperty_copy(dst, F->root);
}
OP(vp_set_deep)   { return vnaproperty_set(&F->root, "a.b[2].c=1"); }
OP(vp_del_item)   { return vnaproperty_delete(&F->root, "arr[0]"); }
/*
 * correlated parameters whose correlate cannot be registered when the
 * standard is added: the add is refused, and nothing it took hold of on the
 * way may stay held (the objects are deleted and freed afterwards)
 */
OP(corr_dead_correlate)
{
    /* the correlate's handle was deleted by the user */
    int ps = vnacal_make_scalar_parameter(F->vcp, 0.5 - 0.1 * I);
    int pu = vnacal_make_unknown_parameter(F->vcp, ps);
    int pc = vnacal_make_correlated_parameter(F->vcp, pu, NULL, 1, F->sig5);
    if (ps < 0 || pu < 0 || pc < 0)
	return -1;
    (void)vnacal_delete_parameter(F->vcp, pu);
    if (F->vnpL != NULL)
	(void)vnacal_new_add_single_reflect_m(F->vnpL, F->mp, 2, 2, pc, 1);
    (void)vnacal_delete_parameter(F->vcp, pc);
    return vnacal_delete_parameter(F->vcp, ps);
}
OP(corr_narrow_correlate)
{
    /* c2 is correlated with c1; c1's sigma grid is too narrow for the
       calibration, c2's own grid covers it */
    double narrow[2], wide[2];
    narrow[0] = F->f3[0] * 1.2;
    narrow[1] = F->f3[0] * 1.3;
    wide[0] = F->f3[0] * 0.5;
    wide[1] = F->f3[2] * 2.0;
    int c1 = vnacal_make_correlated_parameter(F->vcp, VNACAL_SHORT, narrow, 2,
	    F->sig5);
    int c2 = c1 < 0 ? -1 : vnacal_make_correlated_parameter(F->vcp, c1, wide,
	    2, F->sig5);
    if (c2 < 0)
	return -1;
    if (F->vnpL != NULL)
	(void)vnacal_new_add_single_reflect_m(F->vnpL, F->mp, 2, 2, c2, 2);
    (void)vnacal_delete_parameter(F->vcp, c2);
    return vnacal_delete_parameter(F->vcp, c1);
}
OP(vp_del_key)    { return vnaproperty_delete(&F->root, "map"); }
OP(vp_scalar_root){ return vnaproperty_set(&F->root, ".=scalar"); }
OP(vp_insert)     { return vnaproperty_set(&F->root, "arr[0+]=first"); }
OP(vp_copy)       { return vnaproperty_copy(&F->root2, F->root); }
OP(vp_import)     { return vnaproperty_import_yaml_from_string(&F->root, "k: [1, {z: 2}]\n", (vnaerr_error_fn_t *)vf_errfn, &F->elog); }
OP(vp_bad_lookup) { (void)vnaproperty_get(F->root, "nokey.sub"); (void)vnaproperty_get_subtree(F->root, "arr[9]"); return 0; }

static const struct { const char *name; op_fn *fn; } ops[] = {
#define O(nm) { #nm, op_##nm }
    O(add_reflect), O(add_through), O(add_double_ab), O(add_line_unk),
    O(add_mapped), O(add_bad_param), O(add_rect), O(complete_L), O(solve_L),
    O(solve_S), O(solve_R), O(addcal_S), O(addcal_S_new), O(addcal_L),
    O(delcal_A), O(delcal_B), O(delpar_scalar), O(delpar_unknown),
    O(delpar_vector), O(delpar_corr), O(make_unknown), O(make_corr_new), O(make_corr_null),
    O(delpar_new), O(free_L), O(free_S), O(save), O(load), O(apply_A),
    O(apply_B_ab), O(apply_loaded), O(set_m_error), O(set_fvec),
    O(new_zero_f), O(solve_A3), O(solve_A5), O(solve_A1), O(getval_shared),
    O(delpar_shared), O(delpar_sharedc), O(free_A3), O(free_A5), O(free_A1),
    O(addcal_A5), O(merr_T16), O(add_T16), O(merr_A5), O(gprop_set), O(cprop_set), O(gprop_del),
    O(cprop_del_all), O(cprop_subtree), O(vd_grow), O(vd_shrink),
    O(vd_conv_inpl), O(vd_conv_zin), O(vd_set_fz0), O(vdf_set_z0),
    O(vdf_grow), O(vdf_trim), O(vdf_touch), O(vd_add_f), O(vdf_add_f), O(vdf_init), O(vd_init_bad),
    O(vd_save_load), O(vdf_save_load), O(vd_load_bad), O(vd_load_s2p),
    O(alias_addcal_name), O(alias_cal_resave),
    O(alias_vd_vectors), O(alias_vdf_vectors), O(alias_prop_self),
    O(alias_copy_up), O(alias_copy_down), O(alias_apply_fvec),
    O(alias_new_fvec), O(alias_vparam_fvec),
    O(corr_dead_correlate), O(corr_narrow_correlate),
    O(vp_set_deep), O(vp_del_item), O(vp_del_key), O(vp_scalar_root),
    O(vp_insert), O(vp_copy), O(vp_import), O(vp_bad_lookup),
};
#define NOPS ((int)(sizeof(ops) / sizeof(ops[0])))

static int hist_depth(int tier) { return tier ? 3 : 2; }
static long hist_count(int tier)
{
    long n = 1;
    for (int d = 0; d < hist_depth(tier); ++d)
	n *= NOPS;
    return n;
}

static void run_hist(int tier, long idx, vf_result *r)
{
    int seq[4], n = hist_depth(tier);
    const char *err;
    char b[300];
    size_t off = 0;
    int nfail = 0;

    for (int d = n - 1; d >= 0; --d)
	seq[d] = vf_digit(&idx, NOPS);
    b[0] = '\0';
    for (int d = 0; d < n; ++d)
	off += (size_t)snprintf(b + off, sizeof(b) - off, "%s%s",
		d ? " ; " : "", ops[seq[d]].name);
    vf_desc(r, "history on the rich fixture: %s ; digest ; teardown", b);
    unsigned long mark = vf_exec_begin();
    if ((err = fx_build(&c3_F)) != NULL) {
	vf_fail(r, "fixture", "building the fixture failed at: %s", err);
	fx_teardown(&c3_F);
	vf_exec_end(r, mark);
	return;
    }
    for (int d = 0; d < n; ++d) {
	errno = 0;
	int rc = ops[seq[d]].fn(&c3_F);
	++r->transitions;
	if (vf_verbose)
	    vf_note("%s -> %d (errno %d)", ops[seq[d]].name, rc, errno);
	if (rc < -1) {
	    char sig[100];
	    snprintf(sig, sizeof(sig), "retval:%s", ops[seq[d]].name);
	    vf_fail(r, sig, "%s returned %d", ops[seq[d]].name, rc);
	}
	if (rc == -1)
	    ++nfail;
    }
    fx_digest(&c3_F, &c3_D1, 1);
    fx_teardown(&c3_F);
    r->nontrivial = 1;
    vf_outcome(r, "history %d of %d operations failed", nfail, n);
    vf_exec_end(r, mark);
}

/* ---- Part D: property-tree histories --------------------------------- */
/*
 * Every sequence of 3 (thorough: 4) of these calls on a small tree
 * { l: [a, b, c], m: {k: v}, s: x }; after the sequence the tree is walked
 * completely (export), copied, and deleted.  Deleting first, middle and last
 * elements, then growing by index with and without a hole, by append and by
 * insert, is what moves the list's length against its allocation.
 */
static const char *const vpd_ops[] = {
    "Sl[0]=n", "Sl[1]=n", "Sl[2]=n", "Sl[3]=n", "Sl[5]=n", "Sl[+]=n",
    "Sl[0+]=n", "Sl[2+]=n", "Dl[0]", "Dl[1]", "Dl[2]", "Dl[3]", "Dl",
    "Tl[1]", "Tl[2]", "Tl[4]", "Sl[1].k=n", "Sl[3][1]=n", "Sm.k=n",
    "Sm.j=n", "Dm.k", "Dm", "Sm[0]=n", "Ss.t=n", "D.", "C",
};
#define VPD_NOPS ((int)(sizeof(vpd_ops) / sizeof(vpd_ops[0])))
static int vpd_depth(int tier) { return tier ? 4 : 3; }
static long vpd_count(int tier)
{
    long n = 1;
    for (int d = 0; d < vpd_depth(tier) - 1; ++d)
	n *= VPD_NOPS;
    return n;		/* one case = all continuations of a prefix */
}

static int vpd_walk(const vnaproperty_t *root)
{
    /* reads every node: type, count, keys, values */
    int n = 0;
    switch (vnaproperty_type(root, ".")) {
    case 'm': {
	const char **keys = vnaproperty_keys(root, "{}");
	if (keys == NULL)
	    return 0;
	for (const char **k = keys; *k != NULL; ++k) {
	    char *q = vnaproperty_quote_key(*k);
	    if (q != NULL) {
		n += 1 + vpd_walk(vnaproperty_get_subtree(root, "%s", q));
		vf_free(q);
	    }
	}
	vf_free(keys);
	break;
    }
    case 'l': {
	int c = vnaproperty_count(root, "[]");
	for (int i = 0; i < c; ++i)
	    n += 1 + vpd_walk(vnaproperty_get_subtree(root, "[%d]", i));
	break;
    }
    case 's': {
	const char *v = vnaproperty_get(root, ".");
	n += v != NULL ? (int)strlen(v) : 0;
	break;
    }
    default:
	break;
    }
    return n;
}

static void run_vpd(int tier, long idx, vf_result *r)
{
    int n = vpd_depth(tier), seq[4];
    char b[200];
    size_t off = 0;
    long nodes = 0;
    unsigned long mark;

    for (int d = n - 2; d >= 0; --d)
	seq[d] = vf_digit(&idx, VPD_NOPS);
    b[0] = '\0';
    for (int d = 0; d < n - 1; ++d)
	off += (size_t)snprintf(b + off, sizeof(b) - off, "%s%s",
		d ? " ; " : "", vpd_ops[seq[d]]);
    vf_desc(r, "property tree {l:[a,b,c], m:{k:v}, s:x}: %s ; every one of "
	    "%d last calls ; walk ; copy ; delete", b, VPD_NOPS);
    mark = vf_exec_begin();
    for (int last = 0; last < VPD_NOPS; ++last) {
	vnaproperty_t *root = NULL, *root2 = NULL;

	seq[n - 1] = last;
	if (vnaproperty_set(&root, "l[0]=a") == -1 ||
		vnaproperty_set(&root, "l[1]=b") == -1 ||
		vnaproperty_set(&root, "l[2]=c") == -1 ||
		vnaproperty_set(&root, "m.k=v") == -1 ||
		vnaproperty_set(&root, "s=x") == -1) {
	    vf_fail(r, "fixture", "building the property tree failed");
	    (void)vnaproperty_delete(&root, ".");
	    break;
	}
	for (int d = 0; d < n; ++d) {
	    const char *o = vpd_ops[seq[d]];
	    switch (o[0]) {
	    case 'S':
		(void)vnaproperty_set(&root, "%s", o + 1);
		break;
	    case 'D':
		(void)vnaproperty_delete(&root, "%s", o + 1);
		break;
	    case 'T': {
		vnaproperty_t **pp = vnaproperty_set_subtree(&root, "%s",
			o + 1);
		if (pp != NULL)
		    (void)vnaproperty_set(pp, "sub[1]=t");
		break;
	    }
	    default:
		if (vnaproperty_copy(&root2, root) == 0) {
		    nodes += vpd_walk(root2);
		    (void)vnaproperty_delete(&root2, ".");
		}
		break;
	    }
	    ++r->transitions;
	}
	nodes += vpd_walk(root);
	if (vnaproperty_copy(&root2, root) == 0) {
	    nodes += vpd_walk(root2);
	    (void)vnaproperty_delete(&root2, ".");
	}
	(void)vnaproperty_delete(&root, ".");
    }
    r->nontrivial = 1;
    r->states = nodes;
    vf_outcome(r, "property histories survived");
    vf_exec_end(r, mark);
}


/* ---- Part E: degenerate vnadata objects x every operation ------------- */
/*
 * An object is brought to a boundary shape by one of the routes below
 * (shapes no larger than 1 port or 1 frequency; reached fresh, by shrinking,
 * in ordinary and in per-frequency impedance mode), given one of 11 types,
 * and then every operation of the list is applied once.  Nothing is judged
 * but survival, the sanitizers, a well-formed return value and the
 * allocation accounting after vnadata_free.
 */
enum { VE_ALLOC, VE_INIT_000, VE_INIT_00N, VE_INIT_110, VE_INIT_111,
    VE_INIT_121, VE_SHRINK_PORTS, VE_SHRINK_ALL, VE_SHRINK_FREQ,
    VE_FZ0_SHRINK_PORTS, VE_FZ0_00N, VE_AAI_000, VE_NROUTE };
static const char *const ve_route_name[VE_NROUTE] = {
    "alloc only", "init 0x0x0", "init 0x0x2", "init 1x1x0", "init 1x1x1",
    "init 1x2x1 (or 2x2x1)", "2x2x2 resized to 0x0x2", "2x2x2 resized to 0x0x0",
    "2x2x2 resized to 2x2x0", "fz0 2x2x2 resized to 0x0x2",
    "init 0x0x2 then set_fz0_vector", "alloc_and_init 0x0x0",
};
static const vnadata_parameter_type_t ve_types[] = {
    VPT_UNDEF, VPT_S, VPT_T, VPT_U, VPT_Z, VPT_Y, VPT_H, VPT_G, VPT_A, VPT_B,
    VPT_ZIN
};
#define VE_NTYPE ((int)(sizeof(ve_types) / sizeof(ve_types[0])))
enum { VO_CKSAVE_NPD, VO_CKSAVE_S2P, VO_CKSAVE_TS, VO_SAVE_NPD, VO_SAVE_S1P,
    VO_SAVE_S2P, VO_SAVE_TS, VO_FSAVE, VO_CONV_INPLACE, VO_CONV_OUT,
    VO_CONV_ZIN, VO_GETTERS, VO_SET_Z0V, VO_SET_FZ0V, VO_SET_ALL_Z0,
    VO_ADD_F, VO_RESIZE_UP, VO_SET_TYPE, VO_SET_FV, VO_LOAD_INTO,
    VO_FORMATS, VO_APPLY_INTO, VO_NOP };
static const char *const ve_op_name[VO_NOP] = {
    "cksave .npd", "cksave .s2p", "cksave .ts", "save .npd", "save .s1p",
    "save .s2p", "save .ts", "fsave", "convert in place (every type)",
    "convert out of place (every type)", "convert to Zin", "every getter",
    "set_z0_vector", "set_fz0_vector", "set_all_z0", "add_frequency",
    "resize to 2x2x3", "set_type (every type)", "set_frequency_vector",
    "load a 2-port file into it", "set_format (every spelling) + cksave",
    "vnacal_apply_m with it as the output",
};

static vnadata_t *ve_build(int route, vnadata_parameter_type_t type,
	vf_errlog *lg)
{
    vnadata_t *vdp;
    const double complex z2[2] = { 40.0 + 1.0 * I, 60.0 - 2.0 * I };
    int sq = type == VPT_ZIN ? 0 : 1;	/* Zin is a row vector */

    if (route == VE_AAI_000)
	return vnadata_alloc_and_init((vnaerr_error_fn_t *)vf_errfn, lg,
		type, 0, 0, 0);
    vdp = vnadata_alloc((vnaerr_error_fn_t *)vf_errfn, lg);
    if (vdp == NULL)
	return NULL;
    switch (route) {
    case VE_ALLOC:
	break;
    case VE_INIT_000: (void)vnadata_init(vdp, type, 0, 0, 0); break;
    case VE_INIT_00N: (void)vnadata_init(vdp, type, 0, 0, 2); break;
    case VE_INIT_110: (void)vnadata_init(vdp, type, 1, 1, 0); break;
    case VE_INIT_111: (void)vnadata_init(vdp, type, 1, 1, 1); break;
    case VE_INIT_121:
	(void)vnadata_init(vdp, type, sq ? 2 : 1, 2, 1);
	break;
    case VE_SHRINK_PORTS:
	(void)vnadata_init(vdp, type, sq ? 2 : 1, 2, 2);
	(void)vnadata_resize(vdp, type, 0, 0, 2);
	break;
    case VE_SHRINK_ALL:
	(void)vnadata_init(vdp, type, sq ? 2 : 1, 2, 2);
	(void)vnadata_resize(vdp, type, 0, 0, 0);
	break;
    case VE_SHRINK_FREQ:
	(void)vnadata_init(vdp, type, sq ? 2 : 1, 2, 2);
	(void)vnadata_resize(vdp, type, sq ? 2 : 1, 2, 0);
	break;
    case VE_FZ0_SHRINK_PORTS:
	(void)vnadata_init(vdp, type, sq ? 2 : 1, 2, 2);
	(void)vnadata_set_fz0_vector(vdp, 1, z2);
	(void)vnadata_resize(vdp, type, 0, 0, 2);
	break;
    case VE_FZ0_00N:
	(void)vnadata_init(vdp, type, 0, 0, 2);
	(void)vnadata_set_fz0_vector(vdp, 0, z2);
	break;
    default:
	break;
    }
    return vdp;
}

static void ve_getters(vnadata_t *vdp)
{
    int nf = vnadata_get_frequencies(vdp);
    int rows = vnadata_get_rows(vdp), cols = vnadata_get_columns(vdp);
    int ports = rows > cols ? rows : cols;
    volatile double sink = 0;

    (void)vnadata_get_type(vdp);
    (void)vnadata_has_fz0(vdp);
    (void)vnadata_get_fmin(vdp);
    (void)vnadata_get_fmax(vdp);
    (void)vnadata_get_frequency_vector(vdp);
    (void)vnadata_get_z0_vector(vdp);
    (void)vnadata_get_filetype(vdp);
    (void)vnadata_get_format(vdp);
    for (int f = -1; f <= nf; ++f) {
	const double complex *m = vnadata_get_matrix(vdp, f);
	const double complex *zv = vnadata_get_fz0_vector(vdp, f);
	sink += vnadata_get_frequency(vdp, f);
	if (m != NULL)
	    for (int i = 0; i < rows * cols; ++i)
		sink += creal(m[i]);
	if (zv != NULL)
	    for (int i = 0; i < ports; ++i)
		sink += creal(zv[i]);
	for (int q = -1; q <= ports; ++q) {
	    sink += creal(vnadata_get_fz0(vdp, f, q));
	    sink += creal(vnadata_get_cell(vdp, f, q, 0));
	}
    }
    for (int q = -1; q <= ports; ++q)
	sink += creal(vnadata_get_z0(vdp, q));
    (void)sink;
}

static void ve_apply(fx_t *F, vnadata_t *vdp, int op, vf_errlog *lg)
{
    static const double complex z4[4] = { 30.0, 45.0 + 5.0 * I, 75.0, 10.0 };
    static const double f4[4] = { 1e9, 2e9, 3e9, 4e9 };
    static const char *const fmts[] = { "ri", "ma", "dB", "Sri", "Zma",
	"Ydb", "IL", "RL", "VSWR", "PRC", "SRL", "ri,ma", "Tri", "Hma",
	"zinri" };
    char path[760];
    vnadata_parameter_type_t type = vnadata_get_type(vdp);

    switch (op) {
    case VO_CKSAVE_NPD: (void)vnadata_cksave(vdp, "x.npd"); break;
    case VO_CKSAVE_S2P: (void)vnadata_cksave(vdp, "x.s2p"); break;
    case VO_CKSAVE_TS:  (void)vnadata_cksave(vdp, "x.ts"); break;
    case VO_SAVE_NPD:
	snprintf(path, sizeof(path), "%s", vf_tmp("ve.npd"));
	(void)vnadata_save(vdp, path);
	break;
    case VO_SAVE_S1P:
	snprintf(path, sizeof(path), "%s", vf_tmp("ve.s1p"));
	(void)vnadata_save(vdp, path);
	break;
    case VO_SAVE_S2P:
	snprintf(path, sizeof(path), "%s", vf_tmp("ve.s2p"));
	(void)vnadata_save(vdp, path);
	break;
    case VO_SAVE_TS:
	snprintf(path, sizeof(path), "%s", vf_tmp("ve.ts"));
	(void)vnadata_save(vdp, path);
	break;
    case VO_FSAVE: {
	FILE *fp;
	snprintf(path, sizeof(path), "%s", vf_tmp("ve-f.npd"));
	if ((fp = fopen(path, "w")) != NULL) {
	    (void)vnadata_fsave(vdp, fp, "ve-f.npd");
	    fclose(fp);
	}
	break;
    }
    case VO_CONV_INPLACE:
	for (int t = 0; t < VE_NTYPE; ++t)
	    (void)vnadata_convert(vdp, vdp, ve_types[t]);
	break;
    case VO_CONV_OUT:
	for (int t = 0; t < VE_NTYPE; ++t) {
	    vnadata_t *out = vnadata_alloc((vnaerr_error_fn_t *)vf_errfn, lg);
	    if (out != NULL) {
		(void)vnadata_convert(vdp, out, ve_types[t]);
		ve_getters(out);
		vnadata_free(out);
	    }
	}
	break;
    case VO_CONV_ZIN:
	(void)vnadata_convert(vdp, vdp, VPT_ZIN);
	(void)vnadata_resize(vdp, VPT_ZIN, 1, 2, 1);
	break;
    case VO_GETTERS:
	break;
    case VO_SET_Z0V: (void)vnadata_set_z0_vector(vdp, z4); break;
    case VO_SET_FZ0V:
	(void)vnadata_set_fz0_vector(vdp, 0, z4);
	(void)vnadata_set_fz0_vector(vdp,
		vnadata_get_frequencies(vdp) - 1, z4);
	break;
    case VO_SET_ALL_Z0: (void)vnadata_set_all_z0(vdp, 33.0 - 3.0 * I); break;
    case VO_ADD_F:
	(void)vnadata_add_frequency(vdp, 5e9);
	(void)vnadata_add_frequency(vdp, 6e9);
	break;
    case VO_RESIZE_UP:
	(void)vnadata_resize(vdp, type, type == VPT_ZIN ? 1 : 2, 2, 3);
	break;
    case VO_SET_TYPE:
	for (int t = 0; t < VE_NTYPE; ++t)
	    (void)vnadata_set_type(vdp, ve_types[t]);
	break;
    case VO_SET_FV: (void)vnadata_set_frequency_vector(vdp, f4); break;
    case VO_LOAD_INTO: (void)vnadata_load(vdp, F->path_s2p); break;
    case VO_APPLY_INTO:
	(void)vnacal_apply_m(F->vcp, F->ciA, F->f3, 3, F->mp, 2, 2, vdp);
	break;
    case VO_FORMATS:
	for (size_t i = 0; i < sizeof(fmts) / sizeof(fmts[0]); ++i) {
	    (void)vnadata_set_format(vdp, fmts[i]);
	    (void)vnadata_cksave(vdp, "x.npd");
	    (void)vnadata_cksave(vdp, "x.s1p");
	}
	break;
    default:
	break;
    }
}

static long ve_count(void) { return (long)VE_NROUTE * VE_NTYPE; }

static void run_ve(long idx, vf_result *r)
{
    fx_t *F = &c3_F;
    static vf_errlog lg;
    int ti = (int)(idx % VE_NTYPE), route = (int)(idx / VE_NTYPE);
    const char *err;
    unsigned long mark;

    vf_desc(r, "degenerate vnadata object: %s, type %s, then each of %d "
	    "operations on a fresh copy; getters; free", ve_route_name[route],
	    vnadata_get_type_name(ve_types[ti]), (int)VO_NOP);
    mark = vf_exec_begin();
    if ((err = fx_build(F)) != NULL) {
	vf_fail(r, "fixture", "building the fixture failed at: %s", err);
	fx_teardown(F);
	vf_exec_end(r, mark);
	return;
    }
    for (int op = 0; op < VO_NOP; ++op) {
	vnadata_t *vdp;

	vf_errlog_reset(&lg);
	vdp = ve_build(route, ve_types[ti], &lg);
	if (vdp == NULL)
	    continue;	/* the route is refused for this type */
	if (vf_verbose)
	    vf_note("%s", ve_op_name[op]);
	ve_apply(F, vdp, op, &lg);
	++r->transitions;
	ve_getters(vdp);
	vnadata_free(vdp);
    }
    fx_teardown(F);
    r->nontrivial = 1;
    vf_outcome(r, "degenerate objects survived");
    vf_exec_end(r, mark);
}

/* ---- Part F: fresh calibration objects x every operation -------------- */
/*
 * A vnacal_t and a vnacal_new_t are brought to one of the early states of
 * their life (routes below) for each of the 8 types and 3 shapes, then one
 * operation of the list is applied; the objects are queried and freed.
 * Survival, sanitizers and the allocation accounting only.
 */
enum { VF_CREATE, VF_ALLOC_0F, VF_ALLOC_0F_FV, VF_ALLOC_NOFV, VF_ALLOC_FV,
    VF_ONE_STD, VF_ONE_STD_SOLVED_FAIL, VF_NROUTE };
static const char *const vfr_name[VF_NROUTE] = {
    "vnacal_create only", "new_alloc with 0 frequencies",
    "new_alloc with 0 frequencies + set_frequency_vector",
    "new_alloc, no frequency vector", "new_alloc + frequency vector",
    "one standard added", "one standard added and a failed solve",
};
static const vnacal_type_t vfr_types[8] = { VNACAL_T8, VNACAL_U8,
    VNACAL_TE10, VNACAL_UE10, VNACAL_T16, VNACAL_U16, VNACAL_UE14,
    VNACAL_E12 };
#define VFR_NDIM 4
static const int vfr_dims[VFR_NDIM][2] = { { 1, 1 }, { 2, 2 }, { 1, 2 },
    { 2, 3 } };
enum { FO_SOLVE, FO_ADDCAL, FO_SAVE_LOAD, FO_APPLY0, FO_GETTERS,
    FO_PROPS, FO_M_ERROR, FO_M_ERROR_GRID, FO_SET_Z0, FO_SETTINGS,
    FO_ADD_EACH, FO_ADD_AB_EACH, FO_PARAMS, FO_DEL_PREDEF, FO_SOLVE_TWICE,
    FO_ADD_ABBREV, FO_CORR_MERR, FO_TRL_ONEPORT, FO_UNKNOWN_READ,
    FO_MERR_UNEVEN, FO_NOP };
static const char *const vfo_name[FO_NOP] = {
    "solve", "add_calibration", "save + load", "apply calibration 0",
    "every vnacal getter at ci -1..1", "properties at ci -1 and 0",
    "set_m_error on the calibration grid", "set_m_error on its own grid",
    "set_z0", "tolerances, limits, pvalue", "every add_*_m entry point",
    "every add_* (a, b) entry point", "every parameter kind, evaluated",
    "delete predefined parameters", "solve twice",
    "single reflect with a 1x1 measurement on every port in turn",
    "error model, short, open and a load correlated with MATCH, solve",
    "through, unknown reflect on port 2 only, line of unknown "
	"transmission, solve",
    "short, open, match and an unknown reflect on port 1, solve, read the "
	"unknown at, between and far from the calibration frequencies",
    "error model, short, open, match on ports 1 and 2, through, two more "
	"known reflects on port 2 only (systems of unequal size), solve",
};

static void vfr_query(vnacal_t *vcp)
{
    volatile double sink = 0;
    for (int ci = -1; ci <= 1; ++ci) {
	(void)vnacal_get_name(vcp, ci);
	sink += vnacal_get_type(vcp, ci);
	sink += vnacal_get_rows(vcp, ci);
	sink += vnacal_get_columns(vcp, ci);
	sink += vnacal_get_frequencies(vcp, ci);
	sink += vnacal_get_fmin(vcp, ci);
	sink += vnacal_get_fmax(vcp, ci);
	(void)vnacal_get_frequency_vector(vcp, ci);
	sink += creal(vnacal_get_z0(vcp, ci));
	sink += vnacal_property_count(vcp, ci, ".");
	(void)vnacal_property_keys(vcp, ci, ".");
    }
    sink += vnacal_get_calibration_end(vcp);
    (void)vnacal_get_filename(vcp);
    (void)vnacal_find_calibration(vcp, "nothing");
    (void)sink;
}

static long vfr_count(void) { return (long)VF_NROUTE * 8 * VFR_NDIM; }

static void run_vfr(long idx, vf_result *r)
{
    fx_t *F = &c3_F;
    static vf_errlog lg;
    int di = (int)(idx % VFR_NDIM); idx /= VFR_NDIM;
    int ti = (int)(idx % 8); idx /= 8;
    int route = (int)idx;
    vnacal_type_t type = vfr_types[ti];
    int rows = vfr_dims[di][0], cols = vfr_dims[di][1];
    const char *err;
    unsigned long mark;

    if (!(type == VNACAL_T8 || type == VNACAL_TE10 || type == VNACAL_T16)) {
	int x = rows; rows = cols; cols = x;
    }
    vf_desc(r, "fresh calibration objects: %s, %s %dx%d, then each of %d "
	    "operations on a fresh copy; queries; free", vfr_name[route],
	    vnacal_type_to_name(type), rows, cols, (int)FO_NOP);
    mark = vf_exec_begin();
    if ((err = fx_build(F)) != NULL) {
	vf_fail(r, "fixture", "building the fixture failed at: %s", err);
	fx_teardown(F);
	vf_exec_end(r, mark);
	return;
    }
    for (int op = 0; op < FO_NOP; ++op) {
	vnacal_t *vcp, *vcp2 = NULL;
	vnacal_new_t *vnp = NULL;
	vnadata_t *vdo = NULL;
	char path[760];
	int s4[4] = { VNACAL_MATCH, VNACAL_OPEN, VNACAL_OPEN, VNACAL_SHORT };
	const double sig1[3] = { 1e-3, 2e-3, 3e-3 };
	const double fg[2] = { F->f3[0] * 0.9, F->f3[2] * 1.1 };

	vf_errlog_reset(&lg);
	vcp = vnacal_create((vnaerr_error_fn_t *)vf_errfn, &lg);
	if (vcp == NULL)
	    continue;
	if (route >= VF_ALLOC_0F)
	    vnp = vnacal_new_alloc(vcp, type, rows, cols,
		    route <= VF_ALLOC_0F_FV ? 0 : 3);
	if (vnp != NULL && (route >= VF_ALLOC_FV || route == VF_ALLOC_0F_FV))
	    (void)vnacal_new_set_frequency_vector(vnp, F->f3);
	if (vnp != NULL && route >= VF_ONE_STD)
	    (void)vnacal_new_add_single_reflect_m(vnp, F->mp, rows, cols,
		    VNACAL_SHORT, 1);
	if (vnp != NULL && route >= VF_ONE_STD_SOLVED_FAIL)
	    (void)vnacal_new_solve(vnp);
	if (vf_verbose)
	    vf_note("%s", vfo_name[op]);
	switch (op) {
	case FO_SOLVE:
	    if (vnp) (void)vnacal_new_solve(vnp);
	    break;
	case FO_SOLVE_TWICE:
	    if (vnp) { (void)vnacal_new_solve(vnp); (void)vnacal_new_solve(vnp); }
	    break;
	case FO_ADDCAL:
	    if (vnp) (void)vnacal_add_calibration(vcp, "fresh", vnp);
	    break;
	case FO_SAVE_LOAD:
	    snprintf(path, sizeof(path), "%s", vf_tmp("vfr.vnacal"));
	    if (vnacal_save(vcp, path) == 0) {
		vcp2 = vnacal_load(path, (vnaerr_error_fn_t *)vf_errfn, &lg);
		if (vcp2 != NULL)
		    vfr_query(vcp2);
	    }
	    break;
	case FO_APPLY0:
	    vdo = vnadata_alloc((vnaerr_error_fn_t *)vf_errfn, &lg);
	    if (vdo != NULL)
		(void)vnacal_apply_m(vcp, 0, F->f3, 3, F->mp, rows, cols, vdo);
	    break;
	case FO_GETTERS:
	    break;
	case FO_PROPS:
	    (void)vnacal_property_set(vcp, -1, "a.b[1]=c");
	    (void)vnacal_property_set(vcp, 0, "a=b");
	    (void)vnacal_property_get(vcp, -1, "a.b[1]");
	    (void)vnacal_property_delete(vcp, -1, "a.b[0]");
	    (void)vnacal_property_delete(vcp, -1, ".");
	    break;
	case FO_M_ERROR:
	    if (vnp) {
		(void)vnacal_new_set_m_error(vnp, NULL, 1, sig1, NULL);
		(void)vnacal_new_set_m_error(vnp, NULL, 3, sig1, sig1);
		(void)vnacal_new_solve(vnp);
	    }
	    break;
	case FO_M_ERROR_GRID:
	    if (vnp) {
		(void)vnacal_new_set_m_error(vnp, fg, 2, sig1, sig1);
		(void)vnacal_new_solve(vnp);
		(void)vnacal_new_set_m_error(vnp, NULL, 0, NULL, NULL);
	    }
	    break;
	case FO_SET_Z0:
	    if (vnp) (void)vnacal_new_set_z0(vnp, 75.0 - 2.0 * I);
	    break;
	case FO_SETTINGS:
	    if (vnp) {
		(void)vnacal_new_set_et_tolerance(vnp, 1e-9);
		(void)vnacal_new_set_p_tolerance(vnp, 1e-3);
		(void)vnacal_new_set_iteration_limit(vnp, 1);
		(void)vnacal_new_set_pvalue_limit(vnp, 0.5);
		(void)vnacal_new_solve(vnp);
	    }
	    break;
	case FO_ADD_EACH:
	    if (vnp) {
		(void)vnacal_new_add_single_reflect_m(vnp, F->mp, rows, cols,
			VNACAL_OPEN, 1);
		(void)vnacal_new_add_single_reflect_m(vnp, F->mp, rows, cols,
			VNACAL_MATCH, 2);
		(void)vnacal_new_add_double_reflect_m(vnp, F->mp, rows, cols,
			VNACAL_OPEN, VNACAL_SHORT, 2, 1);
		(void)vnacal_new_add_through_m(vnp, F->mp, rows, cols, 1, 2);
		(void)vnacal_new_add_line_m(vnp, F->mp, rows, cols, s4, 2, 1);
		(void)vnacal_new_add_mapped_matrix_m(vnp, F->mp, rows, cols,
			s4, 2, 2, NULL);
		(void)vnacal_new_add_mapped_matrix_m(vnp, F->mp, rows, cols,
			s4, 1, 1, F->pm11);
		(void)vnacal_new_solve(vnp);
	    }
	    break;
	case FO_ADD_AB_EACH:
	    if (vnp) {
		(void)vnacal_new_add_single_reflect(vnp, F->ap, cols, cols,
			F->mp, rows, cols, VNACAL_OPEN, 1);
		(void)vnacal_new_add_single_reflect(vnp, F->ap, 1, cols,
			F->mp, rows, cols, VNACAL_MATCH, 1);
		(void)vnacal_new_add_double_reflect(vnp, F->ap, cols, cols,
			F->mp, rows, cols, VNACAL_OPEN, VNACAL_SHORT, 1, 2);
		(void)vnacal_new_add_through(vnp, F->ap, 1, cols, F->mp, rows,
			cols, 1, 2);
		(void)vnacal_new_add_line(vnp, F->ap, cols, cols, F->mp, rows,
			cols, s4, 1, 2);
		(void)vnacal_new_add_mapped_matrix(vnp, F->ap, cols, cols,
			F->mp, rows, cols, s4, 2, 2, NULL);
		(void)vnacal_new_solve(vnp);
	    }
	    break;
	case FO_PARAMS: {
	    int ps = vnacal_make_scalar_parameter(vcp, 0.3 - 0.2 * I);
	    int pv = vnacal_make_vector_parameter(vcp, F->f3, 1, F->vec3);
	    int pu = vnacal_make_unknown_parameter(vcp, pv);
	    int pc = vnacal_make_correlated_parameter(vcp, ps, F->f3, 1,
		    sig1);
	    int pp[4] = { ps, pv, pu, pc };
	    for (int i = 0; i < 4; ++i)
		(void)vnacal_get_parameter_value(vcp, pp[i], F->f3[0]);
	    if (vnp) {
		(void)vnacal_new_add_single_reflect_m(vnp, F->mp, rows, cols,
			pu, 1);
		(void)vnacal_new_add_single_reflect_m(vnp, F->mp, rows, cols,
			pc, 1);
		(void)vnacal_new_solve(vnp);
	    }
	    for (int i = 3; i >= 0; --i)
		(void)vnacal_delete_parameter(vcp, pp[i]);
	    break;
	}
	case FO_ADD_ABBREV:
	    if (vnp) {
		int ports = rows > cols ? rows : cols;
		for (int port = 1; port <= ports + 1; ++port)
		    (void)vnacal_new_add_single_reflect_m(vnp, F->mp, 1, 1,
			    VNACAL_SHORT, port);
		(void)vnacal_new_add_double_reflect_m(vnp, F->mp, 1, 2,
			VNACAL_SHORT, VNACAL_OPEN, 1, ports);
		(void)vnacal_new_add_double_reflect_m(vnp, F->mp, 2, 1,
			VNACAL_SHORT, VNACAL_OPEN, ports, 1);
		(void)vnacal_new_add_through_m(vnp, F->mp, 2, 2, ports, 1);
		(void)vnacal_new_solve(vnp);
	    }
	    break;
	case FO_CORR_MERR:
	    if (vnp) {
		int pc = vnacal_make_correlated_parameter(vcp, VNACAL_MATCH,
			NULL, 1, sig1);
		(void)vnacal_new_set_m_error(vnp, NULL, 1, sig1, NULL);
		(void)vnacal_new_add_single_reflect_m(vnp, F->mp, rows, cols,
			VNACAL_SHORT, 1);
		(void)vnacal_new_add_single_reflect_m(vnp, F->mp, rows, cols,
			VNACAL_OPEN, 1);
		(void)vnacal_new_add_single_reflect_m(vnp, F->mp, rows, cols,
			pc, 1);
		(void)vnacal_new_solve(vnp);
		(void)vnacal_get_parameter_value(vcp, pc, F->f3[0]);
		(void)vnacal_delete_parameter(vcp, pc);
	    }
	    break;
	case FO_MERR_UNEVEN:
	    if (vnp) {
		static const int sol[3] = { VNACAL_SHORT, VNACAL_OPEN,
		    VNACAL_MATCH };
		int e1 = vnacal_make_scalar_parameter(vcp, 0.4 - 0.3 * I);
		int e2 = vnacal_make_scalar_parameter(vcp, -0.2 + 0.6 * I);
		(void)vnacal_new_set_m_error(vnp, NULL, 1, sig1, sig1);
		for (int port = 1; port <= 2; ++port)
		    for (int k = 0; k < 3; ++k)
			(void)vnacal_new_add_single_reflect_m(vnp, F->mp,
				rows, cols, sol[k], port);
		(void)vnacal_new_add_through_m(vnp, F->mp, rows, cols, 1, 2);
		(void)vnacal_new_add_single_reflect_m(vnp, F->mp, rows, cols,
			e1, 2);
		(void)vnacal_new_add_single_reflect_m(vnp, F->mp, rows, cols,
			e2, 2);
		(void)vnacal_new_solve(vnp);
		(void)vnacal_delete_parameter(vcp, e1);
		(void)vnacal_delete_parameter(vcp, e2);
	    }
	    break;
	case FO_TRL_ONEPORT:
	    if (vnp) {
		int pr = vnacal_make_unknown_parameter(vcp, VNACAL_SHORT);
		int pl = vnacal_make_unknown_parameter(vcp, VNACAL_OPEN);
		int ln[4] = { VNACAL_MATCH, pl, pl, VNACAL_MATCH };
		(void)vnacal_new_add_through_m(vnp, F->mp, rows, cols, 1, 2);
		(void)vnacal_new_add_single_reflect_m(vnp, F->mp, rows, cols,
			pr, 2);
		(void)vnacal_new_add_line_m(vnp, F->mp, rows, cols, ln, 1, 2);
		(void)vnacal_new_solve(vnp);
		(void)vnacal_delete_parameter(vcp, pl);
		(void)vnacal_delete_parameter(vcp, pr);
	    }
	    break;
	case FO_UNKNOWN_READ:
	    /* an unknown reflect next to short, open and match on port 1,
	       solved, then read at and around the calibration frequencies;
	       solved once before on a calibration of three frequencies, so
	       that the unknown holds a table which this solve replaces.
	       The readings are those of a one-port error box. */
	    if (vnp) {
		static const double complex gam[4] = { -1.0, 1.0, 0.0,
		    -0.6 + 0.3 * I };
		double complex cellv[4][9][3];
		double complex *mm[4][9];
		int pu = vnacal_make_unknown_parameter(vcp, VNACAL_SHORT);
		int par[4] = { VNACAL_SHORT, VNACAL_OPEN, VNACAL_MATCH, pu };
		vnacal_new_t *first = vnacal_new_alloc(vcp, type, rows, cols,
			3);
		for (int k = 0; k < 4; ++k)
		    for (int c = 0; c < rows * cols && c < 9; ++c) {
			for (int f = 0; f < 3; ++f)
			    cellv[k][c][f] = c == 0 ?
				(0.03 + 0.02 * I) + (0.9 - 0.15 * I) * gam[k] /
				(1.0 - (-0.05 + 0.1 * I) * gam[k]) :
				1e-3 * (c + 1);
			mm[k][c] = cellv[k][c];
		    }
		if (first != NULL) {
		    (void)vnacal_new_set_frequency_vector(first, F->f3);
		    for (int k = 0; k < 4; ++k)
			(void)vnacal_new_add_single_reflect_m(first, mm[k],
				rows, cols, par[k], 1);
		    (void)vnacal_new_solve(first);
		    (void)vnacal_get_parameter_value(vcp, pu, F->f3[1]);
		    vnacal_new_free(first);
		}
		for (int k = 0; k < 4; ++k)
		    (void)vnacal_new_add_single_reflect_m(vnp, mm[k], rows,
			    cols, par[k], 1);
		(void)vnacal_new_solve(vnp);
		(void)vnacal_get_parameter_value(vcp, pu, F->f3[0]);
		(void)vnacal_get_parameter_value(vcp, pu, F->f3[2]);
		(void)vnacal_get_parameter_value(vcp, pu, 0.0);
		(void)vnacal_get_parameter_value(vcp, pu, 1e12);
		(void)vnacal_delete_parameter(vcp, pu);
	    }
	    break;
	case FO_DEL_PREDEF:
	    (void)vnacal_delete_parameter(vcp, VNACAL_MATCH);
	    (void)vnacal_delete_parameter(vcp, VNACAL_OPEN);
	    (void)vnacal_delete_parameter(vcp, VNACAL_SHORT);
	    (void)vnacal_delete_parameter(vcp, VNACAL_ZERO);
	    (void)vnacal_get_parameter_value(vcp, VNACAL_ZERO, 1e9);
	    break;
	default:
	    break;
	}
	++r->transitions;
	vfr_query(vcp);
	if (vdo != NULL)
	    vnadata_free(vdo);
	if (vnp != NULL)
	    vnacal_new_free(vnp);
	if (vcp2 != NULL)
	    vnacal_free(vcp2);
	vnacal_free(vcp);
    }
    fx_teardown(F);
    r->nontrivial = 1;
    vf_outcome(r, "fresh calibration objects survived");
    vf_exec_end(r, mark);
}

static long n_sweep, n_conv, n_hist, n_vpd, n_ve, n_vfr;

static long count(int tier)
{
    n_sweep = c3_sweep_count(tier);
    n_conv = C3_NCONV;
    n_hist = hist_count(tier);
    n_vpd = vpd_count(tier);
    n_ve = ve_count();
    n_vfr = vfr_count();
    return n_sweep + n_conv + n_hist + n_vpd + n_ve + n_vfr;
}

static void init(int tier)
{
    (void)count(tier);
}

static void run(int tier, long idx, vf_result *r)
{
    if (idx < n_sweep)
	c3_run_sweep(MODE_C03, tier, idx, r);
    else if (idx < n_sweep + n_conv)
	c3_run_conv((int)(idx - n_sweep), r);
    else if (idx < n_sweep + n_conv + n_hist)
	run_hist(tier, idx - n_sweep - n_conv, r);
    else if (idx < n_sweep + n_conv + n_hist + n_vpd)
	run_vpd(tier, idx - n_sweep - n_conv - n_hist, r);
    else if (idx < n_sweep + n_conv + n_hist + n_vpd + n_ve)
	run_ve(idx - n_sweep - n_conv - n_hist - n_vpd, r);
    else
	run_vfr(idx - n_sweep - n_conv - n_hist - n_vpd - n_ve, r);
}

vf_driver vf_drv = {
    .property = "C03",
    .rule = "case = one call of a table entry (about 170 entries covering "
	"the public vnacal, vnacal_new, parameter, vnadata, vnaproperty and "
	"vnaconv functions) with 0, 1 or (thorough) 2 arguments moved to a "
	"value of their boundary domain, on a freshly built rich fixture; or "
	"one ordered pair (thorough: triple) of 74 state-changing operations "
	"followed by a full query of every object and teardown; or all "
	"sequences of 3 (thorough: 4) of 26 property-tree calls sharing one "
	"prefix, each followed by a walk, a copy and the delete.  Non-trivial: "
	"the fully valid call, every call that must fail by the documentation "
	"(return value compared), and every history; alternative-value calls "
	"only count as survived.  'transitions' counts library calls judged",
    .count = count,
    .run = run,
    .init = init,
    .timeout_s = 30,
};
