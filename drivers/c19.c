/*
 * C19: linear systems are solved to backward-stable accuracy; singular ones
 * stand out.
 *
 * Enumerates (path x family x size x chunk) cases.  A path is one of
 *   - the public n-port conversions that divide by a matrix: vnaconv_ztoyn,
 *     ytozn, stozn, ztosn, stoyn, ytosn;
 *   - a direct, WHITE-BOX call of the internal routines declared in
 *     vnacommon_internal.h: _vnacommon_lu, _vnacommon_mldivide,
 *     _vnacommon_mrdivide, _vnacommon_minverse, _vnacommon_qrsolve,
 *     _vnacommon_qr + _vnacommon_qrsolve2;
 *   - vnacal_apply's a/b -> m reduction on an identity 2x2 T8 calibration;
 *   - vnacal_new_add_*(a, b)'s a/b -> m reduction (four ideal standards
 *     given as (a, S a), solved and applied);
 *   - vnacal_new_solve on one-port T8/U8 problems: every subset of >= 3 of 5
 *     reflect standards in every order (3 = exactly determined, LU;
 *     4, 5 = over-determined, QR) against the textbook one-port error model.
 * Inside a case every member of the family's finite set of systems is pushed
 * through the path and the result judged in long double (oracle/lin.c) by
 * the ROW-WISE backward error of the linear system behind the call (column/
 * norm-wise for the Householder QR paths, which do no row pivoting).
 */
#include <complex.h>
#include <errno.h>
#include <math.h>
#include <stdarg.h>
#include <stdio.h>
#include <stdlib.h>
#include <string.h>
#include <vnaconv.h>
#include <vnacal.h>
#include <vnadata.h>
#include "vnacommon_internal.h"
#include "vf.h"
#include "calsim.h"
#include "lin.h"

typedef double complex dc;

#define TOL_ROW		1e-10L	/* row-wise relative backward error (LU paths) */
#define TOL_NORM	1e-10L	/* column/norm-wise backward error (QR paths) */
#define TOL_CONS	3e-14L	/* backward error, consistent over-determined */
#define TOL_NEQ		1e-9L	/* normal-equation residual (least squares) */
#define TOL_DET		1e-7L	/* determinant, relative (pivot ratio >= 1e-3) */
#define PR_MIN		1e-6L	/* oracle pivot ratio below which: skipped */
#define PR_DET		1e-3L
#define BIG		1e10	/* "astronomically large" factor */

#define NSQ	8		/* largest square system */
#define MAXM	40
#define MAXN	15
#define CHUNK	500		/* systems per case */

/* ------------------------------------------------------------------ */
/* alphabets							      */
/* ------------------------------------------------------------------ */
static const dc ALPHA[] = {
    1.0, -1.0, 0.5 * I, 0.0, 2.0 - 1.0 * I, -0.3 + 0.4 * I, 3.0
};
#define NALPHA 7
static const dc INTA[] = {		/* Gaussian integers: exact arithmetic */
    1.0, -1.0, 2.0, 1.0 * I, 1.0 - 1.0 * I, -2.0, 3.0
};
#define NINTA 7
static const double WIDEVAL[3] = { 1e-12, 1.0, 1e12 };
static const double SCALEVAL[3] = { 1e-8, 1.0, 1e8 };

enum { FAM_FULL, FAM_DENSE, FAM_GRADED, FAM_WIDE, FAM_PERM, FAM_SCALE,
       FAM_SING, FAM_NEARTRI, FAM_ILLCOND, FAM_COMMON, NFAM };
static const char *fam_name[NFAM] = {
    "full-alphabet", "dense", "graded", "wide-range-row", "row-permutation",
    "row-scaling", "exactly-singular", "near-triangular",
    "ill-conditioned-consistent", "large-common-part"
};

enum { P_LU, P_MLD, P_MRD, P_MINV, P_ZTOY, P_YTOZ, P_STOZ, P_ZTOS, P_STOY,
       P_YTOS, P_QRSOLVE, P_QRSOLVE2, P_APPLY, P_SOLVE, P_ADD, P_LSQ,
       P_COLSYS, NPATH };
static const char *path_name[NPATH] = {
    "_vnacommon_lu", "_vnacommon_mldivide", "_vnacommon_mrdivide",
    "_vnacommon_minverse", "vnaconv_ztoyn", "vnaconv_ytozn", "vnaconv_stozn",
    "vnaconv_ztosn", "vnaconv_stoyn", "vnaconv_ytosn", "_vnacommon_qrsolve",
    "_vnacommon_qr+qrsolve2", "vnacal_apply", "vnacal_new_solve",
    "vnacal_new_add_*(a,b)", "vnacal_new_solve(noisy)",
    "vnacal_new_solve(column systems)"
};

/* kinds of system */
#define K_REGULAR	0
#define K_ZEROPIV	1	/* zero row / column: exact zero pivot certain */
#define K_SINGULAR	2	/* exactly singular (duplicates, rank n-1) */

typedef struct {
    int n;
    dc m[NSQ * NSQ];		/* the matrix handed on (transformed) */
    dc m0[NSQ * NSQ];		/* base matrix before row perm/scaling */
    int perm[NSQ];		/* m[r] = d[r] * m0[perm[r]] */
    double d[NSQ];
    int transformed;
    int kind;
    int bseed;			/* stream for right-hand sides */
    int consistent;		/* right-hand sides are A times moderate X0
				   (or X0 times A): judged however small the
				   oracle's pivot ratio is */
    char desc[200];
} sys_t;

typedef struct {
    vf_result *r;
    int path;
    long checked, skipped, singular;
    long double worst;
    double minsing;		/* smallest finite |out|/scale on singular input */
} ctx_t;

/* ------------------------------------------------------------------ */
/* small helpers						      */
/* ------------------------------------------------------------------ */
static long ipow(int a, int b)
{
    long v = 1;
    while (b-- > 0)
	v *= a;
    return v;
}

static long fact(int n)
{
    long v = 1;
    for (int i = 2; i <= n; ++i)
	v *= i;
    return v;
}

/* k-th permutation of 0..n-1 in lexicographic order */
static void kth_perm(int n, long k, int *perm)
{
    int pool[NSQ];
    for (int i = 0; i < n; ++i)
	pool[i] = i;
    for (int i = 0; i < n; ++i) {
	long f = fact(n - 1 - i);
	int sel = (int)(k / f);
	k %= f;
	perm[i] = pool[sel];
	for (int j = sel; j < n - 1 - i; ++j)
	    pool[j] = pool[j + 1];
    }
}

static dc alpha_at(uint64_t stream, int i, int j)
{
    return ALPHA[vf_hash64(0xC1900000u + stream, (uint64_t)(i * 64 + j)) %
	NALPHA];
}

static dc inta_at(uint64_t stream, int i, int j)
{
    return INTA[vf_hash64(0xC19A0000u + stream, (uint64_t)(i * 64 + j)) %
	NINTA];
}

static void gen_dense(int rows, int cols, uint64_t stream, dc *out)
{
    for (int i = 0; i < rows; ++i)
	for (int j = 0; j < cols; ++j)
	    out[i * cols + j] = alpha_at(stream, i, j);
}

static void gen_int(int rows, int cols, uint64_t stream, dc *out)
{
    for (int i = 0; i < rows; ++i)
	for (int j = 0; j < cols; ++j)
	    out[i * cols + j] = inta_at(stream, i, j);
}

static int all_finite(const dc *x, int n)
{
    for (int i = 0; i < n; ++i)
	if (!isfinite(creal(x[i])) || !isfinite(cimag(x[i])))
	    return 0;
    return 1;
}

static double maxabs(const dc *x, int n)
{
    double m = 0;
    for (int i = 0; i < n; ++i) {
	double a = cabs(x[i]);
	if (a > m)
	    m = a;
    }
    return m;
}

static const char *decade(long double v)
{
    if (v == 0) return "0";
    if (v < 1e-15L) return "<1e-15";
    if (v < 1e-13L) return "<1e-13";
    if (v < 1e-11L) return "<1e-11";
    if (v < 1e-10L) return "<1e-10";
    return ">=1e-10";
}

static void fmt_matrix(char *buf, size_t len, const dc *m, int rows, int cols)
{
    size_t o = 0;
    buf[0] = 0;
    if (rows * cols > 16) {
	snprintf(buf, len, "(%dx%d, see generator)", rows, cols);
	return;
    }
    o += (size_t)snprintf(buf + o, len - o, "[");
    for (int i = 0; i < rows && o < len; ++i) {
	for (int j = 0; j < cols && o < len; ++j)
	    o += (size_t)snprintf(buf + o, len - o, "%s%g%+gj",
		    j ? " " : (i ? "; " : ""), creal(m[i * cols + j]),
		    cimag(m[i * cols + j]));
    }
    if (o < len)
	snprintf(buf + o, len - o, "]");
}

/* ------------------------------------------------------------------ */
/* oracle side							      */
/* ------------------------------------------------------------------ */

/*
 * Smallest pivot (complete pivoting, long double) of A after every row was
 * divided by its largest magnitude (Am: magnitudes of the terms A was formed
 * from, NULL: |A|).  A unit entry is appended on the diagonal so that the
 * ratio reported by lin_rank is relative to 1, not to the first pivot.
 */
static long double pivot_ratio_roweq(int n, const lc_t *A,
	const long double *Am)
{
    lc_t w[(NSQ + 1) * (NSQ + 1)];
    long double pr = 0;
    int n1 = n + 1;

    memset(w, 0, sizeof(w));
    for (int i = 0; i < n; ++i) {
	long double mx = 0;
	for (int j = 0; j < n; ++j) {
	    long double v = Am != NULL ? Am[i * n + j] : cabsl(A[i * n + j]);
	    if (v > mx)
		mx = v;
	}
	if (mx == 0)
	    return 0;
	for (int j = 0; j < n; ++j)
	    w[i * n1 + j] = A[i * n + j] / mx;
    }
    w[n * n1 + n] = 1.0L;
    if (lin_rank(n1, n1, w, 0.0L, &pr) != n1)
	return 0;
    return pr;
}

/* pivot ratio of the column-equilibrated rows x cols matrix */
static long double pivot_ratio_coleq(int rows, int cols, const lc_t *A)
{
    static lc_t w[MAXM * MAXN];
    long double pr = 0;

    for (int j = 0; j < cols; ++j) {
	long double mx = 0;
	for (int i = 0; i < rows; ++i)
	    if (cabsl(A[i * cols + j]) > mx)
		mx = cabsl(A[i * cols + j]);
	if (mx == 0)
	    return 0;
	for (int i = 0; i < rows; ++i)
	    w[i * cols + j] = A[i * cols + j] / mx;
    }
    lin_rank(rows, cols, w, 0.0L, &pr);
    return pr;
}

/*
 * Row-wise backward error of A X = B (A n x n, X and B n x o):
 *   max_ij |A X - B|_ij / (max_k |A_ik| * sum_k |X_kj| + |B_ij|)
 * i.e. the smallest w such that (A + dA) X = B + dB holds with
 * |dA_ik| <= w max_k |A_ik| and |dB_ij| <= w |B_ij| for every row i.
 * Invariant under row scaling and row permutation of (A, B).
 */
static long double resid_left(int n, int o, const lc_t *A, const dc *X,
	const lc_t *B, const long double *Am, const long double *Bm)
{
    long double worst = 0;

    if (!all_finite(X, n * o))
	return INFINITY;
    for (int i = 0; i < n; ++i) {
	long double rm = 0;
	for (int k = 0; k < n; ++k) {
	    long double v = Am != NULL ? Am[i * n + k] : cabsl(A[i * n + k]);
	    if (v > rm)
		rm = v;
	}
	for (int j = 0; j < o; ++j) {
	    lc_t s = -B[i * o + j];
	    long double cs = 0;
	    for (int k = 0; k < n; ++k) {
		s += A[i * n + k] * (lc_t)X[k * o + j];
		cs += cabsl((lc_t)X[k * o + j]);
	    }
	    long double den = rm * cs +
		(Bm != NULL ? Bm[i * o + j] : cabsl(B[i * o + j]));
	    long double num = cabsl(s);
	    long double q = num == 0 ? 0 : (den > 0 ? num / den : INFINITY);
	    if (!(q <= worst))
		worst = q;
	}
    }
    return worst;
}

/*
 * Row-wise (in A) backward error of X A = B (X and B mr x n, A n x n):
 *   max_ij |X A - B|_ij / (sum_k |X_ik| max_l |A_kl| + |B_ij|)
 */
static long double resid_right(int mr, int n, const dc *X, const lc_t *A,
	const lc_t *B, const long double *Am, const long double *Bm)
{
    long double worst = 0, rm[NSQ];

    if (!all_finite(X, mr * n))
	return INFINITY;
    for (int k = 0; k < n; ++k) {
	rm[k] = 0;
	for (int l = 0; l < n; ++l) {
	    long double v = Am != NULL ? Am[k * n + l] : cabsl(A[k * n + l]);
	    if (v > rm[k])
		rm[k] = v;
	}
    }
    for (int i = 0; i < mr; ++i) {
	long double den0 = 0;
	for (int k = 0; k < n; ++k)
	    den0 += cabsl((lc_t)X[i * n + k]) * rm[k];
	for (int j = 0; j < n; ++j) {
	    lc_t s = -B[i * n + j];
	    for (int k = 0; k < n; ++k)
		s += (lc_t)X[i * n + k] * A[k * n + j];
	    long double den = den0 +
		(Bm != NULL ? Bm[i * n + j] : cabsl(B[i * n + j]));
	    long double num = cabsl(s);
	    long double q = num == 0 ? 0 : (den > 0 ? num / den : INFINITY);
	    if (!(q <= worst))
		worst = q;
	}
    }
    return worst;
}

/*
 * determinant by long double elimination with complete pivoting (no element
 * growth to speak of, which partial pivoting has on the wide-range rows)
 */
static lc_t det_ref(int n, const lc_t *A)
{
    lc_t w[NSQ * NSQ], d = 1;

    memcpy(w, A, sizeof(lc_t) * (size_t)(n * n));
    for (int k = 0; k < n; ++k) {
	int p = k, q = k;
	long double best = -1;
	for (int i = k; i < n; ++i)
	    for (int j = k; j < n; ++j)
		if (cabsl(w[i * n + j]) > best) {
		    best = cabsl(w[i * n + j]);
		    p = i;
		    q = j;
		}
	if (!(best > 0))
	    return 0;
	if (p != k) {
	    for (int j = 0; j < n; ++j) {
		lc_t t = w[k * n + j];
		w[k * n + j] = w[p * n + j];
		w[p * n + j] = t;
	    }
	    d = -d;
	}
	if (q != k) {
	    for (int i = 0; i < n; ++i) {
		lc_t t = w[i * n + k];
		w[i * n + k] = w[i * n + q];
		w[i * n + q] = t;
	    }
	    d = -d;
	}
	d *= w[k * n + k];
	for (int i = k + 1; i < n; ++i) {
	    lc_t f = w[i * n + k] / w[k * n + k];
	    for (int j = k; j < n; ++j)
		w[i * n + j] -= f * w[k * n + j];
	}
    }
    return d;
}

static void to_lc(lc_t *out, const dc *in, int n)
{
    for (int i = 0; i < n; ++i)
	out[i] = (lc_t)in[i];
}

/* ------------------------------------------------------------------ */
/* square system families					      */
/* ------------------------------------------------------------------ */
static int n_base(int tier) { return tier ? 12 : 3; }

static int full_alpha(int tier, int n)
{
    if (n == 1) return NALPHA;
    if (n == 2) return tier ? 7 : 5;
    return tier ? 3 : 2;
}

static int wide_full(int tier) { return tier ? 4 : 3; }
static int perm_max(int tier) { return tier ? 6 : 5; }
static int scale_full(int tier) { return tier ? 5 : 4; }

static long fam_count(int tier, int fam, int n)
{
    int kb = n_base(tier);
    switch (fam) {
    case FAM_FULL:
	return n <= 3 ? ipow(full_alpha(tier, n), n * n) : 0;
    case FAM_DENSE:
	return tier ? 200 : 12;
    case FAM_GRADED:
	return n >= 2 ? 3L * 4 * 4 : 0;
    case FAM_WIDE:
	if (n == 1) return 0;
	if (n <= wide_full(tier)) return (long)kb * n * ipow(3, n);
	return (long)kb * n * n * 2;
    case FAM_PERM:
	return (n >= 2 && n <= perm_max(tier)) ? (long)kb * fact(n) : 0;
    case FAM_SCALE:
	if (n <= scale_full(tier)) return (long)kb * ipow(3, n);
	return (long)kb * n * 2;
    case FAM_ILLCOND:
	return (n >= 2 && n <= 4) ? 5L * 4 : 0;
    case FAM_COMMON:
	return (n >= 2 && n <= 4) ? 4L * 2 : 0;
    case FAM_SING:
	/* zero row, zero col, dup rows, dup cols, rank n-1 products */
	return 2L * (2 * n + (n >= 2 ? n * (n - 1) : 0) +
		(n >= 2 ? (tier ? 12 : 4) : 0));
    default:
	return 0;
    }
}

/* base for the transformed families: even k dense, odd k dense with one
   wide-range row (entry (0, n-1) = 1e10), so that the pivot choice matters */
static void gen_tbase(int n, int k, dc *out)
{
    gen_dense(n, n, 500 + (uint64_t)k * 16 + (uint64_t)n, out);
    if ((k & 1) && n >= 2)
	out[n - 1] = 1e10;
}

static void gen_system(int tier, int fam, int n, long idx, sys_t *s)
{
    dc *m0 = s->m0;

    s->n = n;
    s->kind = K_REGULAR;
    s->transformed = 0;
    s->bseed = (int)(idx % 5);
    s->consistent = 0;
    for (int i = 0; i < n; ++i) {
	s->perm[i] = i;
	s->d[i] = 1.0;
    }
    switch (fam) {
    case FAM_COMMON: {
	/*
	 * zs * ones + diag(d): all ports tied to a common node that sits on
	 * a large impedance zs.  One huge singular value, the others
	 * moderate: ill-conditioned through its large part, with a moderate
	 * inverse; what a conversion makes of it is moderate too.
	 */
	static const double zsv[4] = { 1e5, 1e7, 1e9, 1e11 };
	int zi = (int)(idx % 4), dv = (int)(idx / 4);
	for (int i = 0; i < n; ++i)
	    for (int j = 0; j < n; ++j)
		m0[i * n + j] = zsv[zi] * (dv ? 1.0 - 0.2 * I : 1.0);
	for (int i = 0; i < n; ++i)
	    m0[i * n + i] += 60.0 + 15.0 * i + (dv ? 8.0 : -12.0) * I * (i + 1);
	s->consistent = 1;
	snprintf(s->desc, sizeof(s->desc), "%g x ones + diag(60+15i ...): "
		"large common part, variant %d", zsv[zi], dv);
	break;
    }
    case FAM_ILLCOND: {
	/*
	 * A = Q1 diag(1, sigma, 1, sigma) Q2 with Q1, Q2 products of plane
	 * rotations with complex phases: entries of order one in every row,
	 * condition number 1/sigma.  Regular however small sigma is; the
	 * right-hand sides are made from a moderate solution.
	 */
	static const double sig[5] = { 1e-4, 1e-6, 1e-8, 1e-10, 1e-12 };
	int si = (int)(idx % 5), av = (int)(idx / 5);
	lc_t Q1[NSQ * NSQ], Q2[NSQ * NSQ], T[NSQ * NSQ];
	for (int q = 0; q < 2; ++q) {
	    lc_t *Q = q ? Q2 : Q1;
	    for (int i = 0; i < n * n; ++i)
		Q[i] = (i / n == i % n) ? 1.0L : 0.0L;
	    for (int a = 0; a + 1 < n; ++a)
		for (int b = a + 1; b < n; ++b) {
		    long double th = 0.4L + 0.37L * av + 0.61L * q +
			0.23L * a + 0.11L * b;
		    lc_t cs = cosl(th), sn = sinl(th) *
			cexpl(I * (0.3L * (av + 1) + 0.2L * b));
		    for (int j = 0; j < n; ++j) {
			lc_t x = Q[a * n + j], y = Q[b * n + j];
			Q[a * n + j] = cs * x - conjl(sn) * y;
			Q[b * n + j] = sn * x + cs * y;
		    }
		}
	}
	for (int i = 0; i < n; ++i)
	    for (int j = 0; j < n; ++j)
		T[i * n + j] = Q1[i * n + j] *
		    ((j & 1) ? (long double)sig[si] : 1.0L);
	for (int i = 0; i < n; ++i)
	    for (int j = 0; j < n; ++j) {
		lc_t sum = 0;
		for (int k = 0; k < n; ++k)
		    sum += T[i * n + k] * Q2[k * n + j];
		m0[i * n + j] = (dc)sum;
	    }
	s->consistent = 1;
	snprintf(s->desc, sizeof(s->desc), "rotations #%d around "
		"diag(1, %g, ...): condition number %g, consistent "
		"right-hand sides", av, sig[si], 1.0 / sig[si]);
	break;
    }
    case FAM_FULL: {
	int a = full_alpha(tier, n);
	long t = idx;
	for (int i = 0; i < n * n; ++i) {
	    m0[i] = ALPHA[t % a];
	    t /= a;
	}
	snprintf(s->desc, sizeof(s->desc), "alphabet matrix #%ld of %d^%d",
		idx, a, n * n);
	break;
    }
    case FAM_DENSE:
	gen_dense(n, n, 100 + (uint64_t)idx * 16 + (uint64_t)n, m0);
	snprintf(s->desc, sizeof(s->desc), "dense matrix #%ld", idx);
	break;
    case FAM_GRADED: {
	long t = idx;
	int k = (int)(t % 3); t /= 3;
	int gi = (int)(t % 4); t /= 4;
	int mode = (int)t;
	static const double G[4] = { 1e-3, 0.1, 10.0, 1e3 };
	double g = G[gi];
	gen_dense(n, n, 200 + (uint64_t)k * 16 + (uint64_t)n, m0);
	for (int i = 0; i < n; ++i) {
	    for (int j = 0; j < n; ++j) {
		dc *e = &m0[i * n + j];
		switch (mode) {
		case 0: *e *= pow(g, i); break;
		case 1: *e *= pow(g, j); break;
		case 2: *e *= pow(g, i + j); break;
		default: {
		    double h = 1.0 / (double)(i + j + 1 + gi);
		    if (k == 0) *e = h;
		    else if (k == 1) *e = ((i + j) & 1) ? -h : h;
		    else *e = h + (i == j ? 0.5 * I : 0.0);
		    break;
		}
		}
	    }
	}
	snprintf(s->desc, sizeof(s->desc), "graded base #%d g=%g mode=%s", k,
		g, mode == 0 ? "rows" : mode == 1 ? "columns" :
		mode == 2 ? "rows+columns" : "hilbert-like");
	break;
    }
    case FAM_WIDE: {
	long t = idx;
	int kb = n_base(tier);
	int k = (int)(t % kb); t /= kb;
	gen_dense(n, n, 300 + (uint64_t)k * 16 + (uint64_t)n, m0);
	if (n <= wide_full(tier)) {
	    int row = (int)(t % n); t /= n;
	    long pat = t;
	    for (int j = 0; j < n; ++j) {
		m0[row * n + j] = WIDEVAL[t % 3];
		t /= 3;
	    }
	    snprintf(s->desc, sizeof(s->desc), "dense base #%d, row %d "
		    "replaced by {1e-12,1,1e12} pattern #%ld", k, row, pat);
	} else {
	    int row = (int)(t % n); t /= n;
	    int col = (int)(t % n); t /= n;
	    double mag = t ? 1e12 : 1e10;
	    m0[row * n + col] = mag;
	    snprintf(s->desc, sizeof(s->desc), "dense base #%d, entry (%d,%d)"
		    " = %g", k, row, col, mag);
	}
	break;
    }
    case FAM_PERM: {
	int kb = n_base(tier);
	int k = (int)(idx % kb);
	long p = idx / kb;
	gen_tbase(n, k, m0);
	kth_perm(n, p, s->perm);
	s->transformed = 1;
	snprintf(s->desc, sizeof(s->desc), "base #%d%s, row permutation #%ld",
		k, (k & 1) ? " (entry (0,n-1)=1e10)" : "", p);
	break;
    }
    case FAM_SCALE: {
	int kb = n_base(tier);
	int k = (int)(idx % kb);
	long t = idx / kb;
	gen_tbase(n, k, m0);
	if (n <= scale_full(tier)) {
	    long pat = t;
	    for (int i = 0; i < n; ++i) {
		s->d[i] = SCALEVAL[t % 3];
		t /= 3;
	    }
	    snprintf(s->desc, sizeof(s->desc), "base #%d%s, row scaling "
		    "pattern #%ld of {1e-8,1,1e8}^n", k,
		    (k & 1) ? " (entry (0,n-1)=1e10)" : "", pat);
	} else {
	    int row = (int)(t % n); t /= n;
	    s->d[row] = t ? 1e8 : 1e-8;
	    snprintf(s->desc, sizeof(s->desc), "base #%d%s, row %d scaled by "
		    "%g", k, (k & 1) ? " (entry (0,n-1)=1e10)" : "", row,
		    s->d[row]);
	}
	s->transformed = 1;
	break;
    }
    case FAM_SING: {
	int k = (int)(idx % 2);
	long t = idx / 2;
	gen_int(n, n, 400 + (uint64_t)k * 16 + (uint64_t)n, m0);
	if (t < n) {
	    for (int j = 0; j < n; ++j)
		m0[t * n + j] = 0;
	    s->kind = K_ZEROPIV;
	    snprintf(s->desc, sizeof(s->desc), "integer base #%d, row %ld "
		    "zeroed", k, t);
	    break;
	}
	t -= n;
	if (t < n) {
	    for (int i = 0; i < n; ++i)
		m0[i * n + t] = 0;
	    s->kind = K_ZEROPIV;
	    snprintf(s->desc, sizeof(s->desc), "integer base #%d, column %ld "
		    "zeroed", k, t);
	    break;
	}
	t -= n;
	s->kind = K_SINGULAR;
	int np = n * (n - 1) / 2;
	if (t < 2 * np) {
	    int cols = t >= np;
	    long q = cols ? t - np : t;
	    int a = 0, b = 1;
	    for (a = 0; a < n; ++a) {
		if (q < n - 1 - a) {
		    b = a + 1 + (int)q;
		    break;
		}
		q -= n - 1 - a;
	    }
	    for (int j = 0; j < n; ++j) {
		if (cols)
		    m0[j * n + b] = m0[j * n + a];
		else
		    m0[b * n + j] = m0[a * n + j];
	    }
	    snprintf(s->desc, sizeof(s->desc), "integer base #%d, %s %d "
		    "duplicated into %s %d", k, cols ? "column" : "row", a,
		    cols ? "column" : "row", b);
	    break;
	}
	t -= 2 * np;
	{
	    dc u[NSQ * NSQ], v[NSQ * NSQ];
	    gen_int(n, n - 1, 450 + (uint64_t)t * 32 + (uint64_t)k * 16 +
		    (uint64_t)n, u);
	    gen_int(n - 1, n, 460 + (uint64_t)t * 32 + (uint64_t)k * 16 +
		    (uint64_t)n, v);
	    for (int i = 0; i < n; ++i)
		for (int j = 0; j < n; ++j) {
		    dc sum = 0;
		    for (int l = 0; l < n - 1; ++l)
			sum += u[i * (n - 1) + l] * v[l * n + j];
		    m0[i * n + j] = sum;
		}
	    snprintf(s->desc, sizeof(s->desc), "rank n-1 integer product "
		    "#%ld/%d", t, k);
	}
	break;
    }
    default:
	abort();
    }
    for (int r = 0; r < n; ++r)
	for (int j = 0; j < n; ++j)
	    s->m[r * n + j] = s->d[r] * m0[s->perm[r] * n + j];
}

/* ------------------------------------------------------------------ */
/* judging a square, LU based path				      */
/* ------------------------------------------------------------------ */
static void fail_sys(ctx_t *c, const sys_t *s, const char *kind,
	const char *fmt, ...) __attribute__((format(printf, 4, 5)));
static void fail_sys(ctx_t *c, const sys_t *s, const char *kind,
	const char *fmt, ...)
{
    char sig[160], what[700], mat[500];
    va_list ap;

    if (c->r->status == VF_VIOL)
	return;
    va_start(ap, fmt);
    vsnprintf(what, sizeof(what), fmt, ap);
    va_end(ap);
    fmt_matrix(mat, sizeof(mat), s->m, s->n, s->n);
    snprintf(sig, sizeof(sig), "%s:%s", kind, path_name[c->path]);
    vf_fail(c->r, sig, "%s n=%d: %s [system: %s; matrix divided by (as "
	    "derived from the input) %s]", path_name[c->path], s->n, what,
	    s->desc, mat);
}

/* the library's documented singularity signal on a determinant */
static int det_signals(dc det)
{
    return det == 0.0 || !isnormal(cabs(det));
}

static void judge_det(ctx_t *c, const sys_t *s, const lc_t *A, dc det,
	long double pr)
{
    int n = s->n;

    if (s->kind == K_ZEROPIV) {
	if (!det_signals(det))
	    fail_sys(c, s, "singular-signal", "matrix has a zero row or "
		    "column but the returned determinant %g%+gj is a normal "
		    "non-zero number (callers test == 0 || !isnormal)",
		    creal(det), cimag(det));
	return;
    }
    if (s->kind == K_SINGULAR) {
	long double had = 1;
	for (int i = 0; i < n; ++i) {
	    long double q = 0;
	    for (int j = 0; j < n; ++j)
		q += cabsl(A[i * n + j]) * cabsl(A[i * n + j]);
	    had *= sqrtl(q);
	}
	if (isfinite(creal(det)) && isfinite(cimag(det)) &&
		!((long double)cabs(det) <= 1e-10L * had))
	    fail_sys(c, s, "singular-det", "exactly singular integer matrix "
		    "but returned determinant %g%+gj is not small against the "
		    "product of the row norms %Lg", creal(det), cimag(det),
		    had);
	return;
    }
    if (pr >= PR_DET) {
	lc_t ref = det_ref(n, A);
	long double e = cabsl((lc_t)det - ref);
	if (!(e <= TOL_DET * cabsl(ref)))
	    fail_sys(c, s, "determinant", "returned determinant %.12g%+.12gj,"
		    " long double elimination gives %.12Lg%+.12Lgj (oracle "
		    "pivot ratio %.2Le)", creal(det), cimag(det), creall(ref),
		    cimagl(ref), pr);
    }
}

/*
 * Common verdict of a solve: `side' 0: A X = B (X n x o), 1: X A = B
 * (X o x n).  `out' is what the caller sees; `scale' the input magnitude.
 * Returns 1 if the residual was evaluated.
 */
static int judge_solve(ctx_t *c, const sys_t *s, int side, int o,
	const lc_t *A, const lc_t *B, const long double *Am,
	const long double *Bm, const dc *X, int conversion,
	double scale, long double pr, const char *extra)
{
    int n = s->n;
    long double res;

    ++c->r->transitions;
    if (s->kind != K_REGULAR) {
	++c->singular;
	if (conversion) {
	    if (all_finite(X, n * o) && (c->minsing == 0 ||
			maxabs(X, n * o) / scale < c->minsing))
		c->minsing = maxabs(X, n * o) / scale;
	    if (vf_verbose && all_finite(X, n * o))
		vf_note("SING ratio %.3e scale %g maxout %g: %s",
			maxabs(X, n * o) / scale, scale, maxabs(X, n * o),
			s->desc);
	    if (all_finite(X, n * o) && !(maxabs(X, n * o) > BIG * scale))
		fail_sys(c, s, "singular-plausible", "matrix to divide by is "
			"exactly singular but the output is finite with "
			"largest entry %g (input scale %g)%s",
			maxabs(X, n * o), scale, extra);
	}
	return 0;
    }
    if (!(pr >= PR_MIN) && !(s->consistent && all_finite(X, n * o))) {
	++c->skipped;
	return 0;
    }
    ++c->checked;
    res = side ? resid_right(o, n, X, A, B, Am, Bm) :
		 resid_left(n, o, A, X, B, Am, Bm);
    if (!(res <= c->worst))
	c->worst = res;
    if (!(res <= TOL_ROW)) {
	char xs[400];
	fmt_matrix(xs, sizeof(xs), X, side ? o : n, side ? n : o);
	fail_sys(c, s, "residual", "row-wise backward error of %s is %.3Le "
		"(allowed %.0Le; oracle pivot ratio after row equilibration "
		"%.2Le)%s result=%s", side ? "X A = B" : "A X = B", res,
		(long double)TOL_ROW, pr, extra, xs);
    }
    return 1;
}

/* z0 vectors for the S paths; set 0 is exact (powers of two) */
static void gen_z0(int n, int set, dc *z0)
{
    for (int i = 0; i < n; ++i) {
	if (set == 0)
	    z0[i] = 2.0;
	else
	    z0[i] = (i % 3 == 0) ? 1.0 + 0.5 * I :
		    (i % 3 == 1) ? 2.0 : 0.5 - 0.25 * I;
    }
}

static void run_conv(ctx_t *c, const sys_t *s)
{
    int n = s->n, nn = n * n;
    int nz = (c->path == P_ZTOY || c->path == P_YTOZ) ? 1 :
	(s->kind != K_REGULAR ? 1 : 2);

    for (int zi_ = 0; zi_ < 2 * nz; ++zi_) {
	const int zs = zi_ / 2, inplace = zi_ % 2;
	dc z0[NSQ], in[NSQ * NSQ], out[NSQ * NSQ];
	lc_t A[NSQ * NSQ], B[NSQ * NSQ], K[NSQ];
	long double Am[NSQ * NSQ], Bm[NSQ * NSQ];
	int side = 0;
	char extra[64];

	gen_z0(n, zs, z0);
	for (int i = 0; i < n; ++i)
	    K[i] = 1.0L / sqrtl(fabsl((long double)creal(z0[i])));
	for (int i = 0; i < nn; ++i)
	    out[i] = NAN;
	snprintf(extra, sizeof(extra), " z0 set %d", zs);
	/* build the input so that the matrix divided by is s->m */
	for (int i = 0; i < n; ++i) {
	    for (int j = 0; j < n; ++j) {
		dc e = s->m[i * n + j], d = (i == j) ? 1.0 : 0.0;
		lc_t *a = &A[i * n + j], *b = &B[i * n + j];
		lc_t ld = d;
		switch (c->path) {
		case P_ZTOY:
		case P_YTOZ:
		    in[i * n + j] = e;
		    break;
		case P_STOZ:		/* divides by I - S */
		    in[i * n + j] = d - e;
		    break;
		case P_ZTOS:		/* divides by Z + Z0 */
		    in[i * n + j] = e - d * z0[i];
		    break;
		case P_STOY:		/* divides by Z0* + S Z0 */
		    in[i * n + j] = (e - d * conj(z0[i])) / z0[j];
		    break;
		case P_YTOS:		/* divides by I + Z0 Y */
		    in[i * n + j] = (e - d) / z0[i];
		    break;
		default:
		    abort();
		}
		/* the linear system behind the conversion, from vnaconv(3):
		   a = K (v + Z0 i)/2, b = K (v - Z0* i)/2, b = S a,
		   v = Z i, i = Y v, K = 1/sqrt|Re Z0| */
		lc_t x = (lc_t)in[i * n + j];
		lc_t zi = (lc_t)z0[i], zj = (lc_t)z0[j];
		lc_t t1, t2, t3, t4;	/* a = t1 + t2, b = t3 + t4 */
		switch (c->path) {
		case P_ZTOY:
		case P_YTOZ:		/* in * out = I */
		    t1 = x; t2 = 0; t3 = ld; t4 = 0;
		    break;
		case P_STOZ:		/* (K - S K) Z = K Z0* + S K Z0 */
		    t1 = ld * K[i]; t2 = -x * K[j];
		    t3 = ld * K[i] * conjl(zi); t4 = x * K[j] * zj;
		    break;
		case P_STOY:		/* (K Z0* + S K Z0) Y = K - S K */
		    t1 = ld * K[i] * conjl(zi); t2 = x * K[j] * zj;
		    t3 = ld * K[i]; t4 = -x * K[j];
		    break;
		case P_ZTOS:		/* S K (Z + Z0) = K (Z - Z0*) */
		    t1 = K[i] * x; t2 = K[i] * ld * zi;
		    t3 = K[i] * x; t4 = -K[i] * ld * conjl(zi);
		    side = 1;
		    break;
		default:		/* S K (I + Z0 Y) = K (I - Z0* Y) */
		    t1 = K[i] * ld; t2 = K[i] * zi * x;
		    t3 = K[i] * ld; t4 = -K[i] * conjl(zi) * x;
		    side = 1;
		    break;
		}
		*a = t1 + t2;
		*b = t3 + t4;
		/* the problem's scale: magnitudes of the terms the system
		   is formed from (forming I - S etc. may cancel) */
		Am[i * n + j] = cabsl(t1) + cabsl(t2);
		Bm[i * n + j] = cabsl(t3) + cabsl(t4);
	    }
	}
	/* a result buffer that is never written must not pass for a
	   singular input: it starts as the input (plausible numbers); the
	   second pass converts in place, which vnaconv(3) permits */
	if (s->kind != K_REGULAR || inplace)
	    memcpy(out, in, sizeof(dc) * (size_t)nn);
	{
	    const dc *src = inplace ? out : in;
	    switch (c->path) {
	    case P_ZTOY: vnaconv_ztoyn(src, out, n); break;
	    case P_YTOZ: vnaconv_ytozn(src, out, n); break;
	    case P_STOZ: vnaconv_stozn(src, out, z0, n); break;
	    case P_ZTOS: vnaconv_ztosn(src, out, z0, n); break;
	    case P_STOY: vnaconv_stoyn(src, out, z0, n); break;
	    case P_YTOS: vnaconv_ytosn(src, out, z0, n); break;
	    }
	}
	snprintf(extra + strlen(extra), sizeof(extra) - strlen(extra), "%s",
		inplace ? " in place" : "");
	if (s->kind != K_REGULAR) {
	    /* only assert on inputs whose divided-by matrix is exactly the
	       integer singular matrix */
	    int exact = 1;
	    for (int i = 0; i < nn; ++i) {
		lc_t want = (lc_t)s->m[i];
		lc_t have = A[i];
		if (c->path == P_STOZ || c->path == P_STOY ||
			c->path == P_ZTOS || c->path == P_YTOS)
		    have /= K[(c->path == P_ZTOS || c->path == P_YTOS) ?
			i / n : i % n];
		if (cabsl(have - want) > 1e-17L * cabsl(want))
		    exact = 0;
	    }
	    if (!exact) {
		++c->skipped;
		continue;
	    }
	}
	/* natural magnitude of the output of a regular conversion of inputs
	   of this size: largest term of the right-hand side over largest
	   term of the matrix divided by (1/max|in| for ztoyn, ytozn) */
	long double am = 0, bm = 0;
	for (int i = 0; i < nn; ++i) {
	    if (Am[i] > am) am = Am[i];
	    if (Bm[i] > bm) bm = Bm[i];
	}
	double scale = am > 0 ? (double)(bm / am) : 1.0;
	judge_solve(c, s, side, n, A, B, Am, Bm, out, 1, scale,
		s->kind == K_REGULAR ? pivot_ratio_roweq(n, A, Am) : 0, extra);
    }
}

/* right-hand sides: B0 rows follow the base system, B the transformed one */
static void gen_rhs(const sys_t *s, int o, dc *b0, dc *b)
{
    int n = s->n;
    if (s->consistent) {
	/* B = A X0, X0 of order one, in long double, rounded once */
	dc x0[NSQ * NSQ];
	gen_dense(n, o, 700 + (uint64_t)s->bseed * 16 + (uint64_t)o, x0);
	for (int r = 0; r < n; ++r)
	    for (int j = 0; j < o; ++j) {
		lc_t sum = 0;
		for (int k = 0; k < n; ++k)
		    sum += (lc_t)s->m[r * n + k] * (lc_t)x0[k * o + j];
		b0[r * o + j] = b[r * o + j] = (dc)sum;
	    }
	return;
    }
    gen_dense(n, o, 700 + (uint64_t)s->bseed * 16 + (uint64_t)o, b0);
    for (int r = 0; r < n; ++r)
	for (int j = 0; j < o; ++j)
	    b[r * o + j] = s->d[r] * b0[s->perm[r] * o + j];
}

static void run_internal(ctx_t *c, const sys_t *s)
{
    int n = s->n, nn = n * n;
    lc_t A[NSQ * NSQ], A0[NSQ * NSQ];
    long double pr;
    dc a[NSQ * NSQ], det;

    to_lc(A, s->m, nn);
    to_lc(A0, s->m0, nn);
    pr = s->kind == K_REGULAR ? pivot_ratio_roweq(n, A, NULL) : 0;

    if (c->path == P_LU) {
	int ri[NSQ], seen[NSQ] = { 0 }, okperm = 1;

	memcpy(a, s->m, sizeof(dc) * (size_t)nn);
	for (int i = 0; i < n; ++i)
	    ri[i] = -1;
	det = _vnacommon_lu(a, ri, n);
	++c->r->transitions;
	for (int i = 0; i < n; ++i) {
	    if (ri[i] < 0 || ri[i] >= n || seen[ri[i]])
		okperm = 0;
	    else
		seen[ri[i]] = 1;
	}
	if (!okperm) {
	    fail_sys(c, s, "row-index", "row_index is not a permutation of "
		    "0..n-1");
	    return;
	}
	judge_det(c, s, A, det, pr);
	if (s->kind != K_REGULAR) {
	    ++c->singular;
	    return;
	}
	if (!(pr >= PR_MIN)) {
	    ++c->skipped;
	    return;
	}
	++c->checked;
	/* L U against the rows of A picked by row_index */
	long double worst = 0;
	if (!all_finite(a, nn))
	    worst = INFINITY;
	for (int i = 0; i < n && worst != INFINITY; ++i) {
	    long double rm = 0;
	    for (int j = 0; j < n; ++j)
		if (cabsl(A[ri[i] * n + j]) > rm)
		    rm = cabsl(A[ri[i] * n + j]);
	    for (int j = 0; j < n; ++j) {
		lc_t sum = 0;
		long double asum = 0;
		int kmax = i < j ? i : j;
		for (int k = 0; k <= kmax; ++k) {
		    lc_t l = (k == i) ? 1.0L : (lc_t)a[i * n + k];
		    lc_t u = (lc_t)a[k * n + j];
		    sum += l * u;
		    asum += cabsl(l) * cabsl(u);
		}
		long double den = asum > rm ? asum : rm;
		long double q = cabsl(sum - A[ri[i] * n + j]);
		q = q == 0 ? 0 : q / den;
		if (!(q <= worst))
		    worst = q;
	    }
	}
	if (!(worst <= c->worst))
	    c->worst = worst;
	if (!(worst <= TOL_ROW))
	    fail_sys(c, s, "residual", "L U differs from the rows of A "
		    "selected by row_index: row-wise relative error %.3Le "
		    "(oracle pivot ratio %.2Le)", worst, pr);
	return;
    }
    if (c->path == P_MINV) {
	dc x[NSQ * NSQ];
	lc_t B[NSQ * NSQ];

	memcpy(a, s->m, sizeof(dc) * (size_t)nn);
	for (int i = 0; i < nn; ++i) {
	    x[i] = NAN;
	    B[i] = (i / n == i % n) ? 1.0L : 0.0L;
	}
	det = _vnacommon_minverse(x, a, n);
	judge_det(c, s, A, det, pr);
	judge_solve(c, s, 0, n, A, B, NULL, NULL, x, 0, 1.0, pr, "");
	return;
    }
    /* mldivide / mrdivide with 1, 3 and n right-hand sides */
    for (int v = 0; v < 3; ++v) {
	int o = v == 0 ? 1 : v == 1 ? 3 : n;
	dc b0[NSQ * NSQ], b[NSQ * NSQ], x[NSQ * NSQ], xb[NSQ * NSQ];
	lc_t B[NSQ * NSQ], B0[NSQ * NSQ];
	char extra[64];

	if (v == 2 && (n == 1 || n == 3))
	    continue;
	if (o > NSQ)
	    continue;
	memcpy(a, s->m, sizeof(dc) * (size_t)nn);
	for (int i = 0; i < n * o; ++i)
	    x[i] = NAN;
	snprintf(extra, sizeof(extra), " (%d right-hand %s)", o,
		c->path == P_MLD ? "columns" : "rows");
	if (c->path == P_MLD) {
	    gen_rhs(s, o, b0, b);
	    to_lc(B, b, n * o);
	    to_lc(B0, b0, n * o);
	    det = _vnacommon_mldivide(x, a, b, n, o);
	    if (v == 0)
		judge_det(c, s, A, det, pr);
	    if (judge_solve(c, s, 0, o, A, B, NULL, NULL, x, 0, 1.0, pr, extra) &&
		    s->transformed) {
		/* the permuted / row-scaled system has the same solution:
		   it must satisfy the base system to the same bound */
		long double res = resid_left(n, o, A0, x, B0, NULL, NULL);
		if (!(res <= TOL_ROW))
		    fail_sys(c, s, "invariance", "solution of the permuted/"
			    "row-scaled system does not solve the base system:"
			    " row-wise backward error %.3Le%s", res, extra);
	    }
	} else {
	    /* X A = B, B is o x n and is not row-transformed with A */
	    gen_dense(o, n, 800 + (uint64_t)s->bseed * 16 + (uint64_t)o, b);
	    if (s->consistent) {
		/* B = X0 A */
		dc x0[NSQ * NSQ];
		memcpy(x0, b, sizeof(dc) * (size_t)(o * n));
		for (int i = 0; i < o; ++i)
		    for (int j = 0; j < n; ++j) {
			lc_t sum = 0;
			for (int k = 0; k < n; ++k)
			    sum += (lc_t)x0[i * n + k] * (lc_t)s->m[k * n + j];
			b[i * n + j] = (dc)sum;
		    }
	    }
	    to_lc(B, b, n * o);
	    det = _vnacommon_mrdivide(x, b, a, o, n);
	    if (v == 0)
		judge_det(c, s, A, det, pr);
	    if (judge_solve(c, s, 1, o, A, B, NULL, NULL, x, 0, 1.0, pr, extra) &&
		    s->transformed) {
		/* X' (D P A0) = B  <=>  (X' D P) A0 = B */
		for (int i = 0; i < o; ++i)
		    for (int r = 0; r < n; ++r)
			xb[i * n + s->perm[r]] = x[i * n + r] * s->d[r];
		long double res = resid_right(o, n, xb, A0, B, NULL, NULL);
		if (!(res <= TOL_ROW))
		    fail_sys(c, s, "invariance", "solution of the permuted/"
			    "row-scaled system, mapped back, does not solve "
			    "the base system: backward error %.3Le%s", res,
			    extra);
	    }
	}
    }
}

/* ------------------------------------------------------------------ */
/* QR paths							      */
/* ------------------------------------------------------------------ */
static const int shapes[][2] = {
    { 1, 1 }, { 2, 2 }, { 3, 3 }, { 4, 4 }, { 5, 5 }, { 6, 6 }, { 7, 7 },
    { 8, 8 },
    { 2, 1 }, { 3, 1 }, { 3, 2 }, { 4, 2 }, { 4, 3 }, { 6, 3 }, { 8, 4 },
    { 10, 5 }, { 12, 6 }, { 16, 8 }, { 20, 10 }, { 24, 12 }, { 30, 14 },
    { 40, 15 }, { 40, 1 }, { 15, 14 },
    { 1, 2 }, { 2, 3 }, { 3, 5 }, { 4, 8 },
};
#define NSHAPE ((int)(sizeof(shapes) / sizeof(shapes[0])))

typedef struct {
    int m, n;
    dc a[MAXM * MAXN];
    int zero_col;		/* >= 0: that column is exactly zero */
    int bseed;
    char desc[200];
} rect_t;

static long rfam_count(int tier, int fam, int m, int n)
{
    int kb = n_base(tier);
    switch (fam) {
    case FAM_DENSE:   return tier ? 100 : 8;
    case FAM_GRADED:  return 3L * 4 * 3;
    case FAM_WIDE:    return (long)kb * (m < 6 ? m : 6) * (n < 4 ? n : 4) * 2;
    case FAM_PERM:    return (m >= 2) ?
		      (long)kb * (m <= 4 ? fact(m) : m) : 0;
    case FAM_SCALE:   return (long)kb * (m < 8 ? m : 8) * 4;
    case FAM_NEARTRI: return 3L * 4;
    case FAM_SING:    return m >= n ? 2L * 2 * n : 0;
    default:	      return 0;
    }
}

static void gen_rect(int tier, int fam, int m, int n, long idx, rect_t *q)
{
    dc base[MAXM * MAXN];
    int kb = n_base(tier);

    q->m = m;
    q->n = n;
    q->zero_col = -1;
    q->bseed = (int)(idx % 3);
    switch (fam) {
    case FAM_DENSE:
	gen_dense(m, n, 1100 + (uint64_t)idx * 64 + (uint64_t)(m + n), q->a);
	snprintf(q->desc, sizeof(q->desc), "dense matrix #%ld", idx);
	break;
    case FAM_GRADED: {
	long t = idx;
	int k = (int)(t % 3); t /= 3;
	int gi = (int)(t % 4); t /= 4;
	int mode = (int)t;
	static const double G[4] = { 0.1, 0.5, 2.0, 10.0 };
	gen_dense(m, n, 1200 + (uint64_t)k * 64 + (uint64_t)(m + n), q->a);
	for (int i = 0; i < m; ++i)
	    for (int j = 0; j < n; ++j) {
		if (mode == 0)
		    q->a[i * n + j] *= pow(G[gi], j);
		else if (mode == 1)
		    q->a[i * n + j] *= pow(G[gi], (double)i * 8.0 / m);
		else
		    q->a[i * n + j] = 1.0 / (double)(i + j + 1 + gi) +
			(k ? 0.05 * q->a[i * n + j] : 0.0);
	    }
	snprintf(q->desc, sizeof(q->desc), "graded base #%d g=%g mode=%s",
		k, G[gi], mode == 0 ? "columns" : mode == 1 ? "rows" :
		"hilbert-like");
	break;
    }
    case FAM_WIDE: {
	long t = idx;
	int k = (int)(t % kb); t /= kb;
	int nr = m < 6 ? m : 6, nc = n < 4 ? n : 4;
	int ri = (int)(t % nr); t /= nr;
	int ci = (int)(t % nc); t /= nc;
	int row = nr == m ? ri : ri * (m - 1) / (nr - 1);
	int col = nc == n ? ci : ci * (n - 1) / (nc - 1);
	double mag = t ? 1e12 : 1e10;
	gen_dense(m, n, 1300 + (uint64_t)k * 64 + (uint64_t)(m + n), q->a);
	q->a[row * n + col] = mag;
	snprintf(q->desc, sizeof(q->desc), "dense base #%d, entry (%d,%d) = "
		"%g", k, row, col, mag);
	break;
    }
    case FAM_PERM: {
	int k = (int)(idx % kb);
	long p = idx / kb;
	int perm[MAXM];
	gen_dense(m, n, 1400 + (uint64_t)k * 64 + (uint64_t)(m + n), base);
	if ((k & 1) && n >= 2)
	    base[n - 1] = 1e6;
	if (m <= 4)
	    kth_perm(m, p, perm);
	else
	    for (int i = 0; i < m; ++i)
		perm[i] = (int)((i + p) % m);
	for (int i = 0; i < m; ++i)
	    memcpy(&q->a[i * n], &base[perm[i] * n], sizeof(dc) * (size_t)n);
	snprintf(q->desc, sizeof(q->desc), "base #%d, row %s #%ld", k,
		m <= 4 ? "permutation" : "rotation", p);
	break;
    }
    case FAM_SCALE: {
	long t = idx;
	int k = (int)(t % kb); t /= kb;
	int nr = m < 8 ? m : 8;
	int ri = (int)(t % nr); t /= nr;
	int row = nr == m ? ri : ri * (m - 1) / (nr - 1);
	static const double SC[4] = { 1e-8, 1e-3, 1e3, 1e8 };
	gen_dense(m, n, 1500 + (uint64_t)k * 64 + (uint64_t)(m + n), q->a);
	for (int j = 0; j < n; ++j)
	    q->a[row * n + j] *= SC[t];
	snprintf(q->desc, sizeof(q->desc), "dense base #%d, row %d scaled by "
		"%g", k, row, SC[t]);
	break;
    }
    case FAM_NEARTRI: {
	int k = (int)(idx % 3);
	int ei = (int)(idx / 3);
	static const double EPS[4] = { 0.0, 1e-12, 1e-9, 1e-6 };
	gen_dense(m, n, 1600 + (uint64_t)k * 64 + (uint64_t)(m + n), q->a);
	for (int i = 0; i < m; ++i)
	    for (int j = 0; j < n; ++j) {
		if (i > j)
		    q->a[i * n + j] *= EPS[ei];
		else if (i == j && q->a[i * n + j] == 0.0)
		    q->a[i * n + j] = 1.5;
	    }
	snprintf(q->desc, sizeof(q->desc), "upper triangular base #%d with "
		"sub-diagonal part scaled by %g", k, EPS[ei]);
	break;
    }
    case FAM_SING: {
	int k = (int)(idx % 2);
	long t = idx / 2;
	int dup = (int)(t / n);
	int col = (int)(t % n);
	gen_int(m, n, 1700 + (uint64_t)k * 64 + (uint64_t)(m + n), q->a);
	if (!dup || n == 1) {
	    for (int i = 0; i < m; ++i)
		q->a[i * n + col] = 0;
	    q->zero_col = col;
	    snprintf(q->desc, sizeof(q->desc), "integer base #%d, column %d "
		    "zeroed", k, col);
	} else {
	    int from = (col + 1) % n;
	    for (int i = 0; i < m; ++i)
		q->a[i * n + col] = q->a[i * n + from];
	    q->zero_col = -2;		/* singular, nothing claimed on rank */
	    snprintf(q->desc, sizeof(q->desc), "integer base #%d, column %d "
		    "duplicates column %d", k, col, from);
	}
	break;
    }
    default:
	abort();
    }
}

static void fail_rect(ctx_t *c, const rect_t *q, int o, const char *kind,
	const char *fmt, ...) __attribute__((format(printf, 5, 6)));
static void fail_rect(ctx_t *c, const rect_t *q, int o, const char *kind,
	const char *fmt, ...)
{
    char sig[160], what[700], mat[500];
    va_list ap;

    if (c->r->status == VF_VIOL)
	return;
    va_start(ap, fmt);
    vsnprintf(what, sizeof(what), fmt, ap);
    va_end(ap);
    fmt_matrix(mat, sizeof(mat), q->a, q->m, q->n);
    snprintf(sig, sizeof(sig), "%s:%s", kind, path_name[c->path]);
    vf_fail(c->r, sig, "%s %dx%d, %d right-hand columns: %s [system: %s; "
	    "A=%s]", path_name[c->path], q->m, q->n, o, what, q->desc, mat);
}

static void run_qr(ctx_t *c, const rect_t *q)
{
    int m = q->m, n = q->n, dg = m < n ? m : n;
    static lc_t A[MAXM * MAXN];
    long double pr, fro = 0, cn[MAXN];

    to_lc(A, q->a, m * n);
    for (int j = 0; j < n; ++j) {
	long double s = 0;
	for (int i = 0; i < m; ++i)
	    s += cabsl(A[i * n + j]) * cabsl(A[i * n + j]);
	cn[j] = sqrtl(s);
	fro += s;
    }
    fro = sqrtl(fro);
    pr = q->zero_col == -1 ? (m >= n ? pivot_ratio_coleq(m, n, A) : 0) : 0;
    if (m < n && q->zero_col == -1) {
	/* wide: leading m x m block decides */
	lc_t w[NSQ * NSQ];
	for (int i = 0; i < m; ++i)
	    for (int j = 0; j < m; ++j)
		w[i * m + j] = A[i * n + j];
	pr = pivot_ratio_coleq(m, m, w);
    }

    for (int o = 1; o <= 2; ++o) {
	static dc a[MAXM * MAXN], b[MAXM * 2], bw[MAXM * 2], x[MAXN * 2];
	static dc qm[MAXM * MAXM], rm[MAXM * MAXN];
	int rank;

	gen_dense(m, o, 1900 + (uint64_t)q->bseed * 16 + (uint64_t)o, b);
	if (o == 2 && m > n) {
	    /* the second right-hand side of an over-determined system is
	       consistent: b = A x0 (formed in long double, rounded once) */
	    static dc x0[MAXN];
	    gen_dense(n, 1, 1950 + (uint64_t)q->bseed, x0);
	    for (int i = 0; i < m; ++i) {
		lc_t sum = 0;
		for (int j = 0; j < n; ++j)
		    sum += A[i * n + j] * (lc_t)x0[j];
		b[i * o + 1] = (dc)sum;
	    }
	}
	memcpy(a, q->a, sizeof(dc) * (size_t)(m * n));
	memcpy(bw, b, sizeof(dc) * (size_t)(m * o));
	for (int i = 0; i < n * o; ++i)
	    x[i] = NAN;
	if (c->path == P_QRSOLVE) {
	    rank = _vnacommon_qrsolve(x, a, bw, m, n, o);
	    ++c->r->transitions;
	} else {
	    for (int i = 0; i < m * m; ++i)
		qm[i] = NAN;
	    for (int i = 0; i < m * n; ++i)
		rm[i] = NAN;
	    rank = _vnacommon_qr(a, qm, rm, m, n);
	    _vnacommon_qrsolve2(x, qm, rm, b, m, n, o);
	    c->r->transitions += 2;
	}
	if (q->zero_col >= 0) {
	    /* exact zero pivot: the documented signal is rank < unknowns */
	    ++c->singular;
	    if (q->zero_col < dg && rank >= dg)
		fail_rect(c, q, o, "singular-signal", "column %d of A is "
			"exactly zero but the returned rank is %d (callers "
			"test rank < unknowns)", q->zero_col, rank);
	    continue;
	}
	if (q->zero_col == -2) {
	    ++c->singular;
	    continue;
	}
	if (!(pr >= PR_MIN)) {
	    ++c->skipped;
	    continue;
	}
	++c->checked;
	if (rank != dg)
	    fail_rect(c, q, o, "rank", "returned rank %d for a matrix of full "
		    "rank %d (oracle pivot ratio after column equilibration "
		    "%.2Le)", rank, dg, pr);
	if (!all_finite(x, n * o)) {
	    fail_rect(c, q, o, "residual", "non-finite solution for a full-"
		    "rank system (oracle pivot ratio %.2Le)", pr);
	    continue;
	}
	if (c->path == P_QRSOLVE2 && o == 1) {
	    /* Q unitary, R upper triangular, Q R = A column-wise */
	    long double wq = 0, wr = 0;
	    int tri = 1;
	    if (!all_finite(qm, m * m) || !all_finite(rm, m * n)) {
		fail_rect(c, q, o, "factor", "non-finite Q or R");
		continue;
	    }
	    for (int i = 0; i < m; ++i)
		for (int j = 0; j < m; ++j) {
		    lc_t s = 0;
		    for (int k = 0; k < m; ++k)
			s += conjl((lc_t)qm[k * m + i]) * (lc_t)qm[k * m + j];
		    long double e = cabsl(s - (i == j ? 1.0L : 0.0L));
		    if (e > wq)
			wq = e;
		}
	    for (int i = 0; i < m; ++i)
		for (int j = 0; j < n && j < i; ++j)
		    if (rm[i * n + j] != 0.0)
			tri = 0;
	    for (int j = 0; j < n; ++j) {
		long double s2 = 0;
		for (int i = 0; i < m; ++i) {
		    lc_t s = -A[i * n + j];
		    for (int k = 0; k < m; ++k)
			s += (lc_t)qm[i * m + k] * (lc_t)rm[k * n + j];
		    s2 += cabsl(s) * cabsl(s);
		}
		long double e = cn[j] > 0 ? sqrtl(s2) / cn[j] :
		    (s2 > 0 ? INFINITY : 0);
		if (!(e <= wr))
		    wr = e;
	    }
	    if (!(wq <= 1e-11L))
		fail_rect(c, q, o, "factor", "Q is not unitary: |Q'Q - I| "
			"max %.3Le", wq);
	    if (!tri)
		fail_rect(c, q, o, "factor", "R has a non-zero entry below "
			"the diagonal");
	    if (!(wr <= TOL_NORM))
		fail_rect(c, q, o, "factor", "Q R differs from A: column-wise"
			" relative error %.3Le", wr);
	    if (!(wr <= c->worst))
		c->worst = wr;
	}
	for (int k = 0; k < o; ++k) {
	    static lc_t res[MAXM];
	    long double xn = 0, bn = 0, rn = 0;

	    for (int j = 0; j < n; ++j)
		xn += cabsl((lc_t)x[j * o + k]) * cabsl((lc_t)x[j * o + k]);
	    xn = sqrtl(xn);
	    for (int i = 0; i < m; ++i) {
		lc_t s = -(lc_t)b[i * o + k];
		for (int j = 0; j < n; ++j)
		    s += A[i * n + j] * (lc_t)x[j * o + k];
		res[i] = s;
		rn += cabsl(s) * cabsl(s);
		bn += cabsl((lc_t)b[i * o + k]) * cabsl((lc_t)b[i * o + k]);
	    }
	    rn = sqrtl(rn);
	    bn = sqrtl(bn);
	    long double den = fro * xn + bn;
	    if (m <= n) {
		/* consistent system: norm-wise backward error */
		long double e = rn == 0 ? 0 : rn / den;
		if (!(e <= c->worst))
		    c->worst = e;
		if (!(e <= TOL_NORM))
		    fail_rect(c, q, o, "residual", "norm-wise backward error "
			    "|A x - b| / (|A|_F |x| + |b|) = %.3Le for "
			    "right-hand column %d (oracle pivot ratio %.2Le)",
			    e, k, pr);
		for (int j = m; j < n; ++j)
		    if (x[j * o + k] != 0.0)
			fail_rect(c, q, o, "excess-unknown", "under-"
				"determined system: excess unknown %d is "
				"%g%+gj, documented to be zero", j,
				creal(x[j * o + k]), cimag(x[j * o + k]));
	    }
	    if (m > n && o == 2 && k == 1) {
		/* consistent over-determined system: a backward-stable
		   solver leaves a residual of the order of the rounding of
		   A and b, whatever the condition of A; solving through
		   A^H A leaves one that grows with the condition */
		long double e = rn == 0 ? 0 : rn / den;
		if (!(e <= TOL_CONS))
		    fail_rect(c, q, o, "residual-consistent", "consistent "
			    "over-determined system: norm-wise backward "
			    "error |A x - b| / (|A|_F |x| + |b|) = %.3Le "
			    "(oracle pivot ratio %.2Le)", e, pr);
	    }
	    if (m >= n) {
		/* minimiser: A^H (A x - b) = 0, column by column against
		   |A_j|_2 (|A|_F |x|_2 + |b|_2) */
		for (int j = 0; j < n; ++j) {
		    lc_t s = 0;
		    for (int i = 0; i < m; ++i)
			s += conjl(A[i * n + j]) * res[i];
		    long double d2 = cn[j] * den;
		    long double e = s == 0 ? 0 : cabsl(s) / d2;
		    if (!(e <= c->worst))
			c->worst = e;
		    if (!(e <= TOL_NEQ)) {
			fail_rect(c, q, o, "normal-equations", "solution is "
				"not the least-squares minimiser: |A^H (A x "
				"- b)|_%d / (|A_%d| (|A|_F |x| + |b|)) = %.3Le"
				" for right-hand column %d (oracle pivot "
				"ratio %.2Le)", j, j, e, k, pr);
			break;
		    }
		}
	    }
	}
    }
}

/* ------------------------------------------------------------------ */
/* vnacal_apply: a/b -> m reduction on an identity 2x2 calibration     */
/* ------------------------------------------------------------------ */
static vf_errlog apply_log;

static void run_apply(ctx_t *c, int tier, long first, long last)
{
    vf_result *r = c->r;
    vnacal_t *vcp = NULL;
    vnacal_new_t *vnp = NULL;
    vnadata_t *vdp = NULL;
    int ci = -1;
    const double fv[1] = { 1e9 };
    const dc Sdut[4] = { 0.2 + 0.1 * I, 0.7 - 0.2 * I, 0.6 + 0.3 * I,
	-0.1 + 0.3 * I };

    vf_errlog_reset(&apply_log);
    vcp = vnacal_create((vnaerr_error_fn_t *)vf_errfn, &apply_log);
    if (vcp == NULL)
	goto setup_failed;
    vnp = vnacal_new_alloc(vcp, VNACAL_T8, 2, 2, 1);
    if (vnp == NULL)
	goto setup_failed;
    if (vnacal_new_set_frequency_vector(vnp, fv) == -1)
	goto setup_failed;
    {
	/* ideal instrument: measured = actual for short-open, open-short
	   and through */
	dc m11[1], m12[1], m21[1], m22[1];
	dc *mm[4] = { m11, m12, m21, m22 };
	m11[0] = -1; m12[0] = 0; m21[0] = 0; m22[0] = 1;
	if (vnacal_new_add_double_reflect_m(vnp, mm, 2, 2, VNACAL_SHORT,
		    VNACAL_OPEN, 1, 2) == -1)
	    goto setup_failed;
	m11[0] = 1; m22[0] = -1;
	if (vnacal_new_add_double_reflect_m(vnp, mm, 2, 2, VNACAL_OPEN,
		    VNACAL_SHORT, 1, 2) == -1)
	    goto setup_failed;
	m11[0] = 0; m22[0] = 0;
	if (vnacal_new_add_double_reflect_m(vnp, mm, 2, 2, VNACAL_MATCH,
		    VNACAL_MATCH, 1, 2) == -1)
	    goto setup_failed;
	m11[0] = 0; m12[0] = 1; m21[0] = 1; m22[0] = 0;
	if (vnacal_new_add_through_m(vnp, mm, 2, 2, 1, 2) == -1)
	    goto setup_failed;
    }
    if (vnacal_new_solve(vnp) == -1)
	goto setup_failed;
    ci = vnacal_add_calibration(vcp, "ident", vnp);
    if (ci < 0)
	goto setup_failed;
    vdp = vnadata_alloc((vnaerr_error_fn_t *)vf_errfn, &apply_log);
    if (vdp == NULL)
	goto setup_failed;

    for (long idx = first; idx < last && r->status != VF_VIOL; ++idx) {
	sys_t s;
	long t = idx;
	int fam, found = 0;
	dc av[4][1], bv[4][1];
	dc *ap[4] = { av[0], av[1], av[2], av[3] };
	dc *bp[4] = { bv[0], bv[1], bv[2], bv[3] };
	dc out[4];
	lc_t A[4], B[4];
	int rc;

	for (fam = 0; fam < NFAM; ++fam) {
	    long k = fam_count(tier, fam, 2);
	    if (t < k) {
		found = 1;
		break;
	    }
	    t -= k;
	}
	if (!found)
	    break;
	gen_system(tier, fam, 2, t, &s);
	/* b = S a in long double, rounded once */
	for (int i = 0; i < 2; ++i)
	    for (int j = 0; j < 2; ++j) {
		lc_t sum = 0;
		for (int k = 0; k < 2; ++k)
		    sum += (lc_t)Sdut[i * 2 + k] * (lc_t)s.m[k * 2 + j];
		bv[i * 2 + j][0] = (dc)sum;
		av[i * 2 + j][0] = s.m[i * 2 + j];
		A[i * 2 + j] = (lc_t)av[i * 2 + j][0];
		B[i * 2 + j] = (lc_t)bv[i * 2 + j][0];
	    }
	vf_errlog_reset(&apply_log);
	errno = 0;
	rc = vnacal_apply(vcp, ci, fv, 1, ap, 2, 2, bp, 2, 2, vdp);
	int en = errno;
	++r->transitions;
	if (s.kind == K_ZEROPIV) {
	    ++c->singular;
	    if (rc != -1 || en != EDOM || apply_log.count < 1 ||
		    apply_log.category[0] != VNAERR_MATH)
		fail_sys(c, &s, "singular-signal", "'a' matrix has a zero "
			"row or column: vnacal_apply returned %d, errno %d, "
			"%d error callbacks (first category %d); documented: "
			"-1 with VNAERR_MATH / EDOM", rc, en, apply_log.count,
			apply_log.count ? apply_log.category[0] : -1);
	    continue;
	}
	if (s.kind == K_SINGULAR) {
	    ++c->singular;
	    if (rc == 0) {
		for (int i = 0; i < 4; ++i)
		    out[i] = vnadata_get_cell(vdp, 0, i / 2, i % 2);
		if (all_finite(out, 4) && !(maxabs(out, 4) > BIG))
		    fail_sys(c, &s, "singular-plausible", "'a' matrix is "
			    "exactly singular but vnacal_apply succeeded "
			    "with plausible S (largest entry %g)",
			    maxabs(out, 4));
	    }
	    continue;
	}
	long double pr = pivot_ratio_roweq(2, A, NULL);
	if (!(pr >= PR_MIN) && !(s.consistent && rc == 0)) {
	    ++c->skipped;
	    continue;
	}
	++c->checked;
	if (rc != 0) {
	    fail_sys(c, &s, "apply-failed", "vnacal_apply failed (errno %d, "
		    "'%s') on a well-conditioned 'a' matrix (oracle pivot "
		    "ratio %.2Le)", en, apply_log.count ? apply_log.msg[0] :
		    "", pr);
	    continue;
	}
	for (int i = 0; i < 4; ++i)
	    out[i] = vnadata_get_cell(vdp, 0, i / 2, i % 2);
	/* with identity error terms the corrected S is M = B A^-1; allow
	   for the second (trivially conditioned) solve inside apply */
	long double res = resid_right(2, 2, out, A, B, NULL, NULL);
	if (!(res <= c->worst))
	    c->worst = res;
	if (!(res <= TOL_ROW)) {
	    char xs[300];
	    fmt_matrix(xs, sizeof(xs), out, 2, 2);
	    fail_sys(c, &s, "residual", "identity calibration, b = S a: the "
		    "returned S does not satisfy S a = b, row-wise backward "
		    "error %.3Le (oracle pivot ratio %.2Le) S=%s", res, pr,
		    xs);
	}
    }
    goto done;

setup_failed:
    vf_fail(r, "setup:vnacal_apply", "could not build the identity T8 "
	    "calibration (%s)", apply_log.count ? apply_log.msg[0] : "?");
done:
    if (vdp != NULL)
	vnadata_free(vdp);
    if (vnp != NULL)
	vnacal_new_free(vnp);
    if (vcp != NULL)
	vnacal_free(vcp);
}


/* ------------------------------------------------------------------ */
/* vnacal_new_solve: exactly and over-determined one-port solves       */
/* ------------------------------------------------------------------ */
#define NSTD 5
static const dc std_gamma[NSTD] = { -1.0, 1.0, 0.0, 0.5 * I, -0.3 + 0.4 * I };
static const char *std_name[NSTD] = { "short", "open", "match", "0.5j",
    "-0.3+0.4j" };
#define NETERM 5
static const dc eterm[NETERM][3] = {	/* directivity, tracking, match */
    { 0.0, 1.0, 0.0 },
    { 0.1 + 0.05 * I, 0.9 - 0.1 * I, 0.2 * I },
    { -0.05, 0.01, 0.1 },
    { 0.3 - 0.2 * I, 2.0 + 1.0 * I, -0.4 },
    { 0.2 + 0.1 * I, 6.0 - 3.0 * I, 0.3 * I },	/* receiver gain */
};
/* inconsistency added to the measurement of each standard in the "noisy"
   pass: the equations then have no exact solution and the documented
   least-squares solution is the only right answer */
static const dc std_delta[NSTD] = {
    0.03 + 0.015 * I, -0.021 + 0.006 * I, 0.012 - 0.027 * I,
    -0.006 - 0.018 * I, 0.024 + 0.009 * I
};
#define NDUT 2
static const dc dut_gamma[NDUT] = { 0.25 - 0.6 * I, -0.7 + 0.1 * I };

/* textbook one-port error model: m = ed + er G / (1 - es G) */
static dc oneport_m(const dc *e, dc g)
{
    lc_t G = (lc_t)g;
    return (dc)((lc_t)e[0] + (lc_t)e[1] * G / (1.0L - (lc_t)e[2] * G));
}

static int subset_nth(int k)		/* k-th mask of {0..4} with >= 3 bits */
{
    for (int mask = 0; mask < (1 << NSTD); ++mask) {
	if (__builtin_popcount((unsigned)mask) >= 3 && k-- == 0)
	    return mask;
    }
    return -1;
}
#define NSUBSET 16

static void run_solve(ctx_t *c, int type_i, int et, int sub)
{
    vf_result *r = c->r;
    vnacal_type_t type = type_i ? VNACAL_U8 : VNACAL_T8;
    int mask = subset_nth(sub), members[NSTD], k = 0;
    const double fv[1] = { 1e9 };
    long norders;
    lc_t W[NSTD * 3];
    long double pr = 0;

    for (int i = 0; i < NSTD; ++i)
	if (mask & (1 << i))
	    members[k++] = i;
    norders = fact(k);
    /* conditioning of the textbook system [G, 1, -m G] x = m */
    for (int i = 0; i < k; ++i) {
	dc g = std_gamma[members[i]], m = oneport_m(eterm[et], g);
	W[i * 3 + 0] = (lc_t)g;
	W[i * 3 + 1] = 1.0L;
	W[i * 3 + 2] = -(lc_t)m * (lc_t)g;
    }
    pr = pivot_ratio_coleq(k, 3, W);

    /* documented equations with the inconsistent measurements:
         T8: ts G + ti - m tx G = m;  U8 (um = 1): ui - G m ux - G us = -m */
    lc_t lsx[3];
    int ls_ok = 0;
    if (k > 3) {
	lc_t LA[NSTD * 3], LB[NSTD];
	long double lpr = 0;
	for (int i = 0; i < k; ++i) {
	    lc_t g = (lc_t)std_gamma[members[i]];
	    lc_t m = (lc_t)oneport_m(eterm[et], std_gamma[members[i]]) +
		(lc_t)std_delta[members[i]];
	    if (!type_i) {
		LA[i * 3 + 0] = g; LA[i * 3 + 1] = 1.0L;
		LA[i * 3 + 2] = -m * g; LB[i] = m;
	    } else {
		LA[i * 3 + 0] = 1.0L; LA[i * 3 + 1] = -g * m;
		LA[i * 3 + 2] = -g; LB[i] = -m;
	    }
	}
	ls_ok = lin_lstsq(k, 3, 1, LA, LB, lsx, 1e-12L, &lpr) == 3 &&
	    lpr >= PR_DET;
    }

    for (long ord2 = 0; ord2 < norders * (k > 3 ? 2 : 1) &&
	    r->status != VF_VIOL; ++ord2) {
	const long ord = ord2 % norders;
	const int noisy = ord2 >= norders;
	int perm[NSTD];
	vnacal_t *vcp;
	vnacal_new_t *vnp = NULL;
	vnadata_t *vdp = NULL;
	int ci = -1, rc = -1, params[NSTD], np = 0;
	char what[200];
	size_t o = 0;
	sys_t dummy;

	kth_perm(k, ord, perm);
	what[0] = 0;
	for (int i = 0; i < k && o < sizeof(what); ++i)
	    o += (size_t)snprintf(what + o, sizeof(what) - o, "%s%s",
		    i ? "," : "", std_name[members[perm[i]]]);
	memset(&dummy, 0, sizeof(dummy));
	dummy.n = 0;
	snprintf(dummy.desc, sizeof(dummy.desc), "%s 1x1, error terms #%d, "
		"%sstandards in order %s", type_i ? "U8" : "T8", et,
		noisy ? "inconsistent measurements, " : "", what);
	if (noisy && !ls_ok)
	    break;

	vf_errlog_reset(&apply_log);
	vcp = vnacal_create((vnaerr_error_fn_t *)vf_errfn, &apply_log);
	if (vcp == NULL) {
	    vf_fail(r, "setup:vnacal_new_solve", "vnacal_create failed");
	    return;
	}
	vnp = vnacal_new_alloc(vcp, type, 1, 1, 1);
	if (vnp == NULL || vnacal_new_set_frequency_vector(vnp, fv) == -1) {
	    vf_fail(r, "setup:vnacal_new_solve", "alloc failed: %s",
		    apply_log.count ? apply_log.msg[0] : "?");
	    goto next;
	}
	for (int i = 0; i < k; ++i) {
	    int sidx = members[perm[i]], p;
	    dc mv[1], *mp[1] = { mv };

	    if (sidx == 0) p = VNACAL_SHORT;
	    else if (sidx == 1) p = VNACAL_OPEN;
	    else if (sidx == 2) p = VNACAL_MATCH;
	    else {
		p = vnacal_make_scalar_parameter(vcp, std_gamma[sidx]);
		if (p < 0)
		    break;
		params[np++] = p;
	    }
	    mv[0] = oneport_m(eterm[et], std_gamma[sidx]);
	    if (noisy)
		mv[0] += std_delta[sidx];
	    if (vnacal_new_add_single_reflect_m(vnp, mp, 1, 1, p, 1) == -1) {
		np = -1;
		break;
	    }
	}
	if (np < 0) {
	    vf_fail(r, "setup:vnacal_new_solve", "adding a standard failed: "
		    "%s", apply_log.count ? apply_log.msg[0] : "?");
	    goto next;
	}
	errno = 0;
	rc = vnacal_new_solve(vnp);
	++r->transitions;
	if (!(pr >= PR_DET)) {
	    ++c->skipped;
	    goto next;
	}
	++c->checked;
	if (rc != 0) {
	    fail_sys(c, &dummy, "solve-failed", "vnacal_new_solve returned %d "
		    "(errno %d, '%s') for %d distinct reflect standards, 3 "
		    "unknowns (oracle pivot ratio %.2Le)", rc, errno,
		    apply_log.count ? apply_log.msg[0] : "", k, pr);
	    goto next;
	}
	ci = vnacal_add_calibration(vcp, "c", vnp);
	vdp = vnadata_alloc((vnaerr_error_fn_t *)vf_errfn, &apply_log);
	if (ci < 0 || vdp == NULL) {
	    vf_fail(r, "setup:vnacal_new_solve", "add_calibration failed: %s",
		    apply_log.count ? apply_log.msg[0] : "?");
	    goto next;
	}
	for (int d = 0; d < NDUT; ++d) {
	    dc mv[1], *mp[1] = { mv }, got;
	    mv[0] = oneport_m(eterm[et], dut_gamma[d]);
	    if (vnacal_apply_m(vcp, ci, fv, 1, mp, 1, 1, vdp) == -1) {
		fail_sys(c, &dummy, "solve-apply-failed", "vnacal_apply_m "
			"failed with the solved calibration: %s",
			apply_log.count ? apply_log.msg[0] : "?");
		break;
	    }
	    ++r->transitions;
	    got = vnadata_get_cell(vdp, 0, 0, 0);
	    if (noisy) {
		/* what the minimiser of the documented equations gives */
		lc_t m = (lc_t)mv[0], num, den, want;
		if (!type_i) {
		    num = m - lsx[1]; den = lsx[0] - m * lsx[2];
		} else {
		    num = m + lsx[0]; den = lsx[1] * m + lsx[2];
		}
		if (!(cabsl(den) > 1e-3L * (cabsl(num) + 1e-300L)))
		    continue;
		want = num / den;
		long double e = cabsl((lc_t)got - want) / (1.0L + cabsl(want));
		if (!(e <= c->worst))
		    c->worst = e;
		if (!(e <= 1e-9L))
		    fail_sys(c, &dummy, "solve-not-minimiser", "%d "
			    "inconsistent equations, 3 unknowns: the calibration "
			    "applied to a measurement gives %.12g%+.12gj, the "
			    "least-squares minimiser of the documented "
			    "equations gives %.12Lg%+.12Lgj (difference %.3Le)",
			    k, creal(got), cimag(got), creall(want),
			    cimagl(want), e);
		continue;
	    }
	    long double e = cabsl((lc_t)got - (lc_t)dut_gamma[d]);
	    if (!(e <= c->worst))
		c->worst = e;
	    if (!(e <= 1e-8L))
		fail_sys(c, &dummy, "solve-accuracy", "%s-determined solve "
			"(%d equations, 3 unknowns): calibration applied to "
			"the measurement of a DUT with gamma %g%+gj returns "
			"%.12g%+.12gj (error %.3Le, oracle pivot ratio %.2Le)",
			k == 3 ? "exactly" : "over", k, creal(dut_gamma[d]),
			cimag(dut_gamma[d]), creal(got), cimag(got), e, pr);
	}
next:
	if (vdp != NULL)
	    vnadata_free(vdp);
	if (vnp != NULL)
	    vnacal_new_free(vnp);
	for (int i = 0; i < np; ++i)
	    (void)vnacal_delete_parameter(vcp, params[i]);
	vnacal_free(vcp);
    }
}


/* ------------------------------------------------------------------ */
/* vnacal_new_solve on inconsistent data, every linear type and shape   */
/* ------------------------------------------------------------------ */
/*
 * Standards of a calsim recipe measured with deterministic pseudo-noise:
 * no exact solution exists.  The terms vnacal_new_solve stores must be the
 * minimiser of the documented equations the standards contribute (and the
 * outside leakage terms the mean of their cells): oracle/csterms.c,
 * cs_terms_gradient.  E12 is solved as UE14 and converted (not linear in
 * its terms): left out.
 */
static const vnacal_type_t lsq_types[7] = { VNACAL_T8, VNACAL_U8, VNACAL_TE10,
    VNACAL_UE10, VNACAL_T16, VNACAL_U16, VNACAL_UE14 };
static const int lsq_dims[4][2] = { {1,1}, {2,2}, {1,2}, {3,3} };
#define LSQ_NREC 3
#define LSQ_NEV 3
#define LSQ_NAV 2
#define LSQ_NNOISE 2
static long lsq_count(int tier)
{
    return 7L * (tier ? 4 : 3) * LSQ_NREC * LSQ_NEV * LSQ_NAV * LSQ_NNOISE;
}

static void run_lsq(ctx_t *c, int tier, long idx)
{
    vf_result *r = c->r;
    static cs_scenario sc;
    static const double amp[LSQ_NNOISE] = { 1e-2, 1e-4 };
    int nz = (int)(idx % LSQ_NNOISE); idx /= LSQ_NNOISE;
    int av = (int)(idx % LSQ_NAV) * 3; idx /= LSQ_NAV;
    int ev = (int)(idx % LSQ_NEV); idx /= LSQ_NEV;
    int recipe = (int)(idx % LSQ_NREC); idx /= LSQ_NREC;
    int nd = tier ? 4 : 3;
    int d = (int)(idx % nd); idx /= nd;
    vnacal_type_t type = lsq_types[idx];
    int rows = lsq_dims[d][0], cols = lsq_dims[d][1];
    const char *tn = vnacal_type_to_name(type);
    vnacal_t *vcp = NULL;
    vnacal_new_t *vnp = NULL;
    long double margin, worst = 0, rnorm = 0, lworst = 0;
    int eqs, unk, ci;
    char desc[400], sig[100];

    if (type == VNACAL_U8 || type == VNACAL_UE10 || type == VNACAL_U16 ||
	    type == VNACAL_UE14) {
	int x = rows; rows = cols; cols = x;
    }
    memset(&sc, 0, sizeof(sc));
    cs_make_vna(&sc.vna, type, rows, cols, 2, 2);
    if (cs_recipe(&sc, recipe, ev, av, 0, 2) != 0) {
	++c->skipped;
	return;
    }
    cs_describe(&sc, desc, sizeof(desc));
    vf_desc(r, "inconsistent data (amplitude %g) ev=%d av=%d %s", amp[nz], ev,
	    av, desc);
    if (!cs_identifiable(&sc, (1u << sc.nstd) - 1u, &margin, &eqs, &unk) ||
	    margin < 1e-2L) {
	++c->skipped;
	return;
    }
    sc.noise = amp[nz];
    vf_errlog_reset(&apply_log);
    vcp = vnacal_create((vnaerr_error_fn_t *)vf_errfn, &apply_log);
    if (vcp == NULL || cs_make_params(vcp, &sc) != 0 ||
	    (vnp = cs_build(vcp, &sc)) == NULL) {
	vf_fail(r, "setup:lsq", "set-up failed: %s",
		apply_log.count ? apply_log.msg[0] : "?");
	goto out;
    }
    r->transitions += sc.nstd + 1;
    if (vnacal_new_solve(vnp) != 0) {
	snprintf(sig, sizeof(sig), "lsq-solve-failed:%s", tn);
	vf_fail(r, sig, "vnacal_new_solve failed on a determining set "
		"(margin %.2Le) measured with %g of noise: errno %d, %s",
		margin, amp[nz], errno,
		apply_log.count ? apply_log.msg[0] : "");
	goto out;
    }
    ci = vnacal_add_calibration(vcp, "lsq", vnp);
    if (ci < 0 || cs_terms_gradient(vcp, ci, &sc, &worst, &rnorm,
		&lworst) != 0) {
	vf_fail(r, "setup:lsq", "cannot inspect the solved terms");
	goto out;
    }
    ++c->checked;
    if (!(worst <= c->worst))
	c->worst = worst;
    if (!(lworst <= 1e-9L)) {
	snprintf(sig, sizeof(sig), "lsq-leakage-not-mean:%s", tn);
	vf_fail(r, sig, "an outside leakage term differs from the mean of "
		"the measured cells without a signal path by %.3Le "
		"(relative)", lworst);
    } else if (rnorm > 1e-9L && !(worst <= 1e-7L)) {
	snprintf(sig, sizeof(sig), "lsq-not-minimiser:%s", tn);
	vf_fail(r, sig, "the solved terms are not the least-squares "
		"minimiser of the documented equations: the residual "
		"(size %.2Le of the terms) has cosine %.3Le with its "
		"derivative by a free term (%d equations, %d unknowns)",
		rnorm, worst, eqs, unk);
    }
out:
    if (vnp != NULL)
	vnacal_new_free(vnp);
    if (vcp != NULL)
	vnacal_free(vcp);
}

/* ------------------------------------------------------------------ */
/* independent column systems of E12 / UE14                            */
/* ------------------------------------------------------------------ */
/*
 * E12 and UE14 solve one linear system per driven port.  A column whose
 * standards were duplicated by mistake (the match measured twice in place
 * of the open, ...) has two identical coefficient rows.  Whether Gaussian
 * elimination meets an exactly zero pivot on them is a matter of rounding
 * and is not asserted by itself; it is read off the run in which every
 * column is exactly determined.  What is asserted: the verdict on that
 * column does not depend on how many standards the other port received -
 * a column reported through EDOM stays reported when the other column is
 * over-determined - and a proper set solves whatever the redundancy.
 */
#define COLSYS_N (2 * 2 * 3 * 4)	/* type x duplicated port x duplicated
				   standard x layout */

static dc colsys_reflect(int port, dc gamma)
{
    static const dc e00[2] = { 0.03 + 0.02 * I, -0.02 + 0.04 * I };
    static const dc e11[2] = { -0.05 + 0.10 * I, 0.08 - 0.03 * I };
    static const dc e10e01[2] = { 0.90 - 0.15 * I, 0.85 + 0.20 * I };
    int p = port - 1;
    return e00[p] + e10e01[p] * gamma / (1.0 - e11[p] * gamma);
}

static int colsys_add_reflect(vnacal_new_t *vnp, int port, int parameter,
	dc gamma, dc noise)
{
    dc m11[1], m12[1], m21[1], m22[1];
    dc *m[4] = { m11, m12, m21, m22 };
    const dc leak = 1.0e-4 - 2.0e-4 * I;

    m11[0] = port == 1 ? colsys_reflect(1, gamma) + noise :
	colsys_reflect(1, 1.0);
    m22[0] = port == 2 ? colsys_reflect(2, gamma) + noise :
	colsys_reflect(2, 1.0);
    m12[0] = m21[0] = leak;
    return vnacal_new_add_single_reflect_m(vnp, m, 2, 2, parameter, port);
}

/* returns the rc of vnacal_new_solve, -2 on set-up failure */
static int colsys_case(vnacal_type_t type, int dup_port, int dup_std,
	int layout, int extra, int *en, int *math_lines)
{
    static const int pre[3] = { VNACAL_SHORT, VNACAL_OPEN, VNACAL_MATCH };
    static const dc gam[3] = { -1.0, 1.0, 0.0 };
    static const dc xg[2] = { 0.4 - 0.3 * I, -0.2 + 0.5 * I };
    const double fv[1] = { 1.0e9 };
    vnacal_t *vcp;
    vnacal_new_t *vnp = NULL;
    int rc = -2, other = 3 - dup_port;

    vf_errlog_reset(&apply_log);
    vcp = vnacal_create((vnaerr_error_fn_t *)vf_errfn, &apply_log);
    if (vcp == NULL || (vnp = vnacal_new_alloc(vcp, type, 2, 2, 1)) == NULL ||
	    vnacal_new_set_frequency_vector(vnp, fv) != 0)
	goto out;
    /* the other port: short, open, match and `extra' more known reflects */
    for (int k = 0; k < 3; ++k)
	if (colsys_add_reflect(vnp, other, pre[k], gam[k], 0.0) != 0)
	    goto out;
    for (int k = 0; k < extra; ++k) {
	int h = vnacal_make_scalar_parameter(vcp, xg[k]);
	if (h < 0 || colsys_add_reflect(vnp, other, h, xg[k], 0.0) != 0)
	    goto out;
    }
    /* the port under test: standard dup_std twice (the second sweep a
       little off), in place of the next standard; dup_std < 0: proper set */
    /* layout: which of the two other standards gives way (bit 0), and
       whether the off sweep is the one in the replaced or in the original
       position (bit 1) */
    for (int k = 0; k < 3; ++k) {
	int use = k;
	dc noise = 0.0;
	int repl = dup_std < 0 ? -1 : (dup_std + 1 + (layout & 1)) % 3;
	if (k == repl) {
	    use = dup_std;
	    if (!(layout & 2))
		noise = 3.0e-5 + 1.0e-5 * I;
	} else if (k == dup_std && (layout & 2)) {
	    noise = 3.0e-5 + 1.0e-5 * I;
	}
	if (colsys_add_reflect(vnp, dup_port, pre[use], gam[use], noise) != 0)
	    goto out;
    }
    {
	dc m11[1] = { 0.05 + 0.02 * I }, m12[1] = { 0.88 - 0.12 * I };
	dc m21[1] = { 0.90 - 0.10 * I }, m22[1] = { 0.04 - 0.03 * I };
	dc *m[4] = { m11, m12, m21, m22 };
	if (vnacal_new_add_through_m(vnp, m, 2, 2, 1, 2) != 0)
	    goto out;
    }
    vf_errlog_reset(&apply_log);
    errno = 0;
    rc = vnacal_new_solve(vnp);
    *en = errno;
    *math_lines = apply_log.count;
out:
    if (vnp != NULL)
	vnacal_new_free(vnp);
    if (vcp != NULL)
	vnacal_free(vcp);
    return rc;
}

static void run_colsys(ctx_t *c, long idx)
{
    vf_result *r = c->r;
    static const char *const sn[3] = { "short", "open", "match" };
    int layout = (int)(idx % 4); idx /= 4;
    int dup_std = (int)(idx % 3); idx /= 3;
    int dup_port = (int)(idx % 2) + 1; idx /= 2;
    vnacal_type_t type = idx ? VNACAL_UE14 : VNACAL_E12;
    const char *tn = vnacal_type_to_name(type);
    int rc0 = 0, en0 = 0, ml0 = 0;
    char sig[100];

    vf_desc(r, "%s 2x2: port %d measured with the %s twice in place of "
	    "another standard (layout %d), the other port with 3, 4, 5 known "
	    "reflects; and the proper set", tn, dup_port, sn[dup_std], layout);
    for (int extra = 0; extra <= 2 && r->status != VF_VIOL; ++extra) {
	int en = 0, ml = 0, rc;
	/* the proper set solves whatever the redundancy */
	rc = colsys_case(type, dup_port, -1, 0, extra, &en, &ml);
	++r->transitions;
	if (rc != 0) {
	    snprintf(sig, sizeof(sig), "colsys-proper-failed:%s", tn);
	    vf_fail(r, sig, "short, open, match on port %d, %d known "
		    "reflects on the other port and a through: "
		    "vnacal_new_solve returned %d errno %d (%s)", dup_port,
		    3 + extra, rc, en, apply_log.count ? apply_log.msg[0] :
		    "no message");
	    return;
	}
	rc = colsys_case(type, dup_port, dup_std, layout, extra, &en, &ml);
	++r->transitions;
	if (rc == -2) {
	    vf_fail(r, "setup:colsys", "set-up failed: %s",
		    apply_log.count ? apply_log.msg[0] : "?");
	    return;
	}
	if (extra == 0) {
	    rc0 = rc; en0 = en; ml0 = ml;
	    if (rc == -1 && (en != EDOM || ml != 1)) {
		snprintf(sig, sizeof(sig), "colsys-errno:%s", tn);
		vf_fail(r, sig, "duplicated standard: vnacal_new_solve "
			"failed with errno %d and %d error lines, documented "
			"is EDOM with one", en, ml);
		return;
	    }
	    if (rc == -1)
		++c->singular;
	    else
		++c->skipped;	/* no exactly zero pivot met: best effort */
	    continue;
	}
	if (rc0 == -1 && (rc != -1 || en != EDOM || ml != 1)) {
	    snprintf(sig, sizeof(sig), "colsys-verdict-depends-on-other-"
		    "column:%s", tn);
	    vf_fail(r, sig, "port %d measured with the %s twice: with three "
		    "standards on the other port the solve is refused "
		    "(errno %d, %d line), with %d it returns %d errno %d (%d "
		    "lines): the singular column system is the same", dup_port,
		    sn[dup_std], en0, ml0, 3 + extra, rc, en, ml);
	    return;
	}
	++c->checked;
    }
}

/* ------------------------------------------------------------------ */
/* vnacal_new_add_*(a, b): a/b -> m reduction when standards are added */
/* ------------------------------------------------------------------ */
static int family_of_2x2(int tier, long *t)
{
    for (int fam = 0; fam < NFAM; ++fam) {
	long k = fam_count(tier, fam, 2);
	if (*t < k)
	    return fam;
	*t -= k;
    }
    return -1;
}

static void run_add(ctx_t *c, int tier, long first, long last)
{
    vf_result *r = c->r;
    /* two frequencies: at the first the reference matrix is diagonal (what
       a test set without reference-channel cross-talk delivers), at the
       second it is the system under test */
    const double fv[2] = { 1e9, 2e9 };
    static const dc adiag[4] = { 1.3, 0, 0, 0.7 - 0.2 * I };
    /* ideal standards: short-open, open-short, match-match, through */
    static const dc Sstd[4][4] = {
	{ -1, 0, 0, 1 }, { 1, 0, 0, -1 }, { 0, 0, 0, 0 }, { 0, 1, 1, 0 }
    };
    const dc Sdut[4] = { 0.2 + 0.1 * I, 0.7 - 0.2 * I, 0.6 + 0.3 * I,
	-0.1 + 0.3 * I };

    for (long idx = first; idx < last && r->status != VF_VIOL; ++idx) {
	sys_t s;
	long t = idx;
	int fam = family_of_2x2(tier, &t);
	vnacal_t *vcp;
	vnacal_new_t *vnp = NULL;
	vnadata_t *vdp = NULL;
	dc av[4][2], bv[4][2];
	dc *ap[4] = { av[0], av[1], av[2], av[3] };
	dc *bp[4] = { bv[0], bv[1], bv[2], bv[3] };
	lc_t A[4];
	int rc = 0, en = 0, failed_at = -1, ci;
	long double pr;

	if (fam < 0)
	    break;
	gen_system(tier, fam, 2, t, &s);
	to_lc(A, s.m, 4);
	pr = s.kind == K_REGULAR ? pivot_ratio_roweq(2, A, NULL) : 0;
	vf_errlog_reset(&apply_log);
	vcp = vnacal_create((vnaerr_error_fn_t *)vf_errfn, &apply_log);
	if (vcp == NULL) {
	    vf_fail(r, "setup:vnacal_new_add", "vnacal_create failed");
	    return;
	}
	vnp = vnacal_new_alloc(vcp, VNACAL_T8, 2, 2, 2);
	if (vnp == NULL || vnacal_new_set_frequency_vector(vnp, fv) == -1) {
	    vf_fail(r, "setup:vnacal_new_add", "alloc failed: %s",
		    apply_log.count ? apply_log.msg[0] : "?");
	    goto next;
	}
	for (int st = 0; st < 4 && failed_at < 0; ++st) {
	    /* b = S_std a in long double, rounded once */
	    for (int i = 0; i < 2; ++i)
		for (int j = 0; j < 2; ++j) {
		    lc_t sum = 0;
		    for (int k = 0; k < 2; ++k)
			sum += (lc_t)Sstd[st][i * 2 + k] * (lc_t)s.m[k * 2 + j];
		    bv[i * 2 + j][1] = (dc)sum;
		    av[i * 2 + j][1] = s.m[i * 2 + j];
		    sum = 0;
		    for (int k = 0; k < 2; ++k)
			sum += (lc_t)Sstd[st][i * 2 + k] * (lc_t)adiag[k * 2 + j];
		    bv[i * 2 + j][0] = (dc)sum;
		    av[i * 2 + j][0] = adiag[i * 2 + j];
		}
	    vf_errlog_reset(&apply_log);
	    errno = 0;
	    switch (st) {
	    case 0:
		rc = vnacal_new_add_double_reflect(vnp, ap, 2, 2, bp, 2, 2,
			VNACAL_SHORT, VNACAL_OPEN, 1, 2);
		break;
	    case 1:
		rc = vnacal_new_add_double_reflect(vnp, ap, 2, 2, bp, 2, 2,
			VNACAL_OPEN, VNACAL_SHORT, 1, 2);
		break;
	    case 2:
		rc = vnacal_new_add_double_reflect(vnp, ap, 2, 2, bp, 2, 2,
			VNACAL_MATCH, VNACAL_MATCH, 1, 2);
		break;
	    default:
		rc = vnacal_new_add_through(vnp, ap, 2, 2, bp, 2, 2, 1, 2);
		break;
	    }
	    en = errno;
	    ++r->transitions;
	    if (rc != 0)
		failed_at = st;
	}
	if (s.kind == K_ZEROPIV) {
	    ++c->singular;
	    if (failed_at != 0 || rc != -1 || en != EDOM ||
		    apply_log.count < 1 ||
		    apply_log.category[0] != VNAERR_MATH)
		fail_sys(c, &s, "singular-signal", "'a' matrix has a zero "
			"row or column: adding the first standard returned "
			"%d (errno %d, %d error callbacks, first category "
			"%d); expected -1 with VNAERR_MATH / EDOM as "
			"vnacal_apply does for the same reduction",
			failed_at == 0 ? rc : 0, en, apply_log.count,
			apply_log.count ? apply_log.category[0] : -1);
	    goto next;
	}
	if (s.kind == K_SINGULAR) {
	    ++c->singular;		/* nothing claimed: no exact zero pivot */
	    goto next;
	}
	if (!(pr >= PR_DET)) {
	    ++c->skipped;
	    goto next;
	}
	++c->checked;
	if (failed_at >= 0) {
	    fail_sys(c, &s, "add-failed", "adding standard %d with a "
		    "well-conditioned 'a' matrix failed (errno %d, '%s'; "
		    "oracle pivot ratio %.2Le)", failed_at, en,
		    apply_log.count ? apply_log.msg[0] : "", pr);
	    goto next;
	}
	if (vnacal_new_solve(vnp) == -1) {
	    fail_sys(c, &s, "add-solve-failed", "identity instrument, four "
		    "ideal standards given as (a, S a): vnacal_new_solve "
		    "failed: %s", apply_log.count ? apply_log.msg[0] : "?");
	    goto next;
	}
	ci = vnacal_add_calibration(vcp, "c", vnp);
	vdp = vnadata_alloc((vnaerr_error_fn_t *)vf_errfn, &apply_log);
	if (ci < 0 || vdp == NULL) {
	    vf_fail(r, "setup:vnacal_new_add", "add_calibration failed: %s",
		    apply_log.count ? apply_log.msg[0] : "?");
	    goto next;
	}
	{
	    dc mv[4][2], *mp[4] = { mv[0], mv[1], mv[2], mv[3] };
	    long double worst = 0;
	    for (int i = 0; i < 4; ++i)
		mv[i][0] = mv[i][1] = Sdut[i];
	    if (vnacal_apply_m(vcp, ci, fv, 2, mp, 2, 2, vdp) == -1) {
		fail_sys(c, &s, "add-apply-failed", "vnacal_apply_m failed: "
			"%s", apply_log.count ? apply_log.msg[0] : "?");
		goto next;
	    }
	    for (int i = 0; i < 8; ++i) {
		dc got = vnadata_get_cell(vdp, i / 4, (i % 4) / 2, i % 2);
		long double e = cabsl((lc_t)got - (lc_t)Sdut[i % 4]);
		if (!(e <= worst))
		    worst = e;
	    }
	    if (!(worst <= c->worst))
		c->worst = worst;
	    if (!(worst <= 1e-8L))
		fail_sys(c, &s, "add-accuracy", "identity instrument, four "
			"ideal standards given as (a, S a): the calibration "
			"is not the identity, a DUT measured as S comes back "
			"with error %.3Le (oracle pivot ratio of a %.2Le)",
			worst, pr);
	}
next:
	if (vdp != NULL)
	    vnadata_free(vdp);
	if (vnp != NULL)
	    vnacal_new_free(vnp);
	vnacal_free(vcp);
    }
}

/* ------------------------------------------------------------------ */
/* case table							      */
/* ------------------------------------------------------------------ */
typedef struct {
    int path, fam, m, n;
    long first, last;
} case_t;

static case_t *cases;
static long ncases;
static int cases_tier = -1;

static void add_cases(int path, int fam, int m, int n, long total)
{
    for (long f = 0; f < total; f += CHUNK) {
	cases = realloc(cases, sizeof(case_t) * (size_t)(ncases + 1));
	cases[ncases].path = path;
	cases[ncases].fam = fam;
	cases[ncases].m = m;
	cases[ncases].n = n;
	cases[ncases].first = f;
	cases[ncases].last = f + CHUNK < total ? f + CHUNK : total;
	++ncases;
    }
}

static void build_cases(int tier)
{
    if (cases_tier == tier)
	return;
    free(cases);
    cases = NULL;
    ncases = 0;
    cases_tier = tier;
    for (int path = P_LU; path <= P_YTOS; ++path)
	for (int fam = 0; fam < NFAM; ++fam)
	    for (int n = 1; n <= NSQ; ++n)
		add_cases(path, fam, n, n, fam_count(tier, fam, n));
    for (int path = P_QRSOLVE; path <= P_QRSOLVE2; ++path)
	for (int fam = 0; fam < NFAM; ++fam)
	    for (int sh = 0; sh < NSHAPE; ++sh)
		add_cases(path, fam, shapes[sh][0], shapes[sh][1],
			rfam_count(tier, fam, shapes[sh][0], shapes[sh][1]));
    {
	long total = 0;
	for (int fam = 0; fam < NFAM; ++fam)
	    total += fam_count(tier, fam, 2);
	add_cases(P_APPLY, -1, 2, 2, total);
	add_cases(P_ADD, -1, 2, 2, total);
    }
    for (long k = 0; k < lsq_count(tier); ++k) {
	add_cases(P_LSQ, -3, 0, 0, 1);
	cases[ncases - 1].first = k;
	cases[ncases - 1].last = k + 1;
    }
    for (long k = 0; k < COLSYS_N; ++k) {
	add_cases(P_COLSYS, -4, 2, 2, 1);
	cases[ncases - 1].first = k;
	cases[ncases - 1].last = k + 1;
    }
    for (int t = 0; t < 2; ++t)
	for (int et = 0; et < NETERM; ++et)
	    for (int sub = 0; sub < NSUBSET; ++sub) {
		add_cases(P_SOLVE, -2, 1, 1, 1);
		cases[ncases - 1].first = (t * NETERM + et) * NSUBSET + sub;
		cases[ncases - 1].last = cases[ncases - 1].first + 1;
	    }
}

static long count(int tier)
{
    build_cases(tier);
    return ncases;
}

static void run(int tier, long idx, vf_result *r)
{
    ctx_t c;
    const case_t *cs;

    build_cases(tier);
    cs = &cases[idx];
    memset(&c, 0, sizeof(c));
    c.r = r;
    c.path = cs->path;
    vf_desc(r, "%s, family %s, %dx%d, systems %ld..%ld", path_name[cs->path],
	    cs->fam >= 0 ? fam_name[cs->fam] : cs->fam == -2 ?
	    "one-port standards: every subset of >= 3 of 5, every order" :
	    cs->fam == -3 ? "recipes with noise" :
	    cs->fam == -4 ? "duplicated standards in one column" :
	    "all 2x2 families", cs->m, cs->n, cs->first, cs->last - 1);
    if (cs->path == P_COLSYS) {
	run_colsys(&c, cs->first);
    } else if (cs->path == P_LSQ) {
	run_lsq(&c, tier, cs->first);
    } else if (cs->path == P_SOLVE) {
	long t = cs->first;
	int sub = (int)(t % NSUBSET); t /= NSUBSET;
	int et = (int)(t % NETERM); t /= NETERM;
	run_solve(&c, (int)t, et, sub);
    } else if (cs->path == P_ADD) {
	run_add(&c, tier, cs->first, cs->last);
    } else if (cs->path == P_APPLY) {
	/* no allocation accounting here: leaks of the vnacal container are
	   the subject of other properties */
	run_apply(&c, tier, cs->first, cs->last);
    } else if (cs->path >= P_QRSOLVE) {
	static rect_t q;
	for (long k = cs->first; k < cs->last && r->status != VF_VIOL; ++k) {
	    gen_rect(tier, cs->fam, cs->m, cs->n, k, &q);
	    if (vf_verbose)
		vf_note("system %ld: %s", k, q.desc);
	    run_qr(&c, &q);
	}
    } else {
	sys_t s;
	for (long k = cs->first; k < cs->last && r->status != VF_VIOL; ++k) {
	    gen_system(tier, cs->fam, cs->n, k, &s);
	    if (vf_verbose)
		vf_note("system %ld: %s", k, s.desc);
	    if (cs->path >= P_ZTOY)
		run_conv(&c, &s);
	    else
		run_internal(&c, &s);
	}
    }
    if (vf_verbose)
	vf_note("STATS %s | %s | %dx%d | checked %ld skipped %ld singular %ld "
		"worst %.2Le minsing %.2e", path_name[cs->path],
		cs->fam >= 0 ? fam_name[cs->fam] : cs->fam == -2 ? "one-port" :
		cs->fam == -3 ? "noisy" : cs->fam == -4 ? "colsys" : "2x2",
		cs->m, cs->n,
		c.checked, c.skipped, c.singular, c.worst, c.minsing);
    r->nontrivial = c.checked > 0 || c.singular > 0;
    r->states = c.checked + c.singular;
    vf_outcome(r, "%s %s worst%s%s%s", path_name[cs->path],
	    cs->fam >= 0 ? fam_name[cs->fam] : cs->fam == -2 ? "one-port" :
	    cs->fam == -3 ? "noisy" : cs->fam == -4 ? "colsys" : "2x2",
	    decade(c.worst),
	    c.skipped ? " some-skipped" : "", c.singular ? " singular" : "");
}

vf_driver vf_drv = {
    .property = "C19",
    .rule = "case = (path, family, size, chunk of <= 500 systems); a case is "
	"non-trivial when at least one of its systems reached a verdict: "
	"either the oracle's smallest pivot (long double, complete pivoting, "
	"after row equilibration; column equilibration for the QR paths) was "
	">= 1e-6 (>= 1e-3 for determinants and the vnacal solve/add paths) "
	"and the backward-error bound was evaluated on the library's result, "
	"or the system is exactly singular by construction (zero row/column, "
	"duplicated row/column, rank n-1 product of Gaussian integers) and "
	"the 'stands out' clause was evaluated; 'states' counts those "
	"systems, 'transitions' the library calls judged",
    .count = count,
    .run = run,
};
