/*
 * C20: too few standards are reported; every determining set solves.
 *
 * case = (type, shape, subset of a standard universe L, accumulation order).
 * The subset is added one standard at a time with vnacal_new_solve attempted
 * after every addition; every prefix is classified by the independent
 * physical-Jacobian identifiability test of oracle/calsim.c:
 *   (a) fewer measurement equations than unknown terms  => -1 / EDOM
 *   (b) determining with margin                           => 0, and the
 *       calibration corrects independent DUTs, equal to a fresh object
 *       that was given the same set at once
 *   (c) otherwise nothing is asserted except errno == EDOM on failure.
 */
#include <complex.h>
#include <errno.h>
#include <math.h>
#include <stdio.h>
#include <string.h>
#include <vnacal.h>
#include "vf.h"
#include "calsim.h"

typedef struct {
    vnacal_type_t type;
    int rows, cols;
    int mini;		/* reduced universe (3 ports in the quick tier) */
    int unk;		/* universe with unknown standard parameters */
    int abbr;		/* 1 rows, 2 columns, 3 both: every standard is given
			   with the abbreviated measurement matrix where
			   vnacal_new_add_*(3) accepts one */
    int p16;		/* 16-term universe that also holds standards leaving
			   a port open; judged by the rank of the documented
			   linear system (cs_terms_rank16) */
    int vec;		/* the value parameters of the universe are tabulated
			   (frequency-dependent vector parameters); 2: tables
			   of 17 points that no low-order rational function
			   fits, three calibration frequencies between table
			   points (every solve walks each table again) */
    int kit;		/* two-port universe of a measured kit: three scalar
			   reflects per port given as 1x1, a through, and an
			   isolation standard (match on both ports, explicit
			   zeros between them) that is the only witness of
			   the leakage terms and comes last */
    double gain;	/* where not 0: every reading of the instrument is
			   multiplied by this (receivers behind 120 dB of
			   loss): the determinant of a minimal set scales with
			   a power of it, its condition does not */
} shape_t;

static const shape_t shapes_quick[] = {
    { VNACAL_T8, 1, 1 },   { VNACAL_U8, 1, 1 },
    { VNACAL_TE10, 1, 1 }, { VNACAL_UE10, 1, 1 },
    { VNACAL_T16, 1, 1 },  { VNACAL_U16, 1, 1 },
    { VNACAL_UE14, 1, 1 }, { VNACAL_E12, 1, 1 },
    { VNACAL_T8, 2, 2 },   { VNACAL_U8, 2, 2 },
    { VNACAL_TE10, 2, 2 }, { VNACAL_UE10, 2, 2 },
    { VNACAL_T16, 2, 2 },  { VNACAL_U16, 2, 2 },
    { VNACAL_UE14, 2, 2 }, { VNACAL_E12, 2, 2 },
    { VNACAL_T8, 1, 2 },   { VNACAL_U8, 2, 1 },
    { VNACAL_TE10, 1, 2 }, { VNACAL_UE10, 2, 1 },
    { VNACAL_UE14, 2, 1 }, { VNACAL_E12, 2, 1 },
    { VNACAL_T16, 1, 2 },  { VNACAL_U16, 2, 1 },
    /* three ports with a reduced universe {S1, O1, M1, T12, T13, chain}:
       a standard whose ports 1 and 3 are connected only through port 2 */
    { VNACAL_TE10, 3, 3, 1 }, { VNACAL_UE10, 3, 3, 1 },
    { VNACAL_UE14, 3, 3, 1 }, { VNACAL_E12, 3, 3, 1 },
    { VNACAL_T8, 3, 3, 1 },
    /* universes with two unknown reflection parameters: the count that
       must be reached is unknown error terms plus unknown parameters */
    { VNACAL_T8, 1, 1, 0, 1 },   { VNACAL_U8, 1, 1, 0, 1 },
    { VNACAL_TE10, 1, 1, 0, 1 }, { VNACAL_UE10, 1, 1, 0, 1 },
    { VNACAL_T16, 1, 1, 0, 1 },  { VNACAL_U16, 1, 1, 0, 1 },
    { VNACAL_UE14, 1, 1, 0, 1 }, { VNACAL_E12, 1, 1, 0, 1 },
    { VNACAL_T8, 2, 2, 0, 1 },   { VNACAL_U8, 2, 2, 0, 1 },
    { VNACAL_TE10, 2, 2, 0, 1 }, { VNACAL_UE10, 2, 2, 0, 1 },
    { VNACAL_T16, 2, 2, 0, 1 },  { VNACAL_U16, 2, 2, 0, 1 },
    { VNACAL_UE14, 2, 2, 0, 1 }, { VNACAL_E12, 2, 2, 0, 1 },
    { VNACAL_T8, 1, 2, 0, 1 },   { VNACAL_UE14, 2, 1, 0, 1 },
    /* abbreviated measurement matrices (reflect on port 2 as a 1x1) */
    { VNACAL_T8, 2, 2, 0, 0, 3 },   { VNACAL_U8, 2, 2, 0, 0, 3 },
    { VNACAL_TE10, 2, 2, 0, 0, 3 }, { VNACAL_UE10, 2, 2, 0, 0, 3 },
    { VNACAL_UE14, 2, 2, 0, 0, 3 }, { VNACAL_E12, 2, 2, 0, 0, 3 },
    { VNACAL_T16, 2, 2, 0, 0, 1 },  { VNACAL_U16, 2, 2, 0, 0, 2 },
    /* 16-term sets mixing full two-port standards with one-port ones */
    { VNACAL_T16, 2, 2, 0, 0, 0, 1 }, { VNACAL_U16, 2, 2, 0, 0, 0, 1 },
    /* measured kits: eight or more distinct parameters in one calibration,
       the explicit zero used last */
    { VNACAL_TE10, 2, 2, 0, 0, 3, 0, 0, 1 }, { VNACAL_UE10, 2, 2, 0, 0, 3, 0, 0, 1 },
    { VNACAL_UE14, 2, 2, 0, 0, 3, 0, 0, 1 }, { VNACAL_E12, 2, 2, 0, 0, 3, 0, 0, 1 },
    { VNACAL_T8, 2, 2, 0, 0, 3, 0, 0, 1 },
    /* standards known from tables: every value parameter is a vector
       parameter with a frequency dependence */
    { VNACAL_T8, 2, 2, 0, 0, 0, 0, 1 },   { VNACAL_UE10, 2, 2, 0, 0, 0, 0, 1 },
    { VNACAL_E12, 2, 2, 0, 0, 0, 0, 1 },  { VNACAL_T16, 2, 2, 0, 0, 0, 0, 1 },
    { VNACAL_U8, 1, 1, 0, 0, 0, 0, 1 },
    { VNACAL_T8, 2, 2, 0, 0, 0, 0, 2 },   { VNACAL_E12, 2, 2, 0, 0, 0, 0, 2 },
    { VNACAL_UE10, 1, 1, 0, 0, 0, 0, 2 }, { VNACAL_U16, 1, 1, 0, 0, 0, 0, 2 },
    /* readings of the order of 1e-6 */
    { .type = VNACAL_T8, .rows = 2, .cols = 2, .gain = 1e-6 },
    { .type = VNACAL_TE10, .rows = 2, .cols = 2, .gain = 1e-6 },
    { .type = VNACAL_UE14, .rows = 2, .cols = 2, .gain = 1e-6 },
    { .type = VNACAL_E12, .rows = 2, .cols = 2, .gain = 1e-6 },
    { .type = VNACAL_U8, .rows = 1, .cols = 1, .gain = 1e-6 },
};
#define NSHAPE_QUICK ((int)(sizeof(shapes_quick) / sizeof(shapes_quick[0])))
static const shape_t shapes_more[] = {
    { VNACAL_T8, 3, 3 },   { VNACAL_U8, 3, 3 },
    { VNACAL_TE10, 3, 3 }, { VNACAL_UE10, 3, 3 },
    { VNACAL_UE14, 3, 3 }, { VNACAL_E12, 3, 3 },
    { VNACAL_T16, 3, 3 },  { VNACAL_U16, 3, 3 },
    { VNACAL_T8, 2, 3 },   { VNACAL_E12, 3, 2 },
    { VNACAL_T8, 2, 2, 0, 0, 1 },   { VNACAL_U8, 2, 2, 0, 0, 1 },
    { VNACAL_T8, 2, 2, 0, 0, 2 },   { VNACAL_U8, 2, 2, 0, 0, 2 },
    { VNACAL_UE14, 2, 2, 0, 0, 1 }, { VNACAL_E12, 2, 2, 0, 0, 2 },
    { VNACAL_UE10, 3, 3, 1, 0, 3 }, { VNACAL_E12, 3, 3, 1, 0, 3 },
    { VNACAL_U8, 2, 1, 0, 0, 3 },   { VNACAL_T8, 1, 2, 0, 0, 3 },
};
#define NSHAPE_MORE ((int)(sizeof(shapes_more) / sizeof(shapes_more[0])))

static int nshapes(int tier)
{
    return tier ? NSHAPE_QUICK + NSHAPE_MORE : NSHAPE_QUICK;
}
static const shape_t *shape(int k)
{
    return k < NSHAPE_QUICK ? &shapes_quick[k] : &shapes_more[k - NSHAPE_QUICK];
}
static int norders(int tier) { return tier ? 4 : 3; }

static bool is16(vnacal_type_t t)
{
    return t == VNACAL_T16 || t == VNACAL_U16;
}

/* parameter slots of the universe */
enum { PM, PO, PS, PR4, PL11, PL12, PL21, PL22, PD0, PU1 = PD0 + 8, PU2 };

static void add_std(cs_scenario *sc, int entry, int np, int p1, int p2,
	const int *sp, const cs_c *sv)
{
    cs_std *st = &sc->std[sc->nstd++];
    memset(st, 0, sizeof(*st));
    st->entry = entry;
    st->np = np;
    st->port[0] = p1;
    st->port[1] = p2;
    for (int i = 0; i < np * np; ++i) {
	st->sp[i] = sp ? sp[i] : -1;
	st->sv[i] = sv ? sv[i] : 0.0;
    }
}

/* build the universe L for a shape; returns |L| */
static int universe0(cs_scenario *sc, const shape_t *sh, int tier)
{
    cs_param p;
    const int P = sh->rows > sh->cols ? sh->rows : sh->cols;
    const int sq = sh->rows < sh->cols ? sh->rows : sh->cols;
    static const cs_c through_v[4] = { 0, 1, 1, 0 };

    memset(sc, 0, sizeof(*sc));
    cs_make_vna(&sc->vna, sh->type, sh->rows, sh->cols, sh->vec == 2 ? 3 : 1,
	    2);
    memset(&p, 0, sizeof(p));
    p.kind = CSP_PREDEF; p.handle = -1;
    p.predef = VNACAL_MATCH; sc->param[PM] = p;
    p.predef = VNACAL_OPEN;  sc->param[PO] = p;
    p.predef = VNACAL_SHORT; sc->param[PS] = p;
    p.kind = CSP_SCALAR; p.predef = 0;
    p.c0 = 0.3 + 0.4 * I;      sc->param[PR4] = p;
    p.c0 = 0.10 + 0.05 * I;    sc->param[PL11] = p;
    p.c0 = 0.35 - 0.606 * I;   sc->param[PL12] = p;
    p.c0 = 0.33 - 0.58 * I;    sc->param[PL21] = p;
    p.c0 = -0.08 + 0.10 * I;   sc->param[PL22] = p;
    for (int k = 0; k < 8; ++k) {
	p.c0 = 0.7 * vf_cunit(8800, (uint64_t)k);
	sc->param[PD0 + k] = p;
    }
    sc->nparam = PD0 + 8;
    if (sh->unk) {
	static const int dr[5][2] = { {PM,PM}, {PS,PO}, {PO,PS}, {PU1,PU2},
	    {PU2,PU1} };
	memset(&p, 0, sizeof(p));
	p.kind = CSP_UNKNOWN; p.handle = -1;
	p.guess_scale = 1.02 * cexp(0.03 * I);
	p.c0 = 0.5 - 0.3 * I;   sc->param[PU1] = p;
	p.c0 = -0.2 + 0.6 * I;  sc->param[PU2] = p;
	sc->nparam = PU2 + 1;
	if (P == 1) {
	    int r[6] = { PS, PO, PM, PR4, PU1, PU2 };
	    for (int k = 0; k < 6; ++k)
		add_std(sc, CSE_SINGLE, 1, 1, 0, &r[k], NULL);
	    return sc->nstd;
	}
	add_std(sc, CSE_THROUGH, 2, 1, 2, NULL, through_v);
	for (int k = 0; k < 5; ++k) {
	    int sp[4] = { dr[k][0], -1, -1, dr[k][1] };
	    add_std(sc, CSE_DOUBLE, 2, 1, 2, sp, NULL);
	}
	if (is16(sh->type)) {
	    int sp[4] = { PS, -1, -1, PM };
	    add_std(sc, CSE_DOUBLE, 2, 1, 2, sp, NULL);
	} else {
	    int u1 = PU1;
	    add_std(sc, CSE_SINGLE, 1, 1, 0, &u1, NULL);
	}
	return sc->nstd;
    }

    if (sh->kit) {
	static const int kr[2][3] = { { PR4, PL11, PL12 },
	    { PL21, PL22, PD0 } };
	int iso[4] = { PM, -1, -1, PM };
	for (int port = 1; port <= 2; ++port)
	    for (int k = 0; k < 3; ++k)
		add_std(sc, CSE_SINGLE, 1, port, 0, &kr[port - 1][k], NULL);
	add_std(sc, CSE_THROUGH, 2, 1, 2, NULL, through_v);
	add_std(sc, CSE_MAPPED, 2, 1, 2, iso, NULL);
	sc->std[sc->nstd - 1].null_map = true;
	return sc->nstd;
    }
    if (is16(sh->type)) {
	if (P == 1) {
	    int r[4] = { PS, PO, PM, PR4 };
	    for (int k = 0; k < 4; ++k)
		add_std(sc, CSE_SINGLE, 1, 1, 0, &r[k], NULL);
	} else if (P == 2) {
	    int dr[5][2] = { {PM,PM}, {PS,PO}, {PO,PS}, {PS,PM}, {PO,PM} };
	    int ln[4] = { PL11, PL12, PL21, PL22 };
	    add_std(sc, CSE_THROUGH, 2, 1, 2, NULL, through_v);
	    for (int k = 0; k < 5; ++k) {
		int sp[4] = { dr[k][0], -1, -1, dr[k][1] };
		add_std(sc, CSE_DOUBLE, 2, 1, 2, sp, NULL);
	    }
	    add_std(sc, CSE_LINE, 2, 1, 2, ln, NULL);
	    if (tier && !sh->p16) {
		int d[4] = { PD0, PD0 + 1, PD0 + 2, PD0 + 3 };
		add_std(sc, CSE_LINE, 2, 1, 2, d, NULL);
	    }
	    if (sh->p16) {
		/* standards that leave a port open: a 16-term type still
		   gets an equation from every measured row (column) */
		int s1 = PS, o2 = PO, r1 = PR4;
		add_std(sc, CSE_SINGLE, 1, 1, 0, &s1, NULL);
		add_std(sc, CSE_SINGLE, 1, 2, 0, &o2, NULL);
		add_std(sc, CSE_SINGLE, 1, 1, 0, &r1, NULL);
	    }
	} else {
	    int nd = tier ? 8 : 6;
	    for (int d = 0; d < nd; ++d) {
		cs_std *st = &sc->std[sc->nstd++];
		memset(st, 0, sizeof(*st));
		st->entry = CSE_MAPPED;
		st->np = P;
		st->null_map = true;
		for (int i = 0; i < P; ++i)
		    st->port[i] = i + 1;
		for (int i = 0; i < P * P; ++i)
		    st->sp[i] = PD0 + (int)(vf_hash64(8802,
				(uint64_t)(d * 64 + i)) % 8);
	    }
	}
	return sc->nstd;
    }
    if (sh->mini) {
	int r[3] = { PS, PO, PM };
	for (int k = 0; k < 3; ++k)
	    add_std(sc, CSE_SINGLE, 1, 1, 0, &r[k], NULL);
	add_std(sc, CSE_THROUGH, 2, 1, 2, NULL, through_v);
	add_std(sc, CSE_THROUGH, 2, 1, 3, NULL, through_v);
	add_std(sc, CSE_THROUGH, 2, 2, 3, NULL, through_v);
    } else {
	int r[3] = { PS, PO, PM };
	for (int port = 1; port <= sq; ++port)
	    for (int k = 0; k < 3; ++k)
		add_std(sc, CSE_SINGLE, 1, port, 0, &r[k], NULL);
	if (P == 1) {
	    int r4 = PR4;
	    add_std(sc, CSE_SINGLE, 1, 1, 0, &r4, NULL);
	}
	for (int a = 1; a <= P; ++a)
	    for (int b = a + 1; b <= P; ++b)
		add_std(sc, CSE_THROUGH, 2, a, b, NULL, through_v);
	if (P == 2) {
	    int ln[4] = { PL11, PL12, PL21, PL22 };
	    int sp[4] = { PS, -1, -1, PO };
	    add_std(sc, CSE_LINE, 2, 1, 2, ln, NULL);
	    add_std(sc, CSE_DOUBLE, 2, 1, 2, sp, NULL);
	}
    }
    if (P == 3) {
        /* three-port chain: 1-2 and 2-3 coupled, direct 1-3 transfer
           explicitly zero (ports 1 and 3 connected through port 2) */
        cs_std *st = &sc->std[sc->nstd++];
        static const int sp[9] = { PL11, PL12, -1,
    			       PL21, PL22, PL12,
    			       -1,   PL21, PM };
        memset(st, 0, sizeof(*st));
        st->entry = CSE_MAPPED;
        st->np = 3;
        st->null_map = true;
        for (int i = 0; i < 3; ++i)
    	st->port[i] = i + 1;
        for (int i = 0; i < 9; ++i) {
    	st->sp[i] = sp[i];
    	st->sv[i] = 0.0;
        }
    }
    if (P == 3) {
	/* non-reciprocal isolator chain: only S23 and S31 non-zero off the
	   diagonal, still one connected group of three ports */
	cs_std *st = &sc->std[sc->nstd++];
	static const int sp[9] = { PL11, -1,   -1,
				   -1,   PL22, PL12,
				   PL21, -1,   PM };
	memset(st, 0, sizeof(*st));
	st->entry = CSE_MAPPED;
	st->np = 3;
	st->null_map = true;
	for (int i = 0; i < 3; ++i)
	    st->port[i] = i + 1;
	for (int i = 0; i < 9; ++i) {
	    st->sp[i] = sp[i];
	    st->sv[i] = 0.0;
	}
    }
    return sc->nstd;
}

static int universe(cs_scenario *sc, const shape_t *sh, int tier)
{
    int n = universe0(sc, sh, tier);
    if (sh->vec) {
	for (int q = 0; q < sc->nparam; ++q) {
	    cs_param *pp = &sc->param[q];
	    if (pp->kind != CSP_SCALAR)
		continue;
	    pp->kind = CSP_VECTOR;
	    pp->c1 = 0.15 * pp->c0 * (0.6 + 0.8 * I);
	    pp->c2 = 0.1;
	    pp->npts = sh->vec == 2 ? 17 : 5;
	    pp->warp = sh->vec == 2 ? 0.25 : 0.0;
	    pp->lo = 0.9;
	    pp->hi = 1.1;
	}
    }
    if (sh->abbr) {
	const cs_vna *v = &sc->vna;
	for (int k = 0; k < sc->nstd; ++k) {
	    cs_std *st = &sc->std[k];
	    bool rows_ok = true, cols_ok = true;
	    for (int i = 0; i < st->np; ++i) {
		if (st->port[i] > v->rows) rows_ok = false;
		if (st->port[i] > v->cols) cols_ok = false;
	    }
	    if (v->type == VNACAL_U16) rows_ok = false;
	    if (v->type == VNACAL_T16) cols_ok = false;
	    if (st->np == v->P)
		continue;		/* nothing to abbreviate */
	    st->null_map = false;
	    st->abbrev_rows = (sh->abbr & 1) && rows_ok;
	    st->abbrev_cols = (sh->abbr & 2) && cols_ok;
	}
    }
    return n;
}

/* the same standards with their ports listed in descending order (the S
   cells permuted to match): the same physical set, specified differently */
static void reverse_port_lists(cs_scenario *sc)
{
    for (int k = 0; k < sc->nstd; ++k) {
	cs_std *st = &sc->std[k], old = *st;
	const int np = st->np;
	if (np < 2)
	    continue;
	for (int i = 0; i < np; ++i) {
	    st->port[i] = old.port[np - 1 - i];
	    for (int j = 0; j < np; ++j) {
		st->sp[i * np + j] = old.sp[(np - 1 - i) * np + (np - 1 - j)];
		st->sv[i * np + j] = old.sv[(np - 1 - i) * np + (np - 1 - j)];
	    }
	}
	st->null_map = false;
    }
}

static int usize[128];
static long ubase[129];

static long count(int tier)
{
    long n = 0;
    static cs_scenario sc;
    for (int k = 0; k < nshapes(tier); ++k) {
	usize[k] = universe(&sc, shape(k), tier);
	ubase[k] = n;
	n += (1L << usize[k]) * norders(tier);
    }
    ubase[nshapes(tier)] = n;
    return n;
}

static void init(int tier)
{
    (void)count(tier);
}

/* identifiability cache for the current worker */
typedef struct { signed char known, ident; short eqs, eqtot, unktot; float margin; } icache_t;
static icache_t *icache[128];
static int g_eqtot, g_unktot;	/* totals of the last classify() */

static void classify(int shp, const cs_scenario *uni, unsigned mask,
	int *ident, long double *margin, int *eqs, int *unk)
{
    if (icache[shp] == NULL)
	icache[shp] = calloc((size_t)1 << usize[shp], sizeof(icache_t));
    icache_t *c = &icache[shp][mask];
    int u;
    if (!c->known) {
	long double m;
	int e;
	if (shape(shp)->p16) {
	    int rk = cs_terms_rank16(uni, mask, &m, &e, &u);
	    c->ident = (signed char)(rk > 0);
	    c->margin = (float)m;
	    c->eqs = (short)e;
	    c->eqtot = (short)e;
	    c->unktot = (short)u;
	} else {
	    c->ident = (signed char)cs_identifiable(uni, mask, &m, &e, &u);
	    c->margin = (float)m;
	    c->eqs = (short)(e > 30000 ? 30000 : e);
	    c->eqtot = (short)cs_last_eq_total;
	    c->unktot = (short)cs_last_unknown_total;
	}
	c->known = 1;
    }
    g_eqtot = c->eqtot;
    g_unktot = c->unktot;
    /* unknown count is a function of the shape only */
    {
	long double m; int e;
	(void)m; (void)e;
	const cs_vna *v = &uni->vna;
	int r = v->rows, cc = v->cols;
	switch (v->type) {
	case VNACAL_T8: case VNACAL_U8: case VNACAL_TE10: case VNACAL_UE10:
	    u = 2 * r + 2 * cc - 1; break;
	case VNACAL_T16: u = 2 * r * cc + 2 * cc * cc - 1; break;
	case VNACAL_U16: u = 2 * r * cc + 2 * r * r - 1; break;
	default: u = 2 * r + 1; break;
	}
    }
    *ident = c->ident;
    *margin = c->margin;
    *eqs = c->eqs;
    *unk = u;
}

static double dut_error(vnacal_t *vcp, vnacal_new_t *vnp, const char *name,
	const cs_scenario *sc, vf_result *r, int *ok)
{
    double worst = 0;
    int ci;

    *ok = 0;
    if (vnacal_add_calibration(vcp, name, vnp) < 0)
	return HUGE_VAL;
    ci = vnacal_find_calibration(vcp, name);
    if (ci < 0)
	return HUGE_VAL;
    for (int k = 0; k < 2; ++k) {
	cs_c Sd[CS_MAXF][CS_MAXP * CS_MAXP];
	int arc;
	for (int f = 0; f < sc->vna.nf; ++f)
	    cs_dut(&sc->vna, k, f, Sd[f]);
	double e = cs_apply_error(vcp, ci, sc, Sd, &arc);
	++r->transitions;
	if (arc != 0)
	    return HUGE_VAL;
	if (!(e <= worst))
	    worst = e;
    }
    *ok = 1;
    return worst;
}

static void run(int tier, long idx, vf_result *r)
{
    static cs_scenario uni;
    int shp = 0;
    vf_errlog elog;
    /* handles start at 3, 8 or 16, by case number */
    static const int fillers[3] = { 0, 5, 13 };
    cs_param_fillers = fillers[idx % 3];
    cs_receiver_gain = 0.0;
    const int descending = (int)((idx / 3) & 1);

    while (idx >= ubase[shp + 1])
	++shp;
    idx -= ubase[shp];
    int order = (int)(idx % norders(tier));
    unsigned mask = (unsigned)(idx / norders(tier));
    const shape_t *sh = shape(shp);
    /* a kit sits high in the parameter table in every case: its first
       handle is 16, a multiple of the size the per-calibration table
       grows to */
    if (sh->kit)
	cs_param_fillers = 13;
    cs_receiver_gain = sh->gain;
    int nL = universe(&uni, sh, tier);
    if (descending)
	reverse_port_lists(&uni);
    int seq[CS_MAXSTD], n = 0;
    const char *tname = vnacal_type_to_name(sh->type);

    for (int k = 0; k < nL; ++k)
	if (mask & (1u << k))
	    seq[n++] = k;
    if (order == 1) {
	for (int i = 0; i < n / 2; ++i) {
	    int t = seq[i]; seq[i] = seq[n - 1 - i]; seq[n - 1 - i] = t;
	}
    } else if (order >= 2 && n > 0) {
	/* order 2 brings the last third to the front (a through between
	   later ports first, then the reflects), order 3 the last two */
	int rot = (order == 2 ? (2 * n + 2) / 3 : (n + 2) / 3) % n;
	int tmp[CS_MAXSTD];
	for (int i = 0; i < n; ++i)
	    tmp[i] = seq[(i + rot) % n];
	memcpy(seq, tmp, sizeof(int) * (size_t)n);
    }
    {
	char b[200];
	size_t off = 0;
	b[0] = '\0';
	for (int i = 0; i < n && off < sizeof(b) - 8; ++i)
	    off += (size_t)snprintf(b + off, sizeof(b) - off, "%s%d",
		    i ? "," : "", seq[i]);
	vf_desc(r, "%s %dx%d universe of %d standards%s, add order [%s], "
		"solve after each", tname, sh->rows, sh->cols, nL,
		sh->unk ? " (two unknown reflections)" : sh->abbr == 3 ?
		" (abbreviated rows and columns)" : sh->abbr == 1 ?
		" (abbreviated rows)" : sh->abbr == 2 ?
		" (abbreviated columns)" : "", b);
    }

    unsigned long mark = vf_exec_begin();
    vf_errlog_reset(&elog);
    vnacal_t *vcp = vnacal_create((vnaerr_error_fn_t *)vf_errfn, &elog);
    if (vcp == NULL) {
	vf_fail(r, "create", "vnacal_create failed");
	return;
    }
    vnacal_new_t *vnp = NULL;
    if (cs_make_params(vcp, &uni) != 0) {
	vf_fail(r, "make-param", "parameter creation failed");
	goto out;
    }
    vnp = vnacal_new_alloc(vcp, sh->type, sh->rows, sh->cols, uni.vna.nf);
    if (vnp == NULL || vnacal_new_set_frequency_vector(vnp, uni.vna.f) != 0) {
	vf_fail(r, "alloc", "vnacal_new_alloc/set_frequency_vector failed");
	goto out;
    }
    int n_fail = 0, n_ok = 0, n_a = 0, n_b = 0;
    /* unknown parameters are found iteratively from a guess 2 % / 1.7
       degrees off: well-determined sets only, result to 1e-4 */
    const long double min_margin = sh->unk ? 1e-3L : 1e-6L;
    const double dut_tol = sh->unk ? 1e-4 : 1e-8;
    unsigned cur = 0;
    int last_ident = 0;
    for (int step = 0; step <= n; ++step) {
	int ident, eqs, unk;
	long double margin;
	char sig[120];

	if (step > 0) {
	    if (cs_add_std(vnp, &uni, seq[step - 1]) != 0) {
		snprintf(sig, sizeof(sig), "add-rejected:%s", tname);
		vf_fail(r, sig, "legal standard %d rejected: %s",
			seq[step - 1], elog.count ? elog.msg[0] : "");
		goto out;
	    }
	    cur |= 1u << seq[step - 1];
	    ++r->transitions;
	}
	classify(shp, &uni, cur, &ident, &margin, &eqs, &unk);
	errno = 0;
	vf_errlog_reset(&elog);
	int rc = vnacal_new_solve(vnp);
	int e = errno;
	++r->transitions;
	if (rc != 0 && rc != -1) {
	    vf_fail(r, "solve-rc", "vnacal_new_solve returned %d", rc);
	    goto out;
	}
	if (rc == -1) {
	    ++n_fail;
	    if (e != EDOM) {
		snprintf(sig, sizeof(sig), "solve-errno:%s", tname);
		vf_fail(r, sig, "vnacal_new_solve failed with errno %d, not "
			"EDOM, after %d standards: %s", e, step,
			elog.count ? elog.msg[0] : "");
		goto out;
	    }
	    if (elog.nonwarn != 1) {
		snprintf(sig, sizeof(sig), "solve-errfn:%s", tname);
		vf_fail(r, sig, "failed solve invoked the error function %d "
			"times", elog.nonwarn);
		goto out;
	    }
	} else {
	    ++n_ok;
	}
	/* with unknown standard parameters the count to reach is the sum
	   over all systems plus the parameters in use (an under-determined
	   total is under-determined however it is spread) */
	if (sh->unk) {
	    eqs = g_eqtot;
	    unk = g_unktot;
	}
	if (eqs < unk) {
	    ++n_a;
	    if (rc == 0) {
		snprintf(sig, sizeof(sig), "solved-underdetermined:%s", tname);
		vf_fail(r, sig, "vnacal_new_solve succeeded with %d "
			"measurement equations for %d unknown error terms%s "
			"(after %d standards)", eqs, unk, sh->unk ?
			" and unknown standard parameters" : "", step);
		goto out;
	    }
	} else if (ident && margin >= min_margin) {
	    ++n_b;
	    if (rc != 0) {
		snprintf(sig, sizeof(sig), "solve-failed:%s", tname);
		vf_fail(r, sig, "vnacal_new_solve failed (%s) on a "
			"determining set after %d standards and %d earlier "
			"failed attempts (Jacobian margin %.2Le, %d equations"
			", %d unknowns)", elog.count ? elog.msg[0] : "",
			step, n_fail - 1, margin, eqs, unk);
		goto out;
	    }
	}
	last_ident = (ident && margin >= min_margin);
    }
    /* final set determining: must correct DUTs, and equal a fresh object */
    if (last_ident && cs_apply_ok(&uni.vna)) {
	static cs_scenario once;
	int ok1, ok2;
	once = uni;
	once.nstd = 0;
	for (int i = 0; i < n; ++i)
	    once.std[once.nstd++] = uni.std[seq[i]];
	double e1 = dut_error(vcp, vnp, "incremental", &uni, r, &ok1);
	vnacal_new_t *vnp2 = cs_build(vcp, &once);
	double e2 = HUGE_VAL;
	ok2 = 0;
	if (vnp2 != NULL && vnacal_new_solve(vnp2) == 0)
	    e2 = dut_error(vcp, vnp2, "at-once", &once, r, &ok2);
	if (!ok1 || !(e1 <= dut_tol)) {
	    char sig[120];
	    snprintf(sig, sizeof(sig), "apply-wrong:%s", tname);
	    vf_fail(r, sig, "calibration accumulated with %d failed solve "
		    "attempts corrects the DUT with error %.3e", n_fail, e1);
	} else if (!ok2 || !(e2 <= dut_tol)) {
	    char sig[120];
	    snprintf(sig, sizeof(sig), "apply-wrong-fresh:%s", tname);
	    vf_fail(r, sig, "fresh object given the same set at once: "
		    "error %.3e", e2);
	}
	r->nontrivial = 1;
    } else if (n_a + n_b > 0) {
	r->nontrivial = 1;
    }
    vf_outcome(r, "%s%s a:%s b:%s fails:%s", tname, sh->unk ? " unk" :
	    sh->abbr ? " abbr" : "", n_a ? "y" : "n",
	    n_b ? "y" : "n", n_fail ? (n_ok ? "some" : "all") : "none");
out:
    cs_delete_params(vcp, &uni);
    vnacal_free(vcp);
    vf_exec_end(r, mark);
}

vf_driver vf_drv = {
    .property = "C20",
    .rule = "case = (type x shape x subset of the standard universe x "
	"accumulation order), vnacal_new_solve attempted after every "
	"addition; every prefix classified by equation count and by the "
	"physical-Jacobian rank test; non-trivial when at least one prefix "
	"fell into class (a) too few equations or (b) determining",
    .count = count,
    .run = run,
    .init = init,
    .timeout_s = 60,
};
