/*
 * C08: equivalent spellings of a Touchstone / NPD file load to the same
 * network data.
 *
 * Ground truths are written by the independent writer (oracle/tsnpd.c) in a
 * canonical spelling and in every single equivalence-preserving respelling
 * (thorough: every pair of respellings for small ground truths); each file
 * is loaded with vnadata_load and compared with the ground truth.
 */
#include <complex.h>
#include <math.h>
#include <stdio.h>
#include <stdlib.h>
#include <string.h>
#include <unistd.h>
#include <vnadata.h>
#include "vf.h"
#include "tsnpd.h"

#define TOL 1e-12

/* ---- ground truths ------------------------------------------------- */

typedef struct { char letter; int ports; } tp_t;
static const tp_t ts_tp[] = {
    {'S',1},{'S',2},{'S',3},{'S',4},{'S',5},{'S',6},
    {'Z',1},{'Z',2},{'Z',3},{'Z',4},{'Z',5},{'Z',6},
    {'Y',1},{'Y',2},{'Y',3},{'Y',4},{'Y',5},{'Y',6},
    {'H',2},{'G',2},
    {'S',7},{'S',8},{'Z',7},{'Y',8},	/* Touchstone 2 only */
};
#define N_TS_TP 24
static const tp_t npd_tp[] = {
    {'S',1},{'S',2},{'S',3},{'S',4},
    {'Z',1},{'Z',2},{'Z',3},{'Z',4},
    {'Y',1},{'Y',2},{'Y',3},{'Y',4},
    {'H',2},{'G',2},
};
#define N_NPD_TP 14

static const double real_z0[] = { 50.0, 75.0, 25.5, 100.0, 60.0, 33.0, 90.0,
    12.5 };
static const double complex cplx_z0[] = {
    50.0 + 5.0 * I, 75.0 - 10.0 * I, 30.0 + 40.0 * I, 100.0 - 1.0 * I,
    60.0 + 0.5 * I, 45.0 - 45.0 * I, 20.0 + 1.0 * I, 150.0 - 30.0 * I
};
static const double freqs[3][3] = {
    { 1.5e9, 0, 0 },
    { 0.0, 2.50000000001e9, 0 },	/* a sweep that starts at DC */
    { 1.0e6, 1.000001e6, 39.9999999999e9 },
};

/* z0set: 0 all 50, 1 all 75.5, 2 unequal real, 3 complex, 4 per-frequency */
static void make_gt(tsnpd_net *g, char letter, int ports, int nfreq,
	int z0set, int sym)
{
    memset(g, 0, sizeof(*g));
    g->letter = letter;
    g->ports = ports;
    g->nfreq = nfreq;
    g->fz0 = z0set == 4;
    for (int f = 0; f < nfreq; ++f) {
	g->freq[f] = freqs[nfreq - 1][f];
	for (int p = 0; p < ports; ++p) {
	    switch (z0set) {
	    case 0: g->z0[f][p] = 50.0; break;
	    case 1: g->z0[f][p] = 75.5; break;
	    case 2: g->z0[f][p] = real_z0[p]; break;
	    case 3: g->z0[f][p] = cplx_z0[p]; break;
	    default: g->z0[f][p] = cplx_z0[p] * (1.0 + 0.125 * f); break;
	    }
	}
	for (int r = 0; r < ports; ++r) {
	    for (int c = 0; c < ports; ++c) {
		int rr = r, cc = c;
		double complex v;
		double sc = 1.0;

		if (sym && c < r) { rr = c; cc = r; }
		v = 0.8 * vf_cunit(8000 + (uint64_t)letter * 16 + (uint64_t)ports,
			(uint64_t)(f * 64 + rr * 8 + cc)) + (0.1 + 0.05 * I);
		switch (letter) {
		case 'S': sc = 0.9 / ports; break;
		case 'Z': sc = 50.0; break;
		case 'Y': sc = 0.02; break;
		case 'H': sc = (r == 0 && c == 0) ? 50.0 :
			  (r == 1 && c == 1) ? 0.02 : 1.0; break;
		case 'G': sc = (r == 0 && c == 0) ? 0.02 :
			  (r == 1 && c == 1) ? 50.0 : 1.0; break;
		default: break;
		}
		/* values with special angles: an exactly real positive and
		   negative entry, an exactly imaginary pair (angles 0, 180,
		   +90, -90 in the polar encodings) */
		if (f == 0 && rr == 0 && cc == 0)
		    v = 0.5;
		else if (f == 0 && rr == ports - 1 && cc == ports - 1)
		    v = -0.25;
		else if (f == 0 && ports >= 2 && ((rr == 0 && cc == 1) ||
			    (rr == 1 && cc == 0)))
		    v = (sym || c > r) ? 0.375 * I : -0.375 * I;
		g->data[f][r * ports + c] = v * sc;
	    }
	}
    }
}

/* remove the line break that ends the file, if one does; 1 if removed */
static int chop_final_newline(const char *path)
{
    FILE *fp = fopen(path, "r+");
    long n;
    int ch, rv = 0;

    if (fp == NULL)
	return 0;
    if (fseek(fp, -1L, SEEK_END) == 0 && (n = ftell(fp)) >= 1 &&
	    (ch = getc(fp)) == '\n') {
	fflush(fp);
	rv = ftruncate(fileno(fp), n) == 0;
    }
    fclose(fp);
    return rv;
}

/* ---- respelling dimensions ----------------------------------------- */

enum { D_UNIT, D_ENC, D_MATFMT, D_ORDER, D_CASE, D_COMMENTS, D_BLANK,
    D_SPACE, D_LINEBREAK, D_OPTION, D_NOISE, D_REF, D_KWORDER, D_INTZERO,
    D_KWBLOCK, TS_NDIM };
static const int ts_dimsize[TS_NDIM] = { 4, 3, 4, 2, 4, 4, 3, 3, 4, 384, 2,
    3, 3, 2, 4 * 2 * 3 * 2 * 3 };
static const char *ts_dimname[TS_NDIM] = { "unit", "encoding", "matrix-format",
    "two-port-order", "letter-case", "comments", "blank-lines", "spacing",
    "line-breaks", "option-line", "noise-block", "reference", "keyword-order",
    "leading-zero-counts", "keyword-block" };

static void ts_apply(tsnpd_spell *s, int dim, int v)
{
    switch (dim) {
    case D_UNIT: s->unit = v; break;
    case D_ENC: s->enc = "RMD"[v]; break;
    case D_MATFMT: s->matfmt = v; break;
    case D_ORDER: s->order = v; break;
    case D_CASE: s->kwcase = v; break;
    case D_COMMENTS: s->comments = v; break;
    case D_BLANK: s->blank = v; break;
    case D_SPACE: s->space = v; break;
    case D_LINEBREAK: s->linebreak = v; break;
    case D_OPTION: s->optperm = v % 24; s->optmask = v / 24; break;
    case D_NOISE: s->noise = v; break;
    case D_REF: s->refstyle = v; break;
    case D_KWORDER: s->kworder = v; break;
    case D_INTZERO: s->intzero = v; break;
    case D_KWBLOCK:
	/* the keywords between [Number of Ports] and [Network Data] keep
	   state for one another: their full cross product */
	s->matfmt = v % 4; v /= 4;
	s->order = v % 2; v /= 2;
	s->kworder = v % 3; v /= 3;
	s->noise = v % 2; v /= 2;
	s->refstyle = v % 3;
	break;
    default: break;
    }
}

enum { N_PERM, N_ENC, N_NAMECASE, N_BLANK, N_COMMENTS, N_SPACE, N_PFCASE,
    N_INTZERO, NPD_NDIM };
static const int npd_dimsize[NPD_NDIM] = { 5040, 3, 3, 3, 3, 3, 2, 2 };
static const char *npd_dimname[NPD_NDIM] = { "header-order", "encoding",
    "name-case", "blank-lines", "comments", "spacing", "per-frequency-case",
    "leading-zero-counts" };
#define PERM_CHUNK 504

static void npd_apply(tsnpd_npd_spell *s, int dim, int v)
{
    switch (dim) {
    case N_PERM: s->perm = v; break;
    case N_ENC: s->enc = "RMD"[v]; break;
    case N_NAMECASE: s->namecase = v; break;
    case N_BLANK: s->blank = v; break;
    case N_COMMENTS: s->comments = v; break;
    case N_SPACE: s->space = v; break;
    case N_PFCASE: s->pfcase = v; break;
    case N_INTZERO: s->intzero = v; break;
    default: break;
    }
}

/* ---- case table ------------------------------------------------------ */

typedef struct {
    unsigned char npd;		/* 0 Touchstone, 1 NPD */
    unsigned char tp, nfreq, z0set, sym, version;
    short dima, dimb;		/* dimb == -1: single respelling */
    short chunk;		/* NPD header-order chunk, -1 none */
} case_t;

static case_t *cases[2];
static long ncases[2];

static void add_case(int tier, const case_t *c)
{
    static long cap[2];
    if (ncases[tier] == cap[tier]) {
	cap[tier] = cap[tier] ? 2 * cap[tier] : 4096;
	cases[tier] = realloc(cases[tier], (size_t)cap[tier] * sizeof(case_t));
    }
    cases[tier][ncases[tier]++] = *c;
}

static void build(int tier)
{
    if (ncases[tier])
	return;
    /* Touchstone roots */
    for (int tp = 0; tp < N_TS_TP; ++tp)
    for (int nf = 1; nf <= 3; ++nf)
    for (int zs = 0; zs < 3; ++zs)
    for (int sym = 0; sym < 2; ++sym)
    for (int ver = 1; ver <= 2; ++ver) {
	case_t c = { 0, (unsigned char)tp, (unsigned char)nf,
	    (unsigned char)zs, (unsigned char)sym, (unsigned char)ver, 0, -1,
	    -1 };
	if (ver == 1 && (ts_tp[tp].ports > 4 || zs == 2))
	    continue;		/* no version 1 spelling exists */
	if (ts_tp[tp].ports == 1 && (sym || zs == 2))
	    continue;		/* duplicates of other roots */
	for (int d = 0; d < TS_NDIM; ++d) {
	    c.dima = (short)d;
	    c.dimb = -1;
	    add_case(tier, &c);
	}
	if (tier && ts_tp[tp].ports <= 3 && nf <= 2) {
	    for (int a = 0; a < D_KWBLOCK; ++a)
		for (int b = a + 1; b < D_KWBLOCK; ++b) {
		    c.dima = (short)a;
		    c.dimb = (short)b;
		    add_case(tier, &c);
		}
	}
    }
    /* NPD roots */
    for (int tp = 0; tp < N_NPD_TP; ++tp)
    for (int nf = 1; nf <= 3; ++nf)
    for (int zi = 0; zi < 4; ++zi) {
	static const int zsets[4] = { 0, 2, 3, 4 };
	case_t c = { 1, (unsigned char)tp, (unsigned char)nf,
	    (unsigned char)zsets[zi], 0, 0, 0, -1, -1 };
	int small = npd_tp[tp].ports <= 2 && nf == 1;

	for (int d = 1; d < NPD_NDIM; ++d) {
	    c.dima = (short)d;
	    c.dimb = -1;
	    c.chunk = -1;
	    add_case(tier, &c);
	}
	if (nf == 1 || tier) {
	    for (int ch = 0; ch < 5040 / PERM_CHUNK; ++ch) {
		c.dima = N_PERM;
		c.dimb = -1;
		c.chunk = (short)ch;
		add_case(tier, &c);
	    }
	}
	if (tier && small) {
	    for (int a = 1; a < NPD_NDIM; ++a)
		for (int b = a + 1; b < NPD_NDIM; ++b) {
		    c.dima = (short)a;
		    c.dimb = (short)b;
		    c.chunk = -1;
		    add_case(tier, &c);
		}
	    for (int b = 1; b < NPD_NDIM; ++b)
		for (int ch = 0; ch < 5040 / PERM_CHUNK; ++ch) {
		    c.dima = N_PERM;
		    c.dimb = (short)b;
		    c.chunk = (short)ch;
		    add_case(tier, &c);
		}
	}
    }
}

static long count(int tier)
{
    build(tier);
    return ncases[tier];
}

/* ---- the comparison ---------------------------------------------------- */

static int close_c(double complex a, double complex b)
{
    double d = cabs(a - b);
    return d <= TOL * cabs(b) || (a == b);
}

static void dump_file(const char *path)
{
    FILE *fp;
    char ln[600];
    int n = 0;
    if (!vf_verbose || (fp = fopen(path, "r")) == NULL)
	return;
    vf_note("---- %s", path);
    while (fgets(ln, sizeof(ln), fp) != NULL && n++ < 200) {
	ln[strcspn(ln, "\n")] = '\0';
	vf_note("| %s", ln);
    }
    fclose(fp);
}

/* load `path' and compare with g; returns 0 when it matched */
static int load_and_compare(const tsnpd_net *g, const char *path,
	const char *what, const char *family, vf_result *r)
{
    vf_errlog log;
    vnadata_t *vdp;
    char sig[160];
    int rc, bad = 0;
    static const char letters[] = "?STUZYHGAB";

    vf_errlog_reset(&log);
    vdp = vnadata_alloc((vnaerr_error_fn_t *)vf_errfn, &log);
    if (vdp == NULL) {
	vf_fail(r, "harness:vnadata_alloc", "vnadata_alloc failed");
	return -1;
    }
    rc = vnadata_load(vdp, path);
    ++r->transitions;
    if (rc != 0) {
	snprintf(sig, sizeof(sig), "rejected:%s:%s", family, what);
	vf_fail(r, sig, "vnadata_load returned %d for a well-formed %s file "
		"(%s); library said: %s", rc, family, r->desc,
		log.count ? log.msg[0] : "(nothing)");
	dump_file(path);
	vnadata_free(vdp);
	return -1;
    }
    {
	int type = (int)vnadata_get_type(vdp);
	int rows = vnadata_get_rows(vdp), cols = vnadata_get_columns(vdp);
	int nf = vnadata_get_frequencies(vdp);
	char got = (type >= 1 && type <= 9) ? letters[type] : '?';

	if (got != g->letter) {
	    snprintf(sig, sizeof(sig), "type:%s:%s", family, what);
	    vf_fail(r, sig, "loaded parameter type %c, file holds %c (%s)",
		    got, g->letter, r->desc);
	    bad = 1;
	} else if (rows != g->ports || cols != g->ports || nf != g->nfreq) {
	    snprintf(sig, sizeof(sig), "dimensions:%s:%s", family, what);
	    vf_fail(r, sig, "loaded %d x %d x %d frequencies, file holds %d x "
		    "%d x %d (%s)", rows, cols, nf, g->ports, g->ports,
		    g->nfreq, r->desc);
	    bad = 1;
	}
    }
    for (int f = 0; !bad && f < g->nfreq; ++f) {
	double fr = vnadata_get_frequency(vdp, f);
	const double complex *z = vnadata_get_fz0_vector(vdp, f);
	const double complex *m = vnadata_get_matrix(vdp, f);

	if (!(fabs(fr - g->freq[f]) <= TOL * g->freq[f])) {
	    snprintf(sig, sizeof(sig), "frequency:%s:%s", family, what);
	    vf_fail(r, sig, "frequency %d loaded as %.17g, file says %.17g "
		    "Hz (%s)", f, fr, g->freq[f], r->desc);
	    bad = 1;
	    break;
	}
	if (z == NULL || m == NULL) {
	    snprintf(sig, sizeof(sig), "getter:%s:%s", family, what);
	    vf_fail(r, sig, "z0 / matrix getter failed after load (%s)",
		    r->desc);
	    bad = 1;
	    break;
	}
	for (int p = 0; p < g->ports; ++p) {
	    double complex want = g->z0[g->fz0 ? f : 0][p];
	    if (!close_c(z[p], want)) {
		snprintf(sig, sizeof(sig), "z0:%s:%s", family, what);
		vf_fail(r, sig, "z0 of port %d at frequency %d loaded as "
			"%.17g%+.17gj, file says %.17g%+.17gj (%s)", p + 1, f,
			creal(z[p]), cimag(z[p]), creal(want), cimag(want),
			r->desc);
		bad = 1;
		break;
	    }
	}
	for (int i = 0; !bad && i < g->ports * g->ports; ++i) {
	    if (!close_c(m[i], g->data[f][i])) {
		snprintf(sig, sizeof(sig), "value:%s:%s", family, what);
		vf_fail(r, sig, "%c%d%d at frequency %d loaded as "
			"%.17g%+.17gj, file says %.17g%+.17gj (%s)",
			g->letter, i / g->ports + 1, i % g->ports + 1, f,
			creal(m[i]), cimag(m[i]), creal(g->data[f][i]),
			cimag(g->data[f][i]), r->desc);
		bad = 1;
	    }
	}
    }
    if (bad)
	dump_file(path);
    vnadata_free(vdp);
    return bad ? -1 : 0;
}

static void run(int tier, long idx, vf_result *r)
{
    const case_t *c;
    tsnpd_net g;
    long tried = 0, na = 0;
    unsigned long mark;
    char path[800], what[96];
    const char *family;

    build(tier);
    c = &cases[tier][idx];
    mark = vf_exec_begin();
    if (!c->npd) {
	const tp_t *tp = &ts_tp[c->tp];
	int na_sz = ts_dimsize[c->dima];
	int nb_sz = c->dimb >= 0 ? ts_dimsize[c->dimb] : 1;

	family = c->version == 1 ? "touchstone1" : "touchstone2";
	make_gt(&g, tp->letter, tp->ports, c->nfreq, c->z0set, c->sym);
	if (c->version == 1)
	    snprintf(path, sizeof(path), "%s", vf_tmp("c08.sXp"));
	else
	    snprintf(path, sizeof(path), "%s", vf_tmp("c08.ts"));
	if (c->version == 1)	/* .s<N>p */
	    path[strlen(path) - 2] = (char)('0' + tp->ports);
	if (c->dimb >= 0)
	    snprintf(what, sizeof(what), "%s+%s", ts_dimname[c->dima],
		    ts_dimname[c->dimb]);
	else
	    snprintf(what, sizeof(what), "%s", ts_dimname[c->dima]);
	for (int a = 0; a < na_sz && r->status == VF_OK; ++a) {
	    for (int b = 0; b < nb_sz && r->status == VF_OK; ++b) {
		tsnpd_spell s;
		int rc;

		tsnpd_spell_init(&s, c->version);
		ts_apply(&s, c->dima, a);
		if (c->dimb >= 0)
		    ts_apply(&s, c->dimb, b);
		vf_desc(r, "%s %c %d-port %d freq z0set %d%s: %s=%d",
			family, tp->letter, tp->ports, c->nfreq, c->z0set,
			c->sym ? " symmetric" : "", ts_dimname[c->dima], a);
		if (c->dimb >= 0)
		    vf_desc(r, "%s %c %d-port %d freq z0set %d%s: %s=%d %s=%d",
			    family, tp->letter, tp->ports, c->nfreq, c->z0set,
			    c->sym ? " symmetric" : "", ts_dimname[c->dima],
			    a, ts_dimname[c->dimb], b);
		rc = tsnpd_write_ts(path, &g, &s);
		if (rc == TSNPD_NA) {
		    ++na;
		    continue;
		}
		if (rc != 0) {
		    vf_fail(r, "harness:write", "cannot write %s", path);
		    break;
		}
		++tried;
		load_and_compare(&g, path, what, family, r);
		/* the same file without the line break at its end */
		if (r->status == VF_OK && (c->dima == D_BLANK ||
			    c->dimb == D_BLANK) && chop_final_newline(path)) {
		    char w2[160];
		    snprintf(w2, sizeof(w2), "%.120s+no-final-newline", what);
		    ++tried;
		    load_and_compare(&g, path, w2, family, r);
		}
	    }
	}
    } else {
	const tp_t *tp = &npd_tp[c->tp];
	int a0 = 0, a1 = npd_dimsize[c->dima];
	int nb_sz = c->dimb >= 0 ? npd_dimsize[c->dimb] : 1;

	family = "npd";
	if (c->chunk >= 0) {
	    a0 = c->chunk * PERM_CHUNK;
	    a1 = a0 + PERM_CHUNK;
	}
	make_gt(&g, tp->letter, tp->ports, c->nfreq, c->z0set, 0);
	snprintf(path, sizeof(path), "%s", vf_tmp("c08.npd"));
	if (c->dimb >= 0)
	    snprintf(what, sizeof(what), "%s+%s", npd_dimname[c->dima],
		    npd_dimname[c->dimb]);
	else
	    snprintf(what, sizeof(what), "%s", npd_dimname[c->dima]);
	for (int a = a0; a < a1 && r->status == VF_OK; ++a) {
	    for (int b = 0; b < nb_sz && r->status == VF_OK; ++b) {
		tsnpd_npd_spell s;
		int rc;

		tsnpd_npd_spell_init(&s);
		npd_apply(&s, c->dima, a);
		if (c->dimb >= 0)
		    npd_apply(&s, c->dimb, b);
		vf_desc(r, "npd %c %d-port %d freq z0set %d: %s=%d %s=%d",
			tp->letter, tp->ports, c->nfreq, c->z0set,
			npd_dimname[c->dima], a,
			c->dimb >= 0 ? npd_dimname[c->dimb] : "-", b);
		rc = tsnpd_write_npd(path, &g, &s);
		if (rc == TSNPD_NA) {
		    ++na;
		    continue;
		}
		if (rc != 0) {
		    vf_fail(r, "harness:write", "cannot write %s", path);
		    break;
		}
		++tried;
		load_and_compare(&g, path, what, family, r);
		if (r->status == VF_OK && (c->dima == N_BLANK ||
			    c->dimb == N_BLANK) && chop_final_newline(path)) {
		    char w2[160];
		    snprintf(w2, sizeof(w2), "%.120s+no-final-newline", what);
		    ++tried;
		    load_and_compare(&g, path, w2, family, r);
		}
	    }
	}
    }
    unlink(path);
    vf_exec_end(r, mark);
    r->nontrivial = tried > 0;
    r->states = tried;
    if (r->status == VF_OK)
	vf_desc(r, "%s root, respelling family %s: %ld files loaded and "
		"compared, %ld spellings not applicable", family, what, tried,
		na);
    vf_outcome(r, "%s %s", family, tried ? "loaded" : "not-applicable");
}

vf_driver vf_drv = {
    .property = "C08",
    .rule = "case = (ground truth, base framing, one respelling dimension or "
	"a pair of them); every value of the dimension(s) that is applicable "
	"to the ground truth is written by the independent writer and loaded "
	"with vnadata_load; a case is non-trivial when at least one file was "
	"written, loaded and compared; 'states' counts the files, "
	"'transitions' the vnadata_load calls",
    .count = count,
    .run = run,
};
