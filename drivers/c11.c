/*
 * C11: failures are reported as documented and leave objects unchanged and
 * usable.
 *
 * Part A: the argument-domain sweep of c03_table.h (0, 1 and - thorough - 2
 * deviations) judged with the oracle transcribed from the manual pages:
 * failure value, errno class, number and category of error-callback
 * invocations, no non-warning callback on success, and a digest of every
 * fixture object identical before and after a refused call.
 * Part B: late failures and indices (scenarios below).
 */
#include "c03_calls.h"

static int close_terms(const vnacal_calibration_t *a,
	const vnacal_calibration_t *b, double *worst)
{
    double scale = 0, err = 0;
    if (a == NULL || b == NULL || a->cal_error_terms != b->cal_error_terms ||
	    a->cal_frequencies != b->cal_frequencies)
	return 0;
    for (int t = 0; t < a->cal_error_terms; ++t)
	for (int k = 0; k < a->cal_frequencies; ++k) {
	    double m = cabs(a->cal_error_term_vector[t][k]);
	    double e = cabs(a->cal_error_term_vector[t][k] -
		    b->cal_error_term_vector[t][k]);
	    if (m > scale) scale = m;
	    if (!(e <= err)) err = e;
	}
    *worst = err / (scale > 0 ? scale : 1.0);
    return *worst <= 1e-9;
}

/* a failing solve: -1, EDOM, exactly one non-warning callback */
static int expect_solve_edom(fx_t *F, vnacal_new_t *vnp, vf_result *r,
	const char *tag, const char *when)
{
    char sig[120];
    vf_errlog_reset(&F->elog);
    errno = 0;
    int rc = vnacal_new_solve(vnp);
    int e = errno;
    ++r->transitions;
    if (rc != -1) {
	snprintf(sig, sizeof(sig), "solve-underdetermined-ok:%s", tag);
	vf_fail(r, sig, "vnacal_new_solve returned %d %s", rc, when);
	return -1;
    }
    if (e != EDOM) {
	snprintf(sig, sizeof(sig), "solve-errno:%s", tag);
	vf_fail(r, sig, "vnacal_new_solve failed with errno %d, not EDOM, "
		"%s: %s", e, when, F->elog.count ? F->elog.msg[0] : "");
    }
    if (F->elog.nonwarn != 1 || F->elog.bad_format) {
	snprintf(sig, sizeof(sig), "solve-callback:%s", tag);
	vf_fail(r, sig, "failed vnacal_new_solve invoked the error function "
		"%d times %s", F->elog.nonwarn, when);
    }
    return 0;
}

/* solve with k of the standards, fail, add the rest, solve; == fresh */
static void sc_retry(cs_scenario *sc, int k, int twice, vf_result *r)
{
    fx_t *F = &c3_F;
    const char *tn = vnacal_type_to_name(sc->vna.type);
    char sig[120], when[80];
    vnacal_new_t *vnp, *fresh;
    double worst = 0;

    vf_desc(r, "%s %dx%d: solve with %d of %d standards%s, add the rest, "
	    "solve; compare with a fresh object given all at once", tn,
	    sc->vna.rows, sc->vna.cols, k, sc->nstd,
	    twice ? " (two failed attempts)" : "");
    vnp = vnacal_new_alloc(F->vcp, sc->vna.type, sc->vna.rows, sc->vna.cols,
	    NF);
    if (vnp == NULL || vnacal_new_set_frequency_vector(vnp, F->f3) != 0) {
	vf_fail(r, "scenario-setup", "vnacal_new_alloc failed");
	return;
    }
    for (int i = 0; i < k; ++i)
	if (cs_add_std(vnp, sc, i) != 0) {
	    vf_fail(r, "scenario-setup", "legal standard rejected");
	    return;
	}
    snprintf(when, sizeof(when), "with %d of %d standards", k, sc->nstd);
    if (expect_solve_edom(F, vnp, r, tn, when) != 0)
	return;
    if (twice && expect_solve_edom(F, vnp, r, tn, when) != 0)
	return;
    for (int i = k; i < sc->nstd; ++i)
	if (cs_add_std(vnp, sc, i) != 0) {
	    snprintf(sig, sizeof(sig), "add-after-failed-solve:%s", tn);
	    vf_fail(r, sig, "standard %d rejected after a failed solve: %s",
		    i, F->elog.count ? F->elog.msg[0] : "");
	    return;
	}
    vf_errlog_reset(&F->elog);
    errno = 0;
    if (vnacal_new_solve(vnp) != 0) {
	snprintf(sig, sizeof(sig), "retry-failed:%s", tn);
	vf_fail(r, sig, "vnacal_new_solve failed (errno %d: %s) after the "
		"missing standards were added", errno,
		F->elog.count ? F->elog.msg[0] : "");
	return;
    }
    if (F->elog.nonwarn != 0) {
	snprintf(sig, sizeof(sig), "callback-on-success:solve:%s", tn);
	vf_fail(r, sig, "successful retry invoked the error function: %s",
		F->elog.msg[0]);
    }
    fresh = cs_build(F->vcp, sc);
    if (fresh == NULL || vnacal_new_solve(fresh) != 0) {
	vf_fail(r, "scenario-setup", "fresh solve failed");
	return;
    }
    r->transitions += 2;
    if (!close_terms(vnp->vn_calibration, fresh->vn_calibration, &worst)) {
	snprintf(sig, sizeof(sig), "retry-differs:%s", tn);
	vf_fail(r, sig, "error terms after failed attempt(s) and completion "
		"differ from a fresh solve by %.3e (relative)", worst);
    }
    r->nontrivial = 1;
    vf_outcome(r, "retry %s equal to fresh", tn);
}

/* a rejected standard adds nothing: complete and solve == control */
static void sc_rejected_add(vf_result *r)
{
    fx_t *F = &c3_F;
    double worst = 0;
    vnacal_new_t *ctl;

    vf_desc(r, "T8 2x2 live object: double reflect with a not yet used "
	    "correlated parameter and a deleted handle is rejected; then the "
	    "remaining standards are added and solved; compared with the same "
	    "without the rejected call");
    fx_digest(F, &c3_D0, 0);
    vf_errlog_reset(&F->elog);
    errno = 0;
    int rc = vnacal_new_add_double_reflect_m(F->vnpL, F->mp, 2, 2, F->p_corr,
	    F->p_stale, 1, 2);
    int e = errno;
    ++r->transitions;
    if (rc != -1 || e != EINVAL || F->elog.nonwarn != 1) {
	vf_fail(r, "rejected-add:report", "add with a deleted handle: rc %d "
		"errno %d callbacks %d", rc, e, F->elog.nonwarn);
	return;
    }
    fx_digest(F, &c3_D1, 0);
    if (strcmp(c3_D0.t, c3_D1.t) != 0) {
	char diff[700];
	dg_diff(&c3_D0, &c3_D1, diff, sizeof(diff));
	vf_fail(r, "state-changed:rejected-standard", "a rejected standard "
		"changed the object: %s", diff);
    }
    /* control: identical object without the rejected call */
    ctl = vnacal_new_alloc(F->vcp, VNACAL_T8, 2, 2, NF);
    if (ctl == NULL || vnacal_new_set_frequency_vector(ctl, F->f3) != 0) {
	vf_fail(r, "scenario-setup", "alloc failed");
	return;
    }
    for (int k = 0; k < 4; ++k)
	(void)cs_add_std(ctl, &c3_scA, k);
    (void)vnacal_new_add_single_reflect_m(ctl, F->mp, 2, 2, F->p_unknown, 2);
    for (int k = 4; k < c3_scA.nstd; ++k) {
	if (cs_add_std(F->vnpL, &c3_scA, k) != 0 ||
		cs_add_std(ctl, &c3_scA, k) != 0) {
	    vf_fail(r, "scenario-setup", "legal standard rejected");
	    return;
	}
    }
    vf_errlog_reset(&F->elog);
    int rc1 = vnacal_new_solve(F->vnpL);
    int rc2 = vnacal_new_solve(ctl);
    r->transitions += 2;
    if (rc1 != rc2) {
	vf_fail(r, "rejected-add:solve-differs", "solve after a rejected "
		"standard returned %d, control object %d: %s", rc1, rc2,
		F->elog.count ? F->elog.msg[0] : "");
    } else if (rc1 == 0 && !close_terms(F->vnpL->vn_calibration,
		ctl->vn_calibration, &worst)) {
	vf_fail(r, "rejected-add:terms-differ", "error terms differ from the "
		"control by %.3e", worst);
    }
    /*
     * a rejected standard adds nothing, also no hold on the parameters it
     * named before the rejection: a vector parameter that no accepted
     * standard uses does not restrict the frequencies of the calibration
     */
    if (r->status == VF_OK) {
	double fv[3], band2[3];
	double complex gv[3] = { -0.9, -0.85 + 0.05 * I, -0.8 + 0.1 * I };
	vnacal_new_t *vnp = vnacal_new_alloc(F->vcp, VNACAL_T8, 2, 2, 3);
	int pv;
	for (int k = 0; k < 3; ++k) {
	    fv[k] = F->f3[k];
	    band2[k] = 10.0 * F->f3[k];
	}
	pv = vnacal_make_vector_parameter(F->vcp, fv, 3, gv);
	if (vnp == NULL || pv < 0 ||
		vnacal_new_set_frequency_vector(vnp, F->f3) != 0) {
	    vf_fail(r, "scenario-setup", "alloc failed");
	    return;
	}
	vf_errlog_reset(&F->elog);
	errno = 0;
	/* (the deleted handle of the fixture may have been issued again
	   for pv: name one that was never issued) */
	rc = vnacal_new_add_double_reflect_m(vnp, F->mp, 2, 2, pv,
		9999, 1, 2);
	e = errno;
	++r->transitions;
	if (rc != -1 || e != EINVAL) {
	    vf_fail(r, "rejected-add:report", "add with a band-limited "
		    "vector and a handle never issued: rc %d errno %d", rc, e);
	} else {
	    vf_errlog_reset(&F->elog);
	    rc = vnacal_new_set_frequency_vector(vnp, band2);
	    ++r->transitions;
	    if (rc != 0)
		vf_fail(r, "rejected-add:parameter-kept", "after a rejected "
			"standard that named a vector parameter given on "
			"%.3g..%.3g Hz, the calibration (which holds no "
			"standard) refuses the frequencies %.3g..%.3g Hz: %s",
			fv[0], fv[2], band2[0], band2[2],
			F->elog.count ? F->elog.msg[0] : "");
	}
	vnacal_new_free(vnp);
	(void)vnacal_delete_parameter(F->vcp, pv);
    }
    r->nontrivial = 1;
    vf_outcome(r, "rejected add, solve rc %d", rc1);
}

/* after a failed init/load/convert the destination is still usable */
static void usable(vnadata_t *vdp, fx_t *F, vf_result *r, const char *tag)
{
    char sig[120];
    double complex m[4] = { 0.1, 0.2, 0.3 * I, 0.4 };

    fx_digest(F, &c3_D1, 0);		/* every query answers */
    vf_errlog_reset(&F->elog);
    errno = 0;
    if (vnadata_init(vdp, VPT_S, 2, 2, 2) != 0 ||
	    vnadata_set_frequency(vdp, 0, 1e9) != 0 ||
	    vnadata_set_frequency(vdp, 1, 2e9) != 0 ||
	    vnadata_set_matrix(vdp, 0, m) != 0 ||
	    vnadata_set_matrix(vdp, 1, m) != 0) {
	snprintf(sig, sizeof(sig), "unusable-after:%s:init", tag);
	vf_fail(r, sig, "object cannot be re-initialised after a failed %s "
		"(errno %d: %s)", tag, errno,
		F->elog.count ? F->elog.msg[0] : "");
	return;
    }
    if (vnadata_get_rows(vdp) != 2 || vnadata_get_frequencies(vdp) != 2 ||
	    vnadata_get_cell(vdp, 1, 1, 0) != m[2] ||
	    vnadata_get_fz0(vdp, 1, 1) != 50.0) {
	snprintf(sig, sizeof(sig), "unusable-after:%s:query", tag);
	vf_fail(r, sig, "re-initialised object answers queries wrongly after "
		"a failed %s", tag);
    }
    if (vnadata_save(vdp, F->path_out) != 0) {
	snprintf(sig, sizeof(sig), "unusable-after:%s:save", tag);
	vf_fail(r, sig, "object cannot be saved after a failed %s and "
		"re-initialisation (errno %d: %s)", tag, errno,
		F->elog.count ? F->elog.msg[0] : "");
    }
    r->transitions += 6;
}

static void sc_vnadata(int which, vf_result *r)
{
    fx_t *F = &c3_F;
    int rc, e, want = 0;
    const char *tag = "";
    vnadata_t *dst = F->vdo;

    vf_errlog_reset(&F->elog);
    errno = 0;
    switch (which) {
    case 0:
	tag = "vnadata_init";
	vf_desc(r, "vnadata_init(T, 3x3) on a filled object fails; the object "
		"can be queried, re-initialised, saved, freed");
	dst = F->vd;
	rc = vnadata_init(dst, VPT_T, 3, 3, 2);
	want = EINVAL;
	break;
    case 1:
	tag = "vnadata_init(fz0)";
	vf_desc(r, "vnadata_init(type -1) on a per-frequency-z0 object fails; "
		"still usable");
	dst = F->vdf;
	rc = vnadata_init(dst, (vnadata_parameter_type_t)-1, 2, 2, 2);
	want = EINVAL;
	break;
    case 2:
	tag = "vnadata_load(nonexistent)";
	vf_desc(r, "vnadata_load of a nonexistent file into a filled object "
		"fails with the system errno; still usable");
	dst = F->vd;
	rc = vnadata_load(dst, F->path_none);
	want = ENOENT;
	break;
    case 3:
	tag = "vnadata_load(bad)";
	vf_desc(r, "vnadata_load of a syntactically bad Touchstone file fails "
		"with EBADMSG; destination still usable");
	dst = F->vdf;
	rc = vnadata_load(dst, F->path_bad);
	want = EBADMSG;
	break;
    case 4:
	tag = "vnadata_convert(dimension)";
	vf_desc(r, "vnadata_convert of 3x3 S to T fails with EINVAL; "
		"destination still usable");
	if (vnadata_resize(F->vd, VPT_S, 3, 3, 3) != 0) {
	    vf_fail(r, "scenario-setup", "resize failed");
	    return;
	}
	vf_errlog_reset(&F->elog);
	errno = 0;
	rc = vnadata_convert(F->vd, F->vdo, VPT_T);
	want = EINVAL;
	break;
    default:
	tag = "vnadata_convert(type)";
	vf_desc(r, "vnadata_convert in place to an invalid type fails with "
		"EINVAL; object still usable");
	dst = F->vd;
	rc = vnadata_convert(F->vd, F->vd, (vnadata_parameter_type_t)77);
	want = EINVAL;
	break;
    }
    e = errno;
    ++r->transitions;
    char sig[120];
    if (rc != -1) {
	snprintf(sig, sizeof(sig), "accepted:%s", tag);
	vf_fail(r, sig, "%s returned %d", tag, rc);
    } else if (e != want) {
	snprintf(sig, sizeof(sig), "errno:%s", tag);
	vf_fail(r, sig, "%s failed with errno %d, documented class %d: %s",
		tag, e, want, F->elog.count ? F->elog.msg[0] : "");
    }
    if (F->elog.bad_format) {
	snprintf(sig, sizeof(sig), "callback-format:%s", tag);
	vf_fail(r, sig, "%s: malformed error message", tag);
    }
    usable(dst, F, r, tag);
    r->nontrivial = 1;
    vf_outcome(r, "late failure %s", tag);
}

static int check_index(fx_t *F, int ci, const char *name, vf_result *r,
	const char *step)
{
    const char *nm;
    int found;

    ++r->transitions;
    if (ci < 0) {
	vf_fail(r, "index:add-failed", "%s: vnacal_add_calibration(\"%s\") "
		"returned %d", step, name, ci);
	return -1;
    }
    found = vnacal_find_calibration(F->vcp, name);
    nm = vnacal_get_name(F->vcp, ci);
    if (found != ci || nm == NULL || strcmp(nm, name) != 0 ||
	    vnacal_get_type(F->vcp, ci) != VNACAL_T8 ||
	    vnacal_get_rows(F->vcp, ci) != 2) {
	vf_fail(r, "index:add_calibration", "%s: vnacal_add_calibration(\"%s\")"
		" returned index %d but vnacal_find_calibration gives %d and "
		"vnacal_get_name(%d) gives \"%s\"", step, name, ci, found, ci,
		nm ? nm : "(NULL)");
	return -1;
    }
    return 0;
}

static void sc_indices(vf_result *r)
{
    fx_t *F = &c3_F;
    int r1, r2, r3, r4;

    vf_desc(r, "indices returned by vnacal_add_calibration (new, second, "
	    "replace by name, after delete) against vnacal_find_calibration / "
	    "vnacal_get_name / vnacal_get_type");
    r1 = vnacal_add_calibration(F->vcp, "n1", F->vnpS);
    if (check_index(F, r1, "n1", r, "first new") != 0) return;
    if (vnacal_new_solve(F->vnpS) != 0) goto setup;
    r2 = vnacal_add_calibration(F->vcp, "n2", F->vnpS);
    if (check_index(F, r2, "n2", r, "second new") != 0) return;
    if (vnacal_new_solve(F->vnpS) != 0) goto setup;
    r3 = vnacal_add_calibration(F->vcp, "n1", F->vnpS);
    if (check_index(F, r3, "n1", r, "replace by name") != 0) return;
    if (r3 != r1)
	vf_fail(r, "index:replace", "replacing \"n1\" moved it from index %d "
		"to %d", r1, r3);
    if (vnacal_delete_calibration(F->vcp, r2) != 0) goto setup;
    if (vnacal_find_calibration(F->vcp, "n2") != -1 ||
	    vnacal_get_name(F->vcp, r2) != NULL)
	vf_fail(r, "index:delete", "deleted calibration still found");
    if (vnacal_new_solve(F->vnpS) != 0) goto setup;
    r4 = vnacal_add_calibration(F->vcp, "n3", F->vnpS);
    if (check_index(F, r4, "n3", r, "after delete") != 0) return;
    if (vnacal_find_calibration(F->vcp, "calA") != F->ciA ||
	    vnacal_find_calibration(F->vcp, "calB") != F->ciB)
	vf_fail(r, "index:others-moved", "existing calibrations moved");
    r->nontrivial = 1;
    vf_outcome(r, "indices consistent");
    return;
setup:
    vf_fail(r, "scenario-setup", "re-solve failed");
}

/*
 * Solves whose closed-form path is exactly degenerate: TRL on a perfect
 * instrument (the measurements equal the S-parameters of the standards)
 * with a quarter-wave and with an arbitrary line.  Whether such a system is
 * solved or refused is not what is judged here: a solve that reports success
 * has not called the error function, one that fails has called it exactly
 * once with EDOM.
 */
static void sc_degenerate_trl(int which, vf_result *r)
{
    static const vnacal_type_t tt[4] = { VNACAL_T8, VNACAL_U8, VNACAL_TE10,
	VNACAL_UE10 };
    fx_t *F = &c3_F;
    vnacal_type_t type = tt[which % 4];
    int quarter = which / 4 == 0;
    const char *tn = vnacal_type_to_name(type);
    double complex rr = -0.95 + 0.05 * I;
    double complex ll = quarter ? -I : 0.8 * cexp(-0.9 * I);
    double complex m[4][NF];
    double complex *mp[4] = { m[0], m[1], m[2], m[3] };
    char sig[120];
    vnacal_new_t *vnp;
    int pr, pl;

    vf_desc(r, "%s 2x2 TRL on a perfect instrument, %s line: callbacks and "
	    "return value of vnacal_new_solve must agree", tn, quarter ?
	    "quarter-wave" : "arbitrary");
    vnp = vnacal_new_alloc(F->vcp, type, 2, 2, NF);
    pr = vnacal_make_unknown_parameter(F->vcp, VNACAL_SHORT);
    pl = vnacal_make_unknown_parameter(F->vcp,
	    vnacal_make_scalar_parameter(F->vcp, ll * (0.97 + 0.02 * I)));
    if (vnp == NULL || pr < 0 || pl < 0 ||
	    vnacal_new_set_frequency_vector(vnp, F->f3) != 0) {
	vf_fail(r, "scenario-setup", "TRL set-up failed");
	return;
    }
#define FILL(a, b, c, d) do { for (int k = 0; k < NF; ++k) { \
	m[0][k] = (a); m[1][k] = (b); m[2][k] = (c); m[3][k] = (d); } \
    } while (0)
    FILL(0, 1, 1, 0);
    if (vnacal_new_add_through_m(vnp, mp, 2, 2, 1, 2) != 0)
	goto setup;
    FILL(rr, 0, 0, rr);
    if (vnacal_new_add_double_reflect_m(vnp, mp, 2, 2, pr, pr, 1, 2) != 0)
	goto setup;
    FILL(0, ll, ll, 0);
    {
	int s4[4] = { VNACAL_MATCH, pl, pl, VNACAL_MATCH };
	if (vnacal_new_add_line_m(vnp, mp, 2, 2, s4, 1, 2) != 0)
	    goto setup;
    }
#undef FILL
    vf_errlog_reset(&F->elog);
    errno = 0;
    int rc = vnacal_new_solve(vnp);
    int e = errno;
    ++r->transitions;
    if (rc == 0) {
	if (F->elog.nonwarn != 0) {
	    snprintf(sig, sizeof(sig), "callback-on-success:solve:%s", tn);
	    vf_fail(r, sig, "vnacal_new_solve returned 0 after invoking the "
		    "error function %d time(s): %s", F->elog.nonwarn,
		    F->elog.msg[0]);
	}
    } else if (rc == -1) {
	if (e != EDOM) {
	    snprintf(sig, sizeof(sig), "solve-errno:%s", tn);
	    vf_fail(r, sig, "failed with errno %d, not EDOM: %s", e,
		    F->elog.count ? F->elog.msg[0] : "");
	}
	if (F->elog.nonwarn != 1 || F->elog.bad_format) {
	    snprintf(sig, sizeof(sig), "solve-callback:%s", tn);
	    vf_fail(r, sig, "failed vnacal_new_solve invoked the error "
		    "function %d times", F->elog.nonwarn);
	}
    } else {
	vf_fail(r, "retval:vnacal_new_solve", "returned %d", rc);
    }
    r->nontrivial = 1;
    vf_outcome(r, "degenerate TRL %s: %s", tn, rc == 0 ? "solved" :
	    "refused");
    return;
setup:
    vf_fail(r, "scenario-setup", "TRL standard rejected: %s",
	    F->elog.count ? F->elog.msg[0] : "");
}

/*
 * Parameter indices: three scalars a, b, c, a parameter u that refers to b
 * (unknown, correlated, or unknown of an unknown of b), then every order of
 * the seven steps { delete a, delete b, delete c, delete u, create, create,
 * create }.  After every step: a new index is not one that is still live,
 * every live scalar index evaluates to its value, every deleted index that has
 * not been given out again is refused with EINVAL.
 */
static void sc_param_indices(vf_result *r)
{
    static vf_errlog lg;
    static const double sig1[1] = { 0.01 };
    static const double f1[1] = { 1e9 };
    long nhist = 0;

    vf_desc(r, "parameter indices: 3 scalars and a parameter referring to "
	    "one of them, then every order of 4 deletions and 3 creations; "
	    "live indices evaluate, deleted ones are refused, a new index "
	    "never equals a live one");
    for (int kind = 0; kind < 3 && r->status == VF_OK; ++kind) {
	int perm[7] = { 0, 1, 2, 3, 4, 5, 6 };
	for (;;) {
	    vnacal_t *vcp = vnacal_create((vnaerr_error_fn_t *)vf_errfn, &lg);
	    int h[8], live[8], nh = 0, mid = -1;
	    double complex val[8];
	    char trace[200];
	    size_t off = 0;

	    if (vcp == NULL) {
		vf_fail(r, "scenario-setup", "vnacal_create failed");
		return;
	    }
	    trace[0] = 0;
	    for (int i = 0; i < 3; ++i) {
		val[nh] = 0.1 * (i + 1) + 0.05 * I;
		h[nh] = vnacal_make_scalar_parameter(vcp, val[nh]);
		live[nh] = 1;
		++nh;
	    }
	    if (kind == 2) {
		mid = vnacal_make_unknown_parameter(vcp, h[1]);
		h[nh] = vnacal_make_unknown_parameter(vcp, mid);
	    } else if (kind == 1) {
		h[nh] = vnacal_make_correlated_parameter(vcp, h[1], f1, 1,
			sig1);
	    } else {
		h[nh] = vnacal_make_unknown_parameter(vcp, h[1]);
	    }
	    val[nh] = val[1];
	    live[nh] = 1;
	    ++nh;
	    if (h[0] < 0 || h[1] < 0 || h[2] < 0 || h[3] < 0 ||
		    (kind == 2 && mid < 0)) {
		vf_fail(r, "scenario-setup", "creating parameters failed");
		vnacal_free(vcp);
		return;
	    }
	    if (kind == 2 && vnacal_delete_parameter(vcp, mid) != 0) {
		vf_fail(r, "scenario-setup", "deleting the middle unknown "
			"failed");
		vnacal_free(vcp);
		return;
	    }
	    ++nhist;
	    for (int st = 0; st < 7 && r->status == VF_OK; ++st) {
		int op = perm[st];

		vf_errlog_reset(&lg);
		if (op < 4) {
		    off += (size_t)snprintf(trace + off, sizeof(trace) - off,
			    "delete %c(%d); ", "abcu"[op], h[op]);
		    if (vnacal_delete_parameter(vcp, h[op]) != 0) {
			vf_fail(r, "index:delete_parameter", "kind %d, %s: "
				"deleting live parameter %d failed: %s", kind,
				trace, h[op], lg.count ? lg.msg[0] : "");
			break;
		    }
		    live[op] = 0;
		} else {
		    val[nh] = 0.5 + 0.1 * nh - 0.25 * I;
		    h[nh] = vnacal_make_scalar_parameter(vcp, val[nh]);
		    off += (size_t)snprintf(trace + off, sizeof(trace) - off,
			    "create -> %d; ", h[nh]);
		    if (h[nh] < 0) {
			vf_fail(r, "index:make_parameter", "kind %d, %s: "
				"creating a scalar parameter failed: %s",
				kind, trace, lg.count ? lg.msg[0] : "");
			break;
		    }
		    for (int i = 0; i < nh; ++i)
			if (live[i] && h[i] == h[nh])
			    vf_fail(r, "index:parameter-reissued", "kind %d, "
				    "%s: the new parameter got index %d, "
				    "which is still live", kind, trace, h[nh]);
		    live[nh] = 1;
		    ++nh;
		}
		++r->transitions;
		for (int i = 0; i < nh && r->status == VF_OK; ++i) {
		    double complex v;
		    int reissued = 0;

		    for (int j = 0; j < nh; ++j)
			if (j != i && live[j] && h[j] == h[i])
			    reissued = 1;
		    if (!live[i] && reissued)
			continue;
		    /* the value of an unknown or correlated parameter cannot
		       be read before a solve: u is only known to be honoured
		       by its deletion succeeding when its turn comes */
		    if (i == 3 && live[i])
			continue;
		    vf_errlog_reset(&lg);
		    errno = 0;
		    v = vnacal_get_parameter_value(vcp, h[i], 1e9);
		    if (live[i]) {
			if (!(cabs(v - val[i]) <= 1e-12))
			    vf_fail(r, "index:parameter-not-honoured",
				    "kind %d, %s: live parameter %d (returned "
				    "by the library, never deleted) evaluates "
				    "to %g%+gj, expected %g%+gj (errno %d, %s)",
				    kind, trace, h[i], creal(v), cimag(v),
				    creal(val[i]), cimag(val[i]), errno,
				    lg.count ? lg.msg[0] : "no message");
		    } else if (creal(v) != HUGE_VAL || errno != EINVAL ||
			    lg.nonwarn != 1) {
			vf_fail(r, "index:deleted-parameter-accepted",
				"kind %d, %s: deleted parameter %d evaluates "
				"to %g%+gj (errno %d, %d callback(s))", kind,
				trace, h[i], creal(v), cimag(v), errno,
				lg.nonwarn);
		    }
		}
	    }
	    vnacal_free(vcp);
	    if (r->status != VF_OK)
		return;
	    /* next permutation */
	    int i = 5, j = 6;
	    while (i >= 0 && perm[i] >= perm[i + 1])
		--i;
	    if (i < 0)
		break;
	    while (perm[j] <= perm[i])
		--j;
	    { int t = perm[i]; perm[i] = perm[j]; perm[j] = t; }
	    for (int a = i + 1, b = 6; a < b; ++a, --b) {
		int t = perm[a]; perm[a] = perm[b]; perm[b] = t;
	    }
	}
    }
    r->states = nhist;
    r->nontrivial = 1;
    vf_outcome(r, "parameter indices consistent");
}

/* ------------------------------------------------------------------ */
/* refused saves: a save or cksave refused for its arguments changes no
 * getter's answer (file type, format, precisions, data)               */
/* ------------------------------------------------------------------ */
static void vd_state(vnadata_t *v, char *buf, size_t n)
{
    const char *fmt = vnadata_get_format(v);
    size_t k = (size_t)snprintf(buf, n, "type %d %dx%dx%d filetype %d "
	    "format %s fprec %d dprec %d fz0 %d |", (int)vnadata_get_type(v),
	    vnadata_get_rows(v), vnadata_get_columns(v),
	    vnadata_get_frequencies(v), (int)vnadata_get_filetype(v),
	    fmt ? fmt : "(none)", vnadata_get_fprecision(v),
	    vnadata_get_dprecision(v), (int)vnadata_has_fz0(v));
    for (int f = 0; f < vnadata_get_frequencies(v) && k < n; ++f) {
	k += (size_t)snprintf(buf + k, n - k, " f%g", vnadata_get_frequency(v, f));
	for (int p = 0; p < vnadata_get_columns(v) && k < n; ++p) {
	    double complex z = vnadata_get_fz0(v, f, p);
	    k += (size_t)snprintf(buf + k, n - k, " z%g%+g", creal(z), cimag(z));
	}
	for (int i = 0; i < vnadata_get_rows(v) && k < n; ++i)
	    for (int j = 0; j < vnadata_get_columns(v) && k < n; ++j) {
		double complex c = vnadata_get_cell(v, f, i, j);
		k += (size_t)snprintf(buf + k, n - k, " %g%+g", creal(c),
			cimag(c));
	    }
    }
}

#define RS_NOBJ 9
static vnadata_t *rs_make(int which, const char **what)
{
    static const struct { vnadata_parameter_type_t t; int n; int ft;
	const char *fmt; int z0kind; const char *what; } tab[RS_NOBJ] = {
	{ VPT_S, 2, VNADATA_FILETYPE_NPD, "Sri,Zri", 0,
	    "S 2x2, file type NPD, format \"Sri,Zri\"" },
	{ VPT_T, 2, VNADATA_FILETYPE_AUTO, NULL, 0,
	    "T 2x2, file type and format never set" },
	{ VPT_S, 5, VNADATA_FILETYPE_AUTO, NULL, 0,
	    "S 5x5, file type and format never set" },
	{ VPT_S, 2, VNADATA_FILETYPE_NPD, "Sma", 1,
	    "S 2x2 with 50 and 75 ohm ports, file type NPD, format \"Sma\"" },
	{ VPT_S, 2, VNADATA_FILETYPE_NPD, "Sri", 2,
	    "S 2x2 with per-frequency z0, file type NPD, format \"Sri\"" },
	{ VPT_S, 1, VNADATA_FILETYPE_AUTO, "il", 0,
	    "S 1x1, file type never set, format \"il\"" },
	{ VPT_Z, 2, VNADATA_FILETYPE_TOUCHSTONE2, "ZdB", 3,
	    "Z 2x2 with a complex z0, file type Touchstone 2, format "
	    "\"ZdB\"" },
	/* two that every file kind accepts: only the path can fail */
	{ VPT_S, 2, VNADATA_FILETYPE_AUTO, "Sri", 0,
	    "S 2x2 at 50 ohm, file type never set, format \"Sri\"" },
	{ VPT_Z, 2, VNADATA_FILETYPE_NPD, "Zma", 0,
	    "Z 2x2 at 50 ohm, file type NPD, format \"Zma\"" },
    };
    vnadata_t *v = vnadata_alloc_and_init(vf_errfn, &c3_F.elog, tab[which].t,
	    tab[which].n, tab[which].n, 2);
    if (v == NULL)
	return NULL;
    *what = tab[which].what;
    for (int f = 0; f < 2; ++f) {
	vnadata_set_frequency(v, f, 1e9 * (f + 1));
	for (int i = 0; i < tab[which].n; ++i)
	    for (int j = 0; j < tab[which].n; ++j)
		vnadata_set_cell(v, f, i, j, (i == j ? 0.5 : 0.25) +
			0.125 * I * (i + 2 * j + f));
    }
    if (tab[which].z0kind == 1)
	vnadata_set_z0(v, 1, 75.0);
    else if (tab[which].z0kind == 2)
	vnadata_set_fz0(v, 1, 0, 60.0 + 5.0 * I);
    else if (tab[which].z0kind == 3)
	vnadata_set_all_z0(v, 50.0 + 2.0 * I);
    if (tab[which].ft != VNADATA_FILETYPE_AUTO)
	vnadata_set_filetype(v, (vnadata_filetype_t)tab[which].ft);
    if (tab[which].fmt != NULL && vnadata_set_format(v, tab[which].fmt) != 0) {
	vnadata_free(v);
	return NULL;
    }
    return v;
}

static void sc_refused_save(vf_result *r)
{
    fx_t *F = &c3_F;
    /* the last three lie in a directory that does not exist: a path that
       cannot be opened is an argument the save is refused for, nothing
       has been written when fopen fails */
    static const char *const names[] = { "rs.s2p", "rs.s1p", "rs.s4p",
	"rs.ts", "rs.npd", "rs", "no-such-dir/rs.s2p", "no-such-dir/rs.npd",
	"no-such-dir/rs" };
    enum { NNAMES = 9 };
    static const char *const fns[] = { "vnadata_cksave", "vnadata_save",
	"vnadata_fsave" };
    int refused = 0, accepted = 0;

    vf_desc(r, "9 vnadata_t objects x 9 file names x cksave / save / fsave: "
	    "a call refused for its arguments (EINVAL, or ENOENT for a path "
	    "in a directory that does not exist) leaves file type, format, "
	    "precisions, impedances and data as they were");
    for (int o = 0; o < RS_NOBJ; ++o)
	for (int ni = 0; ni < NNAMES; ++ni)
	    for (int fi = 0; fi < 3; ++fi) {
		const char *what = "";
		vnadata_t *v = rs_make(o, &what);
		char before[2048], after[2048];
		const char *path = vf_tmp(names[ni]);
		int rc, e;

		if (v == NULL) {
		    vf_fail(r, "scenario-setup", "object %d cannot be built",
			    o);
		    return;
		}
		vd_state(v, before, sizeof(before));
		vf_errlog_reset(&F->elog);
		errno = 0;
		if (fi == 0) {
		    rc = vnadata_cksave(v, path);
		} else if (fi == 1) {
		    rc = vnadata_save(v, path);
		} else {
		    FILE *fp = fopen("/dev/null", "w");
		    rc = vnadata_fsave(v, fp, path);
		    if (fp != NULL)
			fclose(fp);
		}
		e = errno;
		++r->transitions;
		unlink(path);
		if (rc == -1 && (e == EINVAL || (e == ENOENT && ni >= 6 &&
				fi == 1))) {
		    ++refused;
		    vd_state(v, after, sizeof(after));
		    if (strcmp(before, after) != 0) {
			char sig[96];
			snprintf(sig, sizeof(sig), "state-changed:%s:refused",
				fns[fi]);
			vf_fail(r, sig, "%s(\"%s\") on %s is refused (%s) and "
				"changes what the getters answer: before "
				"\"%.160s\", after \"%.160s\"", fns[fi],
				names[ni], what, F->elog.count ?
				F->elog.msg[0] : "no message", before, after);
			vnadata_free(v);
			return;
		    }
		    if (F->elog.count != 1) {
			char sig[96];
			snprintf(sig, sizeof(sig), "callback-count:%s:refused",
				fns[fi]);
			vf_fail(r, sig, "%s(\"%s\") on %s is refused with %d "
				"error lines", fns[fi], names[ni], what,
				F->elog.count);
			vnadata_free(v);
			return;
		    }
		} else if (rc == 0) {
		    ++accepted;
		} else {
		    char sig[96];
		    snprintf(sig, sizeof(sig), "errno:%s:refused", fns[fi]);
		    vf_fail(r, sig, "%s(\"%s\") on %s returned %d with errno "
			    "%d: %s", fns[fi], names[ni], what, rc, e,
			    F->elog.count ? F->elog.msg[0] : "");
		    vnadata_free(v);
		    return;
		}
		vnadata_free(v);
	    }
    r->states = refused;
    r->nontrivial = refused > 20 && accepted > 20;
    vf_outcome(r, "refused saves leave the object alone (%d refused, %d "
	    "accepted)", refused, accepted);
}

/*
 * A solved unknown asked for outside what was solved: an unknown reflection
 * (scalar first guess, which covers every frequency) and a parameter
 * correlated with it are solved on the fixture's three frequencies next to
 * short, open and match.  At each of the three frequencies both answer with
 * the value solved; below the first and above the last the call fails as
 * documented: HUGE_VAL, EINVAL, one line through the error function.
 */
static void sc_solved_range(vf_result *r)
{
    fx_t *F = &c3_F;
    const double complex truth = -0.55 + 0.35 * I;
    static const int stdh[3] = { VNACAL_SHORT, VNACAL_OPEN, VNACAL_MATCH };
    static const double gam[3] = { -1.0, 1.0, 0.0 };
    static const double sig1[1] = { 0.05 };
    double complex m[NF];
    double complex *mp[1] = { m };
    vnacal_new_t *vnp;
    int g, u, cpar;

    vf_desc(r, "an unknown reflection and a parameter correlated with it, "
	    "solved on three frequencies, read at those and at frequencies "
	    "below and above them");
    vnp = vnacal_new_alloc(F->vcp, VNACAL_E12, 1, 1, NF);
    g = vnacal_make_scalar_parameter(F->vcp, truth * (1.05 + 0.03 * I));
    u = vnacal_make_unknown_parameter(F->vcp, g);
    cpar = vnacal_make_correlated_parameter(F->vcp, u, NULL, 1, sig1);
    if (vnp == NULL || g < 0 || u < 0 || cpar < 0 ||
	    vnacal_new_set_frequency_vector(vnp, F->f3) != 0) {
	vf_fail(r, "scenario-setup", "solved-range set-up failed");
	return;
    }
    for (int s = 0; s < 5; ++s) {
	double complex gv = s < 3 ? gam[s] : truth;
	for (int k = 0; k < NF; ++k)
	    m[k] = 0.03 + 0.9 * gv / (1.0 - 0.1 * gv);
	if (vnacal_new_add_single_reflect_m(vnp, mp, 1, 1,
		    s < 3 ? stdh[s] : s == 3 ? u : cpar, 1) != 0) {
	    vf_fail(r, "scenario-setup", "standard rejected: %s",
		    F->elog.count ? F->elog.msg[0] : "");
	    return;
	}
    }
    if (vnacal_new_solve(vnp) != 0) {
	vf_fail(r, "scenario-setup", "solve failed: %s",
		F->elog.count ? F->elog.msg[0] : "");
	return;
    }
    ++r->transitions;
    for (int which = 0; which < 2; ++which) {
	const int h = which ? cpar : u;
	const char *hn = which ? "correlated" : "unknown";
	const double fq[7] = { F->f3[0], F->f3[1], F->f3[2],
	    F->f3[0] / 10.0, F->f3[0] * 0.9, F->f3[2] * 1.1,
	    F->f3[2] * 10.0 };
	for (int q = 0; q < 7; ++q) {
	    vf_errlog_reset(&F->elog);
	    errno = 0;
	    double complex v = vnacal_get_parameter_value(F->vcp, h, fq[q]);
	    int e = errno;
	    ++r->transitions;
	    if (q < 3) {
		if (creal(v) == HUGE_VAL || F->elog.nonwarn != 0)
		    vf_fail(r, "solved-range:refused-inside", "the solved "
			    "%s parameter is refused at %g Hz, one of the "
			    "frequencies it was solved at (errno %d: %s)",
			    hn, fq[q], e, F->elog.count ? F->elog.msg[0] :
			    "");
		else if (cabs(v - truth) > 1e-6)
		    vf_fail(r, "solved-range:wrong-value", "the solved %s "
			    "parameter reads %g%+gj at %g Hz, the standard "
			    "measured there was %g%+gj", hn, creal(v),
			    cimag(v), fq[q], creal(truth), cimag(truth));
	    } else if (creal(v) != HUGE_VAL) {
		vf_fail(r, "solved-range:answered-outside", "the %s parameter "
			"solved on %g..%g Hz answers %g%+gj at %g Hz", hn,
			F->f3[0], F->f3[2], creal(v), cimag(v), fq[q]);
	    } else if (e != EINVAL) {
		vf_fail(r, "solved-range:errno", "out-of-range read of the "
			"solved %s parameter failed with errno %d, not "
			"EINVAL", hn, e);
	    } else if (F->elog.nonwarn != 1 || F->elog.bad_format) {
		vf_fail(r, "solved-range:callback", "out-of-range read of "
			"the solved %s parameter called the error function "
			"%d times", hn, F->elog.nonwarn);
	    }
	    if (r->status != VF_OK)
		return;
	}
    }
    r->nontrivial = 1;
    vf_outcome(r, "solved parameters answer on their frequencies only");
}

#define NSCEN 25
static void run_scenario(int k, vf_result *r)
{
    const char *err;
    unsigned long mark = vf_exec_begin();

    vf_desc(r, "scenario %d", k);
    if ((err = fx_build(&c3_F)) != NULL) {
	vf_fail(r, "fixture", "building the fixture failed at: %s", err);
	fx_teardown(&c3_F);
	vf_exec_end(r, mark);
	return;
    }
    switch (k) {
    case 0: sc_retry(&c3_scA, 0, 0, r); break;
    case 1: sc_retry(&c3_scA, 3, 1, r); break;
    case 2: sc_retry(&c3_scA, 5, 0, r); break;
    case 3: sc_retry(&c3_scB, 0, 1, r); break;
    case 4: sc_retry(&c3_scB, 2, 0, r); break;
    case 5: sc_rejected_add(r); break;
    case 6: sc_indices(r); break;
    case 21: sc_param_indices(r); break;
    case 22: sc_refused_save(r); break;
    case 23: sc_solved_range(r); break;
    case 13: case 14: case 15: case 16: case 17: case 18: case 19: case 20:
	sc_degenerate_trl(k - 13, r);
	break;
    default: sc_vnadata(k - 7, r); break;
    }
    fx_teardown(&c3_F);
    vf_exec_end(r, mark);
}

static long n_sweep;
static long count(int tier)
{
    n_sweep = c3_sweep_count(tier);
    return n_sweep + NSCEN - 1;
}
static void init(int tier) { (void)count(tier); }

static void run(int tier, long idx, vf_result *r)
{
    if (idx < n_sweep)
	c3_run_sweep(MODE_C11, tier, idx, r);
    else
	run_scenario((int)(idx - n_sweep), r);
}

vf_driver vf_drv = {
    .property = "C11",
    .rule = "case = one call of a table entry with 0, 1 or (thorough) 2 "
	"arguments moved to a boundary value on a fresh rich fixture, judged "
	"by the failure value / errno class / callback rule transcribed from "
	"the manual pages and by a digest of all objects before and after a "
	"refused call; plus 24 late-failure, index, refused-save and solved-range scenarios.  Non-trivial: "
	"valid calls (success, no non-warning callback), calls that must fail "
	"by the documentation, and the scenarios; calls with alternative "
	"values only get the generic checks (well-formed failure, callback "
	"rules, unchanged state when refused)",
    .count = count,
    .run = run,
    .init = init,
    .timeout_s = 30,
};
