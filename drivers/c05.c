/*
 * C05: vnadata_convert applies the right vnaconv conversion with the right
 * reference impedances.
 *
 * Part A enumerates (from type x to type x shape x z0 mode x output mode x
 * number of frequencies); part B all type triples A->B->C against A->C on
 * 2x2.  Oracles: the vnaconv function named after the type pair
 * (oracle/vdm.c, hand-written, independent of the library's dispatch table),
 * the defining port relations (oracle/ports.c), in-place against
 * out-of-place, and a freshly built 1 x ports Zin object as differential
 * reference under subsequent resizes.
 */
#include <complex.h>
#include <errno.h>
#include <math.h>
#include <stdio.h>
#include <string.h>
#include <vnadata.h>
#include "vf.h"
#include "vdm.h"
#include "ports.h"

#define MAXN	6
#define MAXCELL	(MAXN * MAXN)
#define MAXF	5

#define TOL_FN		1e-12	/* against the named vnaconv function */
#define TOL_PORTS	1e-8	/* against the port-relation reference */
#define TOL_CHAIN	1e-8

static const struct { int rows, cols; } shapes[] = {
    { 2, 2 }, { 1, 1 }, { 3, 3 }, { 4, 4 }, { 5, 5 }, { 1, 3 }, { 2, 3 }
};
#define NSHAPES	7
static const int nfreqs[] = { 0, 1, 3 };
#define NZMODES	3	/* default 50, ordinary unequal complex, per-frequency */
#define NOMODES	4	/* in place, fresh second object, used second object,
			   second object that already has the result's shape */
#define NPARTA	((long)VDM_NTYPES * VDM_NTYPES * NSHAPES * NZMODES * \
	NOMODES * 3)
#define NPARTB	((long)VDM_NTYPES * VDM_NTYPES * VDM_NTYPES * NZMODES)

static vf_errlog L;
static long nconv;
static int g_variant;	/* thorough tier: second network / z0 / used object */

/* ------------------------------------------------------------------ */
/* inputs                                                              */

static double complex zgen(int zmode, int f, int p)
{
    switch (zmode) {
    case 0:
	return 50.0;
    case 1:
	if (g_variant)
	    return 75.0 - 6.0 * p + 20.0 * I * (p % 2);
	return 50.0 + 10.0 * p - 15.0 * I * (p % 3 - 1);
    default:
	if (g_variant)
	    return (90.0 - 9.0 * p - 13.0 * f) + I * (6.0 * f - 4.0 * p);
	/* at odd frequencies the real parts are partly equal: the same on
	   ports 1, 3, 5, another on 2, 4 */
	if (f % 2 == 1)
	    return (50.0 + 25.0 * (p % 2)) + I * (5.0 * (p + 1) - 8.0 * f);
	return (40.0 + 7.0 * p + 11.0 * f) + I * (5.0 * (p + 1) - 8.0 * f);
    }
}

/* a well-conditioned n-port: ||S|| < 1, every transmission term present */
static void gen_s(int n, int f, double complex *s)
{
    for (int i = 0; i < n; ++i)
	for (int j = 0; j < n; ++j) {
	    double mag = (0.25 + 0.15 * ((3 * i + 5 * j + 2 * f +
			    3 * g_variant) % 5)) / n;
	    double ph = 0.9 * i + 2.3 * j + 1.1 * f + 0.3 + 1.7 * g_variant;
	    s[i * n + j] = mag * cexp(I * ph);
	}
}

/*
 * cells of the input object at frequency f: the network gen_s() expressed
 * in parameter type `type' (through the reference conversion), arbitrary
 * distinct values for UNDEF / ZIN.  Returns 0, or -1 if the network has no
 * representation of that type.
 */
static int gen_cells(int type, int rows, int cols, int f,
	const double complex *z0, double complex *cells)
{
    if (type == VDM_UNDEF || type == VDM_ZIN) {
	for (int k = 0; k < rows * cols; ++k)
	    cells[k] = 10.0 * (k + 1) + 3.0 * f + I * (2.0 * k - 5.0 * f + 1.0);
	return 0;
    }
    if (g_variant == 2 && rows == 2 && cols == 2) {
	/* a series element between the two ports: its Y matrix is exactly
	   singular (rank 1), it has no Z matrix, and every other
	   representation exists */
	double complex y = 1.0 / (30.0 + 40.0 * I + 5.0 * f);
	double complex ym[4] = { y, -y, -y, y };
	if (type == VPT_Y) {
	    memcpy(cells, ym, sizeof(ym));
	    return 0;
	}
	return ports_convert(2, PT_Y, ym, type - 1, cells, z0) == PORTS_OK ?
	    0 : -1;
    }
    double complex s[MAXCELL];
    gen_s(rows, f, s);
    if (g_variant == 3 && rows == cols && rows >= 3) {
	/* the same network with the leading 2 x 2 block of its Z matrix
	   made exactly singular (second row of the block twice the first)
	   while the matrix stays regular: the second diagonal entry cancels
	   during any elimination and a later row has to be brought up */
	double complex zm[MAXCELL];
	if (ports_convert(rows, PT_S, s, PT_Z, zm, z0) != PORTS_OK)
	    return -1;
	zm[1 * rows + 0] = 2.0 * zm[0 * rows + 0];
	zm[1 * rows + 1] = 2.0 * zm[0 * rows + 1];
	if (type == VPT_Z) {
	    memcpy(cells, zm, sizeof(double complex) * (size_t)(rows * rows));
	    return 0;
	}
	return ports_convert(rows, PT_Z, zm, type - 1, cells, z0) ==
	    PORTS_OK ? 0 : -1;
    }
    if (type == VPT_S) {
	memcpy(cells, s, sizeof(double complex) * (size_t)(rows * rows));
	return 0;
    }
    return ports_convert(rows, PT_S, s, type - 1, cells, z0) == PORTS_OK ?
	0 : -1;
}

/* ------------------------------------------------------------------ */
/* snapshots of everything observable                                  */

typedef struct snap {
    int type, rows, cols, nf, fz0;
    double freq[MAXF];
    double complex cell[MAXF][MAXCELL];
    double complex z0[MAXF + 1][MAXN];	/* row MAXF: ordinary vector */
    int filetype, fprec, dprec;
    char format[64];
    int errors;				/* error callbacks while reading */
} snap_t;

static void take_snap(const vnadata_t *vdp, snap_t *s)
{
    int before = L.count;

    memset(s, 0, sizeof(*s));
    s->type = (int)vnadata_get_type(vdp);
    s->rows = vnadata_get_rows(vdp);
    s->cols = vnadata_get_columns(vdp);
    s->nf = vnadata_get_frequencies(vdp);
    s->fz0 = vnadata_has_fz0(vdp) ? 1 : 0;
    int ports = s->rows > s->cols ? s->rows : s->cols;
    if (s->rows > MAXN || s->cols > MAXN || s->nf > MAXF) {
	s->errors = -1;
	return;
    }
    for (int f = 0; f < s->nf; ++f) {
	s->freq[f] = vnadata_get_frequency(vdp, f);
	for (int i = 0; i < s->rows; ++i)
	    for (int j = 0; j < s->cols; ++j)
		s->cell[f][i * s->cols + j] = vnadata_get_cell(vdp, f, i, j);
	for (int p = 0; p < ports; ++p)
	    s->z0[f][p] = vnadata_get_fz0(vdp, f, p);
    }
    if (!s->fz0)
	for (int p = 0; p < ports; ++p)
	    s->z0[MAXF][p] = vnadata_get_z0(vdp, p);
    s->filetype = (int)vnadata_get_filetype(vdp);
    s->fprec = vnadata_get_fprecision(vdp);
    s->dprec = vnadata_get_dprecision(vdp);
    const char *fmt = vnadata_get_format(vdp);
    snprintf(s->format, sizeof(s->format), "%s", fmt ? fmt : "(null)");
    s->errors = L.count - before;
}

static int deq(double a, double b)
{
    return a == b || (isnan(a) && isnan(b));
}
static int ceq(double complex a, double complex b)
{
    return deq(creal(a), creal(b)) && deq(cimag(a), cimag(b));
}

/*
 * Compare two snapshots; `meta' includes file type, format and precisions.
 * Reports the first difference under signature `sig'.  Returns 1 if equal.
 */
static int same_snap(const snap_t *a, const snap_t *b, int meta, vf_result *r,
	const char *sig, const char *la, const char *lb)
{
    if (a->errors || b->errors) {
	vf_fail(r, sig, "reading back %s / %s raised %d / %d error callbacks",
		la, lb, a->errors, b->errors);
	return 0;
    }
    if (a->type != b->type || a->rows != b->rows || a->cols != b->cols ||
	    a->nf != b->nf) {
	vf_fail(r, sig, "%s is %s %d x %d x %d frequencies, %s is %s %d x %d "
		"x %d", la, vdm_type_name[a->type], a->rows, a->cols, a->nf,
		lb, vdm_type_name[b->type], b->rows, b->cols, b->nf);
	return 0;
    }
    if (a->fz0 != b->fz0) {
	vf_fail(r, sig, "%s has_fz0=%d, %s has_fz0=%d", la, a->fz0, lb,
		b->fz0);
	return 0;
    }
    int ports = a->rows > a->cols ? a->rows : a->cols;
    for (int f = 0; f < a->nf; ++f) {
	if (!deq(a->freq[f], b->freq[f])) {
	    vf_fail(r, sig, "frequency %d: %s has %.17g, %s has %.17g", f, la,
		    a->freq[f], lb, b->freq[f]);
	    return 0;
	}
	for (int k = 0; k < a->rows * a->cols; ++k)
	    if (!ceq(a->cell[f][k], b->cell[f][k])) {
		vf_fail(r, sig, "findex %d cell (%d,%d): %s has %.17g%+.17gj, "
			"%s has %.17g%+.17gj", f, k / a->cols, k % a->cols, la,
			creal(a->cell[f][k]), cimag(a->cell[f][k]), lb,
			creal(b->cell[f][k]), cimag(b->cell[f][k]));
		return 0;
	    }
    }
    for (int f = 0; f <= MAXF; ++f) {
	if (f < MAXF && f >= a->nf)
	    continue;
	for (int p = 0; p < ports; ++p)
	    if (!ceq(a->z0[f][p], b->z0[f][p])) {
		vf_fail(r, sig, "z0 of port %d at %s%d: %s has %g%+gj, %s has "
			"%g%+gj", p, f == MAXF ? "ordinary vector " : "findex ",
			f == MAXF ? 0 : f, la, creal(a->z0[f][p]),
			cimag(a->z0[f][p]), lb, creal(b->z0[f][p]),
			cimag(b->z0[f][p]));
		return 0;
	    }
    }
    if (meta && (a->filetype != b->filetype || a->fprec != b->fprec ||
		a->dprec != b->dprec || strcmp(a->format, b->format) != 0)) {
	vf_fail(r, sig, "%s has filetype %d, format \"%s\", precisions %d/%d; "
		"%s has filetype %d, format \"%s\", precisions %d/%d", la,
		a->filetype, a->format, a->fprec, a->dprec, lb, b->filetype,
		b->format, b->fprec, b->dprec);
	return 0;
    }
    return 1;
}

/* ------------------------------------------------------------------ */
/* building objects                                                    */

static vnadata_t *new_obj(void)
{
    return vnadata_alloc((vnaerr_error_fn_t *)vf_errfn, &L);
}

static int set_z0_mode(vnadata_t *vdp, int zmode, int ports, int nf)
{
    double complex zv[MAXN];

    if (zmode == 1) {
	for (int p = 0; p < ports; ++p)
	    zv[p] = zgen(1, 0, p);
	return vnadata_set_z0_vector(vdp, zv);
    }
    if (zmode == 2) {
	for (int f = 0; f < nf; ++f) {
	    for (int p = 0; p < ports; ++p)
		zv[p] = zgen(2, f, p);
	    if (vnadata_set_fz0_vector(vdp, f, zv) != 0)
		return -1;
	}
    }
    return 0;
}

/*
 * make_input: object of the given type and shape holding the reference
 * network, with non-default file type, format and precisions.
 */
static vnadata_t *make_input(int type, int rows, int cols, int nf, int zmode,
	vf_result *r)
{
    vnadata_t *vdp = new_obj();
    int ports = rows > cols ? rows : cols;

    /* per-frequency mode without a frequency is reached by shrinking */
    int nf0 = (zmode == 2 && nf == 0) ? 1 : nf;

    if (vdp == NULL || vnadata_init(vdp, type, rows, cols, nf0) != 0 ||
	    set_z0_mode(vdp, zmode, ports, nf0) != 0 ||
	    (nf0 != nf && vnadata_resize(vdp, type, rows, cols, nf) != 0) ||
	    vnadata_set_filetype(vdp, VNADATA_FILETYPE_NPD) != 0 ||
	    vnadata_set_format(vdp, "Sdb,Zinma") != 0 ||
	    vnadata_set_fprecision(vdp, 9) != 0 ||
	    vnadata_set_dprecision(vdp, 8) != 0) {
	vf_fail(r, "setup:input", "cannot build the input object %s %d x %d "
		"x %d (errno %d: %s)", vdm_type_name[type], rows, cols, nf,
		errno, L.count ? L.msg[0] : "");
	vnadata_free(vdp);
	return NULL;
    }
    for (int f = 0; f < nf; ++f) {
	double complex cells[MAXCELL], zv[MAXN];
	for (int p = 0; p < ports; ++p)
	    zv[p] = zgen(zmode, f, p);
	if (gen_cells(type, rows, cols, f, zv, cells) != 0) {
	    vf_fail(r, "setup:network", "reference network has no %s "
		    "representation", vdm_type_name[type]);
	    vnadata_free(vdp);
	    return NULL;
	}
	if (vnadata_set_frequency(vdp, f, 1.0e9 * (f + 1)) != 0 ||
		vnadata_set_matrix(vdp, f, cells) != 0) {
	    vf_fail(r, "setup:input", "cannot fill the input object");
	    vnadata_free(vdp);
	    return NULL;
	}
    }
    return vdp;
}

/*
 * a second object that was used before: Z 3x3x2 with per-frequency z0
 * (variant 1: Zin 1x4x4 with ordinary z0)
 */
static vnadata_t *make_used(vf_result *r)
{
    vnadata_t *vdp = new_obj();

    if (g_variant) {
	double complex cells[4], zv[4];
	if (vdp == NULL || vnadata_init(vdp, VPT_ZIN, 1, 4, 4) != 0 ||
		vnadata_set_format(vdp, "prc") != 0) {
	    vf_fail(r, "setup:used", "cannot build the second object");
	    vnadata_free(vdp);
	    return NULL;
	}
	for (int p = 0; p < 4; ++p)
	    zv[p] = 222.0 + p - 3.0 * I;
	vnadata_set_z0_vector(vdp, zv);
	for (int f = 0; f < 4; ++f) {
	    for (int k = 0; k < 4; ++k)
		cells[k] = -2000.0 - k + 50.0 * I * (f + 1);
	    vnadata_set_frequency(vdp, f, 555.0 + f);
	    vnadata_set_matrix(vdp, f, cells);
	}
	return vdp;
    }
    if (vdp == NULL || vnadata_init(vdp, VPT_Z, 3, 3, 2) != 0 ||
	    vnadata_set_filetype(vdp, VNADATA_FILETYPE_TOUCHSTONE2) != 0 ||
	    vnadata_set_format(vdp, "Zma") != 0 ||
	    vnadata_set_fprecision(vdp, 3) != 0 ||
	    vnadata_set_dprecision(vdp, 4) != 0) {
	vf_fail(r, "setup:used", "cannot build the second object");
	vnadata_free(vdp);
	return NULL;
    }
    for (int f = 0; f < 2; ++f) {
	double complex cells[9], zv[3];
	for (int k = 0; k < 9; ++k)
	    cells[k] = -1000.0 - k - 100.0 * I * (f + 1);
	for (int p = 0; p < 3; ++p)
	    zv[p] = 111.0 + p + 7.0 * I * (f + 1);
	vnadata_set_frequency(vdp, f, 777.0 + f);
	vnadata_set_matrix(vdp, f, cells);
	vnadata_set_fz0_vector(vdp, f, zv);
    }
    return vdp;
}

static int g_out_to = -1;	/* target type, for output mode 3 */

static vnadata_t *make_out(int omode, vnadata_t *in, vf_result *r)
{
    if (omode == 0)
	return in;
    if (omode == 3) {
	/*
	 * an object that already has the dimensions and the number of
	 * frequencies the result will have (it received the same conversion
	 * before) and now holds other frequencies, impedances and cells:
	 * nothing of its earlier life may show in the result
	 */
	vnadata_t *o = new_obj();
	if (o == NULL) {
	    vf_fail(r, "setup:out", "vnadata_alloc failed");
	    return NULL;
	}
	if (g_out_to >= 0 && vnadata_convert(in, o, g_out_to) == 0) {
	    int nf = vnadata_get_frequencies(o);
	    int rows = vnadata_get_rows(o), cols = vnadata_get_columns(o);
	    for (int f = 0; f < nf; ++f) {
		(void)vnadata_set_frequency(o, f, 7.0e6 * (f + 1));
		for (int i = 0; i < rows; ++i)
		    for (int j = 0; j < cols; ++j)
			(void)vnadata_set_cell(o, f, i, j, 9.0 - 4.0 * I);
	    }
	    (void)vnadata_set_all_z0(o, 33.0 + 3.0 * I);
	    (void)vnadata_set_format(o, "Tri");
	    (void)vnadata_set_fprecision(o, 3);
	}
	vf_errlog_reset(&L);
	return o;
    }
    if (omode == 1) {
	vnadata_t *o = new_obj();
	if (o == NULL)
	    vf_fail(r, "setup:out", "vnadata_alloc failed");
	return o;
    }
    return make_used(r);
}

/* ------------------------------------------------------------------ */
/* numeric comparison                                                  */

static double maxabs(const double complex *a, int n)
{
    double m = 0;
    for (int i = 0; i < n; ++i)
	if (isfinite(cabs(a[i])) && cabs(a[i]) > m)
	    m = cabs(a[i]);
    return m;
}

/* largest cell error relative to max(|ref cell|, 1e-3 * max|ref|) */
static double rel_err(const double complex *got, const double complex *ref,
	int n, int *where)
{
    double sc = maxabs(ref, n), worst = 0;

    *where = 0;
    for (int i = 0; i < n; ++i) {
	double d = fmax(cabs(ref[i]), 1e-3 * sc);
	double e = cabs(got[i] - ref[i]) / (d > 0 ? d : 1.0);
	if (!(e <= worst)) {		/* NaN propagates */
	    worst = e;
	    *where = i;
	}
    }
    return worst;
}

static const char *decade(double e)
{
    if (e == 0) return "0";
    if (e < 1e-14) return "<1e-14";
    if (e < 1e-12) return "<1e-12";
    if (e < 1e-10) return "<1e-10";
    if (e < 1e-8) return "<1e-8";
    return ">=1e-8";
}

/*
 * check_values: cells of `out' at frequency f against the named vnaconv
 * function and against the port relations.  `in' / `z0' are the input
 * matrix and that frequency's impedances.  Returns the error decade seen
 * against the port reference through *perr (or -1 when singular).
 */
static void check_values(int from, int to, int n, int f,
	const double complex *in, const double complex *z0,
	const double complex *out, vf_result *r, double *perr)
{
    int k = to == VDM_ZIN ? n : n * n, where;
    double complex ref[MAXCELL], ref2[MAXCELL];
    char sig[160];

    *perr = -1;
    if (vdm_apply(from, to, n, 0, in, ref, z0) != 0) {
	vf_fail(r, "model-error", "no vnaconv function for %s->%s n=%d",
		vdm_type_name[from], vdm_type_name[to], n);
	return;
    }
    double e = rel_err(out, ref, k, &where);
    if (!(e <= TOL_FN) && n == 2 &&
	    vdm_apply(from, to, n, 1, in, ref2, z0) == 0) {
	int w2;
	double e2 = rel_err(out, ref2, k, &w2);
	if (e2 <= TOL_FN)
	    e = e2;
    }
    if (!(e <= TOL_FN)) {
	snprintf(sig, sizeof(sig), "value:%sto%s", vdm_type_name[from],
		vdm_type_name[to]);
	vf_fail(r, sig, "%s->%s (%d ports), findex %d, cell %d: "
		"vnadata_convert gives %.15g%+.15gj, vnaconv function of that "
		"name applied to this frequency's matrix and z0 (%g%+gj, ...) "
		"gives %.15g%+.15gj (rel. err %.2e)", vdm_type_name[from],
		vdm_type_name[to], n, f, where, creal(out[where]),
		cimag(out[where]), creal(z0[0]), cimag(z0[0]),
		creal(ref[where]), cimag(ref[where]), e);
	return;
    }
    /* independent reference: the defining relations */
    int rv = to == VDM_ZIN ? ports_zin(n, from - 1, in, z0, ref2) :
	ports_convert(n, from - 1, in, to - 1, ref2, z0);
    if (rv != PORTS_OK)
	return;
    e = rel_err(out, ref2, k, &where);
    *perr = e;
    if (!(e <= TOL_PORTS)) {
	snprintf(sig, sizeof(sig), "relation:%sto%s", vdm_type_name[from],
		vdm_type_name[to]);
	vf_fail(r, sig, "%s->%s (%d ports), findex %d, cell %d: "
		"vnadata_convert gives %.12g%+.12gj, solving the defining port "
		"relations gives %.12g%+.12gj (rel. err %.2e)",
		vdm_type_name[from], vdm_type_name[to], n, f, where,
		creal(out[where]), cimag(out[where]), creal(ref2[where]),
		cimag(ref2[where]), e);
    }
}

/* ------------------------------------------------------------------ */
/* one conversion with all checks                                      */

/* expect a clean refusal of the call just made */
static void want_refusal(vf_result *r, int rc, int e, const char *what)
{
    if (rc != -1) {
	vf_fail(r, "accepted:vnadata_convert", "%s must be refused but "
		"vnadata_convert returned %d", what, rc);
    } else if (e != EINVAL) {
	vf_fail(r, "errno:vnadata_convert", "%s refused with errno %d, "
		"expected EINVAL", what, e);
    } else if (L.count != 1 || L.category[0] != VNAERR_USAGE ||
	    L.bad_format) {
	vf_fail(r, "callback:vnadata_convert", "%s refused with %d error "
		"callbacks (category %d); expected one VNAERR_USAGE", what,
		L.count, L.count ? L.category[0] : -1);
    }
}

static int convert_call(vnadata_t *in, vnadata_t *out, int to, int *e)
{
    vf_errlog_reset(&L);
    errno = 0;
    int rc = vnadata_convert(in, out, to);
    *e = errno;
    ++nconv;
    return rc;
}

/*
 * zin_differential: after conversion to Zin the result must stay equal to a
 * freshly built 1 x ports Zin object under every resize of the grid.
 */
static void zin_differential(int from, int n, int nf, int zmode, int omode,
	vf_result *r)
{
    static const int gtype[] = { VPT_UNDEF, VPT_ZIN, VPT_S };
    int rows_g[3] = { 1, 2, n + 1 }, cols_g[3] = { 1, n, n + 1 };
    int nf_g[2] = { nf, nf + 1 };

    for (int gt = 0; gt < 3; ++gt)
    for (int gr = 0; gr < 3; ++gr)
    for (int gc = 0; gc < 3; ++gc)
    for (int gf = 0; gf < 2; ++gf) {
	int type = gtype[gt], rows = rows_g[gr], cols = cols_g[gc];
	if (type == VPT_ZIN && !(gr == 0 && gc == 2))
	    continue;			/* one Zin point: 1 x n+1 */
	if (type == VPT_S && !(gr == 2 && gc == 2 && gf == 0))
	    continue;			/* one S point: n+1 x n+1 */
	vnadata_t *in = make_input(from, n, n, nf, zmode, r);
	if (in == NULL)
	    return;
	vnadata_t *a = make_out(omode, in, r);
	vnadata_t *b = new_obj();
	int e;
	if (a == NULL || b == NULL || convert_call(in, a, VPT_ZIN, &e) != 0) {
	    vf_fail(r, "setup:zin", "conversion to Zin did not repeat");
	    goto next;
	}
	/* the fresh object */
	int nf0 = (zmode == 2 && nf == 0) ? 1 : nf;
	if (vnadata_init(b, VPT_ZIN, 1, n, nf0) != 0 ||
		set_z0_mode(b, zmode, n, nf0) != 0 ||
		(nf0 != nf && vnadata_resize(b, VPT_ZIN, 1, n, nf) != 0) ||
		vnadata_set_filetype(b, VNADATA_FILETYPE_NPD) != 0 ||
		vnadata_set_format(b, "Sdb,Zinma") != 0 ||
		vnadata_set_fprecision(b, 9) != 0 ||
		vnadata_set_dprecision(b, 8) != 0) {
	    vf_fail(r, "setup:zin", "cannot build the fresh Zin object");
	    goto next;
	}
	if (vnadata_get_rows(a) == 1 && vnadata_get_columns(a) == n &&
		vnadata_get_frequencies(a) == nf) {
	    for (int f = 0; f < nf; ++f) {
		vnadata_set_frequency(b, f, vnadata_get_frequency(a, f));
		for (int p = 0; p < n; ++p)
		    vnadata_set_cell(b, f, 0, p, vnadata_get_cell(a, f, 0, p));
	    }
	}
	{
	    snap_t sa, sb;
	    vf_errlog_reset(&L);
	    take_snap(a, &sa);
	    take_snap(b, &sb);
	    if (!same_snap(&sa, &sb, 1, r, "zin-fresh", "converted object",
			"fresh 1 x ports Zin object"))
		goto next;
	    int rca = vnadata_resize(a, type, rows, cols, nf_g[gf]);
	    int rcb = vnadata_resize(b, type, rows, cols, nf_g[gf]);
	    if (rca != rcb) {
		vf_fail(r, "zin-resize:rc", "vnadata_resize(%s,%d,%d,%d) "
			"returns %d on the converted object, %d on the fresh "
			"one", vdm_type_name[type], rows, cols, nf_g[gf], rca,
			rcb);
		goto next;
	    }
	    char la[96];
	    snprintf(la, sizeof(la), "converted object after resize(%s,%d,%d,"
		    "%d)", vdm_type_name[type], rows, cols, nf_g[gf]);
	    vf_errlog_reset(&L);
	    take_snap(a, &sa);
	    take_snap(b, &sb);
	    same_snap(&sa, &sb, 1, r, "zin-resize:stale", la,
		    "fresh Zin object after the same resize");
	}
next:
	if (a != in)
	    vnadata_free(a);
	vnadata_free(in);
	vnadata_free(b);
	if (r->status == VF_VIOL)
	    return;
    }
}

static void run_a(long idx, vf_result *r)
{
    int from = vf_digit(&idx, VDM_NTYPES);
    int to = vf_digit(&idx, VDM_NTYPES);
    int sh = vf_digit(&idx, NSHAPES);
    int zmode = vf_digit(&idx, NZMODES);
    int omode = vf_digit(&idx, NOMODES);
    int nf = nfreqs[vf_digit(&idx, 3)];
    int rows = shapes[sh].rows, cols = shapes[sh].cols;
    static const char *const zname[] = { "default z0", "unequal complex z0",
	"per-frequency z0" };
    static const char *const oname[] = { "in place", "into a fresh object",
	"into a used Z 3x3x2 object", "into an object that already has the "
	"result's shape and other frequencies" };
    char what[200];
    int e;

    snprintf(what, sizeof(what), "%s %d x %d x %d frequencies (%s) -> %s "
	    "%s%s", vdm_type_name[from], rows, cols, nf, zname[zmode],
	    vdm_type_name[to], omode == 2 && g_variant ?
	    "into a used ZIN 1x4x4 object" : oname[omode],
	    g_variant == 3 ? " [singular leading block]" :
	    g_variant ? " [second network]" : "");
    vf_desc(r, "%s", what);
    vf_errlog_reset(&L);

    if (!vdm_dims_ok(from, rows, cols)) {
	/* such an input cannot exist: vnadata_init must say so */
	vnadata_t *vdp = new_obj();
	errno = 0;
	int rc = vdp ? vnadata_init(vdp, from, rows, cols, nf) : 0;
	e = errno;
	if (rc != -1 || e != EINVAL)
	    vf_fail(r, "accepted:vnadata_init", "vnadata_init(%s,%d,%d,%d) "
		    "returned %d errno %d; type and dimensions are "
		    "inconsistent", vdm_type_name[from], rows, cols, nf, rc,
		    e);
	vnadata_free(vdp);
	vf_outcome(r, "no such input");
	return;
    }

    int cls = vdm_classify(from, to, rows, cols);
    vnadata_t *in = make_input(from, rows, cols, nf, zmode, r);
    if (in == NULL)
	return;
    g_out_to = to;
    vnadata_t *out = make_out(omode, in, r);
    g_out_to = -1;
    if (out == NULL) {
	vnadata_free(in);
	return;
    }
    snap_t in0, out0, in1, out1;
    take_snap(in, &in0);
    take_snap(out, &out0);

    int rc = convert_call(in, out, to, &e);
    int ncb = L.count;
    char cbmsg[160];
    snprintf(cbmsg, sizeof(cbmsg), "%s", ncb ? L.msg[0] : "");
    r->nontrivial = 1;

    if (cls == VDM_REJECT) {
	want_refusal(r, rc, e, what);
	vf_errlog_reset(&L);
	take_snap(in, &in1);
	take_snap(out, &out1);
	if (r->status != VF_VIOL)
	    same_snap(&out0, &out1, 1, r, "effect:rejected-output",
		    "output object before the refused call", "afterwards");
	if (r->status != VF_VIOL)
	    same_snap(&in0, &in1, 1, r, "effect:rejected-input",
		    "input object before the refused call", "afterwards");
	vf_outcome(r, "refused");
	goto done;
    }

    if (rc != 0) {
	vf_fail(r, "refused:vnadata_convert", "%s failed (errno %d: %s) but "
		"the combination is valid", what, e, cbmsg);
	goto done;
    }
    if (ncb != 0) {
	vf_fail(r, "callback:vnadata_convert", "%s succeeded but reported: "
		"%s", what, cbmsg);
	goto done;
    }
    vf_errlog_reset(&L);
    take_snap(in, &in1);
    take_snap(out, &out1);

    /* what the output must look like */
    {
	int n = rows;
	snap_t want = in0;
	want.type = to;
	if (cls == VDM_CONVERT && to == VDM_ZIN) {
	    want.rows = 1;
	    want.cols = n;
	}
	if (out1.errors) {
	    vf_fail(r, "readback", "reading the result raised %d error "
		    "callbacks: %s", out1.errors, L.msg[0]);
	    goto done;
	}
	if (out1.type != want.type || out1.rows != want.rows ||
		out1.cols != want.cols || out1.nf != want.nf) {
	    vf_fail(r, "dims:result", "%s: result is %s %d x %d x %d, "
		    "expected %s %d x %d x %d", what,
		    vdm_type_name[out1.type], out1.rows, out1.cols, out1.nf,
		    vdm_type_name[want.type], want.rows, want.cols, want.nf);
	    goto done;
	}
	/* take the cells from the result, judge them separately below */
	memcpy(want.cell, out1.cell, sizeof(want.cell));
	if (!same_snap(&want, &out1, 1, r, "carry-over",
		    "input (frequencies, z0 mode and values, file type, "
		    "format, precisions)", "result"))
	    goto done;
	if (out != in && !same_snap(&in0, &in1, 1, r, "effect:input",
		    "input object before an out-of-place conversion",
		    "afterwards"))
	    goto done;

	double worst = -1;
	for (int f = 0; f < nf; ++f) {
	    if (cls == VDM_COPY) {
		for (int k = 0; k < rows * cols; ++k)
		    if (!ceq(out1.cell[f][k], in0.cell[f][k])) {
			vf_fail(r, "value:copy", "%s: same-type conversion "
				"changed findex %d cell %d from %g%+gj to "
				"%g%+gj", what, f, k, creal(in0.cell[f][k]),
				cimag(in0.cell[f][k]), creal(out1.cell[f][k]),
				cimag(out1.cell[f][k]));
			goto done;
		    }
	    } else {
		double pe;
		check_values(from, to, n, f, in0.cell[f], in0.z0[f],
			out1.cell[f], r, &pe);
		if (r->status == VF_VIOL)
		    goto done;
		if (pe > worst)
		    worst = pe;
	    }
	}
	vf_outcome(r, "%s %s", cls == VDM_COPY ? "copied" :
		to == VDM_ZIN ? "zin" : "converted",
		cls == VDM_COPY || nf == 0 ? "-" :
		worst < 0 ? "oracle-singular" : decade(worst));

	/* in place must equal out of place */
	if (out == in) {
	    vnadata_t *in2 = make_input(from, rows, cols, nf, zmode, r);
	    vnadata_t *out2 = new_obj();
	    if (in2 != NULL && out2 != NULL) {
		snap_t s2;
		int rc2 = convert_call(in2, out2, to, &e);
		vf_errlog_reset(&L);
		take_snap(out2, &s2);
		if (rc2 != 0)
		    vf_fail(r, "inplace-vs-outofplace", "%s succeeded, the "
			    "same conversion into a fresh object failed "
			    "(errno %d)", what, e);
		else
		    same_snap(&out1, &s2, 1, r, "inplace-vs-outofplace",
			    "in-place result", "out-of-place result");
	    }
	    vnadata_free(in2);
	    vnadata_free(out2);
	    if (r->status == VF_VIOL)
		goto done;
	}
    }
    if (cls == VDM_CONVERT && to == VDM_ZIN) {
	if (out != in)
	    vnadata_free(out);
	vnadata_free(in);
	zin_differential(from, rows, nf, zmode, omode, r);
	return;
    }
done:
    if (out != in)
	vnadata_free(out);
    vnadata_free(in);
}

/* ------------------------------------------------------------------ */
/* chains A -> B -> C against A -> C on 2x2                            */

static void run_b(long idx, vf_result *r)
{
    int ta = vf_digit(&idx, VDM_NTYPES);
    int tb = vf_digit(&idx, VDM_NTYPES);
    int tc = vf_digit(&idx, VDM_NTYPES);
    int zmode = vf_digit(&idx, NZMODES);
    const int nf = 2;
    int e;

    vf_desc(r, "chain %s -> %s -> %s against %s -> %s, 2x2, z0 mode %d, %d "
	    "frequencies%s", vdm_type_name[ta], vdm_type_name[tb],
	    vdm_type_name[tc], vdm_type_name[ta], vdm_type_name[tc], zmode,
	    nf, g_variant == 2 ? " [series element]" : g_variant ?
	    " [second network]" : "");
    vf_errlog_reset(&L);
    if (!vdm_dims_ok(ta, 2, 2)) {
	vf_outcome(r, "chain: no such input");
	return;
    }
    int c1 = vdm_classify(ta, tb, 2, 2);
    int r2 = tb == VDM_ZIN && c1 == VDM_CONVERT ? 1 : 2;
    int c2 = c1 == VDM_REJECT ? VDM_REJECT : vdm_classify(tb, tc, r2, 2);
    int c3 = vdm_classify(ta, tc, 2, 2);

    if (g_variant == 2 && ta == VPT_Z) {
	vf_outcome(r, "chain: the series element has no Z matrix");
	return;
    }
    vnadata_t *x = make_input(ta, 2, 2, nf, zmode, r);
    vnadata_t *y = new_obj(), *w = new_obj();
    if (x == NULL || y == NULL || w == NULL)
	goto done;
    snap_t sx;
    take_snap(x, &sx);

    int rc1 = convert_call(x, y, tb, &e);
    if ((rc1 == 0) != (c1 != VDM_REJECT)) {
	vf_fail(r, "chain:step1", "%s -> %s returned %d", vdm_type_name[ta],
		vdm_type_name[tb], rc1);
	goto done;
    }
    if (c1 == VDM_REJECT) {
	vf_outcome(r, "chain: first step refused");
	goto done;
    }
    int rc2 = convert_call(y, y, tc, &e);
    if ((rc2 == 0) != (c2 != VDM_REJECT)) {
	vf_fail(r, "chain:step2", "%s -> %s (after %s) returned %d",
		vdm_type_name[tb], vdm_type_name[tc], vdm_type_name[ta], rc2);
	goto done;
    }
    int rc3 = convert_call(x, w, tc, &e);
    if ((rc3 == 0) != (c3 != VDM_REJECT)) {
	vf_fail(r, "chain:direct", "%s -> %s returned %d", vdm_type_name[ta],
		vdm_type_name[tc], rc3);
	goto done;
    }
    if (c2 == VDM_REJECT || c3 == VDM_REJECT) {
	vf_outcome(r, "chain: %s refused", c2 == VDM_REJECT ? "second step" :
		"direct step");
	goto done;
    }
    /* all three accepted: are all three off their singular sets? */
    {
	snap_t sy, sw;
	vf_errlog_reset(&L);
	take_snap(y, &sy);
	take_snap(w, &sw);
	if (sy.type != sw.type || sy.rows != sw.rows || sy.cols != sw.cols ||
		sy.nf != sw.nf || sy.errors || sw.errors) {
	    vf_fail(r, "chain:dims", "chain result is %s %d x %d x %d, direct "
		    "result %s %d x %d x %d", vdm_type_name[sy.type], sy.rows,
		    sy.cols, sy.nf, vdm_type_name[sw.type], sw.rows, sw.cols,
		    sw.nf);
	    goto done;
	}
	int singular = 0;
	double worst = 0;
	for (int f = 0; f < nf; ++f) {
	    double complex t1[4], t2[4];
	    const double complex *z0 = sx.z0[f];
	    int k = sy.rows * sy.cols, where;
	    if (c1 == VDM_CONVERT) {
		int rv = tb == VDM_ZIN ?
		    ports_zin(2, ta - 1, sx.cell[f], z0, t1) :
		    ports_convert(2, ta - 1, sx.cell[f], tb - 1, t1, z0);
		if (rv != PORTS_OK)
		    singular = 1;
	    } else {
		memcpy(t1, sx.cell[f], sizeof(t1));
	    }
	    if (!singular && c2 == VDM_CONVERT) {
		int rv = tc == VDM_ZIN ? ports_zin(2, tb - 1, t1, z0, t2) :
		    ports_convert(2, tb - 1, t1, tc - 1, t2, z0);
		if (rv != PORTS_OK)
		    singular = 1;
	    }
	    if (!singular && c3 == VDM_CONVERT) {
		int rv = tc == VDM_ZIN ?
		    ports_zin(2, ta - 1, sx.cell[f], z0, t2) :
		    ports_convert(2, ta - 1, sx.cell[f], tc - 1, t2, z0);
		if (rv != PORTS_OK)
		    singular = 1;
	    }
	    if (singular)
		break;
	    double err = rel_err(sy.cell[f], sw.cell[f], k, &where);
	    if (err > worst)
		worst = err;
	    if (!(err <= TOL_CHAIN)) {
		vf_fail(r, "chain:value", "%s -> %s -> %s gives %.12g%+.12gj "
			"in cell %d at findex %d, %s -> %s gives "
			"%.12g%+.12gj (rel. err %.2e)", vdm_type_name[ta],
			vdm_type_name[tb], vdm_type_name[tc],
			creal(sy.cell[f][where]), cimag(sy.cell[f][where]),
			where, f, vdm_type_name[ta], vdm_type_name[tc],
			creal(sw.cell[f][where]), cimag(sw.cell[f][where]),
			err);
		goto done;
	    }
	}
	if (singular) {
	    vf_outcome(r, "chain: oracle-singular");
	} else {
	    r->nontrivial = 1;
	    vf_outcome(r, "chain agrees %s", decade(worst));
	}
    }
done:
    vnadata_free(x);
    vnadata_free(y);
    vnadata_free(w);
}

/* ------------------------------------------------------------------ */

static long count(int tier)
{
    /* + the chains once more on a series element (singular Y), + part A
       once more on a network whose Z matrix has a singular leading block */
    return (NPARTA + NPARTB) * (tier ? 2 : 1) + NPARTB + NPARTA;
}

static void run(int tier, long idx, vf_result *r)
{
    g_variant = 0;
    if (idx >= (NPARTA + NPARTB) * (tier ? 2 : 1) + NPARTB) {
	g_variant = 3;
	idx -= (NPARTA + NPARTB) * (tier ? 2 : 1) + NPARTB;
    } else if (idx >= (NPARTA + NPARTB) * (tier ? 2 : 1)) {
	g_variant = 2;
	idx = idx - (NPARTA + NPARTB) * (tier ? 2 : 1) + NPARTA;
    } else if (tier) {
	g_variant = (int)(idx / (NPARTA + NPARTB));
	idx %= NPARTA + NPARTB;
    }
    nconv = 0;
    long live0 = vf_live_total();
    unsigned long mark = vf_exec_begin();
    if (idx < NPARTA)
	run_a(idx, r);
    else
	run_b(idx - NPARTA, r);
    if (vf_live_total() != live0)
	vf_exec_end(r, mark);
    r->transitions = nconv;
    r->states = 1;
}

vf_driver vf_drv = {
    .property = "C05",
    .rule = "part A: case = (from type, to type, shape of {2x2, 1x1, 3x3, "
	"4x4, 5x5, 1x3, 2x3}, z0 mode of {default, unequal complex, "
	"per-frequency}, output of {in place, fresh second object, used "
	"second object}, frequencies of {0,1,3}); part B: case = (A, B, C, "
	"z0 mode) chain on 2x2.  A case is non-trivial when vnadata_convert "
	"was actually called on a constructible input and its result (or "
	"refusal) was judged; for part B when all three conversions were "
	"accepted, off the oracle's singular set and compared.  "
	"'transitions' counts vnadata_convert calls.  The thorough tier "
	"repeats everything with a second reference network, second z0 "
	"sets and a differently used second object (Zin 1x4x4)",
    .count = count,
    .run = run,
};
