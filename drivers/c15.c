/*
 * C15: vnadata_t behaves like a typed frequency x rows x columns array with
 * ordinary / per-frequency reference impedances.
 *
 * BFS over operation histories.  A plain reference model (typed array with a
 * flat row-major cell vector per frequency, a frequency vector and either a
 * z0 vector or a per-frequency z0 table) is driven in lock-step with the
 * real object; after the last operation every getter is called at every
 * boundary index and compared, then the object is regrown to 4x4x8 and read
 * completely, which exposes anything stale beyond the logical size.
 */
#include <complex.h>
#include <errno.h>
#include <math.h>
#include <stdio.h>
#include <string.h>
#include <vnadata.h>
#include "vf.h"
#include "vdm.h"

#define MAXF	16
#define MAXC	16
#define MAXP	4
#define RG_R	4		/* regrow probe dimensions */
#define RG_C	4
#define RG_F	8
#define Z0DEF	50.0

/*
 * The frame's allocation table never recycles slots of freed blocks unless
 * the address comes back; a small ASan quarantine makes addresses come back
 * quickly and keeps that table (and the workers' memory) small over the
 * millions of tiny error-message allocations made here.  Everything set in
 * ASAN_OPTIONS by ./check still takes precedence.
 */
const char *__asan_default_options(void);
const char *__asan_default_options(void)
{
    return "quarantine_size_mb=4:thread_local_quarantine_size_kb=64";
}

/* ------------------------------------------------------------------ */
/* reference model                                                     */

typedef struct model {
    int type, rows, cols, nf, fz0;
    double freq[MAXF];
    double complex cell[MAXF][MAXC];	/* flat, row-major, rows*cols used */
    double complex z0[MAXP];		/* ordinary mode */
    double complex fz[MAXF][MAXP];	/* per-frequency mode */
} model_t;

static int imax(int a, int b) { return a > b ? a : b; }
static int imin(int a, int b) { return a < b ? a : b; }

static void model_blank(model_t *m)
{
    memset(m, 0, sizeof(*m));
    for (int p = 0; p < MAXP; ++p)
	m->z0[p] = Z0DEF;
    for (int f = 0; f < MAXF; ++f)
	for (int p = 0; p < MAXP; ++p)
	    m->fz[f][p] = Z0DEF;
}

static int model_ports(const model_t *m) { return imax(m->rows, m->cols); }

/*
 * resize: type/dimension rule, then keep what the documentation says is
 * kept: frequencies below min(old,new), the leading min(old,new) cells of the
 * flat row-major vector of each kept frequency, impedances of the kept
 * ports (and kept frequencies); everything else reads 0, 0, 50 ohm.
 */
static int model_resize(model_t *m, int type, int rows, int cols, int nf)
{
    model_t n;

    if (rows < 0 || cols < 0 || nf < 0)
	return -1;
    if (type < 0 || type >= VDM_NTYPES || !vdm_dims_ok(type, rows, cols))
	return -1;
    model_blank(&n);
    n.type = type;
    n.rows = rows;
    n.cols = cols;
    n.nf = nf;
    n.fz0 = m->fz0;
    int kf = imin(m->nf, nf);
    int kc = imin(m->rows * m->cols, rows * cols);
    int kp = imin(model_ports(m), imax(rows, cols));
    for (int f = 0; f < kf; ++f) {
	n.freq[f] = m->freq[f];
	for (int i = 0; i < kc; ++i)
	    n.cell[f][i] = m->cell[f][i];
	if (m->fz0)
	    for (int p = 0; p < kp; ++p)
		n.fz[f][p] = m->fz[f][p];
    }
    if (!m->fz0)
	for (int p = 0; p < kp; ++p)
	    n.z0[p] = m->z0[p];
    *m = n;
    return 0;
}

/*
 * init: everything zero / 50 ohm, ordinary impedances.  When the requested
 * type and dimensions are inconsistent the call fails; the object is then
 * left empty (see the note in the manifest: vnadata_init clears first).
 */
static int model_init(model_t *m, int type, int rows, int cols, int nf)
{
    model_blank(m);
    return model_resize(m, type, rows, cols, nf);
}

static int model_set_type(model_t *m, int type)
{
    if (type < 0 || type >= VDM_NTYPES || !vdm_dims_ok(type, m->rows, m->cols))
	return -1;
    m->type = type;
    return 0;
}

static void model_to_z0(model_t *m)
{
    if (m->fz0) {
	m->fz0 = 0;
	for (int p = 0; p < MAXP; ++p)
	    m->z0[p] = Z0DEF;
	for (int f = 0; f < MAXF; ++f)
	    for (int p = 0; p < MAXP; ++p)
		m->fz[f][p] = Z0DEF;
    }
}

static void model_to_fz0(model_t *m)
{
    if (!m->fz0) {
	m->fz0 = 1;
	for (int f = 0; f < m->nf; ++f)
	    for (int p = 0; p < MAXP; ++p)
		m->fz[f][p] = m->z0[p];
	for (int p = 0; p < MAXP; ++p)
	    m->z0[p] = Z0DEF;
    }
}

static const double complex *model_z0_at(const model_t *m, int f)
{
    return m->fz0 ? m->fz[f] : m->z0;
}

/* in-place conversion; returns 0 / -1 */
static int model_convert(model_t *m, int to)
{
    int cls = vdm_classify(m->type, to, m->rows, m->cols);

    if (cls == VDM_REJECT)
	return -1;
    if (cls == VDM_COPY)
	return 0;
    int n = m->rows;
    for (int f = 0; f < m->nf; ++f) {
	double complex in[MAXC], out[MAXC];
	memcpy(in, m->cell[f], sizeof(in));
	memset(out, 0, sizeof(out));
	if (vdm_apply(m->type, to, n, 0, in, out, model_z0_at(m, f)) != 0)
	    return -2;		/* model error */
	memset(m->cell[f], 0, sizeof(m->cell[f]));
	int k = to == VDM_ZIN ? n : n * n;
	for (int i = 0; i < k; ++i)
	    m->cell[f][i] = out[i];
    }
    if (to == VDM_ZIN) {
	m->cols = n;
	m->rows = 1;
    }
    m->type = to;
    return 0;
}

/* ------------------------------------------------------------------ */
/* operation alphabet                                                  */

enum kind {
    K_INIT, K_RESIZE, K_SETTYPE, K_ADDF, K_SETF, K_SETCELL, K_SETMAT,
    K_SETVEC, K_SETZ0, K_SETALLZ0, K_SETZ0V, K_SETFZ0, K_SETFZ0V, K_CONVERT,
    K_SETFV, K_NKINDS
};
static const char *const kind_name[K_NKINDS] = {
    "init", "resize", "set_type", "add_frequency", "set_frequency",
    "set_cell", "set_matrix", "set_from_vector", "set_z0", "set_all_z0",
    "set_z0_vector", "set_fz0", "set_fz0_vector", "convert",
    "set_frequency_vector"
};

/* relative index codes */
enum { IX_M1, IX_0, IX_LAST, IX_N, IX_N1 };
static const char *const ix_name[] = { "-1", "0", "n-1", "n", "n+1" };
static int ix(int code, int n)
{
    switch (code) {
    case IX_M1:   return -1;
    case IX_0:    return 0;
    case IX_LAST: return n - 1;
    case IX_N:    return n;
    default:      return n + 1;
    }
}

typedef struct op {
    int kind;
    int a, b, c, d;
} op_t;

#define MAXOPS 128
static op_t optab[MAXOPS];
static int n_ops;

static void add_op(int kind, int a, int b, int c, int d)
{
    optab[n_ops].kind = kind;
    optab[n_ops].a = a;
    optab[n_ops].b = b;
    optab[n_ops].c = c;
    optab[n_ops].d = d;
    ++n_ops;
}

static void build_ops(int tier)
{
    if (n_ops)
	return;
    /* init(type, rows, cols, freqs) */
    add_op(K_INIT, VPT_UNDEF, 0, 0, 1);
    add_op(K_INIT, VPT_UNDEF, 2, 3, 2);
    add_op(K_INIT, VPT_S, 2, 2, 1);
    add_op(K_INIT, VPT_S, 3, 3, 3);
    add_op(K_INIT, VPT_Z, 1, 1, 2);
    add_op(K_INIT, VPT_T, 2, 2, 2);
    add_op(K_INIT, VPT_ZIN, 1, 3, 1);
    add_op(K_INIT, VPT_S, 2, 3, 1);		/* refused */
    add_op(K_INIT, VPT_ZIN, 2, 2, 1);		/* refused */
    add_op(K_INIT, VPT_Z, 2, 2, -1);		/* refused */
    /* resize */
    add_op(K_RESIZE, VPT_UNDEF, 0, 0, 0);
    add_op(K_RESIZE, VPT_UNDEF, 0, 0, 3);
    add_op(K_RESIZE, VPT_UNDEF, 3, 2, 1);
    add_op(K_RESIZE, VPT_UNDEF, 1, 3, 3);
    add_op(K_RESIZE, VPT_UNDEF, 3, 1, 2);
    add_op(K_RESIZE, VPT_S, 1, 1, 3);
    add_op(K_RESIZE, VPT_S, 2, 2, 3);
    add_op(K_RESIZE, VPT_S, 3, 3, 1);
    add_op(K_RESIZE, VPT_Z, 2, 2, 0);
    add_op(K_RESIZE, VPT_T, 2, 2, 1);
    add_op(K_RESIZE, VPT_ZIN, 1, 2, 2);
    add_op(K_RESIZE, VPT_T, 3, 3, 1);		/* refused */
    add_op(K_RESIZE, VPT_UNDEF, -1, 2, 1);	/* refused */
    add_op(K_RESIZE, VPT_UNDEF, 2, -1, 1);	/* refused */
    add_op(K_RESIZE, VPT_NTYPES, 2, 2, 1);	/* refused */
    /* set_type */
    add_op(K_SETTYPE, VPT_UNDEF, 0, 0, 0);
    add_op(K_SETTYPE, VPT_S, 0, 0, 0);
    add_op(K_SETTYPE, VPT_T, 0, 0, 0);
    add_op(K_SETTYPE, VPT_ZIN, 0, 0, 0);
    add_op(K_SETTYPE, VPT_NTYPES, 0, 0, 0);	/* refused */
    add_op(K_SETTYPE, -1, 0, 0, 0);		/* refused */
    /* add_frequency: a valid value, a negative one */
    add_op(K_ADDF, 0, 0, 0, 0);
    add_op(K_ADDF, 1, 0, 0, 0);
    /* set_frequency(findex) */
    for (int i = IX_M1; i <= IX_N1; ++i)
	add_op(K_SETF, i, 0, 0, 0);
    /* set_cell(findex, row, column) */
    add_op(K_SETCELL, IX_0, IX_0, IX_0, 0);
    add_op(K_SETCELL, IX_LAST, IX_LAST, IX_LAST, 0);
    for (int i = 0; i < 3; ++i) {
	static const int bad[3] = { IX_M1, IX_N, IX_N1 };
	add_op(K_SETCELL, bad[i], IX_0, IX_0, 0);
	add_op(K_SETCELL, IX_0, bad[i], IX_0, 0);
	add_op(K_SETCELL, IX_0, IX_0, bad[i], 0);
    }
    /* set_matrix(findex) */
    for (int i = IX_M1; i <= IX_N1; ++i)
	add_op(K_SETMAT, i, 0, 0, 0);
    /* set_from_vector(row, column) */
    add_op(K_SETVEC, IX_0, IX_0, 0, 0);
    add_op(K_SETVEC, IX_LAST, IX_LAST, 0, 0);
    for (int i = 0; i < 3; ++i) {
	static const int bad[3] = { IX_M1, IX_N, IX_N1 };
	add_op(K_SETVEC, bad[i], IX_0, 0, 0);
	add_op(K_SETVEC, IX_0, bad[i], 0, 0);
    }
    /* ordinary impedances */
    for (int i = IX_M1; i <= IX_N1; ++i)
	add_op(K_SETZ0, i, 0, 0, 0);
    add_op(K_SETALLZ0, 0, 0, 0, 0);
    add_op(K_SETZ0V, 0, 0, 0, 0);
    /* per-frequency impedances: set_fz0(findex, port) */
    add_op(K_SETFZ0, IX_0, IX_0, 0, 0);
    add_op(K_SETFZ0, IX_LAST, IX_LAST, 0, 0);
    for (int i = 0; i < 3; ++i) {
	static const int bad[3] = { IX_M1, IX_N, IX_N1 };
	add_op(K_SETFZ0, bad[i], IX_0, 0, 0);
	add_op(K_SETFZ0, IX_0, bad[i], 0, 0);
    }
    for (int i = IX_M1; i <= IX_N1; ++i)
	add_op(K_SETFZ0V, i, 0, 0, 0);
    /* the same setters handed the value the object holds at that place
       already (what a getter has just returned, 50 ohm on a fresh object):
       the mode switch and its resets must not depend on the value */
    add_op(K_SETZ0, IX_0, 0, 0, 1);
    add_op(K_SETALLZ0, 0, 0, 0, 1);
    add_op(K_SETZ0V, 0, 0, 0, 1);
    add_op(K_SETFZ0, IX_0, IX_0, 0, 1);
    add_op(K_SETFZ0V, IX_0, 0, 0, 1);
    /* in-place conversion */
    add_op(K_CONVERT, VPT_S, 0, 0, 0);
    add_op(K_CONVERT, VPT_Z, 0, 0, 0);
    add_op(K_CONVERT, VPT_T, 0, 0, 0);
    add_op(K_CONVERT, VPT_ZIN, 0, 0, 0);
    add_op(K_CONVERT, VPT_NTYPES, 0, 0, 0);	/* refused */
    /* set_frequency_vector */
    add_op(K_SETFV, 0, 0, 0, 0);
    if (!tier)
	return;
    /* thorough tier: a wider dimension grid and more types */
    add_op(K_INIT, VPT_Y, 3, 3, 2);
    add_op(K_INIT, VPT_A, 2, 2, 3);
    add_op(K_INIT, VPT_UNDEF, 3, 3, 0);
    add_op(K_RESIZE, VPT_UNDEF, 2, 2, 2);
    add_op(K_RESIZE, VPT_UNDEF, 2, 3, 1);
    add_op(K_RESIZE, VPT_Y, 3, 3, 2);
    add_op(K_RESIZE, VPT_ZIN, 1, 3, 3);
    add_op(K_RESIZE, VPT_ZIN, 1, 0, 1);
    add_op(K_RESIZE, VPT_H, 2, 2, 2);
    add_op(K_SETTYPE, VPT_Z, 0, 0, 0);
    add_op(K_SETTYPE, VPT_B, 0, 0, 0);
    add_op(K_CONVERT, VPT_Y, 0, 0, 0);
    add_op(K_CONVERT, VPT_U, 0, 0, 0);
    add_op(K_CONVERT, VPT_H, 0, 0, 0);
    add_op(K_CONVERT, VPT_UNDEF, 0, 0, 0);
}

static const char *tname(int t)
{
    static char buf[4][16];
    static int k;
    if (t >= 0 && t < VDM_NTYPES)
	return vdm_type_name[t];
    char *b = buf[k++ & 3];
    snprintf(b, 16, "%d", t);
    return b;
}

static void op_name(int tier, int o, char *buf, size_t n)
{
    build_ops(tier);
    const op_t *p = &optab[o];
    switch (p->kind) {
    case K_INIT:
    case K_RESIZE:
	snprintf(buf, n, "%s(%s,%d,%d,%d)", kind_name[p->kind], tname(p->a),
		p->b, p->c, p->d);
	break;
    case K_SETTYPE:
    case K_CONVERT:
	snprintf(buf, n, "%s(%s)", kind_name[p->kind], tname(p->a));
	break;
    case K_ADDF:
	snprintf(buf, n, "add_frequency(%s)", p->a ? "-1.0" : "f");
	break;
    case K_SETF:
    case K_SETMAT:
    case K_SETFZ0V:
	snprintf(buf, n, "%s(f=%s%s)", kind_name[p->kind], ix_name[p->a],
		p->d == 1 && p->kind == K_SETFZ0V ? ",same value" : "");
	break;
    case K_SETCELL:
	snprintf(buf, n, "set_cell(f=%s,r=%s,c=%s)", ix_name[p->a],
		ix_name[p->b], ix_name[p->c]);
	break;
    case K_SETVEC:
	snprintf(buf, n, "set_from_vector(r=%s,c=%s)", ix_name[p->a],
		ix_name[p->b]);
	break;
    case K_SETZ0:
	snprintf(buf, n, "set_z0(p=%s%s)", ix_name[p->a],
		p->d == 1 ? ",same value" : "");
	break;
    case K_SETFZ0:
	snprintf(buf, n, "set_fz0(f=%s,p=%s%s)", ix_name[p->a], ix_name[p->b],
		p->d == 1 ? ",same value" : "");
	break;
    default:
	snprintf(buf, n, "%s(%s)", kind_name[p->kind],
		p->d == 1 && (p->kind == K_SETALLZ0 || p->kind == K_SETZ0V) ?
		"same value" : "");
	break;
    }
}

/* values: distinct per operation (real part) and per element (imaginary) */
static double complex cval(int o, int k)
{
    return 0.1 + 0.01 * (o + 1) + I * 0.05 * (k + 1);
}
static double complex zval(int o, int k)
{
    return 30.0 + o + I * 2.0 * (k + 1);
}
static double fval(int o, int k)
{
    return 1.0e6 * (o + 1) + 1.0e3 * k;
}

/* ------------------------------------------------------------------ */
/* comparison helpers                                                  */

static vf_errlog L;
static long ncalls;

static int deq(double a, double b)
{
    return a == b || (isnan(a) && isnan(b));
}
static int ceq(double complex a, double complex b)
{
    return deq(creal(a), creal(b)) && deq(cimag(a), cimag(b));
}

#define BEGIN() do { errno = 0; vf_errlog_reset(&L); ++ncalls; } while (0)

/* the call just made must have been a clean refusal */
static void want_refusal(vf_result *r, const char *pfx, const char *fn,
	int failed, int err, const char *what)
{
    char sig[160];

    if (!failed) {
	snprintf(sig, sizeof(sig), "%saccepted:%s", pfx, fn);
	vf_fail(r, sig, "%s(%s) must be refused (failure value, EINVAL) but "
		"returned success", fn, what);
	return;
    }
    if (err != EINVAL) {
	snprintf(sig, sizeof(sig), "%serrno:%s", pfx, fn);
	vf_fail(r, sig, "%s(%s) failed with errno %d, expected EINVAL (%d)",
		fn, what, err, EINVAL);
	return;
    }
    if (L.count != 1 || L.category[0] != VNAERR_USAGE ||
	    L.err_no[0] != EINVAL || L.bad_format) {
	snprintf(sig, sizeof(sig), "%scallback:%s", pfx, fn);
	vf_fail(r, sig, "%s(%s) refused, but the error callback was called %d "
		"time(s) (category %d, errno %d, bad format %d); expected one "
		"VNAERR_USAGE/EINVAL call", fn, what, L.count,
		L.count ? L.category[0] : -1, L.count ? L.err_no[0] : -1,
		L.bad_format);
    }
}

/* the call just made must have succeeded silently */
static int want_success(vf_result *r, const char *pfx, const char *fn,
	int failed, const char *what)
{
    char sig[160];

    if (failed) {
	snprintf(sig, sizeof(sig), "%srefused:%s", pfx, fn);
	vf_fail(r, sig, "%s(%s) failed (errno %d%s%s) but the arguments are "
		"valid", fn, what, errno, L.count ? ": " : "",
		L.count ? L.msg[0] : "");
	return 0;
    }
    if (L.count != 0) {
	snprintf(sig, sizeof(sig), "%scallback:%s", pfx, fn);
	vf_fail(r, sig, "%s(%s) succeeded but called the error callback: %s",
		fn, what, L.msg[0]);
	return 0;
    }
    return 1;
}

static void bad_value(vf_result *r, const char *pfx, const char *fn,
	const char *what, double complex got, double complex want)
{
    char sig[160];
    snprintf(sig, sizeof(sig), "%svalue:%s", pfx, fn);
    vf_fail(r, sig, "%s(%s) = %.17g%+.17gj, model says %.17g%+.17gj", fn,
	    what, creal(got), cimag(got), creal(want), cimag(want));
}

static int is_hugec(double complex v)
{
    return creal(v) == HUGE_VAL && cimag(v) == 0.0;
}

/*
 * observe: compare every getter with the model.  All valid indices are
 * read; with `boundary' each index argument is additionally set to -1, n
 * and n+1 in turn while the other index arguments stay at 0 and at n-1.
 */
static const int bad3[3] = { IX_M1, IX_N, IX_N1 };

static void obs_cell(const vnadata_t *vdp, const model_t *m, vf_result *r,
	const char *pfx, int f, int i, int j)
{
    char what[96];
    int ok = f >= 0 && f < m->nf && i >= 0 && i < m->rows && j >= 0 &&
	j < m->cols;

    snprintf(what, sizeof(what), "findex %d, row %d, column %d of %d x %d "
	    "x %d", f, i, j, m->nf, m->rows, m->cols);
    BEGIN();
    double complex v = vnadata_get_cell(vdp, f, i, j);
    int e = errno;
    if (!ok)
	want_refusal(r, pfx, "vnadata_get_cell", is_hugec(v), e, what);
    else if (want_success(r, pfx, "vnadata_get_cell", 0, what) &&
	    !ceq(v, m->cell[f][i * m->cols + j]))
	bad_value(r, pfx, "vnadata_get_cell", what, v,
		m->cell[f][i * m->cols + j]);
}

static void obs_to_vector(const vnadata_t *vdp, const model_t *m,
	vf_result *r, const char *pfx, int i, int j)
{
    char what[96];
    int ok = i >= 0 && i < m->rows && j >= 0 && j < m->cols;
    double complex vec[MAXF];

    for (int f = 0; f < MAXF; ++f)
	vec[f] = -777.0;
    snprintf(what, sizeof(what), "row %d, column %d of %d x %d", i, j,
	    m->rows, m->cols);
    BEGIN();
    int rc = vnadata_get_to_vector(vdp, i, j, vec);
    int e = errno;
    if (!ok) {
	want_refusal(r, pfx, "vnadata_get_to_vector", rc == -1, e, what);
	for (int f = 0; f < MAXF; ++f)
	    if (!ceq(vec[f], -777.0)) {
		char sig[160];
		snprintf(sig, sizeof(sig), "%seffect:vnadata_get_to_vector",
			pfx);
		vf_fail(r, sig, "refused vnadata_get_to_vector(%s) wrote to "
			"the caller's vector", what);
		break;
	    }
    } else if (want_success(r, pfx, "vnadata_get_to_vector", rc != 0,
		what)) {
	for (int f = 0; f < m->nf; ++f)
	    if (!ceq(vec[f], m->cell[f][i * m->cols + j])) {
		bad_value(r, pfx, "vnadata_get_to_vector", what, vec[f],
			m->cell[f][i * m->cols + j]);
		break;
	    }
    }
}

static void obs_fz0(const vnadata_t *vdp, const model_t *m, vf_result *r,
	const char *pfx, int f, int p)
{
    char what[96];
    int ports = model_ports(m);
    int fok = f >= 0 && f < m->nf, pok = p >= 0 && p < ports;
    const double complex *zm = fok ? model_z0_at(m, f) : m->z0;

    snprintf(what, sizeof(what), "findex %d of %d, port %d of %d%s", f,
	    m->nf, p, ports, m->fz0 ? " [fz0]" : " [z0]");
    BEGIN();
    double complex v = vnadata_get_fz0(vdp, f, p);
    int e = errno;
    if (!pok || (!fok && m->fz0)) {
	want_refusal(r, pfx, "vnadata_get_fz0", is_hugec(v), e, what);
    } else if (!fok) {
	/*
	 * Ordinary mode, findex out of range: vnadata(3) says the findex
	 * argument is not used in this mode, the property says out-of-range
	 * indices are refused.  Accept a clean refusal or the ordinary
	 * value.
	 */
	if (is_hugec(v))
	    want_refusal(r, pfx, "vnadata_get_fz0", 1, e, what);
	else if (want_success(r, pfx, "vnadata_get_fz0", 0, what) &&
		!ceq(v, m->z0[p]))
	    bad_value(r, pfx, "vnadata_get_fz0", what, v, m->z0[p]);
    } else if (want_success(r, pfx, "vnadata_get_fz0", 0, what) &&
	    !ceq(v, zm[p])) {
	bad_value(r, pfx, "vnadata_get_fz0", what, v, zm[p]);
    }
}

/*
 * read from inside the error callback: every getter over the dimensions the
 * object reports at that moment (the sanitizers judge)
 */
static const vnadata_t *g_hook_vd;
static void hook_touch(void)
{
    const vnadata_t *v = g_hook_vd;
    volatile double sink = 0;
    if (v == NULL)
	return;
    int rows = vnadata_get_rows(v), cols = vnadata_get_columns(v);
    int nf = vnadata_get_frequencies(v);
    int ports = rows > cols ? rows : cols;
    if (rows < 0 || cols < 0 || nf < 0 || rows > 64 || cols > 64 || nf > 4096)
	return;
    for (int f = 0; f < nf; ++f) {
	sink += vnadata_get_frequency(v, f);
	for (int i = 0; i < rows; ++i)
	    for (int j = 0; j < cols; ++j)
		sink += creal(vnadata_get_cell(v, f, i, j));
	if (vnadata_has_fz0(v))
	    for (int p = 0; p < ports; ++p)
		sink += creal(vnadata_get_fz0(v, f, p));
    }
    if (!vnadata_has_fz0(v))
	for (int p = 0; p < ports; ++p)
	    sink += creal(vnadata_get_z0(v, p));
    (void)sink;
}

static void observe(const vnadata_t *vdp, const model_t *m, vf_result *r,
	const char *pfx, int boundary)
{
    char what[96];
    int ports = model_ports(m);
    int cells = m->rows * m->cols;
    int nbad = boundary ? 3 : 0;

    /* dimensions, type, mode */
    ncalls += 5;
    if ((int)vnadata_get_type(vdp) != m->type ||
	    vnadata_get_rows(vdp) != m->rows ||
	    vnadata_get_columns(vdp) != m->cols ||
	    vnadata_get_frequencies(vdp) != m->nf) {
	char sig[160];
	snprintf(sig, sizeof(sig), "%sdims", pfx);
	vf_fail(r, sig, "object is %s %d x %d x %d frequencies, model says "
		"%s %d x %d x %d", tname((int)vnadata_get_type(vdp)),
		vnadata_get_rows(vdp), vnadata_get_columns(vdp),
		vnadata_get_frequencies(vdp), tname(m->type), m->rows,
		m->cols, m->nf);
	return;			/* indices below would be meaningless */
    }
    BEGIN();
    if ((vnadata_has_fz0(vdp) ? 1 : 0) != m->fz0) {
	char sig[160];
	snprintf(sig, sizeof(sig), "%smode:vnadata_has_fz0", pfx);
	vf_fail(r, sig, "vnadata_has_fz0 = %d, model says %d",
		(int)vnadata_has_fz0(vdp), m->fz0);
	return;
    }

    /* frequencies */
    for (int k = -nbad; k < m->nf; ++k) {
	int f = k < 0 ? ix(bad3[-k - 1], m->nf) : k;
	snprintf(what, sizeof(what), "findex %d of %d", f, m->nf);
	BEGIN();
	double v = vnadata_get_frequency(vdp, f);
	int e = errno;
	if (k < 0)
	    want_refusal(r, pfx, "vnadata_get_frequency", v == HUGE_VAL, e,
		    what);
	else if (want_success(r, pfx, "vnadata_get_frequency", 0, what) &&
		!deq(v, m->freq[f]))
	    bad_value(r, pfx, "vnadata_get_frequency", what, v, m->freq[f]);
    }
    {
	snprintf(what, sizeof(what), "%d frequencies", m->nf);
	BEGIN();
	double v = vnadata_get_fmin(vdp);
	int e = errno;
	if (m->nf == 0)
	    want_refusal(r, pfx, "vnadata_get_fmin", v == HUGE_VAL, e, what);
	else if (want_success(r, pfx, "vnadata_get_fmin", 0, what) &&
		!deq(v, m->freq[0]))
	    bad_value(r, pfx, "vnadata_get_fmin", what, v, m->freq[0]);
	BEGIN();
	v = vnadata_get_fmax(vdp);
	e = errno;
	if (m->nf == 0)
	    want_refusal(r, pfx, "vnadata_get_fmax", v == HUGE_VAL, e, what);
	else if (want_success(r, pfx, "vnadata_get_fmax", 0, what) &&
		!deq(v, m->freq[m->nf - 1]))
	    bad_value(r, pfx, "vnadata_get_fmax", what, v,
		    m->freq[m->nf - 1]);
	if (m->nf > 0) {
	    BEGIN();
	    const double *fv = vnadata_get_frequency_vector(vdp);
	    if (want_success(r, pfx, "vnadata_get_frequency_vector",
			fv == NULL, what)) {
		for (int f = 0; f < m->nf; ++f)
		    if (!deq(fv[f], m->freq[f])) {
			snprintf(what, sizeof(what), "[%d]", f);
			bad_value(r, pfx, "vnadata_get_frequency_vector",
				what, fv[f], m->freq[f]);
			break;
		    }
	    }
	}
    }

    /* cells: every valid index, then one bad index at a time */
    for (int f = 0; f < m->nf; ++f)
	for (int i = 0; i < m->rows; ++i)
	    for (int j = 0; j < m->cols; ++j)
		obs_cell(vdp, m, r, pfx, f, i, j);
    for (int b = 0; b < nbad; ++b) {
	for (int base = 0; base < 2; ++base) {
	    int f0 = base ? m->nf - 1 : 0;
	    int i0 = base ? m->rows - 1 : 0;
	    int j0 = base ? m->cols - 1 : 0;
	    obs_cell(vdp, m, r, pfx, ix(bad3[b], m->nf), i0, j0);
	    obs_cell(vdp, m, r, pfx, f0, ix(bad3[b], m->rows), j0);
	    obs_cell(vdp, m, r, pfx, f0, i0, ix(bad3[b], m->cols));
	}
    }
    for (int k = -nbad; k < m->nf; ++k) {
	int f = k < 0 ? ix(bad3[-k - 1], m->nf) : k;
	snprintf(what, sizeof(what), "findex %d of %d", f, m->nf);
	BEGIN();
	const double complex *mp = vnadata_get_matrix(vdp, f);
	int e = errno;
	if (k < 0) {
	    want_refusal(r, pfx, "vnadata_get_matrix", mp == NULL, e, what);
	} else if (cells > 0 && want_success(r, pfx, "vnadata_get_matrix",
		    mp == NULL, what)) {
	    for (int c = 0; c < cells; ++c)
		if (!ceq(mp[c], m->cell[f][c])) {
		    snprintf(what, sizeof(what), "findex %d)[%d] (%d x %d",
			    f, c, m->rows, m->cols);
		    bad_value(r, pfx, "vnadata_get_matrix", what, mp[c],
			    m->cell[f][c]);
		    break;
		}
	}
    }
    if (boundary) {
	obs_to_vector(vdp, m, r, pfx, 0, 0);
	obs_to_vector(vdp, m, r, pfx, m->rows - 1, m->cols - 1);
	for (int b = 0; b < 3; ++b) {
	    obs_to_vector(vdp, m, r, pfx, ix(bad3[b], m->rows), 0);
	    obs_to_vector(vdp, m, r, pfx, ix(bad3[b], m->rows), m->cols - 1);
	    obs_to_vector(vdp, m, r, pfx, 0, ix(bad3[b], m->cols));
	    obs_to_vector(vdp, m, r, pfx, m->rows - 1, ix(bad3[b], m->cols));
	}
    }

    /* ordinary impedances */
    for (int k = -nbad; k < ports; ++k) {
	int p = k < 0 ? ix(bad3[-k - 1], ports) : k;
	int ok = k >= 0 && !m->fz0;
	snprintf(what, sizeof(what), "port %d of %d%s", p, ports,
		m->fz0 ? ", per-frequency z0 in use" : "");
	BEGIN();
	double complex v = vnadata_get_z0(vdp, p);
	int e = errno;
	if (!ok)
	    want_refusal(r, pfx, "vnadata_get_z0", is_hugec(v), e, what);
	else if (want_success(r, pfx, "vnadata_get_z0", 0, what) &&
		!ceq(v, m->z0[p]))
	    bad_value(r, pfx, "vnadata_get_z0", what, v, m->z0[p]);
    }
    {
	snprintf(what, sizeof(what), "%d ports%s", ports,
		m->fz0 ? ", per-frequency z0 in use" : "");
	BEGIN();
	const double complex *zp = vnadata_get_z0_vector(vdp);
	int e = errno;
	if (m->fz0) {
	    want_refusal(r, pfx, "vnadata_get_z0_vector", zp == NULL, e,
		    what);
	} else if (ports > 0 && want_success(r, pfx, "vnadata_get_z0_vector",
		    zp == NULL, what)) {
	    for (int p = 0; p < ports; ++p)
		if (!ceq(zp[p], m->z0[p])) {
		    snprintf(what, sizeof(what), "[%d] of %d", p, ports);
		    bad_value(r, pfx, "vnadata_get_z0_vector", what, zp[p],
			    m->z0[p]);
		    break;
		}
	}
    }

    /* per-frequency getters (work in both modes) */
    for (int f = 0; f < m->nf; ++f)
	for (int p = 0; p < ports; ++p)
	    obs_fz0(vdp, m, r, pfx, f, p);
    for (int b = 0; b < nbad; ++b) {
	obs_fz0(vdp, m, r, pfx, ix(bad3[b], m->nf), 0);
	obs_fz0(vdp, m, r, pfx, ix(bad3[b], m->nf), ports - 1);
	obs_fz0(vdp, m, r, pfx, 0, ix(bad3[b], ports));
	obs_fz0(vdp, m, r, pfx, m->nf - 1, ix(bad3[b], ports));
    }
    for (int k = -nbad; k < m->nf; ++k) {
	int f = k < 0 ? ix(bad3[-k - 1], m->nf) : k;
	int fok = k >= 0;
	const double complex *zm = fok ? model_z0_at(m, f) : m->z0;
	snprintf(what, sizeof(what), "findex %d of %d%s", f, m->nf,
		m->fz0 ? " [fz0]" : " [z0]");
	BEGIN();
	const double complex *zp = vnadata_get_fz0_vector(vdp, f);
	int e = errno;
	if (!fok && (m->fz0 || zp == NULL)) {
	    want_refusal(r, pfx, "vnadata_get_fz0_vector", zp == NULL, e,
		    what);
	} else if (ports > 0 && want_success(r, pfx,
		    "vnadata_get_fz0_vector", zp == NULL, what)) {
	    for (int p = 0; p < ports; ++p)
		if (!ceq(zp[p], zm[p])) {
		    snprintf(what, sizeof(what), "findex %d)[%d] (%d ports",
			    f, p, ports);
		    bad_value(r, pfx, "vnadata_get_fz0_vector", what, zp[p],
			    zm[p]);
		    break;
		}
	}
    }
}

/* ------------------------------------------------------------------ */
/* applying one operation to both sides                                */

/*
 * apply: run operation `o' on the object and on the model.  *rc_impl and
 * *rc_model receive the two return values.  The index arguments are
 * resolved against the model's dimensions before the call.
 */
static void apply(vnadata_t *vdp, model_t *m, int o, int *rc_impl,
	int *rc_model, char *what, size_t wn)
{
    const op_t *p = &optab[o];
    int ports = model_ports(m);
    int cells = m->rows * m->cols;
    double complex mat[MAXC], vec[MAXF], zv[MAXP];

    for (int k = 0; k < MAXC; ++k)
	mat[k] = cval(o, k);
    for (int k = 0; k < MAXF; ++k)
	vec[k] = cval(o, k);
    for (int k = 0; k < MAXP; ++k)
	zv[k] = zval(o, k);
    if (p->d == 1 && (p->kind == K_SETZ0 || p->kind == K_SETALLZ0 ||
		p->kind == K_SETZ0V || p->kind == K_SETFZ0 ||
		p->kind == K_SETFZ0V)) {
	/* write back what is there */
	int f = (p->kind == K_SETFZ0 || p->kind == K_SETFZ0V) ?
	    ix(p->a, m->nf) : 0;
	int q0 = p->kind == K_SETZ0 ? ix(p->a, ports) :
	    p->kind == K_SETFZ0 ? ix(p->b, ports) : 0;
	for (int k = 0; k < MAXP; ++k) {
	    int q = (p->kind == K_SETZ0 || p->kind == K_SETFZ0 ||
		    p->kind == K_SETALLZ0) ? q0 : k;
	    if (q < 0 || q >= MAXP)
		q = 0;
	    if (m->fz0 && f >= 0 && f < m->nf)
		zv[k] = m->fz[f][q];
	    else if (!m->fz0)
		zv[k] = m->z0[q];
	    else
		zv[k] = Z0DEF;
	}
    }
    what[0] = '\0';
    BEGIN();
    switch (p->kind) {
    case K_INIT:
	snprintf(what, wn, "%s,%d,%d,%d", tname(p->a), p->b, p->c, p->d);
	*rc_impl = vnadata_init(vdp, p->a, p->b, p->c, p->d);
	*rc_model = model_init(m, p->a, p->b, p->c, p->d);
	break;
    case K_RESIZE:
	snprintf(what, wn, "%s,%d,%d,%d on %s %dx%dx%d", tname(p->a), p->b,
		p->c, p->d, tname(m->type), m->rows, m->cols, m->nf);
	*rc_impl = vnadata_resize(vdp, p->a, p->b, p->c, p->d);
	*rc_model = model_resize(m, p->a, p->b, p->c, p->d);
	break;
    case K_SETTYPE:
	snprintf(what, wn, "%s on %s %dx%d", tname(p->a), tname(m->type),
		m->rows, m->cols);
	*rc_impl = vnadata_set_type(vdp, p->a);
	*rc_model = model_set_type(m, p->a);
	break;
    case K_ADDF: {
	double f = p->a ? -1.0 : fval(o, 0);
	snprintf(what, wn, "%g", f);
	*rc_impl = vnadata_add_frequency(vdp, f);
	if (f < 0.0 || m->nf + 1 > MAXF) {
	    *rc_model = -1;
	} else {
	    *rc_model = model_resize(m, m->type, m->rows, m->cols, m->nf + 1);
	    m->freq[m->nf - 1] = f;
	}
	break;
    }
    case K_SETF: {
	int f = ix(p->a, m->nf);
	snprintf(what, wn, "findex %d of %d", f, m->nf);
	*rc_impl = vnadata_set_frequency(vdp, f, fval(o, 0));
	if (f < 0 || f >= m->nf) {
	    *rc_model = -1;
	} else {
	    m->freq[f] = fval(o, 0);
	    *rc_model = 0;
	}
	break;
    }
    case K_SETCELL: {
	int f = ix(p->a, m->nf), i = ix(p->b, m->rows), j = ix(p->c, m->cols);
	snprintf(what, wn, "findex %d, row %d, column %d of %d x %d x %d", f,
		i, j, m->nf, m->rows, m->cols);
	*rc_impl = vnadata_set_cell(vdp, f, i, j, cval(o, 0));
	if (f < 0 || f >= m->nf || i < 0 || i >= m->rows || j < 0 ||
		j >= m->cols) {
	    *rc_model = -1;
	} else {
	    m->cell[f][i * m->cols + j] = cval(o, 0);
	    *rc_model = 0;
	}
	break;
    }
    case K_SETMAT: {
	int f = ix(p->a, m->nf);
	snprintf(what, wn, "findex %d of %d, %d x %d", f, m->nf, m->rows,
		m->cols);
	*rc_impl = vnadata_set_matrix(vdp, f, mat);
	if (f < 0 || f >= m->nf) {
	    *rc_model = -1;
	} else {
	    for (int k = 0; k < cells; ++k)
		m->cell[f][k] = mat[k];
	    *rc_model = 0;
	}
	break;
    }
    case K_SETVEC: {
	int i = ix(p->a, m->rows), j = ix(p->b, m->cols);
	snprintf(what, wn, "row %d, column %d of %d x %d", i, j, m->rows,
		m->cols);
	*rc_impl = vnadata_set_from_vector(vdp, i, j, vec);
	if (i < 0 || i >= m->rows || j < 0 || j >= m->cols) {
	    *rc_model = -1;
	} else {
	    for (int f = 0; f < m->nf; ++f)
		m->cell[f][i * m->cols + j] = vec[f];
	    *rc_model = 0;
	}
	break;
    }
    case K_SETZ0: {
	int q = ix(p->a, ports);
	snprintf(what, wn, "port %d of %d%s", q, ports,
		m->fz0 ? " [fz0]" : " [z0]");
	*rc_impl = vnadata_set_z0(vdp, q, zv[0]);
	if (q < 0 || q >= ports) {
	    *rc_model = -1;
	} else {
	    model_to_z0(m);
	    m->z0[q] = zv[0];
	    *rc_model = 0;
	}
	break;
    }
    case K_SETALLZ0:
	snprintf(what, wn, "%d ports%s", ports, m->fz0 ? " [fz0]" : " [z0]");
	*rc_impl = vnadata_set_all_z0(vdp, zv[0]);
	model_to_z0(m);
	for (int q = 0; q < ports; ++q)
	    m->z0[q] = zv[0];
	*rc_model = 0;
	break;
    case K_SETZ0V:
	snprintf(what, wn, "%d ports%s", ports, m->fz0 ? " [fz0]" : " [z0]");
	*rc_impl = vnadata_set_z0_vector(vdp, zv);
	model_to_z0(m);
	for (int q = 0; q < ports; ++q)
	    m->z0[q] = zv[q];
	*rc_model = 0;
	break;
    case K_SETFZ0: {
	int f = ix(p->a, m->nf), q = ix(p->b, ports);
	snprintf(what, wn, "findex %d of %d, port %d of %d%s", f, m->nf, q,
		ports, m->fz0 ? " [fz0]" : " [z0]");
	*rc_impl = vnadata_set_fz0(vdp, f, q, zv[0]);
	if (f < 0 || f >= m->nf || q < 0 || q >= ports) {
	    *rc_model = -1;
	} else {
	    model_to_fz0(m);
	    m->fz[f][q] = zv[0];
	    *rc_model = 0;
	}
	break;
    }
    case K_SETFZ0V: {
	int f = ix(p->a, m->nf);
	snprintf(what, wn, "findex %d of %d, %d ports%s", f, m->nf, ports,
		m->fz0 ? " [fz0]" : " [z0]");
	*rc_impl = vnadata_set_fz0_vector(vdp, f, zv);
	if (f < 0 || f >= m->nf) {
	    *rc_model = -1;
	} else {
	    model_to_fz0(m);
	    for (int q = 0; q < ports; ++q)
		m->fz[f][q] = zv[q];
	    *rc_model = 0;
	}
	break;
    }
    case K_SETFV: {
	double fv[MAXF];
	for (int f = 0; f < MAXF; ++f)
	    fv[f] = fval(o, f);
	snprintf(what, wn, "%d frequencies", m->nf);
	*rc_impl = vnadata_set_frequency_vector(vdp, fv);
	for (int f = 0; f < m->nf; ++f)
	    m->freq[f] = fv[f];
	*rc_model = 0;
	break;
    }
    case K_CONVERT:
	snprintf(what, wn, "%s %dx%dx%d in place to %s", tname(m->type),
		m->rows, m->cols, m->nf, tname(p->a));
	*rc_impl = vnadata_convert(vdp, vdp, p->a);
	*rc_model = model_convert(m, p->a);
	break;
    default:
	*rc_impl = *rc_model = 0;
	break;
    }
}

/*
 * After a successful conversion the cells may differ from the model's in
 * the last bits if the library chose another (equivalent) vnaconv variant;
 * accept 1e-12 of the matrix scale and continue from the library's values.
 */
static void sync_after_convert(const vnadata_t *vdp, model_t *m,
	vf_result *r)
{
    int cells = m->rows * m->cols;

    if (vnadata_get_rows(vdp) != m->rows ||
	    vnadata_get_columns(vdp) != m->cols ||
	    vnadata_get_frequencies(vdp) != m->nf)
	return;			/* observe() reports it */
    for (int f = 0; f < m->nf; ++f) {
	double scale = 0;
	for (int k = 0; k < cells; ++k)
	    if (isfinite(cabs(m->cell[f][k])) && cabs(m->cell[f][k]) > scale)
		scale = cabs(m->cell[f][k]);
	for (int k = 0; k < cells; ++k) {
	    double complex v = vnadata_get_cell(vdp, f, k / m->cols,
		    k % m->cols);
	    double complex w = m->cell[f][k];
	    if (ceq(v, w))
		continue;
	    int vfin = isfinite(creal(v)) && isfinite(cimag(v));
	    int wfin = isfinite(creal(w)) && isfinite(cimag(w));
	    if ((!vfin && !wfin) ||
		    (vfin && wfin && cabs(v - w) <= 1e-12 * scale)) {
		m->cell[f][k] = v;
		continue;
	    }
	    vf_fail(r, "value:vnadata_convert", "after in-place conversion "
		    "to %s, findex %d cell %d is %.17g%+.17gj, the "
		    "corresponding vnaconv function gives %.17g%+.17gj",
		    tname(m->type), f, k, creal(v), cimag(v), creal(w),
		    cimag(w));
	    return;
	}
    }
}

/* ------------------------------------------------------------------ */

static uint64_t fnv(const void *p, size_t n, uint64_t h)
{
    const unsigned char *s = p;
    for (size_t i = 0; i < n; ++i) {
	h ^= s[i];
	h *= 0x100000001b3ULL;
    }
    return h;
}

static void model_key(const model_t *m, vf_result *r, int coarse)
{
    uint64_t h1 = 0xcbf29ce484222325ULL, h2 = 0x84222325cbf29ce4ULL;
    int ports = model_ports(m), cells = m->rows * m->cols;

    if (coarse) {
	vf_key_append(r, "final|t%d r%d c%d f%d z%d", m->type, m->rows,
		m->cols, m->nf, m->fz0);
	return;
    }
    for (int f = 0; f < m->nf; ++f) {
	h1 = fnv(&m->freq[f], sizeof(double), h1);
	h2 = fnv(&m->freq[f], sizeof(double), h2 * 31 + 7);
	h1 = fnv(m->cell[f], sizeof(double complex) * (size_t)cells, h1);
	h2 = fnv(m->cell[f], sizeof(double complex) * (size_t)cells,
		h2 * 31 + 7);
	if (m->fz0) {
	    h1 = fnv(m->fz[f], sizeof(double complex) * (size_t)ports, h1);
	    h2 = fnv(m->fz[f], sizeof(double complex) * (size_t)ports,
		    h2 * 31 + 7);
	}
    }
    if (!m->fz0) {
	h1 = fnv(m->z0, sizeof(double complex) * (size_t)ports, h1);
	h2 = fnv(m->z0, sizeof(double complex) * (size_t)ports, h2 * 31 + 7);
    }
    vf_key_append(r, "t%d r%d c%d f%d z%d|%016llx%016llx", m->type, m->rows,
	    m->cols, m->nf, m->fz0, (unsigned long long)h1,
	    (unsigned long long)h2);
}

static int nops(int tier) { build_ops(tier); return n_ops; }
static int maxdepth(int tier) { return tier ? 5 : 4; }

static void run_hist(int tier, const int *ops, int n, vf_result *r)
{
    model_t m;
    vnadata_t *vdp;
    char what[160];
    int rc_i = 0, rc_m = 0;

    build_ops(tier);
    ncalls = 0;
    model_blank(&m);
    if (n == 0) {
	/*
	 * The frame evaluates the empty history unprotected (no fork), so
	 * only the key is produced here; the freshly allocated object is
	 * observed at the start of every depth-1 history instead.
	 */
	vf_outcome(r, "initial");
	model_key(&m, r, 0);
	return;
    }
    long live0 = vf_live_total();
    unsigned long mark = vf_exec_begin();
    vf_errlog_reset(&L);
    vdp = vnadata_alloc((vnaerr_error_fn_t *)vf_errfn, &L);
    if (vdp == NULL) {
	vf_fail(r, "alloc:vnadata_alloc", "vnadata_alloc returned NULL");
	return;
    }
    if (n == 1) {
	observe(vdp, &m, r, "fresh-", 1);
	if (r->status == VF_VIOL)
	    goto done;
    }
    /* prefix: already judged at the previous depth, keep in lock-step */
    for (int i = 0; i + 1 < n; ++i) {
	apply(vdp, &m, ops[i], &rc_i, &rc_m, what, sizeof(what));
	if ((rc_i == 0) != (rc_m == 0)) {
	    vf_fail(r, "prefix-mismatch", "operation %d of the (already "
		    "accepted) prefix returned %d, model %d", i, rc_i, rc_m);
	    goto done;
	}
	if (rc_i == 0 && optab[ops[i]].kind == K_CONVERT)
	    sync_after_convert(vdp, &m, r);
    }
    {
	const op_t *p = &optab[ops[n - 1]];
	const char *fn = kind_name[p->kind];
	char fname[64];
	snprintf(fname, sizeof(fname), "vnadata_%s", fn);
	int nonempty = m.rows > 0 || m.cols > 0 || m.nf > 0;
	g_hook_vd = vdp;
	vf_errfn_hook = hook_touch;
	apply(vdp, &m, ops[n - 1], &rc_i, &rc_m, what, sizeof(what));
	int e = errno;
	vf_errfn_hook = NULL;
	g_hook_vd = NULL;
	if (rc_m == -2) {
	    vf_fail(r, "model-error", "reference dispatch has no function "
		    "for %s", what);
	    goto done;
	}
	if (rc_m == -1) {
	    want_refusal(r, "", fname, rc_i == -1, e, what);
	    if (rc_i != -1 && rc_i != 0) {
		vf_fail(r, "retval", "%s(%s) returned %d", fname, what, rc_i);
	    }
	} else {
	    if (want_success(r, "", fname, rc_i != 0, what) &&
		    p->kind == K_CONVERT)
		sync_after_convert(vdp, &m, r);
	}
	vf_outcome(r, "%s:%s:%s", fn, rc_m == 0 ? "ok" : "refused",
		m.fz0 ? "fz0" : "z0");
	r->nontrivial = rc_m == 0 || nonempty;
	if (r->status == VF_VIOL)
	    goto done;
    }

    /* every getter at every boundary index */
    observe(vdp, &m, r, "", 1);
    if (r->status == VF_VIOL)
	goto done;
    model_key(&m, r, n >= maxdepth(tier));

    /*
     * copy probe: a same-type conversion into a second object (one that
     * held something else) presents the same array through every getter:
     * "conversions interleaved" includes those that leave this object
     * alone and fill another
     */
    {
	vnadata_t *out = vnadata_alloc((vnaerr_error_fn_t *)vf_errfn, &L);
	if (out != NULL && vnadata_init(out, VPT_S, 2, 2, 1) == 0 &&
		vnadata_set_z0(out, 1, 17.0 - 3.0 * I) == 0) {
	    BEGIN();
	    int rc = vnadata_convert(vdp, out,
		    (vnadata_parameter_type_t)m.type);
	    if (want_success(r, "copy-", "vnadata_convert", rc != 0,
			"into a second object, same type"))
		observe(out, &m, r, "copy-", 0);
	}
	vnadata_free(out);
	if (r->status == VF_VIOL)
	    goto done;
    }

    /* regrow probe: expose everything beyond the logical size */
    {
	model_t g = m;
	BEGIN();
	int rc = vnadata_resize(vdp, VPT_UNDEF, RG_R, RG_C, RG_F);
	if (model_resize(&g, VPT_UNDEF, RG_R, RG_C, RG_F) == 0 &&
		want_success(r, "regrow-", "vnadata_resize", rc != 0,
		    "UNDEF,4,4,8"))
	    observe(vdp, &g, r, "regrow-", 0);
    }
done:
    vnadata_free(vdp);
    /*
     * Leak accounting: vf_exec_end() scans the whole allocation table, so
     * it is only called to describe a leak that the live-block counter has
     * already shown.
     */
    if (vf_live_total() != live0)
	vf_exec_end(r, mark);
    r->transitions = ncalls;
    r->states = 1;
}

vf_driver vf_drv = {
    .property = "C15",
    .rule = "history = sequence of operations from the declared alphabet "
	"(init/resize over a dimension grid incl. 0 and refused "
	"combinations, set_type, add_frequency, frequency/cell/matrix/"
	"vector setters and the five z0 setters with indices from {-1,0,"
	"n-1,n,n+1}, in-place conversions), replayed on a fresh object and "
	"on the array model; after the last operation the return value, "
	"errno, error-callback log, every getter at every index from -1 to "
	"n+1, a same-type copy into a second object read through every "
	"getter, and a regrow-to-4x4x8 read-out are compared.  A history is "
	"non-trivial when its last operation succeeded or was refused on a "
	"non-empty object; 'transitions' counts compared library calls; at "
	"the last depth the state key is coarsened to (type, dimensions, "
	"mode) because those states are not extended, so 'states' is a "
	"lower bound",
    .bfs = 1,
    .nops = nops,
    .maxdepth = maxdepth,
    .run_hist = run_hist,
    .op_name = op_name,
};
