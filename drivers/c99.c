/* toy bfs driver to test the frame: two counters mod 3, op2 crashes at (2,2) */
#include <stdio.h>
#include <stdlib.h>
#include "vf.h"
static int nops(int t){(void)t;return 3;}
static int maxdepth(int t){return t?8:5;}
static void run_hist(int tier,const int*ops,int n,vf_result*r){
    int a=0,b=0;(void)tier;
    for(int i=0;i<n;i++){ if(ops[i]==0)a=(a+1)%3; else if(ops[i]==1)b=(b+1)%3; else if(getenv("TOYCRASH")&&a==2&&b==2){ volatile int *p=0; *p=1;} }
    r->transitions=1; r->nontrivial=1; vf_outcome(r,"a%d",a); vf_key_append(r,"%d,%d",a,b);
}
vf_driver vf_drv={.property="C99",.rule="toy",.bfs=1,.nops=nops,.maxdepth=maxdepth,.run_hist=run_hist};
