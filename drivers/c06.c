/*
 * C06: network data survive save and load in Touchstone 1, Touchstone 2 and
 * NPD; cksave, save and fsave agree.
 *
 * Every combination of the declared cross-products is TRIED on the real
 * code; the verdicts of vnadata_cksave / vnadata_save / vnadata_fsave must
 * agree, an accepted file is read by the independent reader
 * (oracle/tsnpd.c) and compared, number by number in the printed domain,
 * with the values the object denotes, and vnadata_load of the file must
 * succeed and agree with the independent reader.
 */
#include <complex.h>
#include <ctype.h>
#include <math.h>
#include <stdio.h>
#include <stdlib.h>
#include <string.h>
#include <unistd.h>
#include <vnaconv.h>
#include <vnadata.h>
#include "vf.h"
#include "tsnpd.h"
#include "c04_table.h"

#define PI 3.14159265358979323846264338327950288
#define MAXP TSNPD_MAXP
#define MAXF TSNPD_MAXF

/* ---- alphabets -------------------------------------------------------- */

static const char *type_name[] = { "?", "S", "T", "U", "Z", "Y", "H", "G",
    "A", "B", "ZIN" };
static const char letters[] = "?STUZYHGAB";

enum { SEL_SNP, SEL_TS, SEL_NPD, SEL_SET_NPD, SEL_SET_TS1, SEL_SET_TS2,
    SEL_PROMOTE, NSEL };
static const char *sel_name[] = { ".sNp", ".ts", ".npd", "set_filetype(NPD)",
    "set_filetype(TS1)", "set_filetype(TS2)", "set_filetype(TS1)+.ts" };

static const char *singles[] = {
    "S", "Sri", "Sma", "SdB", "T", "Tri", "Tma", "TdB", "U", "Uri", "Uma",
    "UdB", "Z", "Zri", "Zma", "ZdB", "Y", "Yri", "Yma", "YdB", "H", "Hri",
    "Hma", "HdB", "G", "Gri", "Gma", "GdB", "A", "Ari", "Ama", "AdB", "B",
    "Bri", "Bma", "BdB", "Zin", "Zinri", "Zinma", "PRC", "PRL", "SRC", "SRL",
    "IL", "RL", "VSWR", "ri", "ma", "dB",
    NULL,		/* vnadata_set_format not called */
    "ZindB",		/* not in the documented table */
};
#define NSTR 49			/* string specifiers usable in lists */
#define NSINGLE 51

static const char *triples[] = {
    "Zri,SdB,Zinma", "Sri,IL,RL", "IL,RL,VSWR", "PRC,PRL,SRC",
    "SRL,Zinri,Zinma", "ri,ma,dB", "Sma,Tma,Uma", "Zri,Yri,Hri",
    "Gri,Ari,Bri", "IL,Sri,IL", "VSWR,RL,SdB", "Yma,IL,Zin", "dB,IL,PRC",
    "Hma,Gma,VSWR", "sri, zMA ,Vswr", "Zin,Zin,Zin", "Bma,ma,Ama",
    "TdB,UdB,SdB", "RL,ri,SRL", "Yri,Zinma,IL",
};
#define NTRIPLE 20

static const int prec_list[] = { 1, 2, 3, 6, 9, 15, 17, VNADATA_MAX_PRECISION };
#define NPREC 8
static const double mag_list[] = { 1.0, 1e-6, 1e6, 1e-12, 1e12 };

static const double freq_list[2][3] = {
    { 1.234567890123e9, 0, 0 },
    { 1.234567890123e6, 2.345678901234e9, 3.3e10 },
};
static const double real_z0[MAXP] = { 50, 75, 25, 100, 60, 30 };
static const double complex cplx_z0[MAXP] = {
    50 + 20 * I, 30 - 40 * I, 75 + 5 * I, 100 - 10 * I, 60 + 15 * I,
    45 - 25 * I
};
static const char *z0_name[] = { "equal-50", "unequal-real", "complex",
    "per-frequency", "equal-49.97310468" };

typedef struct cfg {
    int type;		/* VPT_S .. VPT_ZIN */
    int sel;
    int ports;
    int z0set;
    int nfreq;
    int dc;		/* the sweep starts at 0 Hz */
    int fprec, dprec;	/* 0: leave the default (7 / 6) */
    double mag;
    /* derived */
    int rows;
    double freq[MAXF];
    double complex z0[MAXF][MAXP];
    double complex m[MAXF][MAXP * MAXP];
} cfg_t;

/* ---- conversions (vnaconv; judged by C04) -------------------------------- */

static int conv_matrix(int from, int to, int n, const double complex *in,
	const double complex *z0, double complex *out)
{
    if (from == to) {
	memcpy(out, in, sizeof(double complex) * (size_t)(n * n));
	return 0;
    }
    if (n == 2) {
	for (int i = 0; i < NCONV2; ++i) {
	    const conv2_t *c = &conv2_table[i];
	    if (c->from == from && c->to == to) {
		if (c->has_z0)
		    c->f1((const double complex (*)[2])in,
			    (double complex (*)[2])out, z0);
		else
		    c->f0((const double complex (*)[2])in,
			    (double complex (*)[2])out);
		return 0;
	    }
	}
	return -1;
    }
    /* n-port: S, Z, Y only (indices 0, 3, 4) */
    if (from == 0 && to == 3) vnaconv_stozn(in, out, z0, n);
    else if (from == 0 && to == 4) vnaconv_stoyn(in, out, z0, n);
    else if (from == 3 && to == 0) vnaconv_ztosn(in, out, z0, n);
    else if (from == 4 && to == 0) vnaconv_ytosn(in, out, z0, n);
    else if (from == 3 && to == 4) vnaconv_ztoyn(in, out, n);
    else if (from == 4 && to == 3) vnaconv_ytozn(in, out, n);
    else return -1;
    return 0;
}

static int conv_zin(int from, int n, const double complex *in,
	const double complex *z0, double complex *out)
{
    if (n == 2) {
	zi2_table[from].f((const double complex (*)[2])in, out, z0);
	return 0;
    }
    if (from == 0) vnaconv_stozin(in, out, z0, n);
    else if (from == 3) vnaconv_ztozin(in, out, z0, n);
    else if (from == 4) vnaconv_ytozin(in, out, z0, n);
    else return -1;
    return 0;
}

/* expected matrix of letter index `to' (0..8) at frequency f */
static int expect_matrix(const cfg_t *c, int f, int to, double complex *out)
{
    if (c->type == VPT_ZIN)
	return -1;
    return conv_matrix(c->type - 1, to, c->ports, c->m[f],
	    c->z0[c->z0set == 3 ? f : 0], out);
}

static int expect_zin(const cfg_t *c, int f, double complex *out)
{
    if (c->type == VPT_ZIN) {
	memcpy(out, c->m[f], sizeof(double complex) * (size_t)c->ports);
	return 0;
    }
    return conv_zin(c->type - 1, c->ports, c->m[f],
	    c->z0[c->z0set == 3 ? f : 0], out);
}

/* ---- object construction -------------------------------------------------- */

static void fill_cfg(cfg_t *c)
{
    int n = c->ports;

    c->rows = c->type == VPT_ZIN ? 1 : n;
    for (int f = 0; f < c->nfreq; ++f) {
	double complex s[MAXP * MAXP];

	c->freq[f] = freq_list[c->nfreq == 1 ? 0 : 1][f];
	if (c->dc && f == 0)
	    c->freq[f] = 0.0;	/* a DC point: legal in every file family */
	for (int p = 0; p < n; ++p) {
	    switch (c->z0set) {
	    case 0: c->z0[f][p] = 50.0; break;
	    /* with an odd number of ports (3, 5) the last port has the
	       impedance of the first again */
	    case 1: c->z0[f][p] = c->ports >= 3 && c->ports % 2 == 1 &&
			p == c->ports - 1 ? real_z0[0] : real_z0[p]; break;
	    case 2: c->z0[f][p] = cplx_z0[p]; break;
	    /* equal on all ports (Touchstone 1 can carry it) but needing
	       nine digits: shows with which precision z0 is printed */
	    case 4: c->z0[f][p] = 49.97310468; break;
	    default: c->z0[f][p] = cplx_z0[p] * (1.0 + 0.25 * f); break;
	    }
	}
	/* a well-conditioned, non-reciprocal scattering matrix */
	for (int i = 0; i < n * n; ++i) {
	    s[i] = 0.7 / n * (0.8 * vf_cunit(6000 + (uint64_t)n,
			(uint64_t)(f * 64 + i)) + 0.35 - 0.2 * I);
	    if (i / n == i % n)
		s[i] += 0.15 + 0.1 * I;
	}
	/* entries with special angles in the polar formats: exactly real
	   positive, exactly real negative, exactly imaginary */
	if (f == 0) {
	    s[0] = 0.5;
	    s[n * n - 1] = n > 1 ? -0.25 : 0.5;
	    if (n > 1) {
		s[1] = 0.375 * I;
		s[n] = -0.375 * I;
	    }
	}
	if (c->type == VPT_ZIN) {
	    for (int p = 0; p < n; ++p)
		c->m[f][p] = (40.0 + 15.0 * p + (30.0 - 22.0 * p) * I) *
		    (1.0 + 0.1 * f) * c->mag;
	    if (f == 0)
		c->m[f][0] = 40.0 * c->mag;	/* purely resistive */
	    if (f == 0 && n > 1)
		c->m[f][1] = 25.0 * I * c->mag;	/* purely reactive */
	} else if (c->type == VPT_S) {
	    for (int i = 0; i < n * n; ++i)
		c->m[f][i] = s[i] * c->mag;
	} else if (conv_matrix(0, c->type - 1, n, s,
		    c->z0[c->z0set == 3 ? f : 0], c->m[f]) == 0) {
	    for (int i = 0; i < n * n; ++i)
		c->m[f][i] *= c->mag;
	} else {
	    /* two-port-only type with n != 2: vnadata_init will refuse */
	    for (int i = 0; i < n * n; ++i)
		c->m[f][i] = s[i];
	}
    }
}

static vnadata_t *make_obj(const cfg_t *c, vf_errlog *log)
{
    vnadata_t *vdp = vnadata_alloc((vnaerr_error_fn_t *)vf_errfn, log);

    if (vdp == NULL)
	return NULL;
    if (vnadata_init(vdp, (vnadata_parameter_type_t)c->type, c->rows,
		c->ports, c->nfreq) == -1) {
	vnadata_free(vdp);
	return NULL;
    }
    for (int f = 0; f < c->nfreq; ++f) {
	vnadata_set_frequency(vdp, f, c->freq[f]);
	vnadata_set_matrix(vdp, f, c->m[f]);
    }
    if (c->z0set == 3) {
	for (int f = 0; f < c->nfreq; ++f)
	    vnadata_set_fz0_vector(vdp, f, c->z0[f]);
    } else if (c->z0set != 0) {
	vnadata_set_z0_vector(vdp, c->z0[0]);
    }
    return vdp;
}

static int apply_options(vnadata_t *vdp, const cfg_t *c, const char *fmt,
	int *fmt_rc)
{
    *fmt_rc = 0;
    if (fmt != NULL)
	*fmt_rc = vnadata_set_format(vdp, fmt);
    if (c->fprec && vnadata_set_fprecision(vdp, c->fprec) == -1)
	return -1;
    if (c->dprec && vnadata_set_dprecision(vdp, c->dprec) == -1)
	return -1;
    switch (c->sel) {
    case SEL_SET_NPD:
	return vnadata_set_filetype(vdp, VNADATA_FILETYPE_NPD);
    case SEL_SET_TS1:
    case SEL_PROMOTE:
	return vnadata_set_filetype(vdp, VNADATA_FILETYPE_TOUCHSTONE1);
    case SEL_SET_TS2:
	return vnadata_set_filetype(vdp, VNADATA_FILETYPE_TOUCHSTONE2);
    default:
	return 0;
    }
}

/* ---- tolerances -------------------------------------------------------------- */

static double tol_of(int p)
{
    if (p == VNADATA_MAX_PRECISION)
	return 1e-14;
    return 5.0 * pow(10.0, 1 - p);
}

/* one printed real number against its expected value */
static int num_ok(double a, double e, double tol, double floor_abs)
{
    if (a == e)
	return 1;
    return fabs(a - e) <= tol * fabs(e) + floor_abs;
}

static int angle_ok(double a, double e, double tol)
{
    double d = fabs(a - e);
    if (d > 180.0)
	d = 360.0 - d;
    return d <= tol * 180.0 / PI + 1e-9;
}

/*
 * a printed pair against the complex value it must denote.  direct: the
 * value is the object's own cell (exact in RI at maximum precision);
 * otherwise it went through a conversion and gets a 1e-10 floor.
 */
static int pair_ok(char enc, double a, double b, double complex e, int p,
	int direct)
{
    double tol = tol_of(p);
    double fl = direct ? 0.0 : 1e-10 * cabs(e);

    switch (enc) {
    case 'R':
	if (direct && p == VNADATA_MAX_PRECISION)
	    return a == creal(e) && b == cimag(e);
	/* a component much smaller than the other is only held to the
	   precision of the conversion */
	return num_ok(a, creal(e), tol, fl) && num_ok(b, cimag(e), tol, fl);
    case 'M':
	return num_ok(a, cabs(e), tol, fl) && angle_ok(b, carg(e) * 180.0 / PI,
		tol + (direct ? 0 : 1e-10));
    default:
	return num_ok(a, 20.0 * log10(cabs(e)), tol, 1e-9) &&
	    angle_ok(b, carg(e) * 180.0 / PI, tol + (direct ? 0 : 1e-10));
    }
}

static int close_c(double complex a, double complex b, double tol)
{
    return a == b || cabs(a - b) <= tol * cabs(b);
}

/* ---- one combination ------------------------------------------------------------ */

typedef struct {
    int nforms;
    tsnpd_form form[TSNPD_MAXFORM];	/* parsed by the independent parser */
    int bare[TSNPD_MAXFORM];		/* no parameter letter given */
    int documented;			/* every specifier is in the table */
} fmtinfo_t;

static void parse_fmt(const char *fmt, const cfg_t *c, fmtinfo_t *fi)
{
    char buf[128], *s = buf, *tk;

    memset(fi, 0, sizeof(*fi));
    fi->documented = 1;
    if (fmt == NULL) {
	fi->nforms = 1;
	fi->bare[0] = 1;
	fi->form[0].kind = c->type == VPT_ZIN ? TSNPD_K_ZIN : TSNPD_K_MATRIX;
	fi->form[0].letter = c->type == VPT_ZIN ? 0 : letters[c->type];
	fi->form[0].enc = 'R';
	return;
    }
    snprintf(buf, sizeof(buf), "%s", fmt);
    while ((tk = strsep(&s, ",")) != NULL && fi->nforms < TSNPD_MAXFORM) {
	char t[32];
	size_t k = 0;
	tsnpd_form *f = &fi->form[fi->nforms];

	for (const char *q = tk; *q && k + 1 < sizeof(t); ++q)
	    if (*q != ' ')
		t[k++] = *q;
	t[k] = '\0';
	if (strcasecmp(t, "ri") == 0 || strcasecmp(t, "ma") == 0 ||
		strcasecmp(t, "db") == 0) {
	    memset(f, 0, sizeof(*f));
	    fi->bare[fi->nforms] = 1;
	    f->kind = c->type == VPT_ZIN ? TSNPD_K_ZIN : TSNPD_K_MATRIX;
	    f->letter = c->type == VPT_ZIN ? 0 : letters[c->type];
	    f->enc = (char)(t[0] == 'r' || t[0] == 'R' ? 'R' :
		    t[0] == 'm' || t[0] == 'M' ? 'M' : 'D');
	} else if (tsnpd_parse_spec(t, c->ports, f) != 0) {
	    fi->documented = 0;
	}
	++fi->nforms;
    }
}

static const char *fmt_str(const char *fmt)
{
    return fmt ? fmt : "(none)";
}

#define FAIL(sig, ...) do { vf_fail(r, sig, __VA_ARGS__); goto done; } while (0)

static void dump_file(const char *path)
{
    FILE *fp;
    char ln[1200];
    int n = 0;
    if (!vf_verbose || (fp = fopen(path, "r")) == NULL)
	return;
    vf_note("---- %s", path);
    while (fgets(ln, sizeof(ln), fp) != NULL && n++ < 120) {
	ln[strcspn(ln, "\n")] = '\0';
	vf_note("| %s", ln);
    }
    fclose(fp);
}

static int files_equal(const char *a, const char *b)
{
    FILE *fa = fopen(a, "rb"), *fb = fopen(b, "rb");
    int eq = fa != NULL && fb != NULL;
    while (eq) {
	int ca = getc(fa), cb = getc(fb);
	if (ca != cb)
	    eq = 0;
	if (ca == EOF || cb == EOF)
	    break;
    }
    if (fa) fclose(fa);
    if (fb) fclose(fb);
    return eq;
}

/* check the numbers of one form at frequency f; returns NULL or a reason */
static const char *check_form(const cfg_t *c, const tsnpd_form *fm,
	const double *num, int f, double fr, int p, int normalise, double R,
	char *buf, size_t bufn)
{
    int n = c->ports;
    double complex e[MAXP * MAXP];
    double tol = tol_of(p);

    switch (fm->kind) {
    case TSNPD_K_MATRIX: {
	int to = (int)(strchr(letters, fm->letter) - letters) - 1;
	int direct = (to == c->type - 1) && !normalise;

	if (expect_matrix(c, f, to, e) != 0) {
	    snprintf(buf, bufn, "%c parameters cannot be derived from this "
		    "object, yet the saver wrote them", fm->letter);
	    return buf;
	}
	if (normalise) {
	    for (int i = 0; i < n * n; ++i) {
		switch (fm->letter) {
		case 'Z': e[i] /= R; break;
		case 'Y': e[i] *= R; break;
		case 'H':
		    if (i == 0) e[i] /= R; else if (i == 3) e[i] *= R;
		    break;
		case 'G':
		    if (i == 0) e[i] *= R; else if (i == 3) e[i] /= R;
		    break;
		default: break;
		}
	    }
	    if (fm->letter == 'S' && c->type == VPT_S)
		direct = 1;
	}
	for (int i = 0; i < n * n; ++i) {
	    if (!pair_ok(fm->enc, num[2 * i], num[2 * i + 1], e[i], p,
			direct)) {
		snprintf(buf, bufn, "%c%d%d (%s) printed as %.17g %.17g, "
			"object denotes %.17g%+.17gj", fm->letter, i / n + 1,
			i % n + 1, fm->enc == 'R' ? "ri" : fm->enc == 'M' ?
			"ma" : "dB", num[2 * i], num[2 * i + 1], creal(e[i]),
			cimag(e[i]));
		return buf;
	    }
	}
	return NULL;
    }
    case TSNPD_K_IL:
    case TSNPD_K_RL:
    case TSNPD_K_VSWR: {
	int k = 0;
	if (expect_matrix(c, f, 0, e) != 0) {
	    snprintf(buf, bufn, "S parameters cannot be derived from this "
		    "object");
	    return buf;
	}
	for (int i = 0; i < n * n; ++i) {
	    int diag = i / n == i % n;
	    double want, a = cabs(e[i]);

	    if (fm->kind == TSNPD_K_IL ? diag : !diag)
		continue;
	    if (fm->kind == TSNPD_K_VSWR) {
		want = (1.0 + a) / (1.0 - a);
		if (!num_ok(num[k], want, tol, 1e-10 * fabs(want)) &&
			!(a > 1.0 && num_ok(num[k], -want, tol,
				1e-10 * fabs(want)))) {
		    snprintf(buf, bufn, "VSWR%d printed as %.17g, |S%d%d|=%.17g"
			    " gives %.17g", i / n + 1, num[k], i / n + 1,
			    i / n + 1, a, want);
		    return buf;
		}
	    } else {
		want = -20.0 * log10(a);
		if (!num_ok(num[k], want, tol, 1e-9)) {
		    snprintf(buf, bufn, "%s%d%d printed as %.17g, S gives "
			    "%.17g dB", fm->kind == TSNPD_K_IL ? "IL" : "RL",
			    i / n + 1, i % n + 1, num[k], want);
		    return buf;
		}
	    }
	    ++k;
	}
	return NULL;
    }
    default: {
	int direct = c->type == VPT_ZIN;
	double w = 2.0 * PI * fr;

	if (expect_zin(c, f, e) != 0) {
	    snprintf(buf, bufn, "input impedances cannot be derived from "
		    "this object");
	    return buf;
	}
	for (int i = 0; i < n; ++i) {
	    double complex z = e[i], y = 1.0 / z;
	    double w1, w2;
	    double a = num[2 * i], b = num[2 * i + 1];

	    switch (fm->kind) {
	    case TSNPD_K_ZIN:
		if (pair_ok(fm->enc, a, b, z, p, direct))
		    continue;
		snprintf(buf, bufn, "Zin%d (%s) printed as %.17g %.17g, "
			"object denotes %.17g%+.17gj", i + 1, fm->enc == 'R' ?
			"ri" : "ma", a, b, creal(z), cimag(z));
		return buf;
	    case TSNPD_K_PRC:	/* 1/Z = 1/R + jwC */
		w1 = 1.0 / creal(y); w2 = cimag(y) / w; break;
	    case TSNPD_K_PRL:	/* 1/Z = 1/R + 1/(jwL) */
		w1 = 1.0 / creal(y); w2 = -1.0 / (w * cimag(y)); break;
	    case TSNPD_K_SRC:	/* Z = R + 1/(jwC) */
		w1 = creal(z); w2 = -1.0 / (w * cimag(z)); break;
	    default:		/* Z = R + jwL */
		w1 = creal(z); w2 = cimag(z) / w; break;
	    }
	    /* the printed frequency may be rounded: compare at the object's
	       frequency with the frequency tolerance folded in by the caller */
	    if (!num_ok(a, w1, tol, 1e-10 * fabs(w1)) ||
		    !num_ok(b, w2, tol, 1e-10 * fabs(w2))) {
		static const char *nm[] = { "", "", "PRC", "PRL", "SRC",
		    "SRL" };
		snprintf(buf, bufn, "%s%d printed as %.17g %.17g, Zin "
			"%.17g%+.17gj at %.17g Hz gives %.17g %.17g",
			nm[fm->kind], i + 1, a, b, creal(z), cimag(z), fr, w1,
			w2);
		return buf;
	    }
	}
	return NULL;
    }
    }
}

/* decode a Zin-like form of the file into complex input impedances */
static void decode_zin(const tsnpd_form *fm, const double *num, int n,
	double fr, double complex *out)
{
    double w = 2.0 * PI * fr;
    for (int i = 0; i < n; ++i) {
	double a = num[2 * i], b = num[2 * i + 1];
	switch (fm->kind) {
	case TSNPD_K_ZIN: out[i] = tsnpd_decode(fm->enc, a, b); break;
	case TSNPD_K_PRC: out[i] = 1.0 / (1.0 / a + I * w * b); break;
	case TSNPD_K_PRL: out[i] = 1.0 / (1.0 / a + 1.0 / (I * w * b)); break;
	case TSNPD_K_SRC: out[i] = a + 1.0 / (I * w * b); break;
	default: out[i] = a + I * w * b; break;
	}
    }
}

static void run_combo(const cfg_t *c, const char *fmt, vf_result *r,
	long *n_accept, long *n_reject, long *n_untried)
{
    static tsnpd_net net;
    vf_errlog logA, logB, logC;
    vnadata_t *A = NULL, *B = NULL, *C = NULL;
    fmtinfo_t fi;
    char fname[800], fname2[800], sig[200], why[600];
    int fmt_rcA, fmt_rcB, ck, sv, fs, final_type, is_ts, normalise = 0;
    int fprec = c->fprec ? c->fprec : 7, dprec = c->dprec ? c->dprec : 6;
    int equal_z0 = 1, real_z0_ok = 1, lossless_form = 0;
    FILE *fp;
    double R;

    vf_desc(r, "type=%s sel=%s ports=%d z0=%s nfreq=%d%s format=%s fprec=%d "
	    "dprec=%d mag=%g", type_name[c->type], sel_name[c->sel], c->ports,
	    z0_name[c->z0set], c->nfreq, c->dc ? " from 0 Hz" : "",
	    fmt_str(fmt), c->fprec, c->dprec, c->mag);
    /* an R-L or R-C equivalent divides a reactance by the frequency: at
       0 Hz it is 0/0, nothing can be asked of it */
    if (c->dc && fmt != NULL) {
	char up[64];
	size_t i;
	for (i = 0; fmt[i] != '\0' && i + 1 < sizeof(up); ++i)
	    up[i] = (char)toupper((unsigned char)fmt[i]);
	up[i] = '\0';
	if (strstr(up, "PRC") || strstr(up, "PRL") || strstr(up, "SRC") ||
		strstr(up, "SRL")) {
	    ++*n_untried;
	    return;
	}
    }
    vf_errlog_reset(&logA);
    vf_errlog_reset(&logB);
    vf_errlog_reset(&logC);
    /* file names */
    switch (c->sel) {
    case SEL_SNP:
	snprintf(fname, sizeof(fname), "%s", vf_tmp("c06.sXp"));
	fname[strlen(fname) - 2] = (char)('0' + c->ports);
	break;
    case SEL_TS:
    case SEL_PROMOTE:
	snprintf(fname, sizeof(fname), "%s", vf_tmp("c06.ts"));
	break;
    case SEL_NPD:
	snprintf(fname, sizeof(fname), "%s", vf_tmp("c06.npd"));
	break;
    default:
	snprintf(fname, sizeof(fname), "%s", vf_tmp("c06_data"));
	break;
    }
    snprintf(fname2, sizeof(fname2), "%s", vf_tmp("c06_fsave_out"));

    A = make_obj(c, &logA);
    B = make_obj(c, &logB);
    if (A == NULL || B == NULL) {
	/* dimensions inconsistent with the type: nothing to save */
	if (c->type != VPT_ZIN && c->type != VPT_S && c->type != VPT_Z &&
		c->type != VPT_Y && c->ports != 2) {
	    ++*n_untried;
	    goto done;
	}
	FAIL("harness:init", "cannot build the object: %s",
		logA.count ? logA.msg[0] : "?");
    }
    parse_fmt(fmt, c, &fi);
    if (apply_options(A, c, fmt, &fmt_rcA) == -1 ||
	    apply_options(B, c, fmt, &fmt_rcB) == -1)
	FAIL("harness:options", "precision / filetype setter failed: %s",
		logA.count ? logA.msg[0] : "?");
    r->transitions += 2;
    if (fmt_rcA != fmt_rcB)
	FAIL("nondeterministic:set_format", "vnadata_set_format(\"%s\") "
		"returned %d then %d", fmt_str(fmt), fmt_rcA, fmt_rcB);
    if ((fmt_rcA == 0) != (fi.documented != 0)) {
	snprintf(sig, sizeof(sig), "set_format:%s", fi.documented ?
		"rejects-documented" : "accepts-undocumented");
	FAIL(sig, "vnadata_set_format(\"%s\") returned %d but vnadata(3) %s "
		"this specifier list (%s)", fmt_str(fmt), fmt_rcA,
		fi.documented ? "documents" : "does not document",
		logA.count ? logA.msg[0] : "no message");
    }
    if (fmt_rcA != 0) {
	++*n_untried;
	goto done;
    }

    /* the three verdicts */
    ck = vnadata_cksave(A, fname);
    sv = vnadata_save(A, fname);
    if ((fp = fopen(fname2, "w")) == NULL)
	FAIL("harness:fopen", "cannot create %s", fname2);
    fs = vnadata_fsave(B, fp, fname);
    if (fclose(fp) != 0)
	FAIL("harness:fclose", "fclose failed");
    r->transitions += 3;
    if (ck != sv || sv != fs) {
	snprintf(sig, sizeof(sig), "verdict:cksave=%d,save=%d,fsave=%d", ck,
		sv, fs);
	FAIL(sig, "vnadata_cksave returned %d, vnadata_save %d, "
		"vnadata_fsave %d for %s; messages: %s | %s", ck, sv, fs,
		r->desc, logA.count ? logA.msg[logA.count - 1] : "-",
		logB.count ? logB.msg[logB.count - 1] : "-");
    }

    /* what the documentation lets us predict about the verdict */
    for (int p = 0; p < c->ports; ++p) {
	if (c->z0[0][p] != c->z0[0][0])
	    equal_z0 = 0;
	if (cimag(c->z0[0][p]) != 0.0 || creal(c->z0[0][p]) <= 0.0)
	    real_z0_ok = 0;
    }
    if (c->z0set == 3)
	real_z0_ok = 0;
    switch (c->sel) {
    case SEL_SNP: case SEL_SET_TS1: final_type = TSNPD_TS1; break;
    case SEL_TS: case SEL_SET_TS2: final_type = TSNPD_TS2; break;
    case SEL_PROMOTE:
	final_type = (c->ports > 4 || !equal_z0) ? TSNPD_TS2 : TSNPD_TS1;
	break;
    default: final_type = TSNPD_NPD; break;
    }
    is_ts = final_type != TSNPD_NPD;
    {
	const tsnpd_form *f0 = &fi.form[0];
	int ts_form = fi.nforms == 1 && f0->kind == TSNPD_K_MATRIX &&
	    f0->letter && strchr("SZYHG", f0->letter) != NULL;
	int own = fi.nforms == 1 && (fi.bare[0] ||
		(f0->kind == TSNPD_K_MATRIX && c->type != VPT_ZIN &&
		 f0->letter == letters[c->type]) ||
		(f0->kind == TSNPD_K_ZIN && c->type == VPT_ZIN));

	if (is_ts && !ts_form && sv == 0) {
	    FAIL("verdict:touchstone-accepts-undocumented-format", "saved %s "
		    "although vnadata(3) restricts Touchstone to a single s, "
		    "z, y, h or g specifier", r->desc);
	}
	if (sv != 0 && own && f0->enc != 'D') {
	    int must = 0;
	    if (!is_ts)
		must = 1;
	    else if (ts_form && real_z0_ok && (final_type == TSNPD_TS2 ||
			(c->ports <= 4 && equal_z0)))
		must = 1;
	    if (must)
		FAIL("verdict:rejects-documented-combination", "refused %s: "
			"%s", r->desc, logA.count ? logA.msg[logA.count - 1] :
			"(no message)");
	}
    }
    if (sv != 0) {
	if (logA.count == 0)
	    FAIL("silent:save", "vnadata_save returned -1 without reporting "
		    "an error for %s", r->desc);
	++*n_reject;
	goto done;
    }
    ++*n_accept;

    if (!files_equal(fname, fname2)) {
	dump_file(fname);
	dump_file(fname2);
	FAIL("differ:save-vs-fsave", "vnadata_save and vnadata_fsave wrote "
		"different files for %s", r->desc);
    }

    /* ---- the independent reader ---- */
    if (tsnpd_read(fname, is_ts ? 0 : TSNPD_NPD, c->ports, &net) != 0) {
	dump_file(fname);
	snprintf(sig, sizeof(sig), "file:unreadable:%s", is_ts ? "touchstone" :
		"npd");
	FAIL(sig, "the independent reader cannot read the file written for "
		"%s: %s", r->desc, net.err);
    }
    if (net.filetype != final_type) {
	dump_file(fname);
	FAIL("file:filetype", "file is of type %d, expected %d for %s",
		net.filetype, final_type, r->desc);
    }
    if (net.ports != c->ports || net.nfreq != c->nfreq) {
	dump_file(fname);
	FAIL("file:dimensions", "file says %d ports x %d frequencies for %s",
		net.ports, net.nfreq, r->desc);
    }
    for (int f = 0; f < c->nfreq; ++f) {
	int exact = fprec == VNADATA_MAX_PRECISION;
	if (exact ? net.freq[f] != c->freq[f] :
		!num_ok(net.freq[f], c->freq[f], tol_of(fprec), 0)) {
	    dump_file(fname);
	    FAIL("file:frequency", "frequency %d printed as %.17g, object has "
		    "%.17g (%s)", f, net.freq[f], c->freq[f], r->desc);
	}
    }
    /* reference impedances */
    if ((net.fz0 != 0) != (c->z0set == 3)) {
	dump_file(fname);
	FAIL("file:z0-mode", "per-frequency z0 flag wrong in file for %s",
		r->desc);
    }
    for (int f = 0; f < (net.fz0 ? c->nfreq : 1); ++f) {
	for (int p = 0; p < c->ports; ++p) {
	    double complex got = net.z0[f][p], want = c->z0[f][p];
	    int ok = dprec == VNADATA_MAX_PRECISION ? got == want :
		(num_ok(creal(got), creal(want), tol_of(dprec), 0) &&
		 num_ok(cimag(got), cimag(want), tol_of(dprec), 0));
	    if (!ok) {
		dump_file(fname);
		FAIL("file:z0", "z0 of port %d (frequency %d) printed as "
			"%.17g%+.17gj, object has %.17g%+.17gj (%s)", p + 1, f,
			creal(got), cimag(got), creal(want), cimag(want),
			r->desc);
	    }
	}
    }
    R = creal(c->z0[0][0]);
    if (is_ts) {
	tsnpd_form tf;
	const tsnpd_form *f0 = &fi.form[0];

	if (net.letter != f0->letter || net.enc != f0->enc) {
	    dump_file(fname);
	    FAIL("file:option-line", "option line says %c %c, requested %c %c "
		    "(%s)", net.letter, net.enc, f0->letter, f0->enc, r->desc);
	}
	if (!net.layout_ok) {
	    dump_file(fname);
	    FAIL("file:v1-layout", "Touchstone 1 data lines are not laid out "
		    "as the specification shows (%s)", r->desc);
	}
	if (net.noise_rows)
	    FAIL("file:noise", "file has noise data (%s)", r->desc);
	normalise = final_type == TSNPD_TS1;
	memset(&tf, 0, sizeof(tf));
	tf.kind = TSNPD_K_MATRIX;
	tf.letter = net.letter;
	tf.enc = net.enc;
	for (int f = 0; f < c->nfreq; ++f) {
	    const char *bad = check_form(c, &tf, net.num[f], f, c->freq[f],
		    dprec, normalise, R, why, sizeof(why));
	    if (bad != NULL) {
		dump_file(fname);
		snprintf(sig, sizeof(sig), "file:value:touchstone%d:%c%c",
			final_type, net.letter, net.enc);
		FAIL(sig, "frequency %d: %s%s (%s)", f, bad, normalise ?
			" [normalised to R]" : "", r->desc);
	    }
	}
	lossless_form = 1;
    } else {
	if (!net.magic_ok || !net.legend_ok ||
		net.legend_count != net.fields_per_line) {
	    dump_file(fname);
	    FAIL("file:npd-header", "NPD header: magic %d, field legend %d "
		    "lines (consistent %d) for %d fields per data line (%s)",
		    net.magic_ok, net.legend_count, net.legend_ok,
		    net.fields_per_line, r->desc);
	}
	if (net.fprecision != fprec || net.dprecision != dprec) {
	    dump_file(fname);
	    FAIL("file:npd-precision", "header says fprecision %d dprecision "
		    "%d, object has %d %d (%s)", net.fprecision,
		    net.dprecision, fprec, dprec, r->desc);
	}
	if (net.nforms != fi.nforms) {
	    dump_file(fname);
	    FAIL("file:npd-parameters", "header lists %d parameter forms, %d "
		    "requested (%s)", net.nforms, fi.nforms, r->desc);
	}
	for (int j = 0; j < fi.nforms; ++j) {
	    const tsnpd_form *want = &fi.form[j], *got = &net.form[j];
	    if (want->kind != got->kind || want->letter != got->letter ||
		    want->enc != got->enc) {
		dump_file(fname);
		FAIL("file:npd-parameters", "parameter form %d in the header "
			"is kind %d %c %c, requested kind %d %c %c (%s)", j,
			got->kind, got->letter ? got->letter : '-',
			got->enc ? got->enc : '-', want->kind,
			want->letter ? want->letter : '-',
			want->enc ? want->enc : '-', r->desc);
	    }
	    if (got->kind != TSNPD_K_IL && got->kind != TSNPD_K_RL &&
		    got->kind != TSNPD_K_VSWR)
		lossless_form = 1;
	    for (int f = 0; f < c->nfreq; ++f) {
		const char *bad = check_form(c, got, got->num[f], f,
			c->freq[f], dprec, 0, R, why, sizeof(why));
		if (bad != NULL) {
		    dump_file(fname);
		    snprintf(sig, sizeof(sig), "file:value:npd:kind%d%c",
			    got->kind, got->enc ? got->enc : '-');
		    FAIL(sig, "frequency %d, form %d: %s (%s)", f, j, bad,
			    r->desc);
		}
	    }
	}
    }

    /* ---- saver accepts => loader accepts, and agrees with the reader ---- */
    C = vnadata_alloc((vnaerr_error_fn_t *)vf_errfn, &logC);
    if (C == NULL)
	FAIL("harness:alloc", "vnadata_alloc failed");
    if (c->sel >= SEL_SET_NPD && c->sel <= SEL_SET_TS2) {
	static const vnadata_filetype_t ft[] = { VNADATA_FILETYPE_NPD,
	    VNADATA_FILETYPE_TOUCHSTONE1, VNADATA_FILETYPE_TOUCHSTONE2 };
	vnadata_set_filetype(C, ft[c->sel - SEL_SET_NPD]);
    } else {
	/*
	 * the destination was used before: it holds a file of the other
	 * family (and remembers that file type); the name of the file to
	 * load now says what it is
	 */
	const char *other = vf_tmp(is_ts ? "c06_prev.npd" : "c06_prev.s1p");
	FILE *fp = fopen(other, "w");
	if (fp != NULL) {
	    if (is_ts)
		fputs("#NPD\n#:version 1.0\n#:ports 1\n#:frequencies 1\n"
			"#:parameters Sri\n1e9 0.5 0.25\n", fp);
	    else
		fputs("# Hz S RI R 50\n1e9 0.5 0.25\n", fp);
	    fclose(fp);
	    if (vnadata_load(C, other) != 0)
		FAIL("harness:preload", "could not preload the destination "
			"with %s: %s", other, logC.count ? logC.msg[0] : "");
	    unlink(other);
	    vf_errlog_reset(&logC);
	}
    }
    {
	int lrc = vnadata_load(C, fname);
	int lt, lrows, lcols, lnf, exact_ok;

	++r->transitions;
	if (!lossless_form) {
	    /* only scalar magnitudes in the file: nothing can be rebuilt and
	       the loader says so */
	    if (lrc == 0) {
		dump_file(fname);
		FAIL("load:accepts-scalar-only", "vnadata_load returned 0 for "
			"a file with only IL/RL/VSWR columns (%s)", r->desc);
	    }
	    vf_outcome(r, "scalar-only file: loader refuses");
	    goto done;
	}
	if (lrc != 0) {
	    dump_file(fname);
	    snprintf(sig, sizeof(sig), "load:rejects-saved-file:%s", is_ts ?
		    "touchstone" : "npd");
	    FAIL(sig, "vnadata_load refused the file vnadata_save wrote for "
		    "%s: %s", r->desc, logC.count ? logC.msg[0] :
		    "(no message)");
	}
	lt = (int)vnadata_get_type(C);
	lrows = vnadata_get_rows(C);
	lcols = vnadata_get_columns(C);
	lnf = vnadata_get_frequencies(C);
	if (lnf != c->nfreq || lcols != c->ports ||
		lrows != (lt == VPT_ZIN ? 1 : c->ports)) {
	    dump_file(fname);
	    FAIL("load:dimensions", "loaded %s %d x %d x %d frequencies from "
		    "the file of %s", lt >= 0 && lt <= 10 ? type_name[lt] :
		    "?", lrows, lcols, lnf, r->desc);
	}
	for (int f = 0; f < lnf; ++f) {
	    double lf = vnadata_get_frequency(C, f);
	    const double complex *lz = vnadata_get_fz0_vector(C, f);
	    const double complex *lm = vnadata_get_matrix(C, f);
	    int matched = 0, candidates = 0, all_ri = 1;

	    if (lz == NULL || lm == NULL)
		FAIL("load:getter", "getter failed after load (%s)", r->desc);
	    if (!close_c(lf, net.freq[f], 1e-12) ||
		    (fprec == VNADATA_MAX_PRECISION && lf != c->freq[f])) {
		FAIL("load:frequency", "frequency %d loaded as %.17g, file "
			"says %.17g, object had %.17g (%s)", f, lf,
			net.freq[f], c->freq[f], r->desc);
	    }
	    for (int p = 0; p < c->ports; ++p) {
		double complex want = net.z0[net.fz0 ? f : 0][p];
		if (!close_c(lz[p], want, 1e-12) ||
			(dprec == VNADATA_MAX_PRECISION &&
			 lz[p] != c->z0[c->z0set == 3 ? f : 0][p])) {
		    dump_file(fname);
		    FAIL("load:z0", "z0 of port %d at frequency %d loaded as "
			    "%.17g%+.17gj, file says %.17g%+.17gj (%s)", p + 1,
			    f, creal(lz[p]), cimag(lz[p]), creal(want),
			    cimag(want), r->desc);
		}
	    }
	    /* the loaded parameter must be one of the file's forms */
	    if (is_ts) {
		candidates = lt >= 1 && lt <= 9 && letters[lt] == net.letter;
		all_ri = net.enc == 'R';
		if (candidates) {
		    matched = 1;
		    for (int i = 0; i < c->ports * c->ports; ++i)
			if (!close_c(lm[i], net.data[f][i], 1e-12)) {
			    matched = 0;
			    snprintf(why, sizeof(why), "%c%d%d loaded as "
				    "%.17g%+.17gj, file denotes %.17g%+.17gj",
				    net.letter, i / c->ports + 1,
				    i % c->ports + 1, creal(lm[i]),
				    cimag(lm[i]), creal(net.data[f][i]),
				    cimag(net.data[f][i]));
			    break;
			}
		}
	    } else {
		snprintf(why, sizeof(why), "no form of the file decodes to "
			"the loaded values (first loaded value %.17g%+.17gj)",
			creal(lm[0]), cimag(lm[0]));
		for (int j = 0; j < net.nforms; ++j) {
		    const tsnpd_form *fm = &net.form[j];
		    double complex d[MAXP * MAXP];
		    int cells, ok = 1;

		    if (lt == VPT_ZIN) {
			if (fm->kind == TSNPD_K_MATRIX ||
				fm->kind >= TSNPD_K_IL)
			    continue;
			cells = c->ports;
			decode_zin(fm, fm->num[f], cells, net.freq[f], d);
			if (fm->kind != TSNPD_K_ZIN || fm->enc != 'R')
			    all_ri = 0;
		    } else {
			if (fm->kind != TSNPD_K_MATRIX || lt < 1 || lt > 9 ||
				fm->letter != letters[lt])
			    continue;
			cells = c->ports * c->ports;
			for (int i = 0; i < cells; ++i)
			    d[i] = tsnpd_decode(fm->enc, fm->num[f][2 * i],
				    fm->num[f][2 * i + 1]);
			if (fm->enc != 'R')
			    all_ri = 0;
		    }
		    ++candidates;
		    for (int i = 0; i < cells; ++i)
			if (!close_c(lm[i], d[i], 1e-12))
			    ok = 0;
		    if (ok)
			matched = 1;
		}
	    }
	    if (!candidates) {
		dump_file(fname);
		FAIL("load:type", "loaded parameter type %s is not among the "
			"forms of the file (%s)", lt >= 0 && lt <= 10 ?
			type_name[lt] : "?", r->desc);
	    }
	    if (!matched) {
		dump_file(fname);
		snprintf(sig, sizeof(sig), "load:value:%s", is_ts ?
			(final_type == TSNPD_TS1 ? "touchstone1" :
			 "touchstone2") : "npd");
		FAIL(sig, "frequency %d: %s (%s)", f, why, r->desc);
	    }
	    /* exactness at maximum precision in rectangular form */
	    exact_ok = dprec == VNADATA_MAX_PRECISION && all_ri &&
		lt == c->type && !(normalise && lt != VPT_S);
	    if (exact_ok) {
		int cells = lt == VPT_ZIN ? c->ports : c->ports * c->ports;
		for (int i = 0; i < cells; ++i)
		    if (lm[i] != c->m[f][i]) {
			dump_file(fname);
			FAIL("load:not-exact", "at maximum precision cell %d "
				"of frequency %d came back as %a%+aj, object "
				"had %a%+aj (%s)", i, f, creal(lm[i]),
				cimag(lm[i]), creal(c->m[f][i]),
				cimag(c->m[f][i]), r->desc);
		    }
	    }
	}
    }
    vf_outcome(r, "%s accepted, file and reload agree",
	    final_type == TSNPD_NPD ? "npd" : final_type == TSNPD_TS1 ?
	    "touchstone1" : "touchstone2");

done:
    vnadata_free(A);
    vnadata_free(B);
    vnadata_free(C);
}

static void remove_scratch(int ports)
{
    char nm[32];
    snprintf(nm, sizeof(nm), "c06.s%dp", ports);
    unlink(vf_tmp(nm));
    unlink(vf_tmp("c06.ts"));
    unlink(vf_tmp("c06.npd"));
    unlink(vf_tmp("c06_data"));
    unlink(vf_tmp("c06_fsave_out"));
}

/* ---- case spaces -------------------------------------------------------------- */

/*
 * P1: type x selection x ports x z0 x nfreq [x precision mode]; inside every
 *     single specifier.
 * P2: type x {.npd, .ts} x ports x z0 x first specifier; inside every second
 *     specifier (ordered pairs); thorough: + the fixed triples.
 * P3: type {S, Z, ZIN} x {.sNp, .ts, .npd} x fprecision x dprecision; inside
 *     magnitude x the forms of the object's own type.
 */
static int p1_ports(int tier) { return tier ? 6 : 4; }
static int p1_pm(int tier) { return tier ? 2 : 1; }
static int p2_ports(int tier) { return tier ? 4 : 3; }
static int p2_z0(int tier) { return tier ? 2 : 1; }
static int p3_mags(int tier) { return tier ? 5 : 3; }

static long n_p1(int tier)
{
    return 10L * NSEL * p1_ports(tier) * 4 * 3 * p1_pm(tier);
}
static long n_p2(int tier)
{
    return 10L * 2 * p2_ports(tier) * p2_z0(tier) * (NSTR + (tier ? 1 : 0));
}
static long n_p3(int tier)
{
    (void)tier;
    return 3L * 3 * NPREC * NPREC;
}


/*
 * P4: the object changes its type between two saves.  "If
 * vnadata_set_format() isn't called, vnadata_save() and vnadata_fsave() take
 * the parameter type from the vnadata_t structure": the second file denotes
 * the object as it is then, or the save is refused where the file kind cannot
 * hold the new type.
 */
static long n_p4(void) { return 9L * 9 * 3; }
static void run_p4(long idx, vf_result *r)
{
    static const int sels[3] = { SEL_NPD, SEL_TS, SEL_SNP };
    static const char *const ext[3] = { "c06r1.npd", "c06r1.ts", "c06r1.s2p" };
    static const char *const ext2[3] = { "c06r2.npd", "c06r2.ts",
	"c06r2.s2p" };
    cfg_t c;
    vf_errlog logA, logC;
    vnadata_t *A = NULL, *C = NULL;
    char f1[800], f2[800];
    int from, to, si, sv1, sv2, cv, e2, want2;

    memset(&c, 0, sizeof(c));
    c.mag = 1.0;
    from = vf_digit(&idx, 9) + 1;
    to = vf_digit(&idx, 9) + 1;
    si = vf_digit(&idx, 3);
    c.type = from;
    c.sel = sels[si];
    c.ports = 2;
    c.nfreq = 1;
    fill_cfg(&c);
    vf_desc(r, "P4 retyped: %s 2x2 saved to %s without a format, converted "
	    "in place to %s, saved again", type_name[from], ext[si] + 6,
	    type_name[to]);
    vf_errlog_reset(&logA);
    vf_errlog_reset(&logC);
    snprintf(f1, sizeof(f1), "%s", vf_tmp(ext[si]));
    snprintf(f2, sizeof(f2), "%s", vf_tmp(ext2[si]));
    A = make_obj(&c, &logA);
    C = vnadata_alloc((vnaerr_error_fn_t *)vf_errfn, &logC);
    if (A == NULL || C == NULL)
	FAIL("harness:init", "cannot build the object: %s",
		logA.count ? logA.msg[0] : "?");
    sv1 = vnadata_save(A, f1);
    cv = vnadata_convert(A, A, (vnadata_parameter_type_t)to);
    r->transitions += 2;
    if (cv != 0)
	FAIL("harness:convert", "in-place conversion %s to %s failed: %s",
		type_name[from], type_name[to],
		logA.count ? logA.msg[logA.count - 1] : "?");
    vf_errlog_reset(&logA);
    errno = 0;
    sv2 = vnadata_save(A, f2);
    e2 = errno;
    ++r->transitions;
    want2 = (si == 0 || to == VPT_S || to == VPT_Z || to == VPT_Y ||
	    to == VPT_H || to == VPT_G) ? 0 : -1;
    if (sv2 != want2 || (sv2 == -1 && e2 != EINVAL))
	FAIL("retyped:save", "second vnadata_save (object now %s, first save "
		"as %s returned %d, no format ever set) returned %d errno %d "
		"(%s); %s", type_name[to], type_name[from], sv1, sv2, e2,
		logA.count ? logA.msg[0] : "no message", want2 == 0 ?
		"the file kind holds this type" :
		"Touchstone cannot hold this type");
    if (sv2 == 0) {
	if (vnadata_load(C, f2) != 0)
	    FAIL("retyped:load", "the second file does not load: %s",
		    logC.count ? logC.msg[0] : "?");
	++r->transitions;
	if ((int)vnadata_get_type(C) != to) {
	    dump_file(f2);
	    FAIL("retyped:type", "the object was %s when it was saved the "
		    "second time (no format ever set; the first save, as %s, "
		    "returned %d); the file loads as %s", type_name[to],
		    type_name[from], sv1, type_name[vnadata_get_type(C)]);
	}
	for (int i = 0; i < 2; ++i)
	    for (int j = 0; j < 2; ++j) {
		double complex a = vnadata_get_cell(A, 0, i, j);
		double complex b = vnadata_get_cell(C, 0, i, j);
		if (!(cabs(a - b) <= 1e-4 * (cabs(a) + 1e-3)))
		    FAIL("retyped:value", "cell %d,%d of the second file "
			    "loads as %g%+gj, the object has %g%+gj", i, j,
			    creal(b), cimag(b), creal(a), cimag(a));
	    }
    }
    r->nontrivial = 1;
    r->states = 1;
    vf_outcome(r, "P4 retyped %s", sv2 == 0 ? "saved" : "refused");
done:
    vnadata_free(A);
    vnadata_free(C);
    unlink(f1);
    unlink(f2);
}

static long count(int tier)
{
    return n_p1(tier) + n_p2(tier) + n_p3(tier) + n_p4();
}

static void run(int tier, long idx, vf_result *r)
{
    cfg_t c;
    long acc = 0, rej = 0, untried = 0;
    unsigned long mark = vf_exec_begin();
    const char *space;
    char lastdesc[sizeof(r->desc)];

    if (idx >= n_p1(tier) + n_p2(tier) + n_p3(tier)) {
	run_p4(idx - n_p1(tier) - n_p2(tier) - n_p3(tier), r);
	vf_exec_end(r, mark);
	return;
    }
    memset(&c, 0, sizeof(c));
    c.mag = 1.0;
    if (idx < n_p1(tier)) {
	int pm;
	space = "P1 singles";
	c.type = vf_digit(&idx, 10) + 1;
	c.sel = vf_digit(&idx, NSEL);
	c.ports = vf_digit(&idx, p1_ports(tier)) + 1;
	c.z0set = vf_digit(&idx, 4);
	{
	    int fk = vf_digit(&idx, 3);	/* 1 point, 3 points, 3 from 0 Hz */
	    c.nfreq = fk ? 3 : 1;
	    c.dc = fk == 2;
	}
	pm = vf_digit(&idx, p1_pm(tier));
	if (pm)
	    c.fprec = c.dprec = VNADATA_MAX_PRECISION;
	fill_cfg(&c);
	for (int i = 0; i < NSINGLE && r->status == VF_OK; ++i)
	    run_combo(&c, singles[i], r, &acc, &rej, &untried);
    } else if (idx < n_p1(tier) + n_p2(tier)) {
	int first;
	static const int sels[2] = { SEL_NPD, SEL_TS };
	static const int zs[2] = { 0, 3 };
	space = "P2 lists";
	idx -= n_p1(tier);
	c.type = vf_digit(&idx, 10) + 1;
	c.sel = sels[vf_digit(&idx, 2)];
	c.ports = vf_digit(&idx, p2_ports(tier)) + 1;
	c.z0set = zs[vf_digit(&idx, p2_z0(tier))];
	first = vf_digit(&idx, NSTR + (tier ? 1 : 0));
	c.nfreq = 1;
	fill_cfg(&c);
	if (first < NSTR) {
	    for (int j = 0; j < NSTR && r->status == VF_OK; ++j) {
		char fmt[64];
		snprintf(fmt, sizeof(fmt), "%s,%s", singles[first],
			singles[j]);
		run_combo(&c, fmt, r, &acc, &rej, &untried);
	    }
	} else {
	    for (int j = 0; j < NTRIPLE && r->status == VF_OK; ++j)
		run_combo(&c, triples[j], r, &acc, &rej, &untried);
	}
    } else {
	static const int types[3] = { VPT_S, VPT_Z, VPT_ZIN };
	static const int sels[3] = { SEL_SNP, SEL_TS, SEL_NPD };
	static const char *own[3][7] = {
	    { "Sri", "Sma", "SdB", "IL", "RL", "VSWR", "ma" },
	    { "Zri", "Zma", "ZdB", "ri", NULL, NULL, NULL },
	    { "Zinri", "Zinma", "PRC", "PRL", "SRC", "SRL", "ri" },
	};
	int ti, si;
	space = "P3 numbers";
	idx -= n_p1(tier) + n_p2(tier);
	ti = vf_digit(&idx, 3);
	si = vf_digit(&idx, 3);
	c.type = types[ti];
	c.sel = sels[si];
	c.fprec = prec_list[vf_digit(&idx, NPREC)];
	c.dprec = prec_list[vf_digit(&idx, NPREC)];
	c.ports = 2;
	c.nfreq = 3;
	for (int mi2 = 0; mi2 < 2 * p3_mags(tier) && r->status == VF_OK;
		++mi2) {
	    int mi = mi2 / 2;
	    c.z0set = (mi2 & 1) ? 4 : 0;
	    c.mag = mag_list[mi];
	    /* Touchstone 1 re-normalises Z through S: only the unit
	       magnitude is well conditioned there */
	    if (c.sel == SEL_SNP && c.type == VPT_Z && mi > 0)
		continue;
	    fill_cfg(&c);
	    for (int k = 0; k < 7 && r->status == VF_OK; ++k) {
		if (own[ti][k] == NULL && !(ti == 1 && k == 4))
		    continue;
		run_combo(&c, own[ti][k], r, &acc, &rej, &untried);
	    }
	}
    }
    snprintf(lastdesc, sizeof(lastdesc), "%s", r->desc);
    remove_scratch(c.ports);
    vf_exec_end(r, mark);
    r->nontrivial = acc > 0;
    r->states = acc;
    if (r->status == VF_OK) {
	vf_desc(r, "%s: type=%s sel=%s ports=%d z0=%s nfreq=%d fprec=%d "
		"dprec=%d: %ld accepted and verified, %ld rejected "
		"consistently, %ld not saveable", space, type_name[c.type],
		sel_name[c.sel], c.ports, z0_name[c.z0set], c.nfreq, c.fprec,
		c.dprec, acc, rej, untried);
	vf_outcome(r, "%s %s%s", space, acc ? "some-accepted" : "none-accepted",
		rej ? " some-rejected" : "");
    }
}

vf_driver vf_drv = {
    .property = "C06",
    .rule = "case = one point of P1 (type x file type selection x ports x z0 "
	"x frequencies [x precision mode], all 51 single specifiers inside), "
	"P2 (type x {.npd,.ts} x ports x z0 x first specifier, all 49 second "
	"specifiers / the fixed triples inside) or P3 (own-type forms x 8 "
	"fprecisions x 8 dprecisions, magnitudes inside); every combination "
	"is tried; a case is non-trivial when at least one combination was "
	"accepted by cksave/save/fsave and its file was verified by the "
	"independent reader and reloaded; 'states' counts accepted "
	"combinations, 'transitions' the library calls compared",
    .count = count,
    .run = run,
    .timeout_s = 60,
};
