/*
 * C14: property trees survive YAML export and import unchanged.
 *
 * Enumerates trees built through the public API (vnaproperty_set,
 * vnaproperty_set_subtree, vnaproperty_quote_key) from a declared string
 * alphabet, exports each with vnaproperty_export_yaml_to_file, imports the
 * file again with vnaproperty_import_yaml_from_file and (the same bytes)
 * with vnaproperty_import_yaml_from_string, into an empty root and into a
 * root that already has content ("replacing any existing content"), and
 * compares the canonical digest read back through the public getters
 * (type/count/keys/get/get_subtree) with the reference document.
 *
 * Families (case index ranges in this order):
 *   A  every single scalar of the alphabet, null, {} and [] as the root
 *   B  every map {k: v}, k in alphabet (non-empty), v in alphabet + null
 *   C  every list [v1, v2], v in alphabet + null
 *   D  every tree with <= 4 nodes, depth <= 3 (thorough <= 5 nodes, any
 *      depth) labelled from a 6-string sub-alphabet; leaves: the 6 scalars,
 *      null, {} and []; map keys: every k-subset of the 6 strings
 *   F  thorough: chains of depth 6 of every map/list pattern
 *   E  every string as global property key and value plus a per-calibration
 *      list, through vnacal_save / vnacal_load
 */
#include <errno.h>
#include <stdio.h>
#include <stdlib.h>
#include <string.h>
#include <unistd.h>
#include <vnacal.h>
#include <vnaproperty.h>
#include "archdep.h"
#include "vnacal_internal.h"
#include "vf.h"
#include "pm.h"

/* ------------------------------------------------------------------ */
/* alphabets                                                           */
/* ------------------------------------------------------------------ */
/* long members: lines beyond the emitter's page width (80), with and
   without spaces to break at, with indented continuation lines, and beyond
   the 1024 characters a YAML simple key may have */
#define R10(x) x x x x x x x x x x
static const char *const sigma[] = {
    "", "a", "abc", "a b", " a", "a ", "  ", "a  b",
    "\n", "a\nb", "a\n", "\na", "a\n\nb", " a\nb", "a\n b", "a \nb",
    "\t", "a\tb",
    "~", "null", "Null", "NULL", "true", "yes", "0x1", "1e3", "123", "-1.5",
    ".inf",
    ": ", "a: b", "a:b", "- ", "- a", "-", "#", "a #b", "#a",
    "'", "\"", "a'b", "\"q\"", "'q'",
    "%s", "%d%%",
    "\x01", "\x1b[0m", "a\x7f", "\r", "a\r\nb",
    "\xc2\x85", "a\xc2\x85" "b", "\xe2\x80\xa8", "a\xe2\x80\xa9" "b",
    "\xef\xbb\xbf", "\xef\xbb\xbf" "a",
    "\xc3\xa9", "\xf0\x9f\x98\x80", "\xc3\xa9 \xf0\x9f\x98\x80",
    "{", "}", "[a]", "{a: b}", "*x", "&x", "!t", "|", ">", "?", "? a", ",",
    "\\", "a\\nb", "@", "`", "---", "...", "<<", "=", "a=b", "a.b", "x[0]",
    "0", "a-b",
    R10("lorem ipsum "),
    R10(R10("k")),
    /* lines that do not end in a space (a space before a line break rules
       the block styles out and would hide what they do) */
    R10("word word ") "end\n second line " R10("more text ") "end",
    " lead " R10("word word ") "end\n  indented " R10("more text ") "end\nend",
    "\n   " R10("after a blank first line ") "end\n",
    "first\n  " R10(R10("ab ")) "end\n    deeper " R10(R10("cd ")) "end\nlast",
    R10("nospacesatall") "\n" R10("nospacesatall"),
    R10(R10(R10("k"))) R10(R10("k")),
    R10(R10("eleven ch. ")),
};
#define NS ((int)(sizeof(sigma) / sizeof(sigma[0])))

static const char *const sigma6[6] = {
    "a", "null", ": ", " s ", "l1\nl2", "#\xc3\xa9"
};

/* C0 controls other than tab/newline, and DEL: YAML cannot carry them
   literally; a clean failure is tolerated for these (separate outcome) */
static int has_control(const char *s)
{
    for (; *s; ++s) {
	unsigned char c = (unsigned char)*s;
	if ((c < 0x20 && c != '\t' && c != '\n') || c == 0x7f)
	    return 1;
    }
    return 0;
}
static int tree_has_control(const pm_node *p)
{
    if (p == NULL)
	return 0;
    if (p->str && has_control(p->str))
	return 1;
    for (int i = 0; i < p->n; ++i) {
	if (p->keys && has_control(p->keys[i]))
	    return 1;
	if (tree_has_control(p->kids[i]))
	    return 1;
    }
    return 0;
}

/* ------------------------------------------------------------------ */
/* tree shapes: counting and unranking                                 */
/* ------------------------------------------------------------------ */
#define MAXN 6
#define MAXD 7
static long Ncnt[MAXN + 1][MAXD + 1];		/* exactly n nodes, depth<=d */
static long Fcnt[MAXN + 1][MAXN + 1][MAXD + 1];	/* k trees, m nodes */
static const int C6[7] = { 1, 6, 15, 20, 15, 6, 1 };

static void shape_tables(void)
{
    for (int d = 0; d <= MAXD; ++d) {
	for (int n = 0; n <= MAXN; ++n)
	    Ncnt[n][d] = 0;
	for (int k = 0; k <= MAXN; ++k)
	    for (int m = 0; m <= MAXN; ++m)
		Fcnt[k][m][d] = 0;
	Fcnt[0][0][d] = 1;
	if (d == 0)
	    continue;
	Ncnt[1][d] = 9;
	for (int n = 2; n <= MAXN; ++n)
	    for (int k = 1; k <= n - 1; ++k)
		Ncnt[n][d] += (long)((k <= 6 ? C6[k] : 0) + 1) *
		    Fcnt[k][n - 1][d - 1];
	for (int k = 1; k <= MAXN; ++k)
	    for (int m = k; m <= MAXN; ++m)
		for (int s = 1; s <= m - k + 1; ++s)
		    Fcnt[k][m][d] += Ncnt[s][d] * Fcnt[k - 1][m - s][d];
    }
}

static pm_node *unrank_tree(int n, int d, long r);

static void unrank_seq(int k, int m, int d, long r, pm_node **out)
{
    if (k == 0)
	return;
    for (int s = 1; s <= m - k + 1; ++s) {
	long f = Fcnt[k - 1][m - s][d];
	long blk = Ncnt[s][d] * f;
	if (r < blk) {
	    out[0] = unrank_tree(s, d, r / f);
	    unrank_seq(k - 1, m - s, d, r % f, out + 1);
	    return;
	}
	r -= blk;
    }
    abort();
}

static void unrank_combo(int k, long r, int *idx)
{
    /* r-th k-subset of {0..5} in lexicographic order */
    int start = 0;
    for (int i = 0; i < k; ++i) {
	for (int v = start; v < 6; ++v) {
	    /* subsets with idx[i] = v: C(5 - v, k - i - 1) */
	    int a = 5 - v, b = k - i - 1;
	    long c = 1;
	    if (b > a)
		c = 0;
	    else
		for (int t = 0; t < b; ++t)
		    c = c * (a - t) / (t + 1);
	    if (r < c) {
		idx[i] = v;
		start = v + 1;
		break;
	    }
	    r -= c;
	}
    }
}

static pm_node *unrank_tree(int n, int d, long r)
{
    if (n == 1) {
	if (r < 6) return pm_scalar(sigma6[r]);
	if (r == 6) return NULL;
	return pm_new(r == 7 ? 'm' : 'l');
    }
    for (int k = 1; k <= n - 1; ++k) {
	long f = Fcnt[k][n - 1][d - 1];
	long mb = (k <= 6 ? C6[k] : 0) * f;
	pm_node *kids[MAXN];
	if (r < mb) {
	    int idx[6];
	    pm_node *m = pm_new('m');
	    unrank_combo(k, r / f, idx);
	    unrank_seq(k, n - 1, d - 1, r % f, kids);
	    for (int i = 0; i < k; ++i)
		*pm_map_add(m, sigma6[idx[i]]) = kids[i];
	    return m;
	}
	r -= mb;
	if (r < f) {
	    pm_node *l = pm_new('l');
	    unrank_seq(k, n - 1, d - 1, r, kids);
	    for (int i = 0; i < k; ++i)
		*pm_list_insert(l, l->n) = kids[i];
	    return l;
	}
	r -= f;
    }
    abort();
}

static int shape_nmax(int tier) { return tier ? 5 : 4; }
static int shape_dmax(int tier) { return tier ? 5 : 3; }
static long shape_count(int tier)
{
    long c = 0;
    for (int n = 1; n <= shape_nmax(tier); ++n)
	c += Ncnt[n][shape_dmax(tier)];
    return c;
}
static pm_node *shape_get(int tier, long r)
{
    for (int n = 1; n <= shape_nmax(tier); ++n) {
	long c = Ncnt[n][shape_dmax(tier)];
	if (r < c)
	    return unrank_tree(n, shape_dmax(tier), r);
	r -= c;
    }
    abort();
}

/* chains of depth 6: 5 internal nodes (map/list pattern) over one leaf */
#define NCHAIN (32 * 9)
static pm_node *chain_get(long r)
{
    int pat = (int)(r / 9);
    pm_node *t = unrank_tree(1, 1, r % 9);
    for (int lvl = 4; lvl >= 0; --lvl) {
	pm_node *p;
	if (pat & (1 << lvl)) {
	    p = pm_new('m');
	    *pm_map_add(p, sigma6[lvl]) = t;
	} else {
	    p = pm_new('l');
	    *pm_list_insert(p, 0) = t;
	}
	t = p;
    }
    return t;
}

/* ------------------------------------------------------------------ */
/* case space                                                          */
/* ------------------------------------------------------------------ */
static long nA(void) { return NS + 3; }
static long nB(void) { return (long)(NS - 1) * (NS + 1); }
static long nC(void) { return (long)(NS + 1) * (NS + 1); }
static long nD(int tier) { return shape_count(tier); }
static long nF(int tier) { return tier ? NCHAIN : 0; }
static long nE(void) { return NS; }
/* family L: collections of 1200 members (a shallow tree may be long) */
#define NLARGE 5

static long nG(int tier);
static void init(int tier) { (void)tier; shape_tables(); }

static long count(int tier)
{
    shape_tables();
    return nA() + nB() + nC() + nD(tier) + nF(tier) + nE() + nG(tier) + NLARGE;
}

/* ------------------------------------------------------------------ */
/* building a library tree from a document through the API             */
/* ------------------------------------------------------------------ */
static int build(vnaproperty_t **slot, const pm_node *m, char *why, size_t wn)
{
    if (m == NULL)
	return 0;
    switch (m->kind) {
    case 's':
	if (vnaproperty_set(slot, ".=%s", m->str) != 0) {
	    snprintf(why, wn, "set('.=%s') failed errno=%d", pm_show(m->str),
		    errno);
	    return -1;
	}
	return 0;
    case 'm':
	if (vnaproperty_set_subtree(slot, "{}") == NULL) {
	    snprintf(why, wn, "set_subtree('{}') failed errno=%d", errno);
	    return -1;
	}
	for (int i = 0; i < m->n; ++i) {
	    char *q = vnaproperty_quote_key(m->keys[i]);
	    vnaproperty_t **sub;
	    if (q == NULL) {
		snprintf(why, wn, "quote_key('%s') failed",
			pm_show(m->keys[i]));
		return -1;
	    }
	    sub = vnaproperty_set_subtree(slot, "%s", q);
	    if (sub == NULL) {
		snprintf(why, wn, "set_subtree('%s') failed errno=%d",
			pm_show(q), errno);
		vf_free(q);
		return -1;
	    }
	    vf_free(q);
	    if (build(sub, m->kids[i], why, wn) != 0)
		return -1;
	}
	return 0;
    case 'l':
	if (vnaproperty_set_subtree(slot, "[]") == NULL) {
	    snprintf(why, wn, "set_subtree('[]') failed errno=%d", errno);
	    return -1;
	}
	for (int i = 0; i < m->n; ++i) {
	    vnaproperty_t **sub = vnaproperty_set_subtree(slot, "[%d]", i);
	    if (sub == NULL) {
		snprintf(why, wn, "set_subtree('[%d]') failed errno=%d", i,
			errno);
		return -1;
	    }
	    if (build(sub, m->kids[i], why, wn) != 0)
		return -1;
	}
	return 0;
    }
    abort();
}

static char *read_file(const char *path, size_t *len)
{
    FILE *fp = fopen(path, "rb");
    char *buf;
    long n;
    if (fp == NULL)
	return NULL;
    fseek(fp, 0, SEEK_END);
    n = ftell(fp);
    fseek(fp, 0, SEEK_SET);
    buf = malloc((size_t)n + 1);
    if (fread(buf, 1, (size_t)n, fp) != (size_t)n) {
	free(buf);
	fclose(fp);
	return NULL;
    }
    buf[n] = '\0';
    *len = (size_t)n;
    fclose(fp);
    return buf;
}

static vf_errlog elog;

/*
 * round_trip: the oracle proper.  `root' is the library tree, `model' the
 * document it was built from.
 */
static void round_trip(vf_result *r, const vnaproperty_t *root,
	const pm_node *model, const char *family)
{
    pm_buf want = { 0 }, got = { 0 };
    char why[800];
    const char *path = vf_tmp("c14.yaml");
    FILE *fp;
    char *text = NULL;
    size_t tlen = 0;
    int ctl = tree_has_control(model);
    int rv, e;

    pm_ser(model, &want);

    /* the tree that was built is the document (C13's business, but nothing
       can be judged otherwise) */
    if (pm_walk(root, &got, why, sizeof(why), 0) != 0 ||
	    strcmp(pm_buf_str(&got), pm_buf_str(&want)) != 0) {
	vf_fail(r, "build:tree-differs", "the tree built through the API is "
		"not the intended document: got %.300s want %.300s",
		pm_show(pm_buf_str(&got)), pm_show(pm_buf_str(&want)));
	goto out;
    }

    /* export */
    if ((fp = fopen(path, "wb")) == NULL) {
	vf_fail(r, "harness:fopen", "cannot create %s", path);
	goto out;
    }
    vf_errlog_reset(&elog);
    errno = 0;
    rv = vnaproperty_export_yaml_to_file(root, fp, path,
	    (vnaerr_error_fn_t *)vf_errfn, &elog);
    e = errno;
    fclose(fp);
    ++r->transitions;
    if (rv != 0) {
	if (ctl && rv == -1 && e != 0) {
	    vf_outcome(r, "%s control-char export-refused", family);
	    goto out;
	}
	vf_fail(r, "export:failed", "export returned %d errno=%d (%s) for "
		"document %.300s", rv, e, elog.count ? elog.msg[0] : "no "
		"message", pm_show(pm_buf_str(&want)));
	goto out;
    }
    /* the exported tree itself must be untouched */
    pm_buf_reset(&got);
    if (pm_walk(root, &got, why, sizeof(why), 0) != 0 ||
	    strcmp(pm_buf_str(&got), pm_buf_str(&want)) != 0) {
	vf_fail(r, "export:modified-tree", "export changed the tree: %.300s "
		"-> %.300s", pm_show(pm_buf_str(&want)),
		pm_show(pm_buf_str(&got)));
	goto out;
    }
    if ((text = read_file(path, &tlen)) == NULL) {
	vf_fail(r, "harness:read", "cannot read back %s", path);
	goto out;
    }
    if (strlen(text) != tlen) {
	vf_fail(r, "export:nul-byte", "exported YAML contains a NUL byte");
	goto out;
    }
    if (vf_verbose)
	vf_note("YAML:\n%s", text);

    /* four imports: {file, string} x {empty root, occupied root} */
    for (int v = 0; v < 4; ++v) {
	int from_string = v & 1, occupied = v >> 1;
	vnaproperty_t *in = NULL;
	const char *fn = from_string ? "vnaproperty_import_yaml_from_string" :
	    "vnaproperty_import_yaml_from_file";
	char sig[120];

	if (occupied) {
	    /* content of another kind than the document's root, and of the
	       same kind with a key / index the document does not have */
	    if (model != NULL && model->kind == 'm')
		vnaproperty_set(&in, "old-key[3]=old");
	    else if (model != NULL && model->kind == 'l')
		vnaproperty_set(&in, "[7].old-key=old");
	    else
		vnaproperty_set(&in, "old-key=old");
	}
	vf_errlog_reset(&elog);
	errno = 0;
	if (from_string) {
	    rv = vnaproperty_import_yaml_from_string(&in, text,
		    (vnaerr_error_fn_t *)vf_errfn, &elog);
	    e = errno;
	} else {
	    if ((fp = fopen(path, "rb")) == NULL) {
		vf_fail(r, "harness:fopen", "cannot reopen %s", path);
		vnaproperty_delete(&in, ".");
		goto out;
	    }
	    rv = vnaproperty_import_yaml_from_file(&in, fp, path,
		    (vnaerr_error_fn_t *)vf_errfn, &elog);
	    e = errno;
	    fclose(fp);
	}
	++r->transitions;
	if (rv != 0) {
	    vnaproperty_delete(&in, ".");
	    if (ctl && rv == -1) {
		vf_outcome(r, "%s control-char import-refused", family);
		continue;
	    }
	    snprintf(sig, sizeof(sig), "import:failed:%s", fn);
	    vf_fail(r, sig, "%s returned %d errno=%d (%s) on the YAML the "
		    "library exported for document %.250s; YAML: %.250s", fn,
		    rv, e, elog.count ? elog.msg[0] : "no message",
		    pm_show(pm_buf_str(&want)), pm_show(text));
	    continue;
	}
	pm_buf_reset(&got);
	why[0] = '\0';
	if (pm_walk(in, &got, why, sizeof(why), 0) != 0) {
	    snprintf(sig, sizeof(sig), "import:broken-tree:%s", fn);
	    vf_fail(r, sig, "%s produced an inconsistent tree: %s", fn, why);
	} else if (strcmp(pm_buf_str(&got), pm_buf_str(&want)) != 0) {
	    if (occupied) {
		/* distinguish "did not replace" from "did not reproduce" */
		vnaproperty_t *fresh = NULL;
		pm_buf g2 = { 0 };
		int same_as_fresh = 0;
		if (vnaproperty_import_yaml_from_string(&fresh, text, NULL,
			    NULL) == 0 &&
			pm_walk(fresh, &g2, why, sizeof(why), 0) == 0 &&
			strcmp(pm_buf_str(&g2), pm_buf_str(&want)) == 0)
		    same_as_fresh = 1;
		vnaproperty_delete(&fresh, ".");
		pm_buf_free(&g2);
		if (same_as_fresh) {
		    snprintf(sig, sizeof(sig), "import:not-replaced:%s", fn);
		    vf_fail(r, sig, "%s into a root that already had content "
			    "did not replace it: result %.300s, document "
			    "%.300s", fn, pm_show(pm_buf_str(&got)),
			    pm_show(pm_buf_str(&want)));
		    vnaproperty_delete(&in, ".");
		    continue;
		}
	    }
	    snprintf(sig, sizeof(sig), "roundtrip:%s", fn);
	    vf_fail(r, sig, "%s: tree after import %.300s, document %.300s; "
		    "YAML: %.300s", fn, pm_show(pm_buf_str(&got)),
		    pm_show(pm_buf_str(&want)), pm_show(text));
	}
	vnaproperty_delete(&in, ".");
    }
    if (r->outcome[0] == '\0')
	vf_outcome(r, "%s roundtrip-ok%s", family, ctl ? " control-char" : "");
out:
    free(text);
    unlink(path);
    pm_buf_free(&want);
    pm_buf_free(&got);
}

/* ------------------------------------------------------------------ */
/* vnacal_save / vnacal_load family                                    */
/* ------------------------------------------------------------------ */
static void run_vnacal(int si, vf_result *r)
{
    const char *s = sigma[si];
    const char *path = vf_tmp("c14.vnacal");
    char src[600];
    const char *repo = getenv("VERIF_REPO");
    vnacal_t *vcp, *vcp2 = NULL;
    pm_node *mg, *mc;
    pm_buf want = { 0 }, got = { 0 };
    char why[800];
    int ci, ci2, ctl = has_control(s);
    char *q;

    vf_desc(r, "vnacal_save/vnacal_load: global properties {'%s': '%s', "
	    "n: ~}, calibration properties ['%s', ~, {k: '%s'}]",
	    pm_show(s[0] ? s : "key"), pm_show(s), pm_show(s), pm_show(s));
    snprintf(src, sizeof(src), "%s/src/tests/compat-V2.vnacal",
	    repo ? repo : "/repo");
    vf_errlog_reset(&elog);
    vcp = vnacal_load(src, (vnaerr_error_fn_t *)vf_errfn, &elog);
    if (vcp == NULL || (ci = vnacal_find_calibration(vcp, "default")) < 0) {
	vf_outcome(r, "vnacal fixture-unavailable");
	if (vcp) vnacal_free(vcp);
	return;
    }
    /* documents */
    mg = pm_new('m');
    *pm_map_add(mg, s[0] ? s : "key") = pm_scalar(s);
    *pm_map_add(mg, "n") = NULL;
    mc = pm_new('l');
    *pm_list_insert(mc, 0) = pm_scalar(s);
    *pm_list_insert(mc, 1) = NULL;
    {
	pm_node *k = pm_new('m');
	*pm_map_add(k, "k") = pm_scalar(s);
	*pm_list_insert(mc, 2) = k;
    }
    q = vnaproperty_quote_key(s[0] ? s : "key");
    if (q == NULL ||
	    vnacal_property_set(vcp, -1, "%s=%s", q, s) != 0 ||
	    vnacal_property_set(vcp, -1, "n#") != 0 ||
	    vnacal_property_set(vcp, ci, "[0]=%s", s) != 0 ||
	    vnacal_property_set(vcp, ci, "[1]#") != 0 ||
	    vnacal_property_set(vcp, ci, "[2].k=%s", s) != 0) {
	vf_fail(r, "build:vnacal_property_set", "vnacal_property_set failed "
		"errno=%d", errno);
	goto out;
    }
    r->nontrivial = 1;
    vf_errlog_reset(&elog);
    errno = 0;
    if (vnacal_save(vcp, path) != 0) {
	if (ctl)
	    vf_outcome(r, "vnacal control-char save-refused");
	else
	    vf_fail(r, "vnacal:save-failed", "vnacal_save failed errno=%d "
		    "(%s)", errno, elog.count ? elog.msg[0] : "no message");
	goto out;
    }
    vf_errlog_reset(&elog);
    vcp2 = vnacal_load(path, (vnaerr_error_fn_t *)vf_errfn, &elog);
    r->transitions += 2;
    if (vcp2 == NULL) {
	if (ctl)
	    vf_outcome(r, "vnacal control-char load-refused");
	else
	    vf_fail(r, "vnacal:load-failed", "vnacal_load of the saved file "
		    "failed errno=%d (%s)", errno,
		    elog.count ? elog.msg[0] : "no message");
	goto out;
    }
    ci2 = vnacal_find_calibration(vcp2, "default");
    if (ci2 < 0) {
	vf_fail(r, "vnacal:load-failed", "calibration 'default' missing "
		"after save/load");
	goto out;
    }
    for (int which = 0; which < 2; ++which) {
	vnaproperty_t *t = vnacal_property_get_subtree(vcp2,
		which ? ci2 : -1, ".");
	pm_buf_reset(&want);
	pm_buf_reset(&got);
	pm_ser(which ? mc : mg, &want);
	if (pm_walk(t, &got, why, sizeof(why), 0) != 0)
	    vf_fail(r, "vnacal:broken-tree", "%s properties after load: %s",
		    which ? "calibration" : "global", why);
	else if (strcmp(pm_buf_str(&got), pm_buf_str(&want)) != 0)
	    vf_fail(r, which ? "vnacal:roundtrip-calibration" :
		    "vnacal:roundtrip-global", "%s properties after "
		    "vnacal_save/vnacal_load: %.300s, document %.300s",
		    which ? "calibration" : "global",
		    pm_show(pm_buf_str(&got)), pm_show(pm_buf_str(&want)));
    }
    if (r->outcome[0] == '\0')
	vf_outcome(r, "vnacal roundtrip-ok%s", ctl ? " control-char" : "");
out:
    if (q) vf_free(q);
    if (vcp2) vnacal_free(vcp2);
    vnacal_free(vcp);
    unlink(path);
    pm_free(mg);
    pm_free(mc);
    pm_buf_free(&want);
    pm_buf_free(&got);
}

/*
 * Family G: every tree shape up to the node bound as the global and (the
 * mirror-indexed shape) as the per-calibration property root of a
 * calibration file, through vnacal_save / vnacal_load.  `via_delete' builds
 * each root with one extra map entry or list item first and deletes it
 * again, so that empty collections are also reached the way an application
 * reaches them.
 */
static int g_nmax(int tier) { return tier ? 4 : 3; }
static long nGshape(int tier)
{
    long c = 0;
    for (int n = 1; n <= g_nmax(tier); ++n)
	c += Ncnt[n][3];
    return c;
}
static pm_node *g_get(int tier, long r)
{
    for (int n = 1; n <= g_nmax(tier); ++n) {
	long c = Ncnt[n][3];
	if (r < c)
	    return unrank_tree(n, 3, r);
	r -= c;
    }
    abort();
}
static long nG(int tier) { return 2 * nGshape(tier); }

static int g_build(vnacal_t *vcp, int ci, const pm_node *doc, int via_delete,
	char *why, size_t wn)
{
    vnaproperty_t **rootp = vnacal_property_set_subtree(vcp, ci, ".");
    if (rootp == NULL) {
	snprintf(why, wn, "vnacal_property_set_subtree(ci=%d, '.') failed "
		"errno=%d", ci, errno);
	return -1;
    }
    if (build(rootp, doc, why, wn) != 0)
	return -1;
    if (via_delete && doc != NULL && doc->kind == 'm') {
	if (vnacal_property_set(vcp, ci, "zz-extra=1") != 0 ||
		vnacal_property_delete(vcp, ci, "zz-extra") != 0) {
	    snprintf(why, wn, "set/delete of an extra key failed errno=%d",
		    errno);
	    return -1;
	}
    } else if (via_delete && doc != NULL && doc->kind == 'l') {
	if (vnacal_property_set(vcp, ci, "[%d]=extra", doc->n) != 0 ||
		vnacal_property_delete(vcp, ci, "[%d]", doc->n) != 0) {
	    snprintf(why, wn, "set/delete of an extra item failed errno=%d",
		    errno);
	    return -1;
	}
    }
    return 0;
}

static void run_vnacal_tree(int tier, long idx, vf_result *r)
{
    const long ns = nGshape(tier);
    const int via_delete = idx >= ns;
    const long gi = idx % ns, ci_i = ns - 1 - gi;
    const char *path = vf_tmp("c14g.vnacal");
    char src[600];
    const char *repo = getenv("VERIF_REPO");
    vnacal_t *vcp, *vcp2 = NULL;
    pm_node *doc[2];
    pm_buf want = { 0 }, got = { 0 }, d0 = { 0 }, d1 = { 0 };
    char why[800];
    int ci, ci2, ctl;

    doc[0] = g_get(tier, gi);
    doc[1] = g_get(tier, ci_i);
    ctl = tree_has_control(doc[0]) || tree_has_control(doc[1]);
    pm_ser(doc[0], &d0);
    pm_ser(doc[1], &d1);
    vf_desc(r, "family G: vnacal_save/vnacal_load%s: global properties %.300s"
	    ", calibration properties %.300s",
	    via_delete ? " (roots built with an extra entry that is deleted "
	    "again)" : "", pm_show(pm_buf_str(&d0)), pm_show(pm_buf_str(&d1)));
    pm_buf_free(&d0);
    pm_buf_free(&d1);
    snprintf(src, sizeof(src), "%s/src/tests/compat-V2.vnacal",
	    repo ? repo : "/repo");
    vf_errlog_reset(&elog);
    vcp = vnacal_load(src, (vnaerr_error_fn_t *)vf_errfn, &elog);
    if (vcp == NULL || (ci = vnacal_find_calibration(vcp, "default")) < 0) {
	vf_outcome(r, "vnacal fixture-unavailable");
	if (vcp) vnacal_free(vcp);
	pm_free(doc[0]);
	pm_free(doc[1]);
	return;
    }
    /* the fixture's own properties go away first */
    (void)vnacal_property_delete(vcp, -1, ".");
    (void)vnacal_property_delete(vcp, ci, ".");
    if (g_build(vcp, -1, doc[0], via_delete, why, sizeof(why)) != 0 ||
	    g_build(vcp, ci, doc[1], via_delete, why, sizeof(why)) != 0) {
	vf_fail(r, "build:vnacal", "%s", why);
	goto out;
    }
    /*
     * A second calibration that never had a property, saved after the one
     * that has: what the first one carries must not reach it.
     */
    {
	vnacal_layout_t vl;
	vnacal_calibration_t *cal;

	_vnacal_layout(&vl, VNACAL_T8, 1, 1);
	cal = _vnacal_calibration_alloc(vcp, VNACAL_T8, 1, 1, 2,
		VL_ERROR_TERMS(&vl));
	if (cal == NULL) {
	    vf_fail(r, "build:vnacal", "calibration allocation failed");
	    goto out;
	}
	cal->cal_frequency_vector[0] = 1.0e9;
	cal->cal_frequency_vector[1] = 2.0e9;
	for (int t = 0; t < VL_ERROR_TERMS(&vl); ++t)
	    for (int f = 0; f < 2; ++f)
		cal->cal_error_term_vector[t][f] = t % 3 == 0 ? 1.0 : 0.01;
	cal->cal_z0 = 50.0;
	if (_vnacal_add_calibration_common("c14", vcp, cal, "bare") == -1) {
	    _vnacal_calibration_free(cal);
	    vf_fail(r, "build:vnacal", "adding the bare calibration failed");
	    goto out;
	}
    }
    /* what was built is the document */
    for (int which = 0; which < 2; ++which) {
	pm_buf_reset(&want);
	pm_buf_reset(&got);
	pm_ser(doc[which], &want);
	if (pm_walk(vnacal_property_get_subtree(vcp, which ? ci : -1, "."),
		    &got, why, sizeof(why), 0) != 0 ||
		strcmp(pm_buf_str(&got), pm_buf_str(&want)) != 0) {
	    vf_fail(r, "build:tree-differs", "the %s tree built through the "
		    "API is not the intended document: got %.300s want %.300s",
		    which ? "calibration" : "global",
		    pm_show(pm_buf_str(&got)), pm_show(pm_buf_str(&want)));
	    goto out;
	}
    }
    r->nontrivial = 1;
    r->states = pm_count_nodes(doc[0]) + pm_count_nodes(doc[1]);
    vf_errlog_reset(&elog);
    errno = 0;
    if (vnacal_save(vcp, path) != 0) {
	if (ctl)
	    vf_outcome(r, "G control-char save-refused");
	else
	    vf_fail(r, "vnacal:save-failed", "vnacal_save failed errno=%d "
		    "(%s)", errno, elog.count ? elog.msg[0] : "no message");
	goto out;
    }
    vf_errlog_reset(&elog);
    vcp2 = vnacal_load(path, (vnaerr_error_fn_t *)vf_errfn, &elog);
    r->transitions += 2;
    if (vcp2 == NULL) {
	if (ctl)
	    vf_outcome(r, "G control-char load-refused");
	else
	    vf_fail(r, "vnacal:load-failed", "vnacal_load of the saved file "
		    "failed errno=%d (%s)", errno,
		    elog.count ? elog.msg[0] : "no message");
	goto out;
    }
    ci2 = vnacal_find_calibration(vcp2, "default");
    if (ci2 < 0) {
	vf_fail(r, "vnacal:load-failed", "calibration 'default' missing "
		"after save/load");
	goto out;
    }
    for (int which = 0; which < 2; ++which) {
	vnaproperty_t *t = vnacal_property_get_subtree(vcp2,
		which ? ci2 : -1, ".");
	pm_buf_reset(&want);
	pm_buf_reset(&got);
	pm_ser(doc[which], &want);
	if (pm_walk(t, &got, why, sizeof(why), 0) != 0)
	    vf_fail(r, "vnacal:broken-tree", "%s properties after load: %s",
		    which ? "calibration" : "global", why);
	else if (strcmp(pm_buf_str(&got), pm_buf_str(&want)) != 0)
	    vf_fail(r, which ? "vnacal:roundtrip-calibration" :
		    "vnacal:roundtrip-global", "%s properties after "
		    "vnacal_save/vnacal_load: %.300s, document %.300s",
		    which ? "calibration" : "global",
		    pm_show(pm_buf_str(&got)), pm_show(pm_buf_str(&want)));
	/* the getters agree with the document's root kind */
	else {
	    int ty = vnacal_property_type(vcp2, which ? ci2 : -1, ".");
	    int cn = vnacal_property_count(vcp2, which ? ci2 : -1, ".");
	    const pm_node *dn = doc[which];
	    int wty = dn == NULL ? -1 : dn->kind;
	    int wcn = dn == NULL || dn->kind == 's' ? -1 : dn->n;
	    if (ty != wty || cn != wcn)
		vf_fail(r, "vnacal:root-kind", "%s root after load: type "
			"%d ('%c') count %d, document type '%c' count %d",
			which ? "calibration" : "global", ty,
			ty > 0 ? ty : '-', cn, wty > 0 ? wty : '-', wcn);
	}
    }
    {
	int cib = vnacal_find_calibration(vcp2, "bare");
	vnaproperty_t *t;

	if (cib < 0)
	    vf_fail(r, "vnacal:load-failed", "calibration 'bare' missing "
		    "after save/load");
	else if ((t = vnacal_property_get_subtree(vcp2, cib, ".")) != NULL ||
		vnacal_property_type(vcp2, cib, ".") != -1) {
	    pm_buf_reset(&got);
	    (void)pm_walk(t, &got, why, sizeof(why), 0);
	    vf_fail(r, "vnacal:roundtrip-bare-calibration", "a calibration "
		    "that never had a property has %.300s after "
		    "vnacal_save/vnacal_load", pm_show(pm_buf_str(&got)));
	}
    }
    if (r->outcome[0] == '\0')
	vf_outcome(r, "G roundtrip-ok%s%s", ctl ? " control-char" : "",
		via_delete ? " via-delete" : "");
out:
    if (vcp2) vnacal_free(vcp2);
    vnacal_free(vcp);
    unlink(path);
    pm_free(doc[0]);
    pm_free(doc[1]);
    pm_buf_free(&want);
    pm_buf_free(&got);
}

/* ------------------------------------------------------------------ */
/* case runner                                                         */
/* ------------------------------------------------------------------ */
static const char *sval(int i) { return i < NS ? sigma[i] : NULL; }

static void run(int tier, long idx, vf_result *r)
{
    pm_node *model = NULL;
    vnaproperty_t *root = NULL;
    const char *family;
    char why[400];
    unsigned long mark;
    pm_buf d = { 0 };
    int built_by_set = 0;

    if (Ncnt[1][1] == 0)
	shape_tables();
    if (idx < nA()) {
	family = "A";
	if (idx < NS) model = pm_scalar(sigma[idx]);
	else if (idx == NS) model = NULL;
	else model = pm_new(idx == NS + 1 ? 'm' : 'l');
    } else if ((idx -= nA()) < nB()) {
	int k = 1 + (int)(idx / (NS + 1)), v = (int)(idx % (NS + 1));
	family = "B";
	model = pm_new('m');
	*pm_map_add(model, sigma[k]) = sval(v) ? pm_scalar(sval(v)) : NULL;
	built_by_set = 1;
    } else if ((idx -= nB()) < nC()) {
	int a = (int)(idx / (NS + 1)), b = (int)(idx % (NS + 1));
	family = "C";
	model = pm_new('l');
	*pm_list_insert(model, 0) = sval(a) ? pm_scalar(sval(a)) : NULL;
	*pm_list_insert(model, 1) = sval(b) ? pm_scalar(sval(b)) : NULL;
    } else if ((idx -= nC()) < nD(tier)) {
	family = "D";
	model = shape_get(tier, idx);
    } else if ((idx -= nD(tier)) < nF(tier)) {
	family = "F";
	model = chain_get(idx);
    } else if (idx - nF(tier) >= nE() + nG(tier)) {
	char b[24];
	idx -= nF(tier) + nE() + nG(tier);
	family = "L";
	if (idx == 0 || idx == 3) {
	    model = pm_new('l');
	    for (int i = 0; i < 1200; ++i) {
		snprintf(b, sizeof(b), "e%d", i);
		*pm_list_insert(model, i) = idx == 3 && (i % 3) ? NULL :
		    pm_scalar(b);
	    }
	} else if (idx == 1) {
	    pm_node *l = pm_new('l');
	    model = pm_new('m');
	    for (int i = 0; i < 1200; ++i) {
		snprintf(b, sizeof(b), "e%d", i);
		*pm_list_insert(l, i) = pm_scalar(b);
	    }
	    *pm_map_add(model, "items") = l;
	    *pm_map_add(model, "n") = pm_scalar("1200");
	} else if (idx == 2) {
	    model = pm_new('m');
	    for (int i = 0; i < 1200; ++i) {
		snprintf(b, sizeof(b), "k%d", i);
		*pm_map_add(model, b) = pm_scalar(b + 1);
	    }
	} else {
	    model = pm_new('l');
	    for (int i = 0; i < 40; ++i) {
		pm_node *l = pm_new('l');
		for (int j = 0; j < 40; ++j) {
		    snprintf(b, sizeof(b), "%d.%d", i, j);
		    *pm_list_insert(l, j) = pm_scalar(b);
		}
		*pm_list_insert(model, i) = l;
	    }
	}
    } else {
	idx -= nF(tier);
	if (idx < nE())
	    run_vnacal((int)idx, r);
	else
	    run_vnacal_tree(tier, idx - nE(), r);
	return;
    }
    pm_ser(model, &d);
    vf_desc(r, "family %s: document %.600s", family, pm_show(pm_buf_str(&d)));
    pm_buf_free(&d);

    mark = vf_exec_begin();
    if (built_by_set) {
	/* the (key, value) family goes through vnaproperty_set directly */
	char *q = vnaproperty_quote_key(model->keys[0]);
	int rv;
	if (q == NULL) {
	    vf_fail(r, "build:quote_key", "quote_key failed");
	    pm_free(model);
	    return;
	}
	if (model->kids[0] != NULL)
	    rv = vnaproperty_set(&root, "%s=%s", q, model->kids[0]->str);
	else
	    rv = vnaproperty_set(&root, "%s#", q);
	if (rv != 0)
	    vf_fail(r, "build:vnaproperty_set", "set('%s=...') failed "
		    "errno=%d", pm_show(q), errno);
	vf_free(q);
    } else if (build(&root, model, why, sizeof(why)) != 0) {
	vf_fail(r, "build:api", "%s", why);
    }
    if (r->status == VF_OK) {
	r->nontrivial = 1;
	r->states = pm_count_nodes(model);
	round_trip(r, root, model, family);
    }
    vnaproperty_delete(&root, ".");
    vf_exec_end(r, mark);
    pm_free(model);
}

vf_driver vf_drv = {
    .property = "C14",
    .rule = "case = one document (family A: single scalar/null/{}/[]; B: "
	"{k: v} over the string alphabet squared; C: [v1, v2]; D: every tree "
	"shape up to the node bound labelled from the 6-string sub-alphabet; "
	"F: depth-6 chains; E: vnacal_save/vnacal_load with the string as "
	"global and per-calibration property; G: every tree shape of at most "
	"3 (thorough 4) nodes as global and per-calibration property root "
	"through vnacal_save/vnacal_load, built directly and built with an "
	"extra entry that is deleted again); non-trivial when the tree was "
	"built through the API, read back equal to the document, exported, "
	"and the digest after import was compared for both import entry "
	"points (into an empty and into an occupied root); 'states' counts "
	"document nodes, 'transitions' export/import calls",
    .count = count,
    .run = run,
    .init = init,
    .timeout_s = 60,
};
