/*
 * C07: calibration files round-trip: vnacal_save then vnacal_load gives an
 * equivalent vnacal_t.
 *
 * Enum mode, five sections:
 *   S1 shapes     type x dims x frequencies x z0 x {default, MAX} precision
 *   S2 sweeps     fprecision 1..40,MAX and dprecision 1..40,MAX on two
 *                 small calibrations (other precision at its default)
 *   S3 corners    6x6 (fprecision x dprecision) grid on every type, 2x2
 *   S4 histories  every add(a|b|c)/delete(0|1|2) history up to a length on
 *                 the container, with global and per-calibration property
 *                 payloads, then save/load
 *   S5 legacy     the checked-in "#VNACAL 2.0" file; E12 calibrations written
 *                 by this driver in "#VNACAL 2.0" syntax; "#VNACAL 3.0"
 *
 * Oracle: differential, loaded object vs original object through every
 * vnacal_get_* accessor, a recursive vnacal_property_* digest, the error
 * term vectors (internal header) and vnacal_apply_m of a simulated DUT
 * measurement (oracle/calsim.c).  Every loaded object is saved again and
 * that file loaded: the second generation must equal the first.
 */
#include <complex.h>
#include <errno.h>
#include <float.h>
#include <math.h>
#include <stdio.h>
#include <stdlib.h>
#include <string.h>
#include <unistd.h>
#include <vnacal.h>
#include "archdep.h"
#include "vnacal_internal.h"
#include "vf.h"
#include "calsim.h"

static const vnacal_type_t types[8] = {
    VNACAL_T8, VNACAL_U8, VNACAL_TE10, VNACAL_UE10,
    VNACAL_T16, VNACAL_U16, VNACAL_UE14, VNACAL_E12
};
static const int dimlist[6][2] = {	/* rows<=cols; transposed for U/E */
    {1,1},{2,2},{3,3},{1,2},{1,3},{2,3}
};
/* many significant digits, and still strictly ascending at one digit */
static const double fgrid[3] = {
    1.23456789012345e9, 2.34567890123456e9, 4.56789012345678e9
};
static const double complex z0_alpha[2] = { 50.0, 75.0 - 5.0 * I };

#define DOC_FPREC 7		/* vnacal(3): default frequency precision */
#define DOC_DPREC 6		/* vnacal(3): default data precision */

static bool is_t(vnacal_type_t t)
{
    return t == VNACAL_T8 || t == VNACAL_TE10 || t == VNACAL_T16;
}

/* ------------------------------------------------------------------ */
/* building calibrations                                               */

typedef struct {
    vnacal_type_t type;
    int rows, cols, nf, z0i, net;
} spec_t;

/* section S6: synthetic terms of a chosen magnitude for every shape */
static int g_force_synth;
static double g_synth_mag = 1.0;
static int g_synth_negzero;
static double complex mkc(double re, double im)
{
    double complex z;
    ((double *)&z)[0] = re;
    ((double *)&z)[1] = im;
    return z;
}

/* returns 0 added (solved), 1 added with synthetic terms, -1 violation */
static int add_cal(vf_result *r, vnacal_t *vcp, vf_errlog *elog,
	const spec_t *sp, const char *name, cs_scenario *sc)
{
    long double margin;
    int eqs, unk;
    const char *tn = vnacal_type_to_name(sp->type);
    char sig[100];

    int recipe;
    for (recipe = 0; recipe < 2; ++recipe) {
	memset(sc, 0, sizeof(*sc));
	cs_make_vna_f(&sc->vna, sp->type, sp->rows, sp->cols, sp->nf, fgrid,
		sp->net);
	if (cs_recipe(sc, recipe, 0, 0, 0, 0) != 0)
	    continue;
	if (cs_identifiable(sc, (1u << sc->nstd) - 1u, &margin, &eqs, &unk) &&
		margin >= 1e-5L)
	    break;
    }
    if (g_force_synth)
	recipe = 2;
    if (recipe == 2) {
	/*
	 * No determining recipe for this shape: store synthetic error terms
	 * directly (internal interface); save/load does not care where the
	 * terms come from.  No apply comparison for these.
	 */
	vnacal_layout_t vl;
	_vnacal_layout(&vl, sp->type, sp->rows, sp->cols);
	vnacal_calibration_t *cal = _vnacal_calibration_alloc(vcp, sp->type,
		sp->rows, sp->cols, sp->nf, VL_ERROR_TERMS(&vl));
	if (cal == NULL) {
	    vf_fail(r, "setup:calibration-alloc", "allocation failed");
	    return -1;
	}
	for (int f = 0; f < sp->nf; ++f)
	    cal->cal_frequency_vector[f] = fgrid[f];
	for (int t = 0; t < VL_ERROR_TERMS(&vl); ++t)
	    for (int f = 0; f < sp->nf; ++f)
	    {
		double complex v =
		    vf_cunit(7700 + (uint64_t)sp->type, (uint64_t)(t * 8 + f))
		    * (t % 3 == 0 ? 1.0 : 1e-3) * g_synth_mag;
		/* parts that are a negative zero */
		if (g_synth_negzero)
		    v = (t + f) % 3 == 0 ? mkc(-0.0, cimag(v)) :
			(t + f) % 3 == 1 ? mkc(creal(v), -0.0) :
			t % 2 ? mkc(-0.0, -0.0) : mkc(-0.0, -cimag(v));
		cal->cal_error_term_vector[t][f] = v;
	    }
	cal->cal_z0 = z0_alpha[sp->z0i];
	if (_vnacal_add_calibration_common("c07", vcp, cal, name) == -1) {
	    _vnacal_calibration_free(cal);
	    vf_fail(r, "setup:add-calibration", "add failed");
	    return -1;
	}
	return 1;
    }
    if (cs_make_params(vcp, sc) != 0) {
	vf_fail(r, "setup:make-param", "parameter creation failed");
	return -1;
    }
    vnacal_new_t *vnp = cs_build(vcp, sc);
    if (vnp == NULL || vnacal_new_set_z0(vnp, z0_alpha[sp->z0i]) != 0) {
	snprintf(sig, sizeof(sig), "setup:add-rejected:%s", tn);
	vf_fail(r, sig, "standard rejected: %s", elog->count ?
		elog->msg[0] : "");
	cs_delete_params(vcp, sc);
	return -1;
    }
    if (vnacal_new_solve(vnp) != 0) {
	snprintf(sig, sizeof(sig), "setup:solve-failed:%s", tn);
	vf_fail(r, sig, "vnacal_new_solve failed on a determining set: %s",
		elog->count ? elog->msg[0] : "");
	vnacal_new_free(vnp);
	cs_delete_params(vcp, sc);
	return -1;
    }
    int ci = vnacal_add_calibration(vcp, name, vnp);
    vnacal_new_free(vnp);
    cs_delete_params(vcp, sc);
    if (ci < 0) {
	vf_fail(r, "setup:add-calibration", "vnacal_add_calibration failed: "
		"%s", elog->count ? elog->msg[0] : "");
	return -1;
    }
    r->transitions += sc->nstd + 3;
    return 0;
}

/* ------------------------------------------------------------------ */
/* property digest through the vnacal_property_* functions              */

typedef struct { char s[6000]; size_t n; } sbuf;

static void sb_add(sbuf *b, const char *fmt, ...)
{
    va_list ap;
    if (b->n >= sizeof(b->s) - 1)
	return;
    va_start(ap, fmt);
    int k = vsnprintf(b->s + b->n, sizeof(b->s) - b->n, fmt, ap);
    va_end(ap);
    if (k > 0)
	b->n += (size_t)k < sizeof(b->s) - b->n ? (size_t)k :
	    sizeof(b->s) - b->n - 1;
}

static void digest(vnacal_t *vcp, int ci, const char *path, sbuf *b,
	int depth)
{
    int t = vnacal_property_type(vcp, ci, "%s", path);
    char child[400];

    if (depth > 8) {
	sb_add(b, "<deep>");
	return;
    }
    switch (t) {
    case 'm': {
	int n = vnacal_property_count(vcp, ci, "%s", path);
	const char **keys = vnacal_property_keys(vcp, ci, "%s", path);
	sb_add(b, "{#%d ", n);
	if (keys == NULL) {
	    sb_add(b, "<keys=NULL>}");
	    return;
	}
	for (int i = 0; keys[i] != NULL; ++i) {
	    /* the key as stored; the path needs it quoted */
	    char *q = vnaproperty_quote_key(keys[i]);
	    sb_add(b, "%s:", keys[i]);
	    if (q == NULL) {
		sb_add(b, "<quote_key=NULL>,");
		continue;
	    }
	    if (strcmp(path, ".") == 0)
		snprintf(child, sizeof(child), "%s", q);
	    else
		snprintf(child, sizeof(child), "%s.%s", path, q);
	    vf_free(q);
	    digest(vcp, ci, child, b, depth + 1);
	    sb_add(b, ",");
	}
	vf_free((void *)keys);
	sb_add(b, "}");
	return;
    }
    case 'l': {
	int n = vnacal_property_count(vcp, ci, "%s", path);
	sb_add(b, "[#%d ", n);
	for (int i = 0; i < n; ++i) {
	    if (strcmp(path, ".") == 0)
		snprintf(child, sizeof(child), "[%d]", i);
	    else
		snprintf(child, sizeof(child), "%s[%d]", path, i);
	    digest(vcp, ci, child, b, depth + 1);
	    sb_add(b, ",");
	}
	sb_add(b, "]");
	return;
    }
    case 's': {
	const char *v = vnacal_property_get(vcp, ci, "%s", path);
	if (v == NULL)
	    sb_add(b, "<get=NULL>");
	else
	    sb_add(b, "\"%s\"(%zu)", v, strlen(v));
	return;
    }
    default:
	sb_add(b, "~");
	return;
    }
}

/* ------------------------------------------------------------------ */
/* comparison                                                          */

typedef struct {
    double tol_f;		/* relative, 0 = bit-exact */
    double tol_d;
    const char *tag;		/* gen1 / gen2 / v2 / v3 */
} cmp_t;

static double prec_tol(int p)
{
    if (p == VNACAL_MAX_PRECISION)
	return 0.0;
    double t = pow(10.0, 1.0 - p);
    return t < 4 * DBL_EPSILON ? 4 * DBL_EPSILON : t;
}

static bool near_rel(double a, double b, double tol)
{
    if (tol == 0.0)	/* bit-exact: the sign of a zero counts */
	return memcmp(&a, &b, sizeof(a)) == 0;
    return fabs(a - b) <= tol * fabs(a);
}

static bool cnear(double complex a, double complex b, double tol)
{
    return near_rel(creal(a), creal(b), tol) &&
	near_rel(cimag(a), cimag(b), tol);
}

/* list the live indices in ascending order */
static int live_list(vnacal_t *vcp, int *idx, int max)
{
    int n = 0, end = vnacal_get_calibration_end(vcp);
    for (int ci = 0; ci < end && n < max; ++ci)
	if (vnacal_get_name(vcp, ci) != NULL)
	    idx[n++] = ci;
    return n;
}

#define FAIL(sigfmt, ...) do { \
	char sig_[160]; \
	snprintf(sig_, sizeof(sig_), sigfmt, c->tag); \
	vf_fail(r, sig_, __VA_ARGS__); \
	return -1; } while (0)

static int compare_objects(vf_result *r, vnacal_t *A, vnacal_t *B,
	const cmp_t *c)
{
    int ia[16], ib[16];
    int na = live_list(A, ia, 16), nb = live_list(B, ib, 16);
    static sbuf da, db;

    if (na != nb)
	FAIL("%s:count", "%d calibrations saved, %d loaded", na, nb);
    da.n = db.n = 0;
    da.s[0] = db.s[0] = '\0';
    digest(A, -1, ".", &da, 0);
    digest(B, -1, ".", &db, 0);
    r->transitions += 2;
    if (strcmp(da.s, db.s) != 0)
	FAIL("%s:global-properties", "global property tree differs: saved "
		"%.300s loaded %.300s", da.s, db.s);
    for (int k = 0; k < na; ++k) {
	int a = ia[k], b = ib[k];
	const char *nma = vnacal_get_name(A, a), *nmb = vnacal_get_name(B, b);
	vnacal_calibration_t *ca, *cb;

	r->transitions += 12;
	if (strcmp(nma, nmb) != 0)
	    FAIL("%s:name-order", "calibration #%d in index order is \"%s\" "
		    "(index %d) in the saved object but \"%s\" (index %d) in "
		    "the loaded one", k, nma, a, nmb, b);
	if (vnacal_find_calibration(B, nma) != b)
	    FAIL("%s:find", "vnacal_find_calibration(\"%s\") on the loaded "
		    "object = %d, get_name has it at %d", nma,
		    vnacal_find_calibration(B, nma), b);
	if (vnacal_get_type(A, a) != vnacal_get_type(B, b))
	    FAIL("%s:type", "\"%s\": type %s saved, %s loaded", nma,
		    vnacal_type_to_name(vnacal_get_type(A, a)),
		    vnacal_type_to_name(vnacal_get_type(B, b)));
	if (vnacal_get_rows(A, a) != vnacal_get_rows(B, b) ||
		vnacal_get_columns(A, a) != vnacal_get_columns(B, b))
	    FAIL("%s:dimensions", "\"%s\": %dx%d saved, %dx%d loaded", nma,
		    vnacal_get_rows(A, a), vnacal_get_columns(A, a),
		    vnacal_get_rows(B, b), vnacal_get_columns(B, b));
	int nf = vnacal_get_frequencies(A, a);
	if (nf != vnacal_get_frequencies(B, b))
	    FAIL("%s:frequencies", "\"%s\": %d frequencies saved, %d loaded",
		    nma, nf, vnacal_get_frequencies(B, b));
	const double *fa = vnacal_get_frequency_vector(A, a);
	const double *fb = vnacal_get_frequency_vector(B, b);
	for (int f = 0; f < nf; ++f)
	    if (!near_rel(fa[f], fb[f], c->tol_f))
		FAIL("%s:frequency-value", "\"%s\": frequency %d is %.17g "
			"saved, %.17g loaded (relative difference %.3e, "
			"allowed %.3e)", nma, f, fa[f], fb[f],
			fabs(fa[f] - fb[f]) / fa[f], c->tol_f);
	if (!near_rel(vnacal_get_fmin(A, a), vnacal_get_fmin(B, b), c->tol_f) ||
		!near_rel(vnacal_get_fmax(A, a), vnacal_get_fmax(B, b),
		    c->tol_f) ||
		vnacal_get_fmin(B, b) != fb[0] ||
		vnacal_get_fmax(B, b) != fb[nf - 1])
	    FAIL("%s:fmin-fmax", "\"%s\": fmin/fmax %g/%g saved, %g/%g loaded",
		    nma, vnacal_get_fmin(A, a), vnacal_get_fmax(A, a),
		    vnacal_get_fmin(B, b), vnacal_get_fmax(B, b));
	double complex za = vnacal_get_z0(A, a), zb = vnacal_get_z0(B, b);
	if (!cnear(za, zb, c->tol_d))
	    FAIL("%s:z0", "\"%s\": z0 %g%+gj saved, %g%+gj loaded", nma,
		    creal(za), cimag(za), creal(zb), cimag(zb));
	da.n = db.n = 0;
	da.s[0] = db.s[0] = '\0';
	digest(A, a, ".", &da, 0);
	digest(B, b, ".", &db, 0);
	if (strcmp(da.s, db.s) != 0)
	    FAIL("%s:calibration-properties", "\"%s\": property tree differs: "
		    "saved %.300s loaded %.300s", nma, da.s, db.s);
	/* error terms */
	ca = A->vc_calibration_vector[a];
	cb = B->vc_calibration_vector[b];
	if (ca->cal_error_terms != cb->cal_error_terms)
	    FAIL("%s:term-count", "\"%s\": %d error terms saved, %d loaded",
		    nma, ca->cal_error_terms, cb->cal_error_terms);
	for (int t = 0; t < ca->cal_error_terms; ++t)
	    for (int f = 0; f < nf; ++f) {
		double complex x = ca->cal_error_term_vector[t][f];
		double complex y = cb->cal_error_term_vector[t][f];
		if (!cnear(x, y, c->tol_d))
		    FAIL("%s:error-term", "\"%s\" (%s %dx%d): error term %d "
			    "at frequency %d is %.17g%+.17gj saved, "
			    "%.17g%+.17gj loaded (allowed relative %.3e)",
			    nma, vnacal_type_to_name(ca->cal_type),
			    ca->cal_rows, ca->cal_columns, t, f, creal(x),
			    cimag(x), creal(y), cimag(y), c->tol_d);
	    }
	r->transitions += ca->cal_error_terms;
    }
    return 0;
}

/* apply the k-th live calibration of A and of B to the same DUT
   measurement; dp = data precision in effect */
static int compare_apply(vf_result *r, vnacal_t *A, vnacal_t *B, int k,
	const cs_scenario *sc, int dp, const cmp_t *c)
{
    static cs_scenario sb;
    cs_c Sd[CS_MAXF][CS_MAXP * CS_MAXP];
    cs_c Sa[CS_MAXF][CS_MAXP * CS_MAXP], Sb[CS_MAXF][CS_MAXP * CS_MAXP];
    int ia[16], ib[16];
    const cs_vna *v = &sc->vna;

    if (!cs_apply_ok(v))
	return 0;
    if (live_list(A, ia, 16) <= k || live_list(B, ib, 16) <= k)
	return 0;
    for (int f = 0; f < v->nf; ++f)
	cs_dut(v, 0, f, Sd[f]);
    int rca = cs_apply(A, ia[k], sc, Sd, Sa);
    r->transitions += 2;
    if (rca != 0)
	FAIL("%s:apply-original", "vnacal_apply_m on the original "
		"calibration failed (%d)", rca);
    /* the loaded object is applied at its own (rounded) frequencies */
    sb = *sc;
    memcpy(sb.vna.f, vnacal_get_frequency_vector(B, ib[k]),
	    sizeof(double) * (size_t)v->nf);
    int rcb = cs_apply(B, ib[k], &sb, Sd, Sb);
    if (dp != VNACAL_MAX_PRECISION && dp < 5)
	return 0;		/* coarser than the apply bound can resolve */
    if (rcb != 0)
	FAIL("%s:apply-loaded", "vnacal_apply_m on the loaded calibration "
		"failed (%d)", rcb);
    double bound = dp == VNACAL_MAX_PRECISION ? 1e-13 :
	fmax(1e3 * pow(10.0, 1.0 - dp), 1e-12);
    for (int f = 0; f < v->nf; ++f)
	for (int i = 0; i < v->P * v->P; ++i)
	    if (!(cabs(Sa[f][i] - Sb[f][i]) <= bound))
		FAIL("%s:apply-differs", "%s %dx%d: corrected S[%d] at "
			"frequency %d is %.12g%+.12gj with the original and "
			"%.12g%+.12gj with the loaded calibration (allowed "
			"%.1e)", vnacal_type_to_name(v->type), v->rows,
			v->cols, i, f, creal(Sa[f][i]), cimag(Sa[f][i]),
			creal(Sb[f][i]), cimag(Sb[f][i]), bound);
    return 0;
}

/* ------------------------------------------------------------------ */
/* save / load helpers                                                 */

static int set_prec(vf_result *r, vnacal_t *vcp, int fp, int dp)
{
    if (fp > 0 && vnacal_set_fprecision(vcp, fp) != 0) {
	vf_fail(r, "set-fprecision", "vnacal_set_fprecision(%d) failed", fp);
	return -1;
    }
    if (dp > 0 && vnacal_set_dprecision(vcp, dp) != 0) {
	vf_fail(r, "set-dprecision", "vnacal_set_dprecision(%d) failed", dp);
	return -1;
    }
    return 0;
}

static int do_save(vf_result *r, vnacal_t *vcp, const char *path,
	vf_errlog *elog, const char *tag)
{
    char sig[100];
    int before = elog->count;
    ++r->transitions;
    if (vnacal_save(vcp, path) != 0) {
	snprintf(sig, sizeof(sig), "%s:save-failed", tag);
	vf_fail(r, sig, "vnacal_save failed (errno %d): %s", errno,
		elog->count > before ? elog->msg[before % VF_ERRLOG_MAX] : "");
	return -1;
    }
    const char *fn = vnacal_get_filename(vcp);
    if (fn == NULL || strcmp(fn, path) != 0) {
	snprintf(sig, sizeof(sig), "%s:filename", tag);
	vf_fail(r, sig, "vnacal_get_filename after save is %s",
		fn ? fn : "NULL");
	return -1;
    }
    return 0;
}

static vnacal_t *do_load(vf_result *r, const char *path, vf_errlog *elog,
	const char *tag)
{
    char sig[100];
    vf_errlog_reset(elog);
    ++r->transitions;
    vnacal_t *vcp = vnacal_load(path, (vnaerr_error_fn_t *)vf_errfn, elog);
    if (vcp == NULL) {
	snprintf(sig, sizeof(sig), "%s:load-failed", tag);
	vf_fail(r, sig, "vnacal_load of the file just written failed (errno "
		"%d): %s", errno, elog->count ? elog->msg[0] : "");
	return NULL;
    }
    if (elog->count != 0) {
	snprintf(sig, sizeof(sig), "%s:load-complains", tag);
	vf_fail(r, sig, "vnacal_load succeeded but reported: %s",
		elog->msg[0]);
    }
    return vcp;
}

/*
 * vnacal(3): at VNACAL_MAX_PRECISION the library uses hexadecimal floating
 * point notation.  Look at the "f:" entries of the text for fprecision and
 * at the "z0:" entries for dprecision.
 */
static int check_hex_notation(vf_result *r, const char *path, bool f_hex,
	bool d_hex)
{
    FILE *fp = fopen(path, "r");
    char line[4096];
    int rc = 0;

    if (fp == NULL)
	return 0;
    while (rc == 0 && fgets(line, sizeof(line), fp) != NULL) {
	const char *p = line;
	while (*p == ' ' || *p == '-')
	    ++p;
	if (f_hex && strncmp(p, "f: ", 3) == 0 && strstr(p, "0x") == NULL) {
	    vf_fail(r, "gen1:max-precision-notation", "fprecision = "
		    "VNACAL_MAX_PRECISION but the file has the frequency as "
		    "%.60s... (%zu characters), not in hexadecimal floating "
		    "point", p, strlen(p));
	    rc = -1;
	}
	if (d_hex && strncmp(p, "z0: ", 4) == 0 && strstr(p, "0x") == NULL) {
	    vf_fail(r, "gen1:max-precision-notation", "dprecision = "
		    "VNACAL_MAX_PRECISION but the file has %.60s", p);
	    rc = -1;
	}
    }
    fclose(fp);
    return rc;
}

/*
 * full round trip of vcp: gen1 = load(save(vcp)), gen2 = load(save(gen1)).
 * fp/dp: 0 = leave at the default.  scs[k]: scenario of the k-th live
 * calibration (or NULL).
 */
static void roundtrip(vf_result *r, vnacal_t *vcp, vf_errlog *elog, int fp,
	int dp, cs_scenario *const *scs, int nsc)
{
    const char *p1 = vf_tmp("c07-gen1.vnacal");
    char path1[512], path2[512];
    vnacal_t *g1 = NULL, *g2 = NULL;
    vf_errlog el1, el2;
    int efp = fp > 0 ? fp : DOC_FPREC, edp = dp > 0 ? dp : DOC_DPREC;
    cmp_t c1 = { prec_tol(efp), prec_tol(edp), "gen1" };
    cmp_t c2 = { (efp == 16) ? prec_tol(16) : 0.0,
	(edp == 16) ? prec_tol(16) : 0.0, "gen2" };

    snprintf(path1, sizeof(path1), "%s", p1);
    snprintf(path2, sizeof(path2), "%s", vf_tmp("c07-gen2.vnacal"));
    if (set_prec(r, vcp, fp, dp) != 0)
	return;
    if (do_save(r, vcp, path1, elog, "gen1") != 0)
	goto out;
    if (check_hex_notation(r, path1, fp == VNACAL_MAX_PRECISION,
		dp == VNACAL_MAX_PRECISION) != 0)
	goto out;
    if ((g1 = do_load(r, path1, &el1, "gen1")) == NULL)
	goto out;
    if (r->status != VF_OK)
	goto out;
    if (compare_objects(r, vcp, g1, &c1) != 0)
	goto out;
    for (int k = 0; k < nsc; ++k)
	if (scs[k] != NULL && compare_apply(r, vcp, g1, k, scs[k], edp,
		    &c1) != 0)
	    goto out;
    /* second generation */
    if (set_prec(r, g1, fp, dp) != 0)
	goto out;
    if (do_save(r, g1, path2, &el1, "gen2") != 0)
	goto out;
    if ((g2 = do_load(r, path2, &el2, "gen2")) == NULL)
	goto out;
    if (r->status != VF_OK)
	goto out;
    if (compare_objects(r, g1, g2, &c2) != 0)
	goto out;
    r->nontrivial = 1;
out:
    vnacal_free(g2);
    vnacal_free(g1);
    unlink(path1);
    unlink(path2);
}

/* ------------------------------------------------------------------ */
/* sections                                                            */

#define NPSWEEP 41		/* 1..40, MAX */
static const int corner[6] = { 1, 7, 17, 27, 40, VNACAL_MAX_PRECISION };
static const spec_t sweep_spec[2] = {
    { VNACAL_TE10, 2, 2, 2, 1, 2 },
    { VNACAL_E12, 2, 1, 3, 0, 2 },
};
static const spec_t pool[3] = {
    { VNACAL_T8, 1, 1, 2, 0, 2 },
    { VNACAL_E12, 2, 1, 1, 1, 2 },
    { VNACAL_UE10, 2, 2, 3, 0, 2 },
};
static const char *const names[3] = { "a", "b", "c" };

static long n_s1(int tier) { return 8L * 6 * 3 * 2 * 2 * (tier ? 3 : 1); }
static long n_s2(void) { return 2L * 2 * NPSWEEP; }
static long n_s3(void) { return 8L * 36; }
static int hist_len(int tier) { return tier ? 6 : 4; }
static long n_s4(int tier)
{
    long n = 0, p = 1;
    for (int l = 0; l <= hist_len(tier); ++l) {
	n += p;
	p *= 6;
    }
    return n;
}
#define N_E12SHAPES 6
static const int e12shape[N_E12SHAPES][2] = {
    {1,1},{2,1},{2,2},{3,1},{3,2},{3,3}
};
static long n_s5(void) { return 1 + N_E12SHAPES * 3 * 2 + 8; }
/* S6: error terms at the ends of the double range (subnormal, smallest
   normal, very small, very large) x 8 types x 3 data precisions */
static const double s6_mag[4] = { 3e-310, 2.5e-308, 1e-300, 1e+300 };
static long n_s6(void) { return 5L * 8 * 3; }

static long count(int tier)
{
    return n_s1(tier) + n_s2() + n_s3() + n_s4(tier) + n_s5() + n_s6()
	+ 8 * 6 /* S7 */;
}

static const char *pname(int p, char *b, size_t n)
{
    if (p == 0) snprintf(b, n, "default");
    else if (p == VNACAL_MAX_PRECISION) snprintf(b, n, "MAX");
    else snprintf(b, n, "%d", p);
    return b;
}

/* one calibration, one precision pair */
static void run_single(vf_result *r, const spec_t *sp, int fp, int dp,
	const char *section)
{
    static cs_scenario sc;
    cs_scenario *scs[1] = { &sc };
    vf_errlog elog;
    char b1[16], b2[16];

    vf_desc(r, "%s: %s %dx%d, %d frequencies, z0 %g%+gj, network %d, "
	    "fprecision %s, dprecision %s; save, load, save the loaded, load",
	    section, vnacal_type_to_name(sp->type), sp->rows, sp->cols, sp->nf,
	    creal(z0_alpha[sp->z0i]), cimag(z0_alpha[sp->z0i]), sp->net,
	    pname(fp, b1, sizeof(b1)), pname(dp, b2, sizeof(b2)));
    unsigned long mark = vf_exec_begin();
    vf_errlog_reset(&elog);
    vnacal_t *vcp = vnacal_create((vnaerr_error_fn_t *)vf_errfn, &elog);
    if (vcp == NULL) {
	vf_fail(r, "create", "vnacal_create failed");
	return;
    }
    int rc = add_cal(r, vcp, &elog, sp, "cal", &sc);
    if (rc >= 0) {
	/* a property on each level travels with every case */
	(void)vnacal_property_set(vcp, -1, "owner=c07");
	(void)vnacal_property_set(vcp, 0, "switches[0]=%d", sp->rows);
	(void)vnacal_property_set(vcp, 0, "switches[1]=%d", sp->cols);
	roundtrip(r, vcp, &elog, fp, dp, scs, rc == 0 ? 1 : 0);
	vf_outcome(r, "%s %s%s f:%s d:%s", section,
		vnacal_type_to_name(sp->type),
		rc == 1 ? " (synthetic terms)" : "",
		fp == 0 ? "def" : fp == VNACAL_MAX_PRECISION ? "max" :
		fp < 16 ? "<16" : fp == 16 ? "16" : ">16",
		dp == 0 ? "def" : dp == VNACAL_MAX_PRECISION ? "max" :
		dp < 16 ? "<16" : dp == 16 ? "16" : ">16");
    }
    vnacal_free(vcp);
    vf_exec_end(r, mark);
}

static void set_payload(vnacal_t *vcp, int ci, const char *who)
{
    (void)vnacal_property_set(vcp, ci, "description=%s VNA\nwith 2ft "
	    "cables\n\nand a blank line", who);
    (void)vnacal_property_set(vcp, ci, "setup.operator.name=%s", who);
    (void)vnacal_property_set(vcp, ci, "setup.temperature=23.5");
    (void)vnacal_property_set(vcp, ci, "detectorMatrix[0][0]=1");
    (void)vnacal_property_set(vcp, ci, "detectorMatrix[0][1]=2");
    (void)vnacal_property_set(vcp, ci, "detectorMatrix[1][0]=2");
    (void)vnacal_property_set(vcp, ci, "detectorMatrix[1][1]=1");
    (void)vnacal_property_set(vcp, ci, "my_reflect[0].name=short");
    (void)vnacal_property_set(vcp, ci, "my_reflect[0].gamma=-1.0");
    (void)vnacal_property_set(vcp, ci, "my_reflect[1].name=open");
    (void)vnacal_property_set(vcp, ci, "my_reflect[1].gamma=1.0");
    (void)vnacal_property_set(vcp, ci, "empty=");
    (void)vnacal_property_set(vcp, ci, "punct=a: b # c, [d] {e} 'f' \"g\"");
    (void)vnacal_property_set(vcp, ci, "number_like=007");
    /* collections without members, a null, and the three inside a list */
    (void)vnacal_property_set_subtree(vcp, ci, "no_switches[]");
    (void)vnacal_property_set_subtree(vcp, ci, "no_fixtures{}");
    (void)vnacal_property_set(vcp, ci, "nothing#");
    (void)vnacal_property_set_subtree(vcp, ci, "mixed[0][]");
    (void)vnacal_property_set_subtree(vcp, ci, "mixed[1]{}");
    (void)vnacal_property_set(vcp, ci, "mixed[2]#");
    (void)vnacal_property_set(vcp, ci, "mixed[3]=");
    (void)vnacal_property_set_subtree(vcp, ci, "setup.empty_inside{}");
    /* keys that only exist because the caller escaped them */
    static const char *const odd[] = { "rev.A", "port[2]", "a\\b", "k=v",
	"has#hash", "9lives", " lead", "trail ", "it's \"q\"", "{brace}",
	"~", "a: b", "-dash", "caf\xc3\xa9" };
    for (size_t i = 0; i < sizeof(odd) / sizeof(odd[0]); ++i) {
	char *q = vnaproperty_quote_key(odd[i]);
	if (q != NULL) {
	    (void)vnacal_property_set(vcp, ci, "odd.%s=value %zu", q, i);
	    if (i % 3 == 0)
		(void)vnacal_property_set(vcp, ci, "%s.nested[1]=%zu", q, i);
	    vf_free(q);
	}
    }
}

static void run_history(vf_result *r, long h)
{
    static cs_scenario sc[3];
    int ops[8], n = 0;
    vf_errlog elog;
    char desc[300];
    size_t off = 0;
    /* model: slot -> name index and pool member; -1 empty */
    int slot_name[8], slot_pool[8], nadd = 0;

    /* decode: lengths 0.. in order */
    {
	long p = 1;
	int l = 0;
	while (h >= p) {
	    h -= p;
	    p *= 6;
	    ++l;
	}
	n = l;
	for (int i = 0; i < n; ++i)
	    ops[i] = vf_digit(&h, 6);
    }
    desc[0] = '\0';
    for (int i = 0; i < n; ++i)
	off += (size_t)snprintf(desc + off, sizeof(desc) - off, "%s%s%s",
		i ? "," : "", ops[i] < 3 ? "add " : "delete ",
		ops[i] < 3 ? names[ops[i]] : ops[i] == 3 ? "0" :
		ops[i] == 4 ? "1" : "2");
    vf_desc(r, "S4 history [%s], then global + per-calibration property "
	    "payloads; save, load, save the loaded, load", desc);
    for (int i = 0; i < 8; ++i)
	slot_name[i] = slot_pool[i] = -1;

    unsigned long mark = vf_exec_begin();
    vf_errlog_reset(&elog);
    vnacal_t *vcp = vnacal_create((vnaerr_error_fn_t *)vf_errfn, &elog);
    if (vcp == NULL) {
	vf_fail(r, "create", "vnacal_create failed");
	return;
    }
    for (int i = 0; i < n; ++i) {
	if (ops[i] < 3) {
	    static cs_scenario tmp;
	    int pm = nadd++ % 3;
	    if (add_cal(r, vcp, &elog, &pool[pm], names[ops[i]], &tmp) != 0) {
		if (r->status == VF_OK)
		    vf_fail(r, "setup:pool", "pool calibration %d not "
			    "determining", pm);
		goto out;
	    }
	    int ci = vnacal_find_calibration(vcp, names[ops[i]]);
	    if (ci < 0 || ci >= 8) {
		vf_fail(r, "setup:find", "calibration just added not found");
		goto out;
	    }
	    slot_name[ci] = ops[i];
	    slot_pool[ci] = pm;
	} else {
	    int ci = ops[i] - 3;
	    int rc = vnacal_delete_calibration(vcp, ci);
	    if ((rc == 0) != (slot_name[ci] >= 0)) {
		vf_fail(r, "setup:delete", "vnacal_delete_calibration(%d) "
			"returned %d", ci, rc);
		goto out;
	    }
	    slot_name[ci] = slot_pool[ci] = -1;
	}
    }
    /* payloads; scenarios of the live calibrations in index order */
    cs_scenario *scs[3] = { NULL, NULL, NULL };
    int nlive = 0, deleted_below = 0, holes = 0;
    set_payload(vcp, -1, "global");
    for (int ci = 0; ci < 8; ++ci) {
	if (slot_name[ci] < 0) {
	    ++holes;
	    continue;
	}
	if (holes)
	    deleted_below = 1;
	if (nlive < 3) {
	    const spec_t *sp = &pool[slot_pool[ci]];
	    memset(&sc[nlive], 0, sizeof(sc[nlive]));
	    cs_make_vna_f(&sc[nlive].vna, sp->type, sp->rows, sp->cols,
		    sp->nf, fgrid, sp->net);
	    (void)cs_recipe(&sc[nlive], 0, 0, 0, 0, 0);
	    scs[nlive] = &sc[nlive];
	}
	/* alternate: payload, small, none */
	if (nlive % 3 == 0)
	    set_payload(vcp, ci, names[slot_name[ci]]);
	else if (nlive % 3 == 1)
	    (void)vnacal_property_set(vcp, ci, ".=just a scalar");
	++nlive;
    }
    if (n % 2 == 1)		/* odd lengths: no global properties at all */
	(void)vnacal_property_delete(vcp, -1, ".");
    roundtrip(r, vcp, &elog, 0, 0, scs, nlive);
    vf_outcome(r, "S4 %d live%s", nlive, deleted_below ?
	    " with an empty slot below a live one" : "");
out:
    vnacal_free(vcp);
    vf_exec_end(r, mark);
}

/*
 * S7: calibrations of one type and different shapes next to each other in
 * one container (1x2 or 2x1 beside 2x2, 1x1 beside 1x2 or 2x1, 2x2 beside
 * 3x3 ...), in either order and three in a row; synthetic terms, so every
 * shape exists for every type.
 */
#define S7_NSEQ 6
static void run_adjacent(vf_result *r, int t, int seq)
{
    static const char *const nm[3] = { "first", "second", "third" };
    /* members: 0 = 1 x 1, 1 = the rectangular two-port, 2 = 2 x 2,
       3 = the rectangular three-port with two, 4 = 3 x 3 */
    static const int seqs[S7_NSEQ][3] = {
	{ 1, 2, -1 }, { 2, 1, -1 }, { 1, 2, 1 }, { 2, 1, 2 },
	{ 0, 1, 2 }, { 3, 4, 3 },
    };
    static cs_scenario tmp;
    vf_errlog elog;
    const vnacal_type_t type = types[t];
    const int wide = is_t(type);
    char desc[200];
    size_t off = 0;
    int n = 0;

    unsigned long mark = vf_exec_begin();
    vf_errlog_reset(&elog);
    vnacal_t *vcp = vnacal_create((vnaerr_error_fn_t *)vf_errfn, &elog);
    if (vcp == NULL) {
	vf_fail(r, "create", "vnacal_create failed");
	return;
    }
    desc[0] = '\0';
    g_force_synth = 1;
    for (int i = 0; i < 3 && seqs[seq][i] >= 0; ++i) {
	static const int big[5] = { 1, 2, 2, 3, 3 };
	static const int small[5] = { 1, 1, 2, 2, 3 };
	const int m = seqs[seq][i];
	spec_t sp = { type, wide ? small[m] : big[m],
	    wide ? big[m] : small[m], 1 + i, i & 1, 2 };
	off += (size_t)snprintf(desc + off, sizeof(desc) - off, "%s%dx%d",
		i ? ", " : "", sp.rows, sp.cols);
	if (add_cal(r, vcp, &elog, &sp, nm[i], &tmp) < 0) {
	    if (r->status == VF_OK)
		vf_fail(r, "setup:adjacent", "calibration %s not added",
			nm[i]);
	    g_force_synth = 0;
	    goto out;
	}
	++n;
    }
    g_force_synth = 0;
    vf_desc(r, "S7 %s calibrations %s next to each other in one container; "
	    "save, load, save the loaded, load", vnacal_type_to_name(type),
	    desc);
    {
	cs_scenario *scs[3] = { NULL, NULL, NULL };
	roundtrip(r, vcp, &elog, VNACAL_MAX_PRECISION, VNACAL_MAX_PRECISION,
		scs, n);
    }
    vf_outcome(r, "S7 %d adjacent", n);
out:
    vnacal_free(vcp);
    vf_exec_end(r, mark);
}

/* ---- legacy --------------------------------------------------------- */

/* write the k-th live calibration (E12) of vcp in "#VNACAL 2.0" syntax */
static int write_v2(vnacal_t *vcp, int ci, const char *path)
{
    vnacal_calibration_t *cal = vcp->vc_calibration_vector[ci];
    const int R = cal->cal_rows, C = cal->cal_columns;
    vnacal_layout_t vl;
    FILE *fp = fopen(path, "w");

    if (fp == NULL)
	return -1;
    _vnacal_layout(&vl, VNACAL_E12, R, C);
    fprintf(fp, "#VNACAL 2.0\n%%YAML 1.1\n---\nsets:\n- name: %s\n"
	    "  rows: %d\n  columns: %d\n  frequencies: %d\n"
	    "  z0: \"%+.17e %+.17ej\"\n  data:\n", cal->cal_name, R, C,
	    cal->cal_frequencies, creal(cal->cal_z0), cimag(cal->cal_z0));
    for (int f = 0; f < cal->cal_frequencies; ++f) {
	fprintf(fp, "  - f: %.17e\n    e:\n", cal->cal_frequency_vector[f]);
	for (int row = 0; row < R; ++row) {
	    fprintf(fp, "    - [");
	    for (int col = 0; col < C; ++col) {
		const int off[3] = { VL_EL12_OFFSET(&vl, col),
		    VL_ER12_OFFSET(&vl, col), VL_EM12_OFFSET(&vl, col) };
		fprintf(fp, "%s[", col ? ", " : "");
		for (int t = 0; t < 3; ++t) {
		    double complex v =
			cal->cal_error_term_vector[off[t] + row][f];
		    fprintf(fp, "%s\"%+.17e %+.17ej\"", t ? ", " : "",
			    creal(v), cimag(v));
		}
		fprintf(fp, "]");
	    }
	    fprintf(fp, "]\n");
	}
    }
    return fclose(fp);
}

/* copy a file replacing its first line */
static int rewrite_first_line(const char *from, const char *to,
	const char *line)
{
    FILE *in = fopen(from, "r"), *out = fopen(to, "w");
    char buf[4096];
    size_t k;
    int ch;

    if (in == NULL || out == NULL) {
	if (in) fclose(in);
	if (out) fclose(out);
	return -1;
    }
    while ((ch = getc(in)) != EOF && ch != '\n')
	;
    fprintf(out, "%s\n", line);
    while ((k = fread(buf, 1, sizeof(buf), in)) > 0)
	fwrite(buf, 1, k, out);
    fclose(in);
    return fclose(out);
}

static void run_legacy_file(vf_result *r)
{
    char path[600];
    vf_errlog elog;
    const char *repo = getenv("VERIF_REPO");

    snprintf(path, sizeof(path), "%s/src/tests/compat-V2.vnacal",
	    repo ? repo : "/repo");
    vf_desc(r, "S5 load %s; accessors; write it out in 1.0 syntax at MAX "
	    "precision and in 2.0 syntax, load both, compare; round trip",
	    path);
    unsigned long mark = vf_exec_begin();
    vnacal_t *v2 = do_load(r, path, &elog, "compat-V2");
    if (v2 == NULL)
	return;
    if (vnacal_get_calibration_end(v2) != 1 ||
	    vnacal_get_name(v2, 0) == NULL ||
	    strcmp(vnacal_get_name(v2, 0), "default") != 0 ||
	    vnacal_get_type(v2, 0) != VNACAL_E12 ||
	    vnacal_get_rows(v2, 0) != 2 || vnacal_get_columns(v2, 0) != 1 ||
	    vnacal_get_frequencies(v2, 0) != 11 ||
	    vnacal_get_z0(v2, 0) != 50.0 ||
	    vnacal_get_fmin(v2, 0) != 1.0e5 ||
	    vnacal_get_fmax(v2, 0) != 1.0e7) {
	vf_fail(r, "compat-V2:accessors", "compat-V2.vnacal: end %d name %s "
		"type %d %dx%d, %d frequencies %g..%g",
		vnacal_get_calibration_end(v2), vnacal_get_name(v2, 0) ?
		vnacal_get_name(v2, 0) : "NULL", (int)vnacal_get_type(v2, 0),
		vnacal_get_rows(v2, 0), vnacal_get_columns(v2, 0),
		vnacal_get_frequencies(v2, 0), vnacal_get_fmin(v2, 0),
		vnacal_get_fmax(v2, 0));
	goto out;
    }
    /* our own 2.0 writer reproduces the object */
    {
	char p2[512];
	vf_errlog e2;
	cmp_t c = { 0.0, 0.0, "compat-V2-rewritten" };
	snprintf(p2, sizeof(p2), "%s", vf_tmp("c07-v2.vnacal"));
	if (write_v2(v2, 0, p2) != 0) {
	    vf_fail(r, "harness:write", "cannot write %s", p2);
	    goto out;
	}
	vnacal_t *w = do_load(r, p2, &e2, "compat-V2-rewritten");
	unlink(p2);
	if (w == NULL)
	    goto out;
	int rc = compare_objects(r, v2, w, &c);
	vnacal_free(w);
	if (rc != 0)
	    goto out;
    }
    /* and it survives the current format, exactly */
    roundtrip(r, v2, &elog, VNACAL_MAX_PRECISION, VNACAL_MAX_PRECISION,
	    NULL, 0);
    vf_outcome(r, "S5 compat-V2 file");
out:
    vnacal_free(v2);
    vf_exec_end(r, mark);
}

/* E12 calibration written as legacy text: which 0 = 2.0, 1 = 3.0 */
static void run_legacy_written(vf_result *r, const spec_t *sp, int which)
{
    static cs_scenario sc;
    vf_errlog elog, e2;
    char p1[512], p2[512];

    vf_desc(r, "S5 %s %dx%d, %d frequencies written as \"#VNACAL %s\" and "
	    "loaded", vnacal_type_to_name(sp->type), sp->rows, sp->cols,
	    sp->nf, which ? "3.0" : "2.0");
    snprintf(p1, sizeof(p1), "%s", vf_tmp("c07-cur.vnacal"));
    snprintf(p2, sizeof(p2), "%s", vf_tmp("c07-old.vnacal"));
    unsigned long mark = vf_exec_begin();
    vf_errlog_reset(&elog);
    vnacal_t *vcp = vnacal_create((vnaerr_error_fn_t *)vf_errfn, &elog);
    if (vcp == NULL) {
	vf_fail(r, "create", "vnacal_create failed");
	return;
    }
    int rc = add_cal(r, vcp, &elog, sp, "legacy", &sc);
    if (rc < 0)
	goto out;
    if (which == 0) {
	if (write_v2(vcp, 0, p2) != 0) {
	    vf_fail(r, "harness:write", "cannot write %s", p2);
	    goto out;
	}
    } else {
	(void)vnacal_property_set(vcp, 0, "note=kept in 3.0");
	if (set_prec(r, vcp, VNACAL_MAX_PRECISION, VNACAL_MAX_PRECISION) ||
		do_save(r, vcp, p1, &elog, "v3") != 0)
	    goto out;
	if (rewrite_first_line(p1, p2, "#VNACAL 3.0") != 0) {
	    vf_fail(r, "harness:write", "cannot write %s", p2);
	    goto out;
	}
    }
    {
	cmp_t c = { 0.0, 0.0, which ? "v3" : "v2" };
	cs_scenario *scp = &sc;
	vnacal_t *old = do_load(r, p2, &e2, c.tag);
	if (old != NULL && r->status == VF_OK &&
		compare_objects(r, vcp, old, &c) == 0 &&
		(rc == 1 || compare_apply(r, vcp, old, 0, scp,
		    VNACAL_MAX_PRECISION, &c) == 0))
	    r->nontrivial = 1;
	vnacal_free(old);
    }
    vf_outcome(r, "S5 written %s %s", which ? "3.0" : "2.0",
	    vnacal_type_to_name(sp->type));
out:
    unlink(p1);
    unlink(p2);
    vnacal_free(vcp);
    vf_exec_end(r, mark);
}

/* ------------------------------------------------------------------ */

static void run(int tier, long idx, vf_result *r)
{
    if (idx < n_s1(tier)) {
	int pm = vf_digit(&idx, 2);
	int z = vf_digit(&idx, 2);
	int nf = vf_digit(&idx, 3) + 1;
	int d = vf_digit(&idx, 6);
	int t = vf_digit(&idx, 8);
	int net = tier ? vf_digit(&idx, 3) : 2;
	spec_t sp = { types[t], dimlist[d][0], dimlist[d][1], nf, z, net };
	if (!is_t(types[t])) {
	    sp.rows = dimlist[d][1];
	    sp.cols = dimlist[d][0];
	}
	run_single(r, &sp, pm ? VNACAL_MAX_PRECISION : 0,
		pm ? VNACAL_MAX_PRECISION : 0, "S1");
	return;
    }
    idx -= n_s1(tier);
    if (idx < n_s2()) {
	int p = vf_digit(&idx, NPSWEEP);
	int which = vf_digit(&idx, 2);
	int s = vf_digit(&idx, 2);
	int prec = p < 40 ? p + 1 : VNACAL_MAX_PRECISION;
	run_single(r, &sweep_spec[s], which ? 0 : prec, which ? prec : 0,
		"S2");
	return;
    }
    idx -= n_s2();
    if (idx < n_s3()) {
	int fpi = vf_digit(&idx, 6);
	int dpi = vf_digit(&idx, 6);
	int t = vf_digit(&idx, 8);
	spec_t sp = { types[t], 2, 2, 2, 1, 2 };
	run_single(r, &sp, corner[fpi], corner[dpi], "S3");
	return;
    }
    idx -= n_s3();
    if (idx < n_s4(tier)) {
	run_history(r, idx);
	return;
    }
    idx -= n_s4(tier);
    if (idx == 0) {
	run_legacy_file(r);
	return;
    }
    --idx;
    if (idx < N_E12SHAPES * 3 * 2) {
	int which = vf_digit(&idx, 2);
	int nf = vf_digit(&idx, 3) + 1;
	int s = vf_digit(&idx, N_E12SHAPES);
	spec_t sp = { VNACAL_E12, e12shape[s][0], e12shape[s][1], nf, nf & 1,
	    2 };
	run_legacy_written(r, &sp, which);
	return;
    }
    idx -= N_E12SHAPES * 3 * 2;
    if (idx < 8) {
	spec_t sp = { types[idx], 2, 2, 2, 1, 2 };
	run_legacy_written(r, &sp, 1);
	return;
    }
    idx -= 8;
    if (idx < 8 * S7_NSEQ) {
	int seq = vf_digit(&idx, S7_NSEQ);
	run_adjacent(r, (int)idx, seq);
	return;
    }
    idx -= 8 * S7_NSEQ;
    {
	static const int dps[3] = { 0, 17, VNACAL_MAX_PRECISION };
	int dp = dps[vf_digit(&idx, 3)];
	int t = vf_digit(&idx, 8);
	spec_t sp = { types[t], 2, 2, 2, 1, 2 };
	g_force_synth = 1;
	g_synth_mag = idx < 4 ? s6_mag[idx] : 1.0;
	g_synth_negzero = idx == 4;
	run_single(r, &sp, 0, dp, idx == 4 ? "S6 terms with negative zeros" :
		g_synth_mag < 1e-307 ? "S6 subnormal "
		"terms" : g_synth_mag < 1.0 ? "S6 tiny terms" :
		"S6 huge terms");
	g_force_synth = 0;
	g_synth_negzero = 0;
	g_synth_mag = 1.0;
    }
}

vf_driver vf_drv = {
    .property = "C07",
    .rule = "case = one container configuration (S1 type x dims x "
	"frequencies x z0 x {default,MAX}; S2 full sweep of one precision; "
	"S3 6x6 precision corners per type; S4 add/replace/delete history "
	"with property payloads; S5 legacy syntax) that is saved, loaded, "
	"saved again from the loaded object and loaded again; non-trivial "
	"when both generations were loaded and compared with their source "
	"through every accessor, the property digest, the error-term vectors "
	"and vnacal_apply_m (shapes for which no calsim recipe is determining "
	"by the physical Jacobian test get synthetic error terms through the "
	"internal interface and no apply comparison)",
    .count = count,
    .run = run,
    .timeout_s = 60,
};
