/*
 * c03_run.h: enumeration of the argument-domain sweep and the judgement of
 * one call (included by c03_calls.h).
 */
#ifndef C03_RUN_H
#define C03_RUN_H

enum { MODE_C03, MODE_C11 };

static int c3_nd[C3_NFN][MAXARG];	/* domain sizes */
static long c3_n1[C3_NFN], c3_n2[C3_NFN];
static int c3_inited;

static fx_t c3_F;
static dig_t c3_D0, c3_D1;

static const char *c3_table_init(void)
{
    const char *err;
    static dv_t dvs[MAXDV];

    if (c3_inited)
	return NULL;
    if ((err = fx_build(&c3_F)) != NULL) {
	fx_teardown(&c3_F);
	return err;
    }
    for (int f = 0; f < C3_NFN; ++f) {
	fn_t *fn = &c3_table[f];
	fn->na = 0;
	while (fn->na < MAXARG && fn->a[fn->na].dom != NULL)
	    ++fn->na;
	c3_n1[f] = 0;
	for (int k = 0; k < fn->na; ++k) {
	    c3_nd[f][k] = fn->a[k].dom(&c3_F, fn->v, dvs);
	    c3_n1[f] += c3_nd[f][k] - 1;
	}
	c3_n2[f] = 0;
	for (int i = 0; i < fn->na; ++i)
	    for (int j = i + 1; j < fn->na; ++j)
		c3_n2[f] += (long)(c3_nd[f][i] - 1) * (c3_nd[f][j] - 1);
    }
    fx_teardown(&c3_F);
    c3_inited = 1;
    return NULL;
}

static long c3_sweep_count(int pairs)
{
    long n = 0;
    (void)c3_table_init();
    for (int f = 0; f < C3_NFN; ++f)
	n += 1 + c3_n1[f] + (pairs ? c3_n2[f] : 0);
    return n;
}

typedef struct { int fn, a1, v1, a2, v2; } sweep_t;

static void c3_sweep_decode(int pairs, long idx, sweep_t *s)
{
    int f;
    (void)c3_table_init();
    s->a1 = s->a2 = -1;
    s->v1 = s->v2 = 0;
    for (f = 0; f < C3_NFN; ++f) {
	long n = 1 + c3_n1[f] + (pairs ? c3_n2[f] : 0);
	if (idx < n)
	    break;
	idx -= n;
    }
    s->fn = f;
    if (idx == 0)
	return;
    --idx;
    if (idx < c3_n1[f]) {
	for (int k = 0; k < c3_table[f].na; ++k) {
	    if (idx < c3_nd[f][k] - 1) {
		s->a1 = k;
		s->v1 = (int)idx + 1;
		return;
	    }
	    idx -= c3_nd[f][k] - 1;
	}
    }
    idx -= c3_n1[f];
    for (int i = 0; i < c3_table[f].na; ++i)
	for (int j = i + 1; j < c3_table[f].na; ++j) {
	    long n = (long)(c3_nd[f][i] - 1) * (c3_nd[f][j] - 1);
	    if (idx < n) {
		s->a1 = i;
		s->v1 = (int)(idx / (c3_nd[f][j] - 1)) + 1;
		s->a2 = j;
		s->v2 = (int)(idx % (c3_nd[f][j] - 1)) + 1;
		return;
	    }
	    idx -= n;
	}
}

static const char *c3_vtag(const fn_t *fn)
{
    static char b[4][24];
    static int k;
    if (fn->fl & FL_VNPV) {
	char *o = b[k++ & 3];
	snprintf(o, sizeof(b[0]), "@%s", vn_name[fn->v]);
	return o;
    }
    return fn->v ? "'" : "";
}

static int c3_errno_in(int e, int mask)
{
    if (e == VF_ERRFN_ERRNO) return 0;	/* left behind by the callback */
    if ((mask & EM_INVAL) && e == EINVAL) return 1;
    if ((mask & EM_NOENT) && e == ENOENT) return 1;
    if ((mask & EM_BADMSG) && e == EBADMSG) return 1;
    if ((mask & EM_DOM) && e == EDOM) return 1;
    if ((mask & EM_PROTO) && e == ENOPROTOOPT) return 1;
    /* a system errno is not one of the classes libvna assigns itself */
    if ((mask & EM_SYS) && e != 0 && e != EINVAL && e != EDOM &&
	    e != EBADMSG && e != ENOPROTOOPT)
	return 1;
    return 0;
}

static const char *c3_mask_name(int mask, char *buf, size_t n)
{
    snprintf(buf, n, "%s%s%s%s%s%s", mask & EM_INVAL ? "EINVAL " : "",
	    mask & EM_NOENT ? "ENOENT " : "", mask & EM_BADMSG ? "EBADMSG " : "",
	    mask & EM_DOM ? "EDOM " : "", mask & EM_PROTO ? "ENOPROTOOPT " : "",
	    mask & EM_SYS ? "system-errno " : "");
    return buf;
}

static int c3_cat_errno_ok(int cat, int e)
{
    switch (cat) {
    case VNAERR_SYSTEM:   return e != 0;
    case VNAERR_USAGE:    return e == EINVAL;
    case VNAERR_VERSION:  return e == ENOPROTOOPT;
    case VNAERR_SYNTAX:   return e == EBADMSG;
    case VNAERR_MATH:     return e == EDOM;
    case VNAERR_INTERNAL: return e == ENOSYS;
    default:              return 1;
    }
}

/*
 * behavioural probe: one more standard with an incomplete S matrix (a single
 * reflect) must still be accepted by object v, as it was when the fixture
 * was built
 */
static int c3_probe_add(fx_t *F, int v)
{
    vnacal_new_t *vnp = *fx_vnpp(F, v);
    int rows = 2, cols = 2;

    if (vnp == NULL)
	return 0;
    if (v == VN_R) rows = 1;
    if (v == VN_U16) cols = 1;
    if (v == VN_A5 || v == VN_A3 || v == VN_A1) {
	int nf = fx_vnp_nf(v);
	double complex *vec = fx_block(F, (size_t)nf * sizeof(double complex));
	double complex **pp = fx_block(F, sizeof(double complex *));
	for (int i = 0; i < nf; ++i)
	    vec[i] = 0.2 + 0.1 * I;
	pp[0] = vec;
	return vnacal_new_add_single_reflect_m(vnp, pp, 1, 1, F->p_scalar, 1);
    }
    return vnacal_new_add_single_reflect_m(vnp, F->mp, rows, cols,
	    VNACAL_OPEN, 1);
}

/*
 * make the call of table entry s->fn with the deviations of s on the
 * fixture F (already built) and judge it.  Returns 1 if the call failed.
 */
static int c3_call_and_judge(int mode, fx_t *F, const sweep_t *s,
	vf_result *r, const char *state)
{
    fn_t *fn = &c3_table[s->fn];
    static dv_t dvs[MAXDV];
    cv_t a[MAXARG];
    dv_t dev[2];
    const char *devarg[2] = { NULL, NULL };
    int ndev = 0, errfn_null = 0;
    res_t R;
    char sig[200], what[300], mb[80];

    memset(a, 0, sizeof(a));
    for (int k = 0; k < fn->na; ++k) {
	int nd = fn->a[k].dom(F, fn->v, dvs);
	int pick = k == s->a1 ? s->v1 : k == s->a2 ? s->v2 : 0;
	if (pick >= nd)
	    pick = 0;
	a[k] = dvs[pick].v;
	if (pick != 0) {
	    dev[ndev] = dvs[pick];
	    devarg[ndev] = fn->a[k].name;
	    ++ndev;
	}
	if (strcmp(fn->a[k].name, "error_fn") == 0 && a[k].p == NULL)
	    errfn_null = 1;
    }
    /* expectation */
    int must_fail = 0, any = 0, mask = 0, decider = -1;
    if ((fn->fl & FL_L0FAIL) && ndev == 0) {
	must_fail = 1;
	mask = fn->em;
    } else if (ndev == 0) {
	any = (fn->fl & FL_L0ANY) != 0;
    } else {
	int nfail = 0, nctx = 0;
	for (int d = 0; d < ndev; ++d) {
	    if (dev[d].cls == X_FAIL) {
		++nfail;
		mask |= dev[d].em ? dev[d].em : fn->em;
		if (!(dev[d].em || fn->em))
		    mask |= 0x1000;	/* unspecified */
		if (decider < 0) decider = d;
	    } else if (dev[d].cls == X_CTX) {
		++nctx;
	    }
	}
	if (nfail > 0) {
	    must_fail = 1;
	} else if (nctx > 0 && ndev == 1 && !(fn->fl & FL_L0FAIL)) {
	    must_fail = 1;
	    mask = dev[0].em ? dev[0].em : fn->em;
	    decider = 0;
	} else {
	    any = 1;
	}
	if (mask & 0x1000)
	    mask = 0;
    }
    if (ndev == 0)
	snprintf(what, sizeof(what), "%s%s(valid arguments)%s", fn->name,
		c3_vtag(fn), state);
    else if (ndev == 1)
	snprintf(what, sizeof(what), "%s%s(%s=%s)%s", fn->name,
		c3_vtag(fn), devarg[0], dev[0].lab, state);
    else
	snprintf(what, sizeof(what), "%s%s(%s=%s, %s=%s)%s", fn->name,
		c3_vtag(fn), devarg[0], dev[0].lab, devarg[1],
		dev[1].lab, state);
    if (vf_verbose)
	vf_note("call: %s  expect: %s", what, must_fail ? "failure" :
		any ? "any" : "success");

    int do_state = mode == MODE_C11 && !(fn->fl & FL_MUTOK) &&
	fn->rk != RK_NONE;
    for (int d = 0; d < ndev; ++d)
	if (dev[d].em & EM_LATE)
	    do_state = 0;	/* not a refusal for its arguments */
    if (do_state)
	fx_digest(F, &c3_D0, 1);
    vf_errlog_reset(&F->elog);
    memset(&R, 0, sizeof(R));
    errno = 0;
    fn->call(F, fn->v, a, &R);
    int e = errno;
    vf_errlog log = F->elog;
    ++r->transitions;
    if (vf_verbose)
	vf_note("  -> %s, errno %d, callbacks %d (non-warning %d)",
		R.failed ? "FAILED" : "ok", e, log.count, log.nonwarn);

#define DEVSIG(kind) do { \
	if (decider >= 0) \
	    snprintf(sig, sizeof(sig), "%s:%s%s:%s=%s", kind, fn->name, \
		    c3_vtag(fn), devarg[decider], dev[decider].lab); \
	else if (ndev == 1) \
	    snprintf(sig, sizeof(sig), "%s:%s%s:%s=%s", kind, fn->name, \
		    c3_vtag(fn), devarg[0], dev[0].lab); \
	else if (ndev == 2) \
	    snprintf(sig, sizeof(sig), "%s:%s%s:%s=%s,%s=%s", kind, fn->name, \
		    c3_vtag(fn), devarg[0], dev[0].lab, devarg[1], \
		    dev[1].lab); \
	else \
	    snprintf(sig, sizeof(sig), "%s:%s%s", kind, fn->name, \
		    c3_vtag(fn)); \
    } while (0)

    if (fn->rk == RK_INT && R.iv < -1) {
	DEVSIG("retval");
	vf_fail(r, sig, "%s returned %ld, neither a result nor the "
		"documented failure value -1", what, R.iv);
    }
    if (must_fail && !R.failed) {
	DEVSIG("accepted");
	vf_fail(r, sig, "%s did not return its documented failure value "
		"(returned %ld, errno %d)", what, R.iv, e);
    } else if (!must_fail && !any && R.failed) {
	DEVSIG("valid-call-failed");
	vf_fail(r, sig, "%s failed (errno %d%s%s)", what, e,
		log.count ? ": " : "", log.count ? log.msg[0] : "");
    }
    if (mode == MODE_C11) {
	if (log.bad_format) {
	    DEVSIG("callback-format");
	    vf_fail(r, sig, "%s: error function was given an empty message "
		    "or one with a newline: \"%s\"", what, log.msg[0]);
	}
	if (!R.failed && log.nonwarn != 0) {
	    DEVSIG("callback-on-success");
	    vf_fail(r, sig, "%s reported success but invoked the error "
		    "function %d time(s) (non-warning): %s", what,
		    log.nonwarn, log.msg[0]);
	}
	if (R.failed) {
	    if (errfn_null || fn->cb == CB_ZERO) {
		if (log.count != 0) {
		    DEVSIG("callback-silent");
		    vf_fail(r, sig, "%s is documented not to invoke the "
			    "error function but did %d time(s): %s", what,
			    log.count, log.msg[0]);
		}
	    } else if (fn->cb == CB_ONE && log.nonwarn != 1) {
		DEVSIG("callback-count");
		vf_fail(r, sig, "%s failed (errno %d) and invoked the error "
			"function %d times, documented: once before returning "
			"failure%s%s", what, e, log.nonwarn,
			log.count ? ": " : "", log.count ? log.msg[0] : "");
	    }
	    if (log.nonwarn >= 1 && log.count <= VF_ERRLOG_MAX) {
		int cat = -1;
		for (int k = log.count - 1; k >= 0; --k)
		    if (log.category[k] != VNAERR_WARNING) {
			cat = log.category[k];
			break;
		    }
		if (cat >= 0 && !c3_cat_errno_ok(cat, e)) {
		    DEVSIG("errno-category");
		    vf_fail(r, sig, "%s: error category %d reported but errno "
			    "is %d (vnaerr(3) category table): %s", what, cat,
			    e, log.msg[0]);
		}
	    }
	    if (must_fail && mask != 0 && !c3_errno_in(e, mask)) {
		DEVSIG("errno");
		vf_fail(r, sig, "%s failed with errno %d, documented: %s",
			what, e, c3_mask_name(mask, mb, sizeof(mb)));
	    } else if ((fn->cb != CB_UNSPEC || fn->em != 0) && e == 0) {
		DEVSIG("errno-unset");
		vf_fail(r, sig, "%s failed without setting errno", what);
	    }
	    if (do_state && F->vcp != NULL) {
		fx_digest(F, &c3_D1, 1);
		if (strcmp(c3_D0.t, c3_D1.t) != 0) {
		    char diff[700];
		    dg_diff(&c3_D0, &c3_D1, diff, sizeof(diff));
		    DEVSIG("state-changed");
		    /* one known, unrepaired cause gets one signature */
		    if (strncmp(diff, "before: vnp", 11) == 0 &&
			    strstr(fn->name, "vnacal_new_add_") != NULL)
			snprintf(sig, sizeof(sig),
				"state-changed:rejected-standard");
		    vf_fail(r, sig, "%s was refused (errno %d) but changed "
			    "observable state: %s", what, e, diff);
		}
		if ((fn->fl & FL_VNPV) && fn->rk == RK_INT) {
		    vf_errlog_reset(&F->elog);
		    if (c3_probe_add(F, fn->v) != 0) {
			DEVSIG("behaviour-changed");
			vf_fail(r, sig, "after the refused %s the object no "
				"longer accepts a single-reflect standard it "
				"accepted before: %s", what,
				F->elog.count ? F->elog.msg[0] : "");
		    }
		}
	    }
	}
    }
    /* the objects must still answer every query (and save) */
    fx_digest(F, &c3_D1, mode == MODE_C03);
    vf_outcome(r, "%s %s%s", ndev == 0 ? "valid" : must_fail ? "invalid" :
	    "alternative", R.failed ? "fail" : "ok",
	    R.failed && log.nonwarn ? "+callback" : "");
    if (must_fail || ndev == 0)
	r->nontrivial = 1;
    return R.failed;
}

static void c3_desc(const sweep_t *s, fx_t *F, vf_result *r, const char *pre)
{
    fn_t *fn = &c3_table[s->fn];
    static dv_t dvs[MAXDV];
    char b[400];
    size_t off = 0;

    off += (size_t)snprintf(b + off, sizeof(b) - off, "%s%s%s(", pre,
	    fn->name, c3_vtag(fn));
    for (int k = 0; k < fn->na && off < sizeof(b) - 40; ++k) {
	int nd = fn->a[k].dom(F, fn->v, dvs);
	int pick = k == s->a1 ? s->v1 : k == s->a2 ? s->v2 : 0;
	if (pick >= nd) pick = 0;
	if (pick)
	    off += (size_t)snprintf(b + off, sizeof(b) - off, "%s%s=%s",
		    off && b[off - 1] != '(' ? ", " : "", fn->a[k].name,
		    dvs[pick].lab);
    }
    snprintf(b + off, sizeof(b) - off, "%s) on the rich fixture",
	    s->a1 < 0 ? "all arguments valid" : "; others valid");
    vf_desc(r, "%s", b);
}

/* one sweep case: fresh fixture, one call, teardown, leak accounting */
static void c3_run_sweep(int mode, int pairs, long idx, vf_result *r)
{
    sweep_t s;
    const char *err;

    c3_sweep_decode(pairs, idx, &s);
    unsigned long mark = vf_exec_begin();
    if ((err = fx_build(&c3_F)) != NULL) {
	vf_desc(r, "fixture for %s", c3_table[s.fn].name);
	vf_fail(r, "fixture", "building the fixture failed at: %s (%s)", err,
		c3_F.elog.count ? c3_F.elog.msg[0] : "no message");
	fx_teardown(&c3_F);
	vf_exec_end(r, mark);
	return;
    }
    c3_desc(&s, &c3_F, r, "");
    (void)c3_call_and_judge(mode, &c3_F, &s, r, "");
    fx_teardown(&c3_F);
    vf_exec_end(r, mark);
}

/* ---- vnaconv: every function once, separate and aliased buffers -------- */
typedef void c3_convn_z(const double complex *, double complex *,
	const double complex *, int);
typedef void c3_convn_nz(const double complex *, double complex *, int);
static const struct { const char *name; c3_convn_z *fz; c3_convn_nz *fnz; }
c3_convn[] = {
    { "vnaconv_stozn", vnaconv_stozn, NULL },
    { "vnaconv_stoyn", vnaconv_stoyn, NULL },
    { "vnaconv_ztosn", vnaconv_ztosn, NULL },
    { "vnaconv_ytosn", vnaconv_ytosn, NULL },
    { "vnaconv_ztoyn", NULL, vnaconv_ztoyn },
    { "vnaconv_ytozn", NULL, vnaconv_ytozn },
    { "vnaconv_stozin", vnaconv_stozin, NULL },
    { "vnaconv_ztozin", vnaconv_ztozin, NULL },
    { "vnaconv_ytozin", vnaconv_ytozin, NULL },
};
#define C3_NCONV (NCONV2 + NZI2 + 9)

static void c3_run_conv(int k, vf_result *r)
{
    double complex z0[3] = { 50.0, 75.0 + 5.0 * I, 40.0 - 3.0 * I };
    unsigned long mark = vf_exec_begin();

    if (k < NCONV2) {
	const conv2_t *c = &conv2_table[k];
	double complex in[2][2] = { { 0.2 + 0.1 * I, 0.7 - 0.2 * I },
	    { 0.6 + 0.3 * I, -0.1 + 0.3 * I } }, out[2][2];
	vf_desc(r, "%s: separate and aliased buffers", c->name);
	if (c->has_z0) { c->f1(in, out, z0); c->f1(in, in, z0); }
	else { c->f0(in, out); c->f0(in, in); }
	r->transitions += 2;
    } else if (k < NCONV2 + NZI2) {
	const zi2_t *c = &zi2_table[k - NCONV2];
	double complex in[2][2] = { { 0.2 + 0.1 * I, 0.7 - 0.2 * I },
	    { 0.6 + 0.3 * I, -0.1 + 0.3 * I } }, out[2];
	vf_desc(r, "%s", c->name);
	c->f(in, out, z0);
	++r->transitions;
    } else {
	int j = k - NCONV2 - NZI2;
	vf_desc(r, "%s: n = 1, 2, 3, separate and aliased buffers",
		c3_convn[j].name);
	for (int n = 1; n <= 3; ++n) {
	    double complex *in = malloc(sizeof(double complex) * (size_t)(n * n));
	    double complex *out = malloc(sizeof(double complex) * (size_t)(n * n));
	    for (int i = 0; i < n * n; ++i)
		in[i] = (i % (n + 1) == 0 ? 1.5 : 0.0) +
		    0.3 * vf_cunit(3390, (uint64_t)(n * 16 + i));
	    if (c3_convn[j].fz) {
		c3_convn[j].fz(in, out, z0, n);
		if (j < 4)
		    c3_convn[j].fz(in, in, z0, n);
	    } else {
		c3_convn[j].fnz(in, out, n);
		c3_convn[j].fnz(in, in, n);
	    }
	    r->transitions += 2;
	    free(in);
	    free(out);
	}
    }
    r->nontrivial = 1;
    vf_outcome(r, "vnaconv returned");
    vf_exec_end(r, mark);
}

#endif
