/*
 * C17: equivalent ways of describing the same calibration give the same
 * result.  Each case runs a base scenario and one or more transformed
 * scenarios and compares the S-parameters vnacal_apply(_m) returns for the
 * same DUT measurement.  Where the equation sets of the two runs are the
 * same, the standards' measurements carry deterministic pseudo-noise so
 * that the least-squares solution is not simply "the truth".
 */
#include <complex.h>
#include <errno.h>
#include <math.h>
#include <stdio.h>
#include <string.h>
#include <vnacal.h>
#include "vf.h"
#include "calsim.h"

#define NS (CS_MAXP * CS_MAXP)
#define TOL 1e-9

static const vnacal_type_t types[8] = {
    VNACAL_T8, VNACAL_U8, VNACAL_TE10, VNACAL_UE10,
    VNACAL_T16, VNACAL_U16, VNACAL_UE14, VNACAL_E12
};
/* shapes where apply works: square P and 1x2/2x1 */
static const int dimlist[5][2] = { {1,1}, {2,2}, {1,2}, {3,3}, {4,4} };

enum { K_ENTRY, K_ABBREV, K_ORDER, K_AB, K_UNRELATED, K_PERFREQ, K_E12,
    K_RENUMBER, K_NKIND };
static const char *kname[K_NKIND] = { "entry-point", "abbreviation", "order",
    "a/b-form", "unrelated-cals", "per-frequency", "E12-vs-UE14", "renumber" };

static bool is_t(vnacal_type_t t)
{
    return t == VNACAL_T8 || t == VNACAL_TE10 || t == VNACAL_T16;
}
static bool is16(vnacal_type_t t)
{
    return t == VNACAL_T16 || t == VNACAL_U16;
}

static int ndims(int tier, vnacal_type_t t)
{
    if (tier == 0)
	return is16(t) ? 3 : 4;	/* 3x3: standards smaller than the VNA */
    return is16(t) ? 4 : 5;
}

/* thorough: every error-network family member and both parameter kinds */
static int nnetv(int tier) { return tier ? 3 : 1; }
static int nkv(int tier) { return tier ? 2 : 1; }

static long count(int tier)
{
    long n = 0;
    for (int t = 0; t < 8; ++t)
	n += ndims(tier, types[t]);
    return n * 2 /*recipe*/ * K_NKIND * nnetv(tier) * nkv(tier);
}

typedef struct {
    cs_c S[CS_MAXF][NS];
    int nf;
    int rc;			/* 0 ok, else which step failed */
    char why[200];
} applied_t;

static vf_errlog elog;
static int g_shared_before;	/* run_once: earlier calibration, same kit */
static double g_merr_nf, g_merr_tr;	/* run_once: measurement-error model */
/* run_once: the model given per calibration frequency (NULL frequency
   vector, g_merr_n values each) */
static int g_merr_n;
static double g_merr_nfv[3], g_merr_trv[3];
static int g_keep_unrelated_params;	/* unrelated calibrations keep their kit */
static int g_fillers;		/* run_once: parameters made before the set's */

/* small unrelated calibration */
static int add_unrelated(vnacal_t *vcp, const char *name, int variant)
{
    static cs_scenario u;
    memset(&u, 0, sizeof(u));
    cs_make_vna(&u.vna, variant ? VNACAL_E12 : VNACAL_T8, 1, 1, 2, variant);
    if (cs_recipe(&u, 0, 0, 0, 0, 0) != 0)
	return -1;
    if (cs_make_params(vcp, &u) != 0)
	return -1;
    vnacal_new_t *vnp = cs_build(vcp, &u);
    if (vnp == NULL || vnacal_new_solve(vnp) != 0)
	return -1;
    int ci = vnacal_add_calibration(vcp, name, vnp);
    vnacal_new_free(vnp);
    if (!g_keep_unrelated_params)
	cs_delete_params(vcp, &u);	/* else: the other kit stays around */
    return ci < 0 ? -1 : 0;
}

/*
 * run_once: calibrate with scenario sc inside a fresh vnacal_t (with
 * `before'/`after' unrelated calibrations around it) and apply it to the
 * exact measurement of DUT `dk'.
 */
static void run_once(cs_scenario *sc, int before, int after, int dk,
	applied_t *out, vf_result *r)
{
    vnacal_t *vcp;
    vnacal_new_t *vnp = NULL;

    memset(out, 0, sizeof(*out));
    out->nf = sc->vna.nf;
    out->rc = 1;
    vf_errlog_reset(&elog);
    vcp = vnacal_create((vnaerr_error_fn_t *)vf_errfn, &elog);
    if (vcp == NULL)
	return;
    /* names that begin like "target", that "target" begins with, and that
       differ from it in case only: different names all the same */
    static const char *const bname[4] = { "target_b", "tar", "Target", "ta" };
    static const char *const aname[4] = { "t", "targe", "targetx", "TARGET" };
    for (int i = 0; i < before; ++i) {
	char nm[16];
	if (i < 4)
	    snprintf(nm, sizeof(nm), "%s", bname[i]);
	else
	    snprintf(nm, sizeof(nm), "before%d", i);
	if (add_unrelated(vcp, nm, i & 1) != 0) {
	    snprintf(out->why, sizeof(out->why), "unrelated calibration");
	    goto out;
	}
    }
    /* parameters of other kits that occupy the low handles */
    for (int i = 0; i < g_fillers; ++i)
	(void)vnacal_make_scalar_parameter(vcp, 0.1 + 0.01 * i);
    if (cs_make_params(vcp, sc) != 0) {
	snprintf(out->why, sizeof(out->why), "make params: %s",
		elog.count ? elog.msg[0] : "");
	goto out;
    }
    if (g_shared_before) {
	/* the same calibration kit (same parameter handles) used first for
	   another calibration at other frequencies of the same vnacal_t */
	static cs_scenario pre;
	const cs_vna *v = &sc->vna;
	double fv[2];
	pre = *sc;
	/* the span of the kit's own frequency grid */
	double glo = v->f[0], ghi = v->f[v->nf - 1];
	for (int q = 0; q < sc->nparam; ++q)
	    if (sc->param[q].kind == CSP_VECTOR) {
		glo = sc->param[q].lo * v->f[0];
		ghi = sc->param[q].hi * v->f[v->nf - 1];
		break;
	    }
	if (g_shared_before == 1) {	/* top of the kit's grid */
	    fv[0] = glo + 0.93 * (ghi - glo);
	    fv[1] = glo + 0.99 * (ghi - glo);
	} else {			/* both ends of the kit's grid */
	    fv[0] = glo + 0.01 * (ghi - glo);
	    fv[1] = glo + 0.99 * (ghi - glo);
	}
	cs_make_vna_f(&pre.vna, v->type, v->rows, v->cols, 2, fv,
		v->variant);
	vnacal_new_t *vnp0 = cs_build(vcp, &pre);
	if (vnp0 == NULL || vnacal_new_solve(vnp0) != 0 ||
		vnacal_add_calibration(vcp, "earlier", vnp0) < 0) {
	    snprintf(out->why, sizeof(out->why), "earlier calibration with "
		    "the same kit: %.120s", elog.count ? elog.msg[0] : "");
	    if (vnp0 != NULL)
		vnacal_new_free(vnp0);
	    goto out;
	}
	vnacal_new_free(vnp0);
    }
    vnp = cs_build(vcp, sc);
    r->transitions += sc->nstd + 2;
    if (vnp == NULL) {
	out->rc = 2;
	snprintf(out->why, sizeof(out->why), "add rejected: %.150s",
		elog.count ? elog.msg[0] : "");
	goto out;
    }
    if (g_merr_n > 0) {
	if (vnacal_new_set_m_error(vnp, NULL, g_merr_n, g_merr_nfv,
		    g_merr_trv) != 0 ||
		vnacal_new_set_pvalue_limit(vnp, 1e-300) != 0) {
	    out->rc = 2;
	    snprintf(out->why, sizeof(out->why), "set_m_error: %.150s",
		    elog.count ? elog.msg[0] : "");
	    goto out;
	}
    } else if (g_merr_nf > 0.0) {
	/* measurement-error model: the weights depend on the readings */
	double nf = g_merr_nf, tr = g_merr_tr;
	if (vnacal_new_set_m_error(vnp, NULL, 1, &nf, &tr) != 0 ||
		vnacal_new_set_pvalue_limit(vnp, 1e-300) != 0) {
	    out->rc = 2;
	    snprintf(out->why, sizeof(out->why), "set_m_error: %.150s",
		    elog.count ? elog.msg[0] : "");
	    goto out;
	}
    }
    if (vnacal_new_solve(vnp) != 0) {
	out->rc = 3;
	snprintf(out->why, sizeof(out->why), "solve failed: %.150s",
		elog.count ? elog.msg[0] : "");
	goto out;
    }
    if (vnacal_add_calibration(vcp, "target", vnp) < 0) {
	out->rc = 4;
	goto out;
    }
    for (int i = 0; i < after; ++i) {
	char nm[16];
	if (i < 4)
	    snprintf(nm, sizeof(nm), "%s", aname[i]);
	else
	    snprintf(nm, sizeof(nm), "after%d", i);
	if (add_unrelated(vcp, nm, (i + 1) & 1) != 0) {
	    snprintf(out->why, sizeof(out->why), "unrelated calibration");
	    goto out;
	}
    }
    {
	int ci = vnacal_find_calibration(vcp, "target");
	cs_c Sd[CS_MAXF][NS];
	if (ci < 0) {
	    out->rc = 5;
	    goto out;
	}
	for (int f = 0; f < sc->vna.nf; ++f)
	    cs_dut(&sc->vna, dk, f, Sd[f]);
	int arc = cs_apply(vcp, ci, sc, Sd, out->S);
	++r->transitions;
	if (arc != 0) {
	    out->rc = 6;
	    snprintf(out->why, sizeof(out->why), "apply failed: %.150s",
		    elog.count ? elog.msg[elog.count - 1 < VF_ERRLOG_MAX ?
		    elog.count - 1 : 0] : "");
	    goto out;
	}
    }
    out->rc = 0;
out:
    cs_delete_params(vcp, sc);
    vnacal_free(vcp);
}

static double diff(const applied_t *a, const applied_t *b, int P)
{
    double worst = 0;
    for (int f = 0; f < a->nf; ++f)
	for (int i = 0; i < P * P; ++i) {
	    double e = cabs(a->S[f][i] - b->S[f][i]);
	    if (!(e <= worst))
		worst = e;
	}
    return worst;
}

static double g_worst;
static long g_pairs;

static void compare(vf_result *r, const char *kind, const char *tname,
	const applied_t *a, const applied_t *b, int P, const char *what)
{
    char sig[120];
    ++g_pairs;
    if (a->rc != 0 || b->rc != 0) {
	if (a->rc == b->rc && a->rc == 3)
	    return;	/* both cannot be solved: nothing to relate */
	snprintf(sig, sizeof(sig), "%s:outcome:%s", kind, tname);
	vf_fail(r, sig, "%s: one description is accepted and solved, the "
		"equivalent one is not (%s): base rc=%d %s / variant rc=%d %s",
		kind, what, a->rc, a->why, b->rc, b->why);
	return;
    }
    double d = diff(a, b, P);
    if (!(d <= g_worst))
	g_worst = d;
    if (!(d <= TOL)) {
	snprintf(sig, sizeof(sig), "%s:differs:%s", kind, tname);
	vf_fail(r, sig, "%s: applied S-parameters differ by %.3e between "
		"the two equivalent descriptions (%s)", kind, d, what);
    }
}

static int next_perm(int *p, int n)
{
    int i = n - 2;
    while (i >= 0 && p[i] > p[i + 1]) --i;
    if (i < 0) return 0;
    int j = n - 1;
    while (p[j] < p[i]) --j;
    int t = p[i]; p[i] = p[j]; p[j] = t;
    for (int a = i + 1, b = n - 1; a < b; ++a, --b) {
	t = p[a]; p[a] = p[b]; p[b] = t;
    }
    return 1;
}

/* permute the physical VNA: port p -> pi[p] */
static void renumber(const cs_scenario *in, const int *pi, cs_scenario *out)
{
    const int P = in->vna.P;
    *out = *in;
    for (int f = 0; f < in->vna.nf; ++f)
	for (int s = 0; s < in->vna.nsys; ++s) {
	    const cs_net *a = &in->vna.net[f][s];
	    cs_net *b = &out->vna.net[f][in->vna.nsys > 1 ? pi[s] : 0];
	    for (int i = 0; i < P; ++i)
		for (int j = 0; j < P; ++j) {
		    b->El[pi[i] * P + pi[j]] = a->El[i * P + j];
		    b->Er[pi[i] * P + pi[j]] = a->Er[i * P + j];
		    b->Et[pi[i] * P + pi[j]] = a->Et[i * P + j];
		    b->Em[pi[i] * P + pi[j]] = a->Em[i * P + j];
		}
	}
    for (int p = 0; p < P; ++p)
	out->vna.gamma_unused[pi[p]] = in->vna.gamma_unused[p];
    for (int k = 0; k < in->nstd; ++k) {
	out->std[k].null_map = false;	/* ports no longer in order */
	for (int i = 0; i < in->std[k].np; ++i)
	    out->std[k].port[i] = pi[in->std[k].port[i] - 1] + 1;
    }
}

static void run(int tier, long idx, vf_result *r)
{
    static cs_scenario base, var;
    static applied_t A, B;
    int kind = vf_digit(&idx, K_NKIND);
    int recipe = vf_digit(&idx, 2);
    int netv = tier ? vf_digit(&idx, 3) + 1 : 2;	/* 1, 2, 3 */
    int kv = tier ? vf_digit(&idx, 2) : 0;
    int t;
    for (t = 0; t < 8; ++t) {
	int nd = ndims(tier, types[t]);
	if (idx < nd) break;
	idx -= nd;
    }
    int rows = dimlist[idx][0], cols = dimlist[idx][1];
    if (!is_t(types[t])) { int x = rows; rows = cols; cols = x; }
    const int P = rows > cols ? rows : cols;
    const char *tname = vnacal_type_to_name(types[t]);
    const int nf = 2;
    const double noise = 1e-3;
    char what[200];

    g_worst = 0;
    g_pairs = 0;
    vf_desc(r, "%s %dx%d recipe %d network %d %s parameters relation %s",
	    tname, rows, cols, recipe, netv, kv ? "vector" : "scalar",
	    kname[kind]);
    unsigned long mark = vf_exec_begin();

    memset(&base, 0, sizeof(base));
    cs_make_vna(&base.vna, types[t], rows, cols, nf, netv);
    if (cs_recipe(&base, recipe, 0, 0, 0, kv) != 0) {
	vf_outcome(r, "no-such-recipe");
	goto done;
    }
    {
	long double margin; int eqs, unk;
	if (!cs_identifiable(&base, (1u << base.nstd) - 1u, &margin, &eqs,
		    &unk) || margin < 1e-4L) {
	    vf_outcome(r, "skipped: recipe not determining");
	    goto done;
	}
    }

    switch (kind) {
    case K_ENTRY:
	base.noise = noise;
	run_once(&base, 0, 0, 0, &A, r);
	for (int ev = 1; ev <= 2; ++ev)
	    for (int pv = 0; pv <= 1; ++pv) {
		var = base;
		if (cs_recipe(&var, recipe, ev, 0, pv, kv) != 0) continue;
		var.noise = noise;
		run_once(&var, 0, 0, 0, &B, r);
		snprintf(what, sizeof(what), "entry variant %d, standard "
			"ports listed %s", ev, pv ? "reversed" : "in order");
		compare(r, "entry", tname, &A, &B, P, what);
	    }
	/* port order alone, native entry points */
	var = base;
	cs_recipe(&var, recipe, 0, 0, 1, kv);
	var.noise = noise;
	run_once(&var, 0, 0, 0, &B, r);
	compare(r, "entry", tname, &A, &B, P, "native entry points, "
		"standard ports listed in reverse with S transposed to match");
	break;

    case K_ABBREV:
	/* extra cells feed the leakage averages, so with noisy data the
	   full and abbreviated forms legitimately differ for the leakage
	   types: use exact data there */
	base.noise = (types[t] == VNACAL_T8 || types[t] == VNACAL_U8) ?
	    noise : 0.0;
	run_once(&base, 0, 0, 1, &A, r);
	for (int av = 1; av <= 3; ++av)
	    for (int pv = 0; pv <= 1; ++pv) {
		var = base;
		cs_recipe(&var, recipe, 0, av, pv, kv);
		var.noise = base.noise;
		run_once(&var, 0, 0, 1, &B, r);
		snprintf(what, sizeof(what), "measurement matrices %s%s "
			"abbreviated, standard ports listed %s",
			av & 1 ? "rows " : "", av & 2 ? "columns" : "",
			pv ? "in reverse" : "in order");
		compare(r, "abbrev", tname, &A, &B, P, what);
	    }
	break;

    case K_ORDER: {
	base.noise = noise;
	run_once(&base, 0, 0, 0, &A, r);
	int n = base.nstd;
	int p[CS_MAXSTD];
	for (int i = 0; i < n; ++i) p[i] = i;
	if (n <= (tier ? 6 : 5)) {
	    while (next_perm(p, n)) {
		var = base;
		for (int i = 0; i < n; ++i) var.std[i] = base.std[p[i]];
		run_once(&var, 0, 0, 0, &B, r);
		compare(r, "order", tname, &A, &B, P, "standards added in a "
			"different order");
	    }
	} else {
	    /* reversal, every adjacent transposition, every rotation */
	    for (int v = 0; v < 2 * n; ++v) {
		var = base;
		if (v == 0) {
		    for (int i = 0; i < n; ++i)
			var.std[i] = base.std[n - 1 - i];
		} else if (v < n) {
		    cs_std tmp = var.std[v - 1];
		    var.std[v - 1] = var.std[v];
		    var.std[v] = tmp;
		} else {
		    int rot = v - n + 1;
		    for (int i = 0; i < n; ++i)
			var.std[i] = base.std[(i + rot) % n];
		}
		run_once(&var, 0, 0, 0, &B, r);
		compare(r, "order", tname, &A, &B, P, "standards added in a "
			"different order (reversal / transposition / "
			"rotation)");
	    }
	}
	/*
	 * the same with a measurement-error model (weights that depend on
	 * the readings) on a set that gives the column systems different
	 * numbers of equations: two more reflects on port 1 only
	 */
	if (P >= 2 && !is16(types[t]) && base.nstd + 2 <= CS_MAXSTD) {
	    static cs_scenario asym;
	    static applied_t WA;
	    asym = base;
	    for (int k = 0; k < 2; ++k) {
		cs_param q;
		cs_std *st = &asym.std[asym.nstd];
		memset(&q, 0, sizeof(q));
		q.kind = CSP_SCALAR; q.handle = -1;
		q.c0 = k ? -0.2 - 0.55 * I : 0.45 + 0.3 * I;
		asym.param[asym.nparam] = q;
		memset(st, 0, sizeof(*st));
		st->entry = CSE_SINGLE; st->np = 1; st->port[0] = 1;
		st->sp[0] = asym.nparam;
		st->id = asym.nstd + 1;
		++asym.nparam;
		++asym.nstd;
	    }
	    asym.noise = noise;
	    g_merr_nf = 1e-4;
	    g_merr_tr = 2e-2;
	    run_once(&asym, 0, 0, 0, &WA, r);
	    n = asym.nstd;
	    for (int v = 0; v < 2 * n && WA.rc == 0; ++v) {
		var = asym;
		if (v == 0) {
		    for (int i = 0; i < n; ++i)
			var.std[i] = asym.std[n - 1 - i];
		} else if (v < n) {
		    cs_std tmp = var.std[v - 1];
		    var.std[v - 1] = var.std[v];
		    var.std[v] = tmp;
		} else {
		    int rot = v - n + 1;
		    for (int i = 0; i < n; ++i)
			var.std[i] = asym.std[(i + rot) % n];
		}
		run_once(&var, 0, 0, 0, &B, r);
		compare(r, "order-weighted", tname, &WA, &B, P, "standards "
			"added in a different order, measurement-error model "
			"on, more reflects on port 1 than on port 2");
	    }
	    g_merr_nf = g_merr_tr = 0.0;
    g_merr_n = 0;
	}
	break;
    }

    case K_AB: {
	static const double complex scales[5] = { 0.0, 2.0, 0.5 * I, 1e3,
	    1e-3 * (0.766 + 0.643 * I) };
	base.noise = noise;
	run_once(&base, 0, 0, 2, &A, r);
	for (int av = 0; av < 3; ++av)
	    for (int s = 0; s < 5; ++s) {
		var = base;
		var.ab = true;
		var.a_variant = av;
		var.ab_scale = scales[s];
		run_once(&var, 0, 0, 2, &B, r);
		snprintf(what, sizeof(what), "m form vs a/b form with 'a' "
			"family %d scaled by %g%+gj", av, creal(scales[s]),
			cimag(scales[s]));
		compare(r, "ab", tname, &A, &B, P, what);
	    }
	break;
    }

    case K_UNRELATED:
	base.noise = noise;
	run_once(&base, 0, 0, 0, &A, r);
	for (int b = 0; b <= 2; ++b)
	    for (int a = 0; a <= 2; ++a) {
		if (a == 0 && b == 0) continue;
		var = base;
		run_once(&var, b, a, 0, &B, r);
		snprintf(what, sizeof(what), "%d unrelated calibrations "
			"added before and %d after", b, a);
		compare(r, "unrelated", tname, &A, &B, P, what);
	    }
	/*
	 * a set with an unknown reflection used by its first and by its last
	 * standard, after unrelated calibrations whose kits stay alive: the
	 * handles of this set are then large and spread
	 */
	if (!is16(types[t])) {
	    static cs_scenario un;
	    static applied_t UA;
	    cs_param q;
	    un = base;
	    if (un.nstd + 19 <= CS_MAXSTD && un.nparam + 18 <= CS_MAXPARAM) {
		/*
		 * parameters: the recipe's, the unknown, 16 more reflects (so
		 * that the last one's handle is the unknown's plus 16);
		 * standards: the unknown, the last reflect, the recipe's, the
		 * other reflects, the unknown again
		 */
		int nb = base.nstd, iu = un.nparam;
		memset(&q, 0, sizeof(q));
		q.kind = CSP_UNKNOWN; q.handle = -1;
		q.c0 = 0.35 - 0.45 * I;
		q.guess_scale = 1.02 * cexp(0.02 * I);
		un.param[un.nparam++] = q;
		for (int k = 0; k < 17; ++k) {
		    memset(&q, 0, sizeof(q));
		    q.kind = CSP_SCALAR; q.handle = -1;
		    q.c0 = 0.7 * cexp(I * (0.39 * k + 0.2)) *
			(0.4 + 0.6 * (k % 4) / 3.0);
		    un.param[un.nparam++] = q;
		}
		un.nstd = 0;
		/* (the unknown's guess occupies a handle that is freed again,
		   so either of the last two reflects is 16 above it) */
		for (int k = 0; k < nb + 19; ++k) {
		    cs_std *st = &un.std[un.nstd];
		    int par = -1;
		    /* second use of the unknown: right after the 8th handle
		       is registered (the table has just grown), not at the
		       end, where later growth has spread the bucket again */
		    int again = nb + 3 + (nb >= 5 ? 0 : 5 - nb);
		    if (k == 0 || k == again)
			par = iu;			/* the unknown */
		    else if (k == 1 || k == 2)
			par = iu + 15 + k;		/* last two reflects */
		    else if (k >= nb + 3)
			par = iu + 1 + (k - nb - 3 - (k > again));
		    if (par < 0) {
			*st = base.std[k - 3];
		    } else {
			memset(st, 0, sizeof(*st));
			st->entry = CSE_SINGLE; st->np = 1;
			st->port[0] = (k == again && rows >= 2 &&
				cols >= 2) ? 2 : 1;
			st->sp[0] = par;
		    }
		    st->id = 200 + k;
		    ++un.nstd;
		}
		un.noise = noise;
		run_once(&un, 0, 0, 0, &UA, r);
		if (vf_verbose)
		    vf_note("unknown-reuse set: %d standards, %d parameters, rc %d %s", un.nstd, un.nparam, UA.rc, UA.why);
		if (UA.rc == 0) {
		    var = un;
		    g_keep_unrelated_params = 1;
		    run_once(&var, 3, 0, 0, &B, r);
		    g_keep_unrelated_params = 0;
		    compare(r, "unrelated-kits", tname, &UA, &B, P, "a set "
			    "with an unknown used by its first and last "
			    "standard, after three unrelated calibrations "
			    "whose parameters stay alive");
		    /* every shift of the set's handles by 1..48 */
		    for (int f = 1; f <= 48 && r->status == VF_OK; ++f) {
			var = un;
			g_fillers = f;
			run_once(&var, 0, 0, 0, &B, r);
			g_fillers = 0;
			snprintf(what, sizeof(what), "a set with an unknown "
				"used by its first and last standard, its "
				"parameter handles shifted by %d", f);
			compare(r, "unrelated-kits", tname, &UA, &B, P, what);
		    }
		}
	    }
	}
	/* the kit itself is shared: standards given as vector parameters
	   on their own 7-point grid, used first by another calibration of
	   the same vnacal_t at other frequencies */
	{
	    static cs_scenario kit;
	    static applied_t KA;
	    /* calibration band in the middle of the kit's grid, which has
	       its points at 0.9 + k 13/60 GHz: 0.9, 1.117, 1.333, 1.55,
	       1.767, 1.983, 2.2 */
	    static const double fv[4] = { 1.36e9, 1.50e9, 1.62e9, 1.75e9 };
	    memset(&kit, 0, sizeof(kit));
	    cs_make_vna_f(&kit.vna, types[t], rows, cols, 4, fv, netv);
	    if (cs_recipe(&kit, recipe, 0, 0, 0, 1) != 0)
		break;
	    for (int q = 0; q < kit.nparam; ++q)
		if (kit.param[q].kind == CSP_VECTOR) {
		    kit.param[q].lo = 0.9e9 / fv[0];
		    kit.param[q].hi = 2.2e9 / fv[3];
		}
	    kit.noise = noise;
	    /* rough tabulated data: the interpolated value depends on the
	       window, which must not depend on the history */
	    cs_vector_wiggle = 0.05;
	    run_once(&kit, 0, 0, 0, &KA, r);
	    for (int mode = 1; mode <= 2; ++mode) {
		var = kit;
		g_shared_before = mode;
		run_once(&var, 0, 0, 0, &B, r);
		g_shared_before = 0;
		snprintf(what, sizeof(what), "vector-parameter kit used "
			"first by another calibration at %s of the same "
			"vnacal_t", mode == 1 ? "the top of the band" :
			"both ends of the band");
		compare(r, "shared-kit", tname, &KA, &B, P, what);
	    }
	    cs_vector_wiggle = 0.0;
	}
	break;

    case K_PERFREQ: {
	static cs_scenario all;
	static applied_t whole;
	double fv[3] = { 1.0e9, 1.5e9, 2.0e9 };
	memset(&all, 0, sizeof(all));
	cs_make_vna_f(&all.vna, types[t], rows, cols, 3, fv, 2);
	cs_recipe(&all, recipe, 0, 0, 0, 1);	/* vector standards */
	all.noise = noise;
	/* rough tabulated data, so that the interpolation window matters */
	cs_vector_wiggle = 0.05;
	run_once(&all, 0, 0, 1, &whole, r);
	for (int k = 0; k < 3; ++k) {
	    memset(&var, 0, sizeof(var));
	    cs_make_vna_f(&var.vna, types[t], rows, cols, 1, &fv[k], 2);
	    cs_recipe(&var, recipe, 0, 0, 0, 1);
	    /* vector parameters must keep the grid of the joint run */
	    for (int q = 0; q < var.nparam; ++q)
		if (var.param[q].kind == CSP_VECTOR) {
		    var.param[q].lo = 0.9 * fv[0] / fv[k];
		    var.param[q].hi = 1.1 * fv[2] / fv[k];
		}
	    var.noise = noise;
	    run_once(&var, 0, 0, 1, &B, r);
	    memset(&A, 0, sizeof(A));
	    A.nf = 1;
	    A.rc = whole.rc;
	    memcpy(A.why, whole.why, sizeof(A.why));
	    memcpy(A.S[0], whole.S[k], sizeof(A.S[0]));
	    snprintf(what, sizeof(what), "three frequencies solved together "
		    "vs frequency %g Hz solved alone", fv[k]);
	    compare(r, "perfreq", tname, &A, &B, P, what);
	}
	if (noise > 0.0 && r->status == VF_OK) {
	    /* the same with a measurement-error model that is given per
	       calibration frequency and differs between them: the weights
	       of a frequency are those declared for it */
	    /* (the floor well above the inconsistency of the data, so that
	       no frequency is rejected by the p-value test) */
	    const double nfv[3] = { 3.0 * noise, 6.0 * noise, 12.0 * noise };
	    static const double trv[3] = { 1e-2, 3e-3, 1e-3 };
	    static applied_t single[3];
	    int all_ok = 1;
	    /* frequencies are solved independently: when each of them
	       solves alone, the three solve together, with the same result */
	    for (int k = 0; k < 3; ++k) {
		memset(&var, 0, sizeof(var));
		cs_make_vna_f(&var.vna, types[t], rows, cols, 1, &fv[k], 2);
		cs_recipe(&var, recipe, 0, 0, 0, 1);
		for (int q = 0; q < var.nparam; ++q)
		    if (var.param[q].kind == CSP_VECTOR) {
			var.param[q].lo = 0.9 * fv[0] / fv[k];
			var.param[q].hi = 1.1 * fv[2] / fv[k];
		    }
		var.noise = noise;
		g_merr_n = 1;
		g_merr_nfv[0] = nfv[k];
		g_merr_trv[0] = trv[k];
		run_once(&var, 0, 0, 1, &single[k], r);
		if (single[k].rc != 0)
		    all_ok = 0;	/* e.g. exactly determined: p-value 0 */
	    }
	    if (all_ok) {
		g_merr_n = 3;
		memcpy(g_merr_nfv, nfv, sizeof(nfv));
		memcpy(g_merr_trv, trv, sizeof(trv));
		run_once(&all, 0, 0, 1, &whole, r);
		for (int k = 0; k < 3 && r->status == VF_OK; ++k) {
		    memset(&A, 0, sizeof(A));
		    A.nf = 1;
		    A.rc = whole.rc;
		    memcpy(A.why, whole.why, sizeof(A.why));
		    memcpy(A.S[0], whole.S[k], sizeof(A.S[0]));
		    snprintf(what, sizeof(what), "three frequencies solved "
			    "together with per-frequency noise declarations "
			    "vs frequency %g Hz solved alone with its own",
			    fv[k]);
		    compare(r, "perfreq-weighted", tname, &A, &single[k], P,
			    what);
		}
	    } else {
		vf_note("weighted per-frequency relation not applicable: a "
			"single frequency does not solve with the model");
	    }
	    g_merr_n = 0;
	}
	cs_vector_wiggle = 0.0;
	break;
    }

    case K_E12:
	if (types[t] != VNACAL_E12) {
	    vf_outcome(r, "n/a");
	    goto done;
	}
	for (int ab = 0; ab <= 1; ++ab) {
	    base.noise = noise;
	    base.ab = ab;
	    run_once(&base, 0, 0, 0, &A, r);
	    memset(&var, 0, sizeof(var));
	    cs_make_vna(&var.vna, VNACAL_UE14, rows, cols, nf, 2);
	    /* same physical instrument: take E12's networks verbatim */
	    var.vna = base.vna;
	    var.vna.type = VNACAL_UE14;
	    cs_recipe(&var, recipe, 0, 0, 0, kv);
	    var.noise = noise;
	    var.ab = ab;
	    run_once(&var, 0, 0, 0, &B, r);
	    compare(r, "e12-ue14", tname, &A, &B, P, ab ? "E12 vs UE14 on "
		    "the same a/b data" : "E12 vs UE14 on the same m data");
	}
	break;

    case K_RENUMBER: {
	if (rows != cols || P < 2 || P > (tier ? 4 : 3)) {
	    vf_outcome(r, "n/a");
	    goto done;
	}
	base.noise = 0.0;	/* only claimed for model-consistent data */
	/* second pass: the set with one more standard, a reflection of
	   unknown value on port 1 (the iterative solver runs; after the
	   renumbering the unknown sits on another port) */
	for (int upass = 0; upass < 2; ++upass) {
	if (upass == 1) {
	    cs_param q;
	    cs_std *st;
	    if (base.nstd + 1 > CS_MAXSTD || base.nparam + 1 > CS_MAXPARAM)
		break;
	    memset(&q, 0, sizeof(q));
	    q.kind = CSP_UNKNOWN; q.handle = -1;
	    q.c0 = -0.8 + 0.3 * I;
	    q.guess_scale = 1.15 * cexp(0.25 * I);
	    base.param[base.nparam] = q;
	    st = &base.std[base.nstd];
	    memset(st, 0, sizeof(*st));
	    st->entry = CSE_SINGLE; st->np = 1; st->port[0] = 1;
	    st->sp[0] = base.nparam;
	    st->id = 300;
	    ++base.nparam;
	    ++base.nstd;
	}
	/* both descriptions iterate to the end, not to the default 1e-6 */
	cs_solve_tolerance = upass ? 1e-13 : 0.0;
	run_once(&base, 0, 0, 1, &A, r);
	int pi[CS_MAXP];
	for (int i = 0; i < P; ++i) pi[i] = i;
	while (next_perm(pi, P)) {
	    renumber(&base, pi, &var);
	    /* DUT renumbered too: measure P^T-conjugated device */
	    vnacal_t *vcp;
	    memset(&B, 0, sizeof(B));
	    B.nf = nf;
	    B.rc = 1;
	    vf_errlog_reset(&elog);
	    vcp = vnacal_create((vnaerr_error_fn_t *)vf_errfn, &elog);
	    if (vcp != NULL && cs_make_params(vcp, &var) == 0) {
		vnacal_new_t *vnp = cs_build(vcp, &var);
		if (vnp == NULL) {
		    B.rc = 2;
		    snprintf(B.why, sizeof(B.why), "add rejected: %.150s",
			    elog.count ? elog.msg[0] : "");
		} else if (vnacal_new_solve(vnp) != 0) {
		    B.rc = 3;
		    snprintf(B.why, sizeof(B.why), "solve failed: %.150s",
			    elog.count ? elog.msg[0] : "");
		} else if (vnacal_add_calibration(vcp, "target", vnp) < 0) {
		    B.rc = 4;
		} else {
		    cs_c Sd[CS_MAXF][NS], Sp[CS_MAXF][NS], So[CS_MAXF][NS];
		    for (int f = 0; f < nf; ++f) {
			cs_dut(&base.vna, 1, f, Sd[f]);
			for (int i = 0; i < P; ++i)
			    for (int j = 0; j < P; ++j)
				Sp[f][pi[i] * P + pi[j]] = Sd[f][i * P + j];
		    }
		    int ci = vnacal_find_calibration(vcp, "target");
		    int arc = cs_apply(vcp, ci, &var, Sp, So);
		    if (arc != 0) {
			B.rc = 6;
		    } else {
			for (int f = 0; f < nf; ++f)
			    for (int i = 0; i < P; ++i)
				for (int j = 0; j < P; ++j)
				    B.S[f][i * P + j] =
					So[f][pi[i] * P + pi[j]];
			B.rc = 0;
		    }
		}
		r->transitions += var.nstd + 4;
	    }
	    if (vcp != NULL) {
		cs_delete_params(vcp, &var);
		vnacal_free(vcp);
	    }
	    snprintf(what, sizeof(what), "VNA ports renumbered by "
		    "permutation [%d %d %d %d] (first %d used)%s", pi[0] + 1,
		    pi[1] + 1, P > 2 ? pi[2] + 1 : 0, P > 3 ? pi[3] + 1 : 0,
		    P, upass ? ", with a reflection of unknown value on "
		    "port 1 added to the set" : "");
	    compare(r, "renumber", tname, &A, &B, P, what);
	}
	}
	cs_solve_tolerance = 0.0;
	break;
    }
    }
    r->nontrivial = g_pairs > 0;
    r->states = g_pairs;
    vf_outcome(r, "%s %s diff%s", kname[kind], tname,
	    g_worst == 0 ? "=0" : g_worst < 1e-14 ? "<1e-14" :
	    g_worst < 1e-12 ? "<1e-12" : g_worst < 1e-10 ? "<1e-10" :
	    g_worst <= TOL ? "<=1e-9" : ">1e-9");
done:
    cs_vector_wiggle = 0.0;
    g_shared_before = 0;
    g_merr_nf = g_merr_tr = 0.0;
    g_keep_unrelated_params = 0;
    g_fillers = 0;
    vf_exec_end(r, mark);
}

vf_driver vf_drv = {
    .property = "C17",
    .rule = "case = (type x shape x recipe x relation kind); inside a case "
	"every variant of the relation (all entry-point/port-order variants, "
	"all abbreviations, all permutations of <=5 standards or all "
	"transpositions/rotations/reversal, 15 a/b forms, 8 unrelated-"
	"calibration placements, per-frequency splits, E12 vs UE14, all port "
	"renumberings) is run and its applied S-parameters compared with the "
	"base run (1e-9); non-trivial when at least one pair was compared; "
	"'states' counts compared pairs",
    .count = count,
    .run = run,
    .timeout_s = 120,
};
