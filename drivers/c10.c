/*
 * C10: frequency interpolation is exact at given points, reproduces
 * low-order dependences between them, is independent of the query history
 * and refuses out-of-range use.
 *
 * Routes: R0 vector parameters through vnacal_get_parameter_value (knots,
 * midpoints, every permutation of a 5-query set, out-of-range queries);
 * R1 range check of vector standards against the calibration grid (both call
 * orders); R2 calibration error terms through vnacal_apply_m off the grid;
 * R3 measurement-noise grids of vnacal_new_set_m_error (interpolated values
 * read from the vnacal_new_t, white box); R4 correlated-parameter sigma
 * grids (white box: _vnacal_get_correlated_sigma).
 */
#include <complex.h>
#include <errno.h>
#include <math.h>
#include <stdio.h>
#include <string.h>
#include "archdep.h"
#include <vnacal.h>
#include <vnacal_new_internal.h>
#include "vf.h"
#include "calsim.h"

#define NS (CS_MAXP * CS_MAXP)

static vf_errlog elog;

/* ---- knot vectors and generating functions ------------------------- */

#define NSPACING 3
static void make_knots(int n, int spacing, double *x)
{
    for (int i = 0; i < n; ++i) {
	double t = n == 1 ? 0.0 : (double)i / (n - 1);
	switch (spacing) {
	case 0: x[i] = 1.0e9 + 1.0e9 * t; break;		/* uniform */
	case 1: x[i] = 1.0e9 * pow(2.0, t); break;		/* geometric */
	default:						/* irregular */
	    x[i] = 1.0e9 + 1.0e9 * (t + 0.23 * sin(3.1 * t) * t * (1 - t));
	    break;
	}
    }
}

/*
 * generating functions by the class the documented window reproduces:
 * window m = min(n, 5); m odd: numerator and denominator of order (m-1)/2;
 * m even: denominator order m/2, numerator one less.
 */
#define NFUNC 10
static const char *func_name[NFUNC] = { "const", "a/(1+bx)", "linear",
    "(a+bx)/(1+dx)", "(a+bx)/(1+dx+ex2)", "quadratic",
    "(a+bx+cx2)/(1+dx+ex2)", "lossy-delay-line",
    "linear, exactly 0 at the middle knot",
    "b(x-x0)/(1+dx), exactly 0 at the middle knot" };
/* the delay line is in no window's class: only exactness at knots and
   independence of the query history are asserted for it */
static const int func_min_m[NFUNC] = { 1, 2, 3, 3, 4, 5, 5, 99, 3, 3 };
/* frequency at which functions 8 and 9 vanish (a knot: the value the
   library is given there is exactly 0) */
static double g_zero_f;

static double complex gen(int fn, double f)
{
    double x = (f - 1.0e9) / 1.0e9;	/* 0..1 over the knot span */
    double complex a = 0.4 - 0.3 * I, b = 0.25 + 0.35 * I,
		   c = -0.15 + 0.1 * I, d = 0.3 - 0.1 * I, e = 0.1 + 0.05 * I;
    switch (fn) {
    case 0: return a;
    case 1: return a / (1.0 + d * x);
    case 2: return a + b * x;
    case 3: return (a + b * x) / (1.0 + d * x);
    case 4: return (a + b * x) / (1.0 + d * x + e * x * x);
    case 5: return a + b * x + c * x * x;
    case 6: return (a + b * x + c * x * x) / (1.0 + d * x + e * x * x);
    case 8: return b * ((f - g_zero_f) / 1.0e9);
    case 9: return b * ((f - g_zero_f) / 1.0e9) / (1.0 + d * x);
    default: return 0.9 * cexp(-0.2 * x) * cexp(-I * 9.0 * x);
    }
}

static int next_perm(int *p, int n)
{
    int i = n - 2;
    while (i >= 0 && p[i] > p[i + 1]) --i;
    if (i < 0) return 0;
    int j = n - 1;
    while (p[j] < p[i]) --j;
    int t = p[i]; p[i] = p[j]; p[j] = t;
    for (int a = i + 1, b = n - 1; a < b; ++a, --b) {
	t = p[a]; p[a] = p[b]; p[b] = t;
    }
    return 1;
}

static bool same_bits(double complex a, double complex b)
{
    return memcmp(&a, &b, sizeof(a)) == 0;
}

/* ---- R0: vector parameter values ----------------------------------- */

static void run_r0(int n, int spacing, int fn, vf_result *r)
{
    double x[8];
    double complex y[8];
    char sig[120];
    vnacal_t *vcp;

    vf_desc(r, "R0 vector parameter: %d knots, spacing %d, %s; knots, "
	    "midpoints, ends, 120 query orders, out-of-range queries", n,
	    spacing, func_name[fn]);
    make_knots(n, spacing, x);
    g_zero_f = x[n / 2];
    for (int i = 0; i < n; ++i)
	y[i] = gen(fn, x[i]);
    vf_errlog_reset(&elog);
    vcp = vnacal_create((vnaerr_error_fn_t *)vf_errfn, &elog);
    int h = vnacal_make_vector_parameter(vcp, x, n, y);
    if (h < 0) {
	vf_fail(r, "r0:make", "vnacal_make_vector_parameter failed: %s",
		elog.count ? elog.msg[0] : "");
	goto out;
    }
    /* exact at knots, in ascending and descending order */
    for (int pass = 0; pass < 2; ++pass)
	for (int k = 0; k < n; ++k) {
	    int i = pass ? n - 1 - k : k;
	    double complex v = vnacal_get_parameter_value(vcp, h, x[i]);
	    ++r->transitions;
	    if (!same_bits(v, y[i])) {
		vf_fail(r, "r0:knot", "value at knot %d of %d is %.17g%+.17gj,"
			" supplied %.17g%+.17gj", i, n, creal(v), cimag(v),
			creal(y[i]), cimag(y[i]));
		goto out;
	    }
	}
    /* between knots: reproduced when the function is in the window's
       class */
    int m = n < 5 ? n : 5;
    bool in_class = m >= func_min_m[fn];
    double worst = 0;
    if (n >= 2) {
	double q[32];
	int nq = 0;
	for (int i = 0; i + 1 < n; ++i) {
	    q[nq++] = 0.5 * (x[i] + x[i + 1]);
	    q[nq++] = x[i] + 0.1 * (x[i + 1] - x[i]);
	}
	q[nq++] = x[0] * 1.0000001;
	q[nq++] = x[n - 1] * 0.9999999;
	for (int k = 0; k < nq; ++k) {
	    double complex v = vnacal_get_parameter_value(vcp, h, q[k]);
	    double complex t = gen(fn, q[k]);
	    double e = cabs(v - t) / cabs(t);
	    ++r->transitions;
	    if (!(e <= worst)) worst = e;
	    if (in_class && !(e <= 1e-9)) {
		snprintf(sig, sizeof(sig), "r0:between:%s", func_name[fn]);
		vf_fail(r, sig, "%d knots: %s not reproduced at f=%.9g: "
			"relative error %.3e", n, func_name[fn], q[k], e);
		goto out;
	    }
	}
    }
    /* query-order independence: every permutation of 5 queries, each
       answer must equal the answer of a fresh parameter asked only that */
    if (n >= 2) {
	double q[5];
	double complex fresh[5];
	int p[5] = { 0, 1, 2, 3, 4 };
	/* upper halves of intervals spread over the grid (the window is
	   chosen around the bounding segment, which a search from a stale
	   hint must find from either side), plus one knot */
	{
	    int iv[4];
	    iv[0] = 0;
	    iv[1] = (n - 2) / 3;
	    iv[2] = (2 * (n - 2) + 1) / 3;
	    iv[3] = n - 2;
	    for (int k = 0; k < 4; ++k)
		q[k] = x[iv[k]] + (k & 1 ? 0.7 : 0.85) *
		    (x[iv[k] + 1] - x[iv[k]]);
	    q[4] = x[n / 2];
	}
	for (int k = 0; k < 5; ++k) {
	    int h2 = vnacal_make_vector_parameter(vcp, x, n, y);
	    fresh[k] = vnacal_get_parameter_value(vcp, h2, q[k]);
	    vnacal_delete_parameter(vcp, h2);
	}
	do {
	    for (int k = 0; k < 5; ++k) {
		double complex v = vnacal_get_parameter_value(vcp, h,
			q[p[k]]);
		++r->transitions;
		if (!same_bits(v, fresh[p[k]])) {
		    vf_fail(r, "r0:history", "value at f=%.9g depends on the "
			    "queries made before (order %d%d%d%d%d, "
			    "position %d): %.17g%+.17gj vs fresh "
			    "%.17g%+.17gj", q[p[k]], p[0], p[1], p[2], p[3],
			    p[4], k, creal(v), cimag(v),
			    creal(fresh[p[k]]), cimag(fresh[p[k]]));
		    goto out;
		}
	    }
	} while (next_perm(p, 5));
    }
    /* out-of-range queries must be refused (>= 5 % outside) */
    {
	static const double lowf[3] = { 0.95, 0.8, 0.5 };
	static const double highf[3] = { 1.05, 1.2, 1.5 };
	for (int k = 0; k < 3 && n >= 2; ++k) {
	    for (int side = 0; side < 2; ++side) {
		double f = side ? x[n - 1] * highf[k] : x[0] * lowf[k];
		vf_errlog_reset(&elog);
		errno = 0;
		double complex v = vnacal_get_parameter_value(vcp, h, f);
		++r->transitions;
		if (!(creal(v) == HUGE_VAL) || errno != EINVAL) {
		    vf_fail(r, side ? "r0:range-high" : "r0:range-low",
			    "query at %.3g x the %s knot returned %g%+gj "
			    "errno %d instead of HUGE_VAL/EINVAL",
			    side ? highf[k] : lowf[k], side ? "last" :
			    "first", creal(v), cimag(v), errno);
		    goto out;
		}
	    }
	}
    }
    r->nontrivial = 1;
    vf_outcome(r, "R0 n=%d %s err%s", n, in_class ? "in-class" : "outside",
	    worst == 0 ? "=0" : worst < 1e-13 ? "<1e-13" : worst < 1e-11 ?
	    "<1e-11" : worst < 1e-9 ? "<1e-9" : ">=1e-9");
out:
    vnacal_free(vcp);
}

/* ---- R1: range check of vector standards ---------------------------- */

/* miss: 0 covers exactly, 1 covers with margin, 2 low miss, 3 high miss,
   4 both */
static void run_r1(int miss, int amount_i, int order, int typei, int pk,
	vf_result *r)
{
    static const double amount[3] = { 0.05, 0.20, 0.50 };
    static const vnacal_type_t tt[2] = { VNACAL_T8, VNACAL_E12 };
    double a = amount[amount_i];
    double cal_f[3] = { 1.0e9, 1.5e9, 2.0e9 };
    double lo = cal_f[0], hi = cal_f[2];
    double pf[4];
    double complex pv[4];
    bool must_refuse = miss >= 2;
    vnacal_t *vcp;
    vnacal_new_t *vnp;
    double complex m0[3] = { 0.1, 0.2, 0.3 };
    double complex *mm[1] = { m0 };

    switch (miss) {
    case 1: lo *= 0.8; hi *= 1.2; break;
    case 2: lo *= 1.0 + a; break;
    case 3: hi *= 1.0 - a; lo *= 0.4; break;
    case 4: lo *= 1.0 + a / 2; hi *= 1.0 - a / 2; break;
    default: break;
    }
    for (int i = 0; i < 4; ++i) {
	pf[i] = lo + (hi - lo) * i / 3.0;
	pv[i] = -0.9 + 0.1 * i;
    }
    vf_desc(r, "R1 vector standard whose grid %s the calibration band "
	    "(%.0f %%), %s, %s 1x1", miss == 0 ? "covers exactly" :
	    miss == 1 ? "covers with margin" : miss == 2 ? "misses the low "
	    "end of" : miss == 3 ? "misses the high end of" : "misses both "
	    "ends of", 100 * a, order == 0 ? "set_frequency_vector first" :
	    order == 1 ? "standard added before set_frequency_vector" :
	    "covered band set, standard added, then the band set again",
	    vnacal_type_to_name(tt[typei]));
    if (pk != 0)
	vf_desc(r, "R1 grid of %s %s the calibration band (%.0f %%), call "
		"order %d, %s 1x1", pk == 1 ? "the vector an unknown starts "
		"from" : pk == 2 ? "the sigma vector of a parameter "
		"correlated with SHORT" : pk == 3 ? "the sigma vector of a "
		"parameter correlated with a covering vector" : "the sigma "
		"vector of a parameter correlated with an unknown scalar",
		miss <= 1 ? "covers" : "misses", 100 * a, order,
		vnacal_type_to_name(tt[typei]));
    vf_errlog_reset(&elog);
    vcp = vnacal_create((vnaerr_error_fn_t *)vf_errfn, &elog);
    /*
     * the grid under test belongs to (pk) 0 a vector parameter, 1 an
     * unknown whose guess is that vector, 2 the sigma vector of a parameter
     * correlated with SHORT, 3 the sigma vector of a parameter correlated
     * with a vector that covers the band with margin, 4 the sigma vector of
     * a parameter correlated with an unknown of a scalar
     */
    int h = -1;
    {
	static const double sg[4] = { 0.01, 0.02, 0.015, 0.03 };
	double wf[4] = { 0.3e9, 1.2e9, 2.2e9, 3.0e9 };
	int hv, hs;
	switch (pk) {
	case 0:
	    h = vnacal_make_vector_parameter(vcp, pf, 4, pv);
	    break;
	case 1:
	    hv = vnacal_make_vector_parameter(vcp, pf, 4, pv);
	    h = vnacal_make_unknown_parameter(vcp, hv);
	    break;
	case 2:
	    h = vnacal_make_correlated_parameter(vcp, VNACAL_SHORT, pf, 4,
		    sg);
	    break;
	case 3:
	    hv = vnacal_make_vector_parameter(vcp, wf, 4, pv);
	    h = vnacal_make_correlated_parameter(vcp, hv, pf, 4, sg);
	    break;
	default:
	    hs = vnacal_make_scalar_parameter(vcp, -0.95 + 0.02 * I);
	    hv = vnacal_make_unknown_parameter(vcp, hs);
	    h = vnacal_make_correlated_parameter(vcp, hv, pf, 4, sg);
	    break;
	}
    }
    if (h < 0) {
	vf_fail(r, "r1:setup", "parameter kind %d could not be made: %s", pk,
		elog.count ? elog.msg[0] : "");
	vnacal_free(vcp);
	return;
    }
    vnp = vnacal_new_alloc(vcp, tt[typei], 1, 1, 3);
    int rc1, rc2;
    if (order == 0) {
	rc1 = vnacal_new_set_frequency_vector(vnp, cal_f);
	errno = 0;
	rc2 = vnacal_new_add_single_reflect_m(vnp, mm, 1, 1, h, 1);
    } else if (order == 1) {
	rc1 = vnacal_new_add_single_reflect_m(vnp, mm, 1, 1, h, 1);
	errno = 0;
	rc2 = vnacal_new_set_frequency_vector(vnp, cal_f);
    } else {
	/* a band the standard covers first, the standard, then the band
	   under test: the second vnacal_new_set_frequency_vector must
	   re-check the standards already added */
	double band1[3] = { pf[0], pf[1], pf[3] };
	rc1 = vnacal_new_set_frequency_vector(vnp, band1);
	if (rc1 == 0)
	    rc1 = vnacal_new_add_single_reflect_m(vnp, mm, 1, 1, h, 1);
	errno = 0;
	rc2 = vnacal_new_set_frequency_vector(vnp, cal_f);
    }
    int e = errno;
    r->transitions += 2;
    if (rc1 != 0) {
	vf_fail(r, "r1:setup", "first call failed: %s",
		elog.count ? elog.msg[0] : "");
    } else if (must_refuse && (rc2 != -1 || e != EINVAL)) {
	vf_fail(r, miss == 2 ? "r1:low-accepted" : miss == 3 ?
		"r1:high-accepted" : "r1:both-accepted",
		"a standard defined on %.4g..%.4g Hz was accepted for a "
		"calibration on %.4g..%.4g Hz (rc %d errno %d)", lo, hi,
		cal_f[0], cal_f[2], rc2, e);
    } else if (!must_refuse && rc2 != 0) {
	vf_fail(r, "r1:covering-refused", "a standard defined on "
		"%.4g..%.4g Hz was refused for a calibration on %.4g..%.4g "
		"Hz: %s", lo, hi, cal_f[0], cal_f[2],
		elog.count ? elog.msg[0] : "");
    }
    r->nontrivial = 1;
    vf_outcome(r, "R1 kind %d %s", pk, must_refuse ? "refused" : "accepted");
    vnacal_free(vcp);
}

/* ---- R2: apply off the calibration grid ----------------------------- */

static void run_r2(int typei, int nfi, int net, vf_result *r)
{
    static const vnacal_type_t types[8] = {
	VNACAL_T8, VNACAL_U8, VNACAL_TE10, VNACAL_UE10,
	VNACAL_T16, VNACAL_U16, VNACAL_UE14, VNACAL_E12
    };
    static cs_scenario sc;
    static const int nfs[2] = { 5, 7 };
    int nf = nfs[nfi];
    const char *tname = vnacal_type_to_name(types[typei]);
    vnacal_t *vcp;
    vnacal_new_t *vnp;
    char sig[120];

    vf_desc(r, "R2 %s 1x1 calibrated on %d frequencies (error terms "
	    "polynomial in f), applied at midpoints, near the ends and out "
	    "of range", tname, nf);
    memset(&sc, 0, sizeof(sc));
    cs_make_vna(&sc.vna, types[typei], 1, 1, nf, net);
    cs_recipe(&sc, 0, 0, 0, 0, 0);
    vf_errlog_reset(&elog);
    vcp = vnacal_create((vnaerr_error_fn_t *)vf_errfn, &elog);
    if (cs_make_params(vcp, &sc) != 0 || (vnp = cs_build(vcp, &sc)) == NULL
	    || vnacal_new_solve(vnp) != 0 ||
	    vnacal_add_calibration(vcp, "r2", vnp) < 0) {
	snprintf(sig, sizeof(sig), "r2:setup:%s", tname);
	vf_fail(r, sig, "calibration failed: %s",
		elog.count ? elog.msg[0] : "");
	goto out;
    }
    int ci = vnacal_find_calibration(vcp, "r2");
    /* query set: midpoints, 10 % points, just inside the ends, the knots */
    double q[40];
    int nq = 0;
    for (int i = 0; i + 1 < nf; ++i) {
	q[nq++] = sc.vna.f[i];
	q[nq++] = sc.vna.f[i] + 0.1 * (sc.vna.f[i + 1] - sc.vna.f[i]);
	q[nq++] = 0.5 * (sc.vna.f[i] + sc.vna.f[i + 1]);
    }
    q[nq++] = sc.vna.f[nf - 1];
    /* ascending list required by apply: already ascending */
    double worst = 0;
    for (int pass = 0; pass < 2; ++pass) {
	/* pass 0: all queries in one call; pass 1: one call per query in
	   descending order (different interpolation hints) */
	for (int k = 0; k < (pass ? nq : 1); ++k) {
	    int n = pass ? 1 : nq;
	    const double *fv = pass ? &q[nq - 1 - k] : q;
	    double complex mvec[40];
	    double complex *mm[1] = { mvec };
	    double complex truth[40];
	    for (int j = 0; j < n; ++j) {
		cs_net net_f;
		double complex S, a_d, b_d;
		cs_net_at(&sc.vna, fv[j], 0, &net_f);
		S = 0.3 * cexp(I * 2.0 * fv[j] / 1e9) - 0.1;
		truth[j] = S;
		a_d = net_f.Et[0] / (1.0 - net_f.Em[0] * S);
		b_d = S * a_d;
		mvec[j] = net_f.El[0] + net_f.Er[0] * b_d;
	    }
	    vnadata_t *vdp = vnadata_alloc(NULL, NULL);
	    int rc = vnacal_apply_m(vcp, ci, fv, n, mm, 1, 1, vdp);
	    ++r->transitions;
	    if (rc != 0) {
		snprintf(sig, sizeof(sig), "r2:apply-failed:%s", tname);
		vf_fail(r, sig, "vnacal_apply_m inside the band failed: %s",
			elog.count ? elog.msg[0] : "");
		vnadata_free(vdp);
		goto out;
	    }
	    for (int j = 0; j < n; ++j) {
		double e = cabs(vnadata_get_cell(vdp, j, 0, 0) - truth[j]);
		if (!(e <= worst)) worst = e;
		if (!(e <= 1e-8)) {
		    snprintf(sig, sizeof(sig), "r2:apply-wrong:%s", tname);
		    vf_fail(r, sig, "apply at f=%.9g (%s) is off by %.3e",
			    fv[j], pass ? "single query" : "batch", e);
		    vnadata_free(vdp);
		    goto out;
		}
	    }
	    vnadata_free(vdp);
	}
    }
    /* out of range by >= 5 % must be refused */
    {
	static const double fac[6] = { 0.95, 0.8, 0.5, 1.05, 1.2, 1.5 };
	for (int k = 0; k < 6; ++k) {
	    double f = k < 3 ? sc.vna.f[0] * fac[k] : sc.vna.f[nf - 1] * fac[k];
	    double complex mv = 0.1;
	    double complex *mm[1] = { &mv };
	    vnadata_t *vdp = vnadata_alloc(NULL, NULL);
	    errno = 0;
	    int rc = vnacal_apply_m(vcp, ci, &f, 1, mm, 1, 1, vdp);
	    int e = errno;
	    ++r->transitions;
	    vnadata_free(vdp);
	    if (rc != -1 || e != EINVAL) {
		snprintf(sig, sizeof(sig), "r2:range-%s", k < 3 ? "low" :
			"high");
		vf_fail(r, sig, "apply at %.3g x the band %s was not refused "
			"(rc %d errno %d)", fac[k], k < 3 ? "start" : "end",
			rc, e);
		goto out;
	    }
	}
    }
    r->nontrivial = 1;
    vf_outcome(r, "R2 %s err%s", tname, worst < 1e-13 ? "<1e-13" :
	    worst < 1e-11 ? "<1e-11" : worst < 1e-9 ? "<1e-9" : "<=1e-8");
out:
    cs_delete_params(vcp, &sc);
    vnacal_free(vcp);
}

/* ---- R3: measurement noise grids ------------------------------------ */

/* which: 0 nf vector tested, 1 tr vector tested; fn: 0 const, 1 linear */
static void run_r3(int n, int spacing, int fn, int which, int miss,
	vf_result *r)
{
    double cal_f[4] = { 1.0e9, 1.3e9, 1.6e9, 2.0e9 };
    double gf[8], nfv[8], trv[8];
    vnacal_t *vcp;
    vnacal_new_t *vnp;
    char sig[120];

    vf_desc(r, "R3 set_m_error grid of %d points (spacing %d), sigma %s in "
	    "f, checking sigma_%s, grid %s", n, spacing, fn ? "linear" :
	    "constant", which ? "tr" : "nf", miss == 0 ? "covers the band" :
	    miss == 1 ? "misses the low end by 10 %" : "misses the high end "
	    "by 10 %");
    if (miss == 3)
	vf_desc(r, "R3 set_m_error grid of %d points with two knots 5e-5 Hz "
		"apart (sigma_%s)", n, which ? "tr" : "nf");
    make_knots(n, spacing, gf);
    if (fn == 2) {
	/* a curved profile on a grid that has the calibration frequencies
	   among its points: whatever the interpolant does between points,
	   it passes through them */
	static const double g7[7] = { 1.0e9, 1.15e9, 1.3e9, 1.45e9, 1.6e9,
	    1.8e9, 2.0e9 };
	static const int pick[8][7] = { {0}, {0}, {0}, { 0, 4, 6 },
	    { 0, 2, 4, 6 }, { 0, 2, 3, 4, 6 }, {0}, { 0, 1, 2, 3, 4, 5, 6 } };
	if (n < 3 || miss == 3) {
	    vf_outcome(r, "R3 n/a: a curved profile needs three points");
	    return;
	}
	vf_desc(r, "R3 set_m_error grid of %d points containing calibration "
		"frequencies, curved sigma_%s, grid %s", n, which ? "tr" :
		"nf", miss == 0 ? "covers the band" : "misses the band");
	for (int i = 0; i < n; ++i)
	    gf[i] = g7[pick[n][i]];
    }
    if (miss == 1)
	for (int i = 0; i < n; ++i) gf[i] = 1.1e9 + (gf[i] - 1e9) * 0.9;
    if (miss == 2)
	for (int i = 0; i < n; ++i) gf[i] = 1.0e9 + (gf[i] - 1e9) * 0.8;
    for (int i = 0; i < n; ++i) {
	double x = (gf[i] - 1e9) / 1e9;
	nfv[i] = 1e-4 * (1.0 + (fn && n > 1 && which == 0 ? 0.7 * x : 0.0));
	trv[i] = 1e-3 * (1.0 + (fn && n > 1 && which == 1 ? 0.5 * x : 0.0));
	if (fn == 2) {
	    double bump = 1.0 + 0.7 * x - 1.9 * x * x + 1.6 * x * x * x +
		0.25 * sin(9.0 * x);
	    if (which == 0) nfv[i] = 1e-4 * bump; else trv[i] = 1e-3 * bump;
	}
    }
    if (miss == 3 && n >= 3) {
	/* ascending but closer than any sane grid: must be refused cleanly
	   or accepted and interpolated, never leak */
	gf[0] = 0.9e9; gf[1] = 0.9e9 + 5e-5; gf[n - 1] = 2.1e9;
	for (int i = 2; i < n - 1; ++i)
	    gf[i] = 1.0e9 + 1.0e8 * i;
    }
    vf_errlog_reset(&elog);
    vcp = vnacal_create((vnaerr_error_fn_t *)vf_errfn, &elog);
    vnp = vnacal_new_alloc(vcp, VNACAL_T8, 1, 1, 4);
    vnacal_new_set_frequency_vector(vnp, cal_f);
    errno = 0;
    /* one value: "frequency_vector is not used and can be specified as
       NULL" - given or not */
    int rc = vnacal_new_set_m_error(vnp, n == 1 && !(spacing & 1) ? NULL : gf,
	    n, nfv, trv);
    int e = errno;
    ++r->transitions;
    if (miss == 3) {
	/* either outcome; leak accounting decides */
	r->nontrivial = 1;
	vf_outcome(r, "R3 degenerate spacing rc=%d", rc);
	goto out;
    }
    if (n >= 2 && miss != 0) {
	if (rc != -1 || e != EINVAL) {
	    snprintf(sig, sizeof(sig), "r3:range-%s", miss == 1 ? "low" :
		    "high");
	    vf_fail(r, sig, "noise grid %.4g..%.4g Hz accepted for the "
		    "calibration band 1e9..2e9 (rc %d errno %d)", gf[0],
		    gf[n - 1], rc, e);
	}
	r->nontrivial = 1;
	vf_outcome(r, "R3 refused");
	goto out;
    }
    if (rc != 0) {
	vf_fail(r, "r3:refused", "covering noise grid refused: %s",
		elog.count ? elog.msg[0] : "");
	goto out;
    }
    double worst = 0;
    for (int k = 0; k < 4; ++k) {
	double x = (cal_f[k] - 1e9) / 1e9;
	double want = which == 0 ?
	    1e-4 * (1.0 + (fn && n > 1 ? 0.7 * x : 0.0)) :
	    1e-3 * (1.0 + (fn && n > 1 ? 0.5 * x : 0.0));
	double got = which == 0 ? vnp->vn_m_error_vector[k].vnme_sigma_nf :
	    vnp->vn_m_error_vector[k].vnme_sigma_tr;
	double err = fabs(got - want) / want;
	/* exact when the calibration frequency is a knot */
	bool knot = false;
	for (int i = 0; i < n; ++i)
	    if (gf[i] == cal_f[k]) knot = true;
	if (fn == 2) {
	    if (!knot)
		continue;	/* between points: nothing claimed */
	    double bump = 1.0 + 0.7 * x - 1.9 * x * x + 1.6 * x * x * x +
		0.25 * sin(9.0 * x);
	    want = (which == 0 ? 1e-4 : 1e-3) * bump;
	    err = fabs(got - want) / want;
	}
	if (!(err <= worst)) worst = err;
	if (!(err <= (knot || n == 1 ? 1e-15 : 1e-9))) {
	    snprintf(sig, sizeof(sig), "r3:value:%s:n%d", which ? "tr" : "nf",
		    n > 3 ? 3 : n);
	    vf_fail(r, sig, "sigma_%s interpolated onto calibration "
		    "frequency %.4g from a %d-point %s grid is %.9g, the "
		    "given dependence is %.9g", which ? "tr" : "nf",
		    cal_f[k], n, fn == 2 ? "curved" : fn ? "linear" : "constant",
		    got, want);
	    goto out;
	}
    }
    r->nontrivial = 1;
    vf_outcome(r, "R3 n=%d err%s", n, worst == 0 ? "=0" : worst < 1e-13 ?
	    "<1e-13" : "<1e-9");
out:
    vnacal_free(vcp);
}

/* ---- R4: correlated-parameter sigma grids --------------------------- */

static void run_r4(int n, int spacing, int fn, int ov, vf_result *r)
{
    double gf[8], sv[8];
    vnacal_t *vcp;
    char sig[120];

    vf_desc(r, "R4 correlated parameter sigma grid of %d points (spacing "
	    "%d), sigma %s in f, %s", n, spacing, fn ? "linear" : "constant",
	    ov == 0 ? "correlated with SHORT" : ov == 1 ? "correlated with "
	    "a vector parameter of the same length and span on another grid" :
	    "NULL sigma grid: borrowed from the vector parameter (through an "
	    "unknown parameter)");
    make_knots(n, spacing, gf);
    vf_errlog_reset(&elog);
    vcp = vnacal_create((vnaerr_error_fn_t *)vf_errfn, &elog);
    int other = VNACAL_SHORT;
    const double *sgrid = gf;
    if (ov != 0) {
	double vf[8];
	double complex vg[8];
	make_knots(n, ov == 1 ? (spacing + 1) % NSPACING : spacing, vf);
	for (int i = 0; i < n; ++i)
	    vg[i] = gen(3, vf[i]);
	int hv = vnacal_make_vector_parameter(vcp, vf, n, vg);
	other = ov == 2 ? vnacal_make_unknown_parameter(vcp, hv) : hv;
	if (hv < 0 || other < 0) {
	    vf_fail(r, "r4:make", "vector/unknown parameter: %s",
		    elog.count ? elog.msg[0] : "");
	    goto out;
	}
	if (ov == 2)
	    sgrid = NULL;
    }
    for (int i = 0; i < n; ++i) {
	double x = (gf[i] - 1e9) / 1e9;
	sv[i] = 0.01 * (1.0 + (fn ? 0.6 * x : 0.0));
    }
    int h = vnacal_make_correlated_parameter(vcp, other,
	    n == 1 ? NULL : sgrid, n, sv);
    ++r->transitions;
    if (h < 0) {
	vf_fail(r, "r4:make", "vnacal_make_correlated_parameter failed: %s",
		elog.count ? elog.msg[0] : "");
	goto out;
    }
    vnacal_parameter_t *vpmrp = _vnacal_get_parameter(vcp, h);
    double worst = 0;
    double q[24];
    int nq = 0;
    for (int i = 0; i < n; ++i) {
	q[nq++] = gf[i];
	if (i + 1 < n) {
	    q[nq++] = 0.5 * (gf[i] + gf[i + 1]);
	    q[nq++] = gf[i] + 0.9 * (gf[i + 1] - gf[i]);
	}
    }
    for (int pass = 0; pass < 2; ++pass)
	for (int kk = 0; kk < nq; ++kk) {
	    int k = pass ? nq - 1 - kk : kk;
	    double x = (q[k] - 1e9) / 1e9;
	    double want = 0.01 * (1.0 + (fn && n > 1 ? 0.6 * x : 0.0));
	    double got = _vnacal_get_correlated_sigma(vpmrp, q[k]);
	    double err = fabs(got - want) / want;
	    ++r->transitions;
	    if (!(err <= worst)) worst = err;
	    if (!(err <= 1e-9)) {
		snprintf(sig, sizeof(sig), "r4:value:n%d", n > 3 ? 3 : n);
		vf_fail(r, sig, "sigma at %.6g Hz from a %d-point %s grid is "
			"%.9g, the given dependence is %.9g", q[k], n,
			fn ? "linear" : "constant", got, want);
		goto out;
	    }
	}
    r->nontrivial = 1;
    vf_outcome(r, "R4 n=%d err%s", n, worst == 0 ? "=0" : worst < 1e-13 ?
	    "<1e-13" : "<1e-9");
out:
    vnacal_free(vcp);
}

/* ---- R5: vector standards inside the solver --------------------------- */
/*
 * One-port T8 calibration on 7 frequencies of an instrument with smooth
 * error terms: short, open, and a load whose reflection follows generating
 * function fn and is tabulated on its own n-knot grid (covering the band).
 * The load is given (role 0) as the vector parameter itself or (role 1) as
 * a parameter correlated with the vector: three standards, three error terms,
 * so the solved load can only be the vector's value at each calibration
 * frequency, and a DUT is corrected exactly - provided the solver reads the
 * vector at the calibration frequency it is working on.
 */
static void run_r5(int n, int spacing, int fn, int role, vf_result *r)
{
    double cf[7], kf[8];
    double complex kg[8];
    vnacal_t *vcp;
    vnacal_new_t *vnp = NULL;
    vnadata_t *vdp = NULL;
    char sig[120];
    static const double sg[1] = { 0.05 };
    double complex m[7], *mp[1] = { m };
    int hv, hl, ci;

    vf_desc(r, "R5 one-port calibration on 7 frequencies; the load follows "
	    "'%s', tabulated on %d knots (spacing %d), given as %s",
	    func_name[fn], n, spacing, role == 0 ? "the vector parameter" :
	    "a parameter correlated with the vector");
    if (n < func_min_m[fn] || n > 7 || n < 2) {
	vf_outcome(r, "R5 n/a: function outside the window's class, or a "
		"single knot that cannot cover the band");
	return;
    }
    make_knots(n, spacing, kf);
    /* calibration frequencies strictly inside the knot span, none on a knot */
    for (int i = 0; i < 7; ++i)
	cf[i] = 1.0e9 + 1.0e9 * (0.035 + 0.93 * i / 6.0);
    for (int i = 0; i < n; ++i)
	kg[i] = gen(fn, kf[i]);
    vf_errlog_reset(&elog);
    vcp = vnacal_create((vnaerr_error_fn_t *)vf_errfn, &elog);
    if (vcp == NULL)
	return;
    hv = vnacal_make_vector_parameter(vcp, kf, n, kg);
    hl = role == 0 ? hv :
	vnacal_make_correlated_parameter(vcp, hv, NULL, 1, sg);
    vnp = vnacal_new_alloc(vcp, VNACAL_T8, 1, 1, 7);
    if (hv < 0 || hl < 0 || vnp == NULL ||
	    vnacal_new_set_frequency_vector(vnp, cf) != 0) {
	vf_fail(r, "r5:setup", "set-up failed: %s",
		elog.count ? elog.msg[0] : "");
	goto out;
    }
#define R5_MEAS(gamma, f) ({ \
	double x_ = ((f) - 1e9) / 1e9; \
	double complex ed_ = 0.05 + 0.02 * I + 0.03 * x_, \
	    er_ = 0.9 * cexp(-0.7 * I * x_), es_ = 0.1 - 0.05 * I * x_; \
	ed_ + er_ * (gamma) / (1.0 - es_ * (gamma)); })
    for (int st = 0; st < 3; ++st) {
	for (int i = 0; i < 7; ++i) {
	    double complex g = st == 0 ? -1.0 : st == 1 ? 1.0 : gen(fn, cf[i]);
	    m[i] = R5_MEAS(g, cf[i]);
	}
	if (vnacal_new_add_single_reflect_m(vnp, mp, 1, 1, st == 0 ?
		    VNACAL_SHORT : st == 1 ? VNACAL_OPEN : hl, 1) != 0) {
	    vf_fail(r, "r5:add", "standard %d refused: %s", st,
		    elog.count ? elog.msg[0] : "");
	    goto out;
	}
    }
    ++r->transitions;
    if (vnacal_new_solve(vnp) != 0) {
	snprintf(sig, sizeof(sig), "r5:solve:role%d", role);
	vf_fail(r, sig, "vnacal_new_solve failed: %s",
		elog.count ? elog.msg[0] : "");
	goto out;
    }
    double worst = 0;
    if (role != 0) {
	for (int i = 0; i < 7; ++i) {
	    double complex got = vnacal_get_parameter_value(vcp, hl, cf[i]);
	    double e = cabs(got - gen(fn, cf[i]));
	    if (!(e <= worst)) worst = e;
	    if (!(e <= 1e-7)) {
		snprintf(sig, sizeof(sig), "r5:solved-value:role%d", role);
		vf_fail(r, sig, "the solved load at %.6g Hz is %.9g%+.9gj, "
			"the tabulated function gives %.9g%+.9gj there",
			cf[i], creal(got), cimag(got), creal(gen(fn, cf[i])),
			cimag(gen(fn, cf[i])));
		goto out;
	    }
	}
    }
    ci = vnacal_add_calibration(vcp, "r5", vnp);
    vdp = vnadata_alloc((vnaerr_error_fn_t *)vf_errfn, &elog);
    if (ci < 0 || vdp == NULL)
	goto out;
    for (int i = 0; i < 7; ++i)
	m[i] = R5_MEAS(0.3 - 0.45 * I + 0.2 * ((cf[i] - 1e9) / 1e9), cf[i]);
#undef R5_MEAS
    if (vnacal_apply_m(vcp, ci, cf, 7, mp, 1, 1, vdp) != 0) {
	vf_fail(r, "r5:apply", "vnacal_apply_m failed: %s",
		elog.count ? elog.msg[0] : "");
	goto out;
    }
    for (int i = 0; i < 7; ++i) {
	double complex want = 0.3 - 0.45 * I + 0.2 * ((cf[i] - 1e9) / 1e9);
	double e = cabs(vnadata_get_cell(vdp, i, 0, 0) - want);
	if (!(e <= worst)) worst = e;
	if (!(e <= 1e-7)) {
	    snprintf(sig, sizeof(sig), "r5:dut:role%d", role);
	    vf_fail(r, sig, "DUT at %.6g Hz corrected with error %.3e", cf[i],
		    e);
	    goto out;
	}
    }
    r->nontrivial = 1;
    vf_outcome(r, "R5 role %d err%s", role, worst < 1e-13 ? "<1e-13" :
	    worst < 1e-10 ? "<1e-10" : "<1e-7");
out:
    if (vdp != NULL)
	vnadata_free(vdp);
    if (vnp != NULL)
	vnacal_new_free(vnp);
    vnacal_free(vcp);
}

/* ---- R6: a vector of one point -------------------------------------- */

/*
 * A vector parameter given at a single frequency is defined there and
 * nowhere else: it reads back its value at that frequency only, and as a
 * standard it is accepted only by a calibration made at that frequency.
 * pos: 0 calibration on the point, 1 below it, 2 above it; nf: 1 or 3
 * calibration frequencies (3: the point is the middle one, or lies outside)
 */
static void run_r6(int pos, int order, int pk, int nf3, vf_result *r)
{
    const double f0 = 1.5e9;
    const double complex v0 = -0.9 + 0.05 * I;
    double cal_f[3];
    int nf = nf3 ? 3 : 1;
    /* three frequencies around the point always reach beyond it */
    bool must_refuse = pos != 0 || nf3;
    vnacal_t *vcp;
    vnacal_new_t *vnp;
    double complex m0[3] = { 0.1, 0.2, 0.3 };
    double complex *mm[1] = { m0 };
    double shift = pos == 0 ? 1.0 : pos == 1 ? 0.5 : 1.6;

    if (nf3) {
	cal_f[0] = 0.8 * f0 * shift;
	cal_f[1] = f0 * shift;
	cal_f[2] = 1.25 * f0 * shift;
    } else {
	cal_f[0] = f0 * shift;
    }
    vf_desc(r, "R6 %s given at the single frequency %.4g Hz, calibration of "
	    "%d frequenc%s %s, %s", pk == 0 ? "vector standard" :
	    "unknown starting from a vector", f0, nf, nf == 1 ? "y" : "ies",
	    pos == 0 ? (nf3 ? "around that point" : "at that point") :
	    pos == 1 ? "below it" : "above it", order == 0 ?
	    "set_frequency_vector first" : "standard added first");
    vf_errlog_reset(&elog);
    vcp = vnacal_create((vnaerr_error_fn_t *)vf_errfn, &elog);
    int hv = vnacal_make_vector_parameter(vcp, &f0, 1, &v0);
    int h = pk == 0 ? hv : vnacal_make_unknown_parameter(vcp, hv);
    if (hv < 0 || h < 0) {
	vf_fail(r, "r6:setup", "one-point parameter could not be made: %s",
		elog.count ? elog.msg[0] : "");
	vnacal_free(vcp);
	return;
    }
    /* reading the value */
    {
	double complex g = vnacal_get_parameter_value(vcp, hv, f0);
	++r->transitions;
	if (g != v0)
	    vf_fail(r, "r6:value", "a one-point vector reads %g%+gj at its "
		    "frequency, was made as %g%+gj", creal(g), cimag(g),
		    creal(v0), cimag(v0));
	for (int k = 0; k < 2 && r->status == VF_OK; ++k) {
	    errno = 0;
	    g = vnacal_get_parameter_value(vcp, hv, k ? 1.5 * f0 : 0.6 * f0);
	    ++r->transitions;
	    if (creal(g) != HUGE_VAL || errno != EINVAL)
		vf_fail(r, "r6:out-of-range-value", "a vector given at "
			"%.4g Hz only has the value %g%+gj at %.4g Hz (errno "
			"%d)", f0, creal(g), cimag(g), k ? 1.5 * f0 :
			0.6 * f0, errno);
	}
    }
    vnp = vnacal_new_alloc(vcp, VNACAL_T8, 1, 1, nf);
    int rc1, rc2;
    if (order == 0) {
	rc1 = vnacal_new_set_frequency_vector(vnp, cal_f);
	errno = 0;
	rc2 = vnacal_new_add_single_reflect_m(vnp, mm, 1, 1, h, 1);
    } else {
	rc1 = vnacal_new_add_single_reflect_m(vnp, mm, 1, 1, h, 1);
	errno = 0;
	rc2 = vnacal_new_set_frequency_vector(vnp, cal_f);
    }
    int e = errno;
    r->transitions += 2;
    if (r->status != VF_OK) {
	;
    } else if (rc1 != 0) {
	vf_fail(r, "r6:setup", "first call failed: %s",
		elog.count ? elog.msg[0] : "");
    } else if (must_refuse && (rc2 != -1 || e != EINVAL)) {
	vf_fail(r, "r6:off-point-accepted", "a standard given at %.4g Hz "
		"only was accepted for a calibration on %.4g..%.4g Hz (rc %d "
		"errno %d)", f0, cal_f[0], cal_f[nf - 1], rc2, e);
    } else if (!must_refuse && rc2 != 0) {
	vf_fail(r, "r6:on-point-refused", "a standard given at %.4g Hz was "
		"refused for a calibration at that frequency: %s", f0,
		elog.count ? elog.msg[0] : "");
    }
    r->nontrivial = 1;
    vf_outcome(r, "R6 %s", must_refuse ? "refused" : "accepted");
    vnacal_free(vcp);
}
#define N_R6 (3 * 2 * 2 * 2)

/* ---- R7: frequencies set again between two solves ------------------- */

/*
 * The frequency vector of a vnacal_new_t may be set again; the calibration
 * that the next solve produces carries the frequencies in force then, also
 * when an earlier solve's result was never added to the vnacal_t.
 */
static void run_r7(int typei, int pending, vf_result *r)
{
    static const vnacal_type_t tt[2] = { VNACAL_T8, VNACAL_E12 };
    const double band_a[3] = { 1.0e9, 1.5e9, 2.0e9 };
    const double band_b[3] = { 5.0e9, 6.0e9, 8.0e9 };
    static const int par[3] = { VNACAL_SHORT, VNACAL_OPEN, VNACAL_MATCH };
    static const double complex gam[3] = { -1.0, 1.0, 0.0 };
    vnacal_t *vcp;
    vnacal_new_t *vnp;
    int ci = -1;

    vf_desc(r, "R7 %s 1x1: solved on 1..2 GHz%s, frequencies set again to "
	    "5..8 GHz, solved again and added: the calibration carries the "
	    "second set", vnacal_type_to_name(tt[typei]), pending ?
	    " (result not added)" : " (result added under another name)");
    vf_errlog_reset(&elog);
    vcp = vnacal_create((vnaerr_error_fn_t *)vf_errfn, &elog);
    vnp = vnacal_new_alloc(vcp, tt[typei], 1, 1, 3);
    if (vcp == NULL || vnp == NULL ||
	    vnacal_new_set_frequency_vector(vnp, band_a) != 0) {
	vf_fail(r, "r7:setup", "set-up failed");
	goto out;
    }
    for (int k = 0; k < 3; ++k) {
	double complex m0[3];
	double complex *mm[1] = { m0 };
	for (int f = 0; f < 3; ++f)
	    m0[f] = (0.03 + 0.02 * I) + (0.9 - 0.15 * I + 0.01 * f) * gam[k] /
		(1.0 - (-0.05 + 0.1 * I) * gam[k]);
	if (vnacal_new_add_single_reflect_m(vnp, mm, 1, 1, par[k], 1) != 0) {
	    vf_fail(r, "r7:setup", "standard rejected: %s",
		    elog.count ? elog.msg[0] : "");
	    goto out;
	}
    }
    if (vnacal_new_solve(vnp) != 0) {
	vf_fail(r, "r7:setup", "first solve failed: %s",
		elog.count ? elog.msg[0] : "");
	goto out;
    }
    if (!pending && vnacal_add_calibration(vcp, "first", vnp) < 0) {
	vf_fail(r, "r7:setup", "first add failed");
	goto out;
    }
    r->transitions += 6;
    if (vnacal_new_set_frequency_vector(vnp, band_b) != 0 ||
	    vnacal_new_solve(vnp) != 0 ||
	    (ci = vnacal_add_calibration(vcp, "second", vnp)) < 0) {
	vf_fail(r, "r7:second", "setting the frequencies again, solving and "
		"adding failed: %s", elog.count ? elog.msg[0] : "");
	goto out;
    }
    {
	const double *fv = vnacal_get_frequency_vector(vcp, ci);
	double complex mv[1] = { 0.4 + 0.1 * I };
	double complex *mp[1] = { mv };
	vnadata_t *vdp = vnadata_alloc((vnaerr_error_fn_t *)vf_errfn, &elog);
	for (int f = 0; f < 3; ++f)
	    if (fv == NULL || fv[f] != band_b[f]) {
		vf_fail(r, "r7:stale-frequencies", "calibration solved "
			"after the frequencies were set to %g, %g, %g Hz "
			"reports frequency %d as %g Hz", band_b[0], band_b[1],
			band_b[2], f, fv ? fv[f] : -1.0);
		break;
	    }
	if (r->status == VF_OK && (vnacal_get_fmin(vcp, ci) != band_b[0] ||
		    vnacal_get_fmax(vcp, ci) != band_b[2]))
	    vf_fail(r, "r7:stale-frequencies", "fmin/fmax are %g/%g Hz",
		    vnacal_get_fmin(vcp, ci), vnacal_get_fmax(vcp, ci));
	if (r->status == VF_OK && vdp != NULL) {
	    /* inside the first band only: outside this calibration */
	    errno = 0;
	    int rc = vnacal_apply_m(vcp, ci, &band_a[1], 1, mp, 1, 1, vdp);
	    if (rc != -1 || errno != EINVAL)
		vf_fail(r, "r7:old-band-accepted", "apply at %g Hz, inside "
			"the first band and far below the second, returned "
			"%d errno %d", band_a[1], rc, errno);
	    vf_errlog_reset(&elog);
	    rc = vnacal_apply_m(vcp, ci, &band_b[1], 1, mp, 1, 1, vdp);
	    if (r->status == VF_OK && rc != 0)
		vf_fail(r, "r7:new-band-refused", "apply at %g Hz, a "
			"frequency of the calibration, failed: %s", band_b[1],
			elog.count ? elog.msg[0] : "");
	    r->transitions += 2;
	}
	vnadata_free(vdp);
    }
    r->nontrivial = 1;
    vf_outcome(r, "R7 %s", pending ? "pending" : "added");
out:
    if (vnp != NULL)
	vnacal_new_free(vnp);
    vnacal_free(vcp);
}
#define N_R7 (2 * 2)

/* ---- R8: values proportional to frequency, read at sums of knots ------ */
/*
 * A tabulated value proportional to frequency is a rational function of the
 * lowest order there is, and is read back at every frequency that is the sum
 * of two knot frequencies (where a lower-order member of the interpolation
 * tableau has a pole although the result has none), and next to it.
 */
#define N_R8 3
static void run_r8(int which, vf_result *r)
{
    static const double grid[3][5] = {
	{ 1.0e9, 2.5e9, 4.0e9, 5.5e9, 7.0e9 },
	{ 1.0e9, 1.5e9, 2.5e9, 4.5e9, 8.5e9 },
	{ 2.0e9, 3.0e9, 7.0e9, 8.0e9, 9.5e9 } };
    const double *fk = grid[which];
    double complex gk[5];
    vnacal_t *vcp;
    int p, nq = 0;

    vf_desc(r, "R8 vector parameter 1e-10 f (1+0.5j) on the knots %g, %g, "
	    "%g, %g, %g Hz, read at every sum of two knots inside the range "
	    "and 1 %% beside it", fk[0], fk[1], fk[2], fk[3], fk[4]);
    vf_errlog_reset(&elog);
    vcp = vnacal_create((vnaerr_error_fn_t *)vf_errfn, &elog);
    for (int i = 0; i < 5; ++i)
	gk[i] = 1e-10 * fk[i] * (1.0 + 0.5 * I);
    p = vcp ? vnacal_make_vector_parameter(vcp, fk, 5, gk) : -1;
    if (p < 0) {
	vf_fail(r, "r8:setup", "set-up failed");
	if (vcp) vnacal_free(vcp);
	return;
    }
    for (int a = 0; a < 5 && r->status == VF_OK; ++a)
	for (int b = a; b < 5 && r->status == VF_OK; ++b)
	    for (int side = -1; side <= 1; ++side) {
		double f = (fk[a] + fk[b]) * (1.0 + 0.01 * side);
		if (f < fk[0] || f > fk[4])
		    continue;
		double complex want = 1e-10 * f * (1.0 + 0.5 * I);
		double complex got = vnacal_get_parameter_value(vcp, p, f);
		++r->transitions;
		++nq;
		if (!(cabs(got - want) <= 1e-9 * cabs(want))) {
		    vf_fail(r, "r8:value", "the value 1e-10 f (1+0.5j) "
			    "tabulated at 5 knots reads %.9g%+.9gj at %.10g "
			    "Hz (%s the sum of the knots %g and %g), not "
			    "%.9g%+.9gj", creal(got), cimag(got), f,
			    side ? "1 % beside" : "exactly", fk[a], fk[b],
			    creal(want), cimag(want));
		    break;
		}
	    }
    (void)vnacal_delete_parameter(vcp, p);
    vnacal_free(vcp);
    r->nontrivial = nq > 0;
    r->states = nq;
    if (r->status == VF_OK)
	vf_outcome(r, "R8 linear data read at %s", nq ? "sums of knots" :
		"nothing");
}

/* ---- case space ------------------------------------------------------ */

#define N_R0 (7 * NSPACING * NFUNC)
#define NGRIDN 6
#define N_R1 (5 * 3 * 3 * 2 * 5)
static int n_r2(int tier) { return 8 * 2 * (tier ? 3 : 1); }
#define N_R3 (NGRIDN * NSPACING * 3 * 2 * 4)
#define N_R4 (NGRIDN * NSPACING * 2 * 3)
#define N_R5 (NGRIDN * NSPACING * 7 * 2)
/* 4 is also the number of calibration frequencies of R3: a grid of the
   same length and span that is still a different grid */
static const int grid_n[NGRIDN] = { 1, 2, 3, 4, 5, 7 };

static long count(int tier)
{
    return N_R0 + N_R1 + n_r2(tier) + N_R3 + N_R4 + N_R5 + N_R6 + N_R7
	+ N_R8;
}

static void run(int tier, long idx, vf_result *r)
{
    unsigned long mark = vf_exec_begin();
    if (idx < N_R0) {
	int fn = vf_digit(&idx, NFUNC);
	int sp = vf_digit(&idx, NSPACING);
	run_r0((int)idx + 1, sp, fn, r);
    } else if ((idx -= N_R0) < N_R1) {
	int pk = vf_digit(&idx, 5);
	int typei = vf_digit(&idx, 2);
	int order = vf_digit(&idx, 3);
	int am = vf_digit(&idx, 3);
	run_r1((int)idx, am, order, typei, pk, r);
    } else if ((idx -= N_R1) < n_r2(tier)) {
	int typei = vf_digit(&idx, 8);
	int nfi = vf_digit(&idx, 2);
	run_r2(typei, nfi, tier ? (int)idx : 2, r);
    } else if ((idx -= n_r2(tier)) < N_R3) {
	int miss = vf_digit(&idx, 4);
	int which = vf_digit(&idx, 2);
	int fn = vf_digit(&idx, 3);
	int sp = vf_digit(&idx, NSPACING);
	run_r3(grid_n[idx], sp, fn, which, miss, r);
    } else if ((idx -= N_R3) < N_R4) {
	int ov = vf_digit(&idx, 3);
	int fn = vf_digit(&idx, 2);
	int sp = vf_digit(&idx, NSPACING);
	run_r4(grid_n[idx], sp, fn, ov, r);
    } else if (idx - N_R4 >= N_R5 + N_R6 + N_R7) {
	run_r8((int)(idx - N_R4 - N_R5 - N_R6 - N_R7), r);
    } else if (idx - N_R4 >= N_R5 + N_R6) {
	idx -= N_R4 + N_R5 + N_R6;
	int pending = vf_digit(&idx, 2);
	run_r7((int)idx, pending, r);
    } else if (idx - N_R4 >= N_R5) {
	idx -= N_R4 + N_R5;
	int nf3 = vf_digit(&idx, 2);
	int pk = vf_digit(&idx, 2);
	int order = vf_digit(&idx, 2);
	run_r6((int)idx, order, pk, nf3, r);
    } else {
	idx -= N_R4;
	int role = vf_digit(&idx, 2);
	int fn = vf_digit(&idx, 7);
	int sp = vf_digit(&idx, NSPACING);
	run_r5(grid_n[idx], sp, fn, role, r);
    }
    vf_exec_end(r, mark);
}

vf_driver vf_drv = {
    .property = "C10",
    .rule = "cases per route: R0 (knot count 1..7 x spacing x generating "
	"function) each with all knots, midpoints, ends, all 120 orders of a "
	"5-query set and 6 out-of-range queries; R1 (coverage kind x miss "
	"amount x call order x type); R2 (type x grid size x network) "
	"applying at all midpoints / 10 % points / knots in batch and one by "
	"one in reverse, plus 6 out-of-range requests; R3 (noise grid size x "
	"spacing x dependence x vector x coverage); R4 (sigma grid size x "
	"spacing x dependence); R5 (vector standards through a solve); R6 "
	"(a one-point vector on, below and above a calibration of 1 or 3 "
	"frequencies x call order x parameter kind); R7 (frequencies set again "
	"between two solves, with the first result pending or added); a "
	"case is non-trivial when it reached its "
	"comparisons; 'between knots' exactness is only required for "
	"functions inside the class the documented window reproduces",
    .count = count,
    .run = run,
};
