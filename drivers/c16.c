/*
 * C16: calibration and parameter handles stay valid, distinct and correctly
 * indexed.
 *
 * BFS over operation histories on one vnacal_t with up to two vnacal_new_t
 * (config 0: T8 1x1, two frequencies, z0 50; config 1: E12 1x1, one
 * frequency, z0 75-5j) against a plain reference model: a slot table of
 * named calibrations and a table of parameter objects with user handles.
 *
 * The model never predicts WHICH number a new handle or a new calibration
 * index gets (not documented); it requires that the number returned is not
 * in use and that every query function afterwards honours it.
 *
 * The initial state already holds vnacal_new_t #0 with the four standards
 * {short, open, match, short} added (not solved) so that the calibration
 * slot histories start at depth 1.
 */
#include <complex.h>
#include <errno.h>
#include <math.h>
#include <stdio.h>
#include <stdlib.h>
#include <string.h>
#include <vnacal.h>
#include <vnadata.h>
#include "vf.h"

typedef double complex cx;

#define NPREDEF 3		/* VNACAL_MATCH, VNACAL_OPEN, VNACAL_SHORT */

/* ------------------------------------------------------------------ */
/* the two VNA configurations                                          */

typedef struct {
    vnacal_type_t type;
    int nf;
    double f[2];
    cx z0;
    cx el[2], er[2], em[2];
} cfg_t;

#define F0 1.0e9
#define F1 2.0e9

static const cfg_t cfg[2] = {
    { VNACAL_T8, 2, { F0, F1 }, 50.0,
	{ 0.05 + 0.02 * I, 0.07 - 0.03 * I },
	{ 0.90 - 0.10 * I, 0.85 + 0.12 * I },
	{ 0.10 + 0.05 * I, -0.08 + 0.11 * I } },
    { VNACAL_E12, 1, { F0, 0.0 }, 75.0 - 5.0 * I,
	{ -0.04 + 0.06 * I, 0 },
	{ 0.80 + 0.20 * I, 0 },
	{ 0.15 - 0.10 * I, 0 } },
};

static cx meas(int k, int fi, cx g)
{
    return cfg[k].el[fi] + cfg[k].er[fi] * g / (1.0 - cfg[k].em[fi] * g);
}

static const cx DUT = 0.3 - 0.2 * I;
static const cx DELTA = 0.04 - 0.03 * I;	/* unknown truth - guess */
static const cx scalar_alpha[3] = { 0.5, -1.0, 0.25 * I };
static const cx vector_val[2] = { 0.2 + 0.1 * I, -0.3 + 0.4 * I };
static const char *const names[3] = { "a", "b", "c" };

#define TOL_TIGHT 1e-8
#define TOL_LOOSE 1e-6		/* anything that went through iteration */

/* ------------------------------------------------------------------ */
/* operation alphabet                                                  */

enum { OP_SCALAR, OP_VECTOR, OP_UNKNOWN, OP_CORR, OP_DELPARAM, OP_ALLOC,
    OP_ADDSTD, OP_SOLVE, OP_ADDCAL, OP_DELCAL, OP_PROPSET, OP_FREE };
/* handle selectors */
enum { H_SLOT0, H_SLOT1, H_SLOT2, H_MATCH, H_SHORT, H_NEG, H_99 };
static const char *const hname[] = { "slot0", "slot1", "slot2", "MATCH",
    "SHORT", "-1", "99" };

typedef struct { int kind, a, b; } op_t;
static op_t optab[80];
static int n_ops;

static void addop(int kind, int a, int b)
{
    optab[n_ops].kind = kind;
    optab[n_ops].a = a;
    optab[n_ops].b = b;
    ++n_ops;
}

static void build_ops(void)
{
    static const int h_unknown[] = { H_SLOT0, H_SLOT1, H_SLOT2, H_MATCH,
	H_NEG, H_99 };
    static const int h_corr[] = { H_SLOT0, H_SLOT1, H_SLOT2, H_MATCH, H_99 };
    static const int h_del[] = { H_SLOT0, H_SLOT1, H_SLOT2, H_MATCH, H_NEG,
	H_99 };
    static const int h_std[] = { H_SLOT0, H_SLOT1, H_SLOT2, H_SHORT, H_NEG };

    if (n_ops)
	return;
    for (int i = 0; i < 3; ++i) addop(OP_SCALAR, i, 0);
    addop(OP_VECTOR, 0, 0);
    for (int i = 0; i < 6; ++i) addop(OP_UNKNOWN, h_unknown[i], 0);
    for (int i = 0; i < 5; ++i) addop(OP_CORR, h_corr[i], 0);
    for (int i = 0; i < 6; ++i) addop(OP_DELPARAM, h_del[i], 0);
    for (int k = 0; k < 2; ++k) addop(OP_ALLOC, k, 0);
    for (int k = 0; k < 2; ++k)
	for (int i = 0; i < 5; ++i) addop(OP_ADDSTD, k, h_std[i]);
    for (int k = 0; k < 2; ++k) addop(OP_SOLVE, k, 0);
    for (int nm = 0; nm < 3; ++nm)
	for (int k = 0; k < 2; ++k) addop(OP_ADDCAL, nm, k);
    for (int ci = -1; ci <= 3; ++ci) addop(OP_DELCAL, ci, 0);
    for (int ci = -1; ci <= 2; ++ci) addop(OP_PROPSET, ci, 0);
    for (int k = 0; k < 2; ++k) addop(OP_FREE, k, 0);
}

static int nops(int tier) { (void)tier; build_ops(); return n_ops; }
static int maxdepth(int tier) { return tier ? 7 : 5; }

static void op_name(int tier, int op, char *buf, size_t n)
{
    (void)tier;
    build_ops();
    const op_t *o = &optab[op];
    switch (o->kind) {
    case OP_SCALAR:
	snprintf(buf, n, "make_scalar(%g%+gj)", creal(scalar_alpha[o->a]),
		cimag(scalar_alpha[o->a]));
	break;
    case OP_VECTOR: snprintf(buf, n, "make_vector(2 points)"); break;
    case OP_UNKNOWN: snprintf(buf, n, "make_unknown(%s)", hname[o->a]); break;
    case OP_CORR: snprintf(buf, n, "make_correlated(%s)", hname[o->a]); break;
    case OP_DELPARAM:
	snprintf(buf, n, "delete_parameter(%s)", hname[o->a]);
	break;
    case OP_ALLOC: snprintf(buf, n, "new_alloc(vnp%d)", o->a); break;
    case OP_ADDSTD:
	snprintf(buf, n, "add_standards(vnp%d,{%s,O,M,S})", o->a, hname[o->b]);
	break;
    case OP_SOLVE: snprintf(buf, n, "solve(vnp%d)", o->a); break;
    case OP_ADDCAL:
	snprintf(buf, n, "add_calibration(%s,vnp%d)", names[o->a], o->b);
	break;
    case OP_DELCAL: snprintf(buf, n, "delete_calibration(%d)", o->a); break;
    case OP_PROPSET: snprintf(buf, n, "property_set(%d,p)", o->a); break;
    case OP_FREE: snprintf(buf, n, "new_free(vnp%d)", o->a); break;
    default: snprintf(buf, n, "?"); break;
    }
}

/* ------------------------------------------------------------------ */
/* reference model                                                     */

enum { PK_SCALAR, PK_VECTOR, PK_UNKNOWN, PK_CORR };
typedef struct {
    int kind;
    cx v[2];			/* scalar / vector value at F0, F1 */
    int other;			/* object index (unknown, correlated) */
    int solved;			/* -1, or config of the most recent solve */
    int handle;			/* number the library gave */
    int live;			/* the user's handle is valid */
    int canon;
} mparam;

#define MAXOBJ 48
#define MAXCI 16
typedef struct {
    mparam obj[MAXOBJ];
    int nobj;
    struct { int state, obj, handle; } slot[3];	/* 0 never 1 live 2 stale */
    struct { int alloc, has_std, pobj, pending, loose; } vn[2];
    struct { int live, name, cfg, loose, prop; } cal[MAXCI];
    int gprop;
} model;

static void model_init(model *m)
{
    memset(m, 0, sizeof(*m));
    static const cx pv[3] = { 0.0, 1.0, -1.0 };
    for (int i = 0; i < 3; ++i) {
	m->obj[i].kind = PK_SCALAR;
	m->obj[i].v[0] = m->obj[i].v[1] = pv[i];
	m->obj[i].other = -1;
	m->obj[i].solved = -1;
	m->obj[i].handle = i;
	m->obj[i].live = 1;
    }
    m->nobj = 3;
    m->vn[0].pobj = m->vn[1].pobj = -1;
}

static bool is_known(const model *m, int o)
{
    return m->obj[o].kind == PK_SCALAR || m->obj[o].kind == PK_VECTOR;
}

/* physical value of the standard the parameter stands for */
static cx truth(const model *m, int o, int fi)
{
    const mparam *p = &m->obj[o];
    switch (p->kind) {
    case PK_SCALAR:
    case PK_VECTOR:
	return p->v[fi];
    case PK_UNKNOWN:
	return truth(m, p->other, fi) + DELTA;
    default:
	return truth(m, p->other, fi);
    }
}

/* resolve a handle selector: returns the int to pass and the object the
   library must understand by it (-1: must be rejected) */
static int resolve(const model *m, int sel, int *obj)
{
    *obj = -1;
    switch (sel) {
    case H_SLOT0: case H_SLOT1: case H_SLOT2: {
	int k = sel - H_SLOT0;
	if (m->slot[k].state == 0)
	    return 90 + k;
	if (m->slot[k].state == 1) {
	    *obj = m->slot[k].obj;
	    return m->slot[k].handle;
	}
	for (int j = 0; j < 3; ++j)	/* stale number given out again? */
	    if (m->slot[j].state == 1 && m->slot[j].handle == m->slot[k].handle)
		*obj = m->slot[j].obj;
	return m->slot[k].handle;
    }
    case H_MATCH: *obj = 0; return VNACAL_MATCH;
    case H_SHORT: *obj = 2; return VNACAL_SHORT;
    case H_NEG: return -1;
    default: return 99;
    }
}

static int free_slot(const model *m)
{
    for (int k = 0; k < 3; ++k)
	if (m->slot[k].state != 1)
	    return k;
    return -1;
}

/* a new user parameter: the handle must be fresh */
static int model_new_param(model *m, vf_result *r, const char *fn, int handle,
	int kind, const cx *v, int other)
{
    int k = free_slot(m);
    if (handle < NPREDEF) {
	vf_fail(r, "handle-not-unique", "%s returned handle %d which is a "
		"predefined parameter", fn, handle);
	return -1;
    }
    for (int j = 0; j < 3; ++j) {
	if (m->slot[j].state == 1 && m->slot[j].handle == handle) {
	    vf_fail(r, "handle-not-unique", "%s returned handle %d which is "
		    "still live (model slot %d)", fn, handle, j);
	    return -1;
	}
    }
    if (m->nobj >= MAXOBJ) {
	vf_fail(r, "harness:objects", "model object arena exhausted");
	return -1;
    }
    mparam *p = &m->obj[m->nobj];
    memset(p, 0, sizeof(*p));
    p->kind = kind;
    if (v != NULL) {
	p->v[0] = v[0];
	p->v[1] = v[1];
    }
    p->other = other;
    p->solved = -1;
    p->handle = handle;
    p->live = 1;
    m->slot[k].state = 1;
    m->slot[k].obj = m->nobj;
    m->slot[k].handle = handle;
    return m->nobj++;
}

/* canonical key */
static void canon_visit(model *m, int o, int *next)
{
    while (o >= 0 && m->obj[o].canon < 0) {
	m->obj[o].canon = (*next)++;
	o = m->obj[o].other;
    }
}

static void model_key(model *m, vf_result *r)
{
    int next = 3;
    int order[MAXOBJ];

    for (int i = 0; i < m->nobj; ++i)
	m->obj[i].canon = i < 3 ? i : -1;
    for (int k = 0; k < 3; ++k)
	if (m->slot[k].state == 1)
	    canon_visit(m, m->slot[k].obj, &next);
    for (int k = 0; k < 2; ++k)
	if (m->vn[k].alloc && m->vn[k].has_std)
	    canon_visit(m, m->vn[k].pobj, &next);
    for (int i = 0; i < m->nobj; ++i)
	if (m->obj[i].canon >= 0)
	    order[m->obj[i].canon] = i;
    vf_key_append(r, "S");
    for (int k = 0; k < 3; ++k) {
	if (m->slot[k].state == 1) {
	    vf_key_append(r, "L%d,", m->obj[m->slot[k].obj].canon);
	} else if (m->slot[k].state == 2) {
	    int alias = -1, held = 0;
	    for (int j = 0; j < 3; ++j)
		if (m->slot[j].state == 1 &&
			m->slot[j].handle == m->slot[k].handle)
		    alias = j;
	    (void)held;
	    vf_key_append(r, "s%d,", alias);
	} else {
	    vf_key_append(r, "n,");
	}
    }
    vf_key_append(r, "|O");
    for (int c = 3; c < next; ++c) {
	const mparam *p = &m->obj[order[c]];
	int vi = 0;
	if (p->kind == PK_SCALAR)
	    for (int i = 0; i < 3; ++i)
		if (p->v[0] == scalar_alpha[i])
		    vi = i;
	vf_key_append(r, "%d.%d.%d.%d.%d,", p->kind, vi,
		p->other >= 0 ? m->obj[p->other].canon : -1, p->solved,
		p->live);
    }
    vf_key_append(r, "|V");
    for (int k = 0; k < 2; ++k) {
	if (!m->vn[k].alloc)
	    vf_key_append(r, "-,");
	else
	    vf_key_append(r, "%d.%d.%d.%d,", m->vn[k].has_std,
		    m->vn[k].has_std ? m->obj[m->vn[k].pobj].canon : -1,
		    m->vn[k].pending, m->vn[k].pending ? m->vn[k].loose : 0);
    }
    vf_key_append(r, "|C");
    for (int ci = 0; ci < MAXCI; ++ci) {
	if (m->cal[ci].live)
	    vf_key_append(r, "%d:%s.%d.%d.%d,", ci, names[m->cal[ci].name],
		    m->cal[ci].cfg, m->cal[ci].loose, m->cal[ci].prop);
    }
    vf_key_append(r, "|G%d", m->gprop);
}

/* ------------------------------------------------------------------ */
/* execution context                                                   */

typedef struct {
    vnacal_t *vcp;
    vnacal_new_t *vnp[2];
    vf_errlog elog;
    model m;
    vf_result *r;
    int issued;			/* the current op reached the library */
} ctx_t;

static bool bad_errno(int e, int want1, int want2)
{
    return e != want1 && e != want2;
}

/* expect a failure that is reported through the error function */
static void expect_loud(ctx_t *c, const char *fn, long rc, int e, int before,
	int want_errno)
{
    char sig[100];
    if (rc != -1) {
	snprintf(sig, sizeof(sig), "accepted-invalid:%s", fn);
	vf_fail(c->r, sig, "%s accepted an invalid argument (returned %ld)",
		fn, rc);
    } else if (e != want_errno) {
	snprintf(sig, sizeof(sig), "errno:%s", fn);
	vf_fail(c->r, sig, "%s failed with errno %d, expected %d", fn, e,
		want_errno);
    } else if (c->elog.nonwarn <= before) {
	snprintf(sig, sizeof(sig), "no-error-callback:%s", fn);
	vf_fail(c->r, sig, "%s failed without calling the error function",
		fn);
    }
}

static void expect_ok(ctx_t *c, const char *fn, long rc, int before)
{
    char sig[100];
    if (rc < 0) {
	snprintf(sig, sizeof(sig), "rejected-valid:%s", fn);
	vf_fail(c->r, sig, "%s failed (%ld, errno %d) on a valid request: %s",
		fn, rc, errno, c->elog.count > 0 ?
		c->elog.msg[(c->elog.count - 1) % VF_ERRLOG_MAX] : "");
    } else if (c->elog.nonwarn != before) {
	snprintf(sig, sizeof(sig), "spurious-error-callback:%s", fn);
	vf_fail(c->r, sig, "%s succeeded but called the error function: %s",
		fn, c->elog.msg[(c->elog.count - 1) % VF_ERRLOG_MAX]);
    }
}

static int do_alloc(ctx_t *c, int k)
{
    const cfg_t *g = &cfg[k];
    vnacal_new_t *vnp = vnacal_new_alloc(c->vcp, g->type, 1, 1, g->nf);
    if (vnp == NULL) {
	vf_fail(c->r, "rejected-valid:vnacal_new_alloc", "vnacal_new_alloc "
		"failed, errno %d", errno);
	return -1;
    }
    c->vnp[k] = vnp;
    if (vnacal_new_set_frequency_vector(vnp, g->f) != 0 ||
	    vnacal_new_set_z0(vnp, g->z0) != 0 ||
	    vnacal_new_set_p_tolerance(vnp, 1e-9) != 0 ||
	    vnacal_new_set_et_tolerance(vnp, 1e-9) != 0) {
	vf_fail(c->r, "rejected-valid:vnacal_new_set", "vnacal_new_set_* "
		"failed, errno %d", errno);
	return -1;
    }
    c->m.vn[k].alloc = 1;
    c->m.vn[k].has_std = 0;
    c->m.vn[k].pobj = -1;
    c->m.vn[k].pending = 0;
    c->r->transitions += 3;
    return 0;
}

static int add_reflect(ctx_t *c, int k, int handle, const cx *g)
{
    cx mv[2];
    cx *mp[1] = { mv };
    for (int fi = 0; fi < cfg[k].nf; ++fi)
	mv[fi] = meas(k, fi, g[fi]);
    errno = 0;
    ++c->r->transitions;
    return vnacal_new_add_single_reflect_m(c->vnp[k], mp, 1, 1, handle, 1);
}

/* add {p, open, match, short}; p first so that a rejected p leaves the
   object without standards */
static void do_addstd(ctx_t *c, int k, int sel)
{
    model *m = &c->m;
    int obj, handle = resolve(m, sel, &obj);
    int before = c->elog.nonwarn;
    cx g[2];

    if (obj >= 0) {
	const mparam *p = &m->obj[obj];
	/* outside the documented/modelled use: leave out */
	if (p->kind == PK_CORR && (!is_known(m, p->other) ||
		    !m->obj[p->other].live))
	    return;
	g[0] = truth(m, obj, 0);
	g[1] = truth(m, obj, 1);
    } else {
	g[0] = g[1] = 0.5;
    }
    c->issued = 1;
    int rc = add_reflect(c, k, handle, g);
    int e = errno;
    if (obj < 0) {
	expect_loud(c, "vnacal_new_add_single_reflect_m", rc, e, before,
		EINVAL);
	return;
    }
    expect_ok(c, "vnacal_new_add_single_reflect_m", rc, before);
    if (rc != 0)
	return;
    static const cx o[2] = { 1, 1 }, z[2] = { 0, 0 }, s[2] = { -1, -1 };
    if (add_reflect(c, k, VNACAL_OPEN, o) != 0 ||
	    add_reflect(c, k, VNACAL_MATCH, z) != 0 ||
	    add_reflect(c, k, VNACAL_SHORT, s) != 0) {
	vf_fail(c->r, "rejected-valid:vnacal_new_add_single_reflect_m",
		"predefined standard rejected: %s", c->elog.count ?
		c->elog.msg[(c->elog.count - 1) % VF_ERRLOG_MAX] : "");
	return;
    }
    m->vn[k].has_std = 1;
    m->vn[k].pobj = obj;
    m->vn[k].pending = 0;
}

/* model effect of a successful solve */
static void model_solved(model *m, int k)
{
    int o = m->vn[k].pobj;
    m->vn[k].pending = 1;
    m->vn[k].loose = !is_known(m, o);
    if (!is_known(m, o))
	m->obj[o].solved = k;
}

static int do_solve(ctx_t *c, int k)
{
    model *m = &c->m;
    int before = c->elog.nonwarn;

    c->issued = 1;
    errno = 0;
    int rc = vnacal_new_solve(c->vnp[k]);
    int e = errno;
    ++c->r->transitions;
    if (!m->vn[k].has_std) {
	expect_loud(c, "vnacal_new_solve", rc, e, before, EDOM);
	return -1;
    }
    expect_ok(c, "vnacal_new_solve", rc, before);
    if (rc != 0)
	return -1;
    model_solved(m, k);
    return 0;
}

static void do_addcal(ctx_t *c, int nm, int k)
{
    model *m = &c->m;

    if (m->vn[k].has_std && !m->vn[k].pending) {
	if (do_solve(c, k) != 0)
	    return;
    }
    int before = c->elog.nonwarn;
    c->issued = 1;
    /* when the name is in use, hand over the pointer the library itself
       returns for it (refreshing a slot in place): the stored name must be
       copied before the calibration that owns it is released */
    const char *nmptr = names[nm];
    for (int j = 0; j < MAXCI; ++j)
	if (m->cal[j].live && m->cal[j].name == nm) {
	    const char *lib = vnacal_get_name(c->vcp, j);
	    if (lib != NULL && strcmp(lib, names[nm]) == 0)
		nmptr = lib;
	}
    errno = 0;
    int ci = vnacal_add_calibration(c->vcp, nmptr, c->vnp[k]);
    int e = errno;
    ++c->r->transitions;
    if (!m->vn[k].pending) {
	expect_loud(c, "vnacal_add_calibration", ci, e, before, EINVAL);
	return;
    }
    expect_ok(c, "vnacal_add_calibration", ci, before);
    if (ci < 0)
	return;
    if (ci >= MAXCI) {
	vf_fail(c->r, "harness:ci-range", "vnacal_add_calibration returned "
		"%d with at most 3 live calibrations", ci);
	return;
    }
    int old = -1;
    for (int j = 0; j < MAXCI; ++j)
	if (m->cal[j].live && m->cal[j].name == nm)
	    old = j;
    if (old >= 0 && ci != old) {
	vf_fail(c->r, "add-index:replace", "vnacal_add_calibration(\"%s\") "
		"returned %d but the calibration of that name it replaces is "
		"at index %d", names[nm], ci, old);
	return;
    }
    if (old < 0 && m->cal[ci].live) {
	vf_fail(c->r, "add-index:occupied", "vnacal_add_calibration(\"%s\") "
		"returned %d, the index of the live calibration \"%s\"",
		names[nm], ci, names[m->cal[ci].name]);
	return;
    }
    m->cal[ci].live = 1;
    m->cal[ci].name = nm;
    m->cal[ci].cfg = k;
    m->cal[ci].loose = m->vn[k].loose;
    m->cal[ci].prop = 0;
    m->vn[k].pending = 0;
}

static void step(ctx_t *c, int opi)
{
    model *m = &c->m;
    const op_t *o = &optab[opi];
    int before = c->elog.nonwarn;
    int obj, h, rc, e;

    c->issued = 0;
    switch (o->kind) {
    case OP_SCALAR: {
	cx v[2] = { scalar_alpha[o->a], scalar_alpha[o->a] };
	if (free_slot(m) < 0)
	    return;
	c->issued = 1;
	errno = 0;
	h = vnacal_make_scalar_parameter(c->vcp, v[0]);
	++c->r->transitions;
	expect_ok(c, "vnacal_make_scalar_parameter", h, before);
	if (h < 0)
	    return;
	if (h < NPREDEF) {
	    /* the library may hand out a predefined handle of equal value */
	    if (m->obj[h].v[0] != v[0])
		vf_fail(c->r, "handle-not-unique", "make_scalar(%g%+gj) "
			"returned predefined handle %d", creal(v[0]),
			cimag(v[0]), h);
	    return;
	}
	(void)model_new_param(m, c->r, "vnacal_make_scalar_parameter", h,
		PK_SCALAR, v, -1);
	return;
    }
    case OP_VECTOR: {
	static const double fv[2] = { F0, F1 };
	if (free_slot(m) < 0)
	    return;
	c->issued = 1;
	errno = 0;
	h = vnacal_make_vector_parameter(c->vcp, fv, 2, vector_val);
	++c->r->transitions;
	expect_ok(c, "vnacal_make_vector_parameter", h, before);
	if (h >= 0)
	    (void)model_new_param(m, c->r, "vnacal_make_vector_parameter", h,
		    PK_VECTOR, vector_val, -1);
	return;
    }
    case OP_UNKNOWN:
	if (free_slot(m) < 0)
	    return;
	h = resolve(m, o->a, &obj);
	if (obj >= 0 && !is_known(m, obj))
	    return;		/* guess must be scalar or vector: not called */
	c->issued = 1;
	errno = 0;
	rc = vnacal_make_unknown_parameter(c->vcp, h);
	e = errno;
	++c->r->transitions;
	if (obj < 0) {
	    expect_loud(c, "vnacal_make_unknown_parameter", rc, e, before,
		    EINVAL);
	    return;
	}
	expect_ok(c, "vnacal_make_unknown_parameter", rc, before);
	if (rc >= 0)
	    (void)model_new_param(m, c->r, "vnacal_make_unknown_parameter",
		    rc, PK_UNKNOWN, NULL, obj);
	return;
    case OP_CORR: {
	static const double sigma[2] = { 0.1, 0.2 };
	int nsig = 1;
	if (free_slot(m) < 0)
	    return;
	h = resolve(m, o->a, &obj);
	if (obj >= 0 && m->obj[obj].kind == PK_CORR)
	    return;		/* chains of correlated: not modelled */
	/*
	 * vnacal_make_correlated_parameter(3): the sigma frequency vector
	 * may be NULL with one sigma per frequency of the vector parameter
	 * the chain of "other" parameters ends in (here: two frequencies).
	 */
	if (obj >= 0) {
	    int end = obj;
	    while (m->obj[end].kind == PK_UNKNOWN)
		end = m->obj[end].other;
	    if (m->obj[end].kind == PK_VECTOR)
		nsig = 2;
	}
	c->issued = 1;
	errno = 0;
	rc = vnacal_make_correlated_parameter(c->vcp, h, NULL, nsig, sigma);
	e = errno;
	++c->r->transitions;
	if (obj < 0) {
	    expect_loud(c, "vnacal_make_correlated_parameter", rc, e, before,
		    EINVAL);
	    return;
	}
	expect_ok(c, "vnacal_make_correlated_parameter", rc, before);
	if (rc >= 0)
	    (void)model_new_param(m, c->r, "vnacal_make_correlated_parameter",
		    rc, PK_CORR, NULL, obj);
	return;
    }
    case OP_DELPARAM:
	h = resolve(m, o->a, &obj);
	c->issued = 1;
	errno = 0;
	rc = vnacal_delete_parameter(c->vcp, h);
	e = errno;
	++c->r->transitions;
	if (h < 0)
	    return;		/* undocumented: only memory safety */
	if (obj >= 0 && obj < 3) {
	    /* predefined: permanent whatever is returned (observers) */
	    if (rc != 0 && rc != -1)
		vf_fail(c->r, "rc:vnacal_delete_parameter", "returned %d", rc);
	    return;
	}
	if (obj < 0) {
	    expect_loud(c, "vnacal_delete_parameter", rc, e, before, EINVAL);
	    return;
	}
	expect_ok(c, "vnacal_delete_parameter", rc, before);
	if (rc == 0) {
	    m->obj[obj].live = 0;
	    for (int k = 0; k < 3; ++k)
		if (m->slot[k].state == 1 && m->slot[k].obj == obj)
		    m->slot[k].state = 2;
	}
	return;
    case OP_ALLOC:
	if (m->vn[o->a].alloc)
	    return;
	c->issued = 1;
	(void)do_alloc(c, o->a);
	return;
    case OP_ADDSTD:
	if (!m->vn[o->a].alloc || m->vn[o->a].has_std)
	    return;
	do_addstd(c, o->a, o->b);
	return;
    case OP_SOLVE:
	if (!m->vn[o->a].alloc)
	    return;
	(void)do_solve(c, o->a);
	return;
    case OP_ADDCAL:
	if (!m->vn[o->b].alloc)
	    return;
	do_addcal(c, o->a, o->b);
	return;
    case OP_DELCAL: {
	int ci = o->a;
	bool live = ci >= 0 && ci < MAXCI && m->cal[ci].live;
	c->issued = 1;
	errno = 0;
	rc = vnacal_delete_calibration(c->vcp, ci);
	e = errno;
	++c->r->transitions;
	if (live) {
	    expect_ok(c, "vnacal_delete_calibration", rc, before);
	    if (rc == 0)
		m->cal[ci].live = 0;
	} else if (rc != -1) {
	    vf_fail(c->r, "accepted-invalid:vnacal_delete_calibration",
		    "vnacal_delete_calibration(%d) returned %d though no "
		    "calibration has that index", ci, rc);
	} else if (bad_errno(e, ENOENT, EINVAL)) {
	    vf_fail(c->r, "errno:vnacal_delete_calibration", "errno %d", e);
	} else if (c->elog.count != 0 && c->elog.nonwarn != before) {
	    vf_fail(c->r, "not-silent:vnacal_delete_calibration", "called "
		    "the error function: %s", c->elog.msg[0]);
	}
	return;
    }
    case OP_PROPSET: {
	int ci = o->a;
	bool ok = ci == -1 || (ci >= 0 && m->cal[ci].live);
	c->issued = 1;
	errno = 0;
	if (ci == -1)
	    rc = vnacal_property_set(c->vcp, -1, "p=g");
	else
	    rc = vnacal_property_set(c->vcp, ci, "p=c%d", ci);
	e = errno;
	++c->r->transitions;
	if (ok) {
	    expect_ok(c, "vnacal_property_set", rc, before);
	    if (rc == 0) {
		if (ci == -1)
		    m->gprop = 1;
		else
		    m->cal[ci].prop = 1;
	    }
	} else if (rc != -1) {
	    vf_fail(c->r, "accepted-invalid:vnacal_property_set",
		    "vnacal_property_set(ci=%d) returned %d though no "
		    "calibration has that index", ci, rc);
	} else if (bad_errno(e, ENOENT, EINVAL)) {
	    vf_fail(c->r, "errno:vnacal_property_set", "errno %d", e);
	} else if (c->elog.nonwarn != before) {
	    vf_fail(c->r, "not-silent:vnacal_property_set", "called the "
		    "error function");
	}
	return;
    }
    case OP_FREE:
	if (!m->vn[o->a].alloc)
	    return;
	c->issued = 1;
	vnacal_new_free(c->vnp[o->a]);
	++c->r->transitions;
	c->vnp[o->a] = NULL;
	memset(&m->vn[o->a], 0, sizeof(m->vn[o->a]));
	m->vn[o->a].pobj = -1;
	return;
    default:
	return;
    }
}

/* ------------------------------------------------------------------ */
/* observers                                                           */

static bool close_to(cx a, cx b, double tol)
{
    return cabs(a - b) <= tol;
}

/* a query that must fail silently */
static void silent_fail(ctx_t *c, const char *fn, int ci, bool failed, int e,
	int count_before)
{
    char sig[100];
    if (!failed) {
	snprintf(sig, sizeof(sig), "ghost:%s", fn);
	vf_fail(c->r, sig, "%s(ci=%d) succeeded though no calibration has "
		"that index", fn, ci);
    } else if (bad_errno(e, EINVAL, ENOENT)) {
	snprintf(sig, sizeof(sig), "errno:%s", fn);
	vf_fail(c->r, sig, "%s(ci=%d) failed with errno %d", fn, ci, e);
    } else if (c->elog.count != count_before) {
	snprintf(sig, sizeof(sig), "not-silent:%s", fn);
	vf_fail(c->r, sig, "%s(ci=%d) called the error function", fn, ci);
    }
}

static void observe_cal(ctx_t *c, int ci)
{
    model *m = &c->m;
    vnacal_t *vcp = c->vcp;
    bool live = ci >= 0 && ci < MAXCI && m->cal[ci].live;
    int cb = c->elog.count;
    char sig[100];

#define MISMATCH(fn, ...) do { \
	snprintf(sig, sizeof(sig), "wrong:%s", fn); \
	vf_fail(c->r, sig, __VA_ARGS__); } while (0)

    errno = 0;
    const char *nm = vnacal_get_name(vcp, ci);
    int e = errno;
    c->r->transitions += 10;
    if (!live) {
	silent_fail(c, "vnacal_get_name", ci, nm == NULL, e, cb);
	errno = 0;
	int t = (int)vnacal_get_type(vcp, ci);
	silent_fail(c, "vnacal_get_type", ci, t == -1, errno, cb);
	errno = 0;
	int v = vnacal_get_rows(vcp, ci);
	silent_fail(c, "vnacal_get_rows", ci, v == -1, errno, cb);
	errno = 0;
	v = vnacal_get_columns(vcp, ci);
	silent_fail(c, "vnacal_get_columns", ci, v == -1, errno, cb);
	errno = 0;
	v = vnacal_get_frequencies(vcp, ci);
	silent_fail(c, "vnacal_get_frequencies", ci, v == -1, errno, cb);
	errno = 0;
	double d = vnacal_get_fmin(vcp, ci);
	silent_fail(c, "vnacal_get_fmin", ci, d == HUGE_VAL, errno, cb);
	errno = 0;
	d = vnacal_get_fmax(vcp, ci);
	silent_fail(c, "vnacal_get_fmax", ci, d == HUGE_VAL, errno, cb);
	errno = 0;
	const double *fv = vnacal_get_frequency_vector(vcp, ci);
	silent_fail(c, "vnacal_get_frequency_vector", ci, fv == NULL, errno,
		cb);
	errno = 0;
	cx z = vnacal_get_z0(vcp, ci);
	silent_fail(c, "vnacal_get_z0", ci, creal(z) == HUGE_VAL, errno, cb);
	if (ci != -1) {
	    errno = 0;
	    const char *pv = vnacal_property_get(vcp, ci, "p");
	    silent_fail(c, "vnacal_property_get", ci, pv == NULL, errno, cb);
	}
	return;
    }
    const cfg_t *g = &cfg[m->cal[ci].cfg];
    if (nm == NULL || strcmp(nm, names[m->cal[ci].name]) != 0)
	MISMATCH("vnacal_get_name", "vnacal_get_name(%d) = %s, model has "
		"\"%s\" there", ci, nm ? nm : "NULL", names[m->cal[ci].name]);
    if (vnacal_get_type(vcp, ci) != g->type)
	MISMATCH("vnacal_get_type", "vnacal_get_type(%d) = %d, expected %d",
		ci, (int)vnacal_get_type(vcp, ci), (int)g->type);
    if (vnacal_get_rows(vcp, ci) != 1 || vnacal_get_columns(vcp, ci) != 1)
	MISMATCH("vnacal_get_rows", "dimensions of calibration %d are %dx%d",
		ci, vnacal_get_rows(vcp, ci), vnacal_get_columns(vcp, ci));
    if (vnacal_get_frequencies(vcp, ci) != g->nf)
	MISMATCH("vnacal_get_frequencies", "vnacal_get_frequencies(%d) = %d, "
		"expected %d", ci, vnacal_get_frequencies(vcp, ci), g->nf);
    if (vnacal_get_fmin(vcp, ci) != g->f[0] ||
	    vnacal_get_fmax(vcp, ci) != g->f[g->nf - 1])
	MISMATCH("vnacal_get_fmin", "fmin/fmax of calibration %d = %g/%g, "
		"expected %g/%g", ci, vnacal_get_fmin(vcp, ci),
		vnacal_get_fmax(vcp, ci), g->f[0], g->f[g->nf - 1]);
    const double *fv = vnacal_get_frequency_vector(vcp, ci);
    if (fv == NULL || memcmp(fv, g->f, sizeof(double) * (size_t)g->nf) != 0)
	MISMATCH("vnacal_get_frequency_vector", "frequency vector of "
		"calibration %d differs", ci);
    cx z = vnacal_get_z0(vcp, ci);
    if (z != g->z0)
	MISMATCH("vnacal_get_z0", "vnacal_get_z0(%d) = %g%+gj, expected "
		"%g%+gj", ci, creal(z), cimag(z), creal(g->z0), cimag(g->z0));
    /* per-calibration property */
    errno = 0;
    const char *pv = vnacal_property_get(vcp, ci, "p");
    e = errno;
    if (m->cal[ci].prop) {
	char want[8];
	snprintf(want, sizeof(want), "c%d", ci);
	if (pv == NULL || strcmp(pv, want) != 0)
	    MISMATCH("vnacal_property_get", "property p of calibration %d is "
		    "%s, expected \"%s\"", ci, pv ? pv : "NULL", want);
    } else if (pv != NULL) {
	MISMATCH("vnacal_property_get", "property p of calibration %d is "
		"\"%s\" but was never set on it", ci, pv);
    } else if (bad_errno(e, ENOENT, EINVAL)) {
	vf_fail(c->r, "errno:vnacal_property_get", "errno %d", e);
    }
    if (c->elog.count != cb)
	vf_fail(c->r, "not-silent:vnacal_get", "a query on live calibration "
		"%d called the error function: %s", ci,
		c->elog.msg[cb % VF_ERRLOG_MAX]);
    /* apply: corrects a DUT measured through the origin's error box */
    {
	vnadata_t *vdp = vnadata_alloc(NULL, NULL);
	cx mv[2];
	cx *mp[1] = { mv };
	for (int fi = 0; fi < g->nf; ++fi)
	    mv[fi] = meas(m->cal[ci].cfg, fi, DUT);
	int rc = vnacal_apply_m(vcp, ci, g->f, g->nf, mp, 1, 1, vdp);
	++c->r->transitions;
	if (rc != 0) {
	    vf_fail(c->r, "rejected-valid:vnacal_apply_m", "vnacal_apply_m on "
		    "calibration %d failed: %s", ci, c->elog.count ?
		    c->elog.msg[(c->elog.count - 1) % VF_ERRLOG_MAX] : "");
	} else {
	    for (int fi = 0; fi < g->nf; ++fi) {
		cx s = vnadata_get_cell(vdp, fi, 0, 0);
		if (!close_to(s, DUT, m->cal[ci].loose ? TOL_LOOSE :
			    TOL_TIGHT))
		    MISMATCH("vnacal_apply_m", "calibration %d (\"%s\", from "
			    "vnp%d) corrects the DUT to %g%+gj instead of "
			    "%g%+gj at frequency %d", ci,
			    names[m->cal[ci].name], m->cal[ci].cfg, creal(s),
			    cimag(s), creal(DUT), cimag(DUT), fi);
	    }
	}
	vnadata_free(vdp);
    }
#undef MISMATCH
}

/* value of a handle: obj < 0 means it must be rejected */
static void observe_param(ctx_t *c, int handle, int obj, const char *what)
{
    model *m = &c->m;
    static const double fq[2] = { F0, F1 };
    char sig[100];

    for (int fi = 0; fi < 2; ++fi) {
	int before = c->elog.nonwarn;
	bool want_fail = false;
	cx want = 0;
	double tol = 0;

	if (obj < 0) {
	    want_fail = true;
	} else {
	    const mparam *p = &m->obj[obj];
	    if (is_known(m, obj)) {
		want = p->v[fi];
	    } else if (p->solved < 0) {
		want_fail = true;
	    } else if (fi >= cfg[p->solved].nf) {
		want_fail = true;		/* outside the solved range */
	    } else {
		want = truth(m, obj, fi);
		tol = TOL_LOOSE;
	    }
	}
	errno = 0;
	cx v = vnacal_get_parameter_value(c->vcp, handle, fq[fi]);
	int e = errno;
	++c->r->transitions;
	if (want_fail) {
	    if (creal(v) != HUGE_VAL) {
		snprintf(sig, sizeof(sig), "ghost:vnacal_get_parameter_value");
		vf_fail(c->r, sig, "vnacal_get_parameter_value(%d [%s], %g) = "
			"%g%+gj though the model says it has no value "
			"(invalid, deleted, unsolved or out of range)",
			handle, what, fq[fi], creal(v), cimag(v));
	    } else if (e != EINVAL) {
		vf_fail(c->r, "errno:vnacal_get_parameter_value",
			"errno %d for handle %d [%s]", e, handle, what);
	    } else if (c->elog.nonwarn <= before) {
		vf_fail(c->r, "no-error-callback:vnacal_get_parameter_value",
			"handle %d [%s]", handle, what);
	    }
	} else if (creal(v) == HUGE_VAL && cimag(v) == 0 &&
		c->elog.nonwarn > before) {
	    vf_fail(c->r, "rejected-valid:vnacal_get_parameter_value",
		    "vnacal_get_parameter_value(%d [%s], %g) failed: %s",
		    handle, what, fq[fi],
		    c->elog.msg[(c->elog.count - 1) % VF_ERRLOG_MAX]);
	} else if (!(cabs(v - want) <= tol)) {
	    vf_fail(c->r, "wrong:vnacal_get_parameter_value",
		    "vnacal_get_parameter_value(%d [%s], %g) = %.9g%+.9gj, "
		    "expected %.9g%+.9gj", handle, what, fq[fi], creal(v),
		    cimag(v), creal(want), cimag(want));
	}
    }
}

static void observe(ctx_t *c)
{
    model *m = &c->m;
    int end = 0;

    for (int ci = 0; ci < MAXCI; ++ci)
	if (m->cal[ci].live)
	    end = ci + 1;
    int got = vnacal_get_calibration_end(c->vcp);
    ++c->r->transitions;
    if (got != end)
	vf_fail(c->r, "wrong:vnacal_get_calibration_end",
		"vnacal_get_calibration_end = %d, highest live index + 1 = %d",
		got, end);
    for (int ci = -1; ci <= 4; ++ci)
	observe_cal(c, ci);
    for (int nm = 0; nm < 3; ++nm) {
	int want = -1;
	int cb = c->elog.count;
	for (int ci = 0; ci < MAXCI; ++ci)
	    if (m->cal[ci].live && m->cal[ci].name == nm)
		want = ci;
	errno = 0;
	int ci = vnacal_find_calibration(c->vcp, names[nm]);
	int e = errno;
	++c->r->transitions;
	if (ci != want)
	    vf_fail(c->r, "wrong:vnacal_find_calibration",
		    "vnacal_find_calibration(\"%s\") = %d, model has it at %d",
		    names[nm], ci, want);
	else if (want < 0 && e != ENOENT)
	    vf_fail(c->r, "errno:vnacal_find_calibration", "errno %d, "
		    "documented ENOENT", e);
	else if (c->elog.count != cb)
	    vf_fail(c->r, "not-silent:vnacal_find_calibration", "called the "
		    "error function");
    }
    /* global property is separate from every calibration's */
    {
	errno = 0;
	const char *pv = vnacal_property_get(c->vcp, -1, "p");
	++c->r->transitions;
	if (m->gprop ? (pv == NULL || strcmp(pv, "g") != 0) : pv != NULL)
	    vf_fail(c->r, "wrong:vnacal_property_get", "global property p is "
		    "%s, expected %s", pv ? pv : "NULL", m->gprop ? "\"g\"" :
		    "NULL");
    }
    /* parameters */
    for (int i = 0; i < 3; ++i)
	observe_param(c, i, i, "predefined");
    for (int k = 0; k < 3; ++k) {
	int obj, h = resolve(m, H_SLOT0 + k, &obj);
	observe_param(c, h, obj, m->slot[k].state == 1 ? "live" :
		m->slot[k].state == 2 ? "deleted" : "never issued");
    }
    {
	int obj, h = resolve(m, H_99, &obj);
	observe_param(c, h, obj, "never issued");
    }
    {
	/* -1: must not be taken for a parameter */
	int before = c->elog.nonwarn;
	cx v = vnacal_get_parameter_value(c->vcp, -1, F0);
	++c->r->transitions;
	if (creal(v) != HUGE_VAL || c->elog.nonwarn <= before)
	    vf_fail(c->r, "ghost:vnacal_get_parameter_value", "handle -1 "
		    "accepted");
    }
}

/*
 * Epilogue run from every reached state (after the observers): a fixed
 * churn of 24 create/delete cycles on the parameter table, far beyond the
 * BFS depth in this one direction, so that slot bookkeeping which only goes
 * wrong after many cycles is exercised too.  Two churn parameters are kept
 * alive at a time so that deletions happen below and above recent slots.
 */
static void churn(ctx_t *c)
{
    model *m = &c->m;
    int held[2] = { -1, -1 };
    cx heldv[2] = { 0, 0 };

    for (int cycle = 0; cycle < 24 && c->r->status == VF_OK; ++cycle) {
	cx v = 0.11 + 0.01 * cycle - 0.2 * I;
	int before = c->elog.nonwarn;
	int h = vnacal_make_scalar_parameter(c->vcp, v);
	++c->r->transitions;
	expect_ok(c, "vnacal_make_scalar_parameter", h, before);
	if (h < 0)
	    return;
	bool clash = h < NPREDEF || h == held[0] || h == held[1];
	for (int k = 0; k < 3; ++k)
	    if (m->slot[k].state == 1 && m->slot[k].handle == h)
		clash = true;
	if (clash) {
	    vf_fail(c->r, "handle-not-unique", "create/delete cycle %d: "
		    "vnacal_make_scalar_parameter returned handle %d which is "
		    "in use", cycle, h);
	    return;
	}
	int j = cycle & 1;
	if (held[j] >= 0) {
	    cx got = vnacal_get_parameter_value(c->vcp, held[j], F0);
	    if (got != heldv[j]) {
		vf_fail(c->r, "wrong:vnacal_get_parameter_value", "create/"
			"delete cycle %d: handle %d reads %g%+gj, was made "
			"as %g%+gj", cycle, held[j], creal(got), cimag(got),
			creal(heldv[j]), cimag(heldv[j]));
		return;
	    }
	    before = c->elog.nonwarn;
	    int rc = vnacal_delete_parameter(c->vcp, held[j]);
	    expect_ok(c, "vnacal_delete_parameter", rc, before);
	}
	held[j] = h;
	heldv[j] = v;
    }
    for (int j = 0; j < 2; ++j)
	if (held[j] >= 0)
	    (void)vnacal_delete_parameter(c->vcp, held[j]);
    /* the user's own handles are untouched by all this */
    for (int k = 0; k < 3 && c->r->status == VF_OK; ++k)
	if (m->slot[k].state == 1)
	    observe_param(c, m->slot[k].handle, m->slot[k].obj,
		    "live, after churn");
}

/*
 * One-point vector parameters with the values of the predefined ones (1,
 * 0, -1): each is a parameter of its own - a handle that is neither
 * predefined nor in use, the value at its frequency, no value far outside
 * it, and a deletion that frees it.
 */
static void onepoint_epilogue(ctx_t *c)
{
    model *m = &c->m;
    static const cx gv[3] = { 1.0, 0.0, -1.0 };
    static const double f1[1] = { F0 };
    int h[3] = { -1, -1, -1 };

    for (int k = 0; k < 3 && c->r->status == VF_OK; ++k) {
	int before = c->elog.nonwarn;
	h[k] = vnacal_make_vector_parameter(c->vcp, f1, 1, &gv[k]);
	++c->r->transitions;
	if (h[k] < 0)
	    break;		/* table full: nothing to say */
	bool clash = h[k] < NPREDEF;
	for (int j = 0; j < k; ++j)
	    if (h[j] == h[k])
		clash = true;
	for (int j = 0; j < 3; ++j)
	    if (m->slot[j].state == 1 && m->slot[j].handle == h[k])
		clash = true;
	if (clash) {
	    vf_fail(c->r, "handle-not-unique", "vnacal_make_vector_parameter "
		    "with one point of value %g returned handle %d, which is "
		    "predefined or in use", creal(gv[k]), h[k]);
	    return;
	}
	cx got = vnacal_get_parameter_value(c->vcp, h[k], F0);
	if (got != gv[k]) {
	    vf_fail(c->r, "wrong:vnacal_get_parameter_value", "one-point "
		    "vector parameter %d reads %g%+gj at its frequency, was "
		    "made as %g", h[k], creal(got), cimag(got), creal(gv[k]));
	    return;
	}
	before = c->elog.nonwarn;
	errno = 0;
	got = vnacal_get_parameter_value(c->vcp, h[k], 10.0 * F0);
	if (creal(got) != HUGE_VAL || errno != EINVAL ||
		c->elog.nonwarn <= before) {
	    vf_fail(c->r, "ghost:vnacal_get_parameter_value", "one-point "
		    "vector parameter %d given at %g Hz has the value "
		    "%g%+gj at %g Hz (errno %d)", h[k], F0, creal(got),
		    cimag(got), 10.0 * F0, errno);
	    return;
	}
    }
    for (int k = 0; k < 3 && c->r->status == VF_OK; ++k) {
	if (h[k] < 0)
	    continue;
	int before = c->elog.nonwarn;
	int rc = vnacal_delete_parameter(c->vcp, h[k]);
	expect_ok(c, "vnacal_delete_parameter", rc, before);
	before = c->elog.nonwarn;
	cx got = vnacal_get_parameter_value(c->vcp, h[k], F0);
	if (creal(got) != HUGE_VAL) {
	    /* unless the user's own live parameter has that handle */
	    bool users = false;
	    for (int j = 0; j < 3; ++j)
		if (m->slot[j].state == 1 && m->slot[j].handle == h[k])
		    users = true;
	    if (!users)
		vf_fail(c->r, "ghost:vnacal_get_parameter_value", "deleted "
			"one-point vector parameter %d still has a value",
			h[k]);
	}
    }
}

/*
 * Second epilogue: parameters made while a vnacal_new_t still holds others
 * (possibly deleted by the user) must stay valid after that vnacal_new_t
 * is freed: make three parameters, free every vnacal_new_t, then read the
 * three and every live user parameter again.
 */
static void release_epilogue(ctx_t *c)
{
    model *m = &c->m;
    int h[3];
    cx v[3];

    /* the predefined handles are permanent: deleting them is accepted and
       changes nothing; no handle issued later is one of them */
    for (int p = 0; p < NPREDEF; ++p) {
	int before = c->elog.nonwarn;
	int rc = vnacal_delete_parameter(c->vcp, p);
	++c->r->transitions;
	expect_ok(c, "vnacal_delete_parameter", rc, before);
	if (rc != 0)
	    return;
    }
    for (int k = 0; k < 3; ++k) {
	int before = c->elog.nonwarn;
	v[k] = 0.31 + 0.02 * k + 0.07 * I * (k + 1);
	h[k] = vnacal_make_scalar_parameter(c->vcp, v[k]);
	++c->r->transitions;
	expect_ok(c, "vnacal_make_scalar_parameter", h[k], before);
	if (h[k] < 0)
	    return;
	bool clash = h[k] < NPREDEF;
	for (int j = 0; j < k; ++j)
	    if (h[j] == h[k]) clash = true;
	for (int j = 0; j < 3; ++j)
	    if (m->slot[j].state == 1 && m->slot[j].handle == h[k])
		clash = true;
	if (clash) {
	    vf_fail(c->r, "handle-not-unique", "vnacal_make_scalar_parameter "
		    "returned handle %d which is in use (release epilogue)",
		    h[k]);
	    return;
	}
    }
    for (int k = 0; k < 2; ++k)
	if (c->vnp[k] != NULL) {
	    vnacal_new_free(c->vnp[k]);
	    c->vnp[k] = NULL;
	}
    {
	static const double pv[3] = { 0.0, 1.0, -1.0 };
	static const int ph[3] = { VNACAL_MATCH, VNACAL_OPEN, VNACAL_SHORT };
	for (int p = 0; p < 3; ++p) {
	    cx got = vnacal_get_parameter_value(c->vcp, ph[p], F0);
	    ++c->r->transitions;
	    if (got != pv[p]) {
		vf_fail(c->r, "wrong:vnacal_get_parameter_value", "predefined "
			"parameter %d reads %g%+gj after every predefined "
			"handle was deleted (accepted, documented as without "
			"effect) and three parameters were made", ph[p],
			creal(got), cimag(got));
		return;
	    }
	}
    }
    for (int k = 0; k < 3; ++k) {
	cx got = vnacal_get_parameter_value(c->vcp, h[k], F0);
	++c->r->transitions;
	if (got != v[k]) {
	    vf_fail(c->r, "wrong:vnacal_get_parameter_value", "parameter "
		    "%d made as %g%+gj while a vnacal_new_t held other "
		    "parameters reads %g%+gj after that vnacal_new_t was "
		    "freed", h[k], creal(v[k]), cimag(v[k]), creal(got),
		    cimag(got));
	    return;
	}
    }
    for (int k = 0; k < 3 && c->r->status == VF_OK; ++k)
	if (m->slot[k].state == 1)
	    observe_param(c, m->slot[k].handle, m->slot[k].obj,
		    "live, after the vnacal_new_t structures were freed");
    for (int k = 0; k < 3; ++k)
	(void)vnacal_delete_parameter(c->vcp, h[k]);
    if (c->r->status != VF_OK)
	return;

    /*
     * Scripted probe of "a handle deleted while a vnacal_new_t uses it":
     * make A and B, use B in a fresh vnacal_new_t, delete A (really freed)
     * and B (still held), make C and D, free the vnacal_new_t, then C and D
     * must be distinct, valid and hold their values.
     */
    {
	double f1 = 1.0e9;
	cx mval = 0.2 - 0.1 * I;
	cx *mp[1] = { &mval };
	cx va = 0.41 - 0.03 * I, vb = -0.82 + 0.05 * I;
	cx vc = 0.13 + 0.31 * I, vd = -0.27 - 0.19 * I;
	int a = vnacal_make_scalar_parameter(c->vcp, va);
	int b = vnacal_make_scalar_parameter(c->vcp, vb);
	vnacal_new_t *vnp = vnacal_new_alloc(c->vcp, VNACAL_T8, 1, 1, 1);
	if (a < 0 || b < 0 || a == b || vnp == NULL ||
		vnacal_new_set_frequency_vector(vnp, &f1) != 0 ||
		vnacal_new_add_single_reflect_m(vnp, mp, 1, 1, b, 1) != 0) {
	    vf_fail(c->r, "probe:setup", "held-delete probe could not be set "
		    "up (handles %d %d)", a, b);
	    return;
	}
	(void)vnacal_delete_parameter(c->vcp, a);
	(void)vnacal_delete_parameter(c->vcp, b);
	int cc = vnacal_make_scalar_parameter(c->vcp, vc);
	int dd = vnacal_make_scalar_parameter(c->vcp, vd);
	c->r->transitions += 8;
	if (cc < NPREDEF || dd < NPREDEF || cc == dd) {
	    vf_fail(c->r, "handle-not-unique", "held-delete probe: handles "
		    "%d and %d issued for two live parameters", cc, dd);
	    return;
	}
	for (int k = 0; k < 3; ++k)
	    if (m->slot[k].state == 1 && (m->slot[k].handle == cc ||
			m->slot[k].handle == dd)) {
		vf_fail(c->r, "handle-not-unique", "held-delete probe: a "
			"live user handle was issued again");
		return;
	    }
	vnacal_new_free(vnp);
	cx gc = vnacal_get_parameter_value(c->vcp, cc, F0);
	cx gd = vnacal_get_parameter_value(c->vcp, dd, F0);
	if (gc != vc || gd != vd) {
	    vf_fail(c->r, "wrong:vnacal_get_parameter_value", "held-delete "
		    "probe: parameters %d and %d made while a vnacal_new_t "
		    "held a deleted handle read %g%+gj and %g%+gj after it "
		    "was freed (made as %g%+gj and %g%+gj)", cc, dd,
		    creal(gc), cimag(gc), creal(gd), cimag(gd), creal(vc),
		    cimag(vc), creal(vd), cimag(vd));
	    return;
	}
	(void)vnacal_delete_parameter(c->vcp, cc);
	(void)vnacal_delete_parameter(c->vcp, dd);
    }
}

/*
 * Shape epilogue: calibrations that are not 1x1 (2x1, 1x2, 2x2) are solved
 * through the public interface and added next to whatever the history left:
 * the index each add returns is free in the model, and find, get_name,
 * get_type, get_rows, get_columns, get_frequencies see the calibration that
 * was given there; the history's own calibrations stay as they were; the
 * added ones are deleted again.
 */
static const struct {
    const char *name;
    vnacal_type_t type;
    int rows, columns;
} shape_tab[] = {
    { "c16-tall", VNACAL_UE10, 2, 1 },
    { "c16-wide", VNACAL_T8,   1, 2 },
    { "c16-full", VNACAL_E12,  2, 2 },
};
#define NSHAPE_EP 3

static void shape_epilogue(ctx_t *c)
{
    model *m = &c->m;
    static const int stdh[3] = { VNACAL_SHORT, VNACAL_OPEN, VNACAL_MATCH };
    static const double gam[3] = { -1.0, 1.0, 0.0 };
    static const double fv[2] = { 1.0e9, 2.0e9 };
    int ci[NSHAPE_EP] = { -1, -1, -1 };

    for (int i = 0; i < NSHAPE_EP; ++i) {
	const int rows = shape_tab[i].rows, cols = shape_tab[i].columns;
	cx v[4][2];
	cx *mp[4] = { v[0], v[1], v[2], v[3] };
	vnacal_new_t *vnp = vnacal_new_alloc(c->vcp, shape_tab[i].type, rows,
		cols, 2);
	int before, bad = vnp == NULL ||
	    vnacal_new_set_frequency_vector(vnp, fv) != 0;

	ci[i] = -1;
	for (int port = 1; port <= 2 && !bad; ++port) {
	    if (port == 2 && !(rows == 2 && cols == 2))
		break;
	    for (int sidx = 0; sidx < 3 && !bad; ++sidx) {
		for (int cell = 0; cell < rows * cols; ++cell)
		    for (int k = 0; k < 2; ++k)
			v[cell][k] = cell == (port == 1 ? 0 : 3) ?
			    0.05 + 0.9 * gam[sidx] : 0.0;
		bad = vnacal_new_add_single_reflect_m(vnp, mp, rows, cols,
			stdh[sidx], port) != 0;
	    }
	}
	for (int r = 0; r < rows && !bad; ++r)
	    for (int cc = 0; cc < cols; ++cc)
		for (int k = 0; k < 2; ++k)
		    v[r * cols + cc][k] = r == cc ? 0.05 : 0.9;
	bad = bad || vnacal_new_add_through_m(vnp, mp, rows, cols, 1, 2) != 0
	    || vnacal_new_solve(vnp) != 0;
	c->r->transitions += 6;
	if (bad) {
	    vf_fail(c->r, "probe:setup", "shape epilogue: a %dx%d %s "
		    "calibration could not be made: %s", rows, cols,
		    vnacal_type_to_name(shape_tab[i].type), c->elog.count ?
		    c->elog.msg[(c->elog.count - 1) % VF_ERRLOG_MAX] : "");
	    if (vnp) vnacal_new_free(vnp);
	    goto out;
	}
	before = c->elog.nonwarn;
	errno = 0;
	ci[i] = vnacal_add_calibration(c->vcp, shape_tab[i].name, vnp);
	vnacal_new_free(vnp);
	++c->r->transitions;
	expect_ok(c, "vnacal_add_calibration", ci[i], before);
	if (ci[i] < 0)
	    goto out;
	if (ci[i] < MAXCI && m->cal[ci[i]].live) {
	    vf_fail(c->r, "add-index:occupied", "vnacal_add_calibration(\"%s"
		    "\") returned %d, the index of the live calibration "
		    "\"%s\"", shape_tab[i].name, ci[i],
		    names[m->cal[ci[i]].name]);
	    goto out;
	}
	for (int j = 0; j < i; ++j)
	    if (ci[j] == ci[i]) {
		vf_fail(c->r, "add-index:occupied", "vnacal_add_calibration("
			"\"%s\") returned %d, the index of \"%s\"",
			shape_tab[i].name, ci[i], shape_tab[j].name);
		goto out;
	    }
    }
    for (int i = 0; i < NSHAPE_EP; ++i) {
	const char *nm = vnacal_get_name(c->vcp, ci[i]);
	int fi = vnacal_find_calibration(c->vcp, shape_tab[i].name);
	int ty = (int)vnacal_get_type(c->vcp, ci[i]);
	int rr = vnacal_get_rows(c->vcp, ci[i]);
	int cc = vnacal_get_columns(c->vcp, ci[i]);
	int nf = vnacal_get_frequencies(c->vcp, ci[i]);
	int end = vnacal_get_calibration_end(c->vcp);

	c->r->transitions += 7;
	if (fi != ci[i] || nm == NULL || strcmp(nm, shape_tab[i].name) != 0) {
	    vf_fail(c->r, "mismatch:vnacal_find_calibration", "shape "
		    "epilogue: \"%s\" added at %d: find says %d, get_name "
		    "\"%s\"", shape_tab[i].name, ci[i], fi, nm ? nm : "NULL");
	    goto out;
	}
	if (ty != (int)shape_tab[i].type || rr != shape_tab[i].rows ||
		cc != shape_tab[i].columns || nf != 2) {
	    vf_fail(c->r, "mismatch:vnacal_get_rows", "shape epilogue: "
		    "calibration %d \"%s\" was made %s %dx%d with 2 "
		    "frequencies; the getters say type %d, %dx%d, %d "
		    "frequencies", ci[i], shape_tab[i].name,
		    vnacal_type_to_name(shape_tab[i].type),
		    shape_tab[i].rows, shape_tab[i].columns, ty, rr, cc, nf);
	    goto out;
	}
	if (end <= ci[i]) {
	    vf_fail(c->r, "mismatch:vnacal_get_calibration_end", "shape "
		    "epilogue: end %d with a calibration at %d", end, ci[i]);
	    goto out;
	}
    }
    /* the history's own calibrations are as they were */
    for (int j = 0; j < MAXCI && c->r->status == VF_OK; ++j)
	if (m->cal[j].live) {
	    const char *nm = vnacal_get_name(c->vcp, j);
	    if (nm == NULL || strcmp(nm, names[m->cal[j].name]) != 0 ||
		    vnacal_get_rows(c->vcp, j) != 1 ||
		    vnacal_get_columns(c->vcp, j) != 1 ||
		    vnacal_get_type(c->vcp, j) != cfg[m->cal[j].cfg].type)
		vf_fail(c->r, "mismatch:vnacal_get_name", "shape epilogue: "
			"calibration %d \"%s\" of the history reads \"%s\" "
			"%dx%d after three other calibrations were added", j,
			names[m->cal[j].name], nm ? nm : "NULL",
			vnacal_get_rows(c->vcp, j),
			vnacal_get_columns(c->vcp, j));
	}
out:
    for (int i = 0; i < NSHAPE_EP; ++i)
	if (ci[i] >= 0) {
	    int before = c->elog.nonwarn;
	    int rc = vnacal_delete_calibration(c->vcp, ci[i]);
	    if (c->r->status == VF_OK) {
		expect_ok(c, "vnacal_delete_calibration", rc, before);
		if (vnacal_find_calibration(c->vcp, shape_tab[i].name) != -1)
		    vf_fail(c->r, "mismatch:vnacal_find_calibration", "shape "
			    "epilogue: \"%s\" is found after it was deleted",
			    shape_tab[i].name);
	    }
	}
}

/*
 * Regrid epilogue: one unknown reflection (constant truth) is solved by
 * three vnacal_new_t of the same vnacal_t in turn, on grids of the same
 * length with other frequencies and of another length; after every solve
 * the handle must answer at every frequency of the grid just solved with
 * the solved value and refuse a frequency outside that grid.
 */
static void regrid_epilogue(ctx_t *c)
{
    static const struct { int nf; double f[3]; double outside; } grid[4] = {
	{ 2, { 1.0e9, 2.0e9 }, 2.5e9 },
	{ 2, { 1.5e9, 2.5e9 }, 1.0e9 },
	{ 3, { 0.5e9, 1.0e9, 3.0e9 }, 3.5e9 },
	{ 2, { 1.0e9, 2.0e9 }, 0.5e9 },
    };
    const cx base = 0.45 - 0.2 * I, truth_v = base + DELTA;
    vnacal_new_t *vnp[4] = { NULL, NULL, NULL, NULL };
    int s0 = vnacal_make_scalar_parameter(c->vcp, base);
    int u = s0 >= 0 ? vnacal_make_unknown_parameter(c->vcp, s0) : -1;

    if (u < 0) {
	vf_fail(c->r, "probe:setup", "regrid epilogue: parameters");
	goto out;
    }
    for (int k = 0; k < 4; ++k) {
	static const cx std[3] = { 1, 0, -1 };
	static const int sh[3] = { VNACAL_OPEN, VNACAL_MATCH, VNACAL_SHORT };
	cx mv[3];
	cx *mp[1] = { mv };
	vnp[k] = vnacal_new_alloc(c->vcp, VNACAL_T8, 1, 1, grid[k].nf);
	if (vnp[k] == NULL ||
		vnacal_new_set_frequency_vector(vnp[k], grid[k].f) != 0 ||
		vnacal_new_set_p_tolerance(vnp[k], 1e-9) != 0 ||
		vnacal_new_set_et_tolerance(vnp[k], 1e-9) != 0) {
	    vf_fail(c->r, "probe:setup", "regrid epilogue: vnacal_new_alloc");
	    goto out;
	}
	for (int j = 0; j < 4; ++j) {
	    for (int fi = 0; fi < grid[k].nf; ++fi)
		mv[fi] = meas(0, fi & 1, j == 0 ? truth_v : std[j - 1]);
	    if (vnacal_new_add_single_reflect_m(vnp[k], mp, 1, 1,
			j == 0 ? u : sh[j - 1], 1) != 0) {
		vf_fail(c->r, "probe:setup", "regrid epilogue: add standard");
		goto out;
	    }
	}
    }
    for (int k = 0; k < 4 && c->r->status == VF_OK; ++k) {
	int before = c->elog.nonwarn;
	int rc = vnacal_new_solve(vnp[k]);
	++c->r->transitions;
	expect_ok(c, "vnacal_new_solve", rc, before);
	if (rc != 0)
	    goto out;
	for (int fi = 0; fi < grid[k].nf; ++fi) {
	    cx v = vnacal_get_parameter_value(c->vcp, u, grid[k].f[fi]);
	    ++c->r->transitions;
	    if (!(cabs(v - truth_v) <= TOL_LOOSE)) {
		vf_fail(c->r, "wrong:vnacal_get_parameter_value", "regrid "
			"epilogue: after solve %d on %d frequencies the "
			"unknown reads %.9g%+.9gj at %g Hz (a frequency of "
			"that solve), solved value %.9g%+.9gj", k + 1,
			grid[k].nf, creal(v), cimag(v), grid[k].f[fi],
			creal(truth_v), cimag(truth_v));
		goto out;
	    }
	}
	vf_errlog_reset(&c->elog);
	cx v = vnacal_get_parameter_value(c->vcp, u, grid[k].outside);
	++c->r->transitions;
	if (creal(v) != HUGE_VAL) {
	    vf_fail(c->r, "ghost:vnacal_get_parameter_value", "regrid "
		    "epilogue: after solve %d the unknown answers %g%+gj at "
		    "%g Hz, outside the grid just solved", k + 1, creal(v),
		    cimag(v), grid[k].outside);
	    goto out;
	}
	vf_errlog_reset(&c->elog);
    }
out:
    for (int k = 0; k < 4; ++k)
	if (vnp[k] != NULL)
	    vnacal_new_free(vnp[k]);
    if (u >= 0)
	(void)vnacal_delete_parameter(c->vcp, u);
    if (s0 >= 0)
	(void)vnacal_delete_parameter(c->vcp, s0);
    vf_errlog_reset(&c->elog);
}

/*
 * Kit epilogue: one vnacal_new_t that refers to many parameter handles (its
 * handle table grows 8 -> 16 -> 32 -> 64), entered so that handles which
 * share a bucket after each growth are registered before it.  Every handle
 * is then used a second time: the unknown must still be the one unknown
 * (its two slightly inconsistent readings average out), a handle the user
 * deleted in between must keep working there, and the solved unknown must
 * read back.
 */
#define NKIT 28
static void kit_epilogue(ctx_t *c)
{
    double f1 = 1.0e9;
    int kit[NKIT], order[NKIT], used[NKIT];
    cx kv[NKIT];
    const cx base = -0.35 + 0.25 * I, truth_v = base + DELTA;
    int s0 = vnacal_make_scalar_parameter(c->vcp, base);
    int u = s0 >= 0 ? vnacal_make_unknown_parameter(c->vcp, s0) : -1;
    vnacal_new_t *vnp = NULL;
    int nk = 0;

    for (int k = 0; k < NKIT; ++k)
	kit[k] = -1;
    if (u < 0) {
	vf_fail(c->r, "probe:setup", "kit epilogue: parameters");
	goto out;
    }
    for (int k = 0; k < NKIT; ++k) {
	kv[k] = 0.8 * cexp(I * (0.37 * k + 0.1)) * (0.3 + 0.7 * (k % 5) / 4.0);
	kit[k] = vnacal_make_scalar_parameter(c->vcp, kv[k]);
	if (kit[k] < 0) {
	    vf_fail(c->r, "probe:setup", "kit epilogue: scalar %d", k);
	    goto out;
	}
    }
    /* entry order: handles congruent to the unknown's modulo 32, 16, 8
       first (they end up in its bucket), then the rest */
    memset(used, 0, sizeof(used));
    for (int mod = 32; mod >= 1; mod = mod == 8 ? 1 : mod / 2)
	for (int k = 0; k < NKIT; ++k)
	    if (!used[k] && (kit[k] - u) % mod == 0) {
		used[k] = 1;
		order[nk++] = k;
	    }
    vnp = vnacal_new_alloc(c->vcp, VNACAL_T8, 1, 1, 1);
    if (vnp == NULL || vnacal_new_set_frequency_vector(vnp, &f1) != 0 ||
	    vnacal_new_set_p_tolerance(vnp, 1e-9) != 0 ||
	    vnacal_new_set_et_tolerance(vnp, 1e-9) != 0) {
	vf_fail(c->r, "probe:setup", "kit epilogue: vnacal_new_alloc");
	goto out;
    }
    {
	/*
	 * The unknown goes in first; after the 8th, 9th, 16th, 17th, ...
	 * handle (just before and after each growth of the table) it is
	 * used again with a reading alternately 0.01 above and below, and
	 * the first handles - the low members of shared buckets - are
	 * deleted by the user and used again.
	 */
	int nu = 0, registered = 1, deleted[NKIT];
	cx mv;
	cx *mp[1] = { &mv };
	memset(deleted, 0, sizeof(deleted));
	for (int i = -1; i < nk; ++i) {
	    int again = 0;
	    if (i >= 0) {
		int k = order[i];
		int before = c->elog.nonwarn;
		mv = meas(0, 0, kv[k]);
		int rc = vnacal_new_add_single_reflect_m(vnp, mp, 1, 1,
			kit[k], 1);
		++c->r->transitions;
		expect_ok(c, "vnacal_new_add_single_reflect_m", rc, before);
		if (rc != 0)
		    goto out;
		++registered;
		for (int g = 8; g <= 64; g *= 2)
		    if (registered == g - 1 || registered == g ||
			    registered == g + 1)
			again = 1;
	    } else {
		again = 1;
	    }
	    if (i == nk - 1 && (nu & 1))
		again = 1;		/* as many readings above as below */
	    if (!again)
		continue;
	    {
		int before = c->elog.nonwarn;
		mv = meas(0, 0, truth_v + ((nu & 1) ? -0.01 : 0.01));
		int rc = vnacal_new_add_single_reflect_m(vnp, mp, 1, 1, u, 1);
		++c->r->transitions;
		++nu;
		expect_ok(c, "vnacal_new_add_single_reflect_m", rc, before);
		if (rc != 0)
		    goto out;
	    }
	    /* handles the user lets go of while the vnacal_new_t holds them
	       keep working there */
	    for (int j = 0; j <= i && j < 4; ++j) {
		int k = order[j];
		if (!deleted[k]) {
		    (void)vnacal_delete_parameter(c->vcp, kit[k]);
		    deleted[k] = 1;
		}
		mv = meas(0, 0, kv[k]);
		int rc = vnacal_new_add_single_reflect_m(vnp, mp, 1, 1,
			kit[k], 1);
		++c->r->transitions;
		if (rc != 0) {
		    vf_fail(c->r, "rejected-valid:vnacal_new_add_single_"
			    "reflect_m", "kit epilogue: handle %d, deleted by "
			    "the user while this vnacal_new_t holds it, is "
			    "refused after %d handles were registered: %s",
			    kit[k], registered, c->elog.count > 0 ?
			    c->elog.msg[(c->elog.count - 1) % VF_ERRLOG_MAX]
			    : "");
		    goto out;
		}
	    }
	    vf_errlog_reset(&c->elog);
	}
	for (int k = 0; k < NKIT; ++k)
	    if (deleted[k])
		kit[k] = -1;
    }
    {
	int before = c->elog.nonwarn;
	int rc = vnacal_new_solve(vnp);
	++c->r->transitions;
	expect_ok(c, "vnacal_new_solve", rc, before);
	if (rc != 0)
	    goto out;
	cx v = vnacal_get_parameter_value(c->vcp, u, f1);
	if (vf_verbose)
	    vf_note("kit epilogue: unknown handle %d, first handles %d %d %d "
		    "%d, solved %.6g%+.6gj truth %.6g%+.6gj", u, kit[order[0]],
		    kit[order[1]], kit[order[2]], kit[order[3]], creal(v),
		    cimag(v), creal(truth_v), cimag(truth_v));
	if (!(cabs(v - truth_v) <= 1e-3))
	    vf_fail(c->r, "wrong:vnacal_get_parameter_value", "kit "
		    "epilogue: the unknown measured alternately (+0.01 and -0.01 "
		    "off) among %d known standards solves to %.6g%+.6gj, "
		    "expected %.6g%+.6gj within 1e-3 (handle %d of %d "
		    "handles in one vnacal_new_t)", nk, creal(v),
		    cimag(v), creal(truth_v), cimag(truth_v), u, nk + 1);
    }
out:
    if (vnp != NULL)
	vnacal_new_free(vnp);
    for (int k = 0; k < NKIT; ++k)
	if (kit[k] >= 0)
	    (void)vnacal_delete_parameter(c->vcp, kit[k]);
    if (u >= 0)
	(void)vnacal_delete_parameter(c->vcp, u);
    if (s0 >= 0)
	(void)vnacal_delete_parameter(c->vcp, s0);
    vf_errlog_reset(&c->elog);
}

/*
 * Third epilogue: the calibration table far beyond the BFS depth.  A fresh
 * solved 1x1 calibration is added under 12 new names (the table grows
 * 1 -> 8 -> 16), every other one is deleted, names are replaced and new
 * ones added into the holes; after every step each of the epilogue's own
 * calibrations and each of the model's is found under its name at its
 * index, no index is issued twice, and get_calibration_end is one past the
 * highest live index.  Everything added is deleted again, then the model's
 * view is observed once more.
 */
#define NX 12
static int table_check(ctx_t *c, const int *xi, const char *when)
{
    model *m = &c->m;
    int end = 0;
    char nm[16];

    for (int ci = 0; ci < MAXCI; ++ci)
	if (m->cal[ci].live && ci + 1 > end)
	    end = ci + 1;
    for (int k = 0; k < 2 * NX; ++k) {
	if (xi[k] < 0) {
	    /* a name that is not (or no longer) in the table is not found,
	       whatever longer or shorter names are ("x1" next to "x10") */
	    snprintf(nm, sizeof(nm), "%c%d", k < NX ? 'x' : 'y', k % NX);
	    errno = 0;
	    int f = vnacal_find_calibration(c->vcp, nm);
	    ++c->r->transitions;
	    if (f != -1) {
		vf_fail(c->r, "table:ghost", "%s: vnacal_find_calibration"
			"(\"%s\") = %d (\"%s\") though no calibration has "
			"that name", when, nm, f,
			vnacal_get_name(c->vcp, f) ? vnacal_get_name(c->vcp, f)
			: "(null)");
		return -1;
	    }
	    continue;
	}
	if (xi[k] + 1 > end)
	    end = xi[k] + 1;
	snprintf(nm, sizeof(nm), "%c%d", k < NX ? 'x' : 'y', k % NX);
	int f = vnacal_find_calibration(c->vcp, nm);
	const char *gn = vnacal_get_name(c->vcp, xi[k]);
	++c->r->transitions;
	if (f != xi[k] || gn == NULL || strcmp(gn, nm) != 0) {
	    vf_fail(c->r, "table:lost", "%s: calibration \"%s\" was added at "
		    "index %d; find gives %d, get_name(%d) gives \"%s\"",
		    when, nm, xi[k], f, xi[k], gn ? gn : "(null)");
	    return -1;
	}
	for (int j = 0; j < k; ++j)
	    if (xi[j] == xi[k]) {
		vf_fail(c->r, "table:index-twice", "%s: index %d issued for "
			"two live calibrations", when, xi[k]);
		return -1;
	    }
	if (xi[k] < MAXCI && m->cal[xi[k]].live) {
	    vf_fail(c->r, "table:index-twice", "%s: index %d of the live "
		    "calibration \"%s\" issued again for \"%s\"", when, xi[k],
		    names[m->cal[xi[k]].name], nm);
	    return -1;
	}
    }
    for (int ci = 0; ci < MAXCI; ++ci) {
	if (!m->cal[ci].live)
	    continue;
	int f = vnacal_find_calibration(c->vcp, names[m->cal[ci].name]);
	++c->r->transitions;
	if (f != ci) {
	    vf_fail(c->r, "table:moved", "%s: calibration \"%s\" of index %d "
		    "is now found at %d", when, names[m->cal[ci].name], ci,
		    f);
	    return -1;
	}
    }
    int got = vnacal_get_calibration_end(c->vcp);
    if (got != end) {
	vf_fail(c->r, "wrong:vnacal_get_calibration_end", "%s: "
		"vnacal_get_calibration_end = %d, highest live index + 1 = "
		"%d", when, got, end);
	return -1;
    }
    return 0;
}

static void table_epilogue(ctx_t *c)
{
    double f1 = 1.0e9;
    cx mv[3] = { -0.9 + 0.1 * I, 0.8 - 0.2 * I, 0.05 + 0.02 * I };
    static const int std[3] = { VNACAL_SHORT, VNACAL_OPEN, VNACAL_MATCH };
    int xi[2 * NX];
    char nm[16], when[80];
    vnacal_new_t *vnp = vnacal_new_alloc(c->vcp, VNACAL_T8, 1, 1, 1);

    for (int k = 0; k < 2 * NX; ++k)
	xi[k] = -1;
    if (vnp == NULL || vnacal_new_set_frequency_vector(vnp, &f1) != 0) {
	vf_fail(c->r, "probe:setup", "table epilogue: vnacal_new_alloc");
	return;
    }
    for (int k = 0; k < 3; ++k) {
	cx *mp[1] = { &mv[k] };
	if (vnacal_new_add_single_reflect_m(vnp, mp, 1, 1, std[k], 1) != 0) {
	    vf_fail(c->r, "probe:setup", "table epilogue: add standard");
	    goto out;
	}
    }
    if (vnacal_new_solve(vnp) != 0) {
	vf_fail(c->r, "probe:setup", "table epilogue: solve");
	goto out;
    }
    /* 12 new names */
    for (int k = 0; k < NX; ++k) {
	int before = c->elog.nonwarn;
	snprintf(nm, sizeof(nm), "x%d", k);
	/* add_calibration takes the solution with it */
	if (k > 0 && vnacal_new_solve(vnp) != 0) {
	    vf_fail(c->r, "probe:setup", "table epilogue: solve again");
	    goto out;
	}
	xi[k] = vnacal_add_calibration(c->vcp, nm, vnp);
	++c->r->transitions;
	expect_ok(c, "vnacal_add_calibration", xi[k], before);
	if (xi[k] < 0)
	    goto out;
	snprintf(when, sizeof(when), "table epilogue, after adding \"%s\"",
		nm);
	if (table_check(c, xi, when) != 0)
	    goto out;
    }
    /* delete every other one */
    for (int k = 1; k < NX; k += 2) {
	int before = c->elog.nonwarn;
	int rc = vnacal_delete_calibration(c->vcp, xi[k]);
	++c->r->transitions;
	expect_ok(c, "vnacal_delete_calibration", rc, before);
	if (rc != 0)
	    goto out;
	int gone = xi[k];
	xi[k] = -1;
	snprintf(when, sizeof(when), "table epilogue, after deleting x%d "
		"(index %d)", k, gone);
	if (table_check(c, xi, when) != 0)
	    goto out;
	if (vnacal_get_name(c->vcp, gone) != NULL &&
		!(gone < MAXCI && c->m.cal[gone].live)) {
	    vf_fail(c->r, "table:ghost", "%s: get_name(%d) still answers",
		    when, gone);
	    goto out;
	}
    }
    /* replace live names: the index must not change */
    for (int k = 0; k < NX; k += 4) {
	int before = c->elog.nonwarn;
	snprintf(nm, sizeof(nm), "x%d", k);
	if (vnacal_new_solve(vnp) != 0) {
	    vf_fail(c->r, "probe:setup", "table epilogue: solve again");
	    goto out;
	}
	int ci = vnacal_add_calibration(c->vcp, nm, vnp);
	++c->r->transitions;
	expect_ok(c, "vnacal_add_calibration", ci, before);
	if (ci != xi[k]) {
	    vf_fail(c->r, "add-index:replace", "table epilogue: "
		    "vnacal_add_calibration(\"%s\") returned %d but the "
		    "calibration of that name it replaces is at index %d",
		    nm, ci, xi[k]);
	    goto out;
	}
	snprintf(when, sizeof(when), "table epilogue, after replacing \"%s\"",
		nm);
	if (table_check(c, xi, when) != 0)
	    goto out;
    }
    /* new names into the holes and beyond */
    for (int k = 0; k < NX; ++k) {
	int before = c->elog.nonwarn;
	snprintf(nm, sizeof(nm), "y%d", k);
	if (vnacal_new_solve(vnp) != 0) {
	    vf_fail(c->r, "probe:setup", "table epilogue: solve again");
	    goto out;
	}
	xi[NX + k] = vnacal_add_calibration(c->vcp, nm, vnp);
	++c->r->transitions;
	expect_ok(c, "vnacal_add_calibration", xi[NX + k], before);
	if (xi[NX + k] < 0)
	    goto out;
	snprintf(when, sizeof(when), "table epilogue, after adding \"%s\"",
		nm);
	if (table_check(c, xi, when) != 0)
	    goto out;
    }
    /* everything the epilogue added goes away again */
    for (int k = 2 * NX - 1; k >= 0; --k) {
	if (xi[k] < 0)
	    continue;
	int rc = vnacal_delete_calibration(c->vcp, xi[k]);
	++c->r->transitions;
	if (rc != 0) {
	    vf_fail(c->r, "failed:vnacal_delete_calibration", "table "
		    "epilogue: delete of index %d failed", xi[k]);
	    goto out;
	}
	xi[k] = -1;
	if ((k % 5) == 0) {
	    snprintf(when, sizeof(when), "table epilogue, while deleting");
	    if (table_check(c, xi, when) != 0)
		goto out;
	}
    }
    vnacal_new_free(vnp);
    vnp = NULL;
    vf_errlog_reset(&c->elog);
    observe(c);
out:
    if (vnp != NULL)
	vnacal_new_free(vnp);
}

/* ------------------------------------------------------------------ */

/*
 * read from inside the error callback: the silent queries over every
 * calibration slot the container reports at that moment
 */
static vnacal_t *g_hook_vcp;
static void hook_touch(void)
{
    vnacal_t *vcp = g_hook_vcp;
    volatile double sink = 0;
    if (vcp == NULL)
	return;
    int end = vnacal_get_calibration_end(vcp);
    for (int ci = 0; ci < end && ci < 64; ++ci) {
	const char *nm = vnacal_get_name(vcp, ci);
	if (nm == NULL)
	    continue;
	sink += (double)strlen(nm);
	if (vnacal_find_calibration(vcp, nm) != ci)
	    sink += 1;
    }
    const char *fn = vnacal_get_filename(vcp);
    if (fn != NULL)
	sink += (double)strlen(fn);
    (void)sink;
}

static void run_hist(int tier, const int *ops, int n, vf_result *r)
{
    static ctx_t c;
    char desc[600];
    size_t off = 0;

    (void)tier;
    build_ops();
    memset(&c, 0, sizeof(c));
    c.r = r;
    model_init(&c.m);
    desc[0] = '\0';
    for (int i = 0; i < n && off < sizeof(desc) - 60; ++i) {
	char b[64];
	op_name(tier, ops[i], b, sizeof(b));
	off += (size_t)snprintf(desc + off, sizeof(desc) - off, "%s%s",
		i ? "; " : "", b);
    }
    vf_desc(r, "[vnp0 = T8 1x1 with S,O,M,S] %s", desc);

    unsigned long mark = vf_exec_begin();
    vf_errlog_reset(&c.elog);
    c.vcp = vnacal_create((vnaerr_error_fn_t *)vf_errfn, &c.elog);
    if (c.vcp == NULL) {
	vf_fail(r, "create", "vnacal_create failed");
	return;
    }
    g_hook_vcp = c.vcp;
    vf_errfn_hook = hook_touch;
    if (do_alloc(&c, 0) == 0)
	do_addstd(&c, 0, H_SHORT);
    for (int i = 0; i < n && r->status == VF_OK; ++i) {
	vf_errlog_reset(&c.elog);
	step(&c, ops[i]);
	if (vf_verbose) {
	    char b[64];
	    op_name(tier, ops[i], b, sizeof(b));
	    vf_note("op %d %s: %s%s", i, b, c.issued ? "issued" : "n/a",
		    c.elog.count ? " [error function called]" : "");
	}
    }
    const int last_refused = c.elog.nonwarn;
    if (r->status == VF_OK) {
	vf_errlog_reset(&c.elog);
	observe(&c);
    }
    if (r->status == VF_OK && n > 0) {	/* n == 0 runs outside the sandbox */
	vf_errlog_reset(&c.elog);
	churn(&c);
    }
    if (r->status == VF_OK && n > 0) {
	vf_errlog_reset(&c.elog);
	onepoint_epilogue(&c);
    }
    if (r->status == VF_OK && n > 0) {
	vf_errlog_reset(&c.elog);
	release_epilogue(&c);
    }
    if (r->status == VF_OK && n > 0) {
	vf_errlog_reset(&c.elog);
	regrid_epilogue(&c);
    }
    /* the shape epilogue depends on the calibration table only */
    if (r->status == VF_OK && n > 0) {
	int k = optab[ops[n - 1]].kind;
	if (k == OP_ADDCAL || k == OP_DELCAL) {
	    vf_errlog_reset(&c.elog);
	    shape_epilogue(&c);
	}
    }
    /* the kit epilogue depends on the state only through the parameter
       table and what holds it: a history ending in an operation that
       touches neither repeats its parent's run */
    if (r->status == VF_OK && n > 0) {
	int k = optab[ops[n - 1]].kind;
	if (k != OP_SOLVE && k != OP_ADDCAL && k != OP_DELCAL &&
		k != OP_PROPSET) {
	    vf_errlog_reset(&c.elog);
	    kit_epilogue(&c);
	}
    }
    if (r->status == VF_OK && n > 0) {
	vf_errlog_reset(&c.elog);
	table_epilogue(&c);
    }
    r->nontrivial = (n == 0 || c.issued);
    r->states = 1;
    if (n > 0) {
	char b[64];
	op_name(tier, ops[n - 1], b, sizeof(b));
	char *p = strchr(b, '(');
	if (p) *p = '\0';
	vf_outcome(r, "%s %s", b, !c.issued ? "n/a" :
		last_refused ? "refused" : "done");
    } else {
	vf_outcome(r, "initial");
    }
    vf_errfn_hook = NULL;
    g_hook_vcp = NULL;
    vnacal_free(c.vcp);
    vf_exec_end(r, mark);
    model_key(&c.m, r);
}

vf_driver vf_drv = {
    .property = "C16",
    .rule = "case = operation history on one vnacal_t (+ up to two 1x1 "
	"vnacal_new_t) replayed in lock-step with the slot-table/handle-table "
	"model; every return value is compared and after the last operation "
	"every query is made at every ci in -1..4, find for every name, "
	"get_calibration_end, the value of every predefined/live/deleted/"
	"invalid parameter handle at two frequencies, and every live "
	"calibration is applied to a DUT measurement, followed by a fixed "
	"24-cycle create/delete churn of the parameter table; a history is "
	"non-trivial when its last operation was applicable and reached the "
	"library",
    .bfs = 1,
    .nops = nops,
    .maxdepth = maxdepth,
    .run_hist = run_hist,
    .op_name = op_name,
    .timeout_s = 30,
};
