/*
 * C13: the property tree behaves like a map/list/scalar/null document.
 *
 * BFS over histories of modifying calls (vnaproperty_set in its '=value',
 * '#', insert and append forms, vnaproperty_delete, vnaproperty_set_subtree
 * plus building below the returned address, vnaproperty_copy between
 * disjoint places).  Each history is replayed on a fresh library tree and
 * on the reference document of oracle/pm.h; after the last call the library
 * tree is read back through the public getters and compared with the
 * document, every descriptor of the observer alphabet (well-formed and
 * malformed) is passed to every non-modifying entry point and to
 * vnaproperty_delete (malformed ones) and judged against the document, the
 * tree is read back again (non-modifying calls change nothing), copied
 * (deep copy equals the original), deleted with "." and the allocation
 * accounting must be back at its baseline.
 *
 * Two further groups of operations only do work as the single operation of
 * a history (they are skipped, counted as trivial, anywhere else):
 *   - quote blocks: vnaproperty_quote_key on every key of length <= 3 over
 *     a 14-symbol alphabet;
 *   - vnacal blocks: a reduced history alphabet through vnacal_property_*
 *     on the global root (-1) and on a calibration of a loaded vnacal_t.
 */
#include <errno.h>
#include <stdio.h>
#include <stdlib.h>
#include <string.h>
#include <vnacal.h>
#include <vnaproperty.h>
#include "vf.h"
#include "pm.h"

/* ------------------------------------------------------------------ */
/* operation alphabet                                                  */
/* ------------------------------------------------------------------ */
enum { K_SET, K_SETF, K_DEL, K_SUB, K_SUBSET, K_SUBDEL, K_COPY, K_QUOTE,
       K_VNACAL };

typedef struct {
    int kind;
    const char *a;		/* descriptor (with value for K_SET) */
    const char *b;		/* second argument */
} op_t;

static const op_t ops_table[] = {
    /* set, '=value' forms */
    { K_SET, "a=1", NULL },
    { K_SET, "b=x=y", NULL },
    { K_SET, ".a=2", NULL },
    { K_SET, "a.b=1", NULL },
    { K_SET, "a.a=", NULL },
    { K_SET, "a b =3", NULL },	/* unquoted trailing space is not key */
    { K_SET, "x\\.y=4", NULL },
    { K_SET, "\xc3\xa9=5", NULL },
    { K_SET, "\\1-x= #v", NULL },
    { K_SET, "\\.\\.z =6", NULL },	/* two quoted characters, unquoted space */
    { K_SET, "[0]=1", NULL },
    { K_SET, "[1]=a\nb", NULL },
    { K_SET, "[2]=2", NULL },
    { K_SET, "[0+]=i", NULL },
    { K_SET, "[1+]=j", NULL },
    { K_SET, "[+]=p", NULL },
    { K_SET, "a[0]=1", NULL },
    { K_SET, "a[+]=q", NULL },
    { K_SET, "a[0+]=r", NULL },
    { K_SET, "[0][1]=m", NULL },
    { K_SET, "[0].a=n", NULL },
    { K_SET, ".[1].c=~", NULL },
    { K_SETF, "a[%d].b=%s", NULL },	/* a[1].b=o through the format */
    { K_SET, ".=root", NULL },
    { K_SET, "a.=t", NULL },
    { K_SET, "b[+][+]=u", NULL },
    /* set, null forms */
    { K_SET, "a#", NULL },
    { K_SET, "[0]#", NULL },
    { K_SET, ".#", NULL },
    { K_SET, "a.b#", NULL },
    { K_SET, "[+]#", NULL },
    { K_SET, "[1+]#", NULL },
    /* set_subtree alone ({} and [] can only be made this way) */
    { K_SUB, "{}", NULL },
    { K_SUB, "[]", NULL },
    { K_SUB, "a{}", NULL },
    { K_SUB, "a[]", NULL },
    { K_SUB, "[0]{}", NULL },
    { K_SUB, "[1][]", NULL },
    { K_SUB, "b.x", NULL },
    /* set_subtree and building below it */
    { K_SUBSET, "b", "x=1" },
    { K_SUBSET, "a.b", "[+]=s" },
    { K_SUBSET, "[1]", "c=1" },
    { K_SUBSET, "a", ".=w" },
    { K_SUBDEL, "a", "." },
    { K_SUBDEL, "[0]", "[0]" },
    /* delete */
    { K_DEL, "a", NULL },
    { K_DEL, "b", NULL },
    { K_DEL, "a.b", NULL },
    { K_DEL, "a.", NULL },
    { K_DEL, "[0]", NULL },
    { K_DEL, "[1]", NULL },
    { K_DEL, "[0].", NULL },
    { K_DEL, "a[0]", NULL },
    { K_DEL, ".", NULL },
    { K_DEL, "{}", NULL },
    { K_DEL, "a[]", NULL },
    { K_DEL, "x\\.y", NULL },
    { K_DEL, "[0][1]", NULL },
    { K_DEL, "b[0][0]", NULL },
    /* copy source(b) into set_subtree(a) */
    { K_COPY, "b", "a" },
    { K_COPY, "[1]", "[0]" },
    { K_COPY, "b", "a.b" },
    { K_COPY, "a.c", "b" },
    /* failing sets on well-formed descriptors (history not extended) */
    { K_SET, "a{}=1", NULL },
    { K_SET, "a[]#", NULL },
    { K_SET, "b[0]", NULL },
    { K_SET, "a..b=1", NULL },
    { K_SET, "[1]]=1", NULL },
    { K_SUB, "a.b]", NULL },
    { K_SUB, "[0]=1", NULL },
    /* failing sets on malformed descriptors */
    { K_SET, "=1", NULL },
    { K_SET, "[=1", NULL },
    { K_SET, "a[1=2", NULL },
    { K_SET, "a{=1", NULL },
    { K_SET, "0=1", NULL },
    { K_SUB, "", NULL },
};
#define NMOD ((int)(sizeof(ops_table) / sizeof(ops_table[0])))

/* quote_key alphabet */
static const char *const qsym[] = {
    "a", ".", "[", "]", "{", "}", "\\", " ", "#", "=", "0", "+", "-",
    "\xc3\xa9"
};
#define NQSYM 14
#define NVCBLOCK 2
#define NSCALE 3

/* descriptor alphabet: every string of up to 4 (thorough 5) of these */
static const char *const dsym[] = {
    "a", ".", "[", "]", "0", "1", "+", "=", "#", "{", "}", "\\", "8"
};
#define NDSYM 13

static int nops(int tier)
{
    (void)tier;
    return NMOD + NQSYM + NVCBLOCK + NSCALE + NDSYM;
}
static int maxdepth(int tier) { return tier ? 5 : 4; }

static void op_name(int tier, int op, char *buf, size_t n)
{
    static const char *const kn[] = { "set", "setf", "delete", "set_subtree",
	"set_subtree+set", "set_subtree+delete", "copy" };
    (void)tier;
    if (op < NMOD) {
	const op_t *o = &ops_table[op];
	if (o->b)
	    snprintf(buf, n, "%s(%s ; %s)", kn[o->kind], pm_show(o->a),
		    pm_show(o->b));
	else
	    snprintf(buf, n, "%s(%s)", kn[o->kind], pm_show(o->a));
    } else if (op < NMOD + NQSYM) {
	snprintf(buf, n, "quote_key-block(first=%s)", pm_show(qsym[op - NMOD]));
    } else if (op < NMOD + NQSYM + NVCBLOCK) {
	snprintf(buf, n, "vnacal_property-block(%d)", op - NMOD - NQSYM);
    } else if (op < NMOD + NQSYM + NVCBLOCK + NSCALE) {
	snprintf(buf, n, "scale-block(%s)",
		op - NMOD - NQSYM - NVCBLOCK == 2 ? "map-twins" :
		op - NMOD - NQSYM - NVCBLOCK ? "map" : "list");
    } else {
	snprintf(buf, n, "descriptor-block(first=%s)",
		pm_show(dsym[op - NMOD - NQSYM - NVCBLOCK - NSCALE]));
    }
}

/* ------------------------------------------------------------------ */
/* observer alphabet                                                   */
/* ------------------------------------------------------------------ */
static const char *const observers[] = {
    /* well-formed */
    ".", "a", "b", "a.b", "a.a", "a.c", "a b", "x\\.y", "\xc3\xa9", "\\1-x",
    "\\.\\.z", "[0]", "[1]", "[2]", "[3]", "a[0]", "a[1]", "[0][1]", "[0][0]", "[0].a",
    "[1].c", "a[1].b", "b.x", "b[0]", "b[1]", "b[0][0]", "b[0][1]", "a.b[0]",
    "{}", "[]", "a{}", "a[]", "a.", ".a", "[0].", "[0]{}", "[1][]", "a.{}",
    ".[0]", "a.[0]", ".{}", ".[]", "zz", "a.zz.y",
    /* malformed, or well-formed followed by further tokens */
    "", "a..b", "[", "a]", "a[", "a[1", "a{", "a}", "a=1", "a#", ".=", "[0+]",
    "[+]", "a[+]", "a[0+]", "[0]x", "0", "-a", "a\\", "a{}x", "a.b]",
    "[0]]", "a[]b", "zz]", "{}{}", "[][0]", "+", "a.0", "a,b", "a/b",
    /* subscripts that do not fit an int: no element has them */
    "[2147483648]", "[4294967296]", "[4294967297]", "a[4294967297]",
    "[18446744073709551616]", "[99999999999999999999]", "b[0][4294967296]",
    "[2147483647]", "a[2147483647]",
};
#define NOBS ((int)(sizeof(observers) / sizeof(observers[0])))

static const char *const bad_deletes[] = {
    "", "a..b", "[", "a]", "a[", "[0+]", "[+]", "a=1", "a#", "a{}x", "[0]]",
    "a[+]", "a{", "[4294967296]", "a[4294967297]", "[18446744073709551617]",
};
#define NBADDEL ((int)(sizeof(bad_deletes) / sizeof(bad_deletes[0])))

/* sets through a subscript that does not fit an int: refused, no effect
   (EINVAL, ENOENT and ENOMEM are accepted: which one is not documented) */
static const char *const bad_sets[] = {
    "[4294967296]=x", "[4294967297]=x", "a[4294967296]=x", "[4294967296+]=x",
    "[18446744073709551616]=x", "b[0][4294967297]#",
    /* the largest subscript an int holds: no list can be made that long */
    "[2147483647]=x", "a[2147483647]=x", "[2147483647+]#",
};
#define NBADSET ((int)(sizeof(bad_sets) / sizeof(bad_sets[0])))

/* does the descriptor hold a run of ten or more digits? */
static int has_huge_index(const char *s)
{
    int run = 0;
    for (; *s != '\0'; ++s) {
	run = isdigit((unsigned char)*s) ? run + 1 : 0;
	if (run >= 10)
	    return 1;
    }
    return 0;
}

static const char *ename(int e)
{
    static char b[4][24];
    static int k;
    if (e == 0) return "0";
    if (e == EINVAL) return "EINVAL";
    if (e == ENOENT) return "ENOENT";
    if (e == ENOMEM) return "ENOMEM";
    k = (k + 1) % 4;
    snprintf(b[k], sizeof(b[k]), "errno=%d", e);
    return b[k];
}

/*
 * is errno e within the allowed set?  In the descriptor enumeration any of
 * the two documented values is accepted for a call the reference refuses:
 * which of "malformed" and "not found" the library notices first on a
 * descriptor that is both is not documented.
 */
static int g_errno_loose;
static int err_ok(int e, int set)
{
    if (g_errno_loose && set != 0 && (e == EINVAL || e == ENOENT))
	return 1;
    return (e == EINVAL && (set & PM_EINVAL)) ||
	   (e == ENOENT && (set & PM_ENOENT));
}

/* compare the library tree at root with the model; 0 = equal */
static int same_tree(const vnaproperty_t *root, pm_node *model, pm_buf *got,
	pm_buf *want, char *why, size_t wn)
{
    pm_buf_reset(got);
    pm_buf_reset(want);
    pm_ser(model, want);
    why[0] = '\0';
    if (pm_walk(root, got, why, wn, 0) == -1)
	return -1;
    if (strcmp(pm_buf_str(got), pm_buf_str(want)) != 0) {
	snprintf(why, wn, "library tree %.300s, document %.300s",
		pm_show(pm_buf_str(got)), pm_show(pm_buf_str(want)));
	return -1;
    }
    return 0;
}

/*
 * observe: pass one descriptor to the five non-modifying entry points.
 */
static void observe(vf_result *r, const vnaproperty_t *root, pm_node **mroot,
	const char *desc, pm_buf *b1, pm_buf *b2)
{
    pm_node *mn;
    int set = pm_get(mroot, desc, &mn);
    int e, t, c;
    const char **keys;
    const char *v;
    vnaproperty_t *sub;
    char why[700];

    /* type */
    errno = 0;
    t = vnaproperty_type(root, "%s", desc);
    e = errno;
    ++r->transitions;
    if (set) {
	if (t != -1 || !err_ok(e, set))
	    vf_fail(r, "observer:vnaproperty_type", "type('%s') returned %d "
		    "%s, document says -1 with %s", pm_show(desc), t, ename(e),
		    pm_errset_name(set));
    } else if (mn == NULL) {
	if (t != -1)
	    vf_fail(r, "observer:vnaproperty_type", "type('%s') returned %d "
		    "for a null element, expected -1", pm_show(desc), t);
    } else if (t != mn->kind) {
	vf_fail(r, "observer:vnaproperty_type", "type('%s') returned %d %s, "
		"document says '%c'", pm_show(desc), t, ename(e), mn->kind);
    }

    /* count */
    errno = 0;
    c = vnaproperty_count(root, "%s", desc);
    e = errno;
    ++r->transitions;
    if (set) {
	if (c != -1 || !err_ok(e, set))
	    vf_fail(r, "observer:vnaproperty_count", "count('%s') returned %d "
		    "%s, document says -1 with %s", pm_show(desc), c, ename(e),
		    pm_errset_name(set));
    } else if (mn == NULL) {
	if (c != -1)
	    vf_fail(r, "observer:vnaproperty_count", "count('%s') returned %d "
		    "for a null element, expected -1", pm_show(desc), c);
    } else if (mn->kind == 's') {
	if (c != -1 || e != EINVAL)
	    vf_fail(r, "observer:vnaproperty_count", "count('%s') on a scalar "
		    "returned %d %s, expected -1 EINVAL", pm_show(desc), c,
		    ename(e));
    } else if (c != mn->n) {
	vf_fail(r, "observer:vnaproperty_count", "count('%s') returned %d %s, "
		"document has %d", pm_show(desc), c, ename(e), mn->n);
    }

    /* keys */
    errno = 0;
    keys = vnaproperty_keys(root, "%s", desc);
    e = errno;
    ++r->transitions;
    if (set) {
	if (keys != NULL || !err_ok(e, set))
	    vf_fail(r, "observer:vnaproperty_keys", "keys('%s') returned %s "
		    "%s, document says NULL with %s", pm_show(desc),
		    keys ? "a vector" : "NULL", ename(e), pm_errset_name(set));
    } else if (mn == NULL) {
	if (keys != NULL)
	    vf_fail(r, "observer:vnaproperty_keys", "keys('%s') returned a "
		    "vector for a null element", pm_show(desc));
    } else if (mn->kind != 'm') {
	if (keys != NULL || e != EINVAL)
	    vf_fail(r, "observer:vnaproperty_keys", "keys('%s') on a '%c' "
		    "returned %s %s, expected NULL EINVAL", pm_show(desc),
		    mn->kind, keys ? "a vector" : "NULL", ename(e));
    } else if (keys == NULL) {
	vf_fail(r, "observer:vnaproperty_keys", "keys('%s') returned NULL %s "
		"for a map of %d", pm_show(desc), ename(e), mn->n);
    } else {
	int n = 0, bad = 0;
	while (keys[n] != NULL)
	    ++n;
	if (n != mn->n)
	    bad = 1;
	for (int i = 0; i < n && !bad; ++i) {
	    if (pm_map_find(mn, keys[i]) < 0)
		bad = 1;
	    for (int j = 0; j < i; ++j)
		if (strcmp(keys[i], keys[j]) == 0)
		    bad = 1;
	}
	if (bad)
	    vf_fail(r, "observer:vnaproperty_keys", "keys('%s') lists %d keys "
		    "that are not the document's %d keys", pm_show(desc), n,
		    mn->n);
    }
    if (keys != NULL)
	vf_free((void *)keys);

    /* get */
    errno = 0;
    v = vnaproperty_get(root, "%s", desc);
    e = errno;
    ++r->transitions;
    if (set) {
	if (v != NULL || !err_ok(e, set))
	    vf_fail(r, "observer:vnaproperty_get", "get('%s') returned %s%s "
		    "%s, document says NULL with %s", pm_show(desc),
		    v ? "'" : "", v ? pm_show(v) : "NULL", ename(e),
		    pm_errset_name(set));
    } else if (mn == NULL) {
	if (v != NULL)
	    vf_fail(r, "observer:vnaproperty_get", "get('%s') returned '%s' "
		    "for a null element", pm_show(desc), pm_show(v));
    } else if (mn->kind != 's') {
	if (v != NULL || e != EINVAL)
	    vf_fail(r, "observer:vnaproperty_get", "get('%s') on a '%c' "
		    "returned %s %s, expected NULL EINVAL", pm_show(desc),
		    mn->kind, v ? pm_show(v) : "NULL", ename(e));
    } else if (v == NULL || strcmp(v, mn->str) != 0) {
	vf_fail(r, "observer:vnaproperty_get", "get('%s') returned %s %s, "
		"document has '%s'", pm_show(desc), v ? pm_show(v) : "NULL",
		ename(e), pm_show(mn->str));
    }

    /* get_subtree */
    errno = 0;
    sub = vnaproperty_get_subtree(root, "%s", desc);
    e = errno;
    ++r->transitions;
    if (set) {
	if (sub != NULL || !err_ok(e, set))
	    vf_fail(r, "observer:vnaproperty_get_subtree", "get_subtree('%s') "
		    "returned %s %s, document says NULL with %s", pm_show(desc),
		    sub ? "a node" : "NULL", ename(e), pm_errset_name(set));
    } else if (mn == NULL) {
	if (sub != NULL || e != 0)
	    vf_fail(r, "observer:vnaproperty_get_subtree", "get_subtree('%s') "
		    "of a null element returned %s %s, expected NULL with "
		    "errno untouched", pm_show(desc), sub ? "a node" : "NULL",
		    ename(e));
    } else if (sub == NULL) {
	vf_fail(r, "observer:vnaproperty_get_subtree", "get_subtree('%s') "
		"returned NULL %s, document has a '%c' there", pm_show(desc),
		ename(e), mn->kind);
    } else if (same_tree(sub, mn, b1, b2, why, sizeof(why)) != 0) {
	vf_fail(r, "observer:vnaproperty_get_subtree", "get_subtree('%s'): "
		"%s", pm_show(desc), why);
    }
}

/* ------------------------------------------------------------------ */
/* one modifying operation on library and model                         */
/* ------------------------------------------------------------------ */
typedef struct {
    int loose;			/* failed on a well-formed descriptor */
    pm_node *before;		/* document before the call when loose */
    int failed;			/* errno class of the last model call or 0 */
} step_t;

static void check_rv(vf_result *r, const char *fn, const char *arg, int rv,
	int e, int mrv, int merr)
{
    char sig[80];
    snprintf(sig, sizeof(sig), "result:%s", fn);
    if (mrv == 0) {
	if (rv != 0)
	    vf_fail(r, sig, "%s('%s') failed with %s, document accepts it",
		    fn, pm_show(arg), ename(e));
    } else if (rv != -1 || !err_ok(e, merr)) {
	vf_fail(r, sig, "%s('%s') returned %d %s, document says -1 with %s",
		fn, pm_show(arg), rv, ename(e), pm_errset_name(merr));
    }
}

static void apply_op(vf_result *r, const op_t *o, vnaproperty_t **root,
	pm_node **mroot, step_t *st, int last)
{
    int rv, e, mrv, merr = 0, loose = 0;

    st->loose = 0;
    st->before = NULL;
    st->failed = 0;
    switch (o->kind) {
    case K_SET:
    case K_SETF: {
	const char *arg = o->kind == K_SETF ? "a[1].b=o" : o->a;
	pm_node *before = pm_clone(*mroot);
	errno = 0;
	if (o->kind == K_SETF)
	    rv = vnaproperty_set(root, o->a, 1, "o");
	else
	    rv = vnaproperty_set(root, "%s", o->a);
	e = errno;
	mrv = pm_set(mroot, arg, &merr, &loose);
	if (mrv)
	    st->failed = merr;
	if (last)
	    check_rv(r, "vnaproperty_set", arg, rv, e, mrv, merr);
	if (mrv == -1 && !loose) {	/* malformed: nothing may change */
	    pm_free(*mroot);
	    *mroot = before;
	    before = NULL;
	}
	if (loose) {
	    st->loose = 1;
	    st->before = before;
	} else {
	    pm_free(before);
	}
	++r->transitions;
	break;
    }
    case K_DEL:
	errno = 0;
	rv = vnaproperty_delete(root, "%s", o->a);
	e = errno;
	mrv = pm_delete(mroot, o->a, &merr);
	if (mrv)
	    st->failed = merr;
	if (last)
	    check_rv(r, "vnaproperty_delete", o->a, rv, e, mrv, merr);
	++r->transitions;
	break;
    case K_SUB:
    case K_SUBSET:
    case K_SUBDEL:
    case K_COPY: {
	pm_node *before = pm_clone(*mroot);
	vnaproperty_t **sub;
	pm_node **msub;
	errno = 0;
	sub = vnaproperty_set_subtree(root, "%s", o->a);
	e = errno;
	msub = pm_set_subtree(mroot, o->a, &merr, &loose);
	if (msub == NULL)
	    st->failed = merr;
	++r->transitions;
	if (last) {
	    if (msub != NULL && sub == NULL)
		vf_fail(r, "result:vnaproperty_set_subtree", "set_subtree('%s')"
			" failed with %s, document accepts it", pm_show(o->a),
			ename(e));
	    else if (msub == NULL && (sub != NULL || !err_ok(e, merr)))
		vf_fail(r, "result:vnaproperty_set_subtree", "set_subtree('%s')"
			" returned %s %s, document says NULL with %s",
			pm_show(o->a), sub ? "an address" : "NULL", ename(e),
			pm_errset_name(merr));
	}
	if (msub == NULL) {
	    if (!loose) {
		pm_free(*mroot);
		*mroot = before;
	    } else {
		st->loose = 1;
		st->before = before;
	    }
	    break;
	}
	pm_free(before);
	if (sub == NULL)
	    break;			/* already reported */
	if (o->kind == K_SUBSET) {
	    int l2;
	    errno = 0;
	    rv = vnaproperty_set(sub, "%s", o->b);
	    e = errno;
	    mrv = pm_set(msub, o->b, &merr, &l2);
	    if (mrv)
		st->failed = merr;
	    if (last)
		check_rv(r, "vnaproperty_set", o->b, rv, e, mrv, merr);
	    ++r->transitions;
	} else if (o->kind == K_SUBDEL) {
	    errno = 0;
	    rv = vnaproperty_delete(sub, "%s", o->b);
	    e = errno;
	    mrv = pm_delete(msub, o->b, &merr);
	    if (mrv)
		st->failed = merr;
	    if (last)
		check_rv(r, "vnaproperty_delete", o->b, rv, e, mrv, merr);
	    ++r->transitions;
	} else if (o->kind == K_COPY) {
	    /*
	     * Source is looked up after the destination was made, so both
	     * are valid and (descriptors chosen so) disjoint.
	     */
	    vnaproperty_t *src;
	    pm_node *msrc;
	    int serr;
	    errno = 0;
	    src = vnaproperty_get_subtree(*root, "%s", o->b);
	    e = errno;
	    serr = pm_get(mroot, o->b, &msrc);
	    if (serr) {
		st->failed = serr;
		if (last && (src != NULL || !err_ok(e, serr)))
		    vf_fail(r, "observer:vnaproperty_get_subtree",
			    "get_subtree('%s') returned %s %s, document says "
			    "NULL with %s", pm_show(o->b),
			    src ? "a node" : "NULL", ename(e),
			    pm_errset_name(serr));
		break;
	    }
	    if (src == NULL && e != 0) {
		if (last)
		    vf_fail(r, "observer:vnaproperty_get_subtree",
			    "get_subtree('%s') failed with %s, document "
			    "has the element", pm_show(o->b), ename(e));
		break;
	    }
	    /* errno as an earlier, failed look-up leaves it: a copy that
	       succeeds does not depend on it */
	    errno = ENOENT;
	    rv = vnaproperty_copy(sub, src);
	    e = errno;
	    if (last && rv != 0)
		vf_fail(r, "result:vnaproperty_copy", "copy('%s' <- '%s') "
			"failed with %s", pm_show(o->a), pm_show(o->b),
			ename(e));
	    {
		pm_node *c = pm_clone(msrc);
		pm_free(*msub);
		*msub = c;
	    }
	    ++r->transitions;
	}
	break;
    }
    default:
	abort();
    }
}

/* ------------------------------------------------------------------ */
/* quote_key blocks                                                    */
/* ------------------------------------------------------------------ */
static void run_quote_block(int first, vf_result *r)
{
    unsigned long mark = vf_exec_begin();
    long nkeys = 0, nquoted = 0;
    char key[16];

    r->nontrivial = 1;
    vf_desc(r, "quote_key on every key '%s' + up to 2 more symbols of the "
	    "14-symbol alphabet: set, keys, get, type, delete through the "
	    "quoted form", pm_show(qsym[first]));
    for (int len = 1; len <= 3; ++len) {
	int total = len == 1 ? 1 : len == 2 ? NQSYM : NQSYM * NQSYM;
	for (int k = 0; k < total; ++k) {
	    vnaproperty_t *root = NULL;
	    char *q;
	    const char **keys;
	    const char *v;
	    int e;

	    strcpy(key, qsym[first]);
	    if (len >= 2)
		strcat(key, qsym[k % NQSYM]);
	    if (len >= 3)
		strcat(key, qsym[k / NQSYM]);
	    ++nkeys;
	    /* a sibling that must stay untouched */
	    if (vnaproperty_set(&root, "sib=s") != 0) {
		vf_fail(r, "result:vnaproperty_set", "set('sib=s') failed");
		return;
	    }
	    q = vnaproperty_quote_key(key);
	    ++r->transitions;
	    if (q == NULL) {
		vf_fail(r, "quote:vnaproperty_quote_key", "quote_key('%s') "
			"returned NULL errno=%d", pm_show(key), errno);
		vnaproperty_delete(&root, ".");
		return;
	    }
	    if (strcmp(q, key) != 0)
		++nquoted;
	    errno = 0;
	    if (vnaproperty_set(&root, "%s=%s", q, "val") != 0) {
		e = errno;
		vf_fail(r, "quote:vnaproperty_set", "key '%s': set('%s=val') "
			"failed with %s", pm_show(key), pm_show(q), ename(e));
		vf_free(q);
		vnaproperty_delete(&root, ".");
		return;
	    }
	    keys = vnaproperty_keys(root, ".");
	    if (keys == NULL || keys[0] == NULL || keys[1] == NULL ||
		    keys[2] != NULL ||
		    !((strcmp(keys[0], "sib") == 0 &&
		       strcmp(keys[1], key) == 0) ||
		      (strcmp(keys[1], "sib") == 0 &&
		       strcmp(keys[0], key) == 0))) {
		pm_buf b = { 0 };
		for (int i = 0; keys && keys[i]; ++i) {
		    pm_buf_puts(&b, "'");
		    pm_buf_puts(&b, keys[i]);
		    pm_buf_puts(&b, "' ");
		}
		vf_fail(r, "quote:vnaproperty_keys", "key '%s' quoted as '%s': "
			"after set('%s=val') beside 'sib' the map's keys are "
			"%s", pm_show(key), pm_show(q), pm_show(q),
			pm_show(pm_buf_str(&b)));
		pm_buf_free(&b);
		if (keys) vf_free((void *)keys);
		vf_free(q);
		vnaproperty_delete(&root, ".");
		return;
	    }
	    vf_free((void *)keys);
	    errno = 0;
	    v = vnaproperty_get(root, "%s", q);
	    e = errno;
	    if (v == NULL || strcmp(v, "val") != 0) {
		vf_fail(r, "quote:vnaproperty_get", "key '%s': get('%s') "
			"returned %s %s, expected 'val'", pm_show(key),
			pm_show(q), v ? pm_show(v) : "NULL", ename(e));
		vf_free(q);
		vnaproperty_delete(&root, ".");
		return;
	    }
	    if (vnaproperty_type(root, "%s", q) != 's' ||
		    vnaproperty_type(root, ".%s.", q) != 's') {
		vf_fail(r, "quote:vnaproperty_type", "key '%s': type('%s') is "
			"not 's'", pm_show(key), pm_show(q));
		vf_free(q);
		vnaproperty_delete(&root, ".");
		return;
	    }
	    errno = 0;
	    if (vnaproperty_delete(&root, "%s", q) != 0 ||
		    vnaproperty_count(root, ".") != 1 ||
		    (v = vnaproperty_get(root, "sib")) == NULL ||
		    strcmp(v, "s") != 0) {
		vf_fail(r, "quote:vnaproperty_delete", "key '%s': delete('%s') "
			"did not remove exactly that key", pm_show(key),
			pm_show(q));
		vf_free(q);
		vnaproperty_delete(&root, ".");
		return;
	    }
	    r->transitions += 6;
	    vf_free(q);
	    vnaproperty_delete(&root, ".");
	}
    }
    r->states = nkeys;
    vf_exec_end(r, mark);
    vf_outcome(r, "quote-block %s", nquoted == nkeys ? "all-quoted" :
	    nquoted ? "some-quoted" : "none-quoted");
}

/* ------------------------------------------------------------------ */
/* vnacal_property blocks                                              */
/* ------------------------------------------------------------------ */
static const char *const vc_ops[] = {	/* s=set d=delete */
    "sa=1", "sb.c=2", "s[0]=x", "s[+]=y", "sa#", "sa[1].k=v", "s.=r",
    "da", "db.c", "d[0]", "d.", "sa{}=1", "d[",
};
#define NVCOPS ((int)(sizeof(vc_ops) / sizeof(vc_ops[0])))
static const char *const vc_obs[] = {
    ".", "a", "b", "b.c", "[0]", "[1]", "a[1].k", "a[0]", "{}", "[]", "zz",
    "a]", "",
};
#define NVCOBS ((int)(sizeof(vc_obs) / sizeof(vc_obs[0])))

static void vc_observe(vf_result *r, vnacal_t *vcp, int ci, pm_node **mroot,
	const char *what)
{
    pm_buf b1 = { 0 }, b2 = { 0 };
    char why[700];

    for (int i = 0; i < NVCOBS; ++i) {
	const char *desc = vc_obs[i];
	pm_node *mn;
	int set = pm_get(mroot, desc, &mn);
	int e, t, c;
	const char *v;
	const char **keys;
	vnaproperty_t *sub;

	errno = 0;
	t = vnacal_property_type(vcp, ci, "%s", desc);
	e = errno;
	if (set ? (t != -1 || !err_ok(e, set)) :
		(t != (mn ? mn->kind : -1)))
	    vf_fail(r, "vnacal:vnacal_property_type", "%s: ci=%d type('%s') "
		    "returned %d %s, document disagrees", what, ci,
		    pm_show(desc), t, ename(e));
	errno = 0;
	c = vnacal_property_count(vcp, ci, "%s", desc);
	e = errno;
	if (set ? (c != -1 || !err_ok(e, set)) :
		(c != (mn && mn->kind != 's' ? mn->n : -1)))
	    vf_fail(r, "vnacal:vnacal_property_count", "%s: ci=%d count('%s') "
		    "returned %d %s, document disagrees", what, ci,
		    pm_show(desc), c, ename(e));
	errno = 0;
	v = vnacal_property_get(vcp, ci, "%s", desc);
	e = errno;
	if (set ? (v != NULL || !err_ok(e, set)) :
		(mn && mn->kind == 's' ?
		 (v == NULL || strcmp(v, mn->str) != 0) : v != NULL))
	    vf_fail(r, "vnacal:vnacal_property_get", "%s: ci=%d get('%s') "
		    "returned %s %s, document disagrees", what, ci,
		    pm_show(desc), v ? pm_show(v) : "NULL", ename(e));
	errno = 0;
	keys = vnacal_property_keys(vcp, ci, "%s", desc);
	e = errno;
	if (set ? (keys != NULL || !err_ok(e, set)) :
		(mn && mn->kind == 'm' ? keys == NULL : keys != NULL)) {
	    vf_fail(r, "vnacal:vnacal_property_keys", "%s: ci=%d keys('%s') "
		    "returned %s %s, document disagrees", what, ci,
		    pm_show(desc), keys ? "a vector" : "NULL", ename(e));
	} else if (keys != NULL) {
	    int n = 0;
	    while (keys[n])
		++n;
	    for (int k = 0; k < n; ++k)
		if (pm_map_find(mn, keys[k]) < 0)
		    n = -1;
	    if (n != mn->n)
		vf_fail(r, "vnacal:vnacal_property_keys", "%s: ci=%d "
			"keys('%s') is not the document's key set", what, ci,
			pm_show(desc));
	}
	if (keys)
	    vf_free((void *)keys);
	errno = 0;
	sub = vnacal_property_get_subtree(vcp, ci, "%s", desc);
	e = errno;
	if (set) {
	    if (sub != NULL || !err_ok(e, set))
		vf_fail(r, "vnacal:vnacal_property_get_subtree", "%s: ci=%d "
			"get_subtree('%s') returned %s %s, document says NULL "
			"with %s", what, ci, pm_show(desc),
			sub ? "a node" : "NULL", ename(e), pm_errset_name(set));
	} else if (same_tree(sub, mn, &b1, &b2, why, sizeof(why)) != 0) {
	    vf_fail(r, "vnacal:vnacal_property_get_subtree", "%s: ci=%d "
		    "get_subtree('%s'): %s", what, ci, pm_show(desc), why);
	}
	r->transitions += 5;
    }
    pm_buf_free(&b1);
    pm_buf_free(&b2);
}

static void vc_apply(vf_result *r, vnacal_t *vcp, int ci, pm_node **mroot,
	const char *op)
{
    int rv, e, mrv, merr, loose;

    errno = 0;
    if (op[0] == 's') {
	pm_node *before = pm_clone(*mroot);
	rv = vnacal_property_set(vcp, ci, "%s", op + 1);
	e = errno;
	mrv = pm_set(mroot, op + 1, &merr, &loose);
	if (mrv == -1) {
	    /* keep the document in step with whichever the library did */
	    vnaproperty_t *sub = vnacal_property_get_subtree(vcp, ci, ".");
	    pm_buf b1 = { 0 }, b2 = { 0 };
	    char why[700];
	    if (same_tree(sub, *mroot, &b1, &b2, why, sizeof(why)) != 0) {
		pm_free(*mroot);
		*mroot = before;
		before = NULL;
	    }
	    pm_buf_free(&b1);
	    pm_buf_free(&b2);
	}
	pm_free(before);
	check_rv(r, "vnacal_property_set", op + 1, rv, e, mrv, merr);
    } else {
	rv = vnacal_property_delete(vcp, ci, "%s", op + 1);
	e = errno;
	mrv = pm_delete(mroot, op + 1, &merr);
	check_rv(r, "vnacal_property_delete", op + 1, rv, e, mrv, merr);
    }
    ++r->transitions;
}

/*
 * Block 0: every pair of operations, first on the global root then on the
 * calibration root (and the other way round); both trees observed after
 * each.  Block 1: the same with two-operation prefixes on one root and a
 * third on the other.
 */
static void run_vnacal_block(int block, vf_result *r)
{
    static vf_errlog elog;
    vnacal_t *vcp;
    int ci, bad;
    long combos = 0;

    vf_desc(r, "vnacal_property_* block %d: operation tuples on roots -1 and "
	    "the calibration of compat-V2.vnacal", block);
    vf_errlog_reset(&elog);
    {
	char path[600];
	const char *repo = getenv("VERIF_REPO");
	snprintf(path, sizeof(path), "%s/src/tests/compat-V2.vnacal",
		repo ? repo : "/repo");
	vcp = vnacal_load(path, (vnaerr_error_fn_t *)vf_errfn, &elog);
    }
    if (vcp == NULL) {
	vf_outcome(r, "vnacal-block load-failed");
	return;
    }
    ci = vnacal_find_calibration(vcp, "default");
    if (ci < 0) {
	vf_outcome(r, "vnacal-block no-calibration");
	vnacal_free(vcp);
	return;
    }
    r->nontrivial = 1;
    /* invalid roots */
    bad = vnacal_get_calibration_end(vcp) + 3;
    errno = 0;
    if (vnacal_property_set(vcp, bad, "a=1") != -1 || errno != EINVAL ||
	    vnacal_property_type(vcp, bad, ".") != -1 ||
	    vnacal_property_get(vcp, -2, "a") != NULL)
	vf_fail(r, "vnacal:invalid-ci", "vnacal_property_* accepted an "
		"invalid calibration index (%d or -2)", bad);

    unsigned long mark = vf_exec_begin();
    for (int first_root = 0; first_root < 2 && r->status == VF_OK;
	    ++first_root) {
	int ra = first_root ? ci : -1, rb = first_root ? -1 : ci;
	for (int i = 0; i < NVCOPS && r->status == VF_OK; ++i) {
	    for (int j = 0; j < NVCOPS && r->status == VF_OK; ++j) {
		int kmax = block ? NVCOPS : 1;
		for (int k = 0; k < kmax && r->status == VF_OK; ++k) {
		    pm_node *ma = NULL, *mb = NULL;
		    char what[200];
		    snprintf(what, sizeof(what), "root %d: %s%s%s; root %d: "
			    "%s", ra, pm_show(vc_ops[i]), block ? ", " : "",
			    block ? pm_show(vc_ops[k]) : "", rb,
			    pm_show(vc_ops[j]));
		    ++combos;
		    vc_apply(r, vcp, ra, &ma, vc_ops[i]);
		    if (block)
			vc_apply(r, vcp, ra, &ma, vc_ops[k]);
		    vc_observe(r, vcp, rb, &mb, what);
		    vc_apply(r, vcp, rb, &mb, vc_ops[j]);
		    vc_observe(r, vcp, ra, &ma, what);
		    vc_observe(r, vcp, rb, &mb, what);
		    vnacal_property_delete(vcp, -1, ".");
		    vnacal_property_delete(vcp, ci, ".");
		    if (vnacal_property_get_subtree(vcp, -1, ".") != NULL ||
			    vnacal_property_get_subtree(vcp, ci, ".") != NULL)
			vf_fail(r, "vnacal:vnacal_property_delete", "%s: "
				"delete('.') left a tree behind", what);
		    pm_free(ma);
		    pm_free(mb);
		}
	    }
	}
    }
    vf_exec_end(r, mark);
    vnacal_free(vcp);
    r->states = combos;
    vf_outcome(r, "vnacal-block ok");
}


/* ------------------------------------------------------------------ */
/* scale blocks: collections that cross the internal resize points     */
/* ------------------------------------------------------------------ */
static int both(vf_result *r, vnaproperty_t **root, pm_node **mroot, int del,
	const char *fmt, ...)
{
    char arg[100];
    va_list ap;
    int rv, e, mrv, merr, loose;

    va_start(ap, fmt);
    vsnprintf(arg, sizeof(arg), fmt, ap);
    va_end(ap);
    errno = 0;
    rv = del ? vnaproperty_delete(root, "%s", arg) :
	vnaproperty_set(root, "%s", arg);
    e = errno;
    mrv = del ? pm_delete(mroot, arg, &merr) :
	pm_set(mroot, arg, &merr, &loose);
    check_rv(r, del ? "vnaproperty_delete" : "vnaproperty_set", arg, rv, e,
	    mrv, merr);
    ++r->transitions;
    return r->status == VF_OK ? 0 : -1;
}

#define SCALE_LIST_MAX 34	/* vector allocation steps at 8, 16, 32 */
#define SCALE_MAP_MAX 70	/* hash table grows at 21 and 65 keys */

static void run_scale_block(int which, vf_result *r)
{
    pm_buf got = { 0 }, want = { 0 };
    char why[900];
    unsigned long mark = vf_exec_begin();
    long steps = 0;

    r->nontrivial = 1;
    if (which == 0) {
	vf_desc(r, "lists of every length n <= %d: insert at every position "
		"p <= n, delete it again, delete element p, get [n], [n-1]",
		SCALE_LIST_MAX);
	for (int n = 0; n <= SCALE_LIST_MAX && r->status == VF_OK; ++n) {
	    for (int p = 0; p <= n && r->status == VF_OK; ++p) {
		vnaproperty_t *root = NULL;
		pm_node *mroot = NULL;
		int bad = 0;
		if (n == 0)
		    vnaproperty_set_subtree(&root, "[]"), mroot = pm_new('l');
		for (int i = 0; i < n && !bad; ++i)
		    bad = both(r, &root, &mroot, 0, "[+]=e%d", i);
		if (!bad) bad = both(r, &root, &mroot, 0, "[%d+]=new", p);
		if (!bad && same_tree(root, mroot, &got, &want, why,
			    sizeof(why)) != 0) {
		    vf_fail(r, "scale:list-insert", "list of %d, insert at %d: "
			    "%s", n, p, why);
		    bad = 1;
		}
		if (!bad) bad = both(r, &root, &mroot, 1, "[%d]", p);
		if (!bad && p < n) bad = both(r, &root, &mroot, 1, "[%d]", p);
		if (!bad) bad = both(r, &root, &mroot, 1, "[%d]", n);
		if (!bad && same_tree(root, mroot, &got, &want, why,
			    sizeof(why)) != 0) {
		    vf_fail(r, "scale:list-delete", "list of %d, insert and "
			    "delete at %d: %s", n, p, why);
		    bad = 1;
		}
		vnaproperty_delete(&root, ".");
		pm_free(mroot);
		++steps;
	    }
	}
    } else if (which == 2) {
	/*
	 * two keys with the same 32-bit hash value (CRC-32C, found by
	 * search): their order in a chain rests on the key text alone.
	 * They are entered first, in both orders, and the map then grows
	 * through its table sizes; both stay retrievable, can be replaced
	 * and deleted, at every size.
	 */
	static const char *const twin[2] = { "fybnafpw", "fztucssg" };
	vf_desc(r, "map holding two keys of identical hash value, grown to 80 "
		"keys; both read, replaced, deleted and re-added at every "
		"size, entered in both orders");
	for (int order = 0; order < 2 && r->status == VF_OK; ++order) {
	    vnaproperty_t *root = NULL;
	    pm_node *mroot = NULL;
	    int bad = 0;
	    bad = both(r, &root, &mroot, 0, "%s=first", twin[order]);
	    if (!bad) bad = both(r, &root, &mroot, 0, "%s=second",
		    twin[1 - order]);
	    for (int n = 0; n < 80 && !bad; ++n) {
		bad = both(r, &root, &mroot, 0, "key%d.v=%d", n * 7919 % 1000,
			n);
		if (!bad && same_tree(root, mroot, &got, &want, why,
			    sizeof(why)) != 0) {
		    vf_fail(r, "scale:map-twins", "map of %d keys holding "
			    "two keys of one hash value: %s", n + 3, why);
		    bad = 1;
		}
		for (int t = 0; t < 2 && !bad; ++t) {
		    bad = both(r, &root, &mroot, 0, "%s=v%d", twin[t], n);
		    if (!bad && (n % 7) == t) {
			bad = both(r, &root, &mroot, 1, "%s", twin[t]);
			if (!bad) bad = both(r, &root, &mroot, 0, "%s=back%d",
				twin[t], n);
		    }
		    ++steps;
		}
		if (!bad && same_tree(root, mroot, &got, &want, why,
			    sizeof(why)) != 0) {
		    vf_fail(r, "scale:map-twins", "map of %d keys after "
			    "replacing the two keys of one hash value: %s",
			    n + 3, why);
		    bad = 1;
		}
	    }
	    vnaproperty_delete(&root, ".");
	    pm_free(mroot);
	}
    } else {
	vnaproperty_t *root = NULL;
	pm_node *mroot = NULL;
	int bad = 0;
	vf_desc(r, "map grown key by key to %d keys, every key deleted and "
		"re-added at every size, then emptied", SCALE_MAP_MAX);
	for (int n = 0; n < SCALE_MAP_MAX && !bad; ++n) {
	    bad = both(r, &root, &mroot, 0, "key%d.v=%d", n * 7919 % 1000, n);
	    for (int j = 0; j <= n && !bad; j += (n < 24 ? 1 : 5)) {
		bad = both(r, &root, &mroot, 1, "key%d", j * 7919 % 1000);
		if (!bad) bad = both(r, &root, &mroot, 1, "key%d",
			j * 7919 % 1000);		/* now ENOENT */
		if (!bad) bad = both(r, &root, &mroot, 0, "key%d.v=%d",
			j * 7919 % 1000, j);
		++steps;
	    }
	    if (!bad && same_tree(root, mroot, &got, &want, why,
			sizeof(why)) != 0) {
		vf_fail(r, "scale:map", "map of %d keys: %s", n + 1, why);
		bad = 1;
	    }
	}
	for (int n = 0; n < SCALE_MAP_MAX && !bad; n += 2)
	    bad = both(r, &root, &mroot, 1, "key%d", n * 7919 % 1000);
	if (!bad && same_tree(root, mroot, &got, &want, why, sizeof(why)) != 0)
	    vf_fail(r, "scale:map", "after deleting every other key: %s", why);
	vnaproperty_delete(&root, ".");
	pm_free(mroot);
    }
    vf_exec_end(r, mark);
    r->states = steps;
    vf_outcome(r, "scale-block %s", which ? "map" : "list");
    pm_buf_free(&got);
    pm_buf_free(&want);
}

/* ------------------------------------------------------------------ */
/* history runner                                                      */
/* ------------------------------------------------------------------ */
static void put_key(vf_result *r, pm_node *mroot)
{
    pm_buf b = { 0 };
    pm_ser(mroot, &b);
    if (b.n < 4000) {
	vf_key_append(r, "%s", pm_buf_str(&b));
    } else {
	uint64_t h1 = 1469598103934665603ULL, h2 = 88172645463325252ULL;
	for (size_t i = 0; i < b.n; ++i) {
	    h1 = (h1 ^ (unsigned char)b.s[i]) * 1099511628211ULL;
	    h2 = vf_hash64(h2, (unsigned char)b.s[i]);
	}
	vf_key_append(r, "%016llx%016llx:%.3000s", (unsigned long long)h1,
		(unsigned long long)h2, pm_buf_str(&b));
    }
    pm_buf_free(&b);
}

/* ------------------------------------------------------------------ */
/* descriptor enumeration                                              */
/* ------------------------------------------------------------------ */

/* the fixed tree the descriptors are applied to */
static const char *const desc_base[] = {
    "a.a=1", "a.0=z", "[0]#", "a.b[1]=x", "\\1=one",
};
#define NDBASE ((int)(sizeof(desc_base) / sizeof(desc_base[0])))

static int desc_build(vf_result *r, vnaproperty_t **root, pm_node **mroot)
{
    *root = NULL;
    *mroot = NULL;
    /* "[0]#" on a map root fails by design: the base is built from what
       both sides accept, in lock-step */
    for (int i = 0; i < NDBASE; ++i) {
	int merr, loose;
	pm_node *before = pm_clone(*mroot);
	int mrv = pm_set(mroot, desc_base[i], &merr, &loose);
	int rv = vnaproperty_set(root, "%s", desc_base[i]);
	if ((mrv == 0) != (rv == 0) || loose) {
	    if (!loose) {
		vf_fail(r, "desc:base", "base tree: set('%s') returned %d, "
			"reference %d", desc_base[i], rv, mrv);
		pm_free(before);
		return -1;
	    }
	}
	if (mrv != 0) {
	    pm_free(*mroot);
	    *mroot = before;
	} else {
	    pm_free(before);
	}
    }
    return 0;
}

/*
 * run_desc_block: every descriptor that starts with dsym[first] and has up
 * to three (thorough: four) more symbols, on a fixed tree: the five
 * non-modifying entry points against the reference reading of the
 * descriptor, then set, delete and set_subtree on a fresh tree each with
 * the resulting tree compared, and the live-block count after each
 * descriptor compared with the one before it.
 */
static void run_desc_block(int first, int tier, vf_result *r)
{
    unsigned long mark = vf_exec_begin();
    const int maxlen = tier ? 5 : 4;
    vnaproperty_t *root = NULL;
    pm_node *mroot = NULL;
    pm_buf got = { 0 }, want = { 0 };
    char why[900], d[16], arg[24];
    long ndesc = 0;

    r->nontrivial = 1;
    vf_desc(r, "every descriptor '%s' + up to %d more symbols of the "
	    "%d-symbol descriptor alphabet: type, count, keys, get, "
	    "get_subtree, set, delete, set_subtree against the reference "
	    "reading; live blocks after each", pm_show(dsym[first]),
	    maxlen - 1, NDSYM);
    if (desc_build(r, &root, &mroot) != 0)
	goto out;
    g_errno_loose = 1;
    for (int len = 1; len <= maxlen && r->status == VF_OK; ++len) {
	long total = 1;
	for (int i = 1; i < len; ++i)
	    total *= NDSYM;
	for (long k = 0; k < total && r->status == VF_OK; ++k) {
	    long kk = k;
	    long live0;
	    strcpy(d, dsym[first]);
	    for (int i = 1; i < len; ++i) {
		strcat(d, dsym[kk % NDSYM]);
		kk /= NDSYM;
	    }
	    ++ndesc;
	    live0 = vf_live_total();
	    observe(r, root, &mroot, d, &got, &want);
	    if (r->status != VF_OK)
		break;
	    for (int kind = 0; kind < 3 && r->status == VF_OK; ++kind) {
		vnaproperty_t *root2 = NULL;
		pm_node *mroot2 = NULL;
		step_t st = { 0, NULL, 0 };
		op_t o = { kind == 0 ? K_SET : kind == 1 ? K_DEL : K_SUB,
		    arg, NULL };
		if (kind == 0)
		    snprintf(arg, sizeof(arg), "%s=v", d);
		else
		    snprintf(arg, sizeof(arg), "%s", d);
		if (desc_build(r, &root2, &mroot2) != 0)
		    break;
		apply_op(r, &o, &root2, &mroot2, &st, 1);
		if (r->status == VF_OK) {
		    if (same_tree(root2, mroot2, &got, &want, why,
				sizeof(why)) != 0) {
			int ok = 0;
			if (st.loose && st.before != NULL) {
			    pm_free(mroot2);
			    mroot2 = st.before;
			    st.before = NULL;
			    ok = same_tree(root2, mroot2, &got, &want, why,
				    sizeof(why)) == 0;
			}
			if (!ok)
			    vf_fail(r, kind == 0 ? "state:after-set" :
				    kind == 1 ? "state:after-delete" :
				    "state:after-set_subtree", "descriptor "
				    "'%s' on the fixed tree: %s", pm_show(arg),
				    why);
		    }
		}
		(void)vnaproperty_delete(&root2, ".");
		pm_free(mroot2);
		pm_free(st.before);
	    }
	    if (r->status == VF_OK && vf_live_total() != live0)
		vf_fail(r, "leak:descriptor", "%ld block(s) stay allocated "
			"after descriptor '%s' went through the eight entry "
			"points and every tree was deleted",
			vf_live_total() - live0, pm_show(d));
	}
    }
    if (r->status == VF_OK &&
	    same_tree(root, mroot, &got, &want, why, sizeof(why)) != 0)
	vf_fail(r, "state:after-observers", "non-modifying calls changed the "
		"fixed tree: %s", why);
    r->states = ndesc;
    vf_outcome(r, "descriptor block ok");
out:
    g_errno_loose = 0;
    (void)vnaproperty_delete(&root, ".");
    pm_free(mroot);
    pm_buf_free(&got);
    pm_buf_free(&want);
    vf_exec_end(r, mark);
}

static void run_hist(int tier, const int *ops, int n, vf_result *r)
{
    vnaproperty_t *root = NULL;
    pm_node *mroot = NULL;
    pm_buf got = { 0 }, want = { 0 };
    char why[900], name[200];
    step_t st = { 0, NULL };
    unsigned long mark;

    (void)tier;
    /* the groups of stand-alone blocks */
    for (int i = 0; i < n; ++i) {
	if (ops[i] >= NMOD) {
	    r->prune = 1;
	    vf_key_append(r, "block");
	    if (n != 1) {
		vf_desc(r, "stand-alone block inside a longer history: "
			"skipped");
		vf_outcome(r, "block-skipped");
		return;
	    }
	    if (ops[0] < NMOD + NQSYM)
		run_quote_block(ops[0] - NMOD, r);
	    else if (ops[0] < NMOD + NQSYM + NVCBLOCK)
		run_vnacal_block(ops[0] - NMOD - NQSYM, r);
	    else if (ops[0] < NMOD + NQSYM + NVCBLOCK + NSCALE)
		run_scale_block(ops[0] - NMOD - NQSYM - NVCBLOCK, r);
	    else
		run_desc_block(ops[0] - NMOD - NQSYM - NVCBLOCK - NSCALE,
			tier, r);
	    return;
	}
    }

    {
	size_t k = 0;
	char d[700];
	d[0] = '\0';
	for (int i = 0; i < n && k < sizeof(d) - 210; ++i) {
	    op_name(tier, ops[i], name, sizeof(name));
	    k += (size_t)snprintf(d + k, sizeof(d) - k, "%s%s", i ? " ; " : "",
		    name);
	}
	vf_desc(r, "%s", n ? d : "(initial state)");
    }

    if (n == 0) {
	/*
	 * The frame runs the initial state outside its crash isolation: only
	 * report the key here.  The empty tree is observed in full after
	 * every depth-1 history that leaves it empty (delete("."), failing
	 * sets on malformed descriptors).
	 */
	vf_outcome(r, "initial");
	put_key(r, NULL);
	r->states = 1;
	return;
    }
    mark = vf_exec_begin();
    for (int i = 0; i < n; ++i) {
	if (st.loose) {		/* cannot happen: such histories are pruned */
	    pm_free(st.before);
	    st.before = NULL;
	}
	apply_op(r, &ops_table[ops[i]], &root, &mroot, &st, i == n - 1);
	if (vf_verbose) {
	    pm_buf b = { 0 };
	    op_name(tier, ops[i], name, sizeof(name));
	    pm_ser(mroot, &b);
	    vf_note("after %s: document %s", name, pm_show(pm_buf_str(&b)));
	    pm_buf_free(&b);
	}
    }
    r->nontrivial = n > 0;

    /* state comparison */
    if (st.loose) {
	/* failed set on a well-formed descriptor: either tree is accepted */
	if (same_tree(root, mroot, &got, &want, why, sizeof(why)) != 0) {
	    pm_free(mroot);
	    mroot = st.before;
	    st.before = NULL;
	    if (same_tree(root, mroot, &got, &want, why, sizeof(why)) != 0)
		vf_fail(r, "state:after-failed-set", "after the failed call "
			"the tree is neither the previous one nor the one "
			"conforming to the path: %s", why);
	    vf_outcome(r, "failed-set tree-unchanged");
	} else {
	    pm_free(st.before);
	    st.before = NULL;
	    vf_outcome(r, "failed-set path-conformed");
	}
	r->prune = 1;
    } else if (same_tree(root, mroot, &got, &want, why, sizeof(why)) != 0) {
	char sig[100];
	const char *kn = "init";
	if (n > 0) {
	    static const char *const sn[] = { "set", "set", "delete",
		"set_subtree", "set_subtree+set", "set_subtree+delete",
		"copy" };
	    kn = sn[ops_table[ops[n - 1]].kind];
	}
	snprintf(sig, sizeof(sig), "state:after-%s", kn);
	vf_fail(r, sig, "tree differs from the document: %s", why);
    } else if (n > 0) {
	vf_outcome(r, "%s %s root=%c", ops_table[ops[n - 1]].kind == K_DEL ?
		"delete" : ops_table[ops[n - 1]].kind == K_COPY ? "copy" :
		ops_table[ops[n - 1]].kind <= K_SETF ? "set" : "set_subtree",
		st.failed ? pm_errset_name(st.failed) : "ok",
		mroot ? mroot->kind : '~');
    } else {
	vf_outcome(r, "initial");
    }

    if (r->status == VF_OK) {
	/* observers */
	for (int i = 0; i < NOBS; ++i) {
	    int keep = g_errno_loose;
	    if (has_huge_index(observers[i]))
		g_errno_loose = 1;
	    observe(r, root, &mroot, observers[i], &got, &want);
	    g_errno_loose = keep;
	}
	/* deletes that must fail and change nothing */
	for (int i = 0; i < NBADDEL; ++i) {
	    int merr, mrv, rv, e;
	    int keep = g_errno_loose;
	    errno = 0;
	    rv = vnaproperty_delete(&root, "%s", bad_deletes[i]);
	    e = errno;
	    mrv = pm_delete(&mroot, bad_deletes[i], &merr);
	    if (mrv != -1)
		abort();
	    if (has_huge_index(bad_deletes[i]))
		g_errno_loose = 1;
	    check_rv(r, "vnaproperty_delete", bad_deletes[i], rv, e, mrv,
		    merr);
	    g_errno_loose = keep;
	    ++r->transitions;
	}
	/* sets that must fail and change nothing */
	for (int i = 0; i < NBADSET; ++i) {
	    int rv, e;
	    errno = 0;
	    rv = vnaproperty_set(&root, "%s", bad_sets[i]);
	    e = errno;
	    ++r->transitions;
	    if (rv != -1 || (e != EINVAL && e != ENOENT && e != ENOMEM))
		vf_fail(r, "result:vnaproperty_set", "vnaproperty_set('%s') "
			"returned %d %s: a subscript beyond every list must "
			"be refused", pm_show(bad_sets[i]), rv, ename(e));
	}
	/* nothing above may have changed the tree */
	if (same_tree(root, mroot, &got, &want, why, sizeof(why)) != 0)
	    vf_fail(r, "state:after-observers", "non-modifying calls changed "
		    "the tree: %s", why);
	/* deep copy */
	{
	    vnaproperty_t *copy = NULL;
	    int rv;
	    if (vnaproperty_set(&copy, "old.content[2]=x") != 0)
		vf_fail(r, "result:vnaproperty_set", "set on an empty root "
			"failed");
	    errno = ENOENT;	/* stale, from an earlier failed call */
	    rv = vnaproperty_copy(&copy, root);
	    ++r->transitions;
	    if (rv != 0)
		vf_fail(r, "result:vnaproperty_copy", "copy of the whole tree "
			"failed errno=%d", errno);
	    else if (same_tree(copy, mroot, &got, &want, why,
			sizeof(why)) != 0)
		vf_fail(r, "state:after-copy", "copy of the whole tree is not "
			"a deep copy: %s", why);
	    if (copy != NULL && copy == root)
		vf_fail(r, "state:after-copy", "copy shares the root node");
	    vnaproperty_delete(&copy, ".");
	}
    }

    /* teardown */
    {
	int rv = vnaproperty_delete(&root, ".");
	++r->transitions;
	if (rv != 0 || root != NULL)
	    vf_fail(r, "result:vnaproperty_delete", "delete('.') returned %d "
		    "and left root %s", rv, root ? "non-NULL" : "NULL");
    }
    vf_exec_end(r, mark);

    if (!r->prune)
	put_key(r, mroot);
    else
	vf_key_append(r, "pruned");
    r->states = 1;
    pm_free(mroot);
    pm_free(st.before);
    pm_buf_free(&got);
    pm_buf_free(&want);
}

vf_driver vf_drv = {
    .property = "C13",
    .rule = "a history is non-trivial when it contains at least one "
	"modifying call whose result and resulting tree were compared with "
	"the reference document, followed by the full observer sweep "
	"(every observer descriptor x type/count/keys/get/get_subtree, the "
	"always-failing deletes, whole-tree copy, delete('.') with "
	"allocation accounting); quote_key and vnacal_property blocks are "
	"non-trivial only as the single operation of a history (elsewhere "
	"they are skipped and counted as trivial); 'transitions' counts "
	"library calls compared with the document",
    .bfs = 1,
    .nops = nops,
    .maxdepth = maxdepth,
    .run_hist = run_hist,
    .op_name = op_name,
    .timeout_s = 120,
};
