/*
 * C02: self-calibration recovers unknown standard parameters and the
 * calibration; tightening tolerances tightens; the iteration limit bounds
 * the work (every call returns, failing with EDOM).
 *
 * case = (family, type, guess offset, weighting, error network, frequencies);
 * inside a case the tolerance ladder and the iteration-limit ladder are run.
 * Truth comes from oracle/calsim.c.
 */
#include <complex.h>
#include <errno.h>
#include <math.h>
#include <stdio.h>
#include <string.h>
#include <vnacal.h>
#include "vf.h"
#include "calsim.h"

#define NS (CS_MAXP * CS_MAXP)

enum { F_TRL, F_UTHROUGH, F_TRLM, F_UREFLECT1, F_UREFLECT2, F_CORR,
    F_PARTIAL16, F_TRLX, F_RECT, F_CORRV, F_HUB, F_KITLIB, F_NFAM };
static const char *fname[F_NFAM] = { "TRL(analytic)", "unknown-through",
    "TRL+match(LM)", "unknown-reflect-1port", "unknown-reflects-2port",
    "correlated-repeat", "unknown+single-reflect-16term",
    "TRL-with-mismatched-line", "unknown-line-rectangular",
    "correlated-with-known-vector", "correlated-with-unknown-hub",
    "unknown-reflect-in-a-kit-library" };

static const vnacal_type_t types[8] = {
    VNACAL_T8, VNACAL_U8, VNACAL_TE10, VNACAL_UE10,
    VNACAL_T16, VNACAL_U16, VNACAL_UE14, VNACAL_E12
};
static int ntypes_of(int fam)
{
    switch (fam) {
    case F_TRL: return 4;		/* T8 U8 TE10 UE10 */
    case F_TRLX: return 4;
    case F_HUB: return 4;
    case F_KITLIB: return 4;
    case F_PARTIAL16: return 2;		/* T16 U16 */
    default: return 8;
    }
}
static vnacal_type_t type_of(int fam, int k)
{
    if (fam == F_PARTIAL16) return types[4 + k];
    return types[k];
}

/* guess offsets: magnitude factor x phase (degrees) */
static const double gmag[3] = { 1.0, 0.95, 1.05 };
static const double gph[3] = { 0.0, 10.0, -10.0 };
#define NGUESS 9
/* larger offsets: termination and errno only */
static const double gmag_far[2] = { 0.9, 1.1 };
static const double gph_far[2] = { 25.0, -25.0 };
#define NGUESS_FAR 4

static const double tols[5] = { 1e-4, 1e-6, 1e-8, 1e-10, 1e-12 };
static const int limits[7] = { 1, 2, 3, 5, 10, 30, 100 };

static int nnet(int tier) { return tier ? 3 : 1; }
static int nnf(int tier) { return tier ? 3 : 2; }
static int nline(int tier) { return tier ? 5 : 2; }
static int nrefl(int tier) { return tier ? 4 : 2; }

static long fam_count(int tier, int fam)
{
    long n = (long)ntypes_of(fam) * (NGUESS + NGUESS_FAR) * 2 /*weight*/ *
	nnet(tier) * nnf(tier);
    if (fam == F_TRL || fam == F_TRLM || fam == F_TRLX)
	n *= nline(tier) * nrefl(tier);
    return n;
}

#define N_SHARED (8 * 2 * 4 * 3 * 2)	/* type x family x grid relation x solve
					   order x guess */

static long count(int tier)
{
    long n = 0;
    for (int f = 0; f < F_NFAM; ++f)
	n += fam_count(tier, f);
    return n + N_SHARED;
}

static int add_par(cs_scenario *sc, cs_param p)
{
    p.handle = -1;
    sc->param[sc->nparam] = p;
    return sc->nparam++;
}
static int par_predef(cs_scenario *sc, int which)
{
    cs_param p; memset(&p, 0, sizeof(p));
    p.kind = CSP_PREDEF; p.predef = which;
    return add_par(sc, p);
}
static int par_unknown(cs_scenario *sc, cs_c c0, cs_c c1, cs_c guess)
{
    cs_param p; memset(&p, 0, sizeof(p));
    p.kind = CSP_UNKNOWN; p.c0 = c0; p.c1 = c1; p.guess_scale = guess;
    p.npts = 1;
    return add_par(sc, p);
}
static int par_scalar(cs_scenario *sc, cs_c c0)
{
    cs_param p; memset(&p, 0, sizeof(p));
    p.kind = CSP_SCALAR; p.c0 = c0;
    return add_par(sc, p);
}
static void std_push(cs_scenario *sc, int entry, int np, int p1, int p2,
	const int *sp)
{
    cs_std *st = &sc->std[sc->nstd];
    memset(st, 0, sizeof(*st));
    st->entry = entry; st->np = np; st->port[0] = p1; st->port[1] = p2;
    st->id = sc->nstd + 1;
    for (int i = 0; i < np * np; ++i) {
	st->sp[i] = sp ? sp[i] : -1;
	st->sv[i] = 0.0;
    }
    if (entry == CSE_THROUGH) {
	st->sv[1] = st->sv[2] = 1.0;
    }
    ++sc->nstd;
}

/* the weighted variant of the connection-repeatability family: one
   connection deviates, and the measurement-error model is declared on a
   grid of its own (as many points as the calibration, other frequencies)
   with a noise floor linear in frequency: 1e-8 at the first calibration
   frequency, 1e-3 at 1e14 Hz, i.e. below 1e-7 at every calibration
   frequency (the pull towards the nominal value is then below 1e-10) */
static int g_corr_dev;

static const double line_deg[5] = { 60.0, 120.0, 30.0, 90.0, 150.0 };
static const double complex refl_val[4] = {
    -0.95 + 0.10 * I, 0.9 * (0.98 - 0.199 * I), -0.35 + 0.61 * I,
    -0.5 + 0.3 * I
};

/*
 * build scenario; *nunk receives number of unknown parameters whose index
 * (in sc->param) is stored in unk[]
 */
static int build(cs_scenario *sc, int fam, vnacal_type_t type, int net,
	int nf, cs_c guess, int li, int ri, int *unk, int *nunk)
{
    int P = (fam == F_UREFLECT1) ? 1 : 2;
    int pm, po, ps;

    memset(sc, 0, sizeof(*sc));
    if (fam == F_RECT) {
	/* one measured row (T types) or one driven column (U types) */
	bool tt = type == VNACAL_T8 || type == VNACAL_TE10 ||
	    type == VNACAL_T16;
	cs_make_vna(&sc->vna, type, tt ? 1 : 2, tt ? 2 : 1, nf, net);
    } else
    cs_make_vna(&sc->vna, type, P, P, nf, net);
    pm = par_predef(sc, VNACAL_MATCH);
    po = par_predef(sc, VNACAL_OPEN);
    ps = par_predef(sc, VNACAL_SHORT);
    *nunk = 0;
    double th = line_deg[li] * M_PI / 180.0;
    cs_c Ltrue = (li & 1 ? 0.9 : 1.0) * cexp(-I * th);
    cs_c Rtrue = refl_val[ri];

    switch (fam) {
    case F_TRL:
    case F_TRLM: {
	int R = par_unknown(sc, Rtrue, 0.01 * I, guess);
	int L = par_unknown(sc, Ltrue, -0.05 * I * Ltrue, guess);
	int rr[4] = { R, -1, -1, R };
	int ll[4] = { -1, L, L, -1 };
	std_push(sc, CSE_THROUGH, 2, 1, 2, NULL);
	std_push(sc, CSE_DOUBLE, 2, 1, 2, rr);
	std_push(sc, CSE_LINE, 2, 1, 2, ll);
	if (fam == F_TRLM) {
	    int mm[4] = { pm, -1, -1, pm };
	    int so[4] = { ps, -1, -1, po };
	    std_push(sc, CSE_DOUBLE, 2, 1, 2, mm);
	    std_push(sc, CSE_DOUBLE, 2, 1, 2, so);
	}
	unk[(*nunk)++] = R;
	unk[(*nunk)++] = L;
	break;
    }
    case F_TRLX: {
	/* TRL topology (3 standards, 2 unknowns) whose line has a known,
	   non-zero reflection: not the matched line the closed-form TRL
	   solution assumes */
	int R = par_unknown(sc, Rtrue, 0.01 * I, guess);
	int L = par_unknown(sc, Ltrue, -0.05 * I * Ltrue, guess);
	int lr = par_scalar(sc, 0.12 - 0.07 * I);
	int rr[4] = { R, -1, -1, R };
	int ll[4] = { lr, L, L, lr };
	std_push(sc, CSE_THROUGH, 2, 1, 2, NULL);
	std_push(sc, CSE_DOUBLE, 2, 1, 2, rr);
	std_push(sc, CSE_LINE, 2, 1, 2, ll);
	unk[(*nunk)++] = R;
	unk[(*nunk)++] = L;
	break;
    }
    case F_UTHROUGH: {
	/* SOL on both ports, "through" of unknown transmission */
	int T = par_unknown(sc, 0.9 * cexp(-0.35 * I), -0.03 * I, guess);
	int r[3] = { ps, po, pm };
	int tt[4] = { -1, T, T, -1 };
	for (int p = 1; p <= 2; ++p)
	    for (int k = 0; k < 3; ++k)
		std_push(sc, CSE_SINGLE, 1, p, 0, &r[k]);
	std_push(sc, CSE_LINE, 2, 1, 2, tt);
	/* a second, known two-port so that the column-system types are
	   determined as well */
	{
	    int a = par_scalar(sc, 0.10 + 0.05 * I);
	    int b = par_scalar(sc, 0.35 - 0.606 * I);
	    int c = par_scalar(sc, 0.33 - 0.58 * I);
	    int d = par_scalar(sc, -0.08 + 0.10 * I);
	    int ln[4] = { a, b, c, d };
	    std_push(sc, CSE_LINE, 2, 1, 2, ln);
	}
	unk[(*nunk)++] = T;
	break;
    }
    case F_UREFLECT1: {
	int U = par_unknown(sc, Rtrue, 0.02, guess);
	int r[4] = { ps, po, pm, U };
	for (int k = 0; k < 4; ++k)
	    std_push(sc, CSE_SINGLE, 1, 1, 0, &r[k]);
	unk[(*nunk)++] = U;
	break;
    }
    case F_UREFLECT2: {
	/* SOLT with an extra pair of unknown reflects */
	int U1 = par_unknown(sc, refl_val[2], 0.02, guess);
	int U2 = par_unknown(sc, refl_val[3], -0.01 * I, guess);
	int r[3] = { ps, po, pm };
	int uu[4] = { U1, -1, -1, U2 };
	int a = par_scalar(sc, 0.10 + 0.05 * I);
	int b = par_scalar(sc, 0.35 - 0.606 * I);
	int c = par_scalar(sc, 0.33 - 0.58 * I);
	int d = par_scalar(sc, -0.08 + 0.10 * I);
	int ln[4] = { a, b, c, d };
	for (int p = 1; p <= 2; ++p)
	    for (int k = 0; k < 3; ++k)
		std_push(sc, CSE_SINGLE, 1, p, 0, &r[k]);
	std_push(sc, CSE_THROUGH, 2, 1, 2, NULL);
	std_push(sc, CSE_LINE, 2, 1, 2, ln);
	/* every other case names the two ports of the pair of unknown
	   reflects in descending order (the same physical connection) */
	if ((nf + net) & 1) {
	    int uur[4] = { U2, -1, -1, U1 };
	    std_push(sc, CSE_DOUBLE, 2, 2, 1, uur);
	} else {
	    std_push(sc, CSE_DOUBLE, 2, 1, 2, uu);
	}
	unk[(*nunk)++] = U1;
	unk[(*nunk)++] = U2;
	break;
    }
    case F_CORR: {
	/* connection repeatability: the short is connected three times;
	   connections 2 and 3 are modelled as parameters correlated with
	   an unknown "short".  True values coincide (perfect repeat). */
	int U = par_unknown(sc, -0.97 + 0.05 * I, 0.01, guess);
	cs_param p; memset(&p, 0, sizeof(p));
	p.kind = CSP_CORRELATED; p.c0 = -0.97 + 0.05 * I; p.c1 = 0.01;
	p.other = U; p.sigma = 0.01;
	/* weighted variant: the second connection really came out 2 sigma
	   off; with the measurement errors declared (far) smaller than the
	   repeatability, the measurements decide and its value is found */
	if (g_corr_dev)
	    p.c0 += 0.012 - 0.016 * I;
	int C1 = add_par(sc, p);
	p.c0 = -0.97 + 0.05 * I;
	int C2 = add_par(sc, p);
	int r[3] = { ps, po, pm };
	int a = par_scalar(sc, 0.10 + 0.05 * I);
	int b = par_scalar(sc, 0.35 - 0.606 * I);
	int c = par_scalar(sc, 0.33 - 0.58 * I);
	int d = par_scalar(sc, -0.08 + 0.10 * I);
	int ln[4] = { a, b, c, d };
	for (int pp = 1; pp <= 2; ++pp)
	    for (int k = 0; k < 3; ++k)
		std_push(sc, CSE_SINGLE, 1, pp, 0, &r[k]);
	std_push(sc, CSE_THROUGH, 2, 1, 2, NULL);
	std_push(sc, CSE_LINE, 2, 1, 2, ln);
	std_push(sc, CSE_SINGLE, 1, 1, 0, &U);
	std_push(sc, CSE_SINGLE, 1, 2, 0, &C1);
	std_push(sc, CSE_SINGLE, 1, 1, 0, &C2);
	unk[(*nunk)++] = U;
	unk[(*nunk)++] = C1;
	unk[(*nunk)++] = C2;
	break;
    }
    case F_RECT: {
	/* port 1 fully characterised, a through and a known line, then a
	   matched line of unknown transmission: the unknown sits in both
	   rows of the standard's S matrix, the calibration has one */
	int L = par_unknown(sc, Ltrue, -0.05 * I * Ltrue, guess);
	int r[3] = { ps, po, pm };
	int a = par_scalar(sc, 0.10 + 0.05 * I);
	int b = par_scalar(sc, 0.35 - 0.606 * I);
	int c = par_scalar(sc, 0.33 - 0.58 * I);
	int d = par_scalar(sc, -0.08 + 0.10 * I);
	int ln[4] = { a, b, c, d };
	int ll[4] = { -1, L, L, -1 };
	(void)Rtrue;
	for (int k = 0; k < 3; ++k)
	    std_push(sc, CSE_SINGLE, 1, 1, 0, &r[k]);
	std_push(sc, CSE_THROUGH, 2, 1, 2, NULL);
	std_push(sc, CSE_LINE, 2, 1, 2, ln);
	std_push(sc, CSE_LINE, 2, 1, 2, ll);
	unk[(*nunk)++] = L;
	break;
    }
    case F_CORRV: {
	/* a reflect known from its data sheet as a tabulated (frequency
	   dependent) parameter; the connected part is declared as
	   correlated with it (sigma 0.01) and happens to equal it; an
	   unknown through makes the system non-linear */
	cs_param p; memset(&p, 0, sizeof(p));
	p.kind = CSP_VECTOR; p.c0 = -0.93 + 0.12 * I; p.c1 = 0.15 - 0.1 * I;
	p.c2 = 0.2; p.npts = 7; p.lo = 0.9; p.hi = 1.1;
	int V = add_par(sc, p);
	memset(&p, 0, sizeof(p));
	p.kind = CSP_CORRELATED; p.c0 = -0.93 + 0.12 * I;
	p.c1 = 0.15 - 0.1 * I; p.c2 = 0.2; p.other = V; p.sigma = 0.01;
	int C = add_par(sc, p);
	int T = par_unknown(sc, 0.9 * cexp(-0.35 * I), -0.03 * I, guess);
	int r[3] = { ps, po, pm };
	int tt[4] = { -1, T, T, -1 };
	int a = par_scalar(sc, 0.10 + 0.05 * I);
	int b = par_scalar(sc, 0.35 - 0.606 * I);
	int c = par_scalar(sc, 0.33 - 0.58 * I);
	int d = par_scalar(sc, -0.08 + 0.10 * I);
	int ln[4] = { a, b, c, d };
	for (int pp = 1; pp <= 2; ++pp)
	    for (int k = 0; k < 3; ++k)
		std_push(sc, CSE_SINGLE, 1, pp, 0, &r[k]);
	std_push(sc, CSE_LINE, 2, 1, 2, tt);
	std_push(sc, CSE_LINE, 2, 1, 2, ln);
	std_push(sc, CSE_SINGLE, 1, 1, 0, &C);
	std_push(sc, CSE_SINGLE, 1, 2, 0, &C);
	unk[(*nunk)++] = T;
	unk[(*nunk)++] = C;
	break;
    }
    case F_HUB: {
	/* connection repeatability with the standard itself unknown: the
	   reflect and the line are each connected twice; every connection
	   is a parameter correlated (sigma 0.01) with an unknown "hub" that
	   stands for the standard and appears in no S matrix.  The measured
	   equations alone (through 4, match pair 2, reflect pair 2, line 4)
	   are fewer than error terms plus parameters; the correlation rows
	   close the gap.  Connections repeat exactly. */
	int R = par_unknown(sc, Rtrue, 0.01 * I, guess);
	int L = par_unknown(sc, Ltrue, -0.05 * I * Ltrue, guess);
	cs_param p; memset(&p, 0, sizeof(p));
	p.kind = CSP_CORRELATED; p.c0 = Rtrue; p.c1 = 0.01 * I;
	p.other = R; p.sigma = 0.01;
	int r1 = add_par(sc, p);
	int r2 = add_par(sc, p);
	p.c0 = Ltrue; p.c1 = -0.05 * I * Ltrue; p.other = L;
	int l1 = add_par(sc, p);
	int l2 = add_par(sc, p);
	int mm[4] = { pm, -1, -1, pm };
	int rr[4] = { r1, -1, -1, r2 };
	int ll[4] = { -1, l1, l2, -1 };
	std_push(sc, CSE_THROUGH, 2, 1, 2, NULL);
	std_push(sc, CSE_DOUBLE, 2, 1, 2, mm);
	std_push(sc, CSE_DOUBLE, 2, 1, 2, rr);
	std_push(sc, CSE_LINE, 2, 1, 2, ll);
	unk[(*nunk)++] = R;
	unk[(*nunk)++] = L;
	unk[(*nunk)++] = r1;
	unk[(*nunk)++] = r2;
	unk[(*nunk)++] = l1;
	unk[(*nunk)++] = l2;
	break;
    }
    case F_KITLIB: {
	/*
	 * the unknown reflect is an early entry of a cal-kit library of 20
	 * parameters; the characterised through that is measured first has
	 * handles 16 above it.  The reflect is measured on port 1, then a
	 * line of known mismatch and unknown transmission (which brings the
	 * calibration's own parameter table to its first growth), then the
	 * same reflect on port 2.  Through, reflect, line: the set is
	 * determined because it is one reflect, not two.
	 */
	int R = par_unknown(sc, Rtrue, 0.01 * I, guess);
	for (int k = 0; k < 15; ++k)
	    (void)par_scalar(sc, 0.3 * cexp(I * (0.7 * k + 0.2)));
	int t11 = par_scalar(sc, 0.04 + 0.03 * I);
	int t12 = par_scalar(sc, 0.96 * cexp(-0.12 * I));
	int t21 = par_scalar(sc, 0.95 * cexp(-0.11 * I));
	int t22 = par_scalar(sc, -0.03 + 0.05 * I);
	int lr1 = par_scalar(sc, 0.12 - 0.07 * I);
	int lr2 = par_scalar(sc, -0.09 + 0.04 * I);
	int L = par_unknown(sc, Ltrue, -0.05 * I * Ltrue, guess);
	int tt[4] = { t11, t12, t21, t22 };
	int ll[4] = { lr1, L, L, lr2 };
	std_push(sc, CSE_LINE, 2, 1, 2, tt);
	std_push(sc, CSE_SINGLE, 1, 1, 0, &R);
	std_push(sc, CSE_LINE, 2, 1, 2, ll);
	std_push(sc, CSE_SINGLE, 1, 2, 0, &R);
	unk[(*nunk)++] = R;
	unk[(*nunk)++] = L;
	break;
    }
    case F_PARTIAL16: {
	/* complete 16-term set plus single reflects of an unknown:
	   partially specified S matrices together with unknowns */
	int U = par_unknown(sc, Rtrue, 0.02, guess);
	int dr[5][2] = { {pm,pm}, {ps,po}, {po,ps}, {ps,pm}, {po,pm} };
	int a = par_scalar(sc, 0.10 + 0.05 * I);
	int b = par_scalar(sc, 0.35 - 0.606 * I);
	int c = par_scalar(sc, 0.33 - 0.58 * I);
	int d = par_scalar(sc, -0.08 + 0.10 * I);
	int ln[4] = { a, b, c, d };
	int uu[4] = { U, -1, -1, pm };
	std_push(sc, CSE_THROUGH, 2, 1, 2, NULL);
	for (int k = 0; k < 5; ++k) {
	    int sp[4] = { dr[k][0], -1, -1, dr[k][1] };
	    std_push(sc, CSE_DOUBLE, 2, 1, 2, sp);
	}
	std_push(sc, CSE_LINE, 2, 1, 2, ln);
	std_push(sc, CSE_DOUBLE, 2, 1, 2, uu);
	std_push(sc, CSE_SINGLE, 1, 2, 0, &U);
	unk[(*nunk)++] = U;
	break;
    }
    }
    return 0;
}

typedef struct {
    int rc, err_no;
    double perr;		/* worst |p - p_true| over unknowns, freqs */
    double aerr;		/* apply error */
    int nonwarn;
} outcome_t;

static vf_errlog elog;
static int g_tol_order;	/* 1: et tolerance set before the p tolerance */

static void attempt(cs_scenario *sc, const int *unk, int nunk, double ptol,
	double ettol, int limit, bool weight, outcome_t *o, vf_result *r)
{
    vnacal_t *vcp;
    vnacal_new_t *vnp;

    memset(o, 0, sizeof(*o));
    o->rc = -9;
    o->perr = o->aerr = HUGE_VAL;
    vf_errlog_reset(&elog);
    vcp = vnacal_create((vnaerr_error_fn_t *)vf_errfn, &elog);
    if (vcp == NULL)
	return;
    if (cs_make_params(vcp, sc) != 0) {
	o->rc = -8;
	goto out;
    }
    vnp = cs_build(vcp, sc);
    if (vnp == NULL) {
	o->rc = -7;
	goto out;
    }
    if (g_tol_order && ettol > 0 && vnacal_new_set_et_tolerance(vnp, ettol) != 0) { o->rc = -6; goto out; }
    if (ptol > 0 && vnacal_new_set_p_tolerance(vnp, ptol) != 0) { o->rc = -6; goto out; }
    if (!g_tol_order && ettol > 0 && vnacal_new_set_et_tolerance(vnp, ettol) != 0) { o->rc = -6; goto out; }
    if (limit > 0 && vnacal_new_set_iteration_limit(vnp, limit) != 0) { o->rc = -6; goto out; }
    if (weight && g_corr_dev && sc->vna.nf > 1) {
	const int n = sc->vna.nf;
	const double f0 = sc->vna.f[0], fend = 1.0e14;
	double fv[CS_MAXF], sv[CS_MAXF];
	for (int k = 0; k < n; ++k) {
	    fv[k] = k == 0 ? f0 : k == n - 1 ? fend :
		sc->vna.f[k] + 0.4 * (sc->vna.f[k + 1] - sc->vna.f[k]);
	    sv[k] = 1e-8 + 1e-3 * (fv[k] - f0) / (fend - f0);
	}
	if (vnacal_new_set_m_error(vnp, fv, n, sv, NULL) != 0) {
	    o->rc = -5;
	    goto out;
	}
    } else if (weight) {
	double nf = g_corr_dev ? 1e-8 : 1e-5;
	if (vnacal_new_set_m_error(vnp, NULL, 1, &nf, NULL) != 0) {
	    o->rc = -5;
	    goto out;
	}
    }
    vf_errlog_reset(&elog);
    errno = 0;
    o->rc = vnacal_new_solve(vnp);
    o->err_no = errno;
    o->nonwarn = elog.nonwarn;
    r->transitions += sc->nstd + 3;
    if (o->rc == 0) {
	/* a second solve of the same object starts from the solved values
	   and must end there again */
	vf_errlog_reset(&elog);
	errno = 0;
	int rc2 = vnacal_new_solve(vnp);
	if (rc2 != 0 || elog.nonwarn != 0) {
	    o->rc = -3;
	    o->err_no = errno;
	    goto out;
	}
    }
    if (o->rc == 0) {
	double worst = 0;
	for (int u = 0; u < nunk; ++u)
	    for (int f = 0; f < sc->vna.nf; ++f) {
		cs_c got = vnacal_get_parameter_value(vcp,
			sc->param[unk[u]].handle, sc->vna.f[f]);
		cs_c want = cs_param_value(&sc->vna, &sc->param[unk[u]],
			sc->vna.f[f]);
		double e = cabs(got - want);
		if (!(e <= worst)) worst = e;
	    }
	o->perr = worst;
	if (vnacal_add_calibration(vcp, "c02", vnp) >= 0) {
	    int ci = vnacal_find_calibration(vcp, "c02");
	    cs_c Sd[CS_MAXF][NS];
	    int arc;
	    for (int f = 0; f < sc->vna.nf; ++f)
		cs_dut(&sc->vna, 1, f, Sd[f]);
	    o->aerr = cs_apply_error(vcp, ci, sc, Sd, &arc);
	}
    }
out:
    cs_delete_params(vcp, sc);
    vnacal_free(vcp);
}

/*
 * Unknown parameters shared by two vnacal_new_t structures A and B of one
 * vnacal_t (the same physical standards used for two calibrations): solve
 * one, then the other, then the first again; after every solve
 * vnacal_get_parameter_value must return the most recently solved values at
 * every frequency of that solve's grid.  Grid relations:
 *   0  A on 2 points, B on 5 (different lengths)
 *   1  A and B on 3 points each, B's band shifted (same length, other
 *      frequencies, overlapping bands)
 *   2  A and B on 4 points with the same end points, other interior points
 * Families: the unknown reflect on a 1x1 calibration (iterative solver, all
 * types) and TRL on 2x2 (closed-form path, T8 U8 TE10 UE10).
 */
#define N_SHARED_FAM 2
#define N_SHARED_GRID 4
static void run_shared(long idx, vf_result *r)
{
    static cs_scenario a, b;
    int gi = vf_digit(&idx, 3);
    int order = vf_digit(&idx, 2);
    int grel = vf_digit(&idx, N_SHARED_GRID);
    int sfam = vf_digit(&idx, N_SHARED_FAM);
    vnacal_type_t type = types[idx];
    const char *tname = vnacal_type_to_name(type);
    cs_c guess = gmag[gi] * cexp(I * gph[gi] * M_PI / 180.0);
    int unk[8], nunk;
    char sig[160];
    vnacal_t *vcp;
    const int fam = sfam ? F_TRL : F_UREFLECT1;
    const int nfa = grel == 0 ? 2 : grel == 1 ? 3 : grel == 3 ? 3 : 4;
    const int nfb = grel == 0 ? 5 : nfa;

    vf_desc(r, "shared unknown%s %s: vnacal_new_t A on %d frequencies and "
	    "B on %d (%s), solved %s, values read after each solve",
	    sfam ? "s of a TRL 2x2" : " reflect 1x1", tname, nfa, nfb,
	    grel == 0 ? "different lengths" : grel == 1 ? "same length, "
	    "shifted band" : grel == 3 ? "a band six times higher where the "
	    "reflect has the opposite sign; the guesses are tables over both "
	    "bands" : "same length and end points, other interior "
	    "points", order ? "B, A, B" : "A, B, A");
    if (grel == 3 && !sfam) {
	vf_outcome(r, "n/a (the far band is a TRL case)");
	return;
    }
    if (sfam && idx >= 4) {
	vf_outcome(r, "n/a (TRL needs an 8/10-term type)");
	return;
    }
    unsigned long mark = vf_exec_begin();
    build(&a, fam, type, 2, nfa, guess, 0, 1, unk, &nunk);
    build(&b, fam, type, 2, nfb, guess, 0, 1, unk, &nunk);
    if (grel != 0) {
	/* B's grid: same error networks as functions of frequency */
	double fv[CS_MAXF];
	const double f0 = a.vna.f[0], f1 = a.vna.f[nfa - 1];
	for (int i = 0; i < nfb; ++i) {
	    if (grel == 3)
		fv[i] = 6.0 * a.vna.f[i];
	    else if (grel == 1)
		fv[i] = a.vna.f[i] + 0.37 * (f1 - f0);
	    else
		fv[i] = (i == 0 || i == nfb - 1) ? a.vna.f[i] :
		    a.vna.f[i] + 0.41 * (a.vna.f[i + 1] - a.vna.f[i]);
	}
	cs_make_vna_f(&b.vna, type, b.vna.rows, b.vna.cols, nfb, fv,
		b.vna.variant);
    }
    vf_errlog_reset(&elog);
    vcp = vnacal_create((vnaerr_error_fn_t *)vf_errfn, &elog);
    if (vcp == NULL || cs_make_params(vcp, &a) != 0) {
	vf_fail(r, "shared:setup", "set-up failed");
	goto out;
    }
    if (grel == 3) {
	/*
	 * In band B the reflect is another one (opposite sign).  The
	 * guesses are tables over both bands, near the truth of each band:
	 * every solve starts from what the user said about its band, not
	 * from what an earlier solve found in another.
	 */
	b.param[unk[0]].c0 = -b.param[unk[0]].c0;
	b.param[unk[0]].c1 = -b.param[unk[0]].c1;
	for (int u = 0; u < nunk; ++u) {
	    double gf[2 * CS_MAXF];
	    double complex gv[2 * CS_MAXF];
	    int n = 0;
	    for (int i = 0; i < nfa; ++i) {
		gf[n] = a.vna.f[i];
		gv[n++] = guess * cs_param_value(&a.vna, &a.param[unk[u]],
			a.vna.f[i]);
	    }
	    for (int i = 0; i < nfb; ++i) {
		gf[n] = b.vna.f[i];
		gv[n++] = guess * cs_param_value(&b.vna, &b.param[unk[u]],
			b.vna.f[i]);
	    }
	    int hv = vnacal_make_vector_parameter(vcp, gf, n, gv);
	    int hu = hv < 0 ? -1 : vnacal_make_unknown_parameter(vcp, hv);
	    if (hu < 0) {
		vf_fail(r, "shared:setup", "two-band guess: %s",
			elog.count ? elog.msg[0] : "");
		goto out;
	    }
	    a.param[unk[u]].handle = hu;
	}
    }
    for (int k = 0; k < a.nparam; ++k)
	b.param[k].handle = a.param[k].handle;
    vnacal_new_t *va = cs_build(vcp, &a), *vb = cs_build(vcp, &b);
    if (va == NULL || vb == NULL) {
	vf_fail(r, "shared:setup", "standards rejected: %s",
		elog.count ? elog.msg[0] : "");
	goto out;
    }
    for (int step = 0; step < 3; ++step) {
	bool use_b = ((step + order) & 1) != 0;
	cs_scenario *sc = use_b ? &b : &a;
	vf_errlog_reset(&elog);
	int rc = vnacal_new_solve(use_b ? vb : va);
	r->transitions += 1 + sc->vna.nf;
	if (rc != 0) {
	    snprintf(sig, sizeof(sig), "shared:no-convergence:%s", tname);
	    vf_fail(r, sig, "solve %d (%s) failed: %s", step + 1,
		    use_b ? "B" : "A", elog.count ? elog.msg[0] : "");
	    goto out;
	}
	for (int u = 0; u < nunk; ++u)
	    for (int f = 0; f < sc->vna.nf; ++f) {
		cs_c got = vnacal_get_parameter_value(vcp,
			a.param[unk[u]].handle, sc->vna.f[f]);
		cs_c want = cs_param_value(&sc->vna, &sc->param[unk[u]],
			sc->vna.f[f]);
		if (!(cabs(got - want) <= 1e-4)) {
		    snprintf(sig, sizeof(sig), "shared:param-wrong:%s",
			    tname);
		    vf_fail(r, sig, "after solve %d (%s, %d frequencies) "
			    "shared unknown #%d reads %g%+gj at %.4g Hz, "
			    "truth %g%+gj", step + 1, use_b ? "B" : "A",
			    sc->vna.nf, u, creal(got), cimag(got),
			    sc->vna.f[f], creal(want), cimag(want));
		    goto out;
		}
	    }
    }
    r->nontrivial = 1;
    vf_outcome(r, "shared-unknown %s %s grid-relation %d", sfam ? "TRL" :
	    "reflect", tname, grel);
out:
    if (vcp != NULL) {
	cs_delete_params(vcp, &a);
	vnacal_free(vcp);
    }
    vf_exec_end(r, mark);
}

static void run(int tier, long idx, vf_result *r)
{
    static cs_scenario sc;
    int fam;
    /* handles of the case's parameters start at 3, 8 or 16 (sizes at which
       tables keyed by the handle begin and grow), by case number */
    static const int fillers[3] = { 0, 5, 13 };
    cs_param_fillers = fillers[idx % 3];
    for (fam = 0; fam < F_NFAM; ++fam) {
	long n = fam_count(tier, fam);
	if (idx < n) break;
	idx -= n;
    }
    if (fam == F_NFAM) {
	run_shared(idx, r);
	return;
    }
    int nf = vf_digit(&idx, nnf(tier)) + 1;
    int net = vf_digit(&idx, nnet(tier));
    int weight = vf_digit(&idx, 2);
    int g = vf_digit(&idx, NGUESS + NGUESS_FAR);
    int li = 0, ri = 0;
    if (fam == F_TRL || fam == F_TRLM || fam == F_TRLX) {
	li = vf_digit(&idx, nline(tier));
	ri = vf_digit(&idx, nrefl(tier));
    }
    vnacal_type_t type = type_of(fam, (int)idx);
    if (fam == F_PARTIAL16 && weight) {
	/* vnacal_new(3): with measurement-error modelling T16/U16 need the
	   complete S matrix of every standard; this family is by design
	   partial, so the weighted variant does not exist */
	vf_desc(r, "%s weighted: excluded by vnacal_new(3)", fname[fam]);
	vf_outcome(r, "n/a (documented restriction)");
	return;
    }
    const char *tname = vnacal_type_to_name(type);
    bool far = g >= NGUESS;
    double mag, ph;
    int unk[8], nunk;
    char sig[160];

    if (tier == 0)
	net = 2;
    if (!far) {
	mag = gmag[g % 3]; ph = gph[g / 3];
    } else {
	mag = gmag_far[(g - NGUESS) % 2]; ph = gph_far[(g - NGUESS) / 2];
    }
    cs_c guess = mag * cexp(I * ph * M_PI / 180.0);
    vf_desc(r, "%s %s net=%d nf=%d guess x%.2f %+.0fdeg %s line#%d refl#%d; "
	    "tolerance ladder 1e-4..1e-12, iteration limits 1..100",
	    fname[fam], tname, net, nf, mag, ph,
	    weight ? "weighted(m_error)" : "unweighted", li, ri);

    unsigned long mark = vf_exec_begin();
    g_corr_dev = weight && fam == F_CORR;
    /* the TRL families with the second reflect: receivers behind 54 dB of
       loss, every reading of the order of 2e-3 */
    cs_receiver_gain = (fam == F_TRL || fam == F_TRLM || fam == F_TRLX) &&
	(ri & 1) ? 2e-3 : 0.0;
    build(&sc, fam, type, net, nf, guess, li, ri, unk, &nunk);
    {
	long double margin; int eqs, u;
	/* the hub family is determined only together with the ties of its
	   correlated parameters */
	cs_ident_priors = fam == F_HUB;
	int ident = cs_identifiable(&sc, (1u << sc.nstd) - 1u, &margin, &eqs,
		&u);
	cs_ident_priors = 0;
	if (!ident || margin < 1e-4L) {
	    vf_outcome(r, "skipped: %s %s not determining (margin %.1Le)",
		    fname[fam], tname, margin);
	    goto done;
	}
    }

    /* tolerance ladder with the default iteration limit */
    outcome_t o[5];
    int nfail = 0;
    for (int t = 0; t < 5; ++t) {
	attempt(&sc, unk, nunk, tols[t], tols[t], 0, weight, &o[t], r);
	if (o[t].rc < -1) {
	    snprintf(sig, sizeof(sig), "setup:%s:%s", fname[fam], tname);
	    vf_fail(r, sig, "scenario could not be set up (step %d): %s",
		    o[t].rc, elog.count ? elog.msg[0] : "");
	    goto done;
	}
	if (o[t].rc == -1) {
	    ++nfail;
	    if (o[t].err_no != EDOM) {
		snprintf(sig, sizeof(sig), "errno:%s:%s", fname[fam], tname);
		vf_fail(r, sig, "solve failed with errno %d instead of EDOM "
			"(tolerance %g): %s", o[t].err_no, tols[t],
			elog.count ? elog.msg[0] : "");
	    }
	    if (!far && !weight) {
		snprintf(sig, sizeof(sig), "no-convergence:%s:%s",
			fname[fam], tname);
		vf_fail(r, sig, "solve failed from a guess within 5%%/10deg "
			"of the truth (tolerance %g, default iteration "
			"limit): %s", tols[t], elog.count ? elog.msg[0] : "");
	    }
	    continue;
	}
	if (far)
	    continue;	/* outside the declared basin: nothing on values */
	double bound = 100.0 * tols[t] + 1e-9;
	if (!(o[t].perr <= bound)) {
	    snprintf(sig, sizeof(sig), "param-wrong:%s:%s", fname[fam],
		    tname);
	    vf_fail(r, sig, "successful solve (tolerance %g) returned "
		    "parameter values %.3e away from the truth (bound %.1e)",
		    tols[t], o[t].perr, bound);
	}
	if (!(o[t].aerr <= bound)) {
	    snprintf(sig, sizeof(sig), "apply-wrong:%s:%s", fname[fam],
		    tname);
	    vf_fail(r, sig, "successful solve (tolerance %g) corrects the "
		    "DUT with error %.3e (bound %.1e)", tols[t], o[t].aerr,
		    bound);
	}
	/* tightening tightens (up to the floor) */
	for (int s = 0; s < t; ++s) {
	    if (o[s].rc == 0 && o[t].perr > o[s].perr + 1e-9) {
		snprintf(sig, sizeof(sig), "not-monotone:%s:%s", fname[fam],
			tname);
		vf_fail(r, sig, "tolerance %g gives parameter error %.3e, "
			"looser tolerance %g gave %.3e", tols[t], o[t].perr,
			tols[s], o[s].perr);
	    }
	}
    }
    /*
     * the two tolerances are separate settings ("both must be met"): one
     * tight and one loose, each way round and in both orders of the two
     * setter calls.  The order of the calls cannot matter; the tight one
     * bounds its own quantity.
     */
    double et_split_aerr = -1;
    for (int which = 0; which < 2 && !far && r->status == VF_OK; ++which) {
	const double tight = 1e-10, loose = 1e-4;
	outcome_t q[2];
	for (int ord = 0; ord < 2; ++ord) {
	    g_tol_order = ord;
	    attempt(&sc, unk, nunk, which ? loose : tight,
		    which ? tight : loose, 0, weight, &q[ord], r);
	    g_tol_order = 0;
	}
	if (q[0].rc != q[1].rc || (q[0].rc == 0 &&
		    (fabs(q[0].perr - q[1].perr) > 1e-13 ||
		     fabs(q[0].aerr - q[1].aerr) > 1e-13))) {
	    snprintf(sig, sizeof(sig), "setter-order:%s:%s", fname[fam],
		    tname);
	    vf_fail(r, sig, "p tolerance %g and et tolerance %g: setting "
		    "the p tolerance first gives rc %d, parameter error "
		    "%.3e, apply error %.3e; setting the et tolerance first "
		    "gives rc %d, %.3e, %.3e", which ? loose : tight,
		    which ? tight : loose, q[0].rc, q[0].perr, q[0].aerr,
		    q[1].rc, q[1].perr, q[1].aerr);
	    break;
	}
	if (q[0].rc != 0)
	    continue;
	if (which) {
	    et_split_aerr = q[0].aerr;	/* judged last, see below */
	    continue;
	}
	if (!(q[0].perr <= 100.0 * tight + 1e-9)) {
	    snprintf(sig, sizeof(sig), "split-tolerance-p:%s:%s", fname[fam],
		    tname);
	    vf_fail(r, sig, "p tolerance %g with the et tolerance at %g: "
		    "parameter error %.3e (bound %.1e)", tight, loose,
		    q[0].perr, 100.0 * tight + 1e-9);
	}
    }
    /* iteration-limit ladder at tolerance 1e-8: must always return; a
       failure is -1/EDOM with one callback */
    int lim_fail = 0;
    for (int k = 0; k < 7; ++k) {
	outcome_t q;
	attempt(&sc, unk, nunk, 1e-8, 1e-8, limits[k], weight, &q, r);
	if (q.rc == -1) {
	    ++lim_fail;
	    if (q.err_no != EDOM || q.nonwarn != 1) {
		snprintf(sig, sizeof(sig), "limit-errno:%s:%s", fname[fam],
			tname);
		vf_fail(r, sig, "solve with iteration limit %d failed with "
			"errno %d and %d error callbacks (want EDOM, 1)",
			limits[k], q.err_no, q.nonwarn);
	    }
	} else if (q.rc == 0 && !far) {
	    if (!(q.perr <= 100.0 * 1e-8 + 1e-9)) {
		snprintf(sig, sizeof(sig), "limit-param-wrong:%s:%s",
			fname[fam], tname);
		vf_fail(r, sig, "solve with iteration limit %d reported "
			"success but parameters are %.3e off", limits[k],
			q.perr);
	    }
	}
    }
    /*
     * last, so that nothing else of the case is masked by it: et tolerance
     * 1e-10 with the p tolerance at 1e-4 ("both must be met") bounds the
     * error terms, seen through the corrected DUT
     */
    if (r->status == VF_OK && et_split_aerr >= 0 &&
	    !(et_split_aerr <= 100.0 * 1e-10 + 1e-9)) {
	vf_fail(r, "et-tolerance-not-applied", "et tolerance 1e-10 with the "
		"p tolerance at 1e-4 (%s %s): apply error %.3e (bound "
		"%.1e)", fname[fam], tname, et_split_aerr,
		100.0 * 1e-10 + 1e-9);
    }
    r->nontrivial = 1;
    vf_outcome(r, "%s %s %s %s tol-fails:%d limit-fails:%d", fname[fam],
	    tname, far ? "far" : "near", weight ? "w" : "u", nfail, lim_fail);
done:
    vf_exec_end(r, mark);
}

vf_driver vf_drv = {
    .property = "C02",
    .rule = "case = (self-calibration family x type x guess offset x "
	"weighting x network x frequencies [x line phase x reflect value]); "
	"inside a case 5 tolerances and 7 iteration limits are run; truth "
	"from the physical model; non-trivial when the scenario is "
	"determining by the extended Jacobian test (unknown parameters as "
	"extra columns)",
    .count = count,
    .run = run,
    .timeout_s = 120,
};
