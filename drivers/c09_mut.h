/*
 * c09_mut.h: deviation-bounded mutator (DESIGN.md 2.6).
 *
 * A document is split into whitespace-separated tokens (Touchstone:
 * "[...]" keywords and "!" comments are single tokens) and into lines.
 * A deviation is (kind, position); dev_apply() emits every mutated text of
 * that position (looping over the replacement values of the kind).
 */
#ifndef C09_MUT_H
#define C09_MUT_H
#include <ctype.h>
#include <stdlib.h>
#include <string.h>
#include <strings.h>
#include "c09_seeds.h"

enum {
    K_TRUNC,		/* truncate to pos bytes */
    K_TOKDEL, K_TOKDUP, K_TOKSWAP,
    K_NUM,		/* number token -> each of num_repl[] */
    K_KW,		/* keyword token -> every other keyword of its class */
    K_LINEDEL, K_LINEDUP, K_LINESWAP,
    K_HDRSWAP,		/* swap header lines i < j (pos = pair index) */
    K_YSUB,		/* YAML: value (with nested block) -> each ysub[] */
    K_REDECL,		/* re-declare a numeric header line later on */
    K_HDRMOVE,		/* move header line i to before header line j */
    K_LINEINS,		/* calibration file: insert a "key: value" line that
			   belongs to another layout or another place */
    NKINDS
};
static int mut_level2;		/* set while pairs of deviations are built */

static const char *const kind_names[NKINDS] = {
    "truncate", "token-delete", "token-duplicate", "token-swap-next",
    "number-replace", "keyword-replace", "line-delete", "line-duplicate",
    "line-swap-next", "header-line-swap", "yaml-node-substitute",
    "header-redeclare", "header-line-move", "foreign-line-insert"
};

/* lines of the calibration-file vocabulary (all layouts, all versions) */
static const char *const foreign_line[] = {
    "type: T8", "type: U8", "type: TE10", "type: UE10", "type: T16",
    "type: U16", "type: UE14", "type: E12", "type: X9", "rows: 1", "rows: 2",
    "columns: 1", "columns: 2", "frequencies: 3", "z0: 75", "name: other",
    "data: []", "properties: {a: b}", "e: [[1]]", "um: [1]", "el: [[1]]",
    "tm: [[1, 2], [3, 4]]", "sets: []", "calibrations: []", "version: 9",
    "f: 3e9", "- f: 3e9", "- name: extra",
};
#define NFOREIGN ((int)(sizeof(foreign_line) / sizeof(foreign_line[0])))

#define MAXTOK	1600
#define MAXLINE	400
#define MAXTEXT	20000
#define MAXHDR	24		/* header lines considered by K_REDECL/K_HDRMOVE */

typedef struct doc {
    int format;
    const char *s;
    int len;
    int ntok;
    int ts[MAXTOK], te[MAXTOK];		/* token [start,end) */
    int nnum, numtok[MAXTOK];		/* numeric tokens */
    int ncs[MAXTOK], nce[MAXTOK];	/* numeric core [start,end) */
    int nkw, kwtok[MAXTOK], kwidx[MAXTOK];
    int nline;
    int ls[MAXLINE], le[MAXLINE];	/* line [start,end) incl. newline */
    int nhdr;				/* header lines */
    int nhdrf;				/* header lines, capped at MAXHDR */
    /* re-declarable header lines: keyword-or-word + first number */
    int nrd;				/* (line, insert-after) pairs */
    int rdline[MAXHDR * MAXHDR], rdafter[MAXHDR * MAXHDR];
    int rd_ws[MAXHDR], rd_we[MAXHDR];	/* first token of header line */
    int rd_kw[MAXHDR];			/* its keyword index or -1 */
    int rd_ns[MAXHDR], rd_ne[MAXHDR];	/* first number core, or -1 */
    int tokkw[MAXTOK];			/* token -> keyword index or -1 */
    int toknum[MAXTOK];			/* token -> index in numtok or -1 */
    /* YAML view of a line */
    int nyl, yline[MAXLINE];		/* lines having a value position */
    int yvs[MAXLINE];			/* value start offset (absolute) */
    int ykc[MAXLINE];			/* key column */
    int ychild_end[MAXLINE];		/* first line after the children */
} doc_t;

typedef void (*emit_fn)(void *ctx, const char *buf, int len, int value_idx);

static int is_numeric_core(const char *s, int a, int b)
{
    char tmp[64], *end;
    int n = b - a;

    if (n <= 0 || n >= (int)sizeof(tmp))
	return 0;
    memcpy(tmp, s + a, (size_t)n);
    tmp[n] = '\0';
    if (!(isdigit((unsigned char)tmp[0]) || tmp[0] == '+' || tmp[0] == '-' ||
	  tmp[0] == '.'))
	return 0;
    (void)strtod(tmp, &end);
    return end != tmp && *end == '\0';
}

static int line_indent(const doc_t *d, int i)
{
    int k = d->ls[i];
    while (k < d->le[i] && d->s[k] == ' ')
	++k;
    return k - d->ls[i];
}

static int line_blank(const doc_t *d, int i)
{
    for (int k = d->ls[i]; k < d->le[i]; ++k)
	if (!isspace((unsigned char)d->s[k]))
	    return 0;
    return 1;
}

static void doc_parse(doc_t *d, int format, const char *s, int len)
{
    const kw_t *kw = kw_tables[format];
    int i = 0;

    memset(d, 0, offsetof(doc_t, ts));
    d->format = format;
    d->s = s;
    d->len = len;
    d->ntok = d->nnum = d->nkw = d->nline = d->nyl = 0;
    /* tokens */
    while (i < len && d->ntok < MAXTOK) {
	if (isspace((unsigned char)s[i])) {
	    ++i;
	    continue;
	}
	int a = i;
	if (format == F_TS && s[i] == '[') {
	    while (i < len && s[i] != ']' && s[i] != '\n')
		++i;
	    if (i < len && s[i] == ']')
		++i;
	} else if (format == F_TS && s[i] == '!') {
	    while (i < len && s[i] != '\n')
		++i;
	} else {
	    while (i < len && !isspace((unsigned char)s[i]))
		++i;
	}
	d->ts[d->ntok] = a;
	d->te[d->ntok] = i;
	d->tokkw[d->ntok] = -1;
	d->toknum[d->ntok] = -1;
	/* numeric? */
	int ca = a, cb = i;
	while (ca < cb && s[ca] == '[')
	    ++ca;
	while (cb > ca && strchr("],j:", s[cb - 1]) != NULL)
	    --cb;
	if (is_numeric_core(s, ca, cb)) {
	    d->toknum[d->ntok] = d->nnum;
	    d->numtok[d->nnum] = d->ntok;
	    d->ncs[d->nnum] = ca;
	    d->nce[d->nnum] = cb;
	    ++d->nnum;
	} else {
	    for (int k = 0; kw[k].text != NULL; ++k) {
		int n = (int)strlen(kw[k].text);
		if (n == i - a && strncasecmp(kw[k].text, s + a,
			    (size_t)n) == 0) {
		    d->tokkw[d->ntok] = k;
		    d->kwtok[d->nkw] = d->ntok;
		    d->kwidx[d->nkw] = k;
		    ++d->nkw;
		    break;
		}
	    }
	}
	++d->ntok;
    }
    /* lines */
    i = 0;
    while (i < len && d->nline < MAXLINE) {
	int a = i;
	while (i < len && s[i] != '\n')
	    ++i;
	if (i < len)
	    ++i;
	d->ls[d->nline] = a;
	d->le[d->nline] = i;
	++d->nline;
    }
    /* header: lines before the first data line */
    d->nhdr = d->nline;
    for (int l = 0; l < d->nline; ++l) {
	int k = d->ls[l];
	while (k < d->le[l] && (s[k] == ' ' || s[k] == '-'))
	    ++k;
	int e = k;
	while (e < d->le[l] && !isspace((unsigned char)s[e]))
	    ++e;
	int data;
	if (format == F_VNACAL)
	    data = (e - k == 2 && s[k] == 'f' && s[k + 1] == ':');
	else if (format == F_YAML)
	    data = 0;
	else
	    data = is_numeric_core(s, d->ls[l] + line_indent(d, l), e) &&
		s[d->ls[l] + line_indent(d, l)] != '-';
	if (data) {
	    d->nhdr = l;
	    break;
	}
    }
    d->nhdrf = d->nhdr > MAXHDR ? MAXHDR : d->nhdr;
    if (d->nhdr > 16)
	d->nhdr = 16;
    /* re-declarable header lines */
    d->nrd = 0;
    {
	int t = 0;
	for (int l = 0; l < d->nhdrf; ++l) {
	    d->rd_ns[l] = d->rd_ne[l] = -1;
	    d->rd_ws[l] = d->rd_we[l] = -1;
	    d->rd_kw[l] = -1;
	    while (t < d->ntok && d->ts[t] < d->ls[l])
		++t;
	    if (t >= d->ntok || d->ts[t] >= d->le[l])
		continue;
	    int first = t;
	    /* YAML list prefix "- key:" : the key is the word */
	    if (d->te[first] - d->ts[first] == 1 && s[d->ts[first]] == '-' &&
		    first + 1 < d->ntok && d->ts[first + 1] < d->le[l])
		++first;
	    d->rd_ws[l] = d->ts[first];
	    d->rd_we[l] = d->te[first];
	    d->rd_kw[l] = d->tokkw[first];
	    for (int u = first + 1; u < d->ntok && d->ts[u] < d->le[l]; ++u) {
		if (d->toknum[u] >= 0) {
		    d->rd_ns[l] = d->ncs[d->toknum[u]];
		    d->rd_ne[l] = d->nce[d->toknum[u]];
		    break;
		}
	    }
	    if (d->rd_ns[l] < 0)
		continue;
	    for (int p = l; p < d->nhdrf; ++p) {
		d->rdline[d->nrd] = l;
		d->rdafter[d->nrd] = p;
		++d->nrd;
	    }
	}
    }
    /* YAML view */
    if (format == F_VNACAL || format == F_YAML) {
	for (int l = 0; l < d->nline; ++l) {
	    int k = d->ls[l], e = d->le[l];
	    if (e > k && s[e - 1] == '\n')
		--e;
	    if (line_blank(d, l) || s[k] == '#' || s[k] == '%')
		continue;
	    if (e - k >= 3 && (strncmp(s + k, "---", 3) == 0 ||
			strncmp(s + k, "...", 3) == 0))
		continue;
	    while (k < e && s[k] == ' ')
		++k;
	    /* skip "- " prefixes */
	    while (k + 1 < e && s[k] == '-' && s[k + 1] == ' ') {
		k += 2;
		while (k < e && s[k] == ' ')
		    ++k;
	    }
	    if (k < e && s[k] == '-' && k + 1 == e)
		++k;			/* bare "-" */
	    int keycol = k - d->ls[l];
	    int vs = k;
	    /* plain "key:" followed by space or end of line */
	    if (k < e && s[k] != '[' && s[k] != '{' && s[k] != '"' &&
		    s[k] != '\'') {
		for (int c = k; c < e; ++c) {
		    if (s[c] == ':' && (c + 1 == e || s[c + 1] == ' ')) {
			vs = c + 1;
			break;
		    }
		}
	    }
	    int y = d->nyl++;
	    d->yline[y] = l;
	    d->yvs[y] = vs;
	    d->ykc[y] = keycol;
	    /* children */
	    int c = l + 1;
	    while (c < d->nline) {
		if (line_blank(d, c)) {
		    ++c;
		    continue;
		}
		int ind = line_indent(d, c);
		int dash = (d->ls[c] + ind < d->le[c] &&
			s[d->ls[c] + ind] == '-');
		if (ind > keycol || (ind == keycol && dash && vs > k &&
			    vs >= e))
		    ++c;
		else
		    break;
	    }
	    d->ychild_end[y] = c;
	}
    }
}

static long dev_count(const doc_t *d, int kind)
{
    switch (kind) {
    case K_TRUNC:	return d->len;
    case K_TOKDEL:
    case K_TOKDUP:	return d->ntok;
    case K_TOKSWAP:	return d->ntok > 0 ? d->ntok - 1 : 0;
    case K_NUM:		return d->nnum;
    case K_KW:		return d->nkw;
    case K_LINEDEL:
    case K_LINEDUP:	return d->nline;
    case K_LINESWAP:	return d->nline > 0 ? d->nline - 1 : 0;
    case K_HDRSWAP:	return (long)d->nhdr * (d->nhdr - 1) / 2;
    case K_YSUB:	return d->nyl;
    case K_REDECL:	return d->nrd;
    case K_HDRMOVE:	return (long)d->nhdrf * (d->nhdrf + 1);
    case K_LINEINS:	return d->format == F_VNACAL ? d->nline : 0;
    default:		return 0;
    }
}

typedef struct obuf { char b[2 * MAXTEXT + 256]; int n; } obuf_t;

static void ob_put(obuf_t *o, const char *s, int a, int b)
{
    if (b > a && o->n + (b - a) < (int)sizeof(o->b)) {
	memcpy(o->b + o->n, s + a, (size_t)(b - a));
	o->n += b - a;
    }
}

static void ob_str(obuf_t *o, const char *z)
{
    ob_put(o, z, 0, (int)strlen(z));
}

/*
 * dev_apply: emit all mutated texts of deviation (kind, pos)
 */
static void dev_apply(const doc_t *d, int kind, long pos, emit_fn emit,
	void *ctx, obuf_t *o)
{
    const char *s = d->s;
    int len = d->len;

    o->n = 0;
    switch (kind) {
    case K_TRUNC:
	ob_put(o, s, 0, (int)pos);
	emit(ctx, o->b, o->n, 0);
	break;

    case K_TOKDEL:
	ob_put(o, s, 0, d->ts[pos]);
	ob_put(o, s, d->te[pos], len);
	emit(ctx, o->b, o->n, 0);
	break;

    case K_TOKDUP:
	ob_put(o, s, 0, d->te[pos]);
	ob_str(o, " ");
	ob_put(o, s, d->ts[pos], d->te[pos]);
	ob_put(o, s, d->te[pos], len);
	emit(ctx, o->b, o->n, 0);
	break;

    case K_TOKSWAP:
	ob_put(o, s, 0, d->ts[pos]);
	ob_put(o, s, d->ts[pos + 1], d->te[pos + 1]);
	ob_put(o, s, d->te[pos], d->ts[pos + 1]);
	ob_put(o, s, d->ts[pos], d->te[pos]);
	ob_put(o, s, d->te[pos + 1], len);
	emit(ctx, o->b, o->n, 0);
	break;

    case K_NUM:
	for (int v = 0; v < NNUMREPL; ++v) {
	    /* pairs leave the large counts out: two of them together ask
	       for terabytes (honest allocation, not what is explored) and
	       every load of 65536 frequencies costs a second */
	    if (mut_level2 && v >= NUMREPL_BIG_FIRST && v <= NUMREPL_BIG_LAST)
		continue;
	    o->n = 0;
	    ob_put(o, s, 0, d->ncs[pos]);
	    ob_str(o, num_repl[v]);
	    ob_put(o, s, d->nce[pos], len);
	    emit(ctx, o->b, o->n, v);
	}
	/*
	 * one more: the number made equal to the previous number that
	 * stands in the same place of its line (same text between the start
	 * of the line and the number): a frequency equal to the one before
	 * it, a value equal to the one above it
	 */
	{
	    int a = d->ncs[pos], ls = a;
	    while (ls > 0 && s[ls - 1] != '\n')
		--ls;
	    for (long q = pos - 1; q >= 0; --q) {
		int b = d->ncs[q], lq = b;
		while (lq > 0 && s[lq - 1] != '\n')
		    --lq;
		if (b - lq == a - ls && memcmp(s + lq, s + ls,
			    (size_t)(a - ls)) == 0) {
		    if (d->nce[q] - b == d->nce[pos] - a &&
			    memcmp(s + b, s + a, (size_t)(d->nce[q] - b)) == 0)
			break;	/* equal already */
		    o->n = 0;
		    ob_put(o, s, 0, a);
		    ob_put(o, s, b, d->nce[q]);
		    ob_put(o, s, d->nce[pos], len);
		    emit(ctx, o->b, o->n, NNUMREPL);
		    break;
		}
	    }
	}
	break;

    case K_KW:
	{
	    const kw_t *kw = kw_tables[d->format];
	    int t = d->kwtok[pos], me = d->kwidx[pos];
	    for (int k = 0; kw[k].text != NULL; ++k) {
		if (k == me || kw[k].cls != kw[me].cls)
		    continue;
		o->n = 0;
		ob_put(o, s, 0, d->ts[t]);
		ob_str(o, kw[k].text);
		ob_put(o, s, d->te[t], len);
		emit(ctx, o->b, o->n, k);
	    }
	}
	break;

    case K_LINEDEL:
	ob_put(o, s, 0, d->ls[pos]);
	ob_put(o, s, d->le[pos], len);
	emit(ctx, o->b, o->n, 0);
	break;

    case K_LINEDUP:
	ob_put(o, s, 0, d->le[pos]);
	if (d->le[pos] > 0 && s[d->le[pos] - 1] != '\n')
	    ob_str(o, "\n");
	ob_put(o, s, d->ls[pos], d->le[pos]);
	ob_put(o, s, d->le[pos], len);
	emit(ctx, o->b, o->n, 0);
	break;

    case K_LINEINS:
	{
	    /* before line pos, at that line's indentation */
	    int ind = 0;
	    while (d->ls[pos] + ind < d->le[pos] && s[d->ls[pos] + ind] == ' ')
		++ind;
	    for (int v = 0; v < NFOREIGN; ++v) {
		o->n = 0;
		ob_put(o, s, 0, d->ls[pos]);
		for (int k = 0; k < ind; ++k)
		    ob_str(o, " ");
		ob_str(o, foreign_line[v]);
		ob_str(o, "\n");
		ob_put(o, s, d->ls[pos], len);
		emit(ctx, o->b, o->n, v);
	    }
	}
	break;

    case K_LINESWAP:
    case K_HDRSWAP:
	{
	    int i, j;
	    if (kind == K_LINESWAP) {
		i = (int)pos;
		j = i + 1;
	    } else {
		long p = pos;
		i = 0;
		while (p >= d->nhdr - 1 - i) {
		    p -= d->nhdr - 1 - i;
		    ++i;
		}
		j = i + 1 + (int)p;
		if (j == i + 1)
		    break;	/* adjacent pairs are K_LINESWAP */
	    }
	    ob_put(o, s, 0, d->ls[i]);
	    ob_put(o, s, d->ls[j], d->le[j]);
	    if (d->le[j] > 0 && s[d->le[j] - 1] != '\n')
		ob_str(o, "\n");
	    ob_put(o, s, d->le[i], d->ls[j]);
	    ob_put(o, s, d->ls[i], d->le[i]);
	    ob_put(o, s, d->le[j], len);
	    emit(ctx, o->b, o->n, 0);
	}
	break;

    case K_YSUB:
	{
	    int l = d->yline[pos];
	    int ce = d->ychild_end[pos];
	    int rest = ce < d->nline ? d->ls[ce] : len;
	    int haskey = d->yvs[pos] > d->ls[l] + d->ykc[pos];
	    for (int v = 0; v < NYSUB; ++v) {
		o->n = 0;
		ob_put(o, s, 0, d->yvs[pos]);
		if (ysub[v][0] != '\0' && (haskey || d->ykc[pos] > 0))
		    ob_str(o, " ");
		ob_str(o, ysub[v]);
		ob_str(o, "\n");
		ob_put(o, s, rest, len);
		emit(ctx, o->b, o->n, v);
	    }
	}
	break;

    case K_REDECL:
	{
	    const kw_t *kw = kw_tables[d->format];
	    int l = d->rdline[pos], after = d->rdafter[pos];
	    int me = d->rd_kw[l];
	    char core[64], val[3][48];
	    int n = d->rd_ne[l] - d->rd_ns[l], vi = 0;
	    double v;

	    if (n <= 0 || n >= (int)sizeof(core))
		break;
	    memcpy(core, s + d->rd_ns[l], (size_t)n);
	    core[n] = '\0';
	    v = strtod(core, NULL);
	    {
		double w[3] = { v + 1.0, v - 1.0, 2.0 * v };
		for (int i = 0; i < 3; ++i) {
		    if (w[i] > -1e9 && w[i] < 1e9 && w[i] == (double)(long)w[i])
			snprintf(val[i], sizeof(val[i]), "%ld", (long)w[i]);
		    else
			snprintf(val[i], sizeof(val[i]), "%g", w[i]);
		}
	    }
	    /* keyword variants: itself, then (not for vnacal, where the
	       count would explode) every other keyword of its class */
	    for (int k = -1; k == -1 || kw[k].text != NULL; ++k) {
		if (k >= 0 && (me < 0 || d->format == F_VNACAL || k == me ||
			    kw[k].cls != kw[me].cls))
		    continue;
		for (int i = 0; i < 3; ++i, ++vi) {
		    o->n = 0;
		    ob_put(o, s, 0, d->le[after]);
		    if (d->le[after] > 0 && s[d->le[after] - 1] != '\n')
			ob_str(o, "\n");
		    ob_put(o, s, d->ls[l], d->rd_ws[l]);
		    if (k < 0)
			ob_put(o, s, d->rd_ws[l], d->rd_we[l]);
		    else
			ob_str(o, kw[k].text);
		    ob_put(o, s, d->rd_we[l], d->rd_ns[l]);
		    ob_str(o, val[i]);
		    ob_put(o, s, d->rd_ne[l], d->le[l]);
		    if (d->le[l] > 0 && s[d->le[l] - 1] != '\n')
			ob_str(o, "\n");
		    ob_put(o, s, d->le[after], len);
		    emit(ctx, o->b, o->n, (k + 1) * 3 + i);
		}
	    }
	}
	break;

    case K_HDRMOVE:
	{
	    int i = (int)(pos / (d->nhdrf + 1));
	    int j = (int)(pos % (d->nhdrf + 1));
	    int at;

	    if (j == i || j == i + 1)
		break;			/* stays where it is */
	    at = j < d->nhdrf ? d->ls[j] : d->le[d->nhdrf - 1];
	    if (j < i) {
		ob_put(o, s, 0, at);
		ob_put(o, s, d->ls[i], d->le[i]);
		if (d->le[i] > 0 && s[d->le[i] - 1] != '\n')
		    ob_str(o, "\n");
		ob_put(o, s, at, d->ls[i]);
		ob_put(o, s, d->le[i], len);
	    } else {
		ob_put(o, s, 0, d->ls[i]);
		ob_put(o, s, d->le[i], at);
		if (at > 0 && s[at - 1] != '\n')
		    ob_str(o, "\n");
		ob_put(o, s, d->ls[i], d->le[i]);
		if (d->le[i] > 0 && s[d->le[i] - 1] != '\n' && at < len)
		    ob_str(o, "\n");
		ob_put(o, s, at, len);
	    }
	    emit(ctx, o->b, o->n, 0);
	}
	break;

    default:
	break;
    }
}

#endif /* C09_MUT_H */
