/*
 * c03_calls.h: shared artefact of the C03 and C11 drivers.
 *
 *  - a "rich" fixture (vnacal_t with two solved calibrations, a stale
 *    calibration slot, live/solved vnacal_new_t objects, parameters of every
 *    kind, a deleted handle, properties; vnadata_t objects; a property tree)
 *  - a table of (nearly) every public libvna function with, per argument,
 *    its boundary domain; the first value of a domain is the valid baseline
 *  - a state digest of all fixture objects
 *  - the runner that makes one call with 0, 1 or 2 deviations and judges it
 *
 * Classes of domain values
 *   X_BASE    baseline
 *   X_ALT   another value the documentation does not declare invalid: any
 *           outcome is accepted (but a failure must be well-formed)
 *   X_CTX   invalid given the baseline of the other arguments (must fail as
 *           single deviation; any outcome when combined with another
 *           deviation that is not X_FAIL)
 *   X_FAIL  invalid whatever the other arguments are (must always fail)
 */
#ifndef C03_CALLS_H
#define C03_CALLS_H
#include <complex.h>
#include <errno.h>
#include <limits.h>
#include <math.h>
#include <stdarg.h>
#include <stdio.h>
#include <stdlib.h>
#include <string.h>
#include <unistd.h>
#include <vnacal.h>
#include <vnadata.h>
#include <vnaproperty.h>
#include <vnaconv.h>
#include "archdep.h"
#include "vnacal_new_internal.h"	/* read-only: digest of vnacal_new_t */
#include "vf.h"
#include "calsim.h"
#include "c04_table.h"

#define NF 3

enum { X_BASE, X_ALT, X_CTX, X_FAIL };
enum { RK_INT, RK_PTR, RK_PTRE, RK_DBL, RK_CPX, RK_NONE };
enum { CB_ONE, CB_ZERO, CB_UNSPEC };
#define EM_INVAL   1
#define EM_NOENT   2
#define EM_BADMSG  4
#define EM_DOM     8
#define EM_PROTO   16
#define EM_SYS     32		/* any non-zero system errno */
#define EM_LATE    64		/* the failure comes late in the call's work
				   (I/O): the object need only stay usable */
#define FL_MUTOK   1		/* a failing call may change the destination */
#define FL_L0FAIL  2		/* the baseline call itself must fail */
#define FL_L0ANY   4		/* nothing asserted on the baseline outcome */
#define FL_VNPV    8		/* v selects one of the vnacal_new_t objects */

typedef struct { long i; double d; double complex z; const void *p; } cv_t;
typedef struct { cv_t v; int cls; int em; const char *lab; } dv_t;
#define MAXDV 24
#define MAXARG 11

typedef struct fx {
    vf_errlog elog;
    vnacal_t *vcp;
    vnacal_t *vcp2;
    vnacal_t *vcp3;		/* another container, never touched by a call */
    vnacal_new_t *vnpF;		/* solved, belongs to vcp3 */
    int ciA, ciB, ciStale, ciEnd, ciAlloc;
    vnacal_new_t *vnpL, *vnpS, *vnpR;
    vnacal_new_t *vnpT16, *vnpU16;	/* live, one partial-S standard each */
    vnacal_new_t *vnpT16M;	/* T16 2x2 with an m_error model, no standards */
    vnacal_new_t *vnpA3, *vnpA5, *vnpA1;	/* solvable T8 1x1 objects with 3, 5
					   and 1 frequencies sharing p_shared
					   (unknown) and p_sharedc (correlated) */
    int p_scalar, p_vector, p_unknown, p_corr, p_stale, p_alloc, p_new;
    int p_shared, p_sharedc;
    double *f1;
    double *f3, *f5, *fdesc, *fneg, *flow, *fhigh, *sig5, *sigz, *signeg;
    double *fcrowd;		/* ascending, two points 2e-5 Hz apart */
    double *fnan, *signan;	/* one entry is NaN */
    double complex *g5, *z2, *vec3, *mat4;
    double complex **mp, **ap;
    int *s4, *s4u, *pm12, *pm21, *pm11, *pm01, *pm13;
    vnadata_t *vd, *vdf, *vdo;
    vnaproperty_t *root, *root2;
    char path_cal[720], path_badcal[720], path_vercal[720], path_npd[720],
	 path_s2p[720], path_bad[720], path_none[720], path_nodir[720],
	 path_out[720], path_yaml[720], path_dig[720];
    char path_mal[12][720];	/* malformed data files, see fx_malformed[] */
    void *blocks[160];
    int nblocks;
    int built;
} fx_t;

#define FXZ10 "0000000000"
/* malformed data files with the errno class the manual gives their fault */
static const struct { const char *name, *ext, *text; int em; } fx_malformed[] = {
    { "ts2-h-one-port", "ts",
	"[Version] 2.0\n# Hz H RI R 50\n[Number of Ports] 1\n"
	"[Number of Frequencies] 1\n[Network Data]\n1e9 0.5 0.1\n[End]\n",
	EM_BADMSG },
    { "ts2-g-three-port", "ts",
	"[Version] 2.0\n# Hz G RI R 50\n[Number of Ports] 3\n"
	"[Number of Frequencies] 1\n[Network Data]\n"
	"1e9 1 2 3 4 5 6\n7 8 9 10 11 12\n13 14 15 16 17 18\n[End]\n",
	EM_BADMSG },
    { "ts1-h-three-port", "s3p",
	"# Hz H RI R 50\n1e9 1 2 3 4 5 6\n7 8 9 10 11 12\n13 14 15 16 17 18\n",
	EM_BADMSG },
    { "ts2-version-3", "ts",
	"[Version] 3.0\n# Hz S RI R 50\n[Number of Ports] 1\n"
	"[Number of Frequencies] 1\n[Network Data]\n1e9 0.5 0.1\n[End]\n",
	EM_PROTO },
    { "npd-version-9", "npd",
	"#NPD\n#:version 9.9\n#:ports 1\n#:frequencies 1\n"
	"#:parameters Sri\n#:z0 50.0 +0.0j\n1.0e+09 0.5 0.1\n", EM_PROTO },
    { "npd-three-port-sri-tri", "npd",
	"#NPD\n#:version 1.0\n#:ports 3\n#:frequencies 1\n"
	"#:parameters Sri,Tri\n#:z0 50.0 +0.0j 50.0 +0.0j 50.0 +0.0j\n"
	"1.0e+09 1 2 3 4 5 6 7 8 9 10 11 12 13 14 15 16 17 18 "
	"1 2 3 4 5 6 7 8 9 10 11 12 13 14 15 16 17 18\n", EM_BADMSG },
    /* numbers of 63, 64, 65, 127, 128 and 129 characters (the token buffer
       starts at 64 and doubles), then a word where a number belongs */
    { "ts1-long-tokens", "s1p",
	"# Hz S RI R 50\n"
	"1e9 0." FXZ10 FXZ10 FXZ10 FXZ10 FXZ10 FXZ10 "5"
	" 0." FXZ10 FXZ10 FXZ10 FXZ10 FXZ10 FXZ10 "05\n"
	"2e9 0." FXZ10 FXZ10 FXZ10 FXZ10 FXZ10 FXZ10 "005"
	" 0." FXZ10 FXZ10 FXZ10 FXZ10 FXZ10 FXZ10
	      FXZ10 FXZ10 FXZ10 FXZ10 FXZ10 FXZ10 "00005\n"
	"3e9 0." FXZ10 FXZ10 FXZ10 FXZ10 FXZ10 FXZ10
	      FXZ10 FXZ10 FXZ10 FXZ10 FXZ10 FXZ10 "000005"
	" 0." FXZ10 FXZ10 FXZ10 FXZ10 FXZ10 FXZ10
	      FXZ10 FXZ10 FXZ10 FXZ10 FXZ10 FXZ10 "0000005\n"
	"4e9 bogus 1\n", EM_BADMSG },
    { "ts1-negative-frequency", "s1p",
	"# Hz S RI R 50\n-1e9 0.5 0.1\n2e9 0.4 0.2\n", EM_BADMSG },
    { "npd-unknown-parameter-name", "npd",
	"#NPD\n#:version 1.0\n#:ports 1\n#:frequencies 1\n"
	"#:parameters Xri\n#:z0 50.0 +0.0j\n1.0e+09 0.5 0.1\n", EM_BADMSG },
    { "ts2-long-keyword", "ts",
	"[Version] 2.0\n# Hz S RI R 50\n[Number of Ports] 1\n"
	"[" FXZ10 FXZ10 FXZ10 FXZ10 FXZ10 FXZ10 "00]\n", EM_BADMSG },
};
#define FX_NMALFORMED ((int)(sizeof(fx_malformed) / sizeof(fx_malformed[0])))

/* the vnacal_new_t objects of the fixture, by variant number */
enum { VN_L, VN_R, VN_T16, VN_U16, VN_S, VN_A5, VN_A3, VN_A1, VN_T16M, VN_N };
static const char *const vn_name[VN_N] = {
    "vnpL", "vnpR", "vnpT16", "vnpU16", "vnpS", "vnpA5", "vnpA3", "vnpA1",
    "vnpT16M"
};
static vnacal_new_t **fx_vnpp(fx_t *F, int v)
{
    switch (v) {
    case VN_L:   return &F->vnpL;
    case VN_R:   return &F->vnpR;
    case VN_T16: return &F->vnpT16;
    case VN_U16: return &F->vnpU16;
    case VN_S:   return &F->vnpS;
    case VN_A5:  return &F->vnpA5;
    case VN_A3:  return &F->vnpA3;
    case VN_T16M: return &F->vnpT16M;
    default:     return &F->vnpA1;
    }
}
static int fx_vnp_nf(int v)
{
    return v == VN_A5 ? 5 : v == VN_A1 ? 1 : NF;
}

typedef struct res {
    int failed;
    long iv;
} res_t;

typedef int dom_fn(fx_t *F, int v, dv_t *o);
typedef void call_fn(fx_t *F, int v, const cv_t *a, res_t *R);

typedef struct fn {
    const char *name;
    int rk, cb, em, fl, v;
    call_fn *call;
    struct { const char *name; dom_fn *dom; } a[MAXARG + 1];
    int na;
} fn_t;

static cs_scenario c3_scA, c3_scB;

/* ------------------------------------------------------------------ */
/* fixture                                                             */

static void *fx_block(fx_t *F, size_t n)
{
    void *p = malloc(n ? n : 1);
    memset(p, 0, n);
    F->blocks[F->nblocks++] = p;
    return p;
}

static void fx_write(const char *path, const char *text)
{
    FILE *fp = fopen(path, "w");
    if (fp != NULL) {
	fputs(text, fp);
	fclose(fp);
    }
}

static int fx_solved(vnacal_t *vcp, cs_scenario *sc, const char *name,
	vnacal_new_t **keep)
{
    vnacal_new_t *vnp = cs_build(vcp, sc);
    if (vnp == NULL || vnacal_new_solve(vnp) != 0)
	return -1;
    if (keep != NULL) {
	*keep = vnp;
	return 0;
    }
    if (vnacal_add_calibration(vcp, name, vnp) < 0)
	return -1;
    vnacal_new_free(vnp);
    return vnacal_find_calibration(vcp, name);
}

/*
 * a solvable T8 1x1 object over the frequencies f[0..nf-1]: short, open,
 * match, a reflect with the shared unknown and one with the shared
 * correlated parameter, measured through a fixed one-port error box
 */
static vnacal_new_t *fx_build_A(fx_t *F, const double *f, int nf)
{
    const double complex e00 = 0.1 + 0.05 * I, e11 = 0.2 - 0.1 * I,
	  e10e01 = 0.9 * cexp(0.3 * I);
    const double complex g[5] = { -1.0, 1.0, 0.0, 0.3 + 0.4 * I,
	0.31 + 0.39 * I };
    int h[5] = { VNACAL_SHORT, VNACAL_OPEN, VNACAL_MATCH, F->p_shared,
	F->p_sharedc };
    vnacal_new_t *vnp = vnacal_new_alloc(F->vcp, VNACAL_T8, 1, 1, nf);

    if (vnp == NULL || vnacal_new_set_frequency_vector(vnp, f) != 0)
	return NULL;
    for (int k = 0; k < 5; ++k) {
	double complex *vec = fx_block(F, (size_t)nf * sizeof(double complex));
	double complex **pp = fx_block(F, sizeof(double complex *));
	for (int i = 0; i < nf; ++i)
	    vec[i] = e00 + e10e01 * g[k] / (1.0 - e11 * g[k]);
	pp[0] = vec;
	if (vnacal_new_add_single_reflect_m(vnp, pp, 1, 1, h[k], 1) != 0)
	    return NULL;
    }
    return vnp;
}

/* returns NULL on success or the name of the step that failed */
static const char *fx_build(fx_t *F)
{
    memset(F, 0, sizeof(*F));
    vf_errlog_reset(&F->elog);
    snprintf(F->path_cal, sizeof(F->path_cal), "%s", vf_tmp("c03.vnacal"));
    snprintf(F->path_dig, sizeof(F->path_dig), "%s", vf_tmp("c03dig.vnacal"));
    snprintf(F->path_badcal, sizeof(F->path_badcal), "%s",
	    vf_tmp("c03bad.vnacal"));
    snprintf(F->path_vercal, sizeof(F->path_vercal), "%s",
	    vf_tmp("c03ver.vnacal"));
    snprintf(F->path_npd, sizeof(F->path_npd), "%s", vf_tmp("c03.npd"));
    snprintf(F->path_s2p, sizeof(F->path_s2p), "%s", vf_tmp("c03.s2p"));
    snprintf(F->path_bad, sizeof(F->path_bad), "%s", vf_tmp("c03bad.s2p"));
    for (int i = 0; i < FX_NMALFORMED; ++i) {
	char nm[64];
	snprintf(nm, sizeof(nm), "c03mal%d.%s", i, fx_malformed[i].ext);
	snprintf(F->path_mal[i], sizeof(F->path_mal[i]), "%s", vf_tmp(nm));
    }
    snprintf(F->path_none, sizeof(F->path_none), "%s", vf_tmp("c03none.npd"));
    snprintf(F->path_nodir, sizeof(F->path_nodir), "%s",
	    vf_tmp("c03-no-such-dir/x.npd"));
    snprintf(F->path_out, sizeof(F->path_out), "%s", vf_tmp("c03out.npd"));
    snprintf(F->path_yaml, sizeof(F->path_yaml), "%s", vf_tmp("c03.yaml"));
    unlink(F->path_none);

    F->vcp = vnacal_create((vnaerr_error_fn_t *)vf_errfn, &F->elog);
    if (F->vcp == NULL)
	return "vnacal_create";
    F->built = 1;

    memset(&c3_scA, 0, sizeof(c3_scA));
    cs_make_vna(&c3_scA.vna, VNACAL_T8, 2, 2, NF, 2);
    if (cs_recipe(&c3_scA, 0, 0, 0, 0, 0) != 0 ||
	    cs_make_params(F->vcp, &c3_scA) != 0)
	return "recipe A";
    memset(&c3_scB, 0, sizeof(c3_scB));
    cs_make_vna(&c3_scB.vna, VNACAL_E12, 2, 1, NF, 2);
    if (cs_recipe(&c3_scB, 0, 0, 0, 0, 0) != 0 ||
	    cs_make_params(F->vcp, &c3_scB) != 0)
	return "recipe B";
    if ((F->ciA = fx_solved(F->vcp, &c3_scA, "calA", NULL)) < 0)
	return "solve calA";
    if ((F->ciStale = fx_solved(F->vcp, &c3_scA, "calC", NULL)) < 0)
	return "solve calC";
    if ((F->ciB = fx_solved(F->vcp, &c3_scB, "calB", NULL)) < 0)
	return "solve calB";
    if (vnacal_delete_calibration(F->vcp, F->ciStale) != 0)
	return "delete calC";
    F->ciEnd = vnacal_get_calibration_end(F->vcp);
    F->ciAlloc = F->vcp->vc_calibration_allocation;
    if (fx_solved(F->vcp, &c3_scA, NULL, &F->vnpS) != 0)
	return "solve vnpS";

    /* user arrays: exact-size heap blocks so that over-reads are seen */
    F->f3 = fx_block(F, 3 * sizeof(double));
    F->f1 = fx_block(F, 1 * sizeof(double));
    F->f5 = fx_block(F, 5 * sizeof(double));
    F->fdesc = fx_block(F, 5 * sizeof(double));
    F->fneg = fx_block(F, 5 * sizeof(double));
    F->fcrowd = fx_block(F, 5 * sizeof(double));
    F->fnan = fx_block(F, 5 * sizeof(double));
    F->signan = fx_block(F, 5 * sizeof(double));
    F->flow = fx_block(F, 5 * sizeof(double));
    F->fhigh = fx_block(F, 5 * sizeof(double));
    F->sig5 = fx_block(F, 5 * sizeof(double));
    F->sigz = fx_block(F, 5 * sizeof(double));
    F->signeg = fx_block(F, 5 * sizeof(double));
    F->g5 = fx_block(F, 5 * sizeof(double complex));
    F->z2 = fx_block(F, 2 * sizeof(double complex));
    F->vec3 = fx_block(F, 3 * sizeof(double complex));
    F->mat4 = fx_block(F, 4 * sizeof(double complex));
    for (int k = 0; k < 5; ++k) {
	double fk = k < NF ? c3_scA.vna.f[k] :
	    c3_scA.vna.f[NF - 1] * (1.0 + 0.5 * (k - NF + 1));
	if (k < 3)
	    F->f3[k] = fk;
	F->f5[k] = fk;
	F->fdesc[k] = c3_scA.vna.f[NF - 1] * (5 - k);
	F->fneg[k] = k == 0 ? -1.0 : fk;
	F->fcrowd[k] = k == 1 ? c3_scA.vna.f[0] + 2e-5 : fk;
	F->fnan[k] = k == 1 ? NAN : fk;
	F->signan[k] = k == 1 ? NAN : 0.01;
	F->flow[k] = c3_scA.vna.f[0] * 1e-3 * (k + 1);
	F->fhigh[k] = c3_scA.vna.f[NF - 1] * 1e3 * (k + 1);
	F->sig5[k] = 0.01 * (k + 1);
	F->sigz[k] = k == 1 ? 0.0 : 0.01;
	F->signeg[k] = k == 1 ? -0.01 : 0.01;
	F->g5[k] = 0.5 * vf_cunit(3300, (uint64_t)k);
    }
    F->f1[0] = F->f3[1];
    F->z2[0] = 50.0; F->z2[1] = 75.0 + 5.0 * I;
    for (int k = 0; k < 3; ++k)
	F->vec3[k] = vf_cunit(3301, (uint64_t)k);
    for (int k = 0; k < 4; ++k)
	F->mat4[k] = 0.6 * vf_cunit(3302, (uint64_t)k);
    F->mp = fx_block(F, 16 * sizeof(double complex *));
    F->ap = fx_block(F, 16 * sizeof(double complex *));
    for (int c = 0; c < 16; ++c) {
	F->mp[c] = fx_block(F, NF * sizeof(double complex));
	F->ap[c] = fx_block(F, NF * sizeof(double complex));
	for (int k = 0; k < NF; ++k) {
	    F->mp[c][k] = vf_cunit(3310 + (uint64_t)c, (uint64_t)k);
	    /* 2x2 'a' matrix: diagonally dominant */
	    F->ap[c][k] = (c == 0 || c == 3 ? 1.0 : 0.0) +
		0.1 * vf_cunit(3330 + (uint64_t)c, (uint64_t)k);
	}
    }

    /* parameters */
    F->p_scalar = vnacal_make_scalar_parameter(F->vcp, 0.3 + 0.4 * I);
    F->p_vector = vnacal_make_vector_parameter(F->vcp, F->f5, 5, F->g5);
    F->p_unknown = vnacal_make_unknown_parameter(F->vcp, F->p_scalar);
    F->p_corr = vnacal_make_correlated_parameter(F->vcp, F->p_unknown,
	    F->f5, 5, F->sig5);
    F->p_stale = vnacal_make_scalar_parameter(F->vcp, 0.25 - 0.1 * I);
    if (F->p_scalar < 3 || F->p_vector < 3 || F->p_unknown < 3 ||
	    F->p_corr < 3 || F->p_stale < 3)
	return "make parameters";
    F->p_shared = vnacal_make_unknown_parameter(F->vcp, F->p_scalar);
    F->p_sharedc = vnacal_make_correlated_parameter(F->vcp, F->p_shared,
	    F->f5, 1, F->sig5);
    if (F->p_shared < 3 || F->p_sharedc < 3)
	return "make shared parameters";
    if (vnacal_delete_parameter(F->vcp, F->p_stale) != 0)
	return "delete parameter";
    F->p_alloc = F->vcp->vc_parameter_collection.vprmc_allocation;
    F->p_new = -1;
    F->s4 = fx_block(F, 4 * sizeof(int));
    F->s4u = fx_block(F, 4 * sizeof(int));
    F->s4[0] = F->p_scalar; F->s4[1] = VNACAL_ZERO;
    F->s4[2] = VNACAL_ZERO; F->s4[3] = VNACAL_SHORT;
    F->s4u[0] = F->p_unknown; F->s4u[1] = F->p_vector;
    F->s4u[2] = F->p_vector; F->s4u[3] = F->p_corr;
    F->pm12 = fx_block(F, 2 * sizeof(int));
    F->pm21 = fx_block(F, 2 * sizeof(int));
    F->pm11 = fx_block(F, 2 * sizeof(int));
    F->pm01 = fx_block(F, 2 * sizeof(int));
    F->pm13 = fx_block(F, 2 * sizeof(int));
    F->pm12[0] = 1; F->pm12[1] = 2;
    F->pm21[0] = 2; F->pm21[1] = 1;
    F->pm11[0] = 1; F->pm11[1] = 1;
    F->pm01[0] = 0; F->pm01[1] = 1;
    F->pm13[0] = 1; F->pm13[1] = 3;

    /* live T8 2x2: first four standards of the recipe + one with unknowns */
    F->vnpL = vnacal_new_alloc(F->vcp, VNACAL_T8, 2, 2, NF);
    if (F->vnpL == NULL ||
	    vnacal_new_set_frequency_vector(F->vnpL, F->f3) != 0)
	return "alloc vnpL";
    for (int k = 0; k < 4 && k < c3_scA.nstd; ++k)
	if (cs_add_std(F->vnpL, &c3_scA, k) != 0)
	    return "add to vnpL";
    if (vnacal_new_add_single_reflect_m(F->vnpL, F->mp, 2, 2, F->p_unknown,
		2) != 0)
	return "add unknown to vnpL";
    /* live rectangular T8 1x2 */
    F->vnpR = vnacal_new_alloc(F->vcp, VNACAL_T8, 1, 2, NF);
    if (F->vnpR == NULL ||
	    vnacal_new_set_frequency_vector(F->vnpR, F->f3) != 0)
	return "alloc vnpR";
    if (vnacal_new_add_single_reflect_m(F->vnpR, F->mp, 1, 2, VNACAL_SHORT,
		1) != 0)
	return "add to vnpR";
    /* and a standard tabulated over a limited band: a frequency vector
       outside that band must then be refused */
    if (vnacal_new_add_single_reflect_m(F->vnpR, F->mp, 1, 2, F->p_vector,
		1) != 0)
	return "add vector standard to vnpR";

    /* 16-term objects holding a standard whose S matrix is incomplete */
    F->vnpT16 = vnacal_new_alloc(F->vcp, VNACAL_T16, 2, 2, NF);
    F->vnpU16 = vnacal_new_alloc(F->vcp, VNACAL_U16, 2, 1, NF);
    if (F->vnpT16 == NULL || F->vnpU16 == NULL ||
	    vnacal_new_set_frequency_vector(F->vnpT16, F->f3) != 0 ||
	    vnacal_new_set_frequency_vector(F->vnpU16, F->f3) != 0)
	return "alloc 16-term objects";
    if (vnacal_new_add_single_reflect_m(F->vnpT16, F->mp, 2, 2, VNACAL_SHORT,
		1) != 0 ||
	    vnacal_new_add_single_reflect_m(F->vnpU16, F->mp, 2, 1,
		VNACAL_SHORT, 1) != 0)
	return "add to 16-term objects";
    /* a 16-term object with the measurement-error model enabled: every
       standard must then cover all ports (vnacal_new(3)) */
    F->vnpT16M = vnacal_new_alloc(F->vcp, VNACAL_T16, 2, 2, NF);
    if (F->vnpT16M == NULL ||
	    vnacal_new_set_frequency_vector(F->vnpT16M, F->f3) != 0 ||
	    vnacal_new_set_m_error(F->vnpT16M, NULL, 1, F->sig5, NULL) != 0)
	return "16-term object with m_error";
    /* three solvable objects of different length sharing unknowns */
    if ((F->vnpA3 = fx_build_A(F, F->f3, 3)) == NULL ||
	    (F->vnpA5 = fx_build_A(F, F->f5, 5)) == NULL ||
	    (F->vnpA1 = fx_build_A(F, F->f1, 1)) == NULL)
	return "build shared-unknown objects";

    /* properties */
    if (vnacal_property_set(F->vcp, -1, "gk=gv") != 0 ||
	    vnacal_property_set(F->vcp, -1, "foo=global") != 0 ||
	    vnacal_property_set(F->vcp, -1, "arr[0]=g0") != 0 ||
	    vnacal_property_set(F->vcp, F->ciA, "foo=bar") != 0 ||
	    vnacal_property_set(F->vcp, F->ciA, "arr[0]=x0") != 0 ||
	    vnacal_property_set(F->vcp, F->ciA, "arr[1]=x1") != 0 ||
	    vnacal_property_set(F->vcp, F->ciA, "map.k1=v1") != 0 ||
	    vnacal_property_set(F->vcp, F->ciB, "foo=b") != 0 ||
	    vnacal_property_set(F->vcp, F->ciB, "arr[0]=y0") != 0)
	return "vnacal_property_set";
    if (vnaproperty_set(&F->root, "foo=bar") != 0 ||
	    vnaproperty_set(&F->root, "arr[0]=x0") != 0 ||
	    vnaproperty_set(&F->root, "arr[1]=x1") != 0 ||
	    vnaproperty_set(&F->root, "map.k1=v1") != 0 ||
	    vnaproperty_set(&F->root, "map.k2#") != 0 ||
	    vnaproperty_set(&F->root, "nest[0].n=1") != 0)
	return "vnaproperty_set";

    /* vnadata */
    F->vd = vnadata_alloc_and_init((vnaerr_error_fn_t *)vf_errfn, &F->elog,
	    VPT_S, 2, 2, 3);
    F->vdf = vnadata_alloc_and_init((vnaerr_error_fn_t *)vf_errfn, &F->elog,
	    VPT_S, 2, 2, 3);
    F->vdo = vnadata_alloc((vnaerr_error_fn_t *)vf_errfn, &F->elog);
    if (F->vd == NULL || F->vdf == NULL || F->vdo == NULL)
	return "vnadata_alloc";
    for (int k = 0; k < 3; ++k) {
	double complex s[4];
	for (int c = 0; c < 4; ++c)
	    s[c] = 0.4 * vf_cunit(3350 + (uint64_t)k, (uint64_t)c);
	if (vnadata_set_frequency(F->vd, k, F->f3[k]) != 0 ||
		vnadata_set_frequency(F->vdf, k, F->f3[k]) != 0 ||
		vnadata_set_matrix(F->vd, k, s) != 0 ||
		vnadata_set_matrix(F->vdf, k, s) != 0)
	    return "vnadata fill";
    }
    if (vnadata_save(F->vd, F->path_s2p) != 0)
	return "vnadata_save s2p";
    if (vnadata_set_z0(F->vd, 0, 50.0) != 0 ||
	    vnadata_set_z0(F->vd, 1, 75.0) != 0 ||
	    vnadata_set_fz0(F->vdf, 0, 0, 50.0) != 0 ||
	    vnadata_set_fz0(F->vdf, 1, 1, 60.0 + 2.0 * I) != 0 ||
	    vnadata_set_fz0(F->vdf, 2, 0, 40.0) != 0)
	return "vnadata z0";

    /* files */
    if (vnacal_save(F->vcp, F->path_cal) != 0)
	return "vnacal_save";
    if (vnadata_save(F->vd, F->path_npd) != 0)
	return "vnadata_save npd";
    fx_write(F->path_bad, "# GHz S RI R 50\n1.0 0.1 0.2 zzz 0.4\n2.0 0.1\n");
    for (int i = 0; i < FX_NMALFORMED; ++i)
	fx_write(F->path_mal[i], fx_malformed[i].text);
    fx_write(F->path_badcal, "#VNACal 1.0\ncalibrations: [ { name: \n  ]]\n");
    fx_write(F->path_vercal, "#VNACal 99.0\ncalibrations: []\n");
    fx_write(F->path_yaml, "a: 1\nb: [x, y]\nc: { d: e }\n");
    /* a solved vnacal_new_t of another container: "foreign" wherever a
       call names an object of F->vcp */
    {
	static const int sol[3] = { VNACAL_SHORT, VNACAL_OPEN, VNACAL_MATCH };
	static const double complex gam[3] = { -1.0, 1.0, 0.0 };

	F->vcp3 = vnacal_create((vnaerr_error_fn_t *)vf_errfn, &F->elog);
	F->vnpF = F->vcp3 == NULL ? NULL :
	    vnacal_new_alloc(F->vcp3, VNACAL_T8, 1, 1, NF);
	if (F->vnpF == NULL ||
		vnacal_new_set_frequency_vector(F->vnpF, F->f3) != 0)
	    return "foreign vnacal_new_t";
	for (int k = 0; k < 3; ++k) {
	    double complex *vec = fx_block(F, NF * sizeof(double complex));
	    double complex **pp = fx_block(F, sizeof(double complex *));
	    for (int i = 0; i < NF; ++i)
		vec[i] = 0.05 + 0.9 * gam[k] / (1.0 - 0.1 * gam[k]);
	    pp[0] = vec;
	    if (vnacal_new_add_single_reflect_m(F->vnpF, pp, 1, 1, sol[k],
			1) != 0)
		return "foreign standard";
	}
	if (vnacal_new_solve(F->vnpF) != 0)
	    return "foreign solve";
    }
    if (F->elog.count != 0)
	return "error callback during fixture build";
    vf_errlog_reset(&F->elog);
    return NULL;
}

static void fx_teardown(fx_t *F)
{
    if (F->vcp2 != NULL)
	vnacal_free(F->vcp2);
    if (F->vcp3 != NULL)
	vnacal_free(F->vcp3);
    if (F->vcp != NULL)
	vnacal_free(F->vcp);
    vnadata_free(F->vd);
    vnadata_free(F->vdf);
    vnadata_free(F->vdo);
    (void)vnaproperty_delete(&F->root, ".");
    (void)vnaproperty_delete(&F->root2, ".");
    for (int i = 0; i < F->nblocks; ++i)
	free(F->blocks[i]);
    unlink(F->path_cal); unlink(F->path_dig); unlink(F->path_badcal);
    unlink(F->path_vercal); unlink(F->path_npd); unlink(F->path_s2p);
    unlink(F->path_bad); unlink(F->path_out); unlink(F->path_yaml);
    for (int i = 0; i < FX_NMALFORMED; ++i)
	unlink(F->path_mal[i]);
    memset(F, 0, sizeof(*F));
}

/* ------------------------------------------------------------------ */
/* state digest                                                        */

#define DIGMAX 65536
typedef struct dig { char t[DIGMAX]; size_t n; } dig_t;

static void dg(dig_t *D, const char *fmt, ...)
{
    va_list ap;
    if (D->n >= DIGMAX - 2)
	return;
    va_start(ap, fmt);
    int k = vsnprintf(D->t + D->n, DIGMAX - D->n, fmt, ap);
    va_end(ap);
    if (k > 0)
	D->n += (size_t)k < DIGMAX - D->n ? (size_t)k : DIGMAX - D->n - 1;
}

static void dg_z(dig_t *D, double complex z)
{
    dg(D, "(%a,%a)", creal(z), cimag(z));
}

static void dg_prop(dig_t *D, const vnaproperty_t *root, int depth)
{
    if (root == NULL) {
	dg(D, "~");
	return;
    }
    if (depth > 8) {
	dg(D, "...");
	return;
    }
    switch (vnaproperty_type(root, ".")) {
    case 's':
	{
	    const char *s = vnaproperty_get(root, ".");
	    dg(D, "\"%s\"", s ? s : "(NULL)");
	}
	break;
    case 'm':
	{
	    const char **keys = vnaproperty_keys(root, "{}");
	    dg(D, "{%d:", vnaproperty_count(root, "."));
	    if (keys == NULL) {
		dg(D, "KEYS-FAILED}");
		break;
	    }
	    for (const char **k = keys; *k != NULL; ++k) {
		char *q = vnaproperty_quote_key(*k);
		dg(D, "%s=", *k);
		if (q != NULL) {
		    dg_prop(D, vnaproperty_get_subtree(root, "%s", q),
			    depth + 1);
		    vf_free(q);
		}
		dg(D, ",");
	    }
	    vf_free((void *)keys);
	    dg(D, "}");
	}
	break;
    case 'l':
	{
	    int n = vnaproperty_count(root, "[]");
	    dg(D, "[%d:", n);
	    for (int i = 0; i < n && i < 64; ++i) {
		dg_prop(D, vnaproperty_get_subtree(root, "[%d]", i),
			depth + 1);
		dg(D, ",");
	    }
	    dg(D, "]");
	}
	break;
    default:
	dg(D, "?type");
    }
}

static uint64_t dg_file(const char *path)
{
    uint64_t h = 1469598103934665603ULL;
    FILE *fp = fopen(path, "rb");
    int c;
    if (fp == NULL)
	return 0;
    while ((c = getc(fp)) != EOF)
	h = (h ^ (uint64_t)(unsigned char)c) * 1099511628211ULL;
    fclose(fp);
    return h;
}

static void dg_vnp(dig_t *D, const char *name, const vnacal_new_t *vnp)
{
    if (vnp == NULL) {
	dg(D, "%s: (freed)\n", name);
	return;
    }
    dg(D, "%s: nf=%d fvalid=%d unknown=%d corr=%d z0=", name,
	    vnp->vn_frequencies, (int)vnp->vn_frequencies_valid,
	    vnp->vn_unknown_parameters, vnp->vn_correlated_parameters);
    dg_z(D, vnp->vn_z0);
    dg(D, " ptol=%a ettol=%a iter=%d pv=%a eqs=%d maxeq=%d meas=%d "
	    "merr=%d cal=%d\n", vnp->vn_p_tolerance,
	    vnp->vn_et_tolerance, vnp->vn_iteration_limit,
	    vnp->vn_pvalue_limit, vnp->vn_equations, vnp->vn_max_equations,
	    vnp->vn_measurement_count,
	    vnp->vn_m_error_vector != NULL, vnp->vn_calibration != NULL);
    dg(D, "%s.f:", name);
    for (int k = 0; k < vnp->vn_frequencies; ++k)
	dg(D, " %a", vnp->vn_frequency_vector[k]);
    dg(D, "\n");
    if (vnp->vn_m_error_vector != NULL) {
	dg(D, "%s.merr:", name);
	for (int k = 0; k < vnp->vn_frequencies; ++k)
	    dg(D, " %a/%a", vnp->vn_m_error_vector[k].vnme_sigma_nf,
		    vnp->vn_m_error_vector[k].vnme_sigma_tr);
	dg(D, "\n");
    }
    for (int s = 0; s < vnp->vn_systems; ++s)
	dg(D, "%s.sys%d: %d equations\n", name, s,
		vnp->vn_system_vector[s].vns_equation_count);
    if (vnp->vn_calibration != NULL) {
	const vnacal_calibration_t *c = vnp->vn_calibration;
	uint64_t h = 7;
	for (int t = 0; t < c->cal_error_terms; ++t)
	    for (int k = 0; k < c->cal_frequencies; ++k) {
		double re = creal(c->cal_error_term_vector[t][k]);
		double im = cimag(c->cal_error_term_vector[t][k]);
		uint64_t a, b;
		memcpy(&a, &re, 8); memcpy(&b, &im, 8);
		h = vf_hash64(h, a); h = vf_hash64(h, b);
	    }
	dg(D, "%s.cal: terms=%d hash=%016llx\n", name, c->cal_error_terms,
		(unsigned long long)h);
    }
}

static void dg_vd(dig_t *D, const char *name, const vnadata_t *vdp)
{
    if (vdp == NULL) {
	dg(D, "%s: (freed)\n", name);
	return;
    }
    int rows = vnadata_get_rows(vdp), cols = vnadata_get_columns(vdp);
    int nf = vnadata_get_frequencies(vdp);
    int ports = rows > cols ? rows : cols;
    const char *fmt = vnadata_get_format(vdp);
    dg(D, "%s: type=%d %dx%d nf=%d fz0=%d ft=%d fmt=%s fp=%d dp=%d\n", name,
	    (int)vnadata_get_type(vdp), rows, cols, nf,
	    (int)vnadata_has_fz0(vdp), (int)vnadata_get_filetype(vdp),
	    fmt ? fmt : "(null)", vnadata_get_fprecision(vdp),
	    vnadata_get_dprecision(vdp));
    for (int k = 0; k < nf && k < 16; ++k) {
	dg(D, "%s[%d]: f=%a", name, k, vnadata_get_frequency(vdp, k));
	for (int r = 0; r < rows && r < 6; ++r)
	    for (int c = 0; c < cols && c < 6; ++c)
		dg_z(D, vnadata_get_cell(vdp, k, r, c));
	dg(D, " z0:");
	for (int p = 0; p < ports && p < 6; ++p)
	    dg_z(D, vnadata_get_fz0(vdp, k, p));
	dg(D, "\n");
    }
    if (nf == 0 && !vnadata_has_fz0(vdp)) {
	dg(D, "%s.z0:", name);
	for (int p = 0; p < ports && p < 6; ++p)
	    dg_z(D, vnadata_get_z0(vdp, p));
	dg(D, "\n");
    }
}

/*
 * digest of every fixture object.  with_save: also vnacal_save to a
 * scratch file and hash the bytes (same path every time, so the file name
 * getter stays put).
 */
static void fx_digest(fx_t *F, dig_t *D, int with_save)
{
    int e = errno;
    vf_errlog keep = F->elog;

    D->n = 0;
    D->t[0] = '\0';
    if (F->vcp != NULL) {
	vnacal_t *vcp = F->vcp;
	const char *fn = vnacal_get_filename(vcp);
	int end = vnacal_get_calibration_end(vcp);
	dg(D, "vcp: filename=%s end=%d\n", fn ? fn : "(null)", end);
	for (int ci = -2; ci <= end + 1; ++ci) {
	    const char *nm = vnacal_get_name(vcp, ci);
	    const double *fv = vnacal_get_frequency_vector(vcp, ci);
	    int nf = vnacal_get_frequencies(vcp, ci);
	    dg(D, "cal[%d]: name=%s type=%d %dx%d nf=%d fmin=%a fmax=%a z0=",
		    ci, nm ? nm : "(null)", (int)vnacal_get_type(vcp, ci),
		    vnacal_get_rows(vcp, ci), vnacal_get_columns(vcp, ci),
		    nf, vnacal_get_fmin(vcp, ci), vnacal_get_fmax(vcp, ci));
	    dg_z(D, vnacal_get_z0(vcp, ci));
	    dg(D, " f:");
	    for (int k = 0; fv != NULL && k < nf && k < 16; ++k)
		dg(D, " %a", fv[k]);
	    dg(D, "\n");
	    if (ci == -1 || nm != NULL) {
		dg(D, "prop[%d]: ", ci);
		errno = 0;
		dg_prop(D, vnacal_property_get_subtree(vcp, ci, "."), 0);
		dg(D, "\n");
	    }
	}
	{
	    int hi = F->p_alloc + 2;
	    if (vcp->vc_parameter_collection.vprmc_allocation + 2 > hi)
		hi = vcp->vc_parameter_collection.vprmc_allocation + 2;
	    for (int p = 0; p < hi && p < 200; ++p) {
		double complex v0 = vnacal_get_parameter_value(vcp, p,
			F->f3[0]);
		double complex v1 = vnacal_get_parameter_value(vcp, p,
			F->f3[2]);
		double complex v2 = vnacal_get_parameter_value(vcp, p,
			F->f5[4]);
		dg(D, "param[%d]: ", p);
		dg_z(D, v0); dg_z(D, v1); dg_z(D, v2);
		dg(D, "\n");
	    }
	}
	if (with_save) {
	    int rc = vnacal_save(vcp, F->path_cal);
	    dg(D, "save: rc=%d bytes=%016llx\n", rc,
		    (unsigned long long)dg_file(F->path_cal));
	}
    } else {
	dg(D, "vcp: (freed)\n");
    }
    if (F->vcp != NULL) {
	for (int v = 0; v < VN_N; ++v)
	    dg_vnp(D, vn_name[v], *fx_vnpp(F, v));
    }
    dg_vd(D, "vd", F->vd);
    dg_vd(D, "vdf", F->vdf);
    dg_vd(D, "vdo", F->vdo);
    dg(D, "root: "); dg_prop(D, F->root, 0); dg(D, "\n");
    dg(D, "root2: "); dg_prop(D, F->root2, 0); dg(D, "\n");
    F->elog = keep;
    errno = e;
}

/* first differing line of two digests */
static void dg_diff(const dig_t *A, const dig_t *B, char *out, size_t n)
{
    const char *a = A->t, *b = B->t;
    while (*a && *b) {
	const char *ea = strchr(a, '\n'), *eb = strchr(b, '\n');
	size_t la = ea ? (size_t)(ea - a) : strlen(a);
	size_t lb = eb ? (size_t)(eb - b) : strlen(b);
	if (la != lb || memcmp(a, b, la) != 0) {
	    snprintf(out, n, "before: %.*s | after: %.*s",
		    (int)(la > 300 ? 300 : la), a, (int)(lb > 300 ? 300 : lb),
		    b);
	    return;
	}
	a += la + (ea != NULL);
	b += lb + (eb != NULL);
    }
    snprintf(out, n, "before: %.200s | after: %.200s", a, b);
}

#include "c03_table.h"
#include "c03_run.h"
#endif
