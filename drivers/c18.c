/*
 * C18: measurement-error modelling weights without bias and judges
 * consistency sanely.
 *
 * Deterministic cases (type x shape x recipe x sigma_nf x sigma_tr x noise
 * grid kind): exact over-determined data must solve and correct a DUT like
 * the unweighted run; every standard displaced by 100 sigma in turn must be
 * rejected with EDOM; clearing the model restores the unweighted result bit
 * for bit.  Ensemble cases (one per type): a declared fixed ensemble of
 * Gaussian noise realisations of exactly the declared size must be rejected
 * at a rate of the order of the significance (0.05): band [0.5 %, 25 %].
 */
#include "archdep.h"
#include <complex.h>
#include <errno.h>
#include <math.h>
#include <stdio.h>
#include <stdlib.h>
#include <string.h>
#include <vnacal.h>
#include <vnacal_internal.h>
#include <vnacal_new_internal.h>
#include "vf.h"
#include "calsim.h"

#define NS (CS_MAXP * CS_MAXP)

static const vnacal_type_t types[8] = {
    VNACAL_T8, VNACAL_U8, VNACAL_TE10, VNACAL_UE10,
    VNACAL_T16, VNACAL_U16, VNACAL_UE14, VNACAL_E12
};
static const int dimlist[4][2] = { {1,1}, {2,2}, {1,2}, {3,3} };
static const double nf_alpha[3] = { 1e-6, 1e-4, 1e-2 };
static const double tr_alpha[4] = { 0.0, 1e-5, 1e-3, 1e-1 };
#define NGRID 4

static bool is_t(vnacal_type_t t)
{
    return t == VNACAL_T8 || t == VNACAL_TE10 || t == VNACAL_T16;
}
static bool is16(vnacal_type_t t)
{
    return t == VNACAL_T16 || t == VNACAL_U16;
}
static int ndims(int tier, vnacal_type_t t)
{
    if (tier == 0) return 3;
    return is16(t) ? 3 : 4;
}
static long ndet(int tier)
{
    long n = 0;
    for (int t = 0; t < 8; ++t)
	n += ndims(tier, types[t]);
    return n * 2 * 3 * 4 * NGRID;
}
static long ngeq(void);
static long count(int tier)
{
    return ndet(tier) + 8 + ngeq() + 6 + 24 + 4;	/* + one ensemble case per type
					   + the p-value scale cases */
}

static vf_errlog elog;

/* scenario: recipe on the shape; 1x1 gets a fourth reflect so that the
   system is over-determined */
static int g_net = 2;	/* error-network family member used by scenarios */
static double g_slope_nf, g_slope_tr;	/* frequency dependence of sigma */
static double g_tight_tol;	/* run_cal: both tolerances of the iteration */
static int g_predeclare;	/* run_cal: a different model is declared first */
static int g_curve;	/* sigma is a curved function of frequency */

static int make_scenario(cs_scenario *sc, vnacal_type_t type, int rows,
	int cols, int recipe, int nf)
{
    memset(sc, 0, sizeof(*sc));
    cs_make_vna(&sc->vna, type, rows, cols, nf, g_net);
    if (cs_recipe(sc, recipe, 0, 0, 0, 0) != 0)
	return -1;
    if (sc->vna.P == 1 && !is16(type)) {
	cs_param p;
	memset(&p, 0, sizeof(p));
	p.kind = CSP_SCALAR; p.c0 = 0.3 + 0.4 * I; p.handle = -1;
	sc->param[sc->nparam] = p;
	cs_std *st = &sc->std[sc->nstd];
	memset(st, 0, sizeof(*st));
	st->entry = CSE_SINGLE; st->np = 1; st->port[0] = 1;
	st->sp[0] = sc->nparam;
	st->id = sc->nstd + 1;
	++sc->nparam;
	++sc->nstd;
    }
    return 0;
}

/*
 * column-system types, 2x2: short, open, match on both ports and a through
 * (each column: 5 equations, 5 unknowns), then five more reflects on port
 * `heavy' only: its column is over-determined, the other one exactly
 * determined
 */
static int make_asym(cs_scenario *sc, vnacal_type_t type, int heavy);
/* the same with one more reflect on the other port, measured on that port
   only (1 x 1): its column becomes over-determined too, nothing else sees it */
static int make_asym_plus(cs_scenario *sc, vnacal_type_t type, int heavy)
{
    cs_param p;
    cs_std *st;

    if (make_asym(sc, type, heavy) != 0 || sc->nparam >= CS_MAXPARAM ||
	    sc->nstd >= CS_MAXSTD)
	return -1;
    memset(&p, 0, sizeof(p));
    p.kind = CSP_SCALAR; p.c0 = -0.35 + 0.55 * I; p.handle = -1;
    sc->param[sc->nparam] = p;
    st = &sc->std[sc->nstd];
    memset(st, 0, sizeof(*st));
    st->entry = CSE_SINGLE; st->np = 1; st->port[0] = 3 - heavy;
    st->sp[0] = sc->nparam;
    st->abbrev_rows = st->abbrev_cols = true;
    st->id = sc->nstd + 1;
    ++sc->nparam;
    ++sc->nstd;
    return 0;
}

static int make_asym(cs_scenario *sc, vnacal_type_t type, int heavy)
{
    static const double complex extra[5] = { 0.3 + 0.4 * I, -0.5 * I, 0.6,
	-0.2 + 0.7 * I, 0.45 - 0.45 * I };
    int n = 0;

    if (make_scenario(sc, type, 2, 2, 0, 1) != 0)
	return -1;
    for (int k = 0; k < sc->nstd; ++k)	/* drop the line */
	if (sc->std[k].entry != CSE_LINE)
	    sc->std[n++] = sc->std[k];
    sc->nstd = n;
    for (int k = 0; k < 5; ++k) {
	cs_param p;
	cs_std *st;
	if (sc->nparam >= CS_MAXPARAM || sc->nstd >= CS_MAXSTD)
	    return -1;
	memset(&p, 0, sizeof(p));
	p.kind = CSP_SCALAR; p.c0 = extra[k]; p.handle = -1;
	sc->param[sc->nparam] = p;
	st = &sc->std[sc->nstd];
	memset(st, 0, sizeof(*st));
	st->entry = CSE_SINGLE; st->np = 1; st->port[0] = heavy;
	st->sp[0] = sc->nparam;
	++sc->nparam;
	++sc->nstd;
    }
    for (int k = 0; k < sc->nstd; ++k)
	sc->std[k].id = k + 1;
    /* a poor source match on the port with the redundancy: the equations'
       residuals and the measurements then differ by a large factor, which
       is what the V matrices account for */
    for (int f = 0; f < sc->vna.nf; ++f)
	sc->vna.net[f][heavy - 1].Em[(heavy - 1) * sc->vna.P + heavy - 1] =
	    0.75 * cexp(0.3 * I);
    return 0;
}

typedef struct {
    int rc, err_no, nonwarn;
    cs_c S[CS_MAXF][NS];
    int applied;
    char msg[160];
    int nterms;			/* solved error terms at the first frequency */
    double complex terms[8 * NS];
} res_t;

/*
 * run_cal: build, optionally enable the error model (grid kind gk), solve,
 * apply to DUT 1 (exact measurement).  clear_model: enable then disable.
 */
static void run_cal(cs_scenario *sc, bool model, int gk, double snf,
	double str, bool clear_model, double pvalue_limit, res_t *o,
	vf_result *r)
{
    vnacal_t *vcp;
    vnacal_new_t *vnp;
    const cs_vna *v = &sc->vna;

    memset(o, 0, sizeof(*o));
    o->rc = -9;
    vf_errlog_reset(&elog);
    vcp = vnacal_create((vnaerr_error_fn_t *)vf_errfn, &elog);
    if (vcp == NULL)
	return;
    if (cs_make_params(vcp, sc) != 0) { o->rc = -8; goto out; }
    vnp = vnacal_new_alloc(vcp, v->type, v->rows, v->cols, v->nf);
    if (vnp == NULL || vnacal_new_set_frequency_vector(vnp, v->f) != 0) {
	o->rc = -7;
	goto out;
    }
    if (model) {
	double fv[8], nfv[8], trv[8];
	int n;
	const double *fp;
	const double f0 = v->f[0], f1 = v->f[v->nf - 1];
	switch (gk) {
	case 0: n = 1; fp = NULL; break;
	case 1: n = v->nf; fp = NULL; break;
	case 2:
	    n = 2; fv[0] = 0.9 * v->f[0]; fv[1] = 1.1 * v->f[v->nf - 1];
	    fp = fv;
	    break;
	case 4:
	    /* as many points as the calibration, same end points, other
	       interior points */
	    n = v->nf;
	    for (int i = 0; i < n; ++i)
		fv[i] = (i == 0 || i == n - 1) ? v->f[i] :
		    v->f[i] + 0.3 * (v->f[i + 1] - v->f[i]);
	    fp = fv;
	    break;
	case 5:
	    n = 3;
	    fv[0] = f0; fv[1] = f0 + 0.37 * (f1 - f0); fv[2] = f1;
	    fp = fv;
	    break;
	case 6:
	    /* the calibration frequencies and the midpoints between them */
	    n = 2 * v->nf - 1;
	    for (int i = 0; i < v->nf; ++i) {
		fv[2 * i] = v->f[i];
		if (i + 1 < v->nf)
		    fv[2 * i + 1] = 0.5 * (v->f[i] + v->f[i + 1]);
	    }
	    fp = fv;
	    break;
	default:
	    n = 5;
	    for (int i = 0; i < 5; ++i)
		fv[i] = 0.95 * v->f[0] + (1.05 * v->f[v->nf - 1] -
			0.95 * v->f[0]) * i / 4.0;
	    fp = fv;
	    break;
	}
	for (int i = 0; i < n; ++i) {
	    /* sigma as a (by default constant) linear function of frequency,
	       sampled where the grid has its points */
	    double f = fp != NULL ? fp[i] : v->f[i];
	    double x = (n > 1 && f1 > f0) ? (f - f0) / (f1 - f0) : 0.0;
	    nfv[i] = snf * (1.0 + g_slope_nf * x);
	    trv[i] = str * (1.0 + g_slope_tr * x);
	    if (g_curve) {
		nfv[i] *= 1.0 + 0.5 * sin(7.0 * x);
		trv[i] *= 1.0 - 0.4 * sin(5.0 * x + 1.0);
	    }
	    /* per-point factors of the scenario (grid kind 1 only: the
	       declaration is per calibration frequency) */
	    if (gk == 1 && sc->sigma_fscale[i] != 0.0) {
		nfv[i] *= sc->sigma_fscale[i];
		trv[i] *= sc->sigma_fscale[i];
	    }
	}
	if (g_predeclare) {
	    /* another model was declared first (ten times the floor and a
	       large tracking part); the second declaration replaces it */
	    double nf0[8], tr0[8];
	    for (int i = 0; i < n; ++i) {
		nf0[i] = 10.0 * nfv[i];
		tr0[i] = 0.1;
	    }
	    if (vnacal_new_set_m_error(vnp, fp, n, nf0, tr0) != 0) {
		o->rc = -6;
		goto out;
	    }
	}
	if (vnacal_new_set_m_error(vnp, fp, n, nfv, str > 0 ? trv : NULL)
		!= 0) {
	    o->rc = -6;
	    snprintf(o->msg, sizeof(o->msg), "%.150s",
		    elog.count ? elog.msg[0] : "");
	    goto out;
	}
	if (pvalue_limit > 0 &&
		vnacal_new_set_pvalue_limit(vnp, pvalue_limit) != 0) {
	    o->rc = -6;
	    goto out;
	}
	/* both vectors NULL: there is nothing to count, the count given is
	   0 in every other noise-grid kind and 1 in the others */
	if (clear_model &&
		vnacal_new_set_m_error(vnp, NULL, (gk & 1) ? 0 : 1, NULL,
		    NULL) != 0) {
	    o->rc = -5;
	    snprintf(o->msg, sizeof(o->msg), "%.150s",
		    elog.count ? elog.msg[0] : "");
	    goto out;
	}
    }
    for (int k = 0; k < sc->nstd; ++k) {
	if (cs_add_std(vnp, sc, k) != 0) {
	    o->rc = -4;
	    snprintf(o->msg, sizeof(o->msg), "%.150s",
		    elog.count ? elog.msg[0] : "");
	    goto out;
	}
    }
    if (g_tight_tol != 0.0 &&
	    (vnacal_new_set_et_tolerance(vnp, g_tight_tol) != 0 ||
	     vnacal_new_set_p_tolerance(vnp, g_tight_tol) != 0)) {
	o->rc = -4;
	goto out;
    }
    vf_errlog_reset(&elog);
    errno = 0;
    o->rc = vnacal_new_solve(vnp);
    o->err_no = errno;
    o->nonwarn = elog.nonwarn;
    r->transitions += sc->nstd + 3;
    if (o->rc != 0) {
	snprintf(o->msg, sizeof(o->msg), "%.150s",
		elog.count ? elog.msg[0] : "");
	goto out;
    }
    if (vnacal_add_calibration(vcp, "c18", vnp) >= 0) {
	int ci = vnacal_find_calibration(vcp, "c18");
	cs_c Sd[CS_MAXF][NS];
	const vnacal_calibration_t *calp = _vnacal_get_calibration(vcp, ci);
	if (calp != NULL && calp->cal_error_terms <= 8 * NS) {
	    o->nterms = calp->cal_error_terms;
	    for (int t = 0; t < o->nterms; ++t)
		o->terms[t] = calp->cal_error_term_vector[t][0];
	}
	for (int f = 0; f < v->nf; ++f)
	    cs_dut(v, 1, f, Sd[f]);
	/* DUT measured without noise */
	cs_scenario exact = *sc;
	(void)exact;
	if (cs_apply(vcp, ci, sc, Sd, o->S) == 0)
	    o->applied = 1;
    }
out:
    cs_delete_params(vcp, sc);
    vnacal_free(vcp);
}

static double sdiff(const res_t *a, const res_t *b, int nf, int P)
{
    double w = 0;
    for (int f = 0; f < nf; ++f)
	for (int i = 0; i < P * P; ++i) {
	    double e = cabs(a->S[f][i] - b->S[f][i]);
	    if (!(e <= w)) w = e;
	}
    return w;
}

static void run_det(int tier, long idx, vf_result *r)
{
    static cs_scenario sc;
    static res_t plain, weighted, cleared, bad;
    int gk = vf_digit(&idx, NGRID);
    int tri = vf_digit(&idx, 4);
    int nfi = vf_digit(&idx, 3);
    int recipe = vf_digit(&idx, 2);
    int t;
    for (t = 0; t < 8; ++t) {
	int nd = ndims(tier, types[t]);
	if (idx < nd) break;
	idx -= nd;
    }
    int rows = dimlist[idx][0], cols = dimlist[idx][1];
    if (!is_t(types[t])) { int x = rows; rows = cols; cols = x; }
    const int P = rows > cols ? rows : cols;
    const char *tname = vnacal_type_to_name(types[t]);
    double snf = nf_alpha[nfi], str = tr_alpha[tri];
    const int nf = 2;
    char sig[160];

    vf_desc(r, "%s %dx%d recipe %d sigma_nf=%g sigma_tr=%g noise grid kind "
	    "%d: exact data, each standard displaced by 100 sigma, model "
	    "cleared", tname, rows, cols, recipe, snf, str, gk);
    unsigned long mark = vf_exec_begin();
    if (make_scenario(&sc, types[t], rows, cols, recipe, nf) != 0) {
	vf_outcome(r, "no-such-recipe");
	goto done;
    }
    {
	long double margin; int eqs, unk;
	if (!cs_identifiable(&sc, (1u << sc.nstd) - 1u, &margin, &eqs, &unk)
		|| margin < 1e-4L || eqs <= unk) {
	    vf_outcome(r, "skipped: not over-determined/determining");
	    goto done;
	}
    }
    sc.sigma_nf = snf;
    sc.sigma_tr = str;

    vf_note("step: unweighted reference run");
    run_cal(&sc, false, 0, 0, 0, false, 0, &plain, r);
    if (plain.rc != 0 || !plain.applied) {
	snprintf(sig, sizeof(sig), "plain-failed:%s", tname);
	vf_fail(r, sig, "unweighted reference run failed: rc %d %s",
		plain.rc, plain.msg);
	goto done;
    }
    /* (1) exact data with the model */
    vf_note("step: exact data with the error model");
    run_cal(&sc, true, gk, snf, str, false, 0, &weighted, r);
    if (weighted.rc != 0) {
	snprintf(sig, sizeof(sig), "exact-rejected:%s", tname);
	vf_fail(r, sig, "exact over-determined data rejected with the error "
		"model enabled: rc %d errno %d %s", weighted.rc,
		weighted.err_no, weighted.msg);
	goto done;
    }
    if (!weighted.applied || !(sdiff(&plain, &weighted, nf, P) <= 1e-8)) {
	snprintf(sig, sizeof(sig), "exact-biased:%s", tname);
	vf_fail(r, sig, "with the error model enabled, exact data give a "
		"calibration that corrects the DUT differently from the "
		"unweighted one by %.3e", sdiff(&plain, &weighted, nf, P));
	goto done;
    }
    /* (3) clearing the model restores the unweighted behaviour exactly */
    run_cal(&sc, true, gk, snf, str, true, 0, &cleared, r);
    if (cleared.rc == -5) {
	snprintf(sig, sizeof(sig), "clear-refused:%s", tname);
	vf_fail(r, sig, "vnacal_new_set_m_error(vnp, NULL, %d, NULL, NULL) "
		"is refused, the model stays enabled: %s", (gk & 1) ? 0 : 1,
		cleared.msg);
	goto done;
    }
    if (cleared.rc != 0 || !cleared.applied ||
	    memcmp(cleared.S, plain.S, sizeof(plain.S[0]) * (size_t)nf) != 0) {
	snprintf(sig, sizeof(sig), "clear-differs:%s", tname);
	vf_fail(r, sig, "after vnacal_new_set_m_error(NULL, NULL) the result "
		"is not bit-identical to a run that never enabled the model "
		"(rc %d, diff %.3e)", cleared.rc,
		sdiff(&plain, &cleared, nf, P));
	goto done;
    }
    /* (2) every standard displaced by 100 sigma in turn */
    int rejected = 0;
    for (int k = 0; k < sc.nstd; ++k) {
	sc.displace_id = sc.std[k].id;
	sc.displace_sigmas = 100.0;
	vf_note("step: standard %d of %d displaced", k + 1, sc.nstd);
	run_cal(&sc, true, gk, snf, str, false, 0, &bad, r);
	vf_note("   -> rc %d errno %d %s", bad.rc, bad.err_no, bad.msg);
	{
	    /* declaring the model a second time replaces the first
	       declaration completely: same verdict */
	    static res_t again;
	    g_predeclare = 1;
	    run_cal(&sc, true, gk, snf, str, false, 0, &again, r);
	    g_predeclare = 0;
	    if (again.rc != bad.rc || again.err_no != bad.err_no) {
		snprintf(sig, sizeof(sig), "redeclare-differs:%s", tname);
		vf_fail(r, sig, "standard %d displaced by 100 sigma: model "
			"declared once gives rc %d errno %d, the same model "
			"declared after another one gives rc %d errno %d "
			"(sigma_nf %g, sigma_tr %g)", k + 1, bad.rc,
			bad.err_no, again.rc, again.err_no, snf, str);
	    }
	}
	sc.displace_id = 0;
	if (bad.rc == -1) {
	    ++rejected;
	    if (bad.err_no != EDOM || bad.nonwarn != 1) {
		snprintf(sig, sizeof(sig), "outlier-errno:%s", tname);
		vf_fail(r, sig, "outlier rejected with errno %d and %d "
			"callbacks (want EDOM, 1): %s", bad.err_no,
			bad.nonwarn, bad.msg);
	    }
	} else if (bad.rc == 0) {
	    /* legitimate when the displaced standard has high leverage
	       (its equations are absorbed by the free terms) or when the
	       signal-proportional weight grows with the displaced reading;
	       judged in aggregate below and in the ensemble case */
	    ;
	} else {
	    snprintf(sig, sizeof(sig), "outlier-setup:%s", tname);
	    vf_fail(r, sig, "set-up failed %d %s", bad.rc, bad.msg);
	}
    }
    /*
     * The same where the declared noise falls by a factor of 1000 from the
     * first calibration frequency to the last (per-point declaration): a
     * standard displaced at the last frequency only, by 100 of the standard
     * deviations declared there, is a tenth of a standard deviation of the
     * first frequency.  Every frequency is judged against its own noise.
     */
    if (gk == 1 && str <= 1e-3 && r->status == VF_OK) {
	int local_rejected = 0;
	sc.sigma_fscale[0] = 1.0;
	sc.sigma_fscale[nf - 1] = 1e-3;
	run_cal(&sc, true, gk, snf, str, false, 0, &weighted, r);
	if (weighted.rc != 0) {
	    snprintf(sig, sizeof(sig), "exact-rejected-falling:%s", tname);
	    vf_fail(r, sig, "exact data rejected when the declared noise "
		    "falls with frequency: rc %d errno %d %s", weighted.rc,
		    weighted.err_no, weighted.msg);
	}
	for (int k = 0; k < sc.nstd && r->status == VF_OK; ++k) {
	    sc.displace_id = sc.std[k].id;
	    sc.displace_sigmas = 100.0;
	    sc.displace_findex1 = nf;
	    run_cal(&sc, true, gk, snf, str, false, 0, &bad, r);
	    sc.displace_id = 0;
	    sc.displace_findex1 = 0;
	    if (bad.rc == -1 && bad.err_no == EDOM)
		++local_rejected;
	}
	sc.sigma_fscale[0] = sc.sigma_fscale[nf - 1] = 0.0;
	if (r->status == VF_OK && local_rejected == 0) {
	    snprintf(sig, sizeof(sig), "no-outlier-noticed-falling:%s",
		    tname);
	    vf_fail(r, sig, "declared noise 1000 times smaller at the last "
		    "frequency than at the first: none of the %d standards "
		    "displaced there by 100 of the standard deviations "
		    "declared there was rejected (sigma_nf %g, sigma_tr %g)",
		    sc.nstd, snf, str);
	}
    }
    /*
     * The residual projector has trace = redundancy >= 1, so some standard
     * carries at least 1/nstd of it: displaced by 100 sigma that one must
     * be noticed.  Only asserted while the weights do not depend strongly
     * on the displaced reading itself (sigma_tr <= 1e-3).
     */
    if (rejected == 0 && str <= 1e-3) {
	snprintf(sig, sizeof(sig), "no-outlier-noticed:%s", tname);
	vf_fail(r, sig, "none of the %d standards displaced by 100 standard "
		"deviations was rejected (sigma_nf %g, sigma_tr %g)",
		sc.nstd, snf, str);
    }
    r->nontrivial = 1;
    vf_outcome(r, "det %s outliers rejected %s", tname,
	    rejected == sc.nstd ? "all" : rejected == 0 ? "none" :
	    2 * rejected >= sc.nstd ? "most" : "few");
done:
    g_predeclare = 0;
    vf_exec_end(r, mark);
}

static void run_ens(int tier, int t, vf_result *r)
{
    static cs_scenario sc;
    static res_t o;
    const char *tname = vnacal_type_to_name(types[t]);
    const int nreal = tier ? 128 : 64;
    long trials = 0, rejected = 0, other = 0;
    long out_trials = 0, out_rejected = 0;
    int worst_group_pct = 0;
    char sig[160];

    vf_desc(r, "ensemble %s: %d fixed Gaussian realisations x up to 72 scenarios, "
	    "significance 0.05", tname, nreal);
    unsigned long mark = vf_exec_begin();
    for (int dn = 0; dn < 6; ++dn) {
	int d = dn % 3;		/* 1x1, 2x2, and 1x2 (T) / 2x1 (U) */
	int rows = dimlist[d][0], cols = dimlist[d][1];
	if (!is_t(types[t])) { int x = rows; rows = cols; cols = x; }
	/* second half: an almost ideal instrument, where a match reads
	   nearly zero and the weights spread over orders of magnitude */
	g_net = dn < 3 ? 2 : 3;
	for (int recipe = 0; recipe < 2; ++recipe) {
	    if (make_scenario(&sc, types[t], rows, cols, recipe, 1) != 0)
		continue;
	    long double margin; int eqs, unk;
	    if (!cs_identifiable(&sc, (1u << sc.nstd) - 1u, &margin, &eqs,
			&unk) || margin < 1e-2L || eqs <= unk)
		continue;	/* not well-conditioned, or not redundant */
	    vf_note("  scenario dims %dx%d recipe %d net %d: margin %.3Le, %d "
		    "equations, %d unknowns", rows, cols, recipe, g_net, margin,
		    eqs, unk);
	    for (int cfg = 0; cfg < 6; ++cfg) {
		/* noise-floor dominated, mixed, tracking dominated, mixed2,
		   strongly tracking dominated (weights spread over orders of
		   magnitude between strong and weak readings) */
		static const double nfv[6] = { 1e-4, 1e-4, 1e-6, 1e-3, 1e-5,
		    1e-6 };
		static const double trv[6] = { 0.0, 1e-3, 1e-3, 1e-3, 5e-2,
		    1e-1 };
		long g_trials = 0, g_rejected = 0;
		sc.sigma_nf = nfv[cfg];
		sc.sigma_tr = trv[cfg];
		for (int k = 1; k <= nreal; ++k) {
		    sc.gauss_real = k + 1000 * cfg + 10000 * recipe +
			100000 * dn;
		    run_cal(&sc, true, 0, nfv[cfg], trv[cfg], false, 0.05,
			    &o, r);
		    ++trials;
		    ++g_trials;
		    if (o.rc == -1 && o.err_no == EDOM) {
			++rejected;
			++g_rejected;
			if (vf_verbose)
			    vf_note("    real %d: %s", k, o.msg);
		    } else if (o.rc != 0)
			++other;
		}
		sc.gauss_real = 0;
		vf_note("  group dims %dx%d recipe %d net %d nf %g tr %g: "
			"rejected %ld of %ld", rows, cols, recipe, g_net,
			nfv[cfg], trv[cfg], g_rejected, g_trials);
		/*
		 * per-scenario ceiling: only where first-order error
		 * propagation, on which any such test rests, is accurate:
		 * the noise is small against the conditioning margin of
		 * the scenario (30 x), or there is ample redundancy (4 or
		 * more equations beyond the unknowns) to average second-
		 * order terms out.  With 5..10 %% noise, a margin of 0.06
		 * and a single redundant equation (T16 1x2, U16 2x1 with
		 * T, MM, SO, OS, SM, OM: 12 equations, 11 unknowns) about
		 * half of the realisations are rejected or do not converge;
		 * the property speaks of the rate per type over many
		 * scenarios, which is judged below.
		 */
		if (g_trials >= 64 &&
			(30.0L * (nfv[cfg] + trv[cfg]) <= margin ||
			 eqs - unk >= 4) &&
			5 * g_rejected > 2 * g_trials) {
		    snprintf(sig, sizeof(sig), "rejection-rate-group:%s",
			    tname);
		    vf_fail(r, sig, "%dx%d recipe %d (network %d, sigma_nf "
			    "%g, sigma_tr %g): data with noise of exactly "
			    "the declared size rejected in %ld of %ld "
			    "trials at significance 0.05 (per-scenario "
			    "ceiling 40 %%)", rows, cols, recipe, g_net,
			    nfv[cfg], trv[cfg], g_rejected, g_trials);
		}
		if (g_rejected > worst_group_pct * g_trials / 100)
		    worst_group_pct = (int)(100 * g_rejected / g_trials);
		if (trv[cfg] <= 1e-3) {
		    for (int k = 0; k < sc.nstd; ++k) {
			sc.displace_id = sc.std[k].id;
			sc.displace_sigmas = 100.0;
			run_cal(&sc, true, 0, nfv[cfg], trv[cfg], false, 0.05,
				&o, r);
			sc.displace_id = 0;
			++out_trials;
			if (o.rc == -1 && o.err_no == EDOM)
			    ++out_rejected;
		    }
		}
	    }
	}
    }
    /*
     * column-system types: the same redundancy on port 1 only and on port 2
     * only.  Nothing distinguishes the two ports but their number, so the
     * rejection counts of the two mirror scenarios come from the same
     * distribution: their difference is judged against five standard
     * deviations of the difference of two binomial counts.
     */
    if (types[t] == VNACAL_UE14 || types[t] == VNACAL_E12) {
	static const double nfv[3] = { 1e-4, 1e-6, 1e-3 };
	static const double trv[3] = { 1e-3, 1e-3, 1e-3 };
	const int n = 4 * nreal;
	g_net = 1;	/* strong mismatch: equation and measurement units
			   differ most */
	for (int cfg = 0; cfg < 3 && r->status == VF_OK; ++cfg) {
	    long rej[2] = { 0, 0 };
	    int usable = 1;
	    for (int side = 0; side < 2 && usable; ++side) {
		long double margin; int eqs, unk;
		if (make_asym(&sc, types[t], side + 1) != 0 ||
			!cs_identifiable(&sc, (1u << sc.nstd) - 1u, &margin,
			    &eqs, &unk) || margin < 1e-2L) {
		    usable = 0;
		    break;
		}
		sc.sigma_nf = nfv[cfg];
		sc.sigma_tr = trv[cfg];
		for (int k = 1; k <= n; ++k) {
		    sc.gauss_real = k + 1000 * cfg + 500000;
		    run_cal(&sc, true, 0, nfv[cfg], trv[cfg], false, 0.05,
			    &o, r);
		    ++trials;
		    if (o.rc == -1 && o.err_no == EDOM) {
			++rejected;
			++rej[side];
		    } else if (o.rc != 0)
			++other;
		}
		sc.gauss_real = 0;
	    }
	    if (!usable)
		continue;
	    double pp = (double)(rej[0] + rej[1]) / (2.0 * n);
	    double sd = sqrt(2.0 * n * pp * (1.0 - pp));
	    vf_note("  mirror pair nf %g tr %g: rejected %ld / %ld of %d "
		    "(sd of the difference %.1f)", nfv[cfg], trv[cfg], rej[0],
		    rej[1], n, sd);
	    if (fabs((double)(rej[0] - rej[1])) > 5.0 * sd + 4.0) {
		snprintf(sig, sizeof(sig), "mirror-rates:%s", tname);
		vf_fail(r, sig, "2x2, short/open/match on both ports and a "
			"through, five more reflects on one port (sigma_nf "
			"%g, sigma_tr %g, %d noise realisations each): "
			"rejected %ld times with the extra reflects on port "
			"1 and %ld times with them on port 2", nfv[cfg],
			trv[cfg], n, rej[0], rej[1]);
	    }
	}
    }
    /*
     * column-system types: every column has its own terms and its own
     * equations.  Making the exactly determined column over-determined
     * (one more reflect, seen by that column only) leaves the data of the
     * other column as they were: its solved terms must not move.
     */
    if (types[t] == VNACAL_UE14 || types[t] == VNACAL_E12) {
	static cs_scenario sx, sy;
	static res_t ox, oy;
	vnacal_layout_t vl;
	long compared = 0;
	g_net = 2;
	_vnacal_layout(&vl, types[t], 2, 2);
	for (int heavy = 1; heavy <= 2 && r->status == VF_OK; ++heavy) {
	    long double margin; int eqs, unk;
	    if (make_asym(&sx, types[t], heavy) != 0 ||
		    make_asym_plus(&sy, types[t], heavy) != 0 ||
		    !cs_identifiable(&sx, (1u << sx.nstd) - 1u, &margin,
			&eqs, &unk) || margin < 1e-2L)
		continue;
	    for (int k = 1; k <= 16 && r->status == VF_OK; ++k) {
		const int c = heavy - 1;	/* the column that must not move */
		int lo, hi;
		double worst = 0;
		sx.sigma_nf = sy.sigma_nf = 1e-3;
		sx.sigma_tr = sy.sigma_tr = 2e-3;
		sx.gauss_real = sy.gauss_real = 700000 + k;
		run_cal(&sx, true, 0, 1e-3, 2e-3, false, 1e-6, &ox, r);
		run_cal(&sy, true, 0, 1e-3, 2e-3, false, 1e-6, &oy, r);
		if (ox.rc != 0 || oy.rc != 0 || ox.nterms == 0 ||
			ox.nterms != oy.nterms)
		    continue;
		if (types[t] == VNACAL_UE14) {
		    lo = VL_UM14_OFFSET(&vl, c);
		    hi = VL_UM14_OFFSET(&vl, c + 1);
		} else {
		    lo = VL_EL12_OFFSET(&vl, c);
		    hi = VL_EL12_OFFSET(&vl, c + 1);
		}
		for (int i = lo; i < hi && i < ox.nterms; ++i) {
		    double e = cabs(ox.terms[i] - oy.terms[i]) /
			(cabs(ox.terms[i]) + 1e-3);
		    if (!(e <= worst))
			worst = e;
		}
		++compared;
		if (!(worst <= 1e-9)) {
		    snprintf(sig, sizeof(sig), "column-independence:%s",
			    tname);
		    vf_fail(r, sig, "2x2 with redundancy on port %d only: "
			    "one more reflect on port %d, measured on that "
			    "port only, moves the solved terms of column %d "
			    "by %.3e (relative; noise realisation %d)", heavy,
			    3 - heavy, heavy, worst, k);
		}
	    }
	}
	vf_note("  column independence: %ld pairs compared", compared);
    }
    if (out_trials > 0 && 2 * out_rejected < out_trials) {
	snprintf(sig, sizeof(sig), "outlier-rate:%s", tname);
	vf_fail(r, sig, "a whole standard displaced by 100 standard "
		"deviations was rejected in only %ld of %ld trials",
		out_rejected, out_trials);
    }
    vf_note("outliers rejected %ld of %ld; noise rejected %ld of %ld",
	    out_rejected, out_trials, rejected, trials);
    g_net = 2;
    r->states = trials;
    if (other > 0) {
	snprintf(sig, sizeof(sig), "ensemble-error:%s", tname);
	vf_fail(r, sig, "%ld of %ld ensemble solves failed with something "
		"other than EDOM", other, trials);
    }
    double rate = trials ? (double)rejected / (double)trials : 0.0;
    if (trials > 0 && (rate < 0.005 || rate > 0.25)) {
	snprintf(sig, sizeof(sig), "rejection-rate:%s", tname);
	vf_fail(r, sig, "data with noise of exactly the declared size were "
		"rejected in %ld of %ld trials (%.1f %%) at significance "
		"0.05; accepted band is 0.5 %%..25 %%", rejected, trials,
		100.0 * rate);
    }
    r->nontrivial = trials > 0;
    vf_note("worst scenario rate %d %%", worst_group_pct);
    vf_outcome(r, "ensemble %s rate %s outliers %ld/%ld", tname,
	    rate < 0.005 ? "<0.5%" : rate < 0.02 ? "0.5-2%" :
	    rate < 0.1 ? "2-10%" : rate <= 0.25 ? "10-25%" : ">25%",
	    out_rejected, out_trials);
    vf_exec_end(r, mark);
}

/*
 * grid equivalence: noise that depends linearly on frequency, declared on
 * the calibration grid itself (NULL frequency vector) and declared through
 * samples of the same lines on another grid, is the same noise model (the
 * interpolation passes through the given points and reproduces a line), so
 * noisy data must give the same weighted solution.  The ratio of the noise
 * floor to the tracking part changes with frequency, otherwise the weights
 * of one frequency would only change by a common factor.
 */
#define NGEQ_KIND 5
static const int geq_kind[NGEQ_KIND] = { 2, 3, 4, 5, 6 };
static long ngeq(void) { return 8 * 2 * NGEQ_KIND; }

static void run_geq(long idx, vf_result *r)
{
    static cs_scenario sc;
    static res_t plain, direct, grid;
    int gk = geq_kind[vf_digit(&idx, NGEQ_KIND)];
    int d = vf_digit(&idx, 2);
    int t = (int)idx;
    int rows = dimlist[d][0], cols = dimlist[d][1];
    if (!is_t(types[t])) { int x = rows; rows = cols; cols = x; }
    const int P = rows > cols ? rows : cols;
    const char *tname = vnacal_type_to_name(types[t]);
    const int nf = 4;
    char sig[160];

    vf_desc(r, "%s %dx%d grid equivalence: sigma_nf rising 3x and sigma_tr "
	    "falling 2x over the band, declared on the calibration grid and "
	    "on noise grid kind %d (2: two points outside, 3: five points, "
	    "4: same length and span with other interior points, 5: three "
	    "points, 6: calibration frequencies and their midpoints, curved "
	    "dependence), noisy data", tname, rows, cols, gk);
    unsigned long mark = vf_exec_begin();
    {
	int found = 0;
	for (int recipe = 0; recipe < 2 && !found; ++recipe) {
	    long double margin; int eqs, unk;
	    if (make_scenario(&sc, types[t], rows, cols, recipe, nf) != 0)
		continue;
	    if (cs_identifiable(&sc, (1u << sc.nstd) - 1u, &margin, &eqs,
			&unk) && margin >= 1e-4L && eqs > unk)
		found = 1;
	}
	if (!found) {
	    vf_outcome(r, "skipped: not over-determined/determining");
	    goto done;
	}
    }
    sc.noise = 2e-3;
    run_cal(&sc, false, 0, 0, 0, false, 0, &plain, r);
    g_slope_nf = 2.0;
    g_slope_tr = -0.5;
    /* kind 6: the grid contains the calibration frequencies, so any
       dependence on frequency is the same model: a curved one is used */
    g_curve = gk == 6;
    run_cal(&sc, true, 1, 1e-3, 3e-2, false, 1e-12, &direct, r);
    run_cal(&sc, true, gk, 1e-3, 3e-2, false, 1e-12, &grid, r);
    g_slope_nf = g_slope_tr = 0.0;
    g_curve = 0;
    if (plain.rc != 0 || !plain.applied || direct.rc != 0 ||
	    !direct.applied) {
	snprintf(sig, sizeof(sig), "geq-reference-failed:%s", tname);
	vf_fail(r, sig, "reference runs failed: unweighted rc %d %s, "
		"weighted on the calibration grid rc %d errno %d %s",
		plain.rc, plain.msg, direct.rc, direct.err_no, direct.msg);
	goto done;
    }
    if (grid.rc != 0 || !grid.applied) {
	snprintf(sig, sizeof(sig), "geq-grid-failed:%s", tname);
	vf_fail(r, sig, "the same noise model declared on its own grid "
		"(kind %d): rc %d errno %d %s", gk, grid.rc, grid.err_no,
		grid.msg);
	goto done;
    }
    if (gk == 6) {
	/*
	 * "interpolated through the given points": the values the library
	 * holds for the calibration frequencies after the declaration on
	 * the grid that contains them are the declared ones (white box: a
	 * common factor on all weights of a frequency does not move the
	 * solution, so the comparison above cannot see this)
	 */
	const cs_vna *v = &sc.vna;
	/* three grids: the calibration frequencies alone, with one more
	   point, and with every midpoint */
	for (int gv = 0; gv < 3 && r->status == VF_OK; ++gv) {
	    vnacal_t *vcp = vnacal_create((vnaerr_error_fn_t *)vf_errfn,
		    &elog);
	    vnacal_new_t *vnp = vcp ? vnacal_new_alloc(vcp, v->type, v->rows,
		    v->cols, v->nf) : NULL;
	    double fv[8], nfv[8], trv[8];
	    int at[CS_MAXF], n = 0;
	    for (int i = 0; i < v->nf; ++i) {
		at[i] = n;
		fv[n++] = v->f[i];
		if (i + 1 < v->nf && (gv == 2 || (gv == 1 && i == 1)))
		    fv[n++] = 0.5 * (v->f[i] + v->f[i + 1]);
	    }
	    for (int i = 0; i < n; ++i) {
		double x = (fv[i] - v->f[0]) / (v->f[v->nf - 1] - v->f[0]);
		nfv[i] = 1e-3 * (1.0 + 2.0 * x) * (1.0 + 0.5 * sin(7.0 * x));
		trv[i] = 3e-2 * (1.0 - 0.5 * x) *
		    (1.0 - 0.4 * sin(5.0 * x + 1.0));
	    }
	    if (vnp != NULL &&
		    vnacal_new_set_frequency_vector(vnp, v->f) == 0 &&
		    vnacal_new_set_m_error(vnp, fv, n, nfv, trv) == 0) {
		for (int k = 0; k < v->nf; ++k) {
		    double gn = vnp->vn_m_error_vector[k].vnme_sigma_nf;
		    double gt = vnp->vn_m_error_vector[k].vnme_sigma_tr;
		    if (!(fabs(gn - nfv[at[k]]) <= 1e-12 * nfv[at[k]]) ||
			    !(fabs(gt - trv[at[k]]) <= 1e-12 * trv[at[k]])) {
			snprintf(sig, sizeof(sig), "geq-through-points:%s",
				tname);
			vf_fail(r, sig, "noise declared on a %d-point grid "
				"that contains calibration frequency %.6g Hz: "
				"the library uses sigma_nf %.9g, sigma_tr %.9g "
				"there, declared were %.9g and %.9g", n,
				v->f[k], gn, gt, nfv[at[k]], trv[at[k]]);
			break;
		    }
		}
	    }
	    if (vnp != NULL)
		vnacal_new_free(vnp);
	    if (vcp != NULL)
		vnacal_free(vcp);
	}
	if (r->status != VF_OK)
	    goto done;
    }
    double effect = sdiff(&plain, &direct, nf, P);
    double dd = sdiff(&direct, &grid, nf, P);
    vf_note("weights move the result by %.3e, grids differ by %.3e", effect,
	    dd);
    if (!(dd <= 1e-8 + 1e-4 * effect)) {
	snprintf(sig, sizeof(sig), "geq-differs:%s:kind%d", tname, gk);
	vf_fail(r, sig, "the same noise model declared on the "
		"calibration grid and on noise grid kind %d gives corrected "
		"S-parameters differing by %.3e (the weights as a whole move "
		"the result by %.3e)", gk, dd, effect);
	goto done;
    }
    r->nontrivial = effect > 1e-6;
    vf_outcome(r, "geq %s kind %d %s", tname, gk, effect > 1e-6 ?
	    "weights-matter" : "weights-idle");
    if (gk == 6) {
	/*
	 * The calibration frequencies may be set again after the noise was
	 * declared (vnacal_new(3) allows vnacal_new_set_frequency_vector at
	 * any time before the solve): the values used are then those of the
	 * declared profile at the frequencies of the calibration that is
	 * solved.  Last check of the case (recorded finding).
	 */
	const cs_vna *v = &sc.vna;
	vnacal_t *vcp = vnacal_create((vnaerr_error_fn_t *)vf_errfn, &elog);
	vnacal_new_t *vnp = vcp ? vnacal_new_alloc(vcp, v->type, v->rows,
		v->cols, v->nf) : NULL;
	double fv[8], nfv[8], trv[8], first[CS_MAXF];
	int at[CS_MAXF], n = 0;
	for (int i = 0; i < v->nf; ++i) {
	    at[i] = n;
	    fv[n++] = v->f[i];
	    if (i + 1 < v->nf)
		fv[n++] = 0.5 * (v->f[i] + v->f[i + 1]);
	    /* the first frequency vector: the midpoints, then the end */
	    first[i] = i + 1 < v->nf ? 0.5 * (v->f[i] + v->f[i + 1]) :
		v->f[i];
	}
	for (int i = 0; i < n; ++i) {
	    double x = (fv[i] - v->f[0]) / (v->f[v->nf - 1] - v->f[0]);
	    nfv[i] = 1e-3 * (1.0 + 2.0 * x) * (1.0 + 0.5 * sin(7.0 * x));
	    trv[i] = 3e-2 * (1.0 - 0.5 * x) * (1.0 - 0.4 * sin(5.0 * x + 1.0));
	}
	/* the noise grid starts at f[0], the first calibration vector at
	   the first midpoint: cover it by extrapolation-free means */
	if (vnp != NULL && v->nf >= 2 &&
		vnacal_new_set_frequency_vector(vnp, v->f) == 0 &&
		vnacal_new_set_frequency_vector(vnp, first) == 0 &&
		vnacal_new_set_m_error(vnp, fv, n, nfv, trv) == 0 &&
		vnacal_new_set_frequency_vector(vnp, v->f) == 0) {
	    for (int k = 0; k < v->nf; ++k) {
		double gn = vnp->vn_m_error_vector[k].vnme_sigma_nf;
		double gt = vnp->vn_m_error_vector[k].vnme_sigma_tr;
		if (!(fabs(gn - nfv[at[k]]) <= 1e-12 * nfv[at[k]]) ||
			!(fabs(gt - trv[at[k]]) <= 1e-12 * trv[at[k]])) {
		    snprintf(sig, sizeof(sig), "geq-regrid-stale:%s", tname);
		    vf_fail(r, sig, "noise declared on a %d-point grid, "
			    "calibration frequencies set again afterwards: at "
			    "%.6g Hz the library uses sigma_nf %.9g, sigma_tr "
			    "%.9g, the declared profile has %.9g and %.9g "
			    "there (the values interpolated for the earlier "
			    "frequency vector are kept)", n, v->f[k], gn, gt,
			    nfv[at[k]], trv[at[k]]);
		    break;
		}
	    }
	}
	if (vnp != NULL)
	    vnacal_new_free(vnp);
	if (vcp != NULL)
	    vnacal_free(vcp);
    }
done:
    g_slope_nf = g_slope_tr = 0.0;
    g_curve = 0;
    vf_exec_end(r, mark);
}

/* ------------------------------------------------------------------ */
/* the scale of the p-value                                             */
/* ------------------------------------------------------------------ */
/*
 * A one-port calibration with n known reflects has 2(n - 3) degrees of
 * freedom.  With a constant noise floor the weights do not depend on the
 * data, so displacing one reading by d makes the statistic grow like d^2
 * (to first order in d).  The displacement at which the solve begins to be
 * rejected is found by bisection for two significance levels; the ratio of
 * the squared thresholds is the ratio of the chi-square quantiles of those
 * levels - a number that depends on the degrees of freedom only: 2 for two,
 * 1.771 for four, 1.664 for six.  Deterministic; judges the p-value itself
 * where the rate clause only bounds it.
 */
#define NPSCALE (2 * 3)

/* upper tail of chi-square with an even number of degrees of freedom */
static long double q_even(int df, long double chisq)
{
    long double x = chisq / 2, term = 1, sum = 1;
    for (int i = 1; i < df / 2; ++i) {
	term *= x / i;
	sum += term;
    }
    return expl(-x) * sum;
}
static long double quantile_even(int df, long double alpha)
{
    long double lo = 0, hi = 400;
    for (int it = 0; it < 200; ++it) {
	long double mid = 0.5L * (lo + hi);
	if (q_even(df, mid) > alpha)
	    lo = mid;
	else
	    hi = mid;
    }
    return 0.5L * (lo + hi);
}

/* 1: solved, 0: rejected by the p-value test (EDOM), -1: anything else */
static int pscale_try(vnacal_type_t type, int nstd, double d, double alpha,
	vf_errlog *log)
{
    static const double complex gam[6] = { -1.0, 1.0, 0.0, 0.5 * I,
	-0.4 - 0.3 * I, 0.3 - 0.6 * I };
    const double fv[1] = { 1.0e9 };
    const double nf[1] = { 1.0e-3 };
    vnacal_t *vcp = vnacal_create((vnaerr_error_fn_t *)vf_errfn, log);
    vnacal_new_t *vnp = vcp ? vnacal_new_alloc(vcp, type, 1, 1, 1) : NULL;
    int rv = -1;

    if (vnp == NULL || vnacal_new_set_frequency_vector(vnp, fv) != 0 ||
	    vnacal_new_set_m_error(vnp, NULL, 1, nf, NULL) != 0 ||
	    vnacal_new_set_pvalue_limit(vnp, alpha) != 0)
	goto out;
    for (int k = 0; k < nstd; ++k) {
	double complex m0[1], *mm[1] = { m0 };
	int h = k == 0 ? VNACAL_SHORT : k == 1 ? VNACAL_OPEN : k == 2 ?
	    VNACAL_MATCH : vnacal_make_scalar_parameter(vcp, gam[k]);
	m0[0] = (0.03 + 0.02 * I) + (0.9 - 0.15 * I) * gam[k] /
	    (1.0 - (-0.05 + 0.1 * I) * gam[k]);
	if (k == nstd - 1)
	    m0[0] += d * (0.6 + 0.8 * I);
	if (h < 0 || vnacal_new_add_single_reflect_m(vnp, mm, 1, 1, h, 1) != 0)
	    goto out;
    }
    vf_errlog_reset(log);
    errno = 0;
    if (vnacal_new_solve(vnp) == 0)
	rv = 1;
    else if (errno == EDOM)
	rv = 0;
out:
    if (vnp != NULL)
	vnacal_new_free(vnp);
    if (vcp != NULL)
	vnacal_free(vcp);
    return rv;
}

static void run_pscale(long idx, vf_result *r)
{
    static const double alpha[2] = { 1e-2, 1e-4 };
    int nstd = 4 + (int)(idx % 3);
    vnacal_type_t type = idx / 3 ? VNACAL_U8 : VNACAL_T8;
    int df = 2 * (nstd - 3);
    double thr[2];
    char sig[100];
    unsigned long mark = vf_exec_begin();

    vf_desc(r, "%s 1x1, %d known reflects (%d degrees of freedom), noise "
	    "floor 1e-3: displacement of the last reading at which the "
	    "solve begins to be rejected, at significance 1e-2 and 1e-4",
	    vnacal_type_to_name(type), nstd, df);
    for (int a = 0; a < 2; ++a) {
	double lo = 0.0, hi = 0.1;
	if (pscale_try(type, nstd, lo, alpha[a], &elog) != 1 ||
		pscale_try(type, nstd, hi, alpha[a], &elog) != 0) {
	    snprintf(sig, sizeof(sig), "pscale-bracket:%s",
		    vnacal_type_to_name(type));
	    vf_fail(r, sig, "exact data are not accepted, or data off by "
		    "100 noise floors not rejected, at significance %g: %s",
		    alpha[a], elog.count ? elog.msg[0] : "");
	    goto done;
	}
	for (int it = 0; it < 40; ++it) {
	    double mid = 0.5 * (lo + hi);
	    int rv = pscale_try(type, nstd, mid, alpha[a], &elog);
	    ++r->transitions;
	    if (rv == 1)
		lo = mid;
	    else if (rv == 0)
		hi = mid;
	    else {
		vf_fail(r, "pscale-solve", "solve failed for another reason "
			"at displacement %g: %s", mid,
			elog.count ? elog.msg[0] : "");
		goto done;
	    }
	}
	thr[a] = 0.5 * (lo + hi);
    }
    {
	double got = (thr[1] / thr[0]) * (thr[1] / thr[0]);
	double want = (double)(quantile_even(df, alpha[1]) /
		quantile_even(df, alpha[0]));
	vf_note("thresholds %.6g and %.6g: ratio of squares %.4f, chi-square "
		"quantiles give %.4f", thr[0], thr[1], got, want);
	if (!(fabs(got - want) <= 0.025 * want)) {
	    snprintf(sig, sizeof(sig), "pscale-ratio:%s:df%d",
		    vnacal_type_to_name(type), df);
	    vf_fail(r, sig, "%d degrees of freedom: rejection begins at a "
		    "displacement of %.5g for significance 1e-2 and %.5g for "
		    "1e-4; the squares are in the ratio %.4f, the chi-square "
		    "quantiles of the two levels in the ratio %.4f", df,
		    thr[0], thr[1], got, want);
	    goto done;
	}
    }
    r->nontrivial = 1;
    vf_outcome(r, "pscale df=%d ok", df);
done:
    vf_exec_end(r, mark);
}

/*
 * T and U formulations judge the same data alike.  Weighted by their V
 * matrices, the residuals of both are the differences between the measured
 * values and those the error terms predict, so the same 2x2 data give the
 * same chi-square whether the calibration is T8 or U8, TE10 or UE10, T16 or
 * U16 (and E12 or UE14): the displacement of one standard's reading at
 * which the solve begins to be rejected is the same for both.
 */
#define NPTU_PAIR 6
#define NPTU (NPTU_PAIR * 2 * 2)
#define PTU_TOL 1e-4
static int ptu_threshold(cs_scenario *sc, double snf, double str,
	double alpha, double *thr, vf_result *r, char *why, size_t wn)
{
    static res_t o;
    double lo = 0.0, hi = 100.0;

    sc->sigma_nf = snf;
    sc->sigma_tr = str;
    sc->displace_sigmas = lo;
    run_cal(sc, true, 0, snf, str, false, alpha, &o, r);
    if (o.rc != 0) {
	snprintf(why, wn, "exact data not accepted: rc %d errno %d %s", o.rc,
		o.err_no, o.msg);
	return -1;
    }
    sc->displace_sigmas = hi;
    run_cal(sc, true, 0, snf, str, false, alpha, &o, r);
    if (!(o.rc == -1 && o.err_no == EDOM)) {
	snprintf(why, wn, "a standard off by 100 sigma not rejected: rc %d "
		"errno %d %s", o.rc, o.err_no, o.msg);
	return 1;
    }
    for (int it = 0; it < 34; ++it) {
	double mid = 0.5 * (lo + hi);
	sc->displace_sigmas = mid;
	run_cal(sc, true, 0, snf, str, false, alpha, &o, r);
	if (o.rc == 0)
	    lo = mid;
	else if (o.rc == -1 && o.err_no == EDOM)
	    hi = mid;
	else {
	    snprintf(why, wn, "solve failed for another reason at %g sigma: "
		    "rc %d errno %d %s", mid, o.rc, o.err_no, o.msg);
	    return -1;
	}
    }
    *thr = 0.5 * (lo + hi);
    return 0;
}

static void run_ptu(long idx, vf_result *r)
{
    static const vnacal_type_t pair[NPTU_PAIR][2] = {
	{ VNACAL_T8, VNACAL_U8 }, { VNACAL_TE10, VNACAL_UE10 },
	{ VNACAL_T16, VNACAL_U16 }, { VNACAL_E12, VNACAL_UE14 },
	/* one driven port: the column system is the whole calibration */
	{ VNACAL_UE10, VNACAL_UE14 }, { VNACAL_UE10, VNACAL_E12 } };
    static cs_scenario a, b;
    int pi = vf_digit(&idx, NPTU_PAIR);
    const int cols = pi >= 4 ? 1 : 2;
    int which = vf_digit(&idx, 2);
    int tr = vf_digit(&idx, 2);
    const double snf = 1e-5, str = tr ? 2e-4 : 0.0, alpha = 1e-3;
    double ta = 0, tb = 0;
    char why[300], sig[120];
    unsigned long mark = vf_exec_begin();

    vf_desc(r, "%s and %s 2x%d on the same instrument and data, noise floor "
	    "1e-5%s: number of sigma by which the %s standard's reading is "
	    "off when the solve begins to be rejected at significance 1e-3",
	    vnacal_type_to_name(pair[pi][0]), vnacal_type_to_name(pair[pi][1]),
	    cols, tr ? ", tracking 2e-4" : "", which ? "last" : "first");
    if (make_scenario(&a, pair[pi][0], 2, cols, 0, 1) != 0 ||
	    make_scenario(&b, pair[pi][1], 2, cols, 0, 1) != 0) {
	vf_outcome(r, "no-such-recipe");
	goto done;
    }
    /* one more standard, far from reciprocal: what transposes the S
       matrix of a standard shows here */
    for (int k = 0; k < 2; ++k) {
	static const double complex nr[4] = { 0.10 + 0.05 * I,
	    0.05 + 0.02 * I, 0.70 - 0.30 * I, -0.20 + 0.10 * I };
	cs_scenario *sc = k ? &b : &a;
	cs_std *st;
	if (sc->nstd + 1 > CS_MAXSTD || sc->nparam + 4 > CS_MAXPARAM)
	    continue;
	st = &sc->std[sc->nstd];
	memset(st, 0, sizeof(*st));
	st->entry = CSE_LINE; st->np = 2; st->port[0] = 1; st->port[1] = 2;
	st->null_map = true;
	st->id = sc->nstd + 1;
	for (int c = 0; c < 4; ++c) {
	    cs_param q;
	    memset(&q, 0, sizeof(q));
	    q.kind = CSP_SCALAR; q.c0 = nr[c]; q.handle = -1;
	    sc->param[sc->nparam] = q;
	    st->sp[c] = sc->nparam++;
	}
	++sc->nstd;
    }
    /* the same physical instrument */
    b.vna = a.vna;
    b.vna.type = pair[pi][1];
    if (a.nstd != b.nstd) {
	vf_outcome(r, "ptu n/a: the recipes differ");
	goto done;
    }
    for (int k = 0; k < 2; ++k) {
	cs_scenario *sc = k ? &b : &a;
	long double margin; int eqs, unk;
	if (!cs_identifiable(sc, (1u << sc->nstd) - 1u, &margin, &eqs, &unk)
		|| margin < 1e-4L || eqs <= unk) {
	    vf_outcome(r, "ptu skipped: not over-determined/determining");
	    goto done;
	}
	sc->displace_id = sc->std[which ? sc->nstd - 1 : 0].id;
    }
    g_tight_tol = 1e-11;	/* the weights iterated to the end */
    {
	int ra = ptu_threshold(&a, snf, str, alpha, &ta, r, why, sizeof(why));
	if (ra != 0) {
	    if (ra < 0) {
		snprintf(sig, sizeof(sig), "ptu-solve:%s",
			vnacal_type_to_name(pair[pi][0]));
		vf_fail(r, sig, "%s", why);
	    } else
		vf_outcome(r, "ptu n/a: %s", why);
	    goto done;
	}
	int rb = ptu_threshold(&b, snf, str, alpha, &tb, r, why, sizeof(why));
	if (rb != 0) {
	    if (rb < 0) {
		snprintf(sig, sizeof(sig), "ptu-solve:%s",
			vnacal_type_to_name(pair[pi][1]));
		vf_fail(r, sig, "%s", why);
	    } else
		vf_outcome(r, "ptu n/a: %s", why);
	    goto done;
	}
    }
    vf_note("thresholds %.8g and %.8g sigma (relative difference %.3e)", ta,
	    tb, fabs(ta - tb) / ta);
    if (!(fabs(ta - tb) <= PTU_TOL * ta)) {
	snprintf(sig, sizeof(sig), "ptu-differs:%s",
		vnacal_type_to_name(pair[pi][0]));
	vf_fail(r, sig, "the same data begin to be rejected at %.6g sigma "
		"as %s and at %.6g sigma as %s", ta,
		vnacal_type_to_name(pair[pi][0]), tb,
		vnacal_type_to_name(pair[pi][1]));
	goto done;
    }
    r->nontrivial = 1;
    vf_outcome(r, "ptu ok %s", fabs(ta - tb) <= 1e-4 * ta ? "<1e-4" :
	    fabs(ta - tb) <= 1e-3 * ta ? "<1e-3" : "<tol");
done:
    g_tight_tol = 0.0;
    vf_exec_end(r, mark);
}

/*
 * Degrees of freedom of a set that samples leakage terms more than once.
 * A TE10 or UE10 2x2 calibration from a through and two or three double
 * reflects, every standard measured with its full 2x2 matrix: 4 readings
 * per standard, 9 complex unknowns (7 terms of the linear system, 2 leakage
 * terms), hence 2 (4 n - 9) degrees of freedom, of which 2 (k - 1) per
 * leakage cell come from the scatter of its k samples.  As in the one-port
 * scale cases, the squares of the displacements at which the solve begins
 * to be rejected at two significance levels are in the ratio of the
 * chi-square quantiles of that number.
 */
#define NLDF (2 * 2)
static void ldf_push(cs_scenario *sc, int entry, int a, int b)
{
    cs_std *st = &sc->std[sc->nstd];
    memset(st, 0, sizeof(*st));
    st->entry = entry; st->np = 2; st->port[0] = 1; st->port[1] = 2;
    st->null_map = true;
    st->id = sc->nstd + 1;
    for (int i = 0; i < 4; ++i) {
	st->sp[i] = -1;
	st->sv[i] = 0.0;
    }
    if (entry == CSE_THROUGH) {
	st->sv[1] = st->sv[2] = 1.0;
    } else {
	st->sp[0] = a;
	st->sp[3] = b;
    }
    ++sc->nstd;
}

static void run_ldf(long idx, vf_result *r)
{
    static const double alpha[2] = { 1e-2, 1e-4 };
    static cs_scenario sc;
    vnacal_type_t type = vf_digit(&idx, 2) ? VNACAL_UE10 : VNACAL_TE10;
    int nrefl = 2 + (int)idx;		/* double reflects: 2 or 3 */
    const double snf = 1e-5;
    double thr[2];
    char why[300], sig[120];
    int pm, po, ps;
    unsigned long mark = vf_exec_begin();

    memset(&sc, 0, sizeof(sc));
    cs_make_vna(&sc.vna, type, 2, 2, 1, g_net);
    for (int k = 0; k < 3; ++k) {
	cs_param q;
	memset(&q, 0, sizeof(q));
	q.kind = CSP_PREDEF; q.handle = -1;
	q.predef = k == 0 ? VNACAL_MATCH : k == 1 ? VNACAL_OPEN :
	    VNACAL_SHORT;
	sc.param[sc.nparam++] = q;
    }
    pm = 0; po = 1; ps = 2;
    ldf_push(&sc, CSE_THROUGH, -1, -1);
    ldf_push(&sc, CSE_DOUBLE, ps, po);
    ldf_push(&sc, CSE_DOUBLE, po, pm);
    if (nrefl == 3)
	ldf_push(&sc, CSE_DOUBLE, pm, ps);
    const int df = 2 * (4 * sc.nstd - 9);
    vf_desc(r, "%s 2x2, a through and %d double reflects measured in full "
	    "(%d degrees of freedom, %d samples of each leakage term), noise "
	    "floor 1e-5: displacement of the last reading at which the solve "
	    "begins to be rejected, at significance 1e-2 and 1e-4",
	    vnacal_type_to_name(type), nrefl, df, nrefl);
    {
	long double margin; int eqs, unk;
	if (!cs_identifiable(&sc, (1u << sc.nstd) - 1u, &margin, &eqs, &unk)
		|| margin < 1e-4L) {
	    vf_outcome(r, "ldf skipped: set not determining");
	    goto done;
	}
    }
    sc.displace_id = sc.std[sc.nstd - 1].id;
    g_tight_tol = 1e-11;
    for (int a = 0; a < 2; ++a) {
	int rv = ptu_threshold(&sc, snf, 0.0, alpha[a], &thr[a], r, why,
		sizeof(why));
	if (rv != 0) {
	    if (rv < 0) {
		snprintf(sig, sizeof(sig), "ldf-solve:%s",
			vnacal_type_to_name(type));
		vf_fail(r, sig, "%s", why);
	    } else
		vf_outcome(r, "ldf n/a: %s", why);
	    goto done;
	}
    }
    {
	double got = (thr[1] / thr[0]) * (thr[1] / thr[0]);
	double want = (double)(quantile_even(df, alpha[1]) /
		quantile_even(df, alpha[0]));
	vf_note("thresholds %.6g and %.6g: ratio of squares %.4f, chi-square "
		"quantiles of %d degrees of freedom give %.4f", thr[0],
		thr[1], got, df, want);
	if (!(fabs(got - want) <= 0.025 * want)) {
	    snprintf(sig, sizeof(sig), "ldf-ratio:%s:df%d",
		    vnacal_type_to_name(type), df);
	    vf_fail(r, sig, "%d degrees of freedom (%d readings, 9 unknowns): "
		    "rejection begins at %.5g sigma for significance 1e-2 "
		    "and %.5g sigma for 1e-4; the squares are in the ratio "
		    "%.4f, the chi-square quantiles of the two levels in "
		    "the ratio %.4f", df, 4 * sc.nstd, thr[0], thr[1], got,
		    want);
	    goto done;
	}
    }
    r->nontrivial = 1;
    vf_outcome(r, "ldf df=%d ok", df);
done:
    g_tight_tol = 0.0;
    vf_exec_end(r, mark);
}

static void run(int tier, long idx, vf_result *r)
{
    long nd = ndet(tier);
    if (idx >= nd + 8 + ngeq() + 6 + 24) {
	run_ldf(idx - nd - 8 - ngeq() - 6 - 24, r);
	return;
    }
    if (idx >= nd + 8 + ngeq() + 6) {
	run_ptu(idx - nd - 8 - ngeq() - 6, r);
	return;
    }
    if (idx >= nd + 8 + ngeq()) {
	run_pscale(idx - nd - 8 - ngeq(), r);
	return;
    }
    if (idx >= nd + 8) {
	run_geq(idx - nd - 8, r);
	return;
    }
    if (idx < nd)
	run_det(tier, idx, r);
    else
	run_ens(tier, (int)(idx - nd), r);
}

vf_driver vf_drv = {
    .property = "C18",
    .rule = "deterministic cases = (type x shape x recipe x sigma_nf x "
	"sigma_tr x noise-grid kind), each running exact data, the cleared "
	"model and every standard displaced by 100 sigma in turn; plus one "
	"ensemble case per type running a declared fixed ensemble of "
	"Gaussian realisations (12 scenarios x 64/128) whose rejection rate "
	"at significance 0.05 must lie in [0.5 %, 25 %]; plus grid-"
	"equivalence cases (type x shape x 4 noise-grid kinds) comparing "
	"a frequency-dependent noise model declared on the calibration grid "
	"with the same model declared on another grid; non-trivial when "
	"the scenario is over-determined and determining; the ensemble "
	"clause is enumerated, not decided (a probability cannot be)",
    .count = count,
    .run = run,
    .timeout_s = 300,
};
