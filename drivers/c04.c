/*
 * C04: every vnaconv_* conversion yields the same physical network.
 *
 * Enumerates (function x z0 tuple) cases; inside a case every matrix of the
 * declared alphabet is converted with separate and with aliased buffers and
 * judged by the defining port relations (oracle/ports.c).
 */
#include <complex.h>
#include <math.h>
#include <stdio.h>
#include <string.h>
#include <vnaconv.h>
#include "vf.h"
#include "ports.h"
#include "c04_table.h"

#define TOL	1e-9L		/* row-wise relative residual allowed */
#define SING	1e-4L		/* pivot ratio below which a case is singular */

static const double complex z0_alpha[] = {
    50.0, 75.0, 1.0, 50.0 + 20.0 * I, 30.0 - 40.0 * I, 1000.0 + 5.0 * I,
    0.1, 377.0 - 100.0 * I		/* thorough tier only */
};
#define NZ0A 6			/* n-port table and quick tier */
#define NZ0A_T 8
static int nz0a(int tier) { return tier ? NZ0A_T : NZ0A; }
#define NZ0P(tier) (nz0a(tier) * nz0a(tier))

static const double complex entry_alpha[] = {
    0.5, -0.3 + 0.4 * I, 0.1 * I, 1.2 - 0.7 * I, 0.0,
    1e-3, 3.0 + 4.0 * I			/* thorough tier only */
};

static const double complex structured[8][4] = {
    { 1, 0, 0, 1 },
    { 0, 1, 1, 0 },
    { 0.2 + 0.1 * I, 0.7 - 0.2 * I, 0.7 - 0.2 * I, -0.1 + 0.3 * I },
    { 0.6, 0.8 * I, 0.8 * I, 0.6 },			/* lossless */
    { 0.1, 0.9, 0.05, 0.2 * I },			/* non-reciprocal */
    { 1e-3, 2.0, 3.0 - 1.0 * I, -1e-3 * I },
    { -0.5 + 0.5 * I, 0.25, -0.25 * I, 0.75 },
    { 2.0, 0.5 + 0.5 * I, 1.5 * I, -1.0 },
};

/* n-port functions */
typedef void convn_z(const double complex *, double complex *,
	const double complex *, int);
typedef void convn_nz(const double complex *, double complex *, int);
typedef struct {
    const char *name;
    int from, to;		/* to == -1: zin */
    convn_z *fz;
    convn_nz *fnz;
} convn_t;
static const convn_t convn_table[] = {
    { "vnaconv_stozn",  PT_S, PT_Z, vnaconv_stozn, NULL },
    { "vnaconv_stoyn",  PT_S, PT_Y, vnaconv_stoyn, NULL },
    { "vnaconv_ztosn",  PT_Z, PT_S, vnaconv_ztosn, NULL },
    { "vnaconv_ytosn",  PT_Y, PT_S, vnaconv_ytosn, NULL },
    { "vnaconv_ztoyn",  PT_Z, PT_Y, NULL, vnaconv_ztoyn },
    { "vnaconv_ytozn",  PT_Y, PT_Z, NULL, vnaconv_ytozn },
    { "vnaconv_stozin", PT_S, -1, vnaconv_stozin, NULL },
    { "vnaconv_ztozin", PT_Z, -1, vnaconv_ztozin, NULL },
    { "vnaconv_ytozin", PT_Y, -1, vnaconv_ytozin, NULL },
};
#define NCONVN 9
#define NMAX 6
#define NZ0N 8
#define NMATN 16

static int n_entry(int tier) { return tier ? 7 : 3; }
static int n_mats(int tier)
{
    int a = n_entry(tier);
    return a * a * a * a + 8;
}

/* scale raw alphabet matrix into the units of its type */
static void scale_for_type(int type, const double complex raw[4],
	double complex m[2][2])
{
    double s[4] = { 1, 1, 1, 1 };
    switch (type) {
    case PT_Z: s[0] = s[1] = s[2] = s[3] = 50.0; break;
    case PT_Y: s[0] = s[1] = s[2] = s[3] = 0.02; break;
    case PT_H: s[0] = 50.0; s[3] = 0.02; break;
    case PT_G: s[0] = 0.02; s[3] = 50.0; break;
    case PT_A:
    case PT_B: s[1] = 50.0; s[2] = 0.02; break;
    default: break;
    }
    for (int i = 0; i < 4; ++i)
	m[i / 2][i % 2] = raw[i] * s[i];
}

static void get_matrix(int tier, int k, int type, double complex m[2][2])
{
    int a = n_entry(tier);
    int na = a * a * a * a;
    double complex raw[4];
    if (k < na) {
	for (int i = 0; i < 4; ++i) {
	    raw[i] = entry_alpha[k % a];
	    k /= a;
	}
    } else {
	memcpy(raw, structured[k - na], sizeof(raw));
    }
    scale_for_type(type, raw, m);
}

static long count(int tier)
{
    return (long)NCONV2 * NZ0P(tier) + (long)NZI2 * NZ0P(tier) +
	(long)NCONVN * NMAX * NZ0N;
}

static const char *decade(long double r)
{
    if (r == 0) return "0";
    if (r < 1e-15L) return "<1e-15";
    if (r < 1e-13L) return "<1e-13";
    if (r < 1e-11L) return "<1e-11";
    if (r < 1e-9L) return "<1e-9";
    return ">=1e-9";
}

static int same_bits(const double complex *a, const double complex *b, int n)
{
    for (int i = 0; i < n; ++i) {
	double ar = creal(a[i]), ai = cimag(a[i]);
	double br = creal(b[i]), bi = cimag(b[i]);
	if (!((ar == br || (isnan(ar) && isnan(br))) &&
	      (ai == bi || (isnan(ai) && isnan(bi)))))
	    return 0;
    }
    return 1;
}

static double maxabs(const double complex *a, int n)
{
    double m = 0;
    for (int i = 0; i < n; ++i)
	if (cabs(a[i]) > m) m = cabs(a[i]);
    return m;
}

static void call2(const conv2_t *c, const double complex (*in)[2],
	double complex (*out)[2], const double complex *z0)
{
    if (c->has_z0)
	c->f1(in, out, z0);
    else
	c->f0(in, out);
}

static const conv2_t *find2(int from, int to)
{
    for (int i = 0; i < NCONV2; ++i)
	if (conv2_table[i].from == from && conv2_table[i].to == to)
	    return &conv2_table[i];
    return NULL;
}

static void run_conv2(int tier, int f, int zi, vf_result *r)
{
    const conv2_t *c = &conv2_table[f];
    const conv2_t *rev = find2(c->to, c->from);
    double complex z0[2] = { z0_alpha[zi / nz0a(tier)],
	z0_alpha[zi % nz0a(tier)] };
    int nm = n_mats(tier);
    long nonsing = 0, sing = 0;
    long double worst = 0;

    vf_desc(r, "%s z0=(%g%+gj,%g%+gj) x %d matrices x {separate,aliased} "
	    "+ round trip", c->name, creal(z0[0]), cimag(z0[0]),
	    creal(z0[1]), cimag(z0[1]), nm);
    for (int k = 0; k < nm; ++k) {
	double complex in[2][2], out[2][2], al[2][2], back[2][2];
	long double resid, pr, pr2, resid2;
	char sig[160];

	get_matrix(tier, k, c->from, in);
	for (int i = 0; i < 4; ++i)
	    (&out[0][0])[i] = NAN;
	call2(c, in, out, z0);
	memcpy(al, in, sizeof(al));
	call2(c, al, al, z0);
	r->transitions += 2;
	if (!same_bits(&out[0][0], &al[0][0], 4)) {
	    snprintf(sig, sizeof(sig), "alias:%s", c->name);
	    vf_fail(r, sig, "%s: in-place result differs from separate "
		    "buffers for matrix #%d: out=[%g%+gj %g%+gj; %g%+gj %g%+gj]"
		    " inplace=[%g%+gj %g%+gj; %g%+gj %g%+gj]", c->name, k,
		    creal(out[0][0]), cimag(out[0][0]), creal(out[0][1]),
		    cimag(out[0][1]), creal(out[1][0]), cimag(out[1][0]),
		    creal(out[1][1]), cimag(out[1][1]),
		    creal(al[0][0]), cimag(al[0][0]), creal(al[0][1]),
		    cimag(al[0][1]), creal(al[1][0]), cimag(al[1][0]),
		    creal(al[1][1]), cimag(al[1][1]));
	}
	int rv = ports_check(2, c->from, &in[0][0], c->to, &out[0][0], z0,
		TOL, SING, &resid, &pr);
	if (rv == PORTS_SINGULAR) {
	    ++sing;
	    continue;
	}
	++nonsing;
	if (resid > worst)
	    worst = resid;
	if (rv == PORTS_MISMATCH) {
	    snprintf(sig, sizeof(sig), "relation:%s", c->name);
	    vf_fail(r, sig, "%s: output violates its defining relation "
		    "(row-wise relative residual %.3Le, pivot ratio %.2Le) for "
		    "matrix #%d in=[%g%+gj %g%+gj; %g%+gj %g%+gj] z0=(%g%+gj,"
		    "%g%+gj) out=[%g%+gj %g%+gj; %g%+gj %g%+gj]", c->name,
		    resid, pr, k,
		    creal(in[0][0]), cimag(in[0][0]), creal(in[0][1]),
		    cimag(in[0][1]), creal(in[1][0]), cimag(in[1][0]),
		    creal(in[1][1]), cimag(in[1][1]),
		    creal(z0[0]), cimag(z0[0]), creal(z0[1]), cimag(z0[1]),
		    creal(out[0][0]), cimag(out[0][0]), creal(out[0][1]),
		    cimag(out[0][1]), creal(out[1][0]), cimag(out[1][0]),
		    creal(out[1][1]), cimag(out[1][1]));
	    continue;
	}
	/* round trip when both directions are well away from singular */
	if (rev != NULL && pr > 1e-3L) {
	    call2(rev, out, back, z0);
	    ++r->transitions;
	    int rv2 = ports_check(2, c->to, &out[0][0], c->from, &back[0][0],
		    z0, TOL, 1e-3L, &resid2, &pr2);
	    if (rv2 != PORTS_SINGULAR) {
		/* cell-wise, each cell against its own magnitude or the
		   unit scale of its position, whichever is larger */
		double unit[2][2];
		double complex one[4] = { 1, 1, 1, 1 }, um[2][2];
		scale_for_type(c->from, one, um);
		double err = 0, err_ref = 0;
		double complex bref[2][2];
		/*
		 * How well can the original be recovered at all from the
		 * library's (double precision) forward result?  Convert it
		 * back with the reference conversion in long double: what
		 * that loses is the conditioning of the round trip, not an
		 * error of the backward function.
		 */
		int rvr = ports_convert(2, c->to, &out[0][0], c->from,
			&bref[0][0], z0);
		for (int i = 0; i < 4; ++i) {
		    unit[i / 2][i % 2] = cabs((&um[0][0])[i]);
		    double ref = fmax(cabs((&in[0][0])[i]), unit[i / 2][i % 2]);
		    double e = cabs((&back[0][0])[i] - (&in[0][0])[i]) / ref;
		    if (!(e <= err))
			err = e;
		    if (rvr == PORTS_OK) {
			double er = cabs((&bref[0][0])[i] - (&in[0][0])[i]) /
			    ref;
			if (!(er <= err_ref))
			    err_ref = er;
		    }
		}
		if (rvr == PORTS_OK && !(err <= 1e-7 + 1e3 * err_ref)) {
		    snprintf(sig, sizeof(sig), "roundtrip:%s", c->name);
		    vf_fail(r, sig, "%s then %s does not return the "
			    "original (cell-wise rel err %.3e; an exact "
			    "back-conversion of the same forward result "
			    "loses %.3e; pivot ratios %.2Le / %.2Le) "
			    "matrix #%d", c->name, rev->name, err, err_ref,
			    pr, pr2, k);
		}
	    }
	}
    }
    r->nontrivial = nonsing > 0;
    r->states = nonsing;
    vf_outcome(r, "conv2 resid%s %s", decade(worst),
	    sing ? "some-singular" : "none-singular");
}

static void run_zi2(int tier, int f, int zi, vf_result *r)
{
    const zi2_t *c = &zi2_table[f];
    double complex z0[2] = { z0_alpha[zi / nz0a(tier)],
	z0_alpha[zi % nz0a(tier)] };
    int nm = n_mats(tier);
    long nonsing = 0, sing = 0;
    double worst = 0;

    vf_desc(r, "%s z0=(%g%+gj,%g%+gj) x %d matrices", c->name,
	    creal(z0[0]), cimag(z0[0]), creal(z0[1]), cimag(z0[1]), nm);
    for (int k = 0; k < nm; ++k) {
	double complex in[2][2], out[2] = { NAN, NAN }, ref[2];
	char sig[160];

	get_matrix(tier, k, c->from, in);
	c->f(in, out, z0);
	++r->transitions;
	{
	    /* the result vector laid over the matrix it is computed from,
	       as vnadata_convert does when it converts to Zin in place */
	    double complex al[2][2];
	    memcpy(al, in, sizeof(al));
	    c->f(al, &al[0][0], z0);
	    ++r->transitions;
	    if (memcmp(&al[0][0], out, sizeof(out)) != 0 &&
		    !(isnan(creal(out[0])) || isnan(creal(out[1])) ||
			isnan(cimag(out[0])) || isnan(cimag(out[1])))) {
		snprintf(sig, sizeof(sig), "alias:%s", c->name);
		vf_fail(r, sig, "%s: with the result vector laid over the "
			"input matrix the input impedances are %g%+gj, "
			"%g%+gj, with separate buffers %g%+gj, %g%+gj "
			"(matrix #%d)", c->name, creal(al[0][0]),
			cimag(al[0][0]), creal(al[0][1]), cimag(al[0][1]),
			creal(out[0]), cimag(out[0]), creal(out[1]),
			cimag(out[1]), k);
	    }
	}
	if (ports_zin(2, c->from, &in[0][0], z0, ref) != PORTS_OK) {
	    ++sing;
	    continue;
	}
	++nonsing;
	for (int p = 0; p < 2; ++p) {
	    double e = cabs(out[p] - ref[p]) / (cabs(ref[p]) + 1e-300);
	    if (!(e <= 1e-9) && cabs(ref[p]) < 1e-9 * cabs(z0[p]) &&
		    cabs(out[p]) < 1e-9 * cabs(z0[p]))
		e = 0;	/* both essentially zero */
	    if (e > worst)
		worst = e;
	    if (!(e <= 1e-9)) {
		snprintf(sig, sizeof(sig), "zin:%s", c->name);
		vf_fail(r, sig, "%s: port %d input impedance %g%+gj, "
			"terminated-network solve gives %g%+gj (matrix #%d)",
			c->name, p + 1, creal(out[p]), cimag(out[p]),
			creal(ref[p]), cimag(ref[p]), k);
	    }
	}
    }
    r->nontrivial = nonsing > 0;
    r->states = nonsing;
    vf_outcome(r, "zi2 err%s %s", decade(worst),
	    sing ? "some-singular" : "none-singular");
}

static void gen_matn(int n, int type, int k, double complex *m)
{
    double sc = type == PT_Z ? 50.0 : type == PT_Y ? 0.02 : 1.0;
    if (k == 6 || k == 7) {
	/*
	 * Exactly singular inputs for which most conversions are still
	 * defined (a floating network has a singular Y, a shunt element a
	 * singular Z, an ideal open or short an S with eigenvalue +1 or -1);
	 * which conversions are not is decided by the oracle from the port
	 * relations, never from the route an implementation takes.
	 *   6  Laplacian of a chain with unequal complex branches (rank n-1;
	 *      for S: diag(+1, -1, +1, ...))
	 *   7  all entries equal (rank 1; for S: 0.5 everywhere)
	 */
	for (int i = 0; i < n * n; ++i)
	    m[i] = 0;
	if (k == 6 && type != PT_S) {
	    for (int b = 0; b + 1 < n; ++b) {
		double complex g = sc * (1.0 + 0.5 * b + 0.25 * I * (b + 1));
		m[b * n + b] += g;
		m[(b + 1) * n + b + 1] += g;
		m[b * n + b + 1] -= g;
		m[(b + 1) * n + b] -= g;
	    }
	} else if (k == 6) {
	    for (int i = 0; i < n; ++i)
		m[i * n + i] = (i & 1) ? -1.0 : 1.0;
	} else {
	    double complex v = type == PT_S ? 0.5 / n : sc * (0.8 - 0.3 * I);
	    for (int i = 0; i < n * n; ++i)
		m[i] = v;
	}
	return;
    }
    if (k == 12 || k == 13) {
	/*
	 * an ideal open (k = 12: first diagonal entry exactly +1 in S units,
	 * i.e. the port sees an open circuit) or an ideal short (-1) on port
	 * 1 that is still coupled to the other ports: I - S and conj(z0) + S z0
	 * then begin with an exact zero, which routes skipping leading zeros
	 * must handle per column.  (Z and Y inputs get an ordinary matrix
	 * here: -1/z0 as an admittance is on the singular set of the route
	 * through S that vnaconv(3) defines the input impedance by.)
	 */
	for (int i = 0; i < n; ++i)
	    for (int j = 0; j < n; ++j) {
		double complex v = vf_cunit(1000 + (uint64_t)k * 64 +
			(uint64_t)n, (uint64_t)(i * 8 + j));
		if (type == PT_S)
		    v *= 0.5 / n;
		else if (i == j)
		    v += 1.0 + 0.5 * n;
		m[i * n + j] = v * sc;
	    }
	if (type == PT_S)
	    m[0] = k == 12 ? 1.0 : -1.0;
	return;
    }
    if (k == 10) {
	/*
	 * a lossless chain: zero diagonal, purely imaginary couplings
	 * (quarter-wave sections 1-2, 3-4, ... joined by reactances; an odd
	 * last port ends in a reactance).  Well conditioned, but every
	 * elimination starts on a zero and no entry has a real part.
	 */
	for (int i = 0; i < n * n; ++i)
	    m[i] = 0;
	for (int b = 0; b + 1 < n; ++b) {
	    double complex g = (b & 1) ? 0.3 * I * (1.0 + 0.1 * b) :
		-1.0 * I * (1.0 + 0.2 * b);
	    if (type == PT_S)
		g *= (b & 1) ? 0.5 : 0.8;
	    m[b * n + b + 1] = m[(b + 1) * n + b] = g * sc;
	}
	if (n & 1)
	    m[n * n - 1] = (type == PT_S ? 1.0 : 0.7) * I * sc;
	return;
    }
    for (int i = 0; i < n; ++i) {
	for (int j = 0; j < n; ++j) {
	    double complex v = vf_cunit(1000 + (uint64_t)k * 64 + (uint64_t)n,
		    (uint64_t)(i * 8 + j));
	    if (k == 11)			/* purely reactive, dense */
		v = I * cimag(v);
	    if (k == 1 && j < i)		/* symmetric member */
		v = vf_cunit(1000 + (uint64_t)k * 64 + (uint64_t)n,
			(uint64_t)(j * 8 + i));
	    if (type == PT_S)
		v *= 0.6 / n;
	    else if (i == j)
		v += 1.0 + 0.5 * n;
	    if (k == 2 && i != j && ((i + j) & 1))	/* sparse member */
		v = 0;
	    if (k == 3)					/* wide range */
		v *= (i == 0 ? 1e-3 : 1.0) * (j == n - 1 ? 1e3 : 1.0);
	    /* the whole matrix very small / very large in its unit (pF at
	       kHz, milliohms, megohms): its determinant scales with the
	       n-th power, its conditioning does not change */
	    if (k == 8)
		v *= 1e-7;
	    if (k == 9)
		v *= type == PT_S ? 30.0 : 1e5;
	    m[i * n + j] = v * sc;
	}
    }
    if ((k == 14 || k == 15) && n >= 3) {
	/*
	 * the leading 2 x 2 block is exactly singular inside a regular
	 * matrix (second row, or second column, of the block twice the
	 * first): the second diagonal entry cancels during elimination and
	 * a later row has to be brought up, whatever the entry was before
	 */
	if (k == 14) {
	    m[1 * n + 0] = 2.0 * m[0 * n + 0];
	    m[1 * n + 1] = 2.0 * m[0 * n + 1];
	} else {
	    m[0 * n + 1] = 2.0 * m[0 * n + 0];
	    m[1 * n + 1] = 2.0 * m[1 * n + 0];
	}
    }
}

static void gen_z0n(int n, int k, double complex *z0)
{
    for (int i = 0; i < n; ++i) {
	switch (k) {
	case 0: z0[i] = 50.0; break;
	case 1: z0[i] = 25.0 * (i + 1); break;
	case 2: z0[i] = 50.0 + 10.0 * i - 15.0 * I * (i % 3 - 1); break;
	case 3: z0[i] = z0_alpha[(i * 5 + 3) % NZ0A]; break;
	/* structured vectors: shortcuts keyed on "all ports alike" must
	   look at the whole complex value of every port */
	case 4: z0[i] = 50.0 + 12.0 * I * (i - 1); break;  /* Re equal only */
	case 5: z0[i] = 50.0 + 20.0 * I; break;		    /* all equal, complex */
	case 6: z0[i] = (i == 0 || i == n - 1) ? 50.0 : 75.0 + 5.0 * I * i;
		break;					    /* ends equal */
	default: z0[i] = (i & 1) ? 50.0 - 10.0 * I : 50.0 + 10.0 * I;
		break;					    /* conjugate pairs */
	}
    }
}

static void run_convn(int f, int n, int zk, vf_result *r)
{
    const convn_t *c = &convn_table[f];
    double complex z0[NMAX], in[NMAX * NMAX], out[NMAX * NMAX],
		   al[NMAX * NMAX];
    long nonsing = 0, sing = 0;
    long double worst = 0;

    gen_z0n(n, zk, z0);
    vf_desc(r, "%s n=%d z0 vector #%d x %d matrices x {separate,aliased}%s",
	    c->name, n, zk, NMATN, n == 2 ? " + 2-port agreement" : "");
    for (int k = 0; k < NMATN; ++k) {
	char sig[160];
	long double resid, pr;

	gen_matn(n, c->from, k, in);
	for (int i = 0; i < n * n; ++i)
	    out[i] = NAN;
	if (c->to < 0) {
	    double complex ref[NMAX];
	    c->fz(in, out, z0, n);
	    ++r->transitions;
	    {
		/* result vector laid over the input matrix */
		int nanout = 0;
		memcpy(al, in, sizeof(double complex) * (size_t)(n * n));
		c->fz(al, al, z0, n);
		++r->transitions;
		for (int p = 0; p < n; ++p)
		    if (isnan(creal(out[p])) || isnan(cimag(out[p])))
			nanout = 1;
		if (!nanout && memcmp(al, out, sizeof(double complex) *
			    (size_t)n) != 0) {
		    snprintf(sig, sizeof(sig), "alias:%s", c->name);
		    vf_fail(r, sig, "%s n=%d: result vector laid over the "
			    "input matrix differs from separate buffers "
			    "(matrix #%d)", c->name, n, k);
		}
	    }
	    if (ports_zin(n, c->from, in, z0, ref) != PORTS_OK) {
		++sing;
		continue;
	    }
	    ++nonsing;
	    for (int p = 0; p < n; ++p) {
		/* an input impedance that is (nearly) zero is judged against
		   a thousandth of the port's reference impedance */
		double e = cabs(out[p] - ref[p]) /
		    (cabs(ref[p]) + 1e-3 * cabs(z0[p]));
		/* an input impedance far above or below the reference
		   impedance is the quotient of nearly cancelling quantities
		   whatever the route: conditioning ~ |zin|/|z0| */
		double ratio = cabs(ref[p]) / cabs(z0[p]);
		if (ratio < 1.0)
		    ratio = ratio > 0 ? 1.0 / ratio : 1.0;
		double tol = 1e-9 + 1e3 * 2.2e-16 * ratio;
		if (e * 1e-9 / tol > worst) worst = e * 1e-9 / tol;
		if (!(e <= tol)) {
		    snprintf(sig, sizeof(sig), "zin:%s", c->name);
		    vf_fail(r, sig, "%s n=%d: port %d input impedance %g%+gj "
			    "but terminated-network solve gives %g%+gj "
			    "(matrix #%d, z0 #%d)", c->name, n, p + 1,
			    creal(out[p]), cimag(out[p]), creal(ref[p]),
			    cimag(ref[p]), k, zk);
		}
	    }
	    if (n == 2) {
		double complex o2[2];
		double complex in2[2][2] = { { in[0], in[1] }, { in[2], in[3] } };
		zi2_table[c->from].f(in2, o2, z0);
		for (int p = 0; p < 2; ++p) {
		    double rat = cabs(out[p]) / cabs(z0[p]);
		    if (rat < 1.0)
			rat = rat > 0 ? 1.0 / rat : 1.0;
		    if (cabs(o2[p] - out[p]) > (1e-11 + 1e3 * 2.2e-16 * rat) *
			    cabs(out[p])) {
			snprintf(sig, sizeof(sig), "n2agree:%s", c->name);
			vf_fail(r, sig, "%s at n=2 gives %g%+gj, two-port "
				"function gives %g%+gj (port %d)", c->name,
				creal(out[p]), cimag(out[p]), creal(o2[p]),
				cimag(o2[p]), p + 1);
		    }
		}
	    }
	    continue;
	}
	if (c->fz) c->fz(in, out, z0, n); else c->fnz(in, out, n);
	memcpy(al, in, sizeof(double complex) * (size_t)(n * n));
	if (c->fz) c->fz(al, al, z0, n); else c->fnz(al, al, n);
	r->transitions += 2;
	if (!same_bits(out, al, n * n)) {
	    snprintf(sig, sizeof(sig), "alias:%s", c->name);
	    vf_fail(r, sig, "%s n=%d: in-place result differs from separate "
		    "buffers (matrix #%d)", c->name, n, k);
	}
	int rv = ports_check(n, c->from, in, c->to, out, z0, TOL, SING,
		&resid, &pr);
	if (rv == PORTS_SINGULAR) {
	    ++sing;
	    continue;
	}
	++nonsing;
	if (resid > worst) worst = resid;
	if (rv == PORTS_MISMATCH) {
	    snprintf(sig, sizeof(sig), "relation:%s", c->name);
	    vf_fail(r, sig, "%s n=%d: output violates its defining relation "
		    "(row-wise relative residual %.3Le; matrix #%d, z0 #%d, "
		    "out[0]=%g%+gj)", c->name, n, resid, k, zk,
		    creal(out[0]), cimag(out[0]));
	}
	if (n == 2) {
	    const conv2_t *c2 = find2(c->from, c->to);
	    double complex in2[2][2] = { { in[0], in[1] }, { in[2], in[3] } };
	    double complex o2[2][2];
	    call2(c2, in2, o2, z0);
	    double sc = maxabs(out, 4);
	    for (int i = 0; i < 4; ++i) {
		if (cabs((&o2[0][0])[i] - out[i]) > 1e-11 * sc) {
		    snprintf(sig, sizeof(sig), "n2agree:%s", c->name);
		    vf_fail(r, sig, "%s at n=2 disagrees with %s: cell %d "
			    "%g%+gj vs %g%+gj", c->name, c2->name, i,
			    creal(out[i]), cimag(out[i]),
			    creal((&o2[0][0])[i]), cimag((&o2[0][0])[i]));
		    break;
		}
	    }
	}
    }
    r->nontrivial = nonsing > 0;
    r->states = nonsing;
    vf_outcome(r, "convn n=%d resid%s %s", n, decade(worst),
	    sing ? "some-singular" : "none-singular");
}

static void run(int tier, long idx, vf_result *r)
{
    long a = (long)NCONV2 * NZ0P(tier), b = (long)NZI2 * NZ0P(tier);
    if (idx < a) {
	run_conv2(tier, (int)(idx / NZ0P(tier)), (int)(idx % NZ0P(tier)), r);
    } else if (idx < a + b) {
	idx -= a;
	run_zi2(tier, (int)(idx / NZ0P(tier)), (int)(idx % NZ0P(tier)), r);
    } else {
	idx -= a + b;
	int zk = (int)(idx % NZ0N); idx /= NZ0N;
	int n = (int)(idx % NMAX) + 1; idx /= NMAX;
	run_convn((int)idx, n, zk, r);
    }
}

vf_driver vf_drv = {
    .property = "C04",
    .rule = "case = (vnaconv function, reference-impedance tuple); inside "
	"each case every matrix of the declared alphabet (3^4 quick / 5^4 "
	"thorough entry combinations + 8 structured; 6 generated matrices per "
	"n for n-port) is converted with separate and aliased buffers; a case "
	"is non-trivial when at least one matrix is off the conversion's "
	"singular set (oracle pivot ratio >= 1e-4) so that the defining-"
	"relation residual was actually evaluated; 'states' counts those "
	"matrices, 'transitions' the vnaconv calls made",
    .count = count,
    .run = run,
};
