#!/bin/sh
# Offline set-up: nothing to install; warm the sanitizer build of libvna.
cd "$(dirname "$0")" || exit 1
python3 - <<'PY'
import importlib.util, importlib.machinery, sys
loader = importlib.machinery.SourceFileLoader("check", "./check")
spec = importlib.util.spec_from_loader("check", loader)
m = importlib.util.module_from_spec(spec)
loader.exec_module(m)
print(m.build_lib())
PY
