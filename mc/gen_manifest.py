#!/usr/bin/env python3
"""Regenerates MANIFEST.json from drivers/meta.json (single source)."""
import json, os
V = os.path.dirname(os.path.dirname(os.path.abspath(__file__)))
meta = {}
for f in sorted(os.listdir(os.path.join(V, "drivers", "meta"))):
    if f.endswith(".json"):
        meta[f[:-5]] = json.load(open(os.path.join(V, "drivers", "meta", f)))
props = [json.loads(l) for l in open(os.path.join(V, "properties.jsonl"))]
ready = set(open(os.path.join(V, "drivers", "READY")).read().split())
checks, na = [], []
for p in props:
    pid = p["id"]
    m = meta.get(pid)
    if pid not in ready or not m or not os.path.exists(os.path.join(V, "drivers", pid.lower() + ".c")) or m.get("not_applicable"):
        na.append({"property_id": pid, "reason": (m or {}).get("not_applicable", "check not built yet (work in progress); see DESIGN.md section 3 for the plan")})
        continue
    checks.append({
        "property_id": pid,
        "quick_cmd": "./check %s --tier quick" % pid,
        "thorough_cmd": "./check %s --tier thorough" % pid,
        "evidence_file": "evidence/%s.json" % pid,
        "replay_cmd_template": "./check %s --replay {path}" % pid,
        "engine": m.get("engine", "enum"),
        "level_claimed": {"category": m.get("level", "model_checking"),
                          "text": m["text"], "design_ref": m.get("design_ref", "DESIGN.md section 3, " + pid)},
        "level_note": m["note"],
        "technique": m["technique"],
    })
man = {
    "version": 1,
    "setup_cmd": "./setup.sh",
    "hooks": {
        "guard": "LIBVNA_VERIF",
        "enable": "no source hooks in /repo: ./check compiles /repo/src with -DLIBVNA_VERIF -include harness/vf_shim.h (allocator redirection for leak accounting and fault injection) under clang ASan+UBSan",
        "baseline_off_cmd": "make -C /repo -j16 check",
        "source_commits": [],
        "add_only": True,
    },
    "engines": [
        {"name": "enum", "path": "harness/vf.c", "serves_properties": [c["property_id"] for c in checks if c["engine"] == "enum"],
         "kind_free_text": "exhaustive cross-product enumerator over declared finite alphabets; forked workers, crash attribution, replay-twice-before-report"},
        {"name": "bfs", "path": "harness/vf.c + check (level loop)", "serves_properties": [c["property_id"] for c in checks if c["engine"] == "bfs"],
         "kind_free_text": "explicit-state breadth-first explorer over operation histories replayed on fresh real objects, lock-step reference model, canonical model-state de-duplication"},
        {"name": "fault", "path": "harness/vf_alloc.c", "serves_properties": [c["property_id"] for c in checks if c["engine"] == "fault"],
         "kind_free_text": "exhaustive allocation-fault enumerator (every libvna-site allocation index of every scripted history)"},
    ],
    "checks": checks,
    "not_applicable": na,
    "notes": "All checks rebuild libvna from /repo's working tree (content-hash cache under /var/tmp, optional). VERIF_REPO may point the checks at another copy of the repository.",
}
json.dump(man, open(os.path.join(V, "MANIFEST.json"), "w"), indent=1)
print("checks:", [c["property_id"] for c in checks], "na:", len(na))
