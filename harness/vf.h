/*
 * vf.h: common frame for the bounded-exhaustive drivers.
 *
 * A driver supplies either an indexed finite case space (enum mode) or an
 * operation alphabet plus a history runner (bfs mode).  The frame runs the
 * cases of one shard inside forked workers, attributes crashes (sanitizer
 * reports, asserts, signals, watchdog) to the case that was running,
 * replays every violation twice in a fresh process before reporting it and
 * writes a machine-readable summary for the orchestrator (../check).
 */
#ifndef VF_H
#define VF_H
#include <errno.h>
#include <complex.h>
#include <stddef.h>
#include <stdint.h>
#include <stdbool.h>
#include "vf_alloc.h"

#define VF_OK		0
#define VF_VIOL		2

#define VF_KEYMAX	8192

typedef struct vf_result {
    int  status;		/* VF_OK or VF_VIOL */
    int  nontrivial;		/* non-trivial by the driver's stated rule */
    long transitions;		/* library calls compared against model */
    long states;		/* model states visited in this case */
    char outcome[96];		/* outcome class (for distinct_outcomes) */
    char sig[200];		/* violation signature */
    char msg[1600];		/* human readable violation text */
    char desc[700];		/* description of the case (sample/replay) */
    char key[VF_KEYMAX];	/* bfs: canonical key of the reached state */
    int  prune;			/* bfs: do not extend this history */
} vf_result;

typedef struct vf_driver {
    const char *property;
    const char *rule;
    int bfs;
    /* enum mode */
    long (*count)(int tier);
    void (*run)(int tier, long idx, vf_result *r);
    /* bfs mode */
    int  (*nops)(int tier);
    int  (*maxdepth)(int tier);
    void (*run_hist)(int tier, const int *ops, int n, vf_result *r);
    void (*op_name)(int tier, int op, char *buf, size_t n);
    double timeout_s;		/* per-case watchdog, default 20 */
    void (*init)(int tier);	/* optional one-time set-up */
} vf_driver;

extern vf_driver vf_drv;	/* defined by each driver */

/* violation helpers: first violation wins */
extern void vf_fail(vf_result *r, const char *sig, const char *fmt, ...)
    __attribute__((format(printf, 3, 4)));
extern void vf_outcome(vf_result *r, const char *fmt, ...)
    __attribute__((format(printf, 2, 3)));
extern void vf_desc(vf_result *r, const char *fmt, ...)
    __attribute__((format(printf, 2, 3)));
extern void vf_key_append(vf_result *r, const char *fmt, ...)
    __attribute__((format(printf, 2, 3)));

/* allocation accounting around one explored execution */
extern unsigned long vf_exec_begin(void);
extern void vf_exec_end(vf_result *r, unsigned long mark);

/* recording error callback */
#define VF_ERRLOG_MAX 16
typedef struct vf_errlog {
    int count;			/* all callbacks */
    int nonwarn;		/* callbacks with category != WARNING */
    int category[VF_ERRLOG_MAX];
    int err_no[VF_ERRLOG_MAX];	/* errno at call time */
    char msg[VF_ERRLOG_MAX][160];
    int bad_format;		/* message contained a newline / was empty */
} vf_errlog;
extern /* called from inside vf_errfn when set (not re-entered): a driver's way of
   reading an object through its getters while the library reports an error */
extern void (*vf_errfn_hook)(void);
/* errno value the callback leaves behind (never produced by libvna) */
#define VF_ERRFN_ERRNO EXDEV
void vf_errfn(const char *message, void *arg, int category);
extern void vf_errlog_reset(vf_errlog *l);

/* deterministic value generation */
extern uint64_t vf_seed;	/* VERIF_SEED, default 1 */
extern uint64_t vf_hash64(uint64_t a, uint64_t b);
extern double vf_uniform(uint64_t stream, uint64_t idx);	/* [0,1) */
extern double vf_gauss(uint64_t stream, uint64_t idx);
extern double complex vf_cunit(uint64_t stream, uint64_t idx);	/* |z|<=1 */

/* scratch files private to this worker */
extern const char *vf_tmp(const char *name);
extern int vf_shard;

/* verbose flag set in replay modes */
extern int vf_verbose;
extern void vf_note(const char *fmt, ...)
    __attribute__((format(printf, 1, 2)));

/* decode helper: extract next mixed-radix digit */
static inline int vf_digit(long *idx, int radix)
{
    int d = (int)(*idx % radix);
    *idx /= radix;
    return d;
}

#endif /* VF_H */
